#!/bin/bash
# MANIFEST.setup_cmd: regenerate Gen/ from /repo and build every Lean target (offline).
set -e
cd "$(dirname "$0")"
/venv/bin/python harness/setup_all.py
