/-
lean_exe `drv_io`: runs the C18 model (`Model/IO.lean`) on one request per line.

Request (a `Val`, see Util/Val.lean), one of
  ( W nodes <nodes> out <sarg> outTruthy <T|F> sm <smarg> info [ <info>* ] normM <T|F> normP <T|F>
      url <url> sources [ '<s>* ] plan [ <fault>* ] )
  ( R stream <sarg> info [ <info>* ] tree I<n> plan [ <fault>* ] )
with
  <nodes>  ::= ( single g [ <frag>* ] ) | ( many items [ (N | [ <frag>* ])* ] ) | ( other )
  <frag>   ::= [ '<line>* ]                      the text of a fragment split by splitlines(True)
  <sarg>   ::= ( factory f I<n> s I<n> ) | ( obj s I<n> )
  <smarg>  ::= N | ( same ) | ( other a <sarg> truthy <T|F> )
  <url>    ::= ( dflt ) | ( disabled ) | ( explicit u '<u> )
  <info>   ::= ( S id I<n> name ('<s>|N) enc ('<s>|N) )
  <fault>  ::= ( P prim <prim> k (I<n>|N) cls '<c> msg '<m> syn <T|F> )        k = N: every use fails
  <prim>   ::= ( factory f I ) | ( read s I ) | ( getName s I ) | ( getEncoding s I ) | ( parse ) | ( unparse )
             | ( fragment ) | ( write s I ) | ( writelines s I ) | ( serialise ) | ( b64 ) | ( close s I )

Reply: ( R outcome <outcome> trace [ <event>* ] ) where <outcome> is N (io.write returned), ( ok tree I sourcepath ('s|N) )
or ( exc cls 'c msg 'm syn T|F ).  The uninterpreted functions are instantiated by term builders: a value of
`relpath`, `serialise`, `b64`, `repr` is the string U+0001 followed by the rendering of a `Val` term; the harness
evaluates such terms with the real functions.  `sources` of the request instantiates the sources list of `smWrite`.
-/
import CalmVerif.Util.Val
import CalmVerif.Util.Loop
import CalmVerif.Model.IO
open CalmVerif CalmVerif.IO

namespace IoDrv

def sym (v : Val) : String := String.singleton (Char.ofNat 1) ++ v.render

def oracle (sources : List String) : Oracle where
  relpath b t := sym (.node "relpath" [("b", .str b), ("t", .str t)])
  smWrite nm _ := { mappings := sym (.node "mappings" [("norm", .bool nm)]), sources := sources,
                    names := sym (.node "names" []) }
  serialise f m s n := sym (.node "json" [("file", .str f), ("mappings", .str m),
                                         ("sources", .list (s.map .str)), ("names", .str n)])
  b64 e t := sym (.node "b64" [("enc", .str e), ("text", .str t)])
  reprStr n := sym (.node "repr" [("s", .str n)])
  reprStream s := sym (.node "reprstream" [("s", .int s)])

def getNat (v : Val) (a : String) : Option Nat :=
  match v.attr? a with
  | some (.int n) => if n ≥ 0 then some n.toNat else none
  | _ => none

def getBool (v : Val) (a : String) : Option Bool :=
  match v.attr? a with
  | some (.bool b) => some b
  | _ => none

def getStr (v : Val) (a : String) : Option String :=
  match v.attr? a with
  | some (.str s) => some s
  | _ => none

def getOptStr (v : Val) (a : String) : Option (Option String) :=
  match v.attr? a with
  | some (.str s) => some (some s)
  | some .none => some none
  | _ => none

def getList (v : Val) (a : String) : Option (List Val) :=
  match v.attr? a with
  | some (.list xs) => some xs
  | _ => none

def decFrag : Val → Option Frag
  | .list ls => do
      let lines ← ls.mapM (fun | .str s => some s | _ => none)
      pure { lines := lines }
  | _ => none

def decGen : Val → Option (List Frag)
  | .list fs => fs.mapM decFrag
  | _ => none

def decNodes (v : Val) : Option NodesArg :=
  match v.kind? with
  | some "single" => do
      let g ← v.attr? "g"
      let g ← decGen g
      pure (.single g)
  | some "many" => do
      let items ← getList v "items"
      let items ← items.mapM (fun
        | .none => some none
        | x => (decGen x).map some)
      pure (.many items)
  | some "other" => some .other
  | _ => none

def decSArg (v : Val) : Option StreamArg :=
  match v.kind? with
  | some "factory" => do pure (.factory (← getNat v "f") (← getNat v "s"))
  | some "obj" => do pure (.obj (← getNat v "s"))
  | _ => none

def decSm (v : Val) : Option SmArg :=
  match v with
  | .none => some .none
  | _ =>
    match v.kind? with
    | some "same" => some .same
    | some "other" => do
        let a ← v.attr? "a"
        pure (.other (← decSArg a) (← getBool v "truthy"))
    | _ => none

def decUrl (v : Val) : Option UrlArg :=
  match v.kind? with
  | some "dflt" => some .dflt
  | some "disabled" => some .disabled
  | some "explicit" => do pure (.explicit (← getStr v "u"))
  | _ => none

def decInfo (vs : List Val) : Option (List (Nat × StreamInfo)) :=
  vs.mapM fun v => do
    let id ← getNat v "id"
    pure (id, { name := ← getOptStr v "name", encoding := ← getOptStr v "enc" })

def infoFn (l : List (Nat × StreamInfo)) (s : Sid) : StreamInfo :=
  match l.find? (fun p => p.1 == s) with
  | some p => p.2
  | none => {}

def decPrim (v : Val) : Option Prim :=
  match v.kind? with
  | some "factory" => do pure (.factory (← getNat v "f"))
  | some "read" => do pure (.read (← getNat v "s"))
  | some "getName" => do pure (.getName (← getNat v "s"))
  | some "getEncoding" => do pure (.getEncoding (← getNat v "s"))
  | some "parse" => some .parse
  | some "unparse" => some .unparse
  | some "fragment" => some .fragment
  | some "write" => do pure (.write (← getNat v "s"))
  | some "writelines" => do pure (.writelines (← getNat v "s"))
  | some "serialise" => some .serialise
  | some "b64" => some .b64
  | some "close" => do pure (.close (← getNat v "s"))
  | _ => none

structure FaultEntry where
  prim : Prim
  k : Option Nat
  exc : Exc

def decFault (v : Val) : Option FaultEntry := do
  let p ← v.attr? "prim"
  let p ← decPrim p
  let k ← (match v.attr? "k" with
    | some .none => some none
    | some (.int n) => if n ≥ 0 then some (some n.toNat) else none
    | _ => none : Option (Option Nat))
  pure { prim := p, k := k,
         exc := { cls := ← getStr v "cls", msg := ← getStr v "msg", isSyntax := ← getBool v "syn" } }

def planOf (l : List FaultEntry) : Plan := fun p k =>
  (l.find? (fun e => e.prim == p && (e.k == none || e.k == some k))).map (·.exc)

def encPrim : Prim → Val
  | .factory f => .node "factory" [("f", .int f)]
  | .read s => .node "read" [("s", .int s)]
  | .getName s => .node "getName" [("s", .int s)]
  | .getEncoding s => .node "getEncoding" [("s", .int s)]
  | .parse => .node "parse" []
  | .unparse => .node "unparse" []
  | .fragment => .node "fragment" []
  | .write s => .node "write" [("s", .int s)]
  | .writelines s => .node "writelines" [("s", .int s)]
  | .serialise => .node "serialise" []
  | .b64 => .node "b64" []
  | .close s => .node "close" [("s", .int s)]

def encExc (e : Exc) : Val :=
  .node "exc" [("cls", .str e.cls), ("msg", .str e.msg), ("syn", .bool e.isSyntax)]

def encEvent : Event → Val
  | .opened f s => .node "opened" [("f", .int f), ("s", .int s)]
  | .read s => .node "read" [("s", .int s)]
  | .wrote s x => .node "wrote" [("s", .int s), ("x", .str x)]
  | .wrotelines s xs => .node "wrotelines" [("s", .int s), ("xs", .list (xs.map .str))]
  | .closed s => .node "closed" [("s", .int s)]
  | .fault p k e => .node "fault" [("p", encPrim p), ("k", .int k), ("e", encExc e)]

def reply (outcome : Val) (st : St) : String :=
  (Val.node "R" [("outcome", outcome), ("trace", .list (st.trace.map encEvent))]).render

def handleWrite (v : Val) : Option String := do
  let nodes ← decNodes (← v.attr? "nodes")
  let out ← decSArg (← v.attr? "out")
  let sm ← decSm (← v.attr? "sm")
  let info ← decInfo (← getList v "info")
  let url ← decUrl (← v.attr? "url")
  let sources ← (← getList v "sources").mapM (fun | .str s => some s | _ => none)
  let plan ← (← getList v "plan").mapM decFault
  let a : WArr := { nodes := nodes, output := out, outTruthy := ← getBool v "outTruthy", sourcemap := sm,
                    info := infoFn info, normMappings := ← getBool v "normM", normPaths := ← getBool v "normP",
                    url := url }
  let (r, st) := runWrite (oracle sources) (planOf plan) a
  pure (match r with
    | .ok _ => reply .none st
    | .error e => reply (encExc e) st)

def handleRead (v : Val) : Option String := do
  let stream ← decSArg (← v.attr? "stream")
  let info ← decInfo (← getList v "info")
  let plan ← (← getList v "plan").mapM decFault
  let a : RArr := { stream := stream, info := infoFn info, tree := ← getNat v "tree" }
  let (r, st) := runRead (oracle []) (planOf plan) a
  pure (match r with
    | .ok res => reply (.node "ok" [("tree", .int res.tree),
          ("sourcepath", match res.sourcepath with | some n => .str n | none => .none)]) st
    | .error e => reply (encExc e) st)

def handle (line : String) : String :=
  match Val.parse (Proto.words line) with
  | some (v, []) =>
    match v.kind? with
    | some "W" => (handleWrite v).getD "ERR bad-write-request"
    | some "R" => (handleRead v).getD "ERR bad-read-request"
    | _ => "ERR unknown-request"
  | _ => "ERR parse"

end IoDrv

def main : IO Unit := lineLoop IoDrv.handle
