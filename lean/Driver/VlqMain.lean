/-
lean_exe `drv_vlq`: line-protocol driver for Model.Vlq (the model of
calmjs.parse.vlq) and Spec.VlqV3 (the independent Source Map V3 codec).
Imports no proofs and no Mathlib.

One request per line, one reply line.  Tokens are separated by single spaces.
  <int>   decimal integer, optional leading `-`
  <str>   Proto.encStr token: leading apostrophe, letters/digits/`_` literal, every
          other character as `%<hex code point>;`  (so `+` is `%2b;`, `/` is `%2f;`)
  <val>   Util.Val wire form; a mappings structure is a list of lines, a line a list
          of segments, a segment a list of `I<int>`:   [ [ [ I0 I1 ] [ I-2 ] ] [ ] ]

Requests on the MODEL (mirror of the Python functions):
  enc <int>          encode_vlq      ->  OK <str>        | EXC <err>
  encs <int>*        encode_vlqs     ->  OK <str>        | EXC <err>
  dec <str>          decode_vlqs     ->  OK <int>*       | EXC <err>
  dec1 <str>         decode_vlq      ->  OK <int>        | EXC <err>
  encmap <val>       encode_mappings ->  OK <str>        | EXC <err>
  decmap <str>       decode_mappings ->  OK <val>        | EXC <err>
  consts             the generated constants: OK <MULTI_CHAR> <SHIFT> <CONT> <CONT_MASK> <BASE_MASK> <str INT_B64>
Requests on the SPEC:
  specenc <int>      Spec.VlqV3.encode      -> OK <str>
  specencs <int>*    Spec.VlqV3.encodeList  -> OK <str>
  specdec <str>      Spec.VlqV3.decode      -> OK <int>* | NONE
  canon <str>        Spec.VlqV3.Canonical   -> T | F
  wf <val>           Spec.VlqV3.WFMappings  -> T | F

<err> (small enum):  KeyError <decimal code point> | IndexError | StopIteration | NonTermination
Anything else: `ERR <reason>`.
-/
import CalmVerif.Util.Proto
import CalmVerif.Util.Val
import CalmVerif.Util.Loop
import CalmVerif.Model.Vlq
import CalmVerif.Spec.VlqV3

open CalmVerif CalmVerif.Proto

namespace VlqDrv
open CalmVerif.Model.Vlq

def showErr : Err → String
  | .keyError c => "KeyError " ++ toString c.toNat
  | .indexError => "IndexError"
  | .stopIteration => "StopIteration"
  | .nonTermination => "NonTermination"

def showInts (l : List Int) : String := " ".intercalate (l.map toString)

def okInts (l : List Int) : String := if l.isEmpty then "OK" else "OK " ++ showInts l

def okStr (cs : List Char) : String := "OK " ++ encStr (String.ofList cs)

def replyStr : Except Err (List Char) → String
  | .ok cs => okStr cs
  | .error e => "EXC " ++ showErr e

def replyInts : Except Err (List Int) → String
  | .ok l => okInts l
  | .error e => "EXC " ++ showErr e

def parseInts : List String → Option (List Int)
  | [] => some []
  | t :: ts =>
    match decInt t, parseInts ts with
    | some i, some is => some (i :: is)
    | _, _ => none

def valInts : List Val → Option (List Int)
  | [] => some []
  | .int n :: vs => (valInts vs).map (n :: ·)
  | _ => none

def valSegs : List Val → Option (List (List Int))
  | [] => some []
  | .list xs :: vs =>
    match valInts xs, valSegs vs with
    | some s, some r => some (s :: r)
    | _, _ => none
  | _ => none

def valLines : List Val → Option (List (List (List Int)))
  | [] => some []
  | .list xs :: vs =>
    match valSegs xs, valLines vs with
    | some s, some r => some (s :: r)
    | _, _ => none
  | _ => none

def parseMappings (ts : List String) : Option Mappings :=
  match Val.parse ts with
  | some (.list ls, []) => valLines ls
  | _ => none

def mappingsVal (m : Mappings) : Val :=
  .list (m.map fun line => .list (line.map fun seg => .list (seg.map Val.int)))

def oneStr (args : List String) : Option (List Char) :=
  match args with
  | [t] => (decStr t).map String.toList
  | _ => none

def handle (line : String) : String :=
  match words line with
  | [] => "ERR empty request"
  | cmd :: args =>
    if cmd == "enc" then
      match args with
      | [t] => match decInt t with
        | some i => replyStr (encodeVlq i)
        | none => "ERR bad integer"
      | _ => "ERR enc takes one integer"
    else if cmd == "encs" then
      match parseInts args with
      | some l => replyStr (encodeVlqs l)
      | none => "ERR bad integer"
    else if cmd == "dec" then
      match oneStr args with
      | some s => replyInts (decodeVlqs s)
      | none => "ERR dec takes one string token"
    else if cmd == "dec1" then
      match oneStr args with
      | some s => match decodeVlq s with
        | .ok i => "OK " ++ toString i
        | .error e => "EXC " ++ showErr e
      | none => "ERR dec1 takes one string token"
    else if cmd == "encmap" then
      match parseMappings args with
      | some m => replyStr (encodeMappings m)
      | none => "ERR bad mappings structure"
    else if cmd == "decmap" then
      match oneStr args with
      | some s => match decodeMappings s with
        | .ok m => "OK " ++ (mappingsVal m).render
        | .error e => "EXC " ++ showErr e
      | none => "ERR decmap takes one string token"
    else if cmd == "consts" then
      match args with
      | [] => "OK " ++ " ".intercalate ([Gen.Vlq.VLQ_MULTI_CHAR, Gen.Vlq.VLQ_SHIFT, Gen.Vlq.VLQ_CONT,
                Gen.Vlq.VLQ_CONT_MASK, Gen.Vlq.VLQ_BASE_MASK].map toString)
              ++ " " ++ encStr (String.ofList Gen.Vlq.INT_B64)
      | _ => "ERR consts takes no argument"
    else if cmd == "specenc" then
      match args with
      | [t] => match decInt t with
        | some i => okStr (Spec.VlqV3.encode i)
        | none => "ERR bad integer"
      | _ => "ERR specenc takes one integer"
    else if cmd == "specencs" then
      match parseInts args with
      | some l => okStr (Spec.VlqV3.encodeList l)
      | none => "ERR bad integer"
    else if cmd == "specdec" then
      match oneStr args with
      | some s => match Spec.VlqV3.decode s with
        | some l => okInts l
        | none => "NONE"
      | none => "ERR specdec takes one string token"
    else if cmd == "canon" then
      match oneStr args with
      | some s => if Spec.VlqV3.Canonical s then "T" else "F"
      | none => "ERR canon takes one string token"
    else if cmd == "wf" then
      match parseMappings args with
      | some m => if Spec.VlqV3.WFMappings m then "T" else "F"
      | none => "ERR bad mappings structure"
    else "ERR unknown request " ++ cmd

end VlqDrv

def main : IO Unit := lineLoop VlqDrv.handle
