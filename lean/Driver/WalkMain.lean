/-
drv_walk: line protocol over Model.Walk with the generated table Gen.Children.table.

  walk <tree>                    -> OK <item>*            model of list(Walker().walk(t))
  filter <kinds> <tree>          -> OK <item>*            condition: kind ∈ kinds (comma separated, `-` = none)
  extract <kinds> <skip> <tree>  -> OK <item> | NOMATCH   Walker().extract(t, cond, skip)
  pre <tree> / prefull <tree>    -> OK <item>*            preorderAll / preorderFull (the specification)
  wf <tree>                      -> T | F                 hypotheses of the theorems (wf and distinctNames true)
  cover                          -> T | F                 coverTable of the generated table
  item = <@id or -1>/<Kind>/<path>, path = root-first steps `attr.index` joined by `,` (`.` for the empty path)
  errors: ERR unknownKind|attributeError|typeError|notNode|fuel|parse|request
-/
import CalmVerif.Util.Val
import CalmVerif.Util.Loop
import CalmVerif.Model.Walk
open CalmVerif CalmVerif.Model.Walk

def tbl : Table := CalmVerif.Gen.Children.table

def errName : Err → String
  | .unknownKind => "unknownKind"
  | .attributeError => "attributeError"
  | .typeError => "typeError"
  | .notNode => "notNode"
  | .fuel => "fuel"

def showPath (p : Path) : String :=
  if p.isEmpty then "." else ",".intercalate (p.reverse.map fun s => s.1 ++ "." ++ toString s.2)

def showItem (e : Path × Val) : String :=
  let id : Int := match e.2.attr? "@id" with
    | some (.int n) => n
    | _ => -1
  let k := match e.2 with
    | .node k _ => k
    | .none => "None"
    | .list _ => "list"
    | _ => "scalar"
  toString id ++ "/" ++ k ++ "/" ++ showPath e.1

def showOut : Except Err Out → String
  | .error e => "ERR " ++ errName e
  | .ok l => " ".intercalate ("OK" :: l.map showItem)

def kindCond (ks : String) : Val → Bool :=
  let set := if ks == "-" then [] else ks.splitOn ","
  fun v => match v with
    | .node k _ => set.contains k
    | _ => false

def withTree (ws : List String) (f : Val → String) : String :=
  match Val.parse ws with
  | some (v, []) => f v
  | _ => "ERR parse"

def handle (line : String) : String :=
  match Proto.words line with
  | ["cover"] => if coverTable tbl then "T" else "F"
  | "walk" :: ws => withTree ws fun t => showOut (walk tbl t)
  | "pre" :: ws => withTree ws fun t => showOut (.ok (preorderAll tbl t))
  | "prefull" :: ws => withTree ws fun t => showOut (.ok (preorderFull tbl t))
  | "wf" :: ws => withTree ws fun t => if wf tbl t && distinctNames true t then "T" else "F"
  | "filter" :: ks :: ws => withTree ws fun t => showOut (filter tbl (kindCond ks) t)
  | "extract" :: ks :: sk :: ws =>
      match sk.toInt? with
      | none => "ERR request"
      | some skip => withTree ws fun t =>
          match extract tbl (kindCond ks) t skip with
          | .found p v => "OK " ++ showItem (p, v)
          | .noMatch => "NOMATCH"
          | .error e => "ERR " ++ errName e
  | _ => "ERR request"

def main : IO Unit := lineLoop handle
