/-
drv_extract: line protocol for Model/Extract.lean and Spec/Json.lean.

  extract <0|1> <tree>     model of ast_to_dict(tree, fold_ops) on a dumped tree
                           → `OK <pyval>` | `EXC <PythonExceptionName>` | `UNMODELLED <'reason>`
  json <'text>             Spec.Json value of a JSON text, as the Python value json.loads returns
                           → `OK <pyval>` | `NOTJSON`
  tree <'text>             the tree the model expects the ES5 parser to build for a JSON text
                           → `OK <tree>` | `NOTJSON`
  class <'text>            exclusion predicates on the strings / member names of a JSON text
                           → `OK <a:0|1> <b:0|1>` (KF-19a solidus escape, KF-19b escaped surrogate pair) | `NOTJSON`
  lit <'text>              pyLiteralEval of a String / Number node text → as `extract`

Canonical rendering of Python values (space separated tokens):
  N  T  F  i<int>  f<sign><odd mantissa>p<binary exponent>  (f+0p0, f-0p0)  f+inf  f-inf
  s'<enc>   string, code points written like Proto.encStr (`%<hex>;` for everything but [A-Za-z0-9_],
            so lone surrogates are representable)
  C<name>   class object
  [ v* ]  list     { k v k v … }  dict in INSERTION order     < k v … >  AssignmentList
-/
import CalmVerif.Util.Loop
import CalmVerif.Util.Val
import CalmVerif.Model.Extract
open CalmVerif CalmVerif.Model.Extract

namespace ExtractDrv

def encCps : List Nat → List Char
  | [] => []
  | n :: rest =>
    if n < 0x110000 && !(0xD800 ≤ n && n ≤ 0xDFFF) && Proto.isPlain (Char.ofNat n) then Char.ofNat n :: encCps rest
    else ('%' :: Proto.toHex n) ++ (';' :: encCps rest)

def renderF : F64 → String
  | .fin n m e => "f" ++ (if n then "-" else "+") ++ toString m ++ "p" ++ toString e
  | .inf n => "f" ++ (if n then "-" else "+") ++ "inf"

mutual
  def toks : PyVal → List String
    | .none => ["N"]
    | .bool true => ["T"]
    | .bool false => ["F"]
    | .int i => ["i" ++ toString i]
    | .float f => [renderF f]
    | .str s => ["s'" ++ String.ofList (encCps s)]
    | .cls n => ["C" ++ n]
    | .list xs => "[" :: (toksList xs ++ ["]"])
    | .dict kvs => "{" :: (toksPairs kvs ++ ["}"])
    | .asgList kvs => "<" :: (toksPairs kvs ++ [">"])
  def toksList : List PyVal → List String
    | [] => []
    | v :: vs => toks v ++ toksList vs
  def toksPairs : List (PyVal × PyVal) → List String
    | [] => []
    | (k, v) :: rest => toks k ++ toks v ++ toksPairs rest
end

def render (v : PyVal) : String := " ".intercalate (toks v)

def renderErr : Err → String
  | .unmodelled w => "UNMODELLED " ++ Proto.encStr w
  | .syntaxError => "EXC SyntaxError"
  | .valueError => "EXC ValueError"
  | .typeError => "EXC TypeError"
  | .attributeError => "EXC AttributeError"
  | .indexError => "EXC IndexError"
  | .runtimeError => "EXC RuntimeError"
  | .fuel => "ERR fuel"

def withJson (tok : String) (k : Spec.Json.Syn → String) : String :=
  match Proto.decStr tok with
  | none => "ERR bad string token"
  | some s =>
    match Spec.Json.parseText s.toList with
    | some j => k j
    | none => "NOTJSON"

def handle (line : String) : String :=
  match Proto.words line with
  | "extract" :: f :: rest =>
    if f != "0" && f != "1" then "ERR fold flag" else
    match Val.parse rest with
    | some (t, []) =>
      match extract (f == "1") t with
      | .ok d => "OK " ++ render (.dict d)
      | .error e => renderErr e
    | _ => "ERR bad tree"
  | ["json", tok] =>
    withJson tok fun j =>
      match Spec.Json.value j with
      | some v => "OK " ++ render (ofJson (Spec.Json.canon v))
      | none => "NOTJSON"
  | ["tree", tok] =>
    withJson tok fun j =>
      match Spec.Json.value j with
      | some _ => "OK " ++ Val.render (treeOf j)
      | none => "NOTJSON"
  | ["class", tok] =>
    withJson tok fun j =>
      "OK " ++ (if anyBody hasSolidusEscape j then "1" else "0") ++ " " ++
        (if anyBody hasSurrogatePair j then "1" else "0")
  | ["lit", tok] =>
    match Proto.decStr tok with
    | none => "ERR bad string token"
    | some s =>
      match pyLiteralEval s.toList with
      | .ok v => "OK " ++ render v
      | .error e => renderErr e
  | _ => "ERR unknown request"

end ExtractDrv

def main : IO Unit := lineLoop ExtractDrv.handle
