/-
drv_sm : line-protocol driver for C09 (source map writer model + Source Map V3 spec decoder).

One request per line, one reply line.  Strings are `Proto.encStr` tokens (`'…`).

  write <0|1> <frag>*            normalize flag, then 5 tokens per fragment:
                                   'text  N|<nat>  N|<nat>  N|'name  N|X|'source
                                 (N = None, X = NotImplemented)
        → OK L<n>:<mappings> | <source tokens> | <name tokens>
          mappings: lines joined by `;`, segments by `,`, fields by `.`
        → EXC                    the model raised (IndexError in normalize)
  wf <frag>*                     → OK <0|1> <0|1>   Model `wfStream` (both-or-none + NoSplitCRLF), `noSplitCRLF` alone
  genpos <'text>*                → OK l.c l.c …   Spec.genPos of every text (zero-based)
  linecount <'text>              → OK <n>         Spec.lineCount
  rel <'mappings-string>         → OK L<n>:<mappings>  (Spec base64-VLQ reader)  | ERR undecodable
  decode <'mappings-string>      → OK L<n>:<entries>   entries `g` | `g.s.l.c` | `g.s.l.c.n`
                                   (absolute values, Spec.decodeString)          | ERR undecodable
  query <'mappings-string> (<line> <col>)*
        → OK <exact>/<interp> …  exact = entry or `-`, interp = `s.l.c` or `-`
  names <N|'name>*               → OK <delta|N>* | <key tokens>   `Names.update` applied in sequence
  cell <int> <op>*               ops `s<int>` (`bk.x = v`), `r<int>` (`bk._x = v`) on a cell first set to <int>
                                 → OK <rel>.<abs> …  (`bk.x`, `bk._x` after each op)
  classes                        → OK brk:<hex,…> nl:<hex,…> ws:<hex,…>  (all code points of pyClasses)
Anything else: ERR <reason>.
-/
import CalmVerif.Util.Proto
import CalmVerif.Util.Loop
import CalmVerif.Model.SourceMap
import CalmVerif.Spec.SourceMapV3
open CalmVerif CalmVerif.Proto
open CalmVerif.Model.SourceMap
open CalmVerif.Spec

def optNat (t : String) : Option (Option Nat) :=
  if t == "N" then some none else (decNat t).map some

def parseFrags : List String → Option (List Frag)
  | [] => some []
  | t :: l :: c :: n :: s :: rest => do
    let text ← decStr t
    let ln ← optNat l
    let cn ← optNat c
    let name ← if n == "N" then some none else (decStr n).map (fun x => some x.toList)
    let src ← if s == "N" then some none
              else if s == "X" then some (some Src.invalid)
              else (decStr s).map (fun x => some (Src.path x.toList))
    let r ← parseFrags rest
    pure ({ text := text.toList, lineno := ln, colno := cn, name := name, source := src } :: r)
  | _ => none

def renderSeg (s : List Int) : String := ".".intercalate (s.map toString)
def renderLine (l : List (List Int)) : String := ",".intercalate (l.map renderSeg)
def renderMappings (m : List (List (List Int))) : String :=
  "L" ++ toString m.length ++ ":" ++ ";".intercalate (m.map renderLine)

def renderEntry (e : SourceMapV3.Entry) : String :=
  match e.src, e.name with
  | none, _ => toString e.genCol
  | some (s, l, c), none => renderSeg [e.genCol, s, l, c]
  | some (s, l, c), some n => renderSeg [e.genCol, s, l, c, n]

def renderEntries (m : List (List SourceMapV3.Entry)) : String :=
  "L" ++ toString m.length ++ ":" ++
    ";".intercalate (m.map fun l => ",".intercalate (l.map renderEntry))

def strToks (l : List (List Char)) : String :=
  " ".intercalate (l.map fun s => encStr (String.ofList s))

def queries (m : List (List SourceMapV3.Entry)) : List String → Option (List String)
  | [] => some []
  | l :: c :: rest => do
    let ln ← decNat l
    let cn ← decInt c
    let line := SourceMapV3.lineAt m ln
    let ex := match SourceMapV3.exactAt line cn with
      | some e => renderEntry e
      | none => "-"
    let ip := match SourceMapV3.interp line cn with
      | some (s, l, k) => renderSeg [s, l, k]
      | none => "-"
    let r ← queries m rest
    pure ((ex ++ "/" ++ ip) :: r)
  | _ => none

def namesRun (n : Names (List Char)) : List String → Option (List String × Names (List Char))
  | [] => some ([], n)
  | t :: rest =>
    if t == "N" then (namesRun n rest).map fun (r, n') => ("N" :: r, n')
    else match decStr t with
      | none => none
      | some x =>
        let u := n.update (some x.toList)
        (namesRun u.1 rest).map fun (r, n') => ((match u.2 with | some d => toString d | none => "N") :: r, n')

def cellRun (c : Cell) : List String → Option (List String)
  | [] => some []
  | t :: rest =>
    match t.toList with
    | 's' :: ds => match (String.ofList ds).toInt? with
      | some v => let c' := c.set v; (cellRun c' rest).map (fun r => (toString c'.rel ++ "." ++ toString c'.abs) :: r)
      | none => none
    | 'r' :: ds => match (String.ofList ds).toInt? with
      | some v => let c' := Cell.reset v; (cellRun c' rest).map (fun r => (toString c'.rel ++ "." ++ toString c'.abs) :: r)
      | none => none
    | _ => none

def hexList (p : Char → Bool) : String :=
  let cps := (List.range 0x110000).filter fun n =>
    (n < 0xD800 || n > 0xDFFF) && p (Char.ofNat n)
  ",".intercalate (cps.map fun n => String.ofList (toHex n))

def handle (line : String) : String :=
  match words line with
  | "write" :: nf :: rest =>
    match (if nf == "0" then some false else if nf == "1" then some true else none), parseFrags rest with
    | some nrm, some frags =>
      match write pyClasses nrm frags with
      | some r => "OK " ++ renderMappings r.mappings ++ " | " ++ strToks r.sources ++ " | " ++ strToks r.names
      | none => "EXC"
    | _, _ => "ERR bad-write-request"
  | "wf" :: rest =>
    match parseFrags rest with
    | some frags => "OK " ++ (if wfStream frags then "1" else "0") ++ " " ++
        (if noSplitCRLF false (frags.map (·.text)) then "1" else "0")
    | none => "ERR bad-frags"
  | "genpos" :: rest =>
    match (rest.map decStr).foldr (fun o acc => match o, acc with
        | some s, some l => some (s.toList :: l) | _, _ => none) (some []) with
    | some texts =>
      "OK " ++ " ".intercalate ((List.range texts.length).map fun i =>
        let p := SourceMapV3.genPos texts i
        toString p.1 ++ "." ++ toString p.2)
    | none => "ERR bad-texts"
  | ["linecount", t] =>
    match decStr t with
    | some s => "OK " ++ toString (SourceMapV3.lineCount s.toList)
    | none => "ERR bad-text"
  | ["rel", t] =>
    match decStr t with
    | some s => match SourceMapV3.stringToRelative s.toList with
      | some m => "OK " ++ renderMappings m
      | none => "ERR undecodable"
    | none => "ERR bad-string"
  | ["decode", t] =>
    match decStr t with
    | some s => match SourceMapV3.decodeString s.toList with
      | some m => "OK " ++ renderEntries m
      | none => "ERR undecodable"
    | none => "ERR bad-string"
  | "query" :: t :: rest =>
    match decStr t with
    | some s => match SourceMapV3.decodeString s.toList with
      | some m => match queries m rest with
        | some r => "OK " ++ " ".intercalate r
        | none => "ERR bad-query"
      | none => "ERR undecodable"
    | none => "ERR bad-string"
  | "names" :: rest =>
    match namesRun Names.empty rest with
    | some (r, n) => "OK " ++ " ".intercalate r ++ " | " ++ strToks n.keys
    | none => "ERR bad-names"
  | "cell" :: i :: rest =>
    match decInt i with
    | some v => match cellRun (Cell.reset v) rest with
      | some r => "OK " ++ " ".intercalate r
      | none => "ERR bad-cell-op"
    | none => "ERR bad-cell-init"
  | ["classes"] =>
    "OK brk:" ++ hexList pyClasses.brk ++ " nl:" ++ hexList pyClasses.nl ++ " ws:" ++ hexList pyClasses.ws
  | _ => "ERR unknown-request"

def main : IO Unit := lineLoop handle
