/-
drv_unparse: line-protocol driver of the unparser model.

  unparse  <ruleset> <indent> <tree>          fragment list of list(printer(tree))
  text     <ruleset> <indent> <tree>          ''.join(fragment texts)
  unparseR <ruleset> <indent> <names> <tree>  as `unparse`, the Resolve hook (Obfuscator.resolve)
                                              answers with the next name of the list `names`
  chunks   <ruleset> <indent> <tree>          number of chunks of phase 1 and final Indentator level
  tailsafe <ruleset> <indent> <tree>          the hypotheses of ends_with_one_newline_partial on this tree:
                                              OK <tailSafe T|F> <tokensCleanB T|F>
  linesok  <ruleset> <indent> <tree>          statement and hypotheses of pretty_lines_indented on this tree:
                                              OK <checkLines T|F> <lineStartsStable T|F> <tokensEdgeB T|F> <indentOK T|F>
  treeok   <ruleset> <indent> <tree>          tree-level hypotheses of the C20 theorems:
                                              OK <valAll lineSafe T|F> <valAll braceFree T|F> <no Case/Default T|F>
  typedok  <ruleset> <indent> <tree>          tree-level hypotheses of pretty_lines_indented_typed /
                                              pretty_text_ends_with_one_newline_typed:
                                              OK <wfVal (es5Slot) T|F> <valAll endsOK T|F>
  rulesets                                    the rule set ids

<ruleset>  id of Gen.Rules.ruleSets; <indent> = N (None) or an encoded string ('…);
<tree>     Val wire format (treedump.dump(node, pos=True, tokmap=True, comments=True)).
Reply      OK [ [ text line col name source ] … ]  with None → N, NotImplemented → ( NotImplemented ),
           or ERR <PythonExceptionClass|unmodelled|fuel> <detail>.
-/
import CalmVerif.Model.UnparseInst
import CalmVerif.Model.UnparseAux
import CalmVerif.Model.TokenAdj
import CalmVerif.Util.Loop
open CalmVerif CalmVerif.Unparse CalmVerif.Proto

def optInt : Option Int → Val
  | some n => .int n
  | none => .none

def optStr : Option String → Val
  | some s => .str s
  | none => .none

def srcVal : Src → Val
  | .none => .none
  | .notImpl => .node "NotImplemented" []
  | .path p => .str p

def fragVal (f : Frag) : Val :=
  .list [.str f.text, optInt f.line, optInt f.col, optStr f.name, srcVal f.source]

def errStr : Err → String
  | .attributeError w => "ERR AttributeError " ++ encStr w
  | .keyError k => "ERR KeyError " ++ encStr k
  | .typeError w => "ERR TypeError " ++ encStr w
  | .indexError => "ERR IndexError"
  | .unmodelled w => "ERR unmodelled " ++ encStr w
  | .fuel => "ERR fuel"

def parseIndent (tok : String) : Option (Option String) :=
  if tok == "N" then some none else (decStr tok).map some

/-- Resolve hook fed from a list of names (state = the names not yet used) -/
def listResolve : Path → Val → List String → Except Err (Val × List String)
  | _, _, [] => .error (.unmodelled "resolve hook: name list exhausted")
  | _, _, n :: rest => .ok (.str n, rest)

def strList : Val → Option (List String)
  | .list xs => xs.mapM (fun v => match v with
      | .str s => some s
      | _ => none)
  | _ => none

def withTree (toks : List String) (k : Val → String) : String :=
  match Val.parse toks with
  | some (v, []) => k v
  | some (_, _) => "ERR request trailing tokens"
  | none => "ERR request bad tree"

def handle (line : String) : String :=
  match words line with
  | ["rulesets"] => "OK " ++ " ".intercalate (Gen.Rules.ruleSets.map (·.name))
  | cmd :: rsName :: ind :: rest =>
    match findRuleSet rsName, parseIndent ind with
    | none, _ => "ERR request unknown rule set"
    | _, none => "ERR request bad indent"
    | some rs, some indent =>
      if cmd == "unparse" then
        withTree rest fun tree =>
          match unparse (mkCfg tablesGen rs indent defaultResolve) tree () with
          | .ok fs => "OK " ++ (Val.list (fs.map fragVal)).render
          | .error e => errStr e
      else if cmd == "text" then
        withTree rest fun tree =>
          match unparse (mkCfg tablesGen rs indent defaultResolve) tree () with
          | .ok fs => "OK " ++ encStr (textOf fs)
          | .error e => errStr e
      else if cmd == "chunks" then
        withTree rest fun tree =>
          let cfg := mkCfg tablesGen rs indent defaultResolve
          match walkChunks cfg tree () with
          | .ok (cs, _) => s!"OK {cs.length} {(flushAll cfg cs none [] 0).2}"
          | .error e => errStr e
      else if cmd == "tailsafe" then
        withTree rest fun tree =>
          let cfg := mkCfg tablesGen rs indent defaultResolve
          match walkChunks cfg tree () with
          | .ok (cs, _) =>
            let a := tailSafe (normalize cfg.layout (trailing cs []))
            let b := tokensCleanB cs
            "OK " ++ (if a then "T" else "F") ++ " " ++ (if b then "T" else "F")
          | .error e => errStr e
      else if cmd == "linesok" then
        withTree rest fun tree =>
          let cfg := mkCfg tablesGen rs indent defaultResolve
          let b (x : Bool) := if x then "T" else "F"
          match walkChunks cfg tree () with
          | .ok (cs, _) =>
            let ind := effIndent cfg.hd cfg.indentStr
            "OK " ++ b (checkLines ind (flushAll cfg cs none [] 0).1 (printingDepths cs 0) (some [])) ++ " " ++
              b (lineStartsStable cs) ++ " " ++ b (tokensEdgeB cs) ++ " " ++ b (indentOK ind)
          | .error e => errStr e
      else if cmd == "treeok" then
        withTree rest fun tree =>
          let b (x : Bool) := if x then "T" else "F"
          "OK " ++ b (valAll lineSafe anyStr tree) ++ " " ++ b (valAll braceFree anyStr tree) ++ " " ++
            b (valAll anyStr notCaseKind tree)
      else if cmd == "typedok" then
        withTree rest fun tree =>
          let b (x : Bool) := if x then "T" else "F"
          "OK " ++ b (TokenAdj.wfVal (TokenAdj.mkCtx Gen.Rules.rs_indent Gen.Defs.definitions []) tree) ++ " " ++
            b (valAll endsOK anyStr tree)
      else if cmd == "unparseR" then
        match Val.parse rest with
        | some (names, rest') =>
          match strList names with
          | none => "ERR request bad name list"
          | some ns =>
            withTree rest' fun tree =>
              match unparse (mkCfg tablesGen rs indent listResolve) tree ns with
              | .ok fs => "OK " ++ (Val.list (fs.map fragVal)).render
              | .error e => errStr e
        | none => "ERR request bad name list"
      else "ERR request unknown command"
  | _ => "ERR request"

def main : IO Unit := lineLoop handle
