/-
drv_parse: LR driver model + semantic-action model on recorded token traces (stage S2b).

request:  parse <cfg> <wc> NL <k> <idx>*k  EV <event>*
          cfg ∈ {cached, fresh, reopt};  wc = 0|1 (with_comments)
          NL: the lexer's newline_idx list (for lookup_colno)
          event = <T|!> <type> <'value> <lexpos> <lineno> <colno> <lexposAfter> <linenoAfter> <nh> (<htype> <'hvalue> <hlexpos> <hlineno> <hcolno>)*nh
                  T = delivered by lexer.token(), ! = returned by p_error (with errok), E = lexer.token() returned None
          text <wc> <'text>                  the full composed model Model.Parser.parse (lexer + LR + actions)
reply:    OK <tree, canonical Val wire format>   (| SYNTAX <'msg> | REGEXSYNTAX <'msg> | MODELGAP … for `text`)
        | ERROR@<events consumed>            syntax error not repaired by the trace
        | PRODERR <'message>                 ProductionError raised by a semantic action
        | INTERNAL <what> | FUEL | BADREQ <why>
-/
import CalmVerif.Util.Loop
import CalmVerif.Util.Val
import CalmVerif.Model.Grammar
import CalmVerif.Model.Actions
import CalmVerif.Gen.Actions
import CalmVerif.Model.Parser
open CalmVerif CalmVerif.Model CalmVerif.Model.LR CalmVerif.Model.Actions

structure Ev where
  injected : Bool
  eof : Bool := false
  tok : Tok
  after : Nat × Nat

structure Src where
  evs : List Ev
  consumed : Nat
  cur : Nat × Nat

inductive PErr where
  | syntax (consumed : Nat)
  | act (e : Actions.Err)

def traceSource : Source Tok Src PErr :=
  { next := fun s => match s.evs with
      | e :: r =>
        if e.injected then .ok (none, s)
        else if e.eof then .ok (none, { evs := r, consumed := s.consumed + 1, cur := e.after })
        else .ok (some e.tok, { evs := r, consumed := s.consumed + 1, cur := e.after })
      | [] => .ok (none, s),
    onError := fun s _ => match s.evs with
      | e :: r => if e.injected then .ok (some e.tok, { evs := r, consumed := s.consumed + 1, cur := e.after })
                  else .error (.syntax s.consumed)
      | [] => .error (.syntax s.consumed) }

def parseNat (s : String) : Option Nat := s.toNat?
def parseInt (s : String) : Option Int := s.toInt?

/-- parse `n` hidden tokens -/
def parseHidden : Nat → List String → Option (List (String × String × Nat × Nat × Int) × List String)
  | 0, ws => some ([], ws)
  | n + 1, ty :: v :: lp :: ln :: col :: rest => do
    let value ← Proto.decStr v
    let a ← parseNat lp
    let b ← parseNat ln
    let c ← parseInt col
    let (hs, rest') ← parseHidden n rest
    pure ((ty, value, a, b, c) :: hs, rest')
  | _, _ => none

def parseEvents : Nat → List String → Option (List Ev)
  | _, [] => some []
  | 0, _ => none
  | fuel + 1, flag :: ty :: v :: lp :: ln :: col :: la :: lna :: nh :: rest => do
    let value ← Proto.decStr v
    let a ← parseNat lp
    let b ← parseNat ln
    let c ← parseInt col
    let d ← parseNat la
    let e ← parseNat lna
    let n ← parseNat nh
    let (hs, rest') ← parseHidden n rest
    let evs ← parseEvents fuel rest'
    let inj ← if flag == "T" || flag == "E" then some false else if flag == "!" then some true else none
    pure ({ injected := inj, eof := flag == "E", tok := { type := ty, value := value, lexpos := a, lineno := b, colno := c, hidden := hs },
            after := (d, e) } :: evs)
  | _, _ => none

def splitAt (ws : List String) (key : String) : Option (List String × List String) :=
  let pre := ws.takeWhile (· != key)
  let post := ws.dropWhile (· != key)
  match post with
  | _ :: r => some (pre, r)
  | [] => none

def handle (line : String) : String :=
  match Proto.words line with
  | "parse" :: cfg :: wc :: "NL" :: rest =>
    let T? := if cfg == "cached" then some Grammar.cached else if cfg == "fresh" then some Grammar.fresh
              else if cfg == "reopt" then some Grammar.reopt else none
    match T?, splitAt rest "EV" with
    | some T, some (nlws, evws) =>
      match nlws with
      | _ :: idxs =>
        match idxs.mapM parseNat, parseEvents (evws.length + 1) evws with
        | some nl, some evs =>
          let lookupCol : Nat → Nat → Option Int := fun lineno lexpos =>
            if lineno = 0 then none else (nl[lineno - 1]?).map fun i => (lexpos : Int) - (i : Int) + 1
          let sem : Sem Tok PVal Src PErr :=
            { ty := fun t => (Grammar.termIdx t.type).getD T.numTerminals,
              leaf := Actions.leaf,
              reduce := fun p args src =>
                match Actions.reduce Gen.Actions.actions (wc == "1") lookupCol p args src.cur with
                | .ok v => .ok v
                | .error e => .error (.act e) }
          let fuel := 60 * (evs.length + 2) + 1000
          let (o, _) := run T sem traceSource fuel (initConfig { evs := evs, consumed := 0, cur := (0, 1) })
          match o with
          | .accepted v => "OK " ++ (Actions.canon v.v).render
          | .error (.syntax n) => "ERROR@" ++ toString n
          | .error (.act (.production m)) => "PRODERR " ++ Proto.encStr m
          | .error (.act (.internal w)) => "INTERNAL " ++ w
          | .internal w => "INTERNAL driver:" ++ w
          | .recovery => "RECOVERY"
          | .outOfFuel => "FUEL"
        | none, _ => "BADREQ newline index"
        | _, none => "BADREQ events"
      | [] => "BADREQ NL"
    | none, _ => "BADREQ config"
    | _, none => "BADREQ no EV"
  | ["text", wc, enc] =>
    match Proto.decStr enc with
    | some t =>
      match Parser.parse t.toList (wc == "1") with
      | .accepted v => "OK " ++ (Actions.canon v.v).render
      | .error (.lex (.syntax m)) => "SYNTAX " ++ Proto.encStr m
      | .error (.lex (.regexSyntax m)) => "REGEXSYNTAX " ++ Proto.encStr m
      | .error (.lex (.internal k)) => "INTERNAL " ++ k
      | .error (.lex (.modelGap w)) => "MODELGAP " ++ w
      | .error (.lex .outOfFuel) => "FUEL lexer"
      | .error (.act (.production m)) => "SYNTAX " ++ Proto.encStr m
      | .error (.act (.internal w)) => "INTERNAL " ++ w
      | .internal w => "INTERNAL driver:" ++ w
      | .recovery => "RECOVERY"
      | .outOfFuel => "FUEL"
    | none => "BADREQ text"
  | _ => "BADREQ"

def main : IO Unit := lineLoop handle
