/-
drv_spec: line-protocol driver of the independent ES5.1 reference (Spec/ only; no Gen, no Model).

Requests (text arguments are Proto.encStr tokens):
  parse <text>             → OK <tree in Val wire format> | ERR <offset> <reason>
  tokens <text>            → OK [ [ class text offset line col nlBefore ] … ] COMMENTS [ [ kind text offset ] … ] | ERR <offset> <reason>
                             (tokens as classified during parsing: a `/` is a Punct `/`, `/=` or starts a Regex)
  asi <text>               → OK [ offsets at which a semicolon was inserted ] | ERR <offset> <reason>
  linecol <text> <offset>  → <line> <col>
  lex <text> [<goals>]     → stand-alone tokenisation, same reply shape as `tokens`; <goals> is an encStr of
                             `d`/`r` letters, consumed one per token that starts with `/` (default d)
-/
import CalmVerif.Util.Val
import CalmVerif.Util.Loop
import CalmVerif.Spec.Lines
import CalmVerif.Spec.Es5Parse
open CalmVerif CalmVerif.Spec CalmVerif.Spec.Es5

/-! linear-time rendering (same output as `Val.render`, which is quadratic on deep left-nested trees) -/
mutual
  def toksAcc : Val → List String → List String
    | .none, acc => "N" :: acc
    | .bool true, acc => "T" :: acc
    | .bool false, acc => "F" :: acc
    | .int n, acc => ("I" ++ toString n) :: acc
    | .str s, acc => Proto.encStr s :: acc
    | .list xs, acc => "[" :: toksListAcc xs ("]" :: acc)
    | .node k as, acc => "(" :: k :: toksAttrsAcc as (")" :: acc)
  def toksListAcc : List Val → List String → List String
    | [], acc => acc
    | v :: vs, acc => toksAcc v (toksListAcc vs acc)
  def toksAttrsAcc : List (String × Val) → List String → List String
    | [], acc => acc
    | (a, v) :: rest, acc => a :: toksAcc v (toksAttrsAcc rest acc)
end

def renderFast (v : Val) : String := " ".intercalate (toksAcc v [])

def errLine (e : Nat × String) : String := s!"ERR {e.1} {e.2}"

def tokVal (starts : List Nat) (t : Token) : Val :=
  let lc := Lines.lineColFrom starts t.off
  .list [.str t.cls.name, .str t.text, .int t.off, .int lc.1, .int lc.2, .bool t.nlBefore]

def commentVal (c : Comment) : Val :=
  .list [.str (match c.kind with | .line => "Line" | .block => "Block"), .str c.text, .int c.off]

def tokensReply (text : List Char) (toks : Array Token) (cms : Array Comment) : String :=
  let starts := Lines.lineStarts text
  "OK " ++ renderFast (Val.list (toks.toList.map (tokVal starts))) ++ " COMMENTS " ++
    renderFast (Val.list (cms.toList.map commentVal))

def handle (l : String) : String :=
  match Proto.words l with
  | ["parse", t] =>
    match Proto.decStr t with
    | some s =>
      match parseProgram s.toList with
      | .ok out => "OK " ++ renderFast out.tree
      | .error e => errLine e
    | none => "ERR bad-text-argument"
  | ["tokens", t] =>
    match Proto.decStr t with
    | some s =>
      let text := s.toList
      match parseProgram text with
      | .ok out => tokensReply text out.tokens out.comments
      | .error e => errLine e
    | none => "ERR bad-text-argument"
  | ["asi", t] =>
    match Proto.decStr t with
    | some s =>
      match parseProgram s.toList with
      | .ok out => "OK " ++ renderFast (Val.list (out.asis.toList.map (fun n => Val.int (Int.ofNat n))))
      | .error e => errLine e
    | none => "ERR bad-text-argument"
  | ["linecol", t, o] =>
    match Proto.decStr t, Proto.decNat o with
    | some s, some off => let lc := Lines.lineCol s.toList off; s!"{lc.1} {lc.2}"
    | _, _ => "ERR bad-argument"
  | "lex" :: t :: more =>
    let goals? : Option (List Bool) := match more with
      | [] => some []
      | [g] => (Proto.decStr g).bind fun gs =>
          if gs.toList.all (fun c => c == 'd' || c == 'r') then some (gs.toList.map (· == 'r')) else none
      | _ => none
    match Proto.decStr t, goals? with
    | some s, some goals =>
      let text := s.toList
      let n := text.length
      match lexAll (n + 2) (n + 1) text 0 goals #[] #[] with
      | .ok (toks, cms) => tokensReply text toks cms
      | .error e => errLine e
    | _, _ => "ERR bad-argument"
  | _ => "ERR unknown-request"

def main : IO Unit := lineLoop handle
