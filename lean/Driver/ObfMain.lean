/-
drv_obf: line-protocol driver of the obfuscation model (Model/Obfuscate.lean) and of the ES5 binding
resolution (Spec/Scope.lean).

  obf   <og> <sf> <kw> <tree>      the Obfuscator after prewalk_hook.  og, sf ∈ {0,1} = obfuscate_globals,
                                   shadow_funcname; kw = K (reserved keywords of minify_printer, Gen.ObfData)
                                   or E (none: rules.obfuscate() defaults)
        reply  OK <scope> [ [path value scopeId resolved] … ]      identifiers in registration order
        <scope> = ( Scope id I kind 'func|'catch node 'path|N sym 's|N usage I|N refs [ [name count] … ]
                    decl [ … ] remapped [ [name new] … ] children [ <scope> … ] )   (dicts / sets sorted)
  frags <ruleset> <indent> <og> <sf> <kw> <tree>     list(printer(tree)) of the obfuscating printer
        reply  as drv_unparse `unparse`
  gen   <charset> <n> <skip list>  the first n symbols of NameGenerator(skip, charset)
        reply  OK [ names ]
  scope <tree>                     Spec.Scope binding resolution
        reply  OK <T|F: uses with / direct eval> [ [path name [ [kind scopePath name] … ]] … ]
  agree <og> <sf> <kw> <tree>      ScopeAgree of the model's scope tree with Spec.Scope
        reply  OK T|F
  preserved <og> <sf> <kw> <tree>  does the model's renaming preserve the binding structure (Spec.Scope of the renamed
                                   tree against Spec.Scope of the original, Proofs/ObfRename.lean `bindingPreserved`)
        reply  OK T|F
  aligned <og> <sf> <kw> <tree>    `alignedOf` (Proofs/ObfBindCond.lean): the decidable agreement of the obfuscator's tables with
                                   ES5 scoping on the program (hypothesis of `binding_preserved_partial`);  reply OK T|F
  excluded <og> <tree>             the program is in one of the three recorded deviation classes (Proofs/ObfExcluded.lean);
                                   reply OK <T|F> <kfA T|F> <kfB T|F> <kfC T|F> <kfE T|F>
  facts <og> <sf> <kw> <tree>      the walk facts of a SIMPLE program (Proofs/ObfFacts.lean `factsOf`; false for programs with a catch
                                   clause, a label or a named function expression);  reply OK T|F
  errors: ERR <PythonExceptionClass|unmodelled|fuel> <detail>,  ERR request …

Paths are written root first as `attr.index/attr.index/…` (the empty path is the empty string).
-/
import CalmVerif.Proofs.ObfBindCond
import CalmVerif.Proofs.ObfExcluded
import CalmVerif.Proofs.ObfFacts
import CalmVerif.Util.Loop
open CalmVerif CalmVerif.Unparse CalmVerif.Proto CalmVerif.Obf

def optInt : Option Int → Val
  | some n => .int n
  | none => .none

def optStr : Option String → Val
  | some s => .str s
  | none => .none

def srcVal : Src → Val
  | .none => .none
  | .notImpl => .node "NotImplemented" []
  | .path p => .str p

def fragVal (f : Frag) : Val :=
  .list [.str f.text, optInt f.line, optInt f.col, optStr f.name, srcVal f.source]

def errStr : Err → String
  | .attributeError w => "ERR AttributeError " ++ encStr w
  | .keyError k => "ERR KeyError " ++ encStr k
  | .typeError w => "ERR TypeError " ++ encStr w
  | .indexError => "ERR IndexError"
  | .unmodelled w => "ERR unmodelled " ++ encStr w
  | .fuel => "ERR fuel"

/-- root-first path as text -/
def pathStr (p : List (String × Nat)) : String :=
  "/".intercalate (p.map (fun s => s.1 ++ "." ++ toString s.2))

def sortStrs (l : List String) : List String := (l.toArray.qsort (· < ·)).toList

def sortPairs {β : Type} (l : List (String × β)) : List (String × β) :=
  (l.toArray.qsort (fun a b => a.1 < b.1)).toList

partial def scopeVal : RTree → Val
  | .mk id node kind refs ldecl rm children =>
    .node "Scope" [
      ("id", .int id),
      ("kind", .str (match kind with | .func => "func" | .catch _ _ => "catch")),
      ("node", match node with | some p => .str (pathStr p.reverse) | none => .none),
      ("sym", match kind with | .func => .none | .catch s _ => .str s),
      ("usage", match kind with | .func => .none | .catch _ u => .int u),
      ("refs", .list ((sortPairs refs).map (fun p => .list [.str p.1, .int p.2]))),
      ("decl", .list ((sortStrs ldecl).map Val.str)),
      ("remapped", .list ((sortPairs rm).map (fun p => .list [.str p.1, .str p.2]))),
      ("children", .list (children.map scopeVal))]

/-- the value at a root-first path -/
def getAt (v : Val) : List (String × Nat) → Option Val
  | [] => some v
  | (a, i) :: rest =>
    match nodeAttr v a with
    | some (.list xs) => (xs[i]?).bind (fun x => getAt x rest)
    | some x => if i == 0 then getAt x rest else none
    | none => none

def identVal (fin : Final) (tree : Val) (e : Path × Nat) : Except Err Val :=
  match getAt tree e.1.reverse with
  | none => Except.error (.unmodelled "identifier path not found")
  | some node =>
    match resolveIdent fin e.1 node, getattrVal node "value" with
    | .ok r, .ok v => Except.ok (Val.list [.str (pathStr e.1.reverse), v, .int e.2, r])
    | .error err, _ => Except.error err
    | _, .error err => Except.error err

def identsVal (fin : Final) (tree : Val) : Except Err Val :=
  (fin.identifiers.reverse.mapM (identVal fin tree)).map Val.list

def parseFlags (og sf kw : String) : Option Flags :=
  let b (s : String) : Option Bool := if s == "0" then some false else if s == "1" then some true else none
  match b og, b sf with
  | some o, some s =>
    if kw == "K" then some { obfuscateGlobals := o, shadowFuncname := s, reserved := Gen.ObfData.reservedKeywords }
    else if kw == "E" then some { obfuscateGlobals := o, shadowFuncname := s, reserved := Gen.ObfData.rulesObfuscateReserved }
    else none
  | _, _ => none

def withTree (toks : List String) (k : Val → String) : String :=
  match Val.parse toks with
  | some (v, []) => k v
  | some (_, _) => "ERR request trailing tokens"
  | none => "ERR request bad tree"

def strList : Val → Option (List String)
  | .list xs => xs.mapM (fun v => match v with
      | .str s => some s
      | _ => none)
  | _ => none

def parseIndent (tok : String) : Option (Option String) :=
  if tok == "N" then some none else (decStr tok).map some

def binderVal (b : Spec.Scope.Binder) : Val :=
  .list [.str (match b.kind with
    | .global => "global" | .var => "var" | .self => "self" | .catch => "catch" | .args => "args"
    | .free => "free" | .label => "label" | .nolabel => "nolabel"), .str (pathStr b.scope), .str b.name]

def handle (line : String) : String :=
  match words line with
  | "obf" :: og :: sf :: kw :: rest =>
    match parseFlags og sf kw with
    | none => "ERR request bad flags"
    | some fl => withTree rest fun tree =>
      match prewalkHook tablesGen fl tree with
      | .error e => errStr e
      | .ok fin =>
        match identsVal fin tree with
        | .error e => errStr e
        | .ok ids => "OK " ++ (scopeVal fin.tree).render ++ " " ++ ids.render
  | "agree" :: og :: sf :: kw :: rest =>
    match parseFlags og sf kw with
    | none => "ERR request bad flags"
    | some fl => withTree rest fun tree =>
      match prewalkHook tablesGen fl tree with
      | .error e => errStr e
      | .ok fin => if scopeAgree fin tree then "OK T" else "OK F"
  | "preserved" :: og :: sf :: kw :: rest =>
    match parseFlags og sf kw with
    | none => "ERR request bad flags"
    | some fl => withTree rest fun tree =>
      match prewalkHook tablesGen fl tree with
      | .error e => errStr e
      | .ok fin =>
        if bindingIso fl.obfuscateGlobals (Spec.Scope.resolveProgram tree)
            (Spec.Scope.resolveProgram (renameVal fin [] tree)) then "OK T" else "OK F"
  | "aligned" :: og :: sf :: kw :: rest =>
    match parseFlags og sf kw with
    | none => "ERR request bad flags"
    | some fl => withTree rest fun tree =>
      match alignedOf fl tree with
      | some true => "OK T"
      | some false => "OK F"
      | none => "ERR prewalk"
  | "facts" :: og :: sf :: kw :: rest =>
    match parseFlags og sf kw with
    | none => "ERR request bad flags"
    | some fl => withTree rest fun tree =>
      match factsOf fl tree with
      | some true => "OK T"
      | some false => "OK F"
      | none => "ERR prewalk"
  | "excluded" :: og :: rest =>
    if og != "0" && og != "1" then "ERR request bad flags"
    else withTree rest fun tree =>
      let b (x : Bool) : String := if x then "T" else "F"
      "OK " ++ b (excluded (og == "1") tree) ++ " " ++ b (kfA tree) ++ " " ++ b (kfB (og == "1") tree) ++ " " ++ b (kfC tree) ++ " " ++ b (kfE (og == "1") tree)
  | "frags" :: rsName :: ind :: og :: sf :: kw :: rest =>
    match findRuleSet rsName, parseIndent ind, parseFlags og sf kw with
    | none, _, _ => "ERR request unknown rule set"
    | _, none, _ => "ERR request bad indent"
    | _, _, none => "ERR request bad flags"
    | some rs, some indent, some fl => withTree rest fun tree =>
      match obfUnparse tablesGen rs indent fl tree with
      | .ok fs => "OK " ++ (Val.list (fs.map fragVal)).render
      | .error e => errStr e
  | "gen" :: cs :: n :: rest =>
    match decStr cs, n.toNat?, Val.parse rest with
    | some charset, some k, some (sk, []) =>
      match strList sk with
      | none => "ERR request bad skip list"
      | some skip =>
        match draw charset.toList skip k with
        | .ok names => "OK " ++ (Val.list (names.map Val.str)).render
        | .error e => errStr e
    | _, _, _ => "ERR request gen"
  | "scope" :: rest =>
    withTree rest fun tree =>
      let occs := Spec.Scope.resolveProgram tree
      "OK " ++ (if Spec.Scope.usesWithOrEval tree then "T" else "F") ++ " " ++
        (Val.list (occs.map (fun o => Val.list [.str (pathStr o.path), .str o.name,
          .list (o.binders.map binderVal)]))).render
  | _ => "ERR request"

def main : IO Unit := lineLoop handle
