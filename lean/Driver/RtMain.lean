/-
drv_rt: line protocol over Model/TokenAdj.lean (lexical layer of C01 / C02).

  wf <tree>        -> T | F <Kind>.<attr>      `wfVal` — the tree respects the slot typing `es5Slot` (the hypothesis of
                                               the `*_stream_typed` theorems; the same for all three rule sets);
                                               on F the first offending (kind, attribute) in document order
  sig <'text>      -> OK <code>                `tcCode (sig text)`: the boundary signature of a fragment text
  errors: ERR parse | ERR request
-/
import CalmVerif.Util.Val
import CalmVerif.Util.Loop
import CalmVerif.Model.TokenAdj
open CalmVerif CalmVerif.Unparse CalmVerif.TokenAdj

def cx0 : Ctx := mkCtx Gen.Rules.rs_indent Gen.Defs.definitions []

mutual
  /-- first attribute whose value is not of its slot's type (diagnostics only; the verdict is `wfVal`) -/
  def firstBad : Val → Option String
    | .node k as => firstBadAttrs k as
    | .list xs => firstBadList xs
    | _ => none
  def firstBadList : List Val → Option String
    | [] => none
    | v :: vs => match firstBad v with
      | some s => some s
      | none => firstBadList vs
  def firstBadAttrs (k : String) : List (String × Val) → Option String
    | [] => none
    | (a, v) :: rest =>
      if printedAttr a && !slotOK (cx0.slot k (slotKey a)) v then some (k ++ "." ++ a)
      else if printedAttr a then
        match firstBad v with
        | some s => some s
        | none => firstBadAttrs k rest
      else firstBadAttrs k rest
end

def handle (line : String) : String :=
  match Proto.words line with
  | "wf" :: ws =>
    match Val.parse ws with
    | some (v, []) => if wfVal cx0 v then "T" else "F " ++ (firstBad v).getD "?"
    | _ => "ERR parse"
  | ["sig", t] =>
    match Proto.decStr t with
    | some s => "OK " ++ toString (tcCode (sig s))
    | none => "ERR parse"
  | _ => "ERR request"

def main : IO Unit := lineLoop handle
