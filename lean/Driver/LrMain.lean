/-
drv_lr: the LR driver model on recorded look-ahead traces.

request:  lr <cfg> <event>*        cfg ∈ {cached, fresh, reopt}
          event = TERMINAL         a token type delivered by lexer.token()
                | !TERMINAL        a token type returned by p_error (with errok)
reply:    <outcome> <reductions…>  outcome ∈ ACCEPT | ERROR@<number of events consumed> | INTERNAL:<what> | FUEL
          reductions = production numbers in order
          BADREQ <why> for a malformed request
-/
import CalmVerif.Util.Loop
import CalmVerif.Model.Grammar
open CalmVerif CalmVerif.Model CalmVerif.Model.LR

inductive Ev where
  | tok (t : Nat)
  | inj (t : Nat)

structure Src where
  evs : List Ev
  consumed : Nat

def traceSource : Source Nat Src Nat :=
  { next := fun s => match s.evs with
      | .tok t :: r => .ok (some t, { evs := r, consumed := s.consumed + 1 })
      | _ => .ok (none, s),
    onError := fun s _ => match s.evs with
      | .inj t :: r => .ok (some t, { evs := r, consumed := s.consumed + 1 })
      | _ => .error s.consumed }

/-- semantic values: the list of reductions so far is threaded through a counter-free log -/
def logSem : Sem Nat (List Nat) Src Nat :=
  { ty := id, leaf := fun _ => [], reduce := fun p args _ => .ok (args.foldl (· ++ ·) [] ++ [p]) }

def parseEvents (ws : List String) : Option (List Ev) :=
  ws.mapM fun w =>
    match w.toList with
    | '!' :: rest => (Grammar.termIdx (String.ofList rest)).map Ev.inj
    | _ => (Grammar.termIdx w).map Ev.tok

def handle (line : String) : String :=
  match Proto.words line with
  | "lr" :: cfg :: evs =>
    let T? := if cfg == "cached" then some Grammar.cached else if cfg == "fresh" then some Grammar.fresh
              else if cfg == "reopt" then some Grammar.reopt else none
    match T?, parseEvents evs with
    | some T, some es =>
      let fuel := 50 * (es.length + 2) + 1000
      let (o, _) := run T logSem traceSource fuel (initConfig { evs := es, consumed := 0 })
      match o with
      | .accepted v => "ACCEPT " ++ " ".intercalate (v.map toString)
      | .error n => "ERROR@" ++ toString n
      | .internal w => "INTERNAL:" ++ w
      | .recovery => "RECOVERY"
      | .outOfFuel => "FUEL"
    | none, _ => "BADREQ config"
    | _, none => "BADREQ unknown terminal"
  | _ => "BADREQ"

def main : IO Unit := lineLoop handle
