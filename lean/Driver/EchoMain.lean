import CalmVerif.Util.Val
import CalmVerif.Util.Loop
open CalmVerif
/-- self-test driver: parses a Val and renders it back -/
def main : IO Unit := lineLoop fun l =>
  match Val.parse (Proto.words l) with
  | some (v, []) => v.render
  | _ => "ERR"
