/-
lean_exe `drv_lex`: line-protocol driver for Model.Lexer (the model of calmjs.parse.lexers.es5.Lexer)
and the independent references of Spec.LinesRef.  Imports no proofs and no Mathlib.

One request per line, one reply line; tokens separated by single spaces; strings in Proto.encStr form.

  lex <yc> <wc> <str>
      standalone iteration `list(Lexer(with_comments=wc, yield_comments=yc))` over the text.
      reply  <status> <tokens>
        <tokens> = [ tok* ]           the tokens produced before the iteration stopped
        tok      = [ '<type> '<value> I<lexpos> I<lineno> I<colno> hidden ]     hidden = [ tok* ] (comments, [] if none)
        <status> = OK
                 | ERR ECMASyntaxError '<message>
                 | ERR ECMARegexSyntaxError '<message>
                 | INTERNAL <python exception class>
                 | GAP '<what the model does not cover>
                 | FUEL
  script <yc> <wc> <str> <op>,<op>,…
      a scripted session on one lexer object (how the parser drives it):
        t          token()                      -> the token or N;  remembered as `last`
        a          auto_semi(last)              -> the inserted token or N
        A          auto_semi(None)              -> the inserted token
        b          backtracked_token(1)         -> the token or N; remembered as `last`
        c<l>:<p>   lookup_colno(l, p)           -> I<colno>
      reply  <status> [ result* ] <state>   with the results up to the first exception; <state> only when OK:
        <state> = [ I<lexpos> I<lineno> [ I<newline_idx>* ] [ [ <marker type or N> I<inner> ]* ] I<len(next_tokens)> I<len(hidden_tokens)> ]
        (token_stack bottom first)
  linecol <str> <offset>
      Spec.LinesRef.lineCol -> OK I<line> I<col>
  classes <hex code point>
      membership of the character in the generated classes: OK <name>* (sorted)
Anything else: `ERR <reason>`.
-/
import CalmVerif.Util.Proto
import CalmVerif.Util.Val
import CalmVerif.Util.Loop
import CalmVerif.Model.Lexer
import CalmVerif.Spec.LinesRef

open CalmVerif CalmVerif.Proto

namespace LexDrv
open CalmVerif.Model.Lexer CalmVerif.Model.TokenRegex CalmVerif.Model.PlyLex

def commentVal (c : Comment) : Val :=
  .list [.str c.type, .str (String.ofList c.value), .int c.lexpos, .int c.lineno, .int c.colno, .list []]

def tokVal (t : Token) : Val :=
  .list [.str t.type, .str (String.ofList t.value), .int t.lexpos, .int t.lineno, .int t.colno,
         .list (t.hidden.map commentVal)]

def optTokVal : Option Token → Val
  | some t => tokVal t
  | none => .none

def statusOf : Option Err → String
  | none => "OK"
  | some (.syntax m) => "ERR ECMASyntaxError " ++ encStr m
  | some (.regexSyntax m) => "ERR ECMARegexSyntaxError " ++ encStr m
  | some (.internal k) => "INTERNAL " ++ k
  | some (.modelGap w) => "GAP " ++ encStr w
  | some .outOfFuel => "FUEL"

def flag (w : String) : Option Bool :=
  if w = "0" then some false else if w = "1" then some true else none

def stateVal (st : LexState) : Val :=
  .list [.int st.lexpos, .int st.lineno, .list (st.newlineIdx.map (fun (n : Nat) => Val.int n)),
         .list (st.tokenStack.reverse.map (fun p =>
           Val.list [match p.1 with | some t => Val.str t.type | none => Val.none, Val.int p.2])),
         .int st.nextTokens.length, .int st.hiddenTokens.length]

inductive Op where
  | tok | autoSemi | autoSemiNone | backtrack
  | colno (lineno lexpos : Nat)

def parseOp (w : String) : Option Op :=
  if w = "t" then some .tok
  else if w = "a" then some .autoSemi
  else if w = "A" then some .autoSemiNone
  else if w = "b" then some .backtrack
  else
    match w.toList with
    | 'c' :: rest =>
      match (String.ofList rest).splitOn ":" with
      | [l, p] =>
        match l.toNat?, p.toNat? with
        | some l, some p => some (.colno l p)
        | _, _ => none
      | _ => none
    | _ => none

def parseOps (w : String) : Option (List Op) :=
  (w.splitOn ",").mapM parseOp

/-- runs the script; results in order, the exception that stopped it, the final state -/
def runScript : List Op → LexState → Option Token → List Val → List Val × Option Err × LexState
  | [], st, _, acc => (acc.reverse, none, st)
  | op :: ops, st, last, acc =>
    match op with
    | .tok =>
      match token st with
      | .error e => (acc.reverse, some e, st)
      | .ok (r, st1) => runScript ops st1 r (optTokVal r :: acc)
    | .autoSemi =>
      let (r, st1) := autoSemi st last
      runScript ops st1 last (optTokVal r :: acc)
    | .autoSemiNone =>
      let (r, st1) := autoSemi st none
      runScript ops st1 last (optTokVal r :: acc)
    | .backtrack =>
      match backtrackedToken st 1 with
      | .error e => (acc.reverse, some e, st)
      | .ok (r, st1) => runScript ops st1 r (optTokVal r :: acc)
    | .colno l p =>
      match lookupColno st l p with
      | .error e => (acc.reverse, some e, st)
      | .ok c => runScript ops st last (Val.int c :: acc)

def classNames : List (String × List (Nat × Nat)) :=
  open CalmVerif.Gen.LexData in
  [("idStart", idStart), ("idPart", idPart), ("reSpace", reSpace), ("pyIsSpace", pyIsSpace),
   ("pyPrintable", pyPrintable), ("lineTerm", lineTerm)]

def handle (line : String) : String :=
  match words line with
  | ["lex", yc, wc, txt] =>
    match flag yc, flag wc, decStr txt with
    | some yc, some wc, some t =>
      let (toks, err) := lexStandalone t.toList wc yc
      statusOf err ++ " " ++ (Val.list (toks.map tokVal)).render
    | _, _, _ => "ERR bad arguments"
  | ["script", yc, wc, txt, ops] =>
    match flag yc, flag wc, decStr txt, parseOps ops with
    | some yc, some wc, some t, some ops =>
      let (res, err, st) := runScript ops (init t.toList wc yc) none []
      statusOf err ++ " " ++ (Val.list res).render ++
        (if err.isNone then " " ++ (stateVal st).render else "")
    | _, _, _, _ => "ERR bad arguments"
  | ["linecol", txt, off] =>
    match decStr txt, off.toNat? with
    | some t, some o =>
      let (l, c) := CalmVerif.Spec.LinesRef.lineCol t.toList o
      "OK I" ++ toString l ++ " I" ++ toString c
    | _, _ => "ERR bad arguments"
  | ["classes", hex] =>
    match decChars ('%' :: hex.toList ++ [';']) with
    | some [c] =>
      "OK " ++ " ".intercalate ((classNames.filter (fun p => inRanges p.2 c)).map (·.1))
    | _ => "ERR bad code point"
  | _ => "ERR unknown request"

end LexDrv

def main : IO Unit := lineLoop LexDrv.handle
