import CalmVerif.Proofs.RoundTripSepPrettyA
import CalmVerif.Proofs.RoundTripSepPrettyB
namespace CalmVerif.TokenAdj

/-- D: every two token signatures that the pretty printer can print with exactly one layout marker between them are
separated by white space, or boundary-safe, or one of the known findings (none occurs for the pretty rule set beyond
KF-01 and the artefacts of `directOK`); no line break directly follows a restricted keyword -/
theorem sep_safe_pretty : sepOKPretty followPretty = true := by
  simp only [sepOKPretty, sep_safe_prettyA, sep_safe_prettyB, Bool.and_self]

end CalmVerif.TokenAdj
