/-
The lexer's token regular expressions versus rt's signature classifier `TokenAdj.sig`: the signature of an
identifier / number / string / regular-expression / comment lexeme is in the class the slot typing expects.
-/
import CalmVerif.Proofs.TokenTextsShape
import CalmVerif.Model.TokenAdj

namespace CalmVerif.Proofs.TokenTexts
open CalmVerif CalmVerif.TokenAdj
open CalmVerif.Proofs.LexerEnds

/-! ### the two copies of the character tables agree -/

theorem inRanges_bridge (rs : List (Nat × Nat)) (c : Char) :
    Unparse.inRanges c.toNat rs = Model.TokenRegex.inRanges rs c := by
  induction rs with
  | nil => simp [Unparse.inRanges, Model.TokenRegex.inRanges]
  | cons p rest ih =>
    obtain ⟨a, b⟩ := p
    simp only [Unparse.inRanges, ih]
    simp [Model.TokenRegex.inRanges]

theorem ascii_agree :
    (List.range 128).all (fun n =>
      (Unparse.inRanges n idStartAscii == Unparse.inRanges n Gen.LexData.idStart) &&
      (Unparse.inRanges n idPartAscii == Unparse.inRanges n Gen.LexData.idPart)) = true := by
  decide +kernel

theorem isIdStart_bridge (c : Char) : TokenAdj.isIdStart c = Model.TokenRegex.isIdStart c := by
  unfold TokenAdj.isIdStart Model.TokenRegex.isIdStart
  split
  · rename_i hlt
    have := List.all_eq_true.mp ascii_agree c.toNat (List.mem_range.mpr hlt)
    simp only [Bool.and_eq_true, beq_iff_eq] at this
    rw [this.1, inRanges_bridge]
  · exact inRanges_bridge _ _

theorem isIdPart_bridge (c : Char) : TokenAdj.isIdPart c = Model.TokenRegex.isIdPart c := by
  unfold TokenAdj.isIdPart Model.TokenRegex.isIdPart
  split
  · rename_i hlt
    have := List.all_eq_true.mp ascii_agree c.toNat (List.mem_range.mpr hlt)
    simp only [Bool.and_eq_true, beq_iff_eq] at this
    rw [this.2, inRanges_bridge]
  · exact inRanges_bridge _ _

/-! ### characters -/

theorem isDigit_iff (c : Char) : isDigit c = true ↔ 48 ≤ c.toNat ∧ c.toNat ≤ 57 := by
  unfold isDigit
  simp only [Bool.and_eq_true, decide_eq_true_eq]
  constructor
  · intro ⟨h1, h2⟩
    have a : '0'.toNat ≤ c.toNat := h1
    have b : c.toNat ≤ '9'.toNat := h2
    exact ⟨a, b⟩
  · intro ⟨h1, h2⟩
    exact ⟨h1, h2⟩

theorem char_eq_of_toNat (c : Char) (n : Nat) (h : c.toNat = n) : c = Char.ofNat n := by
  rw [← h, Char.ofNat_toNat]

/-- ASCII letters, digits and `_` -/
def alnum : List (Nat × Nat) := [(48, 57), (65, 90), (95, 95), (97, 122)]

/-- D: in the generated `required_space` class table every ASCII letter, digit and `_` is in the class of `a` -/
theorem alnum_class_a :
    (List.range 128).all (fun n =>
      !(Unparse.inRanges n alnum) || Unparse.spaceClassOf (Char.ofNat n) == Unparse.spaceClassOf 'a') = true := by
  decide +kernel

theorem charKind_alnum (c : Char) (h : Unparse.inRanges c.toNat alnum = true) : charKind c = 0 := by
  have hlt : c.toNat < 128 := by
    simp [Unparse.inRanges, alnum] at h
    omega
  have := List.all_eq_true.mp alnum_class_a c.toNat (List.mem_range.mpr hlt)
  simp only [h, Bool.not_true, Bool.false_or, beq_iff_eq] at this
  rw [Char.ofNat_toNat] at this
  unfold charKind
  simp [this]

theorem charKind_lt3_of_id (c : Char) (h : TokenAdj.isIdStart c = true ∨ TokenAdj.isIdPart c = true) :
    charKind c = 0 ∨ charKind c = 1 ∨ charKind c = 2 := by
  by_cases ha : Unparse.spaceClassOf c = Unparse.spaceClassOf 'a'
  · left; unfold charKind; simp [ha]
  · by_cases hd : c = '$'
    · right; left; unfold charKind; simp [ha, hd]
      intro h0; exact absurd (hd ▸ h0) ha
    · by_cases hlt : c.toNat < 128
      · exfalso
        -- an ASCII identifier character other than `$` is a letter, digit or `_`
        have hal : Unparse.inRanges c.toNat alnum = true := by
          have hdn : c.toNat ≠ 36 := by
            intro h0; exact hd (char_eq_of_toNat c 36 h0)
          rcases h with h | h
          · unfold TokenAdj.isIdStart at h
            simp only [hlt, if_true] at h
            simp [Unparse.inRanges, idStartAscii] at h
            simp [Unparse.inRanges, alnum]
            omega
          · unfold TokenAdj.isIdPart at h
            simp only [hlt, if_true] at h
            simp [Unparse.inRanges, idPartAscii] at h
            simp [Unparse.inRanges, alnum]
            omega
        have := charKind_alnum c hal
        unfold charKind at this
        simp [ha] at this
        split at this <;> simp at this
      · right; right
        have hin : (Unparse.inRanges c.toNat Gen.LexData.idPart || Unparse.inRanges c.toNat Gen.LexData.idStart) = true := by
          rcases h with h | h
          · unfold TokenAdj.isIdStart at h; simp only [hlt, if_false] at h; simp [h]
          · unfold TokenAdj.isIdPart at h; simp only [hlt, if_false] at h; simp [h]
        unfold charKind
        simp [ha, hd, hlt, hin]

theorem charKind_first_of_idStart (c : Char) (h : TokenAdj.isIdStart c = true) (h2 : charKind c ≠ 2) :
    charKind c = 0 ∨ charKind c = 1 := by
  rcases charKind_lt3_of_id c (Or.inl h) with h0 | h1 | h2'
  · exact Or.inl h0
  · exact Or.inr h1
  · exact absurd h2' h2

/-! ### the spelling table -/

theorem idxIn_none (s : String) : ∀ (l : List String) (i : Nat), s ∉ l → idxIn s l i = none := by
  intro l
  induction l with
  | nil => intro i _; rfl
  | cons t ts ih =>
    intro i h
    simp only [List.mem_cons, not_or] at h
    simp only [idxIn]
    have : (t == s) = false := by simpa using fun h0 => h.1 h0.symm
    simp only [this]
    exact ih (i + 1) h.2

theorem sig_of_not_lit (s : String) (h : s ∉ litTable) : sig s = sigChars s.toList := by
  unfold sig litIdx
  rw [idxIn_none s _ 0 h]

/-- no spelling of the table satisfies `P`, the lexeme does: it is not in the table -/
theorem not_lit_of (P : List Char → Bool) (hall : litTable.all (fun t => !P t.toList) = true) (v : List Char)
    (hP : P v = true) : String.ofList v ∉ litTable := by
  intro hm
  have := List.all_eq_true.mp hall _ hm
  rw [String.toList_ofList, hP] at this
  simp at this

/-! ### strings -/

def startsQuote (v : List Char) : Bool := match v with
  | c :: _ => c == '"' || c == '\''
  | [] => false

theorem lit_no_quote : litTable.all (fun t => !startsQuote t.toList) = true := by decide +kernel

theorem sig_string (q : Char) (cs : List Char) (hq : q = '"' ∨ q = '\'') :
    sig (String.ofList (q :: cs)) = .str := by
  have hP : startsQuote (q :: cs) = true := by rcases hq with rfl | rfl <;> rfl
  rw [sig_of_not_lit _ (not_lit_of _ lit_no_quote _ hP), String.toList_ofList]
  rcases hq with rfl | rfl <;> simp [sigChars]

/-! ### comments -/

def startsComment (v : List Char) : Bool := match v with
  | c :: d :: _ => c == '/' && (d == '/' || d == '*')
  | _ => false

theorem lit_no_comment : litTable.all (fun t => !startsComment t.toList) = true := by decide +kernel

theorem sig_lineComment (r : List Char) : sig (String.ofList ('/' :: '/' :: r)) = .lineComment := by
  rw [sig_of_not_lit _ (not_lit_of _ lit_no_comment _ rfl), String.toList_ofList]
  simp [sigChars]

theorem sig_blockComment (r : List Char) : sig (String.ofList ('/' :: '*' :: r)) = .blockComment := by
  rw [sig_of_not_lit _ (not_lit_of _ lit_no_comment _ rfl), String.toList_ofList]
  simp [sigChars]

/-! ### regular expression literals -/

def regexShaped (v : List Char) : Bool := match v with
  | c :: _ :: _ :: _ => c == '/'
  | _ => false

theorem lit_no_regex : litTable.all (fun t => !regexShaped t.toList) = true := by decide +kernel

def regexSigs : List TC := [.regex 3, .regex 0, .regex 1, .regex 2]

theorem reFlag_alnum (c : Char) (h : Model.TokenRegex.isReFlag c = true) :
    Unparse.inRanges c.toNat alnum = true := by
  have e : Gen.LexData.reFlag = [(48, 57), (65, 90), (97, 122)] := by decide
  unfold Model.TokenRegex.isReFlag at h
  rw [e] at h
  simp [Model.TokenRegex.inRanges] at h
  simp [Unparse.inRanges, alnum]
  omega

theorem sig_regex (c : Char) (cs : List Char) (hc1 : c ≠ '/') (hc2 : c ≠ '*') (hlen : 3 ≤ ('/' :: c :: cs).length)
    (last : Char) (hlast : ('/' :: c :: cs).getLast? = some last)
    (hl : last = '/' ∨ Model.TokenRegex.isReFlag last = true) :
    regexSigs.contains (sig (String.ofList ('/' :: c :: cs))) = true := by
  have hP : regexShaped ('/' :: c :: cs) = true := by
    cases cs with
    | nil => simp at hlen
    | cons d ds => rfl
  rw [sig_of_not_lit _ (not_lit_of _ lit_no_regex _ hP), String.toList_ofList]
  have hgl : ('/' :: c :: cs).getLastD '/' = last := by
    rw [List.getLastD_eq_getLast?, hlast]; rfl
  simp only [sigChars]
  simp only [hgl]
  simp [hc1, hc2]
  rcases hl with rfl | hf
  · simp [regexSigs]
  · have hk := charKind_alnum last (reFlag_alnum last hf)
    by_cases h0 : last = '/'
    · simp [h0, regexSigs]
    · simp [h0, hk, regexSigs]

/-! ### numbers -/

def numberShaped (v : List Char) : Bool := match v with
  | c :: rest => isDigit c || (c == '.' && !rest.isEmpty)
  | [] => false

theorem lit_no_number : litTable.all (fun t => !numberShaped t.toList) = true := by decide +kernel

def numSigs : List TC := [.decInt, .numDot, .num false 0, .num true 0]

theorem isDec_digit (c : Char) (h : Model.TokenRegex.isDec c = true) : isDigit c = true := by
  have e : Gen.LexData.numDec = [(48, 57)] := by decide
  unfold Model.TokenRegex.isDec at h
  rw [e] at h
  simp [Model.TokenRegex.inRanges] at h
  exact (isDigit_iff c).mpr h

theorem numEnd_kind (c : Char) (h : NumEnd c) (hd : c ≠ '.') : charKind c = 0 := by
  apply charKind_alnum
  have e1 : Gen.LexData.numDec = [(48, 57)] := by decide
  have e2 : Gen.LexData.numHex = [(48, 57), (65, 70), (97, 102)] := by decide
  have e3 : Gen.LexData.numOct = [(48, 55)] := by decide
  have e4 : Gen.LexData.numNonzero = [(49, 57)] := by decide
  unfold NumEnd Model.TokenRegex.isDec Model.TokenRegex.isHex Model.TokenRegex.isOct Model.TokenRegex.isNonzero at h
  rw [e1, e2, e3, e4] at h
  simp only [Model.TokenRegex.inRanges, List.any_cons, List.any_nil, Bool.or_false, Bool.or_eq_true,
    Bool.and_eq_true, decide_eq_true_eq] at h
  simp only [Unparse.inRanges, alnum, Bool.or_false, Bool.or_eq_true, Bool.and_eq_true, decide_eq_true_eq]
  rcases h with h | h | h | h | h | h
  · subst h; decide
  · exact absurd h hd
  · omega
  · omega
  · omega
  · omega

theorem sig_number (c : Char) (cs : List Char)
    (hfirst : Model.TokenRegex.isDec c = true ∨
      (c = '.' ∧ ∃ d ds, cs = d :: ds ∧ Model.TokenRegex.isDec d = true))
    (last : Char) (hlast : (c :: cs).getLast? = some last) (hl : NumEnd last)
    (hdotlast : c = '.' → last ≠ '.') :
    numSigs.contains (sig (String.ofList (c :: cs))) = true := by
  have hP : numberShaped (c :: cs) = true := by
    rcases hfirst with h | ⟨rfl, d, ds, rfl, _⟩
    · simp [numberShaped, isDec_digit c h]
    · simp [numberShaped]
  rw [sig_of_not_lit _ (not_lit_of _ lit_no_number _ hP), String.toList_ofList]
  have hgl : (c :: cs).getLastD c = last := by
    rw [List.getLastD_eq_getLast?, hlast]; rfl
  simp only [sigChars, hgl]
  rcases hfirst with h | ⟨rfl, d, ds, rfl, hd⟩
  · have hdig := isDec_digit c h
    have hnq : (c == '"' || c == '\'') = false := by
      have := (isDigit_iff c).mp hdig
      have h1 : c ≠ '"' := by intro h0; subst h0; simp at this
      have h2 : c ≠ '\'' := by intro h0; subst h0; simp at this
      simp [h1, h2]
    have hns : (c == '/') = false := by
      have := (isDigit_iff c).mp hdig
      have h1 : c ≠ '/' := by intro h0; subst h0; simp at this
      simp [h1]
    simp only [hnq, hns, hdig, Bool.false_eq_true, if_false, if_true]
    split
    · simp [numSigs]
    · split
      · simp [numSigs]
      · rename_i hnd
        have : last ≠ '.' := by simpa using hnd
        simp [numEnd_kind last hl this, numSigs]
  · have hk := numEnd_kind last hl (hdotlast rfl)
    have hdd := isDec_digit d hd
    have hdot : isDigit '.' = false := by decide
    simp [hdot, hdd, hk, numSigs]

/-! ### identifiers -/

theorem wordTail_of_parts : ∀ (l : List Char), (∀ c ∈ l, TokenAdj.isIdPart c = true) → wordTail l = true := by
  intro l
  induction l with
  | nil => intro _; rfl
  | cons c cs ih =>
    intro h
    simp only [wordTail]
    split
    · exact ih (fun d hd => h d (by simp [hd]))
    · simpa [List.all_eq_true] using h

theorem wordTail_append : ∀ (S P : List Char), (∀ c ∈ S, TokenAdj.isIdStart c = true) →
    (∀ c ∈ P, TokenAdj.isIdPart c = true) → wordTail (S ++ P) = true := by
  intro S
  induction S with
  | nil => intro P _ hP; exact wordTail_of_parts P hP
  | cons c cs ih =>
    intro P hS hP
    simp only [List.cons_append, wordTail, hS c (by simp), if_true]
    exact ih P (fun d hd => hS d (by simp [hd])) hP

theorem punct_not_idStart :
    punctuators.all (fun t => match t.toList with
      | c :: _ => !TokenAdj.isIdStart c
      | [] => true) = true := by decide +kernel

theorem space_not_id : TokenAdj.isIdStart ' ' = false ∧ TokenAdj.isIdPart ' ' = false := by decide +kernel

theorem quote_slash_not_idStart :
    TokenAdj.isIdStart '"' = false ∧ TokenAdj.isIdStart '\'' = false ∧ TokenAdj.isIdStart '/' = false ∧
    TokenAdj.isIdStart '.' = false ∧ TokenAdj.isIdStart ',' = false := by decide +kernel

theorem digit_not_idStart (c : Char) (h : isDigit c = true) : TokenAdj.isIdStart c = false := by
  have hb := (isDigit_iff c).mp h
  unfold TokenAdj.isIdStart
  have : c.toNat < 128 := by omega
  simp only [this, if_true]
  simp [Unparse.inRanges, idStartAscii]
  omega

/-- the signature of an identifier lexeme that is not spelled like a reserved word and does not start with a
    character outside Python's `\w` other than `$` (charKind 2): an identifier-like word -/
theorem sig_word (c : Char) (S P : List Char) (hS : ∀ x ∈ c :: S, TokenAdj.isIdStart x = true)
    (hP : ∀ x ∈ P, TokenAdj.isIdPart x = true)
    (hres : String.ofList (c :: S ++ P) ∉ reservedWords) (hk : charKind c ≠ 2) :
    wordSigs.contains (sig (String.ofList (c :: S ++ P))) = true := by
  have hc := hS c (by simp)
  have hall : ∀ x ∈ c :: S ++ P, TokenAdj.isIdStart x = true ∨ TokenAdj.isIdPart x = true := by
    intro x hx
    simp only [List.cons_append, List.mem_cons, List.mem_append] at hx
    rcases hx with rfl | hx | hx
    · exact Or.inl hc
    · exact Or.inl (hS x (by simp [hx]))
    · exact Or.inr (hP x hx)
  have hnot : String.ofList (c :: S ++ P) ∉ litTable := by
    unfold litTable
    simp only [List.mem_append, List.mem_singleton, not_or]
    refine ⟨⟨?_, hres⟩, ?_⟩
    · intro hm
      have := List.all_eq_true.mp punct_not_idStart _ hm
      rw [String.toList_ofList] at this
      simp [hc] at this
    · intro h0
      have : (c :: S ++ P) = "var ".toList := by rw [← h0, String.toList_ofList]
      have hsp : ' ' ∈ c :: S ++ P := by rw [this]; decide
      rcases hall ' ' hsp with h | h
      · rw [space_not_id.1] at h; simp at h
      · rw [space_not_id.2] at h; simp at h
  rw [sig_of_not_lit _ hnot, String.toList_ofList]
  obtain ⟨q1, q2, q3, q4, q5⟩ := quote_slash_not_idStart
  have n1 : c ≠ '"' := by intro h0; rw [h0, q1] at hc; simp at hc
  have n2 : c ≠ '\'' := by intro h0; rw [h0, q2] at hc; simp at hc
  have n3 : c ≠ '/' := by intro h0; rw [h0, q3] at hc; simp at hc
  have n4 : c ≠ '.' := by intro h0; rw [h0, q4] at hc; simp at hc
  have n5 : c ≠ ',' := by intro h0; rw [h0, q5] at hc; simp at hc
  have n6 : isDigit c = false := by
    cases hd : isDigit c with
    | false => rfl
    | true => rw [digit_not_idStart c hd] at hc; simp at hc
  have hwt : wordTail (S ++ P) = true := wordTail_append S P (fun x hx => hS x (by simp [hx])) hP
  -- the last character
  obtain ⟨last, hlast⟩ : ∃ last, (c :: (S ++ P)).getLast? = some last :=
    ⟨_, List.getLast?_eq_some_getLast (by simp)⟩
  have hgl : (c :: (S ++ P)).getLastD c = last := by
    rw [List.getLastD_eq_getLast?, hlast]; rfl
  have hlm : last ∈ c :: S ++ P := by
    have := List.mem_of_getLast? hlast
    simpa using this
  simp only [List.cons_append, sigChars, hgl]
  simp [n1, n2, n3, n4, n5, n6, hc, hwt]
  rcases charKind_first_of_idStart c hc hk with h0 | h1 <;>
  rcases charKind_lt3_of_id last (hall last hlm) with l0 | l1 | l2 <;>
  simp [wordSigs, *]

end CalmVerif.Proofs.TokenTexts
