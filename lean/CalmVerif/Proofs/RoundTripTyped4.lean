/-
Soundness of the abstract analysis, part 4: the rules and the induction on the fuel.
-/
import CalmVerif.Proofs.RoundTripTyped3
namespace CalmVerif.TokenAdj
open CalmVerif CalmVerif.Unparse

variable {σ : Type}

theorem inLang_star_cons {F : Follow} {p : Abs} {l l' : List Sym} (h1 : InLang F p l)
    (h2 : InLang F ⟨true, p.f, p.l⟩ l') (hc : ∀ q ∈ cross p p, q ∈ F) : InLang F ⟨true, p.f, p.l⟩ (l ++ l') := by
  have hcr : ∀ q ∈ cross p ⟨true, p.f, p.l⟩, q ∈ F := hc
  refine inLang_weaken (inLang_append h1 h2 hcr) (fun _ => rfl) ?_ ?_
  · intro x hx
    rcases mem_seq_f.mp hx with hx | ⟨_, hx⟩ <;> exact hx
  · intro x hx
    rcases mem_seq_l.mp hx with hx | ⟨_, hx⟩ <;> exact hx

theorem ann_star_cons {hd : HData} {F : Follow} {p : Abs} {c c' : List Chunk} (h1 : Ann hd F p c)
    (h2 : Ann hd F ⟨true, p.f, p.l⟩ c') (hc : ∀ q ∈ cross p p, q ∈ F) : Ann hd F ⟨true, p.f, p.l⟩ (c ++ c') := by
  obtain ⟨l1, e1, g1⟩ := h1
  obtain ⟨l2, e2, g2⟩ := h2
  exact ⟨l1 ++ l2, by simp [syms, List.map_append] at e1 e2 ⊢; rw [e1, e2], inLang_star_cons g1 g2 hc⟩

section
variable {cfg : Cfg σ} {cx : Ctx} (hc : TypedCfg cfg cx) (F : Follow)
include hc

/-- JoinAttr: `item (sep item)*` -/
theorem join_typed {wn : WalkFn σ} (hwn : NodeOK cfg cx F wn) (path : Path) (src : Src) (k : String)
    (as : List (String × Val)) (hw : wfVal cx (.node k as) = true) (pos : Option Int) (sep : List Rule) (sp : Nat) (ks : List String)
    (hib : (kindsRes cx ks).bad = false) (hsb : (absRules cx k sp sep).bad = false)
    (hsn : ∀ p ∈ (absRules cx k sp sep).need, p ∈ F)
    (hc1 : ∀ p ∈ cross (absRules cx k sp sep).abs (kindsRes cx ks).abs, p ∈ F)
    (hc2 : ∀ p ∈ cross ((absRules cx k sp sep).abs.seq (kindsRes cx ks).abs) ((absRules cx k sp sep).abs.seq (kindsRes cx ks).abs), p ∈ F)
    (hc3 : ∀ p ∈ cross (kindsRes cx ks).abs ((absRules cx k sp sep).abs.seq (kindsRes cx ks).abs), p ∈ F)
    (items : List (Step × Val)) (hit : ItemsOK cx ks items) (s : σ) (cs : List Chunk) (s' : σ)
    (h : seqM (runAct cfg wn path src (.node k as) pos sep) (joinActs items) s = .ok (cs, s')) :
    Ann cfg.hd F (((kindsRes cx ks).abs.seq ⟨true, ((absRules cx k sp sep).abs.seq (kindsRes cx ks).abs).f,
      ((absRules cx k sp sep).abs.seq (kindsRes cx ks).abs).l⟩).opt) cs := by
  -- one item
  have hitem : ∀ (q : Step × Val), (∃ k' as', q.2 = .node k' as' ∧ k' ∈ ks ∧ wfVal cx (.node k' as') = true) →
      ∀ s cs s', runAct cfg wn path src (.node k as) pos sep (.item q.1 q.2) s = .ok (cs, s') →
      Ann cfg.hd F (kindsRes cx ks).abs cs := by
    intro q ⟨k', as', hq, hk', hw'⟩ s cs s' hr
    simp only [runAct, hq, walkValue] at hr
    obtain ⟨a, g1, g2⟩ := hwn _ _ k' as' Option.none _ _ _ hw' hr
    obtain ⟨a', g3, g4⟩ := kindsRes_mem cx ks hib k' hk'
    rw [g1] at g3; cases g3
    exact ann_le g2 g4
  have hsep : ∀ s cs s', runAct cfg wn path src (.node k as) pos sep .sep s = .ok (cs, s') →
      Ann cfg.hd F (absRules cx k sp sep).abs cs := by
    intro s cs s' hr
    simp only [runAct] at hr
    exact hwn _ _ k as (some sep) _ _ _ hw hr sp hsb hsn
  -- the tail `(sep item)*`
  have htail : ∀ (rest : List (Step × Val)), ItemsOK cx ks rest → ∀ s cs s',
      seqM (runAct cfg wn path src (.node k as) pos sep) (rest.flatMap (fun p => [JAct.sep, JAct.item p.1 p.2])) s = .ok (cs, s') →
      Ann cfg.hd F ⟨true, ((absRules cx k sp sep).abs.seq (kindsRes cx ks).abs).f,
        ((absRules cx k sp sep).abs.seq (kindsRes cx ks).abs).l⟩ cs := by
    intro rest
    induction rest with
    | nil =>
      intro _ s cs s' hr
      simp only [List.flatMap_nil] at hr
      rw [seqM_nil_ok] at hr
      rw [hr.1]; exact ann_nil cfg.hd F rfl
    | cons y ys ih =>
      intro hys s cs s' hr
      simp only [List.flatMap_cons, List.cons_append, List.nil_append] at hr
      rw [seqM_cons_ok] at hr
      obtain ⟨c1, s1, c2, h1, h2, rfl⟩ := hr
      rw [seqM_cons_ok] at h2
      obtain ⟨c3, s3, c4, h3, h4, rfl⟩ := h2
      have e1 := hsep s c1 s1 h1
      have e3 := hitem y (hys y (by simp)) s1 c3 s3 h3
      have e4 := ih (fun q hq => hys q (by simp [hq])) s3 c4 s' h4
      have e13 := ann_append e1 e3 hc1
      rw [← List.append_assoc]
      exact ann_star_cons e13 e4 hc2
  cases items with
  | nil =>
    simp only [joinActs] at h
    rw [seqM_nil_ok] at h
    rw [h.1]; exact ann_nil cfg.hd F rfl
  | cons x rest =>
    obtain ⟨st, v⟩ := x
    simp only [joinActs] at h
    rw [seqM_cons_ok] at h
    obtain ⟨c1, s1, c2, h1, h2, rfl⟩ := h
    have e1 := hitem (st, v) (hit (st, v) (by simp)) s c1 s1 h1
    have e2 := htail rest (fun q hq => hit q (by simp [hq])) s1 c2 s' h2
    exact ann_opt (ann_append e1 e2 hc3)

omit hc in
theorem flatten_replicate_single {α : Type} (x : α) : ∀ n : Nat, (List.replicate n [x]).flatten = List.replicate n x
  | 0 => rfl
  | n + 1 => by simp [List.replicate_succ, flatten_replicate_single x n]

omit hc in
theorem litTable_commas : (litTable.all fun t => !(t.toList.all (· == ',')) || t == ",") = true := by decide +kernel

omit hc in
theorem idxIn_mem (s : String) : ∀ (l : List String) (i j : Nat), idxIn s l i = some j → s ∈ l
  | [], _, _, h => by simp [idxIn] at h
  | t :: ts, i, j, h => by
    simp only [idxIn] at h
    split at h
    · rename_i ht
      have : t = s := by simpa using ht
      simp [this]
    · exact List.mem_cons_of_mem _ (idxIn_mem s ts (i + 1) j h)

omit hc in
/-- the text of an ElisionToken is one comma (an exact punctuator) or several -/
theorem sig_strMul_comma (n : Int) (hn : 1 ≤ n) :
    sig (strMul "," n) = mkLit "," ∨ sig (strMul "," n) = .commas := by
  obtain ⟨m, hm⟩ : ∃ m : Nat, n.toNat = m + 1 := ⟨n.toNat - 1, by omega⟩
  have hl : (strMul "," n).toList = ',' :: List.replicate m ',' := by
    have h0 : (",".toList) = [','] := by decide
    simp only [strMul, hm, h0, String.toList_ofList]
    rw [flatten_replicate_single]
    rfl
  have hall : (strMul "," n).toList.all (· == ',') = true := by
    rw [hl]; simp
  unfold sig
  cases hidx : litIdx (strMul "," n) with
  | some i =>
    left
    have hmem : strMul "," n ∈ litTable := idxIn_mem _ _ _ _ hidx
    have := List.all_eq_true.mp litTable_commas _ hmem
    simp only [hall, Bool.not_true, Bool.false_or, beq_iff_eq] at this
    rw [this] at hidx
    simp only [mkLit, hidx]
  | none =>
    right
    simp only
    rw [hl]
    simp [sigChars, isDigit]

end
end CalmVerif.TokenAdj
