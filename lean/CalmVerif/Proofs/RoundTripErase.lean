/-
Positions do not influence what the walk yields, part 1: `_walk`.

`eraseVal` removes the positional metadata (`@pos`, `@tokmap`, `@sourcepath`) from every node of a tree
(`@comments` stays: comments are printed).  A "position erasure" `e` (`PE e`: the identity, or `eraseVal`)
maps a run of `walkNode` on `n` to a run on `e n` that yields the same chunk stream up to `proj`:
fragment texts, and marker / handler / node KIND of every layout chunk.  Erasing can only remove
exceptions (`getpos` on a tree without token maps never raises), hence the direction of the statement.
-/
import CalmVerif.Proofs.UnparseOut
namespace CalmVerif.Unparse
open CalmVerif

def posMeta (a : String) : Bool := a == "@pos" || a == "@tokmap" || a == "@sourcepath"

mutual
  def eraseVal : Val → Val
    | .list xs => .list (eraseList xs)
    | .node k as => .node k (eraseAttrs as)
    | .none => .none
    | .bool b => .bool b
    | .int n => .int n
    | .str s => .str s
  def eraseList : List Val → List Val
    | [] => []
    | v :: vs => eraseVal v :: eraseList vs
  def eraseAttrs : List (String × Val) → List (String × Val)
    | [] => []
    | (a, v) :: rest => if posMeta a then eraseAttrs rest else (a, eraseVal v) :: eraseAttrs rest
end

theorem eraseList_eq_map : ∀ xs : List Val, eraseList xs = xs.map eraseVal
  | [] => rfl
  | v :: vs => by simp [eraseList, eraseList_eq_map vs]

/-- the class name of a node value -/
def kindOpt : Val → Option String
  | .node k _ => some k
  | _ => Option.none

/-- what of a chunk can influence the printed text -/
def proj : Chunk → Sum String (Marker × HandlerId × Option String)
  | .frag f => .inl f.text
  | .layout m h n => .inr (m, h, kindOpt n)

/-- position erasures: maps on trees under which the walk is simulated -/
structure PE (e : Val → Val) : Prop where
  none : e .none = .none
  bool : ∀ b, e (.bool b) = .bool b
  int : ∀ n, e (.int n) = .int n
  str : ∀ s, e (.str s) = .str s
  list : ∀ xs, e (.list xs) = .list (xs.map e)
  node : ∀ k as, ∃ as', e (.node k as) = .node k as'
  attr : ∀ n a, posMeta a = false → nodeAttr (e n) a = (nodeAttr n a).map e
  getpos : ∀ n s i p, getpos n s i = .ok p → ∃ p', getpos (e n) s i = .ok p'

theorem pe_id : PE id where
  none := rfl
  bool := fun _ => rfl
  int := fun _ => rfl
  str := fun _ => rfl
  list := fun xs => by simp
  node := fun k as => ⟨as, rfl⟩
  attr := fun n a _ => by simp
  getpos := fun n s i p h => ⟨p, h⟩

theorem posMeta_eq {a b : String} (h : (b == a) = true) : posMeta b = posMeta a := by
  have : b = a := by simpa using h
  rw [this]

theorem lookupAttr_erase (a : String) (ha : posMeta a = false) :
    ∀ as : List (String × Val), lookupAttr (eraseAttrs as) a = (lookupAttr as a).map eraseVal := by
  intro as
  induction as with
  | nil => simp [eraseAttrs, lookupAttr]
  | cons x rest ih =>
    obtain ⟨b, v⟩ := x
    simp only [eraseAttrs]
    by_cases hb : posMeta b = true
    · rw [if_pos hb, ih]
      simp only [lookupAttr]
      have : (b == a) = false := by
        cases hba : (b == a) with
        | false => rfl
        | true => rw [posMeta_eq hba, ha] at hb; cases hb
      rw [this]; simp
    · rw [if_neg hb]
      simp only [lookupAttr]
      split
      · simp
      · exact ih

theorem lookupAttr_erase_meta (a : String) (ha : posMeta a = true) :
    ∀ as : List (String × Val), lookupAttr (eraseAttrs as) a = Option.none := by
  intro as
  induction as with
  | nil => simp [eraseAttrs, lookupAttr]
  | cons x rest ih =>
    obtain ⟨b, v⟩ := x
    simp only [eraseAttrs]
    by_cases hb : posMeta b = true
    · rw [if_pos hb, ih]
    · rw [if_neg hb]
      simp only [lookupAttr]
      have : (b == a) = false := by
        cases hba : (b == a) with
        | false => rfl
        | true => rw [posMeta_eq hba, ha] at hb; exact absurd rfl hb
      rw [this]; exact ih

theorem pe_erase : PE eraseVal where
  none := rfl
  bool := fun _ => rfl
  int := fun _ => rfl
  str := fun _ => rfl
  list := fun xs => by simp [eraseVal, eraseList_eq_map]
  node := fun k as => ⟨eraseAttrs as, rfl⟩
  attr := fun n a ha => by
    cases n <;> simp [nodeAttr, eraseVal, lookupAttr_erase a ha]
  getpos := fun n s i p _ => by
    refine ⟨(Option.none, Option.none), ?_⟩
    cases n <;> simp [getpos, nodeAttr, eraseVal, lookupAttr_erase_meta "@tokmap" (by decide)]

section
variable {e : Val → Val} (he : PE e)
include he

theorem pe_nodeKind (n : Val) : nodeKind (e n) = nodeKind n := by
  cases n with
  | node k as => obtain ⟨as', h⟩ := he.node k as; rw [h]; rfl
  | none => rw [he.none]
  | bool b => rw [he.bool]
  | int i => rw [he.int]
  | str s => rw [he.str]
  | list xs => rw [he.list]; rfl

theorem pe_kindOpt (n : Val) : kindOpt (e n) = kindOpt n := by
  cases n with
  | node k as => obtain ⟨as', h⟩ := he.node k as; rw [h]; rfl
  | none => rw [he.none]
  | bool b => rw [he.bool]
  | int i => rw [he.int]
  | str s => rw [he.str]
  | list xs => rw [he.list]; rfl

theorem pe_isKind (ks : List String) (n : Val) : isKind ks (e n) = isKind ks n := by
  cases n with
  | node k as => obtain ⟨as', h⟩ := he.node k as; rw [h]; rfl
  | none => rw [he.none]
  | bool b => rw [he.bool]
  | int i => rw [he.int]
  | str s => rw [he.str]
  | list xs => rw [he.list]; rfl

theorem pe_isEmpty (n : Val) : isEmptyVal (e n) = isEmptyVal n := by
  cases n with
  | node k as => obtain ⟨as', h⟩ := he.node k as; rw [h]; rfl
  | none => rw [he.none]
  | bool b => rw [he.bool]
  | int i => rw [he.int]
  | str s => rw [he.str]
  | list xs => rw [he.list]; cases xs <;> rfl

theorem pe_isNone (n : Val) : isNoneVal (e n) = isNoneVal n := by
  cases n with
  | node k as => obtain ⟨as', h⟩ := he.node k as; rw [h]; rfl
  | none => rw [he.none]
  | bool b => rw [he.bool]
  | int i => rw [he.int]
  | str s => rw [he.str]
  | list xs => rw [he.list]; rfl

omit he in
theorem posMeta_isMeta {a : String} (h : posMeta a = true) : Val.isMeta a = true := by
  simp only [posMeta, Bool.or_eq_true, beq_iff_eq] at h
  rcases h with (h | h) | h <;> subst h <;> decide

theorem pe_getattr (n : Val) (a : String) : getattrVal (e n) a = (getattrVal n a).map e := by
  unfold getattrVal
  by_cases h1 : (a == "comments") = true
  · rw [if_pos h1, if_pos h1, he.attr n "@comments" (by decide)]
    cases nodeAttr n "@comments" with
    | none => simp [Except.map, he.none]
    | some v => simp [Except.map]
  · rw [if_neg h1, if_neg h1]
    by_cases h2 : Val.isMeta a = true
    · rw [if_pos h2, if_pos h2]; rfl
    · rw [if_neg h2, if_neg h2]
      have hp : posMeta a = false := by
        cases hpa : posMeta a with
        | false => rfl
        | true => exact absurd (posMeta_isMeta hpa) h2
      rw [he.attr n a hp]
      cases nodeAttr n a with
      | none => rfl
      | some v => rfl

omit he in
theorem enumFrom_map {α β : Type} (f : α → β) : ∀ (i : Nat) (xs : List α),
    enumFrom i (xs.map f) = (enumFrom i xs).map (fun p => (p.1, f p.2))
  | _, [] => rfl
  | i, x :: xs => by simp [enumFrom, enumFrom_map f (i + 1) xs]

/-- items of an iteration, mapped through `e` -/
def mapItems (e : Val → Val) (l : List (Step × Val)) : List (Step × Val) := l.map (fun p => (p.1, e p.2))

omit he in
theorem except_map_map {ε α β : Type} (x : Except ε α) (f : α → β) (b : β) (h : x.map f = .ok b) :
    ∃ a, x = .ok a ∧ f a = b := except_map_ok h

theorem pe_iterItems : ∀ (i : Nat) (xs : List Val),
    ((enumFrom i (xs.map e)).filter (fun p => !isNoneVal p.2)).map (fun p => ((("children", p.1) : Step), p.2)) =
    mapItems e (((enumFrom i xs).filter (fun p => !isNoneVal p.2)).map (fun p => ((("children", p.1) : Step), p.2)))
  | _, [] => rfl
  | i, x :: xs => by
    simp only [List.map_cons, enumFrom, List.filter_cons, pe_isNone he]
    split
    · simp only [List.map_cons, mapItems]
      have := pe_iterItems (i + 1) xs
      simp only [mapItems] at this
      rw [this]
    · exact pe_iterItems (i + 1) xs

theorem pe_iterNode {σ : Type} (cfg : Cfg σ) (n : Val) (items : List (Step × Val))
    (h : iterNode cfg n = .ok items) : iterNode cfg (e n) = .ok (mapItems e items) := by
  cases n with
  | node k as =>
    obtain ⟨as', has⟩ := he.node k as
    have hattr := he.attr (.node k as) "children" (by decide)
    rw [has] at hattr ⊢
    simp only [iterNode] at h ⊢
    split at h
    · rename_i hk
      rw [if_pos hk, hattr]
      cases hc : nodeAttr (.node k as) "children" with
      | none => rw [hc] at h; simp at h; subst h; simp [mapItems]
      | some v =>
        rw [hc] at h
        cases v with
        | list xs =>
          simp only [Except.ok.injEq] at h
          subst h
          simp only [Option.map, he.list]
          rw [pe_iterItems he 0 xs]
        | none => simp at h
        | bool b => simp at h
        | int i => simp at h
        | str s => simp at h
        | node k2 as2 => simp at h
    · cases h
  | none => simp [iterNode] at h
  | bool b => simp [iterNode] at h
  | int i => simp [iterNode] at h
  | str s => simp [iterNode] at h
  | list xs => simp [iterNode] at h

theorem pe_valueHandler (hd : HData) (hdl : DeferHandlerId) (n v : Val) (h : valueHandler hd hdl n = .ok v) :
    valueHandler hd hdl (e n) = .ok (e v) := by
  unfold valueHandler at h ⊢
  rw [he.attr n "value" (by decide)]
  cases hv : nodeAttr n "value" with
  | none => rw [hv] at h; cases h
  | some w =>
    rw [hv] at h
    simp only [Option.map] at h ⊢
    cases hdl with
    | comment => simp only [Except.ok.injEq] at h ⊢; rw [h]
    | literalContinuation =>
      cases w with
      | str s => simp only [he.str, Except.ok.injEq] at h ⊢; rw [← h, he.str]
      | none => simp at h
      | bool b => simp at h
      | int i => simp at h
      | list xs => simp at h
      | node k as => simp at h
    | obfResolve => cases h

end

/-- the plain printers: no Declare / Resolve / Structure-marker hooks -/
structure NoHooks {σ : Type} (cfg : Cfg σ) : Prop where
  declare : cfg.declare = Option.none
  resolve : cfg.resolve = Option.none
  struct : ∀ m, cfg.struct m = Option.none

section
variable {σ : Type} {cfg : Cfg σ} (hc : NoHooks cfg) {e : Val → Val} (he : PE e)
include hc he

omit he in
theorem runDeclare_noHooks (path : Path) (a : String) (target : Val) (s : σ) :
    runDeclare cfg path a target s = .ok s := by
  simp [runDeclare, hc.declare]

theorem pe_getSrc (path : Path) (n : Val) (src : AttrSrc) (s : σ) (v : Val) (s' : σ)
    (h : getSrc cfg path n src s = .ok (v, s')) : getSrc cfg path (e n) src s = .ok (e v, s') := by
  cases src with
  | name a =>
    simp only [getSrc] at h ⊢
    obtain ⟨w, h1, h2⟩ := except_map_ok h
    simp only [Prod.mk.injEq] at h2
    rw [pe_getattr he, h1]; simp [Except.map, h2.1, h2.2]
  | iter => simp [getSrc] at h
  | declare a =>
    simp only [getSrc] at h ⊢
    rw [pe_getattr he]
    cases hg : getattrVal n a with
    | error x => rw [hg] at h; cases h
    | ok target =>
      rw [hg] at h
      simp only [Except.map, pe_isEmpty he] at h ⊢
      split at h
      · rename_i hem
        simp only [Except.ok.injEq, Prod.mk.injEq] at h
        rw [if_pos hem, h.1, h.2]
      · rename_i hem
        rw [if_neg hem]
        rw [runDeclare_noHooks hc] at h ⊢
        simp only [Except.ok.injEq, Prod.mk.injEq] at h ⊢
        rw [h.1, h.2]; simp
  | resolve =>
    simp only [getSrc, pe_isKind he, hc.resolve] at h ⊢
    split at h
    · cases h
    · rename_i hk
      rw [if_neg hk]
      obtain ⟨w, h1, h2⟩ := except_map_ok h
      simp only [Prod.mk.injEq] at h2
      rw [pe_getattr he, h1]; simp [Except.map, h2.1, h2.2]
  | literal =>
    simp only [getSrc] at h ⊢
    cases hl : cfg.literal with
    | some hdl =>
      rw [hl] at h
      obtain ⟨w, h1, h2⟩ := except_map_ok h
      simp only [Prod.mk.injEq] at h2
      simp only [pe_valueHandler he _ _ _ _ h1, Except.map, h2.1, h2.2]
    | none =>
      rw [hl] at h
      obtain ⟨w, h1, h2⟩ := except_map_ok h
      simp only [Prod.mk.injEq] at h2
      simp only [pe_getattr he, h1, Except.map, h2.1, h2.2]
  | lineComment =>
    simp only [getSrc] at h ⊢
    cases hl : cfg.lineComment with
    | some hdl =>
      rw [hl] at h
      obtain ⟨w, h1, h2⟩ := except_map_ok h
      simp only [Prod.mk.injEq] at h2
      simp only [pe_valueHandler he _ _ _ _ h1, Except.map, h2.1, h2.2]
    | none =>
      rw [hl] at h
      simp only [Except.ok.injEq, Prod.mk.injEq] at h ⊢
      rw [← h.1, he.none]; exact ⟨rfl, h.2⟩
  | blockComment =>
    simp only [getSrc] at h ⊢
    cases hl : cfg.blockComment with
    | some hdl =>
      rw [hl] at h
      obtain ⟨w, h1, h2⟩ := except_map_ok h
      simp only [Prod.mk.injEq] at h2
      simp only [pe_valueHandler he _ _ _ _ h1, Except.map, h2.1, h2.2]
    | none =>
      rw [hl] at h
      simp only [Except.ok.injEq, Prod.mk.injEq] at h ⊢
      rw [← h.1, he.none]; exact ⟨rfl, h.2⟩

theorem pe_getIter (path : Path) (n : Val) (src : AttrSrc) (s : σ) (items : List (Step × Val)) (s' : σ)
    (h : getIter cfg path n src s = .ok (items, s')) :
    getIter cfg path (e n) src s = .ok (mapItems e items, s') := by
  cases src with
  | iter =>
    simp only [getIter] at h ⊢
    obtain ⟨l, h1, h2⟩ := except_map_ok h
    simp only [Prod.mk.injEq] at h2
    rw [pe_iterNode he cfg n l h1]; simp [Except.map, h2.1, h2.2]
  | name a =>
    simp only [getIter] at h ⊢
    cases hg : getSrc cfg path n (.name a) s with
    | error x => rw [hg] at h; cases h
    | ok r =>
      obtain ⟨v, s1⟩ := r
      rw [hg] at h
      rw [pe_getSrc hc he path n _ s v s1 hg]
      cases v with
      | list xs =>
        simp only [Except.ok.injEq, Prod.mk.injEq] at h
        simp only [he.list, enumFrom_map, Except.ok.injEq, Prod.mk.injEq, mapItems, List.map_map]
        rw [← h.1, ← h.2]; simp [Function.comp]
      | node k as =>
        obtain ⟨as', has⟩ := he.node k as
        simp only at h
        obtain ⟨l, h1, h2⟩ := except_map_ok h
        simp only [Prod.mk.injEq] at h2
        have := pe_iterNode he cfg (.node k as) l h1
        rw [has] at this ⊢
        simp only [this, Except.map, h2.1, h2.2]
      | none => cases h
      | int i => cases h
      | bool b => cases h
      | str t => cases h
  | declare a =>
    simp only [getIter] at h ⊢
    cases hg : getSrc cfg path n (.declare a) s with
    | error x => rw [hg] at h; cases h
    | ok r =>
      obtain ⟨v, s1⟩ := r
      rw [hg] at h
      rw [pe_getSrc hc he path n _ s v s1 hg]
      cases v with
      | list xs =>
        simp only [Except.ok.injEq, Prod.mk.injEq] at h
        simp only [he.list, enumFrom_map, Except.ok.injEq, Prod.mk.injEq, mapItems, List.map_map]
        rw [← h.1, ← h.2]; simp [Function.comp]
      | node k as =>
        obtain ⟨as', has⟩ := he.node k as
        simp only at h
        obtain ⟨l, h1, h2⟩ := except_map_ok h
        simp only [Prod.mk.injEq] at h2
        have := pe_iterNode he cfg (.node k as) l h1
        rw [has] at this ⊢
        simp only [this, Except.map, h2.1, h2.2]
      | none => cases h
      | int i => cases h
      | bool b => cases h
      | str t => cases h
  | resolve =>
    simp only [getIter] at h ⊢
    cases hg : getSrc cfg path n .resolve s with
    | error x => rw [hg] at h; cases h
    | ok r =>
      obtain ⟨v, s1⟩ := r
      rw [hg] at h
      rw [pe_getSrc hc he path n _ s v s1 hg]
      cases v with
      | list xs =>
        simp only [Except.ok.injEq, Prod.mk.injEq] at h
        simp only [he.list, enumFrom_map, Except.ok.injEq, Prod.mk.injEq, mapItems, List.map_map]
        rw [← h.1, ← h.2]; simp [Function.comp]
      | node k as =>
        obtain ⟨as', has⟩ := he.node k as
        simp only at h
        obtain ⟨l, h1, h2⟩ := except_map_ok h
        simp only [Prod.mk.injEq] at h2
        have := pe_iterNode he cfg (.node k as) l h1
        rw [has] at this ⊢
        simp only [this, Except.map, h2.1, h2.2]
      | none => cases h
      | int i => cases h
      | bool b => cases h
      | str t => cases h
  | literal =>
    simp only [getIter] at h ⊢
    cases hg : getSrc cfg path n .literal s with
    | error x => rw [hg] at h; cases h
    | ok r =>
      obtain ⟨v, s1⟩ := r
      rw [hg] at h
      rw [pe_getSrc hc he path n _ s v s1 hg]
      cases v with
      | list xs =>
        simp only [Except.ok.injEq, Prod.mk.injEq] at h
        simp only [he.list, enumFrom_map, Except.ok.injEq, Prod.mk.injEq, mapItems, List.map_map]
        rw [← h.1, ← h.2]; simp [Function.comp]
      | node k as =>
        obtain ⟨as', has⟩ := he.node k as
        simp only at h
        obtain ⟨l, h1, h2⟩ := except_map_ok h
        simp only [Prod.mk.injEq] at h2
        have := pe_iterNode he cfg (.node k as) l h1
        rw [has] at this ⊢
        simp only [this, Except.map, h2.1, h2.2]
      | none => cases h
      | int i => cases h
      | bool b => cases h
      | str t => cases h
  | lineComment =>
    simp only [getIter] at h ⊢
    cases hg : getSrc cfg path n .lineComment s with
    | error x => rw [hg] at h; cases h
    | ok r =>
      obtain ⟨v, s1⟩ := r
      rw [hg] at h
      rw [pe_getSrc hc he path n _ s v s1 hg]
      cases v with
      | list xs =>
        simp only [Except.ok.injEq, Prod.mk.injEq] at h
        simp only [he.list, enumFrom_map, Except.ok.injEq, Prod.mk.injEq, mapItems, List.map_map]
        rw [← h.1, ← h.2]; simp [Function.comp]
      | node k as =>
        obtain ⟨as', has⟩ := he.node k as
        simp only at h
        obtain ⟨l, h1, h2⟩ := except_map_ok h
        simp only [Prod.mk.injEq] at h2
        have := pe_iterNode he cfg (.node k as) l h1
        rw [has] at this ⊢
        simp only [this, Except.map, h2.1, h2.2]
      | none => cases h
      | int i => cases h
      | bool b => cases h
      | str t => cases h
  | blockComment =>
    simp only [getIter] at h ⊢
    cases hg : getSrc cfg path n .blockComment s with
    | error x => rw [hg] at h; cases h
    | ok r =>
      obtain ⟨v, s1⟩ := r
      rw [hg] at h
      rw [pe_getSrc hc he path n _ s v s1 hg]
      cases v with
      | list xs =>
        simp only [Except.ok.injEq, Prod.mk.injEq] at h
        simp only [he.list, enumFrom_map, Except.ok.injEq, Prod.mk.injEq, mapItems, List.map_map]
        rw [← h.1, ← h.2]; simp [Function.comp]
      | node k as =>
        obtain ⟨as', has⟩ := he.node k as
        simp only at h
        obtain ⟨l, h1, h2⟩ := except_map_ok h
        simp only [Prod.mk.injEq] at h2
        have := pe_iterNode he cfg (.node k as) l h1
        rw [has] at this ⊢
        simp only [this, Except.map, h2.1, h2.2]
      | none => cases h
      | int i => cases h
      | bool b => cases h
      | str t => cases h

end

end CalmVerif.Unparse
