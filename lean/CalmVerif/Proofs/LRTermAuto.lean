/-
Termination of the LR driver loop (C12), part 5: the driver never shifts two AUTOSEMI tokens in a row.

calmjs's `p_error` repairs a syntax error by handing the driver an inserted `AUTOSEMI` look-ahead; at the end of the
input it does so every time it is called.  What stops the loop `insert ; shift ; $end ; error ; insert ; …` is a
property of the tables, checked here against an UNTRUSTED certificate (`AutoCert`, emitted by the translator into
`Gen/Tables/Ranks.lean`):
  * `zl` : the nonterminals that may derive a string ending in AUTOSEMI;
  * `al` : states that may be on top of the stack while the most recently shifted token is an AUTOSEMI.
`autoOK` checks (one pass over productions, action and goto entries):
  * closure of `zl`: a production with a symbol `X` = AUTOSEMI or `X ∈ zl` followed only by nullable symbols has its
    left-hand side in `zl`;
  * every shift on AUTOSEMI, every goto on a `zl` symbol, and every goto on a nullable symbol out of an `al` state
    lead into `al`;
  * no `al` state shifts AUTOSEMI.
Hence (`auto_not_shifted`): in every configuration reachable from the initial one — any semantics, any token source —
whose most recently shifted token is an AUTOSEMI, the action of the top state on AUTOSEMI is not a shift.
-/
import CalmVerif.Proofs.LRTermSteps
namespace CalmVerif.Model.LR

variable {τ ν σ ε : Type}

structure AutoCert where
  zl : List Nat
  al : List Nat

/-- symbol code `x` is AUTOSEMI or a nonterminal listed in `zl` -/
def isZ (A : AutoCert) (nT auto x : Nat) : Bool :=
  x == auto || (Nat.ble nT x && A.zl.contains (x - nT))

/-- some symbol is `isZ` and all later ones are nullable -/
def endsZ (C : RankCert) (A : AutoCert) (nT auto : Nat) : List Nat → Bool
  | [] => false
  | x :: rest => endsZ C A nT auto rest || (isZ A nT auto x && allNull C nT rest)

def prodAutoOK (C : RankCert) (A : AutoCert) (nT auto lhs : Nat) (rhs : List Nat) : Bool :=
  !(endsZ C A nT auto rhs) || A.zl.contains lhs

def actionAutoOK (A : AutoCert) (auto q term code : Nat) : Bool :=
  !(term == auto) ||
  (match decodeAct code with
   | .shift s => A.al.contains s && !(A.al.contains q)
   | _ => true)

def gotoAutoOK (C : RankCert) (A : AutoCert) (q nt s : Nat) : Bool :=
  (!(A.zl.contains nt) || A.al.contains s) &&
  (!(C.nulls.contains nt && A.al.contains q) || A.al.contains s)

def autoOK (T : Tables) (C : RankCert) (A : AutoCert) (auto : Nat) : Bool :=
  Nat.blt auto T.numTerminals &&
  allProds (prodAutoOK C A T.numTerminals auto) T.prods &&
  allFrom (fun q row => rowAll (fun term code => actionAutoOK A auto q term code) row) 0 T.action &&
  allFrom (fun q row => rowAll (fun nt s => gotoAutoOK C A q nt s) row) 0 T.goto

/-! ### extraction -/

section facts
variable {T : Tables} {C : RankCert} {A : AutoCert} {auto : Nat}

theorem ak_lt (h : autoOK T C A auto = true) : auto < T.numTerminals := by
  simp only [autoOK, Bool.and_eq_true, Nat.blt_eq] at h
  exact h.1.1.1

theorem ak_prod (h : autoOK T C A auto = true) {p a : Nat} {rhs : List Nat}
    (hp : T.prods[p]? = some (a, rhs)) : prodAutoOK C A T.numTerminals auto a rhs = true := by
  simp only [autoOK, Bool.and_eq_true] at h
  exact allProds_get h.1.1.2 hp

theorem ak_action (h : autoOK T C A auto = true) {q term : Nat} {a : Act}
    (ha : actionOf T q term = some a) :
    ∃ code, decodeAct code = a ∧ actionAutoOK A auto q term code = true := by
  simp only [autoOK, Bool.and_eq_true] at h
  unfold actionOf at ha
  split at ha
  · next row hrow =>
    cases hl : lookupFlat row term with
    | none => simp [hl] at ha
    | some code =>
      simp [hl] at ha
      refine ⟨code, ha, ?_⟩
      have := allFrom_get (i := 0) h.1.2 hrow
      simp only [Nat.zero_add] at this
      exact rowAll_lookup (P := fun term code => actionAutoOK A auto q term code) this hl
  · simp at ha

theorem ak_goto (h : autoOK T C A auto = true) {q nt s : Nat} (hg : gotoOf T q nt = some s) :
    gotoAutoOK C A q nt s = true := by
  simp only [autoOK, Bool.and_eq_true] at h
  unfold gotoOf at hg
  split at hg
  · next row hrow =>
    have := allFrom_get (i := 0) h.2 hrow
    simp only [Nat.zero_add] at this
    exact rowAll_lookup (P := fun nt s => gotoAutoOK C A q nt s) this hg
  · simp at hg

end facts

/-! ### trees whose yield ends with an AUTOSEMI -/

section trees
variable {T : Tables} {C : RankCert} {A : AutoCert} {auto : Nat} {ty : τ → Nat}

/-- the yield ends with a token of terminal index `auto` -/
def endsAuto (ty : τ → Nat) (auto : Nat) (l : List τ) : Bool :=
  match l.getLast? with
  | some a => ty a == auto
  | none => false

theorem endsAuto_append {l m : List τ} (hm : m ≠ []) : endsAuto ty auto (l ++ m) = endsAuto ty auto m := by
  have : (l ++ m).getLast? = m.getLast? := by
    rw [List.getLast?_append]
    cases m with
    | nil => exact absurd rfl hm
    | cons x xs => simp [List.getLast?_eq_some_getLast]
  unfold endsAuto
  rw [this]

/-- children: if the concatenated yield ends with AUTOSEMI, the symbols pass `endsZ` -/
theorem children_endsZ : ∀ {cs : List (Tree τ)},
    (∀ c ∈ cs, Good T C ty c ∧ (endsAuto ty auto c.yield = true → isZ A T.numTerminals auto (c.sym T ty) = true)) →
    endsAuto ty auto (yieldList cs) = true → endsZ C A T.numTerminals auto (symList T ty cs) = true
  | [], _, h => by simp [yieldList, endsAuto] at h
  | c :: cs, hg, h => by
    have hgs : ∀ c' ∈ cs, Good T C ty c' ∧
        (endsAuto ty auto c'.yield = true → isZ A T.numTerminals auto (c'.sym T ty) = true) :=
      fun c' hc' => hg c' (by simp [hc'])
    simp only [symList, endsZ, Bool.or_eq_true, Bool.and_eq_true]
    simp only [yieldList] at h
    by_cases h2 : yieldList cs = []
    · right
      rw [h2, List.append_nil] at h
      exact ⟨(hg c (by simp)).2 h, (empty_children (fun c' hc' => (hgs c' hc').1) h2).1⟩
    · left
      rw [endsAuto_append h2] at h
      exact children_endsZ hgs h

mutual
  theorem tree_endsZ (h : ranksOK T C = true) (ha : autoOK T C A auto = true) :
      ∀ (t : Tree τ), t.valid T ty → endsAuto ty auto t.yield = true → isZ A T.numTerminals auto (t.sym T ty) = true
    | .leaf a, _, he => by
      simp only [Tree.yield, endsAuto, List.getLast?_singleton] at he
      simp only [isZ, Tree.sym, Bool.or_eq_true]
      exact Or.inl he
    | .node p cs, hv, he => by
      have hgood := list_good h cs (by simp only [Tree.valid] at hv; exact hv.2)
      simp only [Tree.valid] at hv
      obtain ⟨⟨lhs, hp⟩, hvs⟩ := hv
      simp only [Tree.yield] at he
      have hz := children_endsZ (A := A) (auto := auto)
        (fun c hc => ⟨(hgood c hc).1, list_endsZ h ha cs hvs c hc⟩) he
      have hpk := ak_prod ha hp
      simp only [prodAutoOK, Bool.or_eq_true, Bool.not_eq_true'] at hpk
      rcases hpk with h0 | h0
      · rw [hz] at h0; cases h0
      · simp only [isZ, Tree.sym, hp, Bool.or_eq_true, Bool.and_eq_true, Nat.ble_eq]
        right
        exact ⟨by omega, by simpa using h0⟩
  theorem list_endsZ (h : ranksOK T C = true) (ha : autoOK T C A auto = true) :
      ∀ (cs : List (Tree τ)), validList T ty cs → ∀ c ∈ cs,
        endsAuto ty auto c.yield = true → isZ A T.numTerminals auto (c.sym T ty) = true
    | [], _ => by simp
    | c :: cs, hv => by
      simp only [validList] at hv
      intro c' hc'
      simp only [List.mem_cons] at hc'
      rcases hc' with rfl | hc'
      · exact tree_endsZ h ha c' hv.1
      · exact list_endsZ h ha cs hv.2 c' hc'
end

end trees

/-! ### the stack -/

section stack
variable {T : Tables} {C : RankCert} {A : AutoCert} {auto : Nat} {ty : τ → Nat}

/-- the most recent token recorded on the stack (top first) is an AUTOSEMI -/
def lastAutoTrees (ty : τ → Nat) (auto : Nat) : List (Tree τ) → Bool
  | [] => false
  | v :: vs => if v.yield = [] then lastAutoTrees ty auto vs else endsAuto ty auto v.yield

theorem lastAutoTrees_eq : ∀ (vs : List (Tree τ)),
    lastAutoTrees ty auto vs = endsAuto ty auto (yieldList vs.reverse)
  | [] => by simp [lastAutoTrees, yieldList, endsAuto]
  | v :: vs => by
    simp only [lastAutoTrees, List.reverse_cons, yieldList_append, yieldList, List.append_nil]
    split
    · next hy => rw [hy, List.append_nil]; exact lastAutoTrees_eq vs
    · next hy => rw [endsAuto_append hy]

theorem stack_auto (h : ranksOK T C = true) (ha : autoOK T C A auto = true) :
    ∀ {st : List Nat} {vs : List (Tree τ)}, StackOK T ty st vs → ∀ {s qs}, st = s :: qs →
    lastAutoTrees ty auto vs = true → A.al.contains s = true := by
  intro st vs hst
  induction hst with
  | base => intro s qs _ hl; simp [lastAutoTrees] at hl
  | @push q qs v vs s hprev he hv ih =>
    intro s' qs' heq hl
    cases heq
    obtain ⟨hgood, _⟩ := tree_good h v hv
    simp only [lastAutoTrees] at hl
    split at hl
    · next hy =>
      -- an empty-yield (nullable) entry on top of an `al` state
      have hq := ih (s := q) (qs := qs) rfl hl
      obtain ⟨hnull, _⟩ := hgood.1 hy
      cases v with
      | leaf a => simp [Tree.yield] at hy
      | node p cs =>
        simp only [edge] at he
        obtain ⟨lhs, rhs, hp, hg⟩ := he
        simp only [Tree.sym, hp] at hnull
        have hk := ak_goto ha hg
        simp only [gotoAutoOK, Bool.and_eq_true, Bool.or_eq_true, Bool.not_eq_true',
          Bool.and_eq_false_iff] at hk
        rcases hk.2 with h0 | h0
        · rcases h0 with h0 | h0
          · rw [rk_listed h hnull] at h0; cases h0
          · rw [hq] at h0; cases h0
        · exact h0
    · next hy =>
      have hz := tree_endsZ h ha v hv hl
      cases v with
      | leaf a =>
        simp only [edge] at he
        simp only [Tree.yield, endsAuto, List.getLast?_singleton, beq_iff_eq] at hl
        rw [hl] at he
        obtain ⟨code, hdec, hok⟩ := ak_action ha he
        simp only [actionAutoOK, hdec, beq_self_eq_true, Bool.not_true, Bool.false_or,
          Bool.and_eq_true] at hok
        exact hok.1
      | node p cs =>
        simp only [edge] at he
        obtain ⟨lhs, rhs, hp, hg⟩ := he
        have hlt := ak_lt ha
        simp only [isZ, Tree.sym, hp, Bool.or_eq_true, beq_iff_eq, Bool.and_eq_true] at hz
        have hzl : A.zl.contains lhs = true := by
          rcases hz with h0 | h0
          · omega
          · simpa using h0.2
        have hk := ak_goto ha hg
        simp only [gotoAutoOK, Bool.and_eq_true, Bool.or_eq_true, Bool.not_eq_true'] at hk
        rcases hk.1 with h0 | h0
        · rw [hzl] at h0; cases h0
        · exact h0

end stack

/-! ### configurations -/

section config
variable {T : Tables} {cert : List (List Nat)} {acc : List Nat} {C : RankCert} {A : AutoCert} {auto : Nat}
variable {S : Sem τ ν σ ε} {R : Source τ σ ε}

/-- the most recently shifted token is an AUTOSEMI -/
def lastAuto (S : Sem τ ν σ ε) (auto : Nat) (c : Config τ ν σ) : Bool :=
  match c.shifted with
  | t :: _ => S.ty t == auto
  | [] => false

/-- **no two AUTOSEMI shifts in a row**: when the most recently shifted token is an AUTOSEMI, the top state has no
    shift action on AUTOSEMI -/
theorem auto_not_shifted (h : ranksOK T C = true) (ha : autoOK T C A auto = true) {c : Config τ ν σ}
    (hinv : GInv T S (fun _ _ => True) c) (hl : lastAuto S auto c = true) {st : Nat} {below : List Nat}
    (hst : c.states = st :: below) (s : Nat) : actionOf T st auto ≠ some (.shift s) := by
  obtain ⟨trees, hstack, hyld, _⟩ := hinv
  have hla : lastAutoTrees S.ty auto trees = true := by
    rw [lastAutoTrees_eq, hyld]
    unfold lastAuto at hl
    unfold endsAuto
    cases hsh : c.shifted with
    | nil => rw [hsh] at hl; cases hl
    | cons t rest => rw [hsh] at hl; simpa using hl
  have hal := stack_auto h ha hstack hst hla
  intro hact
  obtain ⟨code, hdec, hok⟩ := ak_action ha hact
  simp only [actionAutoOK, hdec, beq_self_eq_true, Bool.not_true, Bool.false_or, Bool.and_eq_true,
    Bool.not_eq_true'] at hok
  rw [hal] at hok
  exact absurd hok.2 (by simp)

/-- the ghost invariant along a trace -/
theorem trace_ginv (h : tablesValid T cert acc = true) {c0 c' : Config τ ν σ} {n k : Nat}
    (h0 : GInv T S (fun _ _ => True) c0) (ht : Trace T S R c0 n k c') : GInv T S (fun _ _ => True) c' := by
  induction ht with
  | refl => exact h0
  | step _ hs ih => exact step_ginv h ⟨fun _ => trivial, fun _ _ _ _ => trivial⟩ ih hs

end config
end CalmVerif.Model.LR
