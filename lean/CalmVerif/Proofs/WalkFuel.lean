/- C16: the fuel `walk` supplies (vsize t) suffices for every tree: more fuel never changes the result. -/
import CalmVerif.Proofs.WalkThm
namespace CalmVerif.Proofs.Walk
open CalmVerif CalmVerif.Gen.Children CalmVerif.Model.Walk

theorem itemKids_size (as : Attrs) (it : Item) (k1 : List (Step × Val)) (h : itemKids as it = .ok k1) :
    ∀ sc ∈ k1, vsize sc.2 ≤ asize as := by
  intro sc hsc
  cases it with
  | one a =>
    simp only [itemKids] at h
    cases hx : lookup as a with
    | none => simp [hx] at h
    | some x =>
      simp [hx] at h
      subst h
      simp at hsc
      subst hsc
      exact lookup_size as a x hx
  | many a =>
    simp only [itemKids] at h
    cases hx : lookup as a with
    | none => simp [hx] at h
    | some x =>
      cases x with
      | list xs =>
        simp [hx] at h
        subst h
        have h1 := enumFrom_size a xs 0 sc hsc
        have h2 := lookup_size as a (.list xs) hx
        simp only [vsize] at h2
        omega
      | none => simp [hx] at h
      | bool b => simp [hx] at h
      | int n => simp [hx] at h
      | str s => simp [hx] at h
      | node k bs => simp [hx] at h

theorem iterNode_size (tbl : Table) (v : Val) (cs : List (Step × Val)) (h : iterNode tbl v = .ok cs) :
    ∀ sc ∈ cs, vsize sc.2 < vsize v := by
  intro sc hsc
  cases v with
  | node k as =>
    simp only [iterNode, childrenOf] at h
    cases hr : findRow tbl k with
    | none => simp [hr] at h
    | some r =>
      simp only [hr] at h
      cases hk : recipeKids as r.recipe with
      | error e => simp [hk] at h
      | ok ks =>
        simp [hk] at h
        subst h
        have hm := (List.mem_filter.mp hsc).1
        obtain ⟨it, _, k1, hk1, hm1⟩ := recipeKids_mem as r.recipe ks hk sc hm
        have := itemKids_size as it k1 hk1 sc hm1
        simp only [vsize]; omega
  | none => simp [iterNode, childrenOf] at h
  | bool b => simp [iterNode, childrenOf] at h
  | int n => simp [iterNode, childrenOf] at h
  | str s => simp [iterNode, childrenOf] at h
  | list xs => simp [iterNode, childrenOf] at h

theorem walkKids_congr (r1 r2 : Path → Val → Except Err Out) (p : Path) : ∀ (cs : List (Step × Val)),
    (∀ sc ∈ cs, r1 (sc.1 :: p) sc.2 = r2 (sc.1 :: p) sc.2) → walkKids r1 p cs = walkKids r2 p cs := by
  intro cs
  induction cs with
  | nil => intro _; rfl
  | cons sc rest ih =>
    obtain ⟨s, c⟩ := sc
    intro h
    have h1 := h (s, c) List.mem_cons_self
    have h2 := ih (fun sc hsc => h sc (List.mem_cons_of_mem _ hsc))
    simp only at h1
    simp only [walkKids, h1, h2]

theorem walkF_fuel (tbl : Table) : ∀ (n m : Nat) (p : Path) (v : Val),
    vsize v ≤ n → vsize v ≤ m → walkF tbl n p v = walkF tbl m p v := by
  intro n
  induction n with
  | zero => intro m p v h _; have := vsize_pos v; omega
  | succ n ih =>
    intro m p v hn hm
    cases m with
    | zero => have := vsize_pos v; omega
    | succ m =>
      simp only [walkF]
      cases hi : iterNode tbl v with
      | error e => rfl
      | ok cs =>
        simp only
        apply walkKids_congr
        intro sc hsc
        have := iterNode_size tbl v cs hi sc hsc
        exact ih m (sc.1 :: p) sc.2 (by omega) (by omega)

end CalmVerif.Proofs.Walk
