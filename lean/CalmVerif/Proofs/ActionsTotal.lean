/-
Soundness of the shape typing of semantic values (Proofs/ActionsTotalDefs.lean):
  * `safeD_NI`      a descriptor that passes `safeD` for slot shape sets `S` does not raise a non-library exception in
                    any context whose slots have shapes from `S` and whose column lookup succeeds (`LcOK`);
  * `safeD_res`     the value it produces has one of the shapes `resSh` predicts;
  * `reduce_total`  hence, for an action table that passes `closedOK` against a certificate: a call of
                    `Model.Actions.reduce` on arguments whose shapes are in the certificate of the right-hand-side symbols
                    is not an `internal` error, and its value has a shape in the certificate of the left-hand side.
`reduce` depends on its arguments only through this abstraction: `selectRow` sees `kindOf`, which is `Sh.kind` of the
shape (`conc_kind`); the row conditions are accounted for by `filterSlot`.
-/
import CalmVerif.Proofs.ActionsTotalEval
import CalmVerif.Proofs.NodePosTrack
namespace CalmVerif.Proofs.ActionsTotal
open CalmVerif CalmVerif.Model.Actions CalmVerif.Model.ActionDesc CalmVerif.Proofs.NodePos

variable {req : List (String × List String)}

theorem NI_bind {α β : Type} {x : Except Err α} {f : α → Except Err β} (hx : NI x)
    (hf : ∀ a, x = .ok a → NI (f a)) : NI (x >>= f) := by
  cases x with
  | error e => intro w h; exact hx w (by simpa [bind, Except.bind] using h)
  | ok a => exact hf a rfl

theorem NI_map {α β : Type} {x : Except Err α} (f : α → β) (hx : NI x) : NI (x.map f) := by
  cases x with
  | error e => intro w h; exact hx w (by simpa [Except.map] using h)
  | ok a => exact NI_ok _

theorem NI_pure {α : Type} (a : α) : NI (pure a : Except Err α) := NI_ok a

/-! ### shapes of values -/

theorem conc_kind {sh : Sh} {v : Val} (h : conc req sh v) : kindOf v = sh.kind := by
  cases sh with
  | none => simp only [conc] at h; subst h; rfl
  | str => obtain ⟨s, rfl⟩ := h; rfl
  | list => obtain ⟨xs, rfl⟩ := h; rfl
  | elisions => obtain ⟨xs, rfl, _⟩ := h; rfl
  | node k => obtain ⟨as, rfl, _⟩ := h; rfl

theorem conc_tokwf {sh : Sh} {v : Val} (h : conc req sh v) : ValTokWF v := by
  intro k as nm tmv hv hf
  cases sh with
  | none => simp only [conc] at h; subst h; cases hv
  | str => obtain ⟨s, rfl⟩ := h; cases hv
  | list => obtain ⟨xs, rfl⟩ := h; cases hv
  | elisions => obtain ⟨xs, rfl, _⟩ := h; cases hv
  | node k' =>
    obtain ⟨as', rfl, hok⟩ := h
    simp only [Val.node.injEq] at hv
    obtain ⟨rfl, rfl⟩ := hv
    exact hok.2 nm tmv hf

/-- the slots of the context have shapes from the sets `S` -/
structure SlotsOK (req : List (String × List String)) (c : Ctx) (S : List (List Sh)) : Prop where
  len : c.slots.length = S.length
  shape : ∀ (i : Nat) (pv : PVal) (shs : List Sh), c.slots[i]? = some pv → S[i]? = some shs →
    ∃ sh ∈ shs, conc req sh pv.v

section ctx
variable {c : Ctx} {S : List (List Sh)} (hS : SlotsOK req c S)
include hS

theorem slot_of_sh {j : Nat} {shs : List Sh} (hs : slotSh S j = some shs) :
    1 ≤ j ∧ j ≤ c.slots.length ∧ ∃ pv, c.slot? j = some pv ∧ ∃ sh ∈ shs, conc req sh pv.v := by
  unfold slotSh at hs
  split at hs
  · simp at hs
  · next hj =>
    have hlt : j - 1 < S.length := (List.getElem?_eq_some_iff.mp hs).1
    have hlt' : j - 1 < c.slots.length := by rw [hS.len]; exact hlt
    have hpv : c.slots[j - 1]? = some c.slots[j - 1] := List.getElem?_eq_getElem hlt'
    refine ⟨by omega, by omega, c.slots[j - 1], by simp [Ctx.slot?, hj, hpv], hS.shape _ _ _ hpv hs⟩

theorem slot_of_isSome {j : Nat} (hs : (slotSh S j).isSome = true) :
    1 ≤ j ∧ j ≤ c.slots.length ∧ ∃ pv, c.slot? j = some pv := by
  obtain ⟨shs, hshs⟩ := Option.isSome_iff_exists.mp hs
  obtain ⟨h1, h2, pv, hpv, _⟩ := slot_of_sh hS hshs
  exact ⟨h1, h2, pv, hpv⟩

theorem slots_tokwf : ∀ j pv, c.slot? j = some pv → ValTokWF pv.v := by
  intro j pv hpv
  obtain ⟨hj, hpv'⟩ := slot?_succ hpv
  have hlt : j - 1 < S.length := by rw [← hS.len]; exact (List.getElem?_eq_some_iff.mp hpv').1
  obtain ⟨sh, _, hc⟩ := hS.shape _ _ _ hpv' (List.getElem?_eq_getElem hlt)
  exact conc_tokwf hc

/-! ### token maps -/

theorem stepSlot_ok (hlc : LcOK c) {j : Nat} (hj : (slotSh S j).isSome = true) (tm : TM) (htm : TmVals tm) :
    NI (stepSlot c j tm) ∧ ∀ tm', stepSlot c j tm = .ok tm' → TmVals tm' := by
  obtain ⟨h1, h2, pv, hpv⟩ := slot_of_isSome hS hj
  unfold stepSlot
  simp only [hpv]
  cases pv.v with
  | str s =>
    obtain ⟨q, hq, hqv⟩ := findPos_total c hlc (d := 0) h2 h2 h2 h2
    simp only [hq]
    refine ⟨NI_ok _, ?_⟩
    intro tm' h
    simp only [Except.ok.injEq] at h
    rw [← h]
    exact tokmapAdd_all htm hqv
  | _ => exact ⟨NI_ok _, fun tm' h => by simp only [Except.ok.injEq] at h; rw [← h]; exact htm⟩

theorem textOf_NI {attrs : List (String × D)} {as : List (String × Val)} (has : evalAttrs c attrs = .ok as)
    {src : TextSrc} (h : srcSafe S attrs src = true) : NI (textOf c as src) := by
  cases src with
  | slotText j =>
    simp only [srcSafe] at h
    split at h
    · next shs hshs =>
      obtain ⟨_, _, pv, hpv, sh, hsh, hc⟩ := slot_of_sh hS hshs
      have : sh = Sh.str := by simpa using List.all_eq_true.mp h sh hsh
      subst this
      obtain ⟨s, hs⟩ := hc
      simp only [textOf, hpv, hs]
      exact NI_ok _
    · simp at h
  | const s => exact NI_ok _
  | commas =>
    simp only [srcSafe] at h
    obtain ⟨n0, n, hf⟩ := firstValueIsInt_spec h
    have := evalAttrs_find_int has hf
    simp only [textOf, this]
    exact NI_ok _

theorem stepExtra_ok (hlc : LcOK c) {attrs : List (String × D)} {as : List (String × Val)}
    (has : evalAttrs c attrs = .ok as) {e : TextSrc × PosD}
    (he : (posSafe c.slots.length e.2 && posIsVal e.2 && srcSafe S attrs e.1) = true) (tm : TM)
    (htm : TmVals tm) :
    NI (stepExtra c as e tm) ∧ ∀ tm', stepExtra c as e tm = .ok tm' → TmVals tm' := by
  simp only [Bool.and_eq_true] at he
  obtain ⟨⟨hsafe, hval⟩, hsrc⟩ := he
  have hp := evalPos_NI c hlc (slots_tokwf hS) hsafe
  have ht := textOf_NI hS has hsrc
  unfold stepExtra
  cases hq : evalPos c e.2 with
  | error err =>
    simp only []
    refine ⟨?_, fun tm' h => by simp at h⟩
    intro w hw
    simp only [Except.error.injEq] at hw
    exact hp w (by rw [hq, hw])
  | ok q =>
    simp only []
    cases htx : textOf c as e.1 with
    | error err =>
      simp only []
      refine ⟨?_, fun tm' h => by simp at h⟩
      intro w hw
      simp only [Except.error.injEq] at hw
      exact ht w (by rw [htx, hw])
    | ok text =>
      simp only []
      refine ⟨NI_ok _, ?_⟩
      intro tm' h
      simp only [Except.ok.injEq] at h
      rw [← h]
      exact tokmapAdd_all htm (evalPos_isVal c hval hq)

theorem nodeTokmap_ok (hlc : LcOK c) {attrs : List (String × D)} {as : List (String × Val)}
    (has : evalAttrs c attrs = .ok as) {ts : List Nat} {tm : List (TextSrc × PosD)} {tmo : Option Nat}
    (hts : ts.all (fun j => (slotSh S j).isSome) = true)
    (htm : tm.all (fun e => posSafe c.slots.length e.2 && posIsVal e.2 && srcSafe S attrs e.1) = true)
    (htmo : (match tmo with | some j => (slotSh S j).isSome | none => true) = true) :
    NI (nodeTokmap c as ts tm tmo) ∧ ∀ tmv, nodeTokmap c as ts tm tmo = .ok tmv → TokmapWF tmv := by
  cases tmo with
  | some j =>
    simp only [] at htmo
    obtain ⟨_, _, pv, hpv⟩ := slot_of_isSome hS htmo
    simp only [nodeTokmap, hpv]
    refine ⟨NI_ok _, ?_⟩
    intro tmv h
    simp only [Except.ok.injEq] at h
    rw [← h]
    have hwf := slots_tokwf hS j pv hpv
    unfold getAttr Val.attr?
    cases hv : pv.v with
    | node k as' =>
      simp only []
      cases hf : as'.find? (fun p => p.1 == "@tokmap") with
      | none => exact emptyTokmap_wf
      | some x => exact hwf k as' x.1 x.2 hv hf
    | _ => exact emptyTokmap_wf
  | none =>
    simp only [nodeTokmap]
    have h1 := foldE_NI (step := stepSlot c) (P := fun tm => TmVals tm ∧ True)
    have hempty : TmVals [] := by intro e he; simp at he
    -- first loop
    have hfirst : NI (foldE (stepSlot c) ts []) ∧ ∀ tm1, foldE (stepSlot c) ts [] = .ok tm1 → TmVals tm1 := by
      clear h1
      have : ∀ (l : List Nat) (b : TM), (∀ j ∈ l, (slotSh S j).isSome = true) → TmVals b →
          NI (foldE (stepSlot c) l b) ∧ ∀ b', foldE (stepSlot c) l b = .ok b' → TmVals b' := by
        intro l
        induction l with
        | nil =>
          intro b _ hb
          simp only [foldE]
          exact ⟨NI_ok _, fun b' h => by simp only [Except.ok.injEq] at h; rw [← h]; exact hb⟩
        | cons a l ih =>
          intro b hl hb
          simp only [foldE]
          obtain ⟨hni, hp⟩ := stepSlot_ok hS hlc (hl a List.mem_cons_self) b hb
          cases hs : stepSlot c a b with
          | error e =>
            simp only []
            refine ⟨?_, fun b' h => by simp at h⟩
            intro w hw
            simp only [Except.error.injEq] at hw
            exact hni w (by rw [hs, hw])
          | ok b1 => exact ih b1 (fun j hj => hl j (List.mem_cons_of_mem _ hj)) (hp b1 hs)
      exact this ts [] (fun j hj => List.all_eq_true.mp hts j hj) hempty
    clear h1
    have hsecond : ∀ (l : List (TextSrc × PosD)) (b : TM),
        (∀ e ∈ l, (posSafe c.slots.length e.2 && posIsVal e.2 && srcSafe S attrs e.1) = true) → TmVals b →
        NI (foldE (stepExtra c as) l b) ∧ ∀ b', foldE (stepExtra c as) l b = .ok b' → TmVals b' := by
      intro l
      induction l with
      | nil =>
        intro b _ hb
        simp only [foldE]
        exact ⟨NI_ok _, fun b' h => by simp only [Except.ok.injEq] at h; rw [← h]; exact hb⟩
      | cons a l ih =>
        intro b hl hb
        simp only [foldE]
        obtain ⟨hni, hp⟩ := stepExtra_ok hS hlc has (hl a List.mem_cons_self) b hb
        cases hs : stepExtra c as a b with
        | error e =>
          simp only []
          refine ⟨?_, fun b' h => by simp at h⟩
          intro w hw
          simp only [Except.error.injEq] at hw
          exact hni w (by rw [hs, hw])
        | ok b1 => exact ih b1 (fun j hj => hl j (List.mem_cons_of_mem _ hj)) (hp b1 hs)
    cases hf1 : foldE (stepSlot c) ts [] with
    | error e =>
      simp only []
      refine ⟨?_, fun b' h => by simp at h⟩
      intro w hw
      simp only [Except.error.injEq] at hw
      exact hfirst.1 w (by rw [hf1, hw])
    | ok tm1 =>
      simp only []
      obtain ⟨hni2, hp2⟩ := hsecond tm tm1 (fun e he => List.all_eq_true.mp htm e he) (hfirst.2 tm1 hf1)
      cases hf2 : foldE (stepExtra c as) tm tm1 with
      | error e =>
        simp only []
        refine ⟨?_, fun b' h => by simp at h⟩
        intro w hw
        simp only [Except.error.injEq] at hw
        exact hni2 w (by rw [hf2, hw])
      | ok tm2 =>
        simp only []
        refine ⟨NI_ok _, ?_⟩
        intro tmv h
        simp only [Except.ok.injEq] at h
        rw [← h]
        exact tokmapVal_wf (hp2 tm2 hf2)

/-! ### no internal error -/

theorem spread_slot_NI {j : Nat}
    (h : (match slotSh S j with | some shs => shs.all isListSh | none => false) = true) :
    ∃ pv xs, c.slot? j = some pv ∧ pv.v = .list xs := by
  split at h
  · next shs hshs =>
    obtain ⟨_, _, pv, hpv, sh, hsh, hc⟩ := slot_of_sh hS hshs
    have hl := List.all_eq_true.mp h sh hsh
    cases sh with
    | list => obtain ⟨xs, hxs⟩ := hc; exact ⟨pv, xs, hpv, hxs⟩
    | elisions => obtain ⟨xs, hxs, _⟩ := hc; exact ⟨pv, xs, hpv, hxs⟩
    | _ => simp [isListSh] at hl
  · simp at h

theorem elision_slot {j : Nat}
    (h : (match slotSh S j with | some shs => shs.all (· == Sh.elisions) | none => false) = true) :
    ∃ pv xs, c.slot? j = some pv ∧ pv.v = .list xs ∧ xs ≠ [] ∧
      ∀ x ∈ xs, ∃ k as, x = .node k as ∧ hasIntValue as := by
  split at h
  · next shs hshs =>
    obtain ⟨_, _, pv, hpv, sh, hsh, hc⟩ := slot_of_sh hS hshs
    have : sh = Sh.elisions := by simpa using List.all_eq_true.mp h sh hsh
    subst this
    obtain ⟨xs, hxs, hne, hall⟩ := hc
    exact ⟨pv, xs, hpv, hxs, hne, hall⟩
  · simp at h

end ctx

/-- a non-empty list of nodes carrying an integer `value` -/
def ElisionList (xs : List Val) : Prop := xs ≠ [] ∧ ∀ x ∈ xs, ∃ k as, x = .node k as ∧ hasIntValue as

theorem incLast_ok {xs : List Val} (h : ElisionList xs) : ∃ xs1, incLast xs = .ok xs1 ∧ ElisionList xs1 := by
  obtain ⟨hne, hall⟩ := h
  unfold incLast
  cases hr : xs.reverse with
  | nil => simp at hr; exact absurd hr hne
  | cons x before =>
    have hx : x ∈ xs := by
      have : x ∈ xs.reverse := by rw [hr]; simp
      simpa using this
    obtain ⟨k, as, rfl, nm, n, hf⟩ := hall x hx
    simp only [hf]
    refine ⟨_, rfl, by simp, ?_⟩
    intro y hy
    simp only [List.reverse_cons, List.mem_append, List.mem_reverse, List.mem_singleton] at hy
    rcases hy with hy | rfl
    · have : y ∈ xs := by
        have : y ∈ xs.reverse := by rw [hr]; simp [hy]
        simpa using this
      exact hall y this
    · exact ⟨k, _, rfl, setAttr_value_int ⟨nm, n, hf⟩ _⟩

theorem setFirstTm_ok {xs : List Val} (q : Val) (h : ElisionList xs) :
    ∃ xs2, setFirstTm q xs = .ok xs2 ∧ ElisionList xs2 := by
  obtain ⟨hne, hall⟩ := h
  unfold setFirstTm
  cases xs with
  | nil => exact absurd rfl hne
  | cons x after =>
    obtain ⟨k, as, rfl, nm, n, hf⟩ := hall x List.mem_cons_self
    simp only [hf]
    refine ⟨_, rfl, by simp, ?_⟩
    intro y hy
    simp only [List.mem_cons] at hy
    rcases hy with rfl | hy
    · exact ⟨k, _, rfl, setAttr_other_int ⟨nm, n, hf⟩ (by decide) _⟩
    · exact hall y (List.mem_cons_of_mem _ hy)

/-- evaluation of a `spreadMod` item on an elision list: no internal error (if the position and the rest raise none);
    the items produced before the rest are an elision list again -/
theorem spreadMod_ok {c : Ctx} {j : Nat} {li : Bool} {ft : Option PosD} {rest : List Item} {pv : PVal}
    {xs : List Val} (hpv : c.slot? j = some pv) (hv : pv.v = .list xs) (hel : ElisionList xs) :
    ((∀ pd, ft = some pd → NI (evalPos c pd)) → NI (evalItems c rest) →
      NI (evalItems c (.spreadMod j li ft :: rest))) ∧
    ∀ v, evalItems c (.spreadMod j li ft :: rest) = .ok v →
      ∃ xs2 vs, ElisionList xs2 ∧ evalItems c rest = .ok vs ∧ v = xs2 ++ vs := by
  rw [evalItems_spreadMod]
  simp only [hpv, hv]
  have h1 : ∃ xs1, (if li then incLast xs else .ok xs) = .ok xs1 ∧ ElisionList xs1 := by
    cases li with
    | false => exact ⟨xs, rfl, hel⟩
    | true => exact incLast_ok hel
  obtain ⟨xs1, hxs1, hel1⟩ := h1
  simp only [hxs1]
  cases ft with
  | none =>
    simp only []
    cases hr : evalItems c rest with
    | error e =>
      simp only []
      refine ⟨fun _ hrest => ?_, fun v h => by simp at h⟩
      intro w hw
      simp only [Except.error.injEq] at hw
      exact hrest w (by rw [hw])
    | ok vs =>
      simp only []
      exact ⟨fun _ _ => NI_ok _, fun v h => by
        simp only [Except.ok.injEq] at h; exact ⟨xs1, vs, hel1, rfl, h.symm⟩⟩
  | some pd =>
    simp only []
    cases hq : evalPos c pd with
    | error e =>
      simp only []
      refine ⟨fun hft _ => ?_, fun v h => by simp at h⟩
      intro w hw
      simp only [Except.error.injEq] at hw
      exact hft pd rfl w (by rw [hq, hw])
    | ok q =>
      simp only []
      obtain ⟨xs2, hxs2, hel2⟩ := setFirstTm_ok q hel1
      simp only [hxs2]
      cases hr : evalItems c rest with
      | error e =>
        simp only []
        refine ⟨fun _ hrest => ?_, fun v h => by simp at h⟩
        intro w hw
        simp only [Except.error.injEq] at hw
        exact hrest w (by rw [hw])
      | ok vs =>
        simp only []
        exact ⟨fun _ _ => NI_ok _, fun v h => by
          simp only [Except.ok.injEq] at h; exact ⟨xs2, vs, hel2, rfl, h.symm⟩⟩

/-! ### token maps are well formed whenever they are built -/

theorem stepSlot_wf {c : Ctx} {j : Nat} {tm tm' : TM} (htm : TmVals tm) (h : stepSlot c j tm = .ok tm') :
    TmVals tm' := by
  unfold stepSlot at h
  split at h
  · split at h
    · split at h
      · next q hq =>
        simp only [Except.ok.injEq] at h
        rw [← h]
        exact tokmapAdd_all htm (evalPos_isVal c (pd := .at j 0) rfl (by simpa [evalPos] using hq))
      · simp at h
    · simp only [Except.ok.injEq] at h; rw [← h]; exact htm
  · simp at h

theorem stepExtra_wf {c : Ctx} {as : List (String × Val)} {e : TextSrc × PosD} {tm tm' : TM}
    (hval : posIsVal e.2 = true) (htm : TmVals tm) (h : stepExtra c as e tm = .ok tm') : TmVals tm' := by
  unfold stepExtra at h
  split at h
  · simp at h
  · next q hq =>
    split at h
    · simp at h
    · simp only [Except.ok.injEq] at h
      rw [← h]
      exact tokmapAdd_all htm (evalPos_isVal c hval hq)

theorem nodeTokmap_wf {c : Ctx} (hwf : ∀ j pv, c.slot? j = some pv → ValTokWF pv.v)
    {as : List (String × Val)} {ts : List Nat} {tm : List (TextSrc × PosD)} {tmo : Option Nat}
    (htm : tm.all (fun e => posIsVal e.2) = true) {tmv : Val}
    (h : nodeTokmap c as ts tm tmo = .ok tmv) : TokmapWF tmv := by
  cases tmo with
  | some j =>
    simp only [nodeTokmap] at h
    split at h
    · next pv hpv =>
      simp only [Except.ok.injEq] at h
      rw [← h]
      have hw := hwf j pv hpv
      unfold getAttr Val.attr?
      cases hv : pv.v with
      | node k as' =>
        simp only []
        cases hf : as'.find? (fun p => p.1 == "@tokmap") with
        | none => exact emptyTokmap_wf
        | some x => exact hw k as' x.1 x.2 hv hf
      | _ => exact emptyTokmap_wf
    · simp at h
  | none =>
    simp only [nodeTokmap] at h
    split at h
    · simp at h
    · next tm1 h1 =>
      split at h
      · simp at h
      · next tm2 h2 =>
        simp only [Except.ok.injEq] at h
        rw [← h]
        have hempty : TmVals [] := by intro e he; simp at he
        have hP1 : TmVals tm1 :=
          foldE_inv TmVals (fun _ => True) (fun a b b' _ hb hs => stepSlot_wf hb hs) ts [] tm1
            (fun _ _ => trivial) hempty h1
        exact tokmapVal_wf
          (foldE_inv TmVals (fun e => posIsVal e.2 = true) (fun a b b' ha hb hs => stepExtra_wf ha hb hs)
            tm tm1 tm2 (fun e he => List.all_eq_true.mp htm e he) hP1 h2)

section main
variable {c : Ctx} {S : List (List Sh)} (hS : SlotsOK req c S) (hlc : LcOK c)
include hS hlc

mutual
  /-- **a safe descriptor does not raise a non-library exception** -/
  theorem safeD_NI : ∀ (d : D), safeD req S c.slots.length d = true → NI (evalD c d)
    | .slot j, h => by
      simp only [safeD] at h
      obtain ⟨_, _, pv, hpv⟩ := slot_of_isSome hS h
      rw [evalD]; simp only [hpv]; exact NI_ok _
    | .none, _ => by rw [evalD]; exact NI_ok _
    | .str _, _ => by rw [evalD]; exact NI_ok _
    | .int _, _ => by rw [evalD]; exact NI_ok _
    | .attrOf j name, h => by
      simp only [safeD] at h
      split at h
      · next shs hshs =>
        obtain ⟨_, _, pv, hpv, sh, hsh, hc⟩ := slot_of_sh hS hshs
        have hl := List.all_eq_true.mp h sh hsh
        cases sh with
        | node kd =>
          simp only [List.contains_eq_mem, decide_eq_true_eq] at hl
          obtain ⟨as, hv, hok⟩ := hc
          have := hok.1 name hl
          obtain ⟨x, hx⟩ := Option.isSome_iff_exists.mp this
          rw [evalD]
          simp only [hpv, getAttr, Val.attr?, hv, hx, Option.map_some]
          exact NI_ok _
        | _ => simp at hl
      · simp at h
    | .raiseAt msg j, h => by
      simp only [safeD] at h
      obtain ⟨_, _, pv, hpv⟩ := slot_of_isSome hS h
      obtain ⟨q, hq, a, l, cl, rfl⟩ := ofNodeTok_total c hpv (slots_tokwf hS j pv hpv)
      rw [evalD]
      simp only [hq]
      exact NI_production _
    | .list items, h => by
      simp only [safeD] at h
      rw [evalD]
      exact NI_map _ (safeItems_NI items h)
    | .node kind attrs pos ts tm tmo, h => by
      simp only [safeD, Bool.and_eq_true] at h
      obtain ⟨⟨⟨⟨⟨⟨hattrs, _⟩, _⟩, hpos⟩, hts⟩, htm⟩, htmo⟩ := h
      have h1 := safeAttrs_NI attrs hattrs
      rw [evalD_node]
      cases has : evalAttrs c attrs with
      | error e =>
        intro w hw
        simp only [Except.error.injEq] at hw
        exact h1 w (by rw [has, hw])
      | ok as =>
        simp only []
        have h2 := evalPos_NI c hlc (slots_tokwf hS) hpos
        cases hp : evalPos c pos with
        | error e =>
          intro w hw
          simp only [Except.error.injEq] at hw
          exact h2 w (by rw [hp, hw])
        | ok p =>
          simp only []
          have h3 := (nodeTokmap_ok hS hlc has hts htm htmo).1
          cases ht : nodeTokmap c as ts tm tmo with
          | error e =>
            intro w hw
            simp only [Except.error.injEq] at hw
            exact h3 w (by rw [ht, hw])
          | ok tmv => exact NI_ok _
  theorem safeAttrs_NI : ∀ (l : List (String × D)), safeAttrs req S c.slots.length l = true → NI (evalAttrs c l)
    | [], _ => by rw [evalAttrs]; exact NI_ok _
    | (n, d) :: rest, h => by
      simp only [safeAttrs, Bool.and_eq_true] at h
      rw [evalAttrs]
      exact NI_bind (safeD_NI d h.1) fun _ _ => NI_bind (safeAttrs_NI rest h.2) fun _ _ => NI_pure _
  theorem safeItems_NI : ∀ (l : List Item), safeItems req S c.slots.length l = true → NI (evalItems c l)
    | [], _ => by rw [evalItems]; exact NI_ok _
    | .item d :: rest, h => by
      simp only [safeItems, Bool.and_eq_true] at h
      rw [evalItems]
      exact NI_bind (safeD_NI d h.1) fun _ _ => NI_bind (safeItems_NI rest h.2) fun _ _ => NI_pure _
    | .spread j :: rest, h => by
      simp only [safeItems, Bool.and_eq_true] at h
      obtain ⟨pv, xs, hpv, hv⟩ := spread_slot_NI hS h.1
      rw [evalItems]
      simp only [hpv, hv]
      exact NI_bind (NI_pure _) fun _ _ => NI_bind (safeItems_NI rest h.2) fun _ _ => NI_pure _
    | .spreadMod j li ft :: rest, h => by
      simp only [safeItems, Bool.and_eq_true] at h
      obtain ⟨pv, xs, hpv, hv, hne, hall⟩ := elision_slot hS h.1.1
      refine (spreadMod_ok hpv hv ⟨hne, hall⟩).1 ?_ (safeItems_NI rest h.2)
      intro pd hpd
      subst hpd
      exact evalPos_NI c hlc (slots_tokwf hS) h.1.2
end

end main

section res
variable {c : Ctx} {S : List (List Sh)} (hS : SlotsOK req c S)
include hS

/-- **the value of a safe descriptor has one of the predicted shapes** -/
theorem safeD_res {d : D} (h : safeD req S c.slots.length d = true) {v : Val} (hev : evalD c d = .ok v)
    {shs : List Sh} (hr : resSh S d = some shs) : ∃ sh ∈ shs, conc req sh v := by
  cases d with
  | slot j =>
    simp only [resSh] at hr
    obtain ⟨_, _, pv, hpv, sh, hsh, hc⟩ := slot_of_sh hS hr
    obtain ⟨pv', hpv', rfl⟩ := evalD_slot_ok hev
    rw [hpv] at hpv'
    simp only [Option.some.injEq] at hpv'
    subst hpv'
    exact ⟨sh, hsh, hc⟩
  | none =>
    simp only [resSh, Option.some.injEq] at hr
    rw [evalD] at hev
    simp only [Except.ok.injEq] at hev
    subst hr; subst hev
    exact ⟨Sh.none, by simp, rfl⟩
  | str s =>
    simp only [resSh, Option.some.injEq] at hr
    rw [evalD] at hev
    simp only [Except.ok.injEq] at hev
    subst hr; subst hev
    exact ⟨Sh.str, by simp, s, rfl⟩
  | int n => simp [resSh] at hr
  | attrOf j name => simp [resSh] at hr
  | raiseAt msg j => exact absurd hev evalD_raiseAt_ne
  | list items =>
    simp only [resSh, Option.some.injEq] at hr
    subst hr
    obtain ⟨xs, hxs, rfl⟩ := evalD_list_ok hev
    refine ⟨_, List.mem_singleton.mpr rfl, ?_⟩
    split
    · next hel =>
      -- an elision list
      simp only [safeD] at h
      unfold itemsAreElisions at hel
      split at hel
      · next j li ft =>
        simp only [safeItems, Bool.and_eq_true] at h
        obtain ⟨pv, ys, hpv, hv, hne, hall⟩ := elision_slot hS h.1.1
        obtain ⟨xs2, vs, hel2, hvs, rfl⟩ := (spreadMod_ok hpv hv ⟨hne, hall⟩).2 xs hxs
        rw [evalItems] at hvs
        simp only [Except.ok.injEq] at hvs
        subst hvs
        simp only [List.append_nil]
        exact ⟨xs2, rfl, hel2.1, hel2.2⟩
      · next kind attrs pos ts tm tmo =>
        obtain ⟨x, rest, hx, hrest, rfl⟩ := evalItems_item_ok hxs
        rw [evalItems] at hrest
        simp only [Except.ok.injEq] at hrest
        subst hrest
        obtain ⟨as, p, tmv, has, _, _, rfl⟩ := evalD_node_ok hx
        obtain ⟨n0, n, hf⟩ := firstValueIsInt_spec hel
        have := evalAttrs_find_int has hf
        refine ⟨_, rfl, by simp, ?_⟩
        intro y hy
        simp only [List.mem_singleton] at hy
        subst hy
        refine ⟨kind, _, rfl, n0, n, ?_⟩
        rw [List.append_assoc, List.find?_append, this]; rfl
      · simp at hel
    · exact ⟨xs, rfl⟩
  | node kind attrs pos ts tm tmo =>
    simp only [resSh, Option.some.injEq] at hr
    subst hr
    simp only [safeD, Bool.and_eq_true] at h
    obtain ⟨⟨⟨⟨⟨⟨_, hres⟩, hreq⟩, _⟩, _⟩, htm⟩, _⟩ := h
    obtain ⟨as, p, tmv, has, _, htmv, rfl⟩ := evalD_node_ok hev
    have hnames := evalAttrs_names has
    refine ⟨_, List.mem_singleton.mpr rfl, _, rfl, ?_, ?_⟩
    · intro name hname
      have hany := List.all_eq_true.mp hreq name hname
      have := find?_name_isSome hnames hany
      rw [List.append_assoc, List.find?_append]
      obtain ⟨x, hx⟩ := Option.isSome_iff_exists.mp this
      simp [hx]
    · intro nm tmv' hf
      have hnone : as.find? (·.1 == "@tokmap") = none :=
        find?_reserved_none hnames hres (by simp [reserved])
      have hextra : (nodeExtra c pos).find? (·.1 == "@tokmap") = none := by
        unfold nodeExtra
        split <;> simp
      rw [List.append_assoc, List.find?_append, hnone, List.find?_append, hextra] at hf
      simp only [Option.none_or, List.find?_cons] at hf
      have h1 : (("@pos" : String) == "@tokmap") = false := by decide
      simp only [h1, Bool.false_eq_true, if_false, beq_self_eq_true, if_true, Option.some.injEq,
        Prod.mk.injEq] at hf
      rw [← hf.2]
      refine nodeTokmap_wf (slots_tokwf hS) ?_ htmv
      rw [List.all_eq_true] at htm ⊢
      intro e he
      have := htm e he
      simp only [Bool.and_eq_true] at this
      exact this.1.2

end res

/-! ### one call of a semantic action -/

theorem closedFrom_get {cert : Cert} {nT : Nat} : ∀ {ps : List (Nat × List Nat)} {es : List Entry},
    closedFrom cert nT ps es = true → ∀ {i : Nat} {q : Nat × List Nat}, ps[i]? = some q →
      ∃ e, es[i]? = some e ∧ entryOK cert nT ((cert.shapes[q.1]?).getD []) q.2 e = true
  | [], [], _, i, q, hq => by simp at hq
  | [], _ :: _, h, _, _, _ => by simp [closedFrom] at h
  | _ :: _, [], h, _, _, _ => by simp [closedFrom] at h
  | (l, rhs) :: ps, e0 :: es, h, i, q, hq => by
    simp only [closedFrom, Bool.and_eq_true] at h
    cases i with
    | zero => simp at hq; subst hq; exact ⟨e0, by simp, h.1⟩
    | succ i =>
      simp at hq
      obtain ⟨e, he, hok⟩ := closedFrom_get h.2 hq
      exact ⟨e, by simpa using he, hok⟩

theorem slotSets_length (cert : Cert) (nT : Nat) (conds : List (Nat × List Kind)) :
    ∀ (i : Nat) (rhs : List Nat), (slotSets cert nT conds i rhs).length = rhs.length
  | _, [] => rfl
  | i, x :: rest => by simp [slotSets, slotSets_length cert nT conds (i + 1) rest]

theorem slotSets_get (cert : Cert) (nT : Nat) (conds : List (Nat × List Kind)) :
    ∀ (i : Nat) (rhs : List Nat) (n : Nat) (x : Nat), rhs[n]? = some x →
      (slotSets cert nT conds i rhs)[n]? = some (filterSlot conds (i + n) (symShapes cert nT x))
  | _, [], n, x, h => by simp at h
  | i, y :: rest, 0, x, h => by simp at h; subst h; simp [slotSets]
  | i, y :: rest, n + 1, x, h => by
    simp at h
    have := slotSets_get cert nT conds (i + 1) rest n x h
    simp only [slotSets, List.getElem?_cons_succ, this]
    congr 2; omega

/-- the arguments of a call have shapes in the certificate of the right-hand-side symbols -/
def ArgsOK (cert : Cert) (nT : Nat) (rhs : List Nat) (args : List PVal) : Prop :=
  args.length = rhs.length ∧
  ∀ (i : Nat) (pv : PVal) (x : Nat), args[i]? = some pv → rhs[i]? = some x →
    ∃ sh ∈ symShapes cert nT x, conc cert.req sh pv.v

theorem reduce_err {table : List Entry} {wc : Bool} {lc : Nat → Nat → Option Int} {p : Nat} {args : List PVal}
    {lp : Nat × Nat} {err : Err} (h : Model.Actions.reduce table wc lc p args lp = .error err) :
    table[p]? = none ∨ ∃ e, table[p]? = some e ∧
      evalD (mkCtx args lp lc wc) (selectRow e (args.map (fun a => kindOf a.v))) = .error err := by
  unfold Model.Actions.reduce at h
  split at h
  · next hn => exact Or.inl hn
  · next e he =>
    right
    simp only [] at h
    split at h
    · simp at h
    · next err' herr =>
      simp only [Except.error.injEq] at h
      subst h
      exact ⟨e, he, herr⟩

/-- the slots of the context of a call have shapes from the slot sets of the selected row -/
theorem slotsOK_of_args {cert : Cert} {nT : Nat} {rhs : List Nat} {args : List PVal}
    (hargs : ArgsOK cert nT rhs args) (lp : Nat × Nat) (lc : Nat → Nat → Option Int) (wc : Bool)
    {conds : List (Nat × List Kind)}
    (hconds : conds.all (condHolds (args.map (fun a => kindOf a.v))) = true) :
    SlotsOK cert.req (mkCtx args lp lc wc) (slotSets cert nT conds 1 rhs) := by
  constructor
  · simp [mkCtx, slotSets_length, hargs.1]
  · intro i pv shs hpv hshs
    simp only [mkCtx] at hpv
    have hlt : i < rhs.length := by rw [← hargs.1]; exact (List.getElem?_eq_some_iff.mp hpv).1
    have hx : rhs[i]? = some rhs[i] := List.getElem?_eq_getElem hlt
    rw [slotSets_get cert nT conds 1 rhs i _ hx] at hshs
    simp only [Option.some.injEq] at hshs
    subst hshs
    obtain ⟨sh, hsh, hc⟩ := hargs.2 i pv _ hpv hx
    refine ⟨sh, ?_, hc⟩
    simp only [filterSlot, List.mem_filter, List.all_eq_true, Bool.or_eq_true, bne_iff_ne, ne_eq]
    refine ⟨hsh, ?_⟩
    intro cond hcond
    by_cases hc1 : cond.1 = 1 + i
    · right
      have hh := List.all_eq_true.mp hconds cond hcond
      unfold condHolds at hh
      have hk : (args.map (fun a => kindOf a.v))[cond.1 - 1]? = some (kindOf pv.v) := by
        rw [hc1]; simp [hpv]
      rw [hk] at hh
      simp only [Bool.and_eq_true] at hh
      rw [← conc_kind hc]
      exact hh.2
    · exact Or.inl hc1

/-- the row selected by a call passes `rowOK` for slot sets that cover the arguments -/
theorem selected_row {cert : Cert} {T : Model.LR.Tables} {table : List Entry}
    (hclosed : closedOK cert T table = true) {p lhs : Nat} {rhs : List Nat}
    (hp : T.prods[p]? = some (lhs, rhs)) {args : List PVal} (hargs : ArgsOK cert T.numTerminals rhs args)
    (wc : Bool) (lc : Nat → Nat → Option Int) (lp : Nat × Nat) :
    ∃ e S, table[p]? = some e ∧ SlotsOK cert.req (mkCtx args lp lc wc) S ∧
      safeD cert.req S (mkCtx args lp lc wc).slots.length (selectRow e (args.map (fun a => kindOf a.v))) = true ∧
      (match resSh S (selectRow e (args.map (fun a => kindOf a.v))) with
        | some shs => shs.all ((cert.shapes[lhs]?).getD []).contains
        | none => false) = true := by
  obtain ⟨e, he, hentry⟩ := closedFrom_get hclosed hp
  simp only [] at hentry
  simp only [entryOK, Bool.and_eq_true] at hentry
  have hrow : ∃ conds, conds.all (condHolds (args.map (fun a => kindOf a.v))) = true ∧
      rowOK cert T.numTerminals ((cert.shapes[lhs]?).getD []) rhs conds
        (selectRow e (args.map (fun a => kindOf a.v))) = true := by
    unfold selectRow
    split
    · next row hrow =>
      exact ⟨row.1, by simpa using List.find?_some hrow,
        List.all_eq_true.mp hentry.2 row (List.mem_of_find?_eq_some hrow)⟩
    · exact ⟨[], by simp, hentry.1⟩
  obtain ⟨conds, hconds, hrowok⟩ := hrow
  have hS := slotsOK_of_args hargs lp lc wc hconds
  have hne : (slotSets cert T.numTerminals conds 1 rhs).any (·.isEmpty) = false := by
    rw [Bool.eq_false_iff]
    intro hany
    rw [List.any_eq_true] at hany
    obtain ⟨shs, hmem, hemp⟩ := hany
    obtain ⟨i, hi⟩ := List.getElem?_of_mem hmem
    have hlt : i < args.length := by
      have := (List.getElem?_eq_some_iff.mp hi).1
      rw [slotSets_length] at this
      rw [hargs.1]; exact this
    obtain ⟨sh, hsh, _⟩ := hS.shape i args[i] shs (by simp [mkCtx, List.getElem?_eq_getElem hlt]) hi
    simp only [List.isEmpty_iff] at hemp
    rw [hemp] at hsh
    simp at hsh
  simp only [rowOK, hne, Bool.false_or, Bool.and_eq_true] at hrowok
  obtain ⟨hsafe, hres⟩ := hrowok
  have hlen : (mkCtx args lp lc wc).slots.length = rhs.length := by simp [mkCtx, hargs.1]
  rw [← hlen] at hsafe
  exact ⟨e, _, he, hS, hsafe, hres⟩

/-- **one call, no internal error** (given that the column lookup succeeds) -/
theorem reduce_NI {cert : Cert} {T : Model.LR.Tables} {table : List Entry}
    (hclosed : closedOK cert T table = true) {p lhs : Nat} {rhs : List Nat}
    (hp : T.prods[p]? = some (lhs, rhs)) {args : List PVal} (hargs : ArgsOK cert T.numTerminals rhs args)
    {wc : Bool} {lc : Nat → Nat → Option Int} {lp : Nat × Nat} (hlc : LcOK (mkCtx args lp lc wc)) :
    NI (Model.Actions.reduce table wc lc p args lp) := by
  obtain ⟨e, S, he, hS, hsafe, _⟩ := selected_row hclosed hp hargs wc lc lp
  have hni := safeD_NI hS hlc _ hsafe
  intro w hw
  rcases reduce_err hw with hn | ⟨e', he', herr⟩
  · rw [he] at hn; simp at hn
  · rw [he] at he'
    simp only [Option.some.injEq] at he'
    subst he'
    exact hni w herr

/-- **one call, shape of the value**: a shape in the certificate of the left-hand side -/
theorem reduce_res {cert : Cert} {T : Model.LR.Tables} {table : List Entry}
    (hclosed : closedOK cert T table = true) {p lhs : Nat} {rhs : List Nat}
    (hp : T.prods[p]? = some (lhs, rhs)) {args : List PVal} (hargs : ArgsOK cert T.numTerminals rhs args)
    {wc : Bool} {lc : Nat → Nat → Option Int} {lp : Nat × Nat} {pv : PVal}
    (hpv : Model.Actions.reduce table wc lc p args lp = .ok pv) :
    ∃ sh ∈ (cert.shapes[lhs]?).getD [], conc cert.req sh pv.v := by
  obtain ⟨e, S, he, hS, hsafe, hres⟩ := selected_row hclosed hp hargs wc lc lp
  obtain ⟨e', v, he', hev, rfl⟩ := reduce_ok hpv
  rw [he] at he'
  simp only [Option.some.injEq] at he'
  subst he'
  split at hres
  · next shs hshs =>
    obtain ⟨sh, hsh, hc⟩ := safeD_res hS hsafe hev hshs
    refine ⟨sh, ?_, hc⟩
    have := List.all_eq_true.mp hres sh hsh
    simpa using this
  · simp at hres

end CalmVerif.Proofs.ActionsTotal
