/-
C13, value level: erasing comments (`@comments` attributes, `Node.comments`) from trees and semantic values, and the
operations of Model.Actions on trees that commute with it.
-/
import CalmVerif.Model.Actions

namespace CalmVerif.Proofs.Comments
open CalmVerif CalmVerif.Model.Actions CalmVerif.Model.ActionDesc

mutual
  /-- remove every `@comments` attribute (`Node.comments`) from a tree -/
  def eraseV : Val → Val
    | .list xs => .list (eraseVs xs)
    | .node k as => .node k (eraseAs as)
    | v => v
  def eraseVs : List Val → List Val
    | [] => []
    | v :: vs => eraseV v :: eraseVs vs
  def eraseAs : List (String × Val) → List (String × Val)
    | [] => []
    | (a, v) :: rest => if a == "@comments" then eraseAs rest else (a, eraseV v) :: eraseAs rest
end

def eraseATok (t : Tok) : Tok := { t with hidden := [] }

/-- a semantic value without comments: the tree erased, the token (if it is one) without `hidden_tokens` -/
def erasePV (pv : PVal) : PVal :=
  { pv with v := eraseV pv.v, tok := pv.tok.map eraseATok }

@[simp] theorem eraseV_list (xs : List Val) : eraseV (.list xs) = .list (eraseVs xs) := by simp [eraseV]
@[simp] theorem eraseV_node (k : String) (as : List (String × Val)) : eraseV (.node k as) = .node k (eraseAs as) := by
  simp [eraseV]
@[simp] theorem eraseV_none : eraseV .none = .none := by simp [eraseV]
@[simp] theorem eraseV_str (s : String) : eraseV (.str s) = .str s := by simp [eraseV]
@[simp] theorem eraseV_int (n : Int) : eraseV (.int n) = .int n := by simp [eraseV]
@[simp] theorem eraseV_bool (b : Bool) : eraseV (.bool b) = .bool b := by simp [eraseV]
@[simp] theorem eraseVs_nil : eraseVs [] = [] := by simp [eraseVs]
@[simp] theorem eraseVs_cons (v : Val) (vs : List Val) : eraseVs (v :: vs) = eraseV v :: eraseVs vs := by simp [eraseVs]
@[simp] theorem eraseAs_nil : eraseAs [] = [] := by simp [eraseAs]
theorem eraseAs_cons (a : String) (v : Val) (rest : List (String × Val)) :
    eraseAs ((a, v) :: rest) = if a == "@comments" then eraseAs rest else (a, eraseV v) :: eraseAs rest := by
  simp [eraseAs]

theorem eraseVs_eq_map (xs : List Val) : eraseVs xs = xs.map eraseV := by
  induction xs with
  | nil => simp
  | cons v vs ih => simp [ih]

theorem eraseVs_append (xs ys : List Val) : eraseVs (xs ++ ys) = eraseVs xs ++ eraseVs ys := by
  simp [eraseVs_eq_map]

theorem eraseVs_reverse (xs : List Val) : eraseVs xs.reverse = (eraseVs xs).reverse := by
  simp [eraseVs_eq_map]

theorem eraseAs_append (xs ys : List (String × Val)) : eraseAs (xs ++ ys) = eraseAs xs ++ eraseAs ys := by
  induction xs with
  | nil => simp
  | cons p rest ih =>
    obtain ⟨a, v⟩ := p
    simp only [List.cons_append, eraseAs_cons, ih]
    split <;> simp

/-- attribute lists whose names are not `@comments` are erased value by value -/
theorem eraseAs_of_names (as : List (String × Val)) (h : ∀ p ∈ as, p.1 ≠ "@comments") :
    eraseAs as = as.map (fun p => (p.1, eraseV p.2)) := by
  induction as with
  | nil => simp
  | cons p rest ih =>
    obtain ⟨a, v⟩ := p
    have ha : a ≠ "@comments" := h (a, v) (List.mem_cons_self ..)
    rw [eraseAs_cons, ih (fun q hq => h q (List.mem_cons_of_mem _ hq))]
    simp [ha]

@[simp] theorem eraseV_posVal (l n : Nat) (c : Int) : eraseV (posVal l n c) = posVal l n c := by simp [posVal]
@[simp] theorem eraseV_posUnset : eraseV posUnset = posUnset := by simp [posUnset]

theorem kindOf_erase (v : Val) : kindOf (eraseV v) = kindOf v := by
  cases v <;> simp [kindOf]

theorem find_eraseAs (as : List (String × Val)) (name : String) (hn : name ≠ "@comments") :
    (eraseAs as).find? (fun p => p.1 == name) =
      (as.find? (fun p => p.1 == name)).map (fun p => (p.1, eraseV p.2)) := by
  induction as with
  | nil => simp
  | cons p rest ih =>
    obtain ⟨a, v⟩ := p
    rw [eraseAs_cons]
    by_cases hc : a = "@comments"
    · subst hc
      have : ("@comments" == name) = false := by simp [Ne.symm hn]
      simp [List.find?_cons, this, ih]
    · have hc' : (a == "@comments") = false := by simp [hc]
      simp only [hc', Bool.false_eq_true, if_false, List.find?_cons]
      by_cases hname : (a == name) = true
      · simp [hname]
      · simp [hname, ih]

theorem any_eraseAs (as : List (String × Val)) (name : String) (hn : name ≠ "@comments") :
    (eraseAs as).any (fun p => p.1 == name) = as.any (fun p => p.1 == name) := by
  induction as with
  | nil => simp
  | cons p rest ih =>
    obtain ⟨a, v⟩ := p
    rw [eraseAs_cons]
    by_cases hc : a = "@comments"
    · subst hc
      have : ("@comments" == name) = false := by simp [Ne.symm hn]
      simp [this, ih]
    · have hc' : (a == "@comments") = false := by simp [hc]
      simp [hc', ih]

theorem getAttr_erase (v : Val) (name : String) (hn : name ≠ "@comments") :
    getAttr (eraseV v) name = (getAttr v name).map eraseV := by
  cases v with
  | node k as =>
    simp only [getAttr, Val.attr?, eraseV_node, find_eraseAs as name hn]
    cases as.find? (fun p => p.1 == name) <;> rfl
  | _ => simp [getAttr, Val.attr?]

theorem setAttr_erase (as : List (String × Val)) (name : String) (x : Val) (hn : name ≠ "@comments") :
    setAttr (eraseAs as) name (eraseV x) = eraseAs (setAttr as name x) := by
  unfold setAttr
  rw [any_eraseAs as name hn]
  by_cases hany : as.any (fun p => p.1 == name) = true
  · rw [if_pos hany, if_pos hany]
    clear hany
    induction as with
    | nil => simp
    | cons p rest ih =>
      obtain ⟨a, v⟩ := p
      by_cases hc : a = "@comments"
      · subst hc
        have h1 : ¬ ("@comments" = name) := fun h => hn h.symm
        simp only [List.map_cons, beq_iff_eq, if_neg h1, eraseAs_cons, if_true]
        simpa using ih
      · by_cases hname : a = name
        · subst hname
          simp only [List.map_cons, beq_iff_eq, eraseAs_cons, if_neg hc, if_true]
          congr 1
          simpa using ih
        · simp only [List.map_cons, beq_iff_eq, eraseAs_cons, if_neg hc, if_neg hname]
          congr 1
          simpa using ih
  · rw [if_neg hany, if_neg hany, eraseAs_append]
    have hnc : (name == "@comments") = false := by simp [hn]
    simp [eraseAs_cons, hnc]

/-! ### token maps -/

def eraseTm (tm : List (String × List Val)) : List (String × List Val) := tm.map (fun e => (e.1, eraseVs e.2))

theorem tokmapAdd_erase (tm : List (String × List Val)) (text : String) (q : Val) :
    tokmapAdd (eraseTm tm) text (eraseV q) = eraseTm (tokmapAdd tm text q) := by
  unfold tokmapAdd eraseTm
  have hany : (tm.map (fun e => (e.1, eraseVs e.2))).any (fun e => e.1 == text) = tm.any (fun e => e.1 == text) := by
    simp [List.any_map, Function.comp_def]
  rw [hany]
  by_cases h : tm.any (fun e => e.1 == text) = true
  · rw [if_pos h, if_pos h]
    simp only [List.map_map]
    apply List.map_congr_left
    intro e _
    simp only [Function.comp_apply]
    by_cases he : (e.1 == text) = true
    · simp [he, eraseVs_append]
    · simp [he]
  · rw [if_neg h, if_neg h]
    simp

theorem tokmapVal_erase (tm : List (String × List Val)) : tokmapVal (eraseTm tm) = eraseV (tokmapVal tm) := by
  unfold tokmapVal eraseTm
  simp [eraseVs_eq_map, Function.comp_def]

end CalmVerif.Proofs.Comments
