/-
C13, lexer level: the lexer with comment capture simulates the lexer without it.

`eraseSt` forgets everything the `with_comments` flag adds: the flag itself, the pending `hidden_tokens`,
and the `hidden_tokens` attribute of every token object the state refers to.  Every method the parser calls
commutes with it, returning equal tokens up to `hidden`, equal errors (messages included) and erased states.
-/
import CalmVerif.Model.Lexer

namespace CalmVerif.Proofs.Comments
open CalmVerif.Model.Lexer CalmVerif.Model.PlyLex

/-- forget `token.hidden_tokens` -/
@[reducible] def eraseTok (t : Token) : Token := { t with hidden := [] }

def eraseOT (t : Option Token) : Option Token := t.map eraseTok

/-- forget the capture flag, the pending hidden tokens and the `hidden` attribute of all tokens in the state -/
def eraseSt (st : LexState) : LexState :=
  { st with
    prevToken := eraseOT st.prevToken, validPrevToken := eraseOT st.validPrevToken,
    curToken := eraseOT st.curToken, curTokenReal := eraseOT st.curTokenReal,
    nextTokens := st.nextTokens.map eraseTok,
    tokenStack := st.tokenStack.map (fun p => (eraseOT p.1, p.2)),
    hiddenTokens := [], withComments := false }

def eraseRes : Res (Option Token) → Res (Option Token)
  | .error e => .error e
  | .ok (t, st) => .ok (eraseOT t, eraseSt st)

@[simp] theorem eraseTok_type (t : Token) : (eraseTok t).type = t.type := rfl
@[simp] theorem eraseTok_value (t : Token) : (eraseTok t).value = t.value := rfl
@[simp] theorem eraseTok_lexpos (t : Token) : (eraseTok t).lexpos = t.lexpos := rfl
@[simp] theorem eraseTok_lineno (t : Token) : (eraseTok t).lineno = t.lineno := rfl
@[simp] theorem eraseTok_colno (t : Token) : (eraseTok t).colno = t.colno := rfl
@[simp] theorem eraseTok_auto (t : Token) : (eraseTok t).auto = t.auto := rfl
@[simp] theorem eraseTok_uid (t : Token) : (eraseTok t).uid = t.uid := rfl
@[simp] theorem eraseTok_hidden (t : Token) : (eraseTok t).hidden = [] := rfl
@[simp] theorem eraseTok_idem (t : Token) : eraseTok (eraseTok t) = eraseTok t := rfl
@[simp] theorem eraseTok_toComment (t : Token) : (eraseTok t).toComment = t.toComment := rfl
@[simp] theorem eraseTok_setHidden (t : Token) (h : List Comment) : eraseTok { t with hidden := h } = eraseTok t := rfl

@[simp] theorem eraseOT_none : eraseOT none = none := rfl
@[simp] theorem eraseOT_some (t : Token) : eraseOT (some t) = some (eraseTok t) := rfl

@[simp] theorem eraseSt_text (st : LexState) : (eraseSt st).text = st.text := rfl
@[simp] theorem eraseSt_lexpos (st : LexState) : (eraseSt st).lexpos = st.lexpos := rfl
@[simp] theorem eraseSt_lineno (st : LexState) : (eraseSt st).lineno = st.lineno := rfl
@[simp] theorem eraseSt_newlineIdx (st : LexState) : (eraseSt st).newlineIdx = st.newlineIdx := rfl
@[simp] theorem eraseSt_serial (st : LexState) : (eraseSt st).serial = st.serial := rfl
@[simp] theorem eraseSt_yield (st : LexState) : (eraseSt st).yieldComments = st.yieldComments := rfl
@[simp] theorem eraseSt_wc (st : LexState) : (eraseSt st).withComments = false := rfl
@[simp] theorem eraseSt_hidden (st : LexState) : (eraseSt st).hiddenTokens = [] := rfl
@[simp] theorem eraseSt_prev (st : LexState) : (eraseSt st).prevToken = eraseOT st.prevToken := rfl
@[simp] theorem eraseSt_vprev (st : LexState) : (eraseSt st).validPrevToken = eraseOT st.validPrevToken := rfl
@[simp] theorem eraseSt_cur (st : LexState) : (eraseSt st).curToken = eraseOT st.curToken := rfl
@[simp] theorem eraseSt_curReal (st : LexState) : (eraseSt st).curTokenReal = eraseOT st.curTokenReal := rfl
@[simp] theorem eraseSt_next (st : LexState) : (eraseSt st).nextTokens = st.nextTokens.map eraseTok := rfl
@[simp] theorem eraseSt_stack (st : LexState) :
    (eraseSt st).tokenStack = st.tokenStack.map (fun p => (eraseOT p.1, p.2)) := rfl

theorem formatLexToken_erase (t : Token) : formatLexToken (eraseTok t) = formatLexToken t := rfl

/-! ### positions and error functions -/

theorem lastNewline_erase (st : LexState) : lastNewline (eraseSt st) = lastNewline st := rfl
theorem colnoAt_erase (st : LexState) (p : Nat) : colnoAt (eraseSt st) p = colnoAt st p := rfl
theorem lookupColno_erase (st : LexState) (l p : Nat) : lookupColno (eraseSt st) l p = lookupColno st l p := rfl

theorem updateNewlineIdx_erase (st : LexState) (p : Nat) (v : List Char) :
    updateNewlineIdx (eraseSt st) p v = eraseSt (updateNewlineIdx st p v) := rfl

theorem tError_erase (st : LexState) (p : Nat) :
    tError { eraseSt st with lexpos := p } p = tError { st with lexpos := p } p := by
  unfold tError
  simp only [colnoAt, lastNewline, updateNewlineIdx, eraseSt]
  cases st.curToken <;> rfl

theorem tRegexError_erase (st : LexState) (p : Nat) :
    tRegexError { eraseSt st with lexpos := p } p = tRegexError { st with lexpos := p } p := rfl

/-! ### `get_lexer_token` -/

theorem getLexerToken_erase (s : LexerState) (st : LexState) :
    getLexerToken s (eraseSt st) = eraseRes (getLexerToken s st) := by
  unfold getLexerToken
  have hap : afterPeriod (eraseSt st) = afterPeriod st := by
    unfold afterPeriod
    rw [eraseSt_curReal]
    cases st.curTokenReal <;> rfl
  simp only [eraseSt_text, eraseSt_lexpos, hap]
  cases h : plyToken s st.text st.lexpos (afterPeriod st) with
  | eof p => rfl
  | modelGap r => rfl
  | error p =>
    cases s
    · exact congrArg Except.error (tError_erase st p)
    · exact congrArg Except.error (tRegexError_erase st p)
  | tok ty start len =>
    simp only [colnoAt_erase]
    cases colnoAt st start with
    | error e => rfl
    | ok c => rfl

/-! ### token bookkeeping -/

def eraseE : Except Err LexState → Except Err LexState
  | .error e => .error e
  | .ok st => .ok (eraseSt st)

theorem setTokens_erase (st : LexState) (t : Option Token) :
    setTokens (eraseSt st) (eraseOT t) = eraseE (setTokens st t) := by
  unfold setTokens
  simp only [eraseSt_stack]
  cases hs : st.tokenStack with
  | nil => rfl
  | cons top below =>
    obtain ⟨m, inner⟩ := top
    simp only [List.map_cons, eraseE, eraseSt, hs]
    congr 2
    · cases st.curToken with
      | none => rfl
      | some c => simp only [eraseOT, Option.map_some, eraseTok_type]; by_cases hm : isMarker c.type = true <;> simp [hm]
    · cases t with
      | none => rfl
      | some c => simp only [eraseOT, Option.map_some, eraseTok_type]; by_cases hm : isMarker c.type = true <;> simp [hm]

theorem createSemiToken_erase (st : LexState) (o : Option Token) :
    createSemiToken (eraseSt st) (eraseOT o) = ((createSemiToken st o).1, eraseSt (createSemiToken st o).2) := by
  cases o <;> rfl

theorem createSemiToken_tok_erase (st : LexState) (o : Option Token) :
    eraseTok (createSemiToken st o).1 = (createSemiToken st o).1 := by
  cases o <;> rfl

theorem isMarkedParen_erase (st : LexState) : isMarkedParen (eraseSt st) = isMarkedParen st := by
  unfold isMarkedParen
  cases h : st.prevToken <;> simp [h, eraseOT]

theorem pushParen_erase (st : LexState) (cur : Token) :
    pushParen (eraseSt st) (eraseTok cur) = eraseE (pushParen st cur) := by
  unfold pushParen
  rw [isMarkedParen_erase]
  by_cases hm : isMarkedParen st = true
  · simp only [hm, if_true]; rfl
  · simp only [hm, Bool.false_eq_true, if_false, eraseSt_stack]
    cases hs : st.tokenStack with
    | nil => rfl
    | cons top below =>
      obtain ⟨m, inner⟩ := top
      rfl

theorem popParen_erase (st : LexState) : popParen (eraseSt st) = eraseE (popParen st) := by
  unfold popParen
  simp only [eraseSt_stack]
  cases hs : st.tokenStack with
  | nil => rfl
  | cons top below =>
    obtain ⟨m, inner⟩ := top
    simp only [List.map_cons]
    by_cases hi : 0 < inner
    · simp only [hi, if_true]; rfl
    · simp only [hi, if_false]; rfl

/-- `updateStack` with its two tests made explicit -/
def updateStack' (st : LexState) (cur : Token) (pL pR : Prop) [Decidable pL] [Decidable pR] : Except Err LexState :=
  match (if pL then pushParen st cur else .ok st) with
  | .error e => .error e
  | .ok st1 =>
    match (if pR then popParen st1 else .ok st1) with
    | .error e => .error e
    | .ok st2 =>
      if st2.tokenStack.isEmpty then
        .error (.syntax ("Mismatched '" ++ str cur.value ++ "' at " ++ toString cur.lineno ++ ":" ++ toString cur.colno))
      else .ok st2

theorem updateStack_eq (st : LexState) (cur : Token) :
    updateStack st cur = updateStack' st cur (cur.type = "LPAREN") (cur.type = "RPAREN") := rfl

theorem updateStack'_erase (st : LexState) (cur : Token) (pL pR : Prop) [Decidable pL] [Decidable pR] :
    updateStack' (eraseSt st) (eraseTok cur) pL pR = eraseE (updateStack' st cur pL pR) := by
  unfold updateStack'
  have h1 : (if pL then pushParen (eraseSt st) (eraseTok cur) else .ok (eraseSt st)) =
      eraseE (if pL then pushParen st cur else .ok st) := by
    by_cases h : pL
    · rw [if_pos h, if_pos h]; exact pushParen_erase st cur
    · rw [if_neg h, if_neg h]; rfl
  rw [h1]
  cases (if pL then pushParen st cur else Except.ok st) with
  | error e => rfl
  | ok st1 =>
    simp only [eraseE]
    have h2 : (if pR then popParen (eraseSt st1) else .ok (eraseSt st1)) =
        eraseE (if pR then popParen st1 else .ok st1) := by
      by_cases h : pR
      · rw [if_pos h, if_pos h]; exact popParen_erase st1
      · rw [if_neg h, if_neg h]; rfl
    rw [h2]
    cases (if pR then popParen st1 else Except.ok st1) with
    | error e => rfl
    | ok st2 =>
      simp only [eraseE, eraseSt_stack, List.isEmpty_map]
      by_cases he : st2.tokenStack.isEmpty = true
      · rw [if_pos he, if_pos he]
      · rw [if_neg he, if_neg he]

theorem updateStack_erase (st : LexState) (cur : Token) :
    updateStack (eraseSt st) (eraseTok cur) = eraseE (updateStack st cur) := by
  rw [updateStack_eq, updateStack_eq]
  exact updateStack'_erase st cur _ _

theorem isRestrictedLt_erase (st : LexState) (cur : Token) :
    isRestrictedLt (eraseSt st) (eraseTok cur) = isRestrictedLt st cur := by
  unfold isRestrictedLt
  simp only [eraseSt_prev, eraseTok_type]
  cases st.prevToken <;> rfl

theorem getUpdateToken_erase (st : LexState) :
    getUpdateToken (eraseSt st) = eraseRes (getUpdateToken st) := by
  unfold getUpdateToken
  rw [getLexerToken_erase]
  cases getLexerToken .initial st with
  | error e => rfl
  | ok r =>
    obtain ⟨tok, st1⟩ := r
    simp only [eraseRes]
    rw [setTokens_erase]
    cases setTokens st1 tok with
    | error e => rfl
    | ok st2 =>
      simp only [eraseE, eraseSt_cur]
      cases hc : st2.curToken with
      | none => rfl
      | some cur =>
        simp only [eraseOT_some]
        rw [updateStack_erase]
        cases updateStack st2 cur with
        | error e => rfl
        | ok st3 =>
          simp only [eraseE, isRestrictedLt_erase]
          split
          · have := createSemiToken_erase st3 (some cur)
            simp only [eraseOT_some] at this
            rw [this]
            simp only [eraseRes, eraseOT_some, createSemiToken_tok_erase]
          · rfl

theorem readRegex_erase (st : LexState) : readRegex (eraseSt st) = eraseRes (readRegex st) :=
  getLexerToken_erase .regex st

/-! ### the division / regular expression decision does not look at `hidden` -/

theorem checkToken_erase (st : LexState) : checkToken (eraseSt st) = eraseOT (checkToken st) := by
  unfold checkToken
  simp only [eraseSt_curReal, eraseSt_prev]
  cases st.curTokenReal with
  | none => rfl
  | some t => simp only [eraseOT_some, eraseTok_type]; by_cases hm : isMarker t.type = true <;> simp [hm]

theorem isDivisionAllowed_erase (st : LexState) : isDivisionAllowed (eraseSt st) = isDivisionAllowed st := by
  unfold isDivisionAllowed
  rw [checkToken_erase]
  simp only [eraseSt_stack, eraseSt_prev]
  have key : ∀ (first : Bool),
      (if first = true then
        (match st.tokenStack.map (fun p => (eraseOT p.1, p.2)) with
          | [] => (Except.error (Err.internal "IndexError") : Except Err Bool)
          | (marker, _) :: _ =>
            match marker with
            | none => .ok true
            | some m =>
              .ok ((match eraseOT st.prevToken with | some p => decide (m.uid = p.uid) | none => false) || impliesDiv m.type))
       else .ok false) =
      (if first = true then
        (match st.tokenStack with
          | [] => (Except.error (Err.internal "IndexError") : Except Err Bool)
          | (marker, _) :: _ =>
            match marker with
            | none => .ok true
            | some m =>
              .ok ((match st.prevToken with | some p => decide (m.uid = p.uid) | none => false) || impliesDiv m.type))
       else .ok false) := by
    intro first
    cases first with
    | false => rfl
    | true =>
      simp only [if_true]
      cases hs : st.tokenStack with
      | nil => rfl
      | cons top below =>
        obtain ⟨m, inner⟩ := top
        simp only [List.map_cons]
        cases m with
        | none => rfl
        | some mk =>
          simp only [eraseOT_some, eraseTok_uid, eraseTok_type]
          cases st.prevToken <;> rfl
  cases hct : checkToken st with
  | none => exact key false
  | some t => exact key (impliesDiv t.type)

theorem divOrRegex_erase (st : LexState) : divOrRegex (eraseSt st) = eraseRes (divOrRegex st) := by
  unfold divOrRegex
  rw [isDivisionAllowed_erase]
  cases isDivisionAllowed st with
  | error e => rfl
  | ok b =>
    cases b with
    | true => exact getUpdateToken_erase st
    | false =>
      simp only []
      rw [readRegex_erase]
      cases readRegex st with
      | error e => rfl
      | ok r =>
        obtain ⟨tok, st1⟩ := r
        simp only [eraseRes]
        rw [setTokens_erase]
        cases setTokens st1 tok with
        | error e => rfl
        | ok st2 => rfl

/-! ### `_token`, `token` -/

theorem eraseSt_setHidden (st : LexState) (h : List Comment) :
    eraseSt { st with hiddenTokens := h } = eraseSt st := rfl

theorem tokenLoop_erase (fuel : Nat) (st : LexState) :
    tokenLoop fuel (eraseSt st) = eraseRes (tokenLoop fuel st) := by
  induction fuel generalizing st with
  | zero => rfl
  | succ n ih =>
    unfold tokenLoop
    simp only [eraseSt_text, eraseSt_lexpos]
    cases peek st.text st.lexpos with
    | none =>
      simp only []
      rw [getUpdateToken_erase]
      cases getUpdateToken st with
      | error e => rfl
      | ok r =>
        obtain ⟨tok, st1⟩ := r
        cases tok with
        | none => rfl
        | some t =>
          simp only [eraseRes, eraseOT_some, eraseTok_type]
          by_cases hl : t.type = "LINE_TERMINATOR"
          · simp only [if_pos hl]; exact ih st1
          · simp only [if_neg hl]; rfl
    | some cn =>
      obtain ⟨char, nextChar⟩ := cn
      simp only []
      by_cases hc : char ≠ '/' ∨ (nextChar = '/' ∨ nextChar = '*')
      · simp only [if_pos hc]
        rw [getUpdateToken_erase]
        cases getUpdateToken st with
        | error e => rfl
        | ok r =>
          obtain ⟨tok, st1⟩ := r
          cases tok with
          | none => rfl
          | some t =>
            simp only [eraseRes, eraseOT_some]
            have hwc : ¬ ((eraseSt st1).withComments = true) := by simp
            by_cases hm : isMarker t.type = true
            · simp only [if_pos hm]
              by_cases hcm : isComment t.type = true
              · simp only [if_pos hcm]
                by_cases hy : st1.yieldComments = true
                · have hy' : (eraseSt st1).yieldComments = true := hy
                  rw [if_pos hy', if_pos hy]; rfl
                · have hy' : ¬ (eraseSt st1).yieldComments = true := hy
                  rw [if_neg hy', if_neg hy, if_neg hwc]
                  by_cases hw : st1.withComments = true
                  · simp only [if_pos hw]
                    have := ih { st1 with hiddenTokens := st1.hiddenTokens ++ [t.toComment] }
                    rw [eraseSt_setHidden] at this
                    exact this
                  · simp only [if_neg hw]; exact ih st1
              · simp only [if_neg hcm]; exact ih st1
            · simp only [if_neg hm]; rfl
      · simp only [if_neg hc]; exact divOrRegex_erase st

theorem tokenFuel_erase (st : LexState) : tokenFuel (eraseSt st) = tokenFuel st := rfl

theorem token'_erase (st : LexState) : token' (eraseSt st) = eraseRes (token' st) := by
  unfold token'
  simp only [eraseSt_next]
  cases hn : st.nextTokens with
  | nil => simp only [List.map_nil, tokenFuel_erase]; exact tokenLoop_erase _ st
  | cons t rest => simp [eraseRes, eraseSt, hn]

/-- T: one `token()` call with capture = the same call without capture, up to `hidden`: same token (type, value,
    position, identity), same error (with its message), erased state -/
theorem token_erase (st : LexState) : token (eraseSt st) = eraseRes (token st) := by
  unfold token
  rw [token'_erase]
  cases token' st with
  | error e => rfl
  | ok r =>
    obtain ⟨tok, st1⟩ := r
    cases tok with
    | none => rfl
    | some t =>
      simp only [eraseRes, eraseOT_some, eraseSt_wc, Bool.false_and, Bool.false_eq_true, if_false]
      by_cases hh : (st1.withComments && !st1.hiddenTokens.isEmpty) = true
      · rw [if_pos hh]; rfl
      · rw [if_neg hh]; rfl

/-! ### the parser-facing methods -/

theorem isPrevTokenLt_erase (st : LexState) : isPrevTokenLt (eraseSt st) = isPrevTokenLt st := by
  unfold isPrevTokenLt
  cases h : st.prevToken <;> simp [h, eraseOT]

theorem autoSemi_erase (st : LexState) (tok : Option Token) :
    autoSemi (eraseSt st) (eraseOT tok) = (eraseOT (autoSemi st tok).1, eraseSt (autoSemi st tok).2) := by
  unfold autoSemi
  cases tok with
  | none =>
    simp only [eraseOT_none]
    have := createSemiToken_erase st none
    simp only [eraseOT_none] at this
    rw [this]
    simp only [eraseOT_some, createSemiToken_tok_erase]
  | some t =>
    simp only [eraseOT_some, eraseTok_type, isPrevTokenLt_erase]
    split
    · have := createSemiToken_erase { st with nextTokens := t :: st.nextTokens } (some t)
      simp only [eraseOT_some] at this
      have h2 : ({ eraseSt st with nextTokens := eraseTok t :: (eraseSt st).nextTokens } : LexState) =
          eraseSt { st with nextTokens := t :: st.nextTokens } := rfl
      rw [h2, this]
      simp only [eraseOT_some, createSemiToken_tok_erase]
    · rfl

theorem backtrackedToken_erase (st : LexState) (pos : Nat) :
    backtrackedToken (eraseSt st) pos = eraseRes (backtrackedToken st pos) := by
  unfold backtrackedToken
  by_cases hp : st.lexpos < pos
  · have hp' : (eraseSt st).lexpos < pos := hp
    rw [if_pos hp', if_pos hp]; rfl
  · have hp' : ¬ (eraseSt st).lexpos < pos := hp
    rw [if_neg hp', if_neg hp]
    have h2 : ({ eraseSt st with lexpos := (eraseSt st).lexpos - pos, nextTokens := [] } : LexState) =
        eraseSt { st with lexpos := st.lexpos - pos, nextTokens := [] } := rfl
    rw [h2]
    dsimp only
    rw [token_erase]
    cases token { st with lexpos := st.lexpos - pos, nextTokens := [] } with
    | error e => rfl
    | ok r => obtain ⟨tok, st2⟩ := r; rfl

end CalmVerif.Proofs.Comments
