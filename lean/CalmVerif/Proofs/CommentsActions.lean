/-
C13, action level: what `Node.set_comments` (model `Actions.commentsOf`) builds from `token.hidden_tokens`.
-/
import CalmVerif.Model.Actions

namespace CalmVerif.Proofs.Comments
open CalmVerif CalmVerif.Model.Actions

abbrev Hid := String × String × Nat × Nat × Int

/-- the comment node `set_comments` builds for one hidden token, with its position -/
def commentNode : Hid → Option (Val × Val) := fun (ty, value, lp, ln, col) =>
  let kind := if ty == "LINE_COMMENT" then some "LineComment"
              else if ty == "BLOCK_COMMENT" then some "BlockComment" else none
  kind.map fun k =>
    (Val.node k [("value", .str value), ("@pos", posVal lp ln col),
                 ("@tokmap", tokmapVal [(value, [posVal lp ln col])])], posVal lp ln col)

theorem commentsOf_eq (t : Tok) :
    commentsOf t =
      match t.hidden.filterMap commentNode with
      | [] => none
      | (c, p0) :: cs =>
        some (.node "Comments" [("children", .list (((c, p0) :: cs).map (·.1))), ("@pos", p0), ("@tokmap", .list [])]) := by
  unfold commentsOf
  show (match t.hidden.filterMap commentNode with
    | [] => (none : Option Val)
    | (_, p0) :: _ => some (Val.node "Comments" [("children", .list ((t.hidden.filterMap commentNode).map (fun (x : Val × Val) => x.1))), ("@pos", p0),
        ("@tokmap", .list [])])) = _
  cases t.hidden.filterMap commentNode with
  | nil => rfl
  | cons x xs => obtain ⟨c, p0⟩ := x; rfl

theorem commentNode_some (h : Hid) (hk : h.1 = "LINE_COMMENT" ∨ h.1 = "BLOCK_COMMENT") :
    ∃ c, commentNode h = some (c, posVal h.2.2.1 h.2.2.2.1 h.2.2.2.2) ∧
      c.attr? "value" = some (Val.str h.2.1) ∧ c.attr? "@pos" = some (posVal h.2.2.1 h.2.2.2.1 h.2.2.2.2) := by
  obtain ⟨ty, value, lp, ln, col⟩ := h
  rcases hk with hk | hk <;> simp only at hk <;> subst hk
  · exact ⟨_, rfl, rfl, rfl⟩
  · exact ⟨_, rfl, rfl, rfl⟩

theorem filterMap_commentNode (hs : List Hid) (hall : ∀ h ∈ hs, h.1 = "LINE_COMMENT" ∨ h.1 = "BLOCK_COMMENT") :
    ∃ cs : List (Val × Val), hs.filterMap commentNode = cs ∧ cs.length = hs.length ∧
      cs.map (fun c => (c.1.attr? "value", c.1.attr? "@pos")) =
        hs.map (fun h => (some (Val.str h.2.1), some (posVal h.2.2.1 h.2.2.2.1 h.2.2.2.2))) := by
  induction hs with
  | nil => exact ⟨[], rfl, rfl, rfl⟩
  | cons h rest ih =>
    obtain ⟨cs, hcs, hlen, hmap⟩ := ih (fun x hx => hall x (List.mem_cons_of_mem _ hx))
    obtain ⟨c, hc, hv, hp⟩ := commentNode_some h (hall h (List.mem_cons_self ..))
    refine ⟨(c, posVal h.2.2.1 h.2.2.2.1 h.2.2.2.2) :: cs, ?_, ?_, ?_⟩
    · rw [List.filterMap_cons, hc, hcs]
    · simp [hlen]
    · simp only [List.map_cons, hv, hp, hmap]

theorem commentsOf_spec (t : Tok)
    (hall : ∀ h ∈ t.hidden, h.1 = "LINE_COMMENT" ∨ h.1 = "BLOCK_COMMENT") :
    (t.hidden = [] → commentsOf t = none) ∧
    (t.hidden ≠ [] → ∃ kids p0, commentsOf t =
        some (.node "Comments" [("children", .list kids), ("@pos", p0), ("@tokmap", .list [])]) ∧
      kids.map (fun k => (k.attr? "value", k.attr? "@pos")) =
        t.hidden.map (fun h => (some (Val.str h.2.1), some (posVal h.2.2.1 h.2.2.2.1 h.2.2.2.2)))) := by
  constructor
  · intro h0
    rw [commentsOf_eq, h0]
    rfl
  · intro hne
    obtain ⟨cs, hcs, hlen, hmap⟩ := filterMap_commentNode t.hidden hall
    rw [commentsOf_eq, hcs]
    cases cs with
    | nil =>
      have : t.hidden.length = 0 := by rw [← hlen]; rfl
      exact absurd (List.eq_nil_of_length_eq_zero this) hne
    | cons c rest =>
      obtain ⟨c1, p0⟩ := c
      refine ⟨((c1, p0) :: rest).map (·.1), p0, rfl, ?_⟩
      rw [← hmap, List.map_map]
      rfl

end CalmVerif.Proofs.Comments
