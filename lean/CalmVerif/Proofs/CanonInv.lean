/-
The tree hypotheses of the typed theorems do not depend on attribute order: `wfVal cx` and `valAll p q` give the same
answer on a tree and on its canonical form `Model.Actions.canon` (attributes sorted by name, `@tokmap` entries sorted —
the form harness/treedump.py emits and the drivers receive).
`canon` keeps every node kind, every string and int, maps lists elementwise, permutes the attributes of a node
(`mem_canonSorted`: insertion sort keeps membership) and rewrites only the value of `@tokmap`, which is not a printed
attribute; both predicates are conjunctions over the printed attributes.
-/
import CalmVerif.Proofs.ParsedTyped
namespace CalmVerif.Proofs.CanonInv
open CalmVerif CalmVerif.Model.Actions CalmVerif.TokenAdj CalmVerif.Unparse CalmVerif.Proofs.ParsedTyped

theorem mem_insertSorted {p x : String × Val} : ∀ {l : List (String × Val)},
    x ∈ insertSorted p l ↔ x = p ∨ x ∈ l
  | [] => by simp [insertSorted]
  | q :: rest => by
    simp only [insertSorted]
    split
    · simp
    · simp only [List.mem_cons, mem_insertSorted (l := rest)]
      constructor
      · rintro (h | h | h)
        · exact Or.inr (Or.inl h)
        · exact Or.inl h
        · exact Or.inr (Or.inr h)
      · rintro (h | h | h)
        · exact Or.inr (Or.inl h)
        · exact Or.inl h
        · exact Or.inr (Or.inr h)

/-- sorting the attributes keeps them -/
theorem mem_canonSorted {x : String × Val} : ∀ {l : List (String × Val)},
    x ∈ l.foldr insertSorted [] ↔ x ∈ l
  | [] => by simp
  | p :: rest => by
    simp only [List.foldr_cons, mem_insertSorted, List.mem_cons, mem_canonSorted (l := rest)]

theorem canon_node (k : String) (as : List (String × Val)) :
    canon (.node k as) = .node k ((canonAttrs as).foldr insertSorted []) := by rw [canon]

theorem canon_list (xs : List Val) : canon (.list xs) = .list (canonList xs) := by rw [canon]

theorem kindIn_canon (ks : List String) (v : Val) : kindIn ks (canon v) = kindIn ks v := by
  cases v with
  | node k as => rw [canon_node]; rfl
  | list xs => rw [canon_list]; rfl
  | none => simp [canon]
  | bool b => simp [canon]
  | int n => simp [canon]
  | str s => simp [canon]

theorem all_kindIn_canonList (ks : List String) : ∀ (xs : List Val),
    (canonList xs).all (kindIn ks) = xs.all (kindIn ks)
  | [] => by rw [canonList]
  | x :: rest => by
    rw [canonList]
    simp only [List.all_cons, kindIn_canon, all_kindIn_canonList ks rest]

/-- a slot accepts the canonical form of a value iff it accepts the value -/
theorem slotOK_canon (st : SlotTy) (v : Val) : slotOK st (canon v) = slotOK st v := by
  cases v with
  | node k as => rw [canon_node]; cases st <;> rfl
  | list xs =>
    rw [canon_list]
    cases st with
    | nodes ks => simp only [slotOK]; exact all_kindIn_canonList ks xs
    | _ => rfl
  | none => simp [canon]
  | bool b => simp [canon]
  | int n => simp [canon]
  | str s => simp [canon]

theorem wfAttrs_perm (cx : TokenAdj.Ctx) (k : String) {l l' : List (String × Val)}
    (h : ∀ x, x ∈ l ↔ x ∈ l') : wfAttrs cx k l = wfAttrs cx k l' := by
  rw [Bool.eq_iff_iff, wfAttrs_iff, wfAttrs_iff]
  exact ⟨fun hl a ha => hl a ((h a).mpr ha), fun hl a ha => hl a ((h a).mp ha)⟩

theorem attrsAll_perm (p q : String → Bool) {l l' : List (String × Val)}
    (h : ∀ x, x ∈ l ↔ x ∈ l') : attrsAll p q l = attrsAll p q l' := by
  rw [Bool.eq_iff_iff, attrsAll_iff, attrsAll_iff]
  exact ⟨fun hl a ha => hl a ((h a).mpr ha), fun hl a ha => hl a ((h a).mp ha)⟩

theorem printed_tokmap {a : String} (h : (a == "@tokmap") = true) : printedAttr a = false := by
  have : a = "@tokmap" := by simpa using h
  subst this
  decide

mutual
  /-- **`wfVal` is invariant under `canon`** -/
  theorem wfVal_canon (cx : TokenAdj.Ctx) : ∀ (v : Val), wfVal cx (canon v) = wfVal cx v
    | .node k as => by
      rw [canon_node]
      simp only [wfVal]
      rw [wfAttrs_perm cx k (fun x => mem_canonSorted)]
      exact wfAttrs_canon cx k as
    | .list xs => by
      rw [canon_list]
      simp only [wfVal]
      exact wfList_canon cx xs
    | .none => by simp [canon]
    | .bool _ => by simp [canon]
    | .int _ => by simp [canon]
    | .str _ => by simp [canon]
  theorem wfList_canon (cx : TokenAdj.Ctx) : ∀ (xs : List Val), wfList cx (canonList xs) = wfList cx xs
    | [] => by rw [canonList]
    | x :: rest => by
      rw [canonList]
      simp only [wfList, wfVal_canon cx x, wfList_canon cx rest]
  theorem wfAttrs_canon (cx : TokenAdj.Ctx) (k : String) : ∀ (as : List (String × Val)),
      wfAttrs cx k (canonAttrs as) = wfAttrs cx k as
    | [] => by rw [canonAttrs]
    | (a, v) :: rest => by
      rw [canonAttrs]
      simp only [wfAttrs, wfAttrs_canon cx k rest]
      by_cases ha : (a == "@tokmap") = true
      · simp [printed_tokmap ha]
      · simp only [ha, Bool.false_eq_true, if_false, slotOK_canon, wfVal_canon cx v]
end

mutual
  /-- **`valAll` is invariant under `canon`** -/
  theorem valAll_canon (p q : String → Bool) : ∀ (v : Val), valAll p q (canon v) = valAll p q v
    | .node k as => by
      rw [canon_node]
      simp only [valAll]
      rw [attrsAll_perm p q (fun x => mem_canonSorted)]
      rw [attrsAll_canon p q as]
    | .list xs => by
      rw [canon_list]
      simp only [valAll]
      exact listAll_canon p q xs
    | .none => by simp [canon]
    | .bool _ => by simp [canon]
    | .int _ => by simp [canon]
    | .str _ => by simp [canon]
  theorem listAll_canon (p q : String → Bool) : ∀ (xs : List Val), listAll p q (canonList xs) = listAll p q xs
    | [] => by rw [canonList]
    | x :: rest => by
      rw [canonList]
      simp only [listAll, valAll_canon p q x, listAll_canon p q rest]
  theorem attrsAll_canon (p q : String → Bool) : ∀ (as : List (String × Val)),
      attrsAll p q (canonAttrs as) = attrsAll p q as
    | [] => by rw [canonAttrs]
    | (a, v) :: rest => by
      rw [canonAttrs]
      simp only [attrsAll, attrsAll_canon p q rest]
      by_cases ha : (a == "@tokmap") = true
      · simp [printed_tokmap ha]
      · simp only [ha, Bool.false_eq_true, if_false, valAll_canon p q v]
end

end CalmVerif.Proofs.CanonInv
