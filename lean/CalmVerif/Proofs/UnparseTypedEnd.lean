/-
From the scan `lsRun` to the two stream hypotheses of `pretty_lines_indented` /
`pretty_text_ends_with_one_newline`:
  * `lsRun cs (fresh, o) = some _`            gives `lineStartsStable cs`;
  * `lsRun cs (_, false) = some (_, false)`   gives `tailSafe (normalize tbl (trailing cs []))`
    (every unconditional newline is followed by a chunk that prints; in the final buffer that chunk is
    one of `;` `{` `}`, whose entry of the normal form is visible).
-/
import CalmVerif.Proofs.UnparseLineCert
import CalmVerif.Proofs.UnparseLines
namespace CalmVerif.Unparse
open CalmVerif

theorem stableStep_of_ls (c : Chunk) (m : LMode) (o : Bool) (m' : LMode) (o' : Bool)
    (h : lsStep c (m, o) = some (m', o')) : stableStep c m = some m' := by
  cases c with
  | frag f =>
    simp only [lsStep, lsPrint] at h
    simp only [stableStep]
    split at h
    · cases h
    · rename_i hm
      simp only [Option.some.injEq, Prod.mk.injEq] at h
      simp [hm, h.1]
  | layout mk hh n =>
    simp only [lsStep, lsStepH] at h
    simp only [stableStep]
    by_cases hv : isVisibleH hh = true
    · simp only [hv, ↓reduceIte] at h ⊢
      split at h
      · cases h
      · rename_i hm
        simp only [Option.some.injEq, Prod.mk.injEq] at h
        simp [hm, h.1]
    · simp only [hv, Bool.false_eq_true, ↓reduceIte] at h ⊢
      by_cases hn : isNewlineH hh = true
      · simp only [hn, ↓reduceIte, Option.some.injEq, Prod.mk.injEq] at h ⊢
        exact h.1
      · simp only [hn, Bool.false_eq_true, ↓reduceIte] at h ⊢
        split at h
        · rename_i hc
          simp only [Option.some.injEq, Prod.mk.injEq] at h
          rw [if_pos hc, ← h.1]
        · rename_i hc
          simp only [Option.some.injEq, Prod.mk.injEq] at h
          rw [if_neg hc, h.1]

theorem stableRun_of_ls : ∀ (cs : List Chunk) (m : LMode) (o : Bool) (st' : LS),
    lsRun cs (m, o) = some st' → stableRun cs m = some st'.1 := by
  intro cs
  induction cs with
  | nil => intro m o st' h; simp only [lsRun, Option.some.injEq] at h; subst h; rfl
  | cons c cs ih =>
    intro m o st' h
    simp only [lsRun] at h
    cases hs : lsStep c (m, o) with
    | none => rw [hs] at h; cases h
    | some st1 =>
      obtain ⟨m1, o1⟩ := st1
      rw [hs] at h
      simp only [stableRun, stableStep_of_ls c m o m1 o1 hs]
      exact ih m1 o1 st' h

theorem lineStartsStable_of_ls (cs : List Chunk) (o : Bool) (st' : LS) (h : lsRun cs (.fresh, o) = some st') :
    lineStartsStable cs = true := by
  simp [lineStartsStable, stableRun_of_ls cs .fresh o st' h]

/-! ### every unconditional newline is followed by a printing chunk -/

def isHardChunk : Chunk → Bool
  | .layout _ h _ => h == .indNewline
  | .frag _ => false

def hardFollowed : List Chunk → Bool
  | [] => true
  | c :: cs => (!isHardChunk c || cs.any isPrinting) && hardFollowed cs

theorem hardFollowed_of_ls : ∀ (cs : List Chunk) (m : LMode) (o : Bool) (m' : LMode),
    lsRun cs (m, o) = some (m', false) →
    hardFollowed cs = true ∧ (o = true → cs.any isPrinting = true) := by
  intro cs
  induction cs with
  | nil =>
    intro m o m' h
    simp only [lsRun, Option.some.injEq, Prod.mk.injEq] at h
    exact ⟨rfl, fun ho => by rw [ho] at h; cases h.2⟩
  | cons c cs ih =>
    intro m o m' h
    simp only [lsRun] at h
    cases hs : lsStep c (m, o) with
    | none => rw [hs] at h; cases h
    | some st1 =>
      obtain ⟨m1, o1⟩ := st1
      rw [hs] at h
      obtain ⟨ih1, ih2⟩ := ih m1 o1 m' h
      cases c with
      | frag f => exact ⟨by simp [hardFollowed, isHardChunk, ih1], fun _ => by simp [isPrinting]⟩
      | layout mk hh n =>
        simp only [lsStep, lsStepH] at hs
        by_cases hv : isVisibleH hh = true
        · refine ⟨?_, fun _ => by simp [isPrinting, hv]⟩
          have : (hh == HandlerId.indNewline) = false := by cases hh <;> simp [isVisibleH] at hv ⊢
          simp [hardFollowed, isHardChunk, this, ih1]
        · simp only [hv, Bool.false_eq_true, ↓reduceIte] at hs
          by_cases hn : isNewlineH hh = true
          · simp only [hn, ↓reduceIte, Option.some.injEq, Prod.mk.injEq] at hs
            by_cases hhard : hh = .indNewline
            · subst hhard
              have ho1 : o1 = true := by rw [← hs.2]; simp [isHardNewline]
              exact ⟨by simp [hardFollowed, isHardChunk, ih1, ih2 ho1],
                fun _ => by simp [List.any_cons, ih2 ho1]⟩
            · have hnh : isHardNewline hh = false := by cases hh <;> simp [isNewlineH, isHardNewline] at hn hhard ⊢
              have ho1 : o1 = o := by rw [← hs.2]; simp [hnh]
              refine ⟨?_, fun ho => by simp [List.any_cons, ih2 (by rw [ho1]; exact ho)]⟩
              have : (hh == HandlerId.indNewline) = false := by simpa using hhard
              simp [hardFollowed, isHardChunk, this, ih1]
          · simp only [hn, Bool.false_eq_true, ↓reduceIte] at hs
            have hnot : (hh == HandlerId.indNewline) = false := by
              cases hh <;> simp [isNewlineH] at hn ⊢
            have ho1 : o1 = o := by
              split at hs <;> (simp only [Option.some.injEq, Prod.mk.injEq] at hs; exact hs.2.symm)
            refine ⟨by simp [hardFollowed, isHardChunk, hnot, ih1],
              fun ho => by simp [List.any_cons, ih2 (by rw [ho1]; exact ho)]⟩

theorem hardFollowed_suffix : ∀ (a b : List Chunk), hardFollowed (a ++ b) = true → hardFollowed b = true := by
  intro a
  induction a with
  | nil => intro b h; exact h
  | cons c cs ih =>
    intro b h
    simp only [List.cons_append, hardFollowed, Bool.and_eq_true] at h
    exact ih b h.2

/-- the same on a buffer of layout chunks -/
def tsafeL : List LChunk → Bool
  | [] => true
  | c :: cs => (!(c.handler == .indNewline) || cs.any (fun x => isVisibleH x.handler)) && tsafeL cs

theorem tsafeL_of_hardFollowed : ∀ (buf : List LChunk), hardFollowed (chunksOf buf) = true → tsafeL buf = true := by
  intro buf
  induction buf with
  | nil => intro _; rfl
  | cons c cs ih =>
    intro h
    simp only [chunksOf, List.map_cons, hardFollowed, Bool.and_eq_true] at h
    have hany : (List.map chunkOf cs).any isPrinting = cs.any (fun x => isVisibleH x.handler) := by
      simp [List.any_map, Function.comp_def, chunkOf, isPrinting]
    simp only [tsafeL, Bool.and_eq_true]
    refine ⟨?_, ih h.2⟩
    rw [← hany]
    simpa [isHardChunk, chunkOf] using h.1

theorem tsafeL_trailing : ∀ (cs : List Chunk) (buf : List LChunk),
    hardFollowed (chunksOf buf ++ cs) = true → tsafeL (trailing cs buf) = true := by
  intro cs
  induction cs with
  | nil => intro buf h; simpa [trailing] using tsafeL_of_hardFollowed buf (by simpa using h)
  | cons c cs ih =>
    intro buf h
    cases c with
    | layout m hh n =>
      simp only [trailing]
      apply ih
      simpa [chunksOf, chunkOf] using h
    | frag f =>
      simp only [trailing]
      apply ih
      have := hardFollowed_suffix (chunksOf buf ++ [Chunk.frag f]) cs (by simpa using h)
      simpa [chunksOf] using this

theorem tsafeL_suffix : ∀ (a b : List LChunk), tsafeL (a ++ b) = true → tsafeL b = true := by
  intro a
  induction a with
  | nil => intro b h; exact h
  | cons c cs ih =>
    intro b h
    simp only [List.cons_append, tsafeL, Bool.and_eq_true] at h
    exact ih b h.2

/-! ### from the buffer to its normal form -/

section
variable {tbl : List (LKey × Option HandlerId)} (ht : IndentTable tbl)
include ht

/-- the handler facts of one group -/
theorem grp_handlers {g : List LChunk} {e : LEntry} (hg : Grp tbl g e) (hok : ∀ c ∈ g, LChunkOK tbl c) :
    (isHardNewline e.handler = true → ∃ c, g = [c] ∧ c.handler = .indNewline) ∧
    (g.any (fun x => isVisibleH x.handler) = true → isVisibleH e.handler = true) := by
  rcases grp_classify ht.tuples hg with ⟨c, rfl, rfl⟩ | ⟨c1, c2, c3, rfl, m1, m2, m3, hh⟩ | ⟨c1, c2, rfl, m1, m2, hh⟩
  · refine ⟨fun hhard => ⟨c, rfl, ?_⟩, fun hv => by simpa [rawEntry] using hv⟩
    have hmem := ht.handlers c.m c.handler (hok c (by simp))
    simp only [rawEntry] at hhard
    simp only [indentHandlers, List.mem_cons, List.mem_nil_iff, or_false] at hmem
    rcases hmem with h | h | h | h | h | h | h | h | h <;> rw [h] at hhard ⊢ <;> simp [isHardNewline] at hhard ⊢
  · have h1 : c1.handler = .indIndent := by
      have := hok c1 (by simp); unfold LChunkOK at this; rw [m1, ht.indent] at this; exact (Option.some.inj this).symm
    have h2 : c2.handler = .indNewline := by
      have := hok c2 (by simp); unfold LChunkOK at this; rw [m2, ht.newline] at this; exact (Option.some.inj this).symm
    have h3 : c3.handler = .indDedent := by
      have := hok c3 (by simp); unfold LChunkOK at this; rw [m3, ht.dedent] at this; exact (Option.some.inj this).symm
    exact ⟨fun hhard => by rw [hh] at hhard; simp [isHardNewline] at hhard,
      fun hv => by simp [h1, h2, h3, isVisibleH] at hv⟩
  · exact ⟨fun hhard => by rw [hh] at hhard; simp [isHardNewline] at hhard, fun _ => by rw [hh]; rfl⟩

theorem hasVisible_of_chunks : ∀ (ps : List (List LChunk × LEntry)), (∀ p ∈ ps, Grp tbl p.1 p.2) →
    (∀ p ∈ ps, ∀ c ∈ p.1, LChunkOK tbl c) →
    (ps.flatMap (·.1)).any (fun x => isVisibleH x.handler) = true → hasVisible (ps.map (·.2)) = true := by
  intro ps
  induction ps with
  | nil => intro _ _ h; simp at h
  | cons p ps ih =>
    intro hps hok h
    simp only [List.flatMap_cons, List.any_append, Bool.or_eq_true] at h
    simp only [hasVisible, List.map_cons, List.any_cons, Bool.or_eq_true]
    rcases h with h | h
    · exact Or.inl ((grp_handlers ht (hps p (by simp)) (hok p (by simp))).2 h)
    · exact Or.inr (ih (fun q hq => hps q (by simp [hq])) (fun q hq => hok q (by simp [hq])) h)

theorem tailSafe_of_tsafeL : ∀ (ps : List (List LChunk × LEntry)), (∀ p ∈ ps, Grp tbl p.1 p.2) →
    (∀ p ∈ ps, ∀ c ∈ p.1, LChunkOK tbl c) → tsafeL (ps.flatMap (·.1)) = true → tailSafe (ps.map (·.2)) = true := by
  intro ps
  induction ps with
  | nil => intro _ _ _; rfl
  | cons p ps ih =>
    intro hps hok h
    obtain ⟨g, e⟩ := p
    simp only [List.flatMap_cons] at h
    simp only [List.map_cons, tailSafe, Bool.and_eq_true, Bool.or_eq_true, Bool.not_eq_true']
    refine ⟨?_, ih (fun q hq => hps q (by simp [hq])) (fun q hq => hok q (by simp [hq])) (tsafeL_suffix g _ h)⟩
    by_cases hhard : isHardNewline e.handler = true
    · right
      obtain ⟨c, rfl, hc⟩ := (grp_handlers ht (hps (g, e) (by simp)) (hok (g, e) (by simp))).1 hhard
      simp only [List.singleton_append, tsafeL, hc, beq_self_eq_true, Bool.not_true, Bool.false_or,
        Bool.and_eq_true] at h
      exact hasVisible_of_chunks ht ps (fun q hq => hps q (by simp [hq])) (fun q hq => hok q (by simp [hq])) h.1
    · left; simpa using hhard

/-- `tailSafe` of the final buffer from the scan -/
theorem tailSafe_of_ls (cs : List Chunk) (hcs : ∀ c ∈ cs, ChunkOK tbl c) (m m' : LMode)
    (h : lsRun cs (m, false) = some (m', false)) : tailSafe (normalize tbl (trailing cs [])) = true := by
  have hf := (hardFollowed_of_ls cs m false m' h).1
  have hts := tsafeL_trailing cs [] (by simpa [chunksOf] using hf)
  obtain ⟨ps, h1, h2, h3⟩ := normalize_groups tbl (trailing cs [])
  have hbuf : ∀ c ∈ trailing cs [], LChunkOK tbl c := by
    have hgen : ∀ (cs : List Chunk) (buf : List LChunk), (∀ c ∈ cs, ChunkOK tbl c) → (∀ c ∈ buf, LChunkOK tbl c) →
        ∀ c ∈ trailing cs buf, LChunkOK tbl c := by
      intro cs
      induction cs with
      | nil => intro buf _ hb; simpa [trailing] using hb
      | cons c cs ih =>
        intro buf hc hb
        cases c with
        | layout mk hh n =>
          simp only [trailing]
          apply ih _ (fun x hx => hc x (by simp [hx]))
          intro x hx
          simp only [List.mem_append, List.mem_singleton] at hx
          rcases hx with hx | rfl
          · exact hb x hx
          · exact hc (.layout mk hh n) (by simp)
        | frag f =>
          simp only [trailing]
          exact ih _ (fun x hx => hc x (by simp [hx])) (by simp)
    exact hgen cs [] hcs (by simp)
  rw [h1]
  apply tailSafe_of_tsafeL ht ps h3
  · intro p hp c hc
    apply hbuf
    rw [← h2]
    exact List.mem_flatMap.mpr ⟨p, hp, hc⟩
  · rw [h2]; exact hts

end

end CalmVerif.Unparse
