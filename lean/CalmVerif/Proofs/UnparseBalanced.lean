/-
The static bracket discipline of the unparser definitions (checker for `defs_indent_balanced`).

A definition is read as a sequence of structural symbols, on every path through its `Optional`
bodies (a body is either interpreted or skipped):

  opener      `OpenBlock`, a literal `Text('{')`, and — in the definitions of `Case` / `Default` —
              the literal `Text(':')` (its group is closed by the end of the definition)
  closer      `CloseBlock`, a literal `Text('}')`
  indent / dedent / nl (Newline, OptionalNewline) / other (tokens, children, spaces, …)

`balancedPath` accepts exactly the paths of the grammar
  S      ::= ( other | nl | group )*
  group  ::= opener closer  |  opener indent S dedent nl* closer
  top    ::= S  |  S caseOpener indent S dedent           (Case / Default)
i.e. `Indent` immediately follows each opener, `Dedent` precedes its closer with nothing but
newline markers in between, groups nest in bracket order.  Separator definitions of JoinAttr /
ElisionJoinAttr must not contain any opener / closer / indent / dedent.
-/
import CalmVerif.Model.UnparseAux
namespace CalmVerif.Unparse
open CalmVerif

inductive Sym where
  | opener | caseOpener | closer | indent | dedent | nl | other
  deriving DecidableEq, Repr

/-- the structural symbol of a non-nesting rule in the definition of `kind` -/
def symOf (kind : String) : Rule → Sym
  | .layout .OpenBlock => .opener
  | .layout .CloseBlock => .closer
  | .layout .Indent => .indent
  | .layout .Dedent => .dedent
  | .layout .Newline => .nl
  | .layout .OptionalNewline => .nl
  | .text v _ =>
    if v == "{" then .opener
    else if v == "}" then .closer
    else if v == ":" && caseKinds.contains kind then .caseOpener
    else .other
  | _ => .other

mutual
  /-- all symbol paths through a rule list (Optional bodies taken or skipped) -/
  def pathsRules (kind : String) : List Rule → List (List Sym)
    | [] => [[]]
    | r :: rs =>
      let tails := pathsRules kind rs
      (pathsRule kind r).flatMap (fun p => tails.map (fun t => p ++ t))
  def pathsRule (kind : String) : Rule → List (List Sym)
    | .optional _ body => [] :: pathsRules kind body
    | r => [[symOf kind r]]
end

/-- state of a group: just opened / inside (after Indent) / after Dedent -/
inductive GState where
  | afterOpener | inBody | afterDedent
  deriving DecidableEq, Repr

/-- stack parser; `isCase` marks the (outermost, last) group opened by a caseOpener -/
def balancedAux : List Sym → List (GState × Bool) → Bool
  | [], [] => true
  | [], [(GState.afterDedent, true)] => true          -- Case / Default: closed by the end of the definition
  | [], _ => false
  | s :: rest, stack =>
    match s, stack with
    | .nl, _ => balancedAux rest stack
    | .other, [] => balancedAux rest []
    | .other, (GState.inBody, c) :: st => balancedAux rest ((GState.inBody, c) :: st)
    | .other, _ => false
    | .opener, [] => balancedAux rest [(GState.afterOpener, false)]
    | .opener, (GState.inBody, c) :: st => balancedAux rest ((GState.afterOpener, false) :: (GState.inBody, c) :: st)
    | .opener, _ => false
    | .caseOpener, [] => balancedAux rest [(GState.afterOpener, true)]
    | .caseOpener, _ => false
    | .indent, (GState.afterOpener, c) :: st => balancedAux rest ((GState.inBody, c) :: st)
    | .indent, _ => false
    | .dedent, (GState.inBody, c) :: st => balancedAux rest ((GState.afterDedent, c) :: st)
    | .dedent, _ => false
    | .closer, (GState.afterOpener, false) :: st => balancedAux rest st
    | .closer, (GState.afterDedent, false) :: st => balancedAux rest st
    | .closer, _ => false

def balancedPath (p : List Sym) : Bool := balancedAux p []

mutual
  /-- separators are free of structural symbols, recursively -/
  def sepsPlainRule (kind : String) : Rule → Bool
    | .joinAttr _ sep _ => sepPlain kind sep
    | .elisionJoinAttr _ sep _ => sepPlain kind sep
    | .optional _ body => sepsPlainRules kind body
    | _ => true
  def sepsPlainRules (kind : String) : List Rule → Bool
    | [] => true
    | r :: rs => sepsPlainRule kind r && sepsPlainRules kind rs
  /-- a separator definition: only `other` / `nl` symbols, no Optional -/
  def sepPlain (kind : String) : List Rule → Bool
    | [] => true
    | r :: rs =>
      (match r with
       | .optional _ _ => false
       | .joinAttr _ _ _ => false
       | .elisionJoinAttr _ _ _ => false
       | r => symOf kind r == .other || symOf kind r == .nl) && sepPlain kind rs
end

def defBalanced (kind : String) (d : List Rule) : Bool :=
  (pathsRules kind d).all balancedPath && sepsPlainRules kind d

def defsIndentBalanced : Defs → Bool
  | [] => true
  | (k, d) :: rest => defBalanced k d && defsIndentBalanced rest

/-! ### tuple normalisations -/

def keyCount (k : Marker) : LKey → Nat
  | [] => 0
  | .m k' :: ts => (if k' == k then 1 else 0) + keyCount k ts
  | _ :: ts => keyCount k ts

def isTupleKey : LKey → Bool
  | .lp :: _ => true
  | _ => false

/-- every tuple key that mentions Indent or Dedent has as many of the one as of the other and resolves
to the no-op handler (or to NotImplemented, i.e. is not a normalisation at all) -/
def tupleNormsBalanced (tbl : List (LKey × Option HandlerId)) : Bool :=
  tbl.all (fun p =>
    !isTupleKey p.1 || (keyCount .Indent p.1 == 0 && keyCount .Dedent p.1 == 0) ||
      (keyCount .Indent p.1 == keyCount .Dedent p.1 && (p.2 == some .noop || p.2 == none)))

end CalmVerif.Unparse
