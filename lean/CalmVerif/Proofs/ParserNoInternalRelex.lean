/-
Helper lemmas for C12 (composed model): re-lexing at the `/` of a DIV token always yields a token (or raises a
syntax error) — this is what makes the `regex_token.type` access in `Parser.p_error` safe.
-/
import CalmVerif.Proofs.ParserNoInternalLex
import CalmVerif.Proofs.ParserDrive

namespace CalmVerif.Proofs.ParserNoInternal
open CalmVerif.Model.TokenRegex CalmVerif.Model.PlyLex CalmVerif.Model.Lexer CalmVerif.Model
open CalmVerif.Proofs.LexerPly CalmVerif.Proofs.LexerStep CalmVerif.Proofs.LexerLoop CalmVerif.Proofs.LexerTables
open CalmVerif.Proofs.LexerDrive CalmVerif.Proofs.ParserDrive
open CalmVerif.Gen

/-- the ordered alternation is deterministic: what `FirstMatch` describes is what `firstMatch` computes -/
theorem firstMatch_of_FirstMatch (rules : List String) (rest : List Char) (r : String) (n : Nat)
    (h : FirstMatch rules rest r n) : firstMatch rules rest = .matched r n := by
  obtain ⟨pre, post, m, hr, hm, hn, hpre⟩ := h
  subst hr
  induction pre with
  | nil => simp [firstMatch, hm, hn]
  | cons x xs ih =>
    obtain ⟨m', hm', hnone⟩ := hpre x (by simp)
    simp only [List.cons_append, firstMatch, hm', hnone]
    exact ih (fun r' hr' => hpre r' (by simp [hr']))

/-- D: `/` is not an ignored character in either lexer state -/
theorem slash_not_ignored (s : LexerState) : isIgnored s '/' = false := by cases s <;> decide

/-- a position holding the `/` of a DIV token -/
structure AtDiv (text : List Char) (p : Nat) : Prop where
  rest : ∃ cs, text.drop p = '/' :: cs
  first : FirstMatch (rulesOf .initial) (text.drop p) "DIV" 1

theorem atDiv_of_token {text : List Char} {c : Token} (hri : RuleInfo text c) (hty : c.type = "DIV") :
    AtDiv text c.lexpos ∧ c.value.length = 1 := by
  have hv := (punct_munch hri "DIV" "/" backtrack_cur_is_div.2 hty).1
  have hlen : c.value.length = 1 := by rw [hv]; rfl
  have hfm := rule_is_punct hri "DIV" "/" backtrack_cur_is_div.2 hty
  rw [hlen] at hfm
  refine ⟨⟨?_, hfm⟩, hlen⟩
  have htk := hri.1
  rw [hlen, hv] at htk
  cases hd : text.drop c.lexpos with
  | nil => rw [hd] at htk; simp at htk
  | cons x xs =>
    rw [hd] at htk
    simp at htk
    exact ⟨xs, by rw [htk]⟩

theorem plyToken_initial_atDiv {text : List Char} {p : Nat} (h : AtDiv text p) (ap : Bool) :
    plyToken .initial text p ap = .tok "DIV" p 1 := by
  obtain ⟨cs, hd⟩ := h.rest
  unfold plyToken
  simp only [hd, spanLen, slash_not_ignored]
  simp only [Bool.false_eq_true, if_false, List.drop_zero, Nat.add_zero]
  rw [← hd, firstMatch_of_FirstMatch _ _ _ _ h.first]
  simp [ruleFn, ruleType]

theorem plyToken_regex_atDiv {text : List Char} {p : Nat} (h : AtDiv text p) (q : Nat) {ap : Bool} :
    plyToken .regex text p ap ≠ .eof q := by
  obtain ⟨cs, hd⟩ := h.rest
  unfold plyToken
  simp only [hd, spanLen, slash_not_ignored]
  simp only [Bool.false_eq_true, if_false, List.drop_zero]
  split <;> simp

theorem getLexerToken_initial_atDiv {st : LexState} (h : AtDiv st.text st.lexpos) {r : Option Token}
    {st1 : LexState} (hg : getLexerToken .initial st = .ok (r, st1)) : ∃ raw, r = some raw ∧ raw.type = "DIV" := by
  unfold getLexerToken at hg
  rw [plyToken_initial_atDiv h] at hg
  simp only at hg
  split at hg
  · simp at hg
  · simp only [Except.ok.injEq, Prod.mk.injEq] at hg
    exact ⟨_, hg.1.symm, rfl⟩

theorem getLexerToken_regex_atDiv {st : LexState} (h : AtDiv st.text st.lexpos) {r : Option Token}
    {st1 : LexState} (hg : getLexerToken .regex st = .ok (r, st1)) : r ≠ none := by
  unfold getLexerToken at hg
  split at hg
  · rename_i q hq; exact absurd hq (plyToken_regex_atDiv h q)
  · simp at hg
  · simp at hg
  · split at hg
    · simp at hg
    · simp only [Except.ok.injEq, Prod.mk.injEq] at hg
      rw [← hg.1]; simp

theorem getUpdateToken_atDiv {st : LexState} (h : AtDiv st.text st.lexpos) {r : Option Token} {st' : LexState}
    (hg : getUpdateToken st = .ok (r, st')) : ∃ t, r = some t ∧ t.type = "DIV" := by
  unfold getUpdateToken at hg
  split at hg
  · simp at hg
  · rename_i tok st1 hl
    obtain ⟨raw, rfl, hty⟩ := getLexerToken_initial_atDiv h hl
    split at hg
    · simp at hg
    · rename_i st2 hs
      obtain ⟨_, _, hc2⟩ := setTokens_spec _ _ _ hs
      split at hg
      · rename_i hcur; rw [hc2] at hcur; simp at hcur
      · rename_i cur hcur
        rw [hc2] at hcur
        simp at hcur
        subst hcur
        split at hg
        · simp at hg
        · split at hg
          · rename_i hres
            simp [isRestrictedLt, hty] at hres
          · simp only [Except.ok.injEq, Prod.mk.injEq] at hg
            exact ⟨_, hg.1.symm, hty⟩

theorem div_not_marker : isMarker "DIV" = false ∧ ("DIV" : String) ≠ "LINE_TERMINATOR" := by decide

/-- `_token()` started on the `/` of a DIV token returns a token (never `None`) -/
theorem tokenLoop_atDiv {st : LexState} (h : AtDiv st.text st.lexpos) (fuel : Nat) {r : Option Token}
    {st' : LexState} (hg : tokenLoop (fuel + 1) st = .ok (r, st')) : r ≠ none := by
  unfold tokenLoop at hg
  split at hg
  · split at hg
    · simp at hg
    · rename_i st1 hu
      obtain ⟨t, ht, _⟩ := getUpdateToken_atDiv h hu
      simp at ht
    · rename_i t st1 hu
      obtain ⟨t', ht, hty⟩ := getUpdateToken_atDiv h hu
      simp at ht; subst ht
      split at hg
      · rename_i hlt; rw [hty] at hlt; exact absurd hlt div_not_marker.2
      · simp at hg; rw [← hg.1]; simp
  · split at hg
    · split at hg
      · simp at hg
      · rename_i st1 hu
        obtain ⟨t, ht, _⟩ := getUpdateToken_atDiv h hu
        simp at ht
      · rename_i t st1 hu
        obtain ⟨t', ht, hty⟩ := getUpdateToken_atDiv h hu
        simp at ht; subst ht
        split at hg
        · rename_i hmk; rw [hty, div_not_marker.1] at hmk; simp at hmk
        · simp at hg; rw [← hg.1]; simp
    · unfold divOrRegex at hg
      split at hg
      · simp at hg
      · obtain ⟨t, ht, _⟩ := getUpdateToken_atDiv h hg
        rw [ht]; simp
      · unfold readRegex at hg
        split at hg
        · simp at hg
        · rename_i tok st1 hl
          have hne := getLexerToken_regex_atDiv h hl
          split at hg
          · simp at hg
          · rename_i st2 hs
            obtain ⟨_, _, hc2⟩ := setTokens_spec _ _ _ hs
            simp only [Except.ok.injEq, Prod.mk.injEq] at hg
            rw [← hg.1, hc2]; exact hne

theorem token_atDiv {st : LexState} (h : AtDiv st.text st.lexpos) (hn : st.nextTokens = []) {r : Option Token}
    {st' : LexState} (hg : token st = .ok (r, st')) : r ≠ none := by
  unfold token at hg
  split at hg
  · simp at hg
  · rename_i st1 ht
    exfalso
    unfold token' at ht
    rw [hn] at ht
    have : tokenFuel st = (st.text.length + 1) + 1 := rfl
    rw [this] at ht
    exact tokenLoop_atDiv h _ ht rfl
  · split at hg <;> (simp at hg; rw [← hg.1]; simp)

end CalmVerif.Proofs.ParserNoInternal
