/-
Part 3 of the renaming simulation: the environment a node sets up (`enter`) under `renameBy`.
-/
import CalmVerif.Proofs.ObfBindSim2
namespace CalmVerif.Obf
open CalmVerif CalmVerif.Unparse
open CalmVerif.Spec.Scope (BKind Binder Layer Ctx Occ Role identName isFunctionKind isVarDeclKind
  lookupEnv lookupLabel roleOf enter isPresent hoistVal hoistList hoistAttrs paramNames declOccs
  resolveVal resolveList resolveAttrs)

local notation "sLookup" => Spec.Scope.lookupAttr

/-- the spelling of the Identifier at attribute `identifier` -/
def identAttr (as : List (String × Val)) : Option String := (sLookup as "identifier").bind identName

def hoistElems (as : List (String × Val)) : List String :=
  match sLookup as "elements" with
  | some v => hoistVal v
  | none => []

theorem enter_unfold (ctx : Ctx) (p : SPath) (kind : String) (as : List (String × Val)) :
    enter ctx p kind as =
      if isFunctionKind kind then
        { env := { kind := .var, scope := p,
                   names := paramNames (if kind == "SetPropAssign" then sLookup as "parameter"
                     else sLookup as "parameters") ++ hoistElems as }
                 :: ((if kind == "FuncExpr" then
                        (identAttr as).toList.map (fun n => ({ kind := .self, scope := p, names := [n] } : Layer))
                      else []) ++ ctx.env),
          varKind := .var, varScope := p, labels := [], forInItem := false }
      else if kind == "Catch" then
        match identAttr as with
        | some n => { ctx with env := { kind := .catch, scope := p, names := [n] } :: ctx.env }
        | none => ctx
      else if kind == "Label" then
        match identAttr as with
        | some n => { ctx with labels := (n, p) :: ctx.labels }
        | none => ctx
      else ctx := by
  unfold enter identAttr hoistElems
  cases he : sLookup as "elements" <;>
  cases hi : sLookup as "identifier" with
  | none => simp
  | some v =>
    cases hn : identName v with
    | none => simp [hn]
    | some n => simp [hn]

theorem identAttr_rename (τ : Tau) (ρ : Rho) (k : BKind) (s : SPath) (path : Path) (as : List (String × Val))
    (h : identSiteCond τ ρ k s path as = true) :
    identAttr (renameAttrsBy ρ path as) = (identAttr as).map (tauN τ k s) := by
  have := identSite_rename τ ρ k s path as h
  unfold identAttr
  cases h1 : sLookup (renameAttrsBy ρ path as) "identifier" with
  | none =>
    rw [lookup_renameAttrsBy] at h1
    cases h2 : sLookup as "identifier" with
    | none => rfl
    | some v => rw [h2] at h1; cases h1
  | some v' =>
    cases h2 : sLookup as "identifier" with
    | none => rw [lookup_renameAttrsBy, h2] at h1; cases h1
    | some v =>
      simp only [h1, h2, Option.bind_some] at this ⊢
      cases hn' : identName v' with
      | none =>
        cases hn : identName v with
        | none => rfl
        | some n => simp [hn', hn] at this
      | some n' =>
        cases hn : identName v with
        | none => simp [hn', hn] at this
        | some n => simp [hn', hn] at this; simp [this]

theorem hoistElems_rename (τ : Tau) (ρ : Rho) (p : SPath) (as : List (String × Val))
    (h : hoistCondAttr τ ρ .var p p.reverse "elements" (sLookup as "elements") = true) :
    hoistElems (renameAttrsBy ρ p.reverse as) = (hoistElems as).map (tauN τ .var p) := by
  unfold hoistElems
  rw [lookup_renameAttrsBy]
  have hm : Val.isMeta "elements" = false := by decide
  cases hv : sLookup as "elements" with
  | none => rfl
  | some v =>
    rw [hv] at h
    simp only [Option.map_some]
    rcases val_list_or v with ⟨xs, rfl⟩ | hnl
    · rw [renAttrVal_list _ _ _ _ hm]
      simp only [hoistVal]
      exact hoistList_rename τ ρ .var p p.reverse "elements" 0 xs (by simpa [hoistCondAttr] using h)
    · rw [renAttrVal_nonlist _ _ _ _ hm hnl]
      refine hoist_rename τ ρ .var p (("elements", 0) :: p.reverse) v ?_
      cases v with
      | list xs => exact absurd rfl (fun h => hnl xs h)
      | none => simpa [hoistCondAttr] using h
      | bool b => simpa [hoistCondAttr] using h
      | int n => simpa [hoistCondAttr] using h
      | str t => simpa [hoistCondAttr] using h
      | node k as => simpa [hoistCondAttr] using h

theorem mapLabels_nil (τ : Tau) : mapLabels τ [] = [] := rfl

/-- the environment the renamed node sets up is the image of the one the original sets up -/
theorem enter_rename (τ : Tau) (ρ : Rho) (ctx : Ctx) (p : SPath) (k : String) (as : List (String × Val))
    (h : enterCond τ ρ p k as = true) :
    enter (mapCtx τ ctx) p k (renameAttrsBy ρ p.reverse as) = mapCtx τ (enter ctx p k as) := by
  rw [enter_unfold, enter_unfold]
  unfold enterCond at h
  by_cases hf : isFunctionKind k = true
  · simp only [hf, if_true, Bool.and_eq_true] at h ⊢
    obtain ⟨⟨h1, h2⟩, h3⟩ := h
    have hparams : paramNames (if k == "SetPropAssign" then sLookup (renameAttrsBy ρ p.reverse as) "parameter"
          else sLookup (renameAttrsBy ρ p.reverse as) "parameters")
        = (paramNames (if k == "SetPropAssign" then sLookup as "parameter" else sLookup as "parameters")).map
            (tauN τ .var p) := by
      by_cases hs : (k == "SetPropAssign") = true
      · simp only [hs, if_true] at h2 ⊢
        rw [lookup_renameAttrsBy]
        refine paramNames_rename τ ρ p "parameter" (by decide) _ ?_
        intro v hv
        simpa [hv] using h2
      · simp only [hs, Bool.false_eq_true, if_false] at h2 ⊢
        rw [lookup_renameAttrsBy]
        refine paramNames_rename τ ρ p "parameters" (by decide) _ ?_
        intro v hv
        simpa [hv] using h2
    have hself : (if k == "FuncExpr" then
          (identAttr (renameAttrsBy ρ p.reverse as)).toList.map (fun n => ({ kind := .self, scope := p, names := [n] } : Layer))
        else [])
        = mapEnv τ (if k == "FuncExpr" then
          (identAttr as).toList.map (fun n => ({ kind := .self, scope := p, names := [n] } : Layer)) else []) := by
      by_cases hfe : (k == "FuncExpr") = true
      · simp only [hfe, if_true] at h3 ⊢
        rw [identAttr_rename τ ρ .self p p.reverse as h3]
        cases identAttr as with
        | none => rfl
        | some n => simp [mapEnv, mapLayer, tauN]
      · simp [hfe, mapEnv]
    rw [hparams, hoistElems_rename τ ρ p as h1, hself]
    simp [mapCtx, mapEnv, mapLayer, mapLabels, tauN, List.map_append]
  · simp only [hf, Bool.false_eq_true, if_false] at h ⊢
    by_cases hc : (k == "Catch") = true
    · simp only [hc, if_true] at h ⊢
      rw [identAttr_rename τ ρ .catch p p.reverse as h]
      cases identAttr as with
      | none => rfl
      | some n => simp [mapCtx, mapEnv, mapLayer, tauN]
    · simp only [hc, Bool.false_eq_true, if_false] at h ⊢
      by_cases hl : (k == "Label") = true
      · simp only [hl, if_true] at h ⊢
        rw [identAttr_rename τ ρ .label p p.reverse as h]
        cases identAttr as with
        | none => rfl
        | some n => simp [mapCtx, mapLabels, tauN]
      · simp [hl]

end CalmVerif.Obf
