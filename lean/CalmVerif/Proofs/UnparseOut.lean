/-
`Out`: the shapes a chunk stream produced by the walk can have, as an inductive relation between a
"task" (a definition, one rule, a node, a value, the action list of a JoinAttr) and the chunks it
yields — the tree, the hook state, positions and errors abstracted away.

`walk_out` (soundness): whatever `walkNode` / `walkRule` return satisfies `Out`.
Every later property of chunk streams is an induction over `Out`.
-/
import CalmVerif.Proofs.UnparseNet
namespace CalmVerif.Unparse
open CalmVerif

variable {σ : Type}

inductive Shape where
  | token (t : String)             -- the token handler called with text t
  | value                          -- `_walk(v, token=…)`: a node or a token
  | node                           -- a node walked with its looked-up definition
  | rules (rs : List Rule)         -- a definition / nested body run on the current node
  | rule (r : Rule)
  | acts (sep : List Rule) (as : List JAct)

inductive Out (tbl : List (LKey × Option HandlerId)) (defs : Defs) (ek : List String) :
    Shape → List Chunk → Prop where
  | tokNone (t : String) : Out tbl defs ek (.token t) []
  | tokOne (t : String) (f : Frag) : f.text = t → Out tbl defs ek (.token t) [.frag f]
  | valueTok (t : String) (cs) : Out tbl defs ek (.token t) cs → Out tbl defs ek .value cs
  | valueNode (cs) : Out tbl defs ek .node cs → Out tbl defs ek .value cs
  | node (kind : String) (d : List Rule) (cs) :
      lookupDef defs kind = some d → Out tbl defs ek (.rules d) cs → Out tbl defs ek .node cs
  | rulesNil : Out tbl defs ek (.rules []) []
  | rulesCons (r rs c1 c2) : Out tbl defs ek (.rule r) c1 → Out tbl defs ek (.rules rs) c2 →
      Out tbl defs ek (.rules (r :: rs)) (c1 ++ c2)
  | layoutSome (m h) (nd : Val) : lookupLayout tbl (LKey.single m) = some h →
      Out tbl defs ek (.rule (.layout m)) [.layout m h nd]
  | layoutNone (m) : lookupLayout tbl (LKey.single m) = none → Out tbl defs ek (.rule (.layout m)) []
  | struct (m) : Out tbl defs ek (.rule (.struct m)) []
  | text (v pos cs) : Out tbl defs ek (.token v) cs → Out tbl defs ek (.rule (.text v pos)) cs
  | attrEmpty (a pos) : Out tbl defs ek (.rule (.attr a pos)) []
  | attrValue (a pos cs) : Out tbl defs ek .value cs → Out tbl defs ek (.rule (.attr a pos)) cs
  | commentsAttrEmpty (a pos) : Out tbl defs ek (.rule (.commentsAttr a pos)) []
  | commentsAttrValue (a pos cs) : Out tbl defs ek .value cs → Out tbl defs ek (.rule (.commentsAttr a pos)) cs
  | operatorEmpty (a v pos) : Out tbl defs ek (.rule (.operator a v pos)) []
  | operatorValue (a v pos cs) : Out tbl defs ek .value cs → Out tbl defs ek (.rule (.operator a v pos)) cs
  | optionalSkip (a body) : Out tbl defs ek (.rule (.optional a body)) []
  | optionalTake (a body cs) : Out tbl defs ek (.rules body) cs → Out tbl defs ek (.rule (.optional a body)) cs
  | joinAttr (a sep pos) (items : List (Step × Val)) (cs) :
      Out tbl defs ek (.acts sep (joinActs items)) cs → Out tbl defs ek (.rule (.joinAttr a sep pos)) cs
  | elisionToken (a v pos) (t : String) (cs) :
      Out tbl defs ek (.token t) cs → Out tbl defs ek (.rule (.elisionToken a v pos)) cs
  | elisionJoinAttr (a sep pos) (items : List (Step × Val)) (cs) :
      Out tbl defs ek (.acts sep (elisionActs ek items)) cs →
      Out tbl defs ek (.rule (.elisionJoinAttr a sep pos)) cs
  | actsNil (sep) : Out tbl defs ek (.acts sep []) []
  | actsItem (sep st v as c1 c2) : Out tbl defs ek .value c1 → Out tbl defs ek (.acts sep as) c2 →
      Out tbl defs ek (.acts sep (.item st v :: as)) (c1 ++ c2)
  | actsSep (sep as c1 c2) : Out tbl defs ek (.rules sep) c1 → Out tbl defs ek (.acts sep as) c2 →
      Out tbl defs ek (.acts sep (.sep :: as)) (c1 ++ c2)
  | actsEsep (sep as c1 c2) : Out tbl defs ek .node c1 → Out tbl defs ek (.acts sep as) c2 →
      Out tbl defs ek (.acts sep (.esep :: as)) (c1 ++ c2)

/-! ### the token handlers yield nothing or one fragment carrying the text -/

theorem tokenHandler_out (hd : HData) (th : Option TokenHandlerId) (pos : Option Int) (node : Val)
    (t : String) (src : Src) (fs : List Frag) (h : tokenHandler hd th pos node t src = .ok fs) :
    fs = [] ∨ ∃ f, fs = [f] ∧ f.text = t := by
  cases th with
  | none => simp [tokenHandler] at h; exact Or.inl h
  | some th =>
    cases th with
    | strDefault =>
      simp only [tokenHandler, tokenStrDefault] at h
      split at h
      · split at h
        · simp only [Except.ok.injEq] at h; exact Or.inr ⟨_, h.symm, rfl⟩
        · cases h
      · simp only [Except.ok.injEq] at h; exact Or.inr ⟨_, h.symm, rfl⟩
    | unobfuscate =>
      simp only [tokenHandler, tokenUnobfuscate] at h
      split at h
      · cases h
      · split at h
        · split at h
          · simp only [Except.ok.injEq] at h; exact Or.inr ⟨_, h.symm, rfl⟩
          · cases h
        · simp only [Except.ok.injEq] at h; exact Or.inr ⟨_, h.symm, rfl⟩

theorem except_map_ok {ε α β : Type} {f : α → β} {x : Except ε α} {b : β} (h : x.map f = .ok b) :
    ∃ a, x = .ok a ∧ f a = b := by
  cases x with
  | error e => simp [Except.map] at h
  | ok a => simp [Except.map] at h; exact ⟨a, rfl, h⟩

section
variable (cfg : Cfg σ)

theorem emitToken_out (pos : Option Int) (cur : Val) (src : Src) (v : Val) (cs : List Chunk)
    (h : emitToken cfg pos cur src v = .ok cs) :
    ∃ t, Out cfg.layout cfg.defs cfg.hd.elisionKinds (.token t) cs := by
  cases v with
  | str t =>
    simp only [emitToken] at h
    obtain ⟨fs, h1, h2⟩ := except_map_ok h
    rcases tokenHandler_out _ _ _ _ _ _ _ h1 with rfl | ⟨f, rfl, hf⟩
    · subst h2; exact ⟨t, .tokNone t⟩
    · subst h2; exact ⟨t, .tokOne t f hf⟩
  | _ => simp [emitToken] at h

theorem emitToken_str_out (pos : Option Int) (cur : Val) (src : Src) (t : String) (cs : List Chunk)
    (h : emitToken cfg pos cur src (.str t) = .ok cs) :
    Out cfg.layout cfg.defs cfg.hd.elisionKinds (.token t) cs := by
  simp only [emitToken] at h
  obtain ⟨fs, h1, h2⟩ := except_map_ok h
  rcases tokenHandler_out _ _ _ _ _ _ _ h1 with rfl | ⟨f, rfl, hf⟩
  · subst h2; exact .tokNone t
  · subst h2; exact .tokOne t f hf

def OutFor (defn : Option (List Rule)) (cs : List Chunk) : Prop :=
  match defn with
  | none => Out cfg.layout cfg.defs cfg.hd.elisionKinds .node cs
  | some d => Out cfg.layout cfg.defs cfg.hd.elisionKinds (.rules d) cs

/-- what the recursive callback must satisfy -/
def WalkFnOut (wn : WalkFn σ) : Prop :=
  ∀ path src node defn s cs s', wn path src node defn s = .ok (cs, s') → OutFor cfg defn cs

theorem walkValue_out (wn : WalkFn σ) (hwn : WalkFnOut cfg wn) (path : Path) (src : Src) (cur : Val)
    (pos : Option Int) (st : Step) (v : Val) (s : σ) (cs : List Chunk) (s' : σ)
    (h : walkValue cfg wn path src cur pos st v s = .ok (cs, s')) :
    Out cfg.layout cfg.defs cfg.hd.elisionKinds .value cs := by
  unfold walkValue at h
  split at h
  · exact .valueNode _ (hwn _ _ _ none _ _ _ h)
  · obtain ⟨cs', h1, h2⟩ := except_map_ok h
    simp only [Prod.mk.injEq] at h2
    obtain ⟨rfl, rfl⟩ := h2
    obtain ⟨t, ht⟩ := emitToken_out cfg _ _ _ _ _ h1
    exact .valueTok t _ ht

theorem runActs_out (wn : WalkFn σ) (hwn : WalkFnOut cfg wn) (path : Path) (src : Src) (cur : Val)
    (pos : Option Int) (sep : List Rule) :
    ∀ (as : List JAct) (s : σ) (cs : List Chunk) (s' : σ),
      seqM (runAct cfg wn path src cur pos sep) as s = .ok (cs, s') →
      Out cfg.layout cfg.defs cfg.hd.elisionKinds (.acts sep as) cs := by
  intro as
  induction as with
  | nil =>
    intro s cs s' h
    rw [seqM_nil_ok] at h
    rw [h.1]; exact .actsNil sep
  | cons a as ih =>
    intro s cs s' h
    rw [seqM_cons_ok] at h
    obtain ⟨c1, s1, c2, h1, h2, rfl⟩ := h
    have ih' := ih s1 c2 s' h2
    cases a with
    | item st v => exact .actsItem sep st v as c1 c2 (walkValue_out cfg wn hwn _ _ _ _ _ _ _ _ _ h1) ih'
    | sep => exact .actsSep sep as c1 c2 (hwn _ _ _ (some sep) _ _ _ h1) ih'
    | esep => exact .actsEsep sep as c1 c2 (hwn _ _ _ none _ _ _ h1) ih'

theorem ruleStep_out (wn : WalkFn σ) (hwn : WalkFnOut cfg wn) (path : Path) (src : Src) (node : Val)
    (rule : Rule) (s : σ) (cs : List Chunk) (s' : σ)
    (h : ruleStep cfg wn path src node rule s = .ok (cs, s')) :
    Out cfg.layout cfg.defs cfg.hd.elisionKinds (.rule rule) cs := by
  cases rule with
  | layout m =>
    simp only [ruleStep] at h
    split at h
    · rename_i hh hl
      simp only [Except.ok.injEq, Prod.mk.injEq] at h
      rw [← h.1]; exact .layoutSome m hh node hl
    · rename_i hl
      simp only [Except.ok.injEq, Prod.mk.injEq] at h
      rw [← h.1]; exact .layoutNone m hl
  | struct m =>
    simp only [ruleStep] at h
    split at h
    · obtain ⟨x, _, h2⟩ := except_map_ok h
      simp only [Prod.mk.injEq] at h2
      rw [← h2.1]; exact .struct m
    · simp only [Except.ok.injEq, Prod.mk.injEq] at h
      rw [← h.1]; exact .struct m
  | text v pos =>
    simp only [ruleStep] at h
    obtain ⟨cs', h1, h2⟩ := except_map_ok h
    simp only [Prod.mk.injEq] at h2
    rw [← h2.1]
    exact .text v pos _ (emitToken_str_out cfg _ _ _ _ _ h1)
  | attr a pos =>
    simp only [ruleStep] at h
    split at h
    · cases h
    · split at h
      · simp only [Except.ok.injEq, Prod.mk.injEq] at h
        rw [← h.1]; exact .attrEmpty a pos
      · exact .attrValue a pos _ (walkValue_out cfg wn hwn _ _ _ _ _ _ _ _ _ h)
  | commentsAttr a pos =>
    simp only [ruleStep] at h
    split at h
    · cases h
    · split at h
      · simp only [Except.ok.injEq, Prod.mk.injEq] at h
        rw [← h.1]; exact .commentsAttrEmpty a pos
      · exact .commentsAttrValue a pos _ (walkValue_out cfg wn hwn _ _ _ _ _ _ _ _ _ h)
  | operator a v pos =>
    simp only [ruleStep] at h
    split at h
    · cases h
    · split at h
      · simp only [Except.ok.injEq, Prod.mk.injEq] at h
        rw [← h.1]; exact .operatorEmpty a v pos
      · exact .operatorValue a v pos _ (walkValue_out cfg wn hwn _ _ _ _ _ _ _ _ _ h)
  | optional a body =>
    simp only [ruleStep] at h
    split at h
    · cases h
    · split at h
      · simp only [Except.ok.injEq, Prod.mk.injEq] at h
        rw [← h.1]; exact .optionalSkip a body
      · exact .optionalTake a body _ (hwn _ _ _ (some body) _ _ _ h)
  | joinAttr a sep pos =>
    simp only [ruleStep] at h
    split at h
    · cases h
    · rename_i items s1 _
      exact .joinAttr a sep pos items _ (runActs_out cfg wn hwn _ _ _ _ _ _ _ _ _ h)
  | elisionToken a v pos =>
    simp only [ruleStep] at h
    split at h
    · cases h
    · split at h
      · obtain ⟨cs', h1, h2⟩ := except_map_ok h
        simp only [Prod.mk.injEq] at h2
        rw [← h2.1]
        exact .elisionToken a v pos _ _ (emitToken_str_out cfg _ _ _ _ _ h1)
      · obtain ⟨cs', h1, h2⟩ := except_map_ok h
        simp only [Prod.mk.injEq] at h2
        rw [← h2.1]
        exact .elisionToken a v pos _ _ (emitToken_str_out cfg _ _ _ _ _ h1)
      · cases h
  | elisionJoinAttr a sep pos =>
    simp only [ruleStep] at h
    split at h
    · cases h
    · rename_i items s1 _
      exact .elisionJoinAttr a sep pos items _ (runActs_out cfg wn hwn _ _ _ _ _ _ _ _ _ h)

theorem seqM_rules_out (wr : Rule → σ → Except Err (List Chunk × σ))
    (hwr : ∀ r s cs s', wr r s = .ok (cs, s') → Out cfg.layout cfg.defs cfg.hd.elisionKinds (.rule r) cs) :
    ∀ (rs : List Rule) (s : σ) (cs : List Chunk) (s' : σ), seqM wr rs s = .ok (cs, s') →
      Out cfg.layout cfg.defs cfg.hd.elisionKinds (.rules rs) cs := by
  intro rs
  induction rs with
  | nil =>
    intro s cs s' h
    rw [seqM_nil_ok] at h
    rw [h.1]; exact .rulesNil
  | cons r rs ih =>
    intro s cs s' h
    rw [seqM_cons_ok] at h
    obtain ⟨c1, s1, c2, h1, h2, rfl⟩ := h
    exact .rulesCons r rs c1 c2 (hwr _ _ _ _ h1) (ih _ _ _ h2)

theorem nodeStep_out (wr : Path → Src → Val → Rule → σ → Except Err (List Chunk × σ))
    (hwr : ∀ p sr n r s cs s', wr p sr n r s = .ok (cs, s') →
      Out cfg.layout cfg.defs cfg.hd.elisionKinds (.rule r) cs)
    (path : Path) (src : Src) (node : Val) (defn : Option (List Rule)) (s : σ) (cs : List Chunk) (s' : σ)
    (h : nodeStep cfg wr path src node defn s = .ok (cs, s')) : OutFor cfg defn cs := by
  unfold nodeStep at h
  split at h
  · rename_i kind as
    cases defn with
    | some d =>
      simp only at h
      exact seqM_rules_out cfg _ (fun r s cs s' hh => hwr _ _ _ _ _ _ _ hh) _ _ _ _ h
    | none =>
      simp only at h
      split at h
      · cases h
      · rename_i rules hl
        exact .node kind rules cs hl (seqM_rules_out cfg _ (fun r s cs s' hh => hwr _ _ _ _ _ _ _ hh) _ _ _ _ h)
  · cases h

/-- soundness of `Out` -/
theorem walk_out : ∀ (fuel : Nat),
    WalkFnOut cfg (walkNode cfg fuel) ∧
    (∀ p sr n r s cs s', walkRule cfg fuel p sr n r s = .ok (cs, s') →
      Out cfg.layout cfg.defs cfg.hd.elisionKinds (.rule r) cs) := by
  intro fuel
  induction fuel with
  | zero =>
    constructor
    · intro path src node defn s cs s' h
      simp [walkNode] at h
    · intro p sr n r s cs s' h
      simp [walkRule] at h
  | succ fuel ih =>
    constructor
    · intro path src node defn s cs s' h
      simp only [walkNode] at h
      exact nodeStep_out cfg _ ih.2 _ _ _ _ _ _ _ h
    · intro p sr n r s cs s' h
      simp only [walkRule] at h
      exact ruleStep_out cfg _ ih.1 _ _ _ _ _ _ _ h

theorem walkChunks_out (tree : Val) (s : σ) (cs : List Chunk) (s' : σ)
    (h : walkChunks cfg tree s = .ok (cs, s')) :
    Out cfg.layout cfg.defs cfg.hd.elisionKinds .node cs :=
  (walk_out cfg _).1 _ _ _ none _ _ _ h

end
end CalmVerif.Unparse
