/-
`Out`: the shapes a chunk stream produced by the walk can have, as an inductive relation between a
"task" (a definition, one rule, a node, a value, the action list of a JoinAttr) and the chunks it
yields — the tree, the hook state, positions and errors abstracted away.

`Out … p pc k dt` additionally records that every token text taken from the tree satisfies `p`, every
constant of a `Text` rule `pc`, and every walked node kind `k`;
`dt` ("drop tokens") is true when the Dispatcher has no token handler (then tokens yield nothing).

`walk_out` (soundness): whatever `walkNode` / `walkRule` return on a tree whose printed strings
satisfy `p` and whose node kinds satisfy `k` (`valAll p k tree`) satisfies `Out … p k`, provided the
constants of the definitions do (`defsOK`).  With `p = k = fun _ => true` there is no condition on the tree.
Every later property of chunk streams is an induction over `Out`.
-/
import CalmVerif.Proofs.UnparseNet
namespace CalmVerif.Unparse
open CalmVerif

variable {σ : Type}

inductive Shape where
  | token (t : String)             -- the token handler called with a text taken from the tree
  | ctoken (t : String)            -- the token handler called with the constant of a `Text` rule
  | value                          -- `_walk(v, token=…)`: a node or a token
  | node                           -- a node walked with its looked-up definition
  | rules (rs : List Rule)         -- a definition / nested body run on the current node
  | rule (r : Rule)
  | acts (sep : List Rule) (as : List JAct)

inductive Out (tbl : List (LKey × Option HandlerId)) (defs : Defs) (ek : List String)
    (p pc : String → Bool) (k : String → Bool) (dt : Bool) : Shape → List Chunk → Prop where
  | tokNone (t : String) : dt = true → Out tbl defs ek p pc k dt (.token t) []
  | tokOne (t : String) (f : Frag) : f.text = t → p t = true → Out tbl defs ek p pc k dt (.token t) [.frag f]
  | ctokNone (t : String) : dt = true → Out tbl defs ek p pc k dt (.ctoken t) []
  | ctokOne (t : String) (f : Frag) : f.text = t → pc t = true → Out tbl defs ek p pc k dt (.ctoken t) [.frag f]
  | valueTok (t : String) (cs) : Out tbl defs ek p pc k dt (.token t) cs → Out tbl defs ek p pc k dt .value cs
  | valueNode (cs) : Out tbl defs ek p pc k dt .node cs → Out tbl defs ek p pc k dt .value cs
  | node (kind : String) (d : List Rule) (cs) : k kind = true →
      lookupDef defs kind = some d → Out tbl defs ek p pc k dt (.rules d) cs → Out tbl defs ek p pc k dt .node cs
  | rulesNil : Out tbl defs ek p pc k dt (.rules []) []
  | rulesCons (r rs c1 c2) : Out tbl defs ek p pc k dt (.rule r) c1 → Out tbl defs ek p pc k dt (.rules rs) c2 →
      Out tbl defs ek p pc k dt (.rules (r :: rs)) (c1 ++ c2)
  | layoutSome (m h) (nd : Val) : lookupLayout tbl (LKey.single m) = some h →
      Out tbl defs ek p pc k dt (.rule (.layout m)) [.layout m h nd]
  | layoutNone (m) : lookupLayout tbl (LKey.single m) = none → Out tbl defs ek p pc k dt (.rule (.layout m)) []
  | struct (m) : Out tbl defs ek p pc k dt (.rule (.struct m)) []
  | text (v pos cs) : Out tbl defs ek p pc k dt (.ctoken v) cs → Out tbl defs ek p pc k dt (.rule (.text v pos)) cs
  | attrEmpty (a pos) : Out tbl defs ek p pc k dt (.rule (.attr a pos)) []
  | attrValue (a pos cs) : Out tbl defs ek p pc k dt .value cs → Out tbl defs ek p pc k dt (.rule (.attr a pos)) cs
  | commentsAttrEmpty (a pos) : Out tbl defs ek p pc k dt (.rule (.commentsAttr a pos)) []
  | commentsAttrValue (a pos cs) : Out tbl defs ek p pc k dt .value cs → Out tbl defs ek p pc k dt (.rule (.commentsAttr a pos)) cs
  | operatorEmpty (a v pos) : Out tbl defs ek p pc k dt (.rule (.operator a v pos)) []
  | operatorValue (a v pos cs) : Out tbl defs ek p pc k dt .value cs → Out tbl defs ek p pc k dt (.rule (.operator a v pos)) cs
  | optionalSkip (a body) : Out tbl defs ek p pc k dt (.rule (.optional a body)) []
  | optionalTake (a body cs) : Out tbl defs ek p pc k dt (.rules body) cs → Out tbl defs ek p pc k dt (.rule (.optional a body)) cs
  | joinAttr (a sep pos) (items : List (Step × Val)) (cs) :
      Out tbl defs ek p pc k dt (.acts sep (joinActs items)) cs → Out tbl defs ek p pc k dt (.rule (.joinAttr a sep pos)) cs
  | elisionToken (a v pos) (t : String) (cs) :
      Out tbl defs ek p pc k dt (.token t) cs → Out tbl defs ek p pc k dt (.rule (.elisionToken a v pos)) cs
  | elisionJoinAttr (a sep pos) (items : List (Step × Val)) (cs) :
      Out tbl defs ek p pc k dt (.acts sep (elisionActs ek items)) cs →
      Out tbl defs ek p pc k dt (.rule (.elisionJoinAttr a sep pos)) cs
  | actsNil (sep) : Out tbl defs ek p pc k dt (.acts sep []) []
  | actsItem (sep st v as c1 c2) : Out tbl defs ek p pc k dt .value c1 → Out tbl defs ek p pc k dt (.acts sep as) c2 →
      Out tbl defs ek p pc k dt (.acts sep (.item st v :: as)) (c1 ++ c2)
  | actsSep (sep as c1 c2) : Out tbl defs ek p pc k dt (.rules sep) c1 → Out tbl defs ek p pc k dt (.acts sep as) c2 →
      Out tbl defs ek p pc k dt (.acts sep (.sep :: as)) (c1 ++ c2)
  | actsEsep (sep as c1 c2) : Out tbl defs ek p pc k dt .node c1 → Out tbl defs ek p pc k dt (.acts sep as) c2 →
      Out tbl defs ek p pc k dt (.acts sep (.esep :: as)) (c1 ++ c2)

/-! ### the token handlers yield nothing or one fragment carrying the text -/

theorem tokenHandler_out (hd : HData) (th : Option TokenHandlerId) (pos : Option Int) (node : Val)
    (t : String) (src : Src) (fs : List Frag) (h : tokenHandler hd th pos node t src = .ok fs) :
    (fs = [] ∧ th = none) ∨ ∃ f, fs = [f] ∧ f.text = t := by
  cases th with
  | none => simp [tokenHandler] at h; exact Or.inl ⟨h, rfl⟩
  | some th =>
    cases th with
    | strDefault =>
      simp only [tokenHandler, tokenStrDefault] at h
      split at h
      · split at h
        · simp only [Except.ok.injEq] at h; exact Or.inr ⟨_, h.symm, rfl⟩
        · cases h
      · simp only [Except.ok.injEq] at h; exact Or.inr ⟨_, h.symm, rfl⟩
    | unobfuscate =>
      simp only [tokenHandler, tokenUnobfuscate] at h
      split at h
      · cases h
      · split at h
        · split at h
          · simp only [Except.ok.injEq] at h; exact Or.inr ⟨_, h.symm, rfl⟩
          · cases h
        · simp only [Except.ok.injEq] at h; exact Or.inr ⟨_, h.symm, rfl⟩

theorem except_map_ok {ε α β : Type} {f : α → β} {x : Except ε α} {b : β} (h : x.map f = .ok b) :
    ∃ a, x = .ok a ∧ f a = b := by
  cases x with
  | error e => simp [Except.map] at h
  | ok a => simp [Except.map] at h; exact ⟨a, rfl, h⟩

/-! ### trees whose printed strings satisfy `p` and whose node kinds satisfy `k` -/

theorem listAll_mem {p k : String → Bool} : ∀ {xs : List Val}, listAll p k xs = true → ∀ v ∈ xs, valAll p k v = true := by
  intro xs
  induction xs with
  | nil => intro _ v hv; simp at hv
  | cons x xs ih =>
    intro h v hv
    simp only [listAll, Bool.and_eq_true] at h
    rcases List.mem_cons.mp hv with rfl | hv
    · exact h.1
    · exact ih h.2 v hv

theorem attrsAll_lookup {p k : String → Bool} : ∀ {as : List (String × Val)} {a : String} {v : Val},
    attrsAll p k as = true → printedAttr a = true → lookupAttr as a = some v → valAll p k v = true := by
  intro as
  induction as with
  | nil => intro a v _ _ h; simp [lookupAttr] at h
  | cons x rest ih =>
    intro a v h ha hl
    obtain ⟨b, w⟩ := x
    simp only [attrsAll, Bool.and_eq_true, Bool.or_eq_true, Bool.not_eq_true'] at h
    simp only [lookupAttr] at hl
    split at hl
    · rename_i hb
      have : b = a := by simpa using hb
      subst this
      cases hl
      rcases h.1 with h1 | h1
      · rw [h1] at ha; cases ha
      · exact h1
    · exact ih h.2 ha hl

theorem nodeAttr_all {p k : String → Bool} {node : Val} {a : String} {v : Val}
    (hn : valAll p k node = true) (ha : printedAttr a = true) (hl : nodeAttr node a = some v) :
    valAll p k v = true := by
  cases node with
  | node kind as =>
    simp only [valAll, Bool.and_eq_true] at hn
    exact attrsAll_lookup hn.2 ha hl
  | _ => simp [nodeAttr] at hl

theorem getattrVal_all {p k : String → Bool} {node : Val} {a : String} {v : Val}
    (hn : valAll p k node = true) (hl : getattrVal node a = .ok v) :
    valAll p k v = true := by
  unfold getattrVal at hl
  by_cases hc : (a == "comments") = true
  · simp only [hc, ↓reduceIte] at hl
    split at hl
    · rename_i w hw
      cases hl
      exact nodeAttr_all hn (by simp [printedAttr]) hw
    · cases hl; simp [valAll]
  · simp only [hc, Bool.false_eq_true, ↓reduceIte] at hl
    by_cases hm : Val.isMeta a = true
    · simp [hm] at hl
    · simp only [hm, Bool.false_eq_true, ↓reduceIte] at hl
      split at hl
      · rename_i w hw
        cases hl
        exact nodeAttr_all hn (by simp [printedAttr, hm]) hw
      · cases hl

mutual
  /-- the constants of a rule: `Text` values satisfy `pc`, the other constants `p` -/
  def ruleOK (p pc : String → Bool) : Rule → Bool
    | .text v _ => pc v
    | .attr _ _ => true
    | .commentsAttr _ _ => true
    | .joinAttr _ sep _ => rulesOK p pc sep
    | .elisionToken _ v _ => p v
    | .elisionJoinAttr _ sep _ => rulesOK p pc sep
    | .optional _ body => rulesOK p pc body
    | .operator _ v _ =>
      (match v with
       | some w => p w
       | none => true)
    | .layout _ => true
    | .struct _ => true
  def rulesOK (p pc : String → Bool) : List Rule → Bool
    | [] => true
    | r :: rs => ruleOK p pc r && rulesOK p pc rs
end

def defsOK (p pc : String → Bool) : Defs → Bool
  | [] => true
  | (_, d) :: rest => rulesOK p pc d && defsOK p pc rest

theorem lookupDef_ok {p pc : String → Bool} {defs : Defs} (h : defsOK p pc defs = true) {kind : String} {d : List Rule}
    (hl : lookupDef defs kind = some d) : rulesOK p pc d = true := by
  induction defs with
  | nil => simp [lookupDef] at hl
  | cons x rest ih =>
    obtain ⟨k', d'⟩ := x
    simp only [defsOK, Bool.and_eq_true] at h
    simp only [lookupDef] at hl
    split at hl
    · cases hl; exact h.1
    · exact ih h.2 hl

/-- what a configuration must satisfy for `Out … p k` -/
structure CfgOK (cfg : Cfg σ) (p pc k : String → Bool) : Prop where
  defs : defsOK p pc cfg.defs = true
  sep : valAll p k cfg.elisionSep = true
  /-- `value * n` of ElisionToken -/
  mul : ∀ v n, p v = true → p (strMul v n) = true
  /-- where a value-returning deferrable handler removes line continuations, `p` is closed under that -/
  cont : (cfg.literal = some .literalContinuation ∨ cfg.lineComment = some .literalContinuation ∨
      cfg.blockComment = some .literalContinuation) →
    ∀ t : String, p t = true → p (String.ofList (dropLineCont cfg.hd t.toList)) = true
  /-- whatever the Resolve hook returns is printable -/
  resolve : ∀ f, cfg.resolve = some f → ∀ path node s v s', f path node s = .ok (v, s') → valAll p k v = true

section
variable (cfg : Cfg σ) (p pc k : String → Bool)

local notation "OutC" => Out cfg.layout cfg.defs cfg.hd.elisionKinds p pc k cfg.tokenHandler.isNone

theorem emitToken_out (pos : Option Int) (cur : Val) (src : Src) (v : Val) (cs : List Chunk)
    (hv : valAll p k v = true) (h : emitToken cfg pos cur src v = .ok cs) :
    ∃ t, OutC (.token t) cs := by
  cases v with
  | str t =>
    simp only [emitToken] at h
    obtain ⟨fs, h1, h2⟩ := except_map_ok h
    rcases tokenHandler_out _ _ _ _ _ _ _ h1 with ⟨rfl, hth⟩ | ⟨f, rfl, hf⟩
    · subst h2; exact ⟨t, .tokNone t (by simp [hth])⟩
    · subst h2; exact ⟨t, .tokOne t f hf (by simpa [valAll] using hv)⟩
  | _ => simp [emitToken] at h

theorem emitToken_str_out (pos : Option Int) (cur : Val) (src : Src) (t : String) (cs : List Chunk)
    (hp : p t = true) (h : emitToken cfg pos cur src (.str t) = .ok cs) : OutC (.token t) cs := by
  simp only [emitToken] at h
  obtain ⟨fs, h1, h2⟩ := except_map_ok h
  rcases tokenHandler_out _ _ _ _ _ _ _ h1 with ⟨rfl, hth⟩ | ⟨f, rfl, hf⟩
  · subst h2; exact .tokNone t (by simp [hth])
  · subst h2; exact .tokOne t f hf hp

theorem emitToken_const_out (pos : Option Int) (cur : Val) (src : Src) (t : String) (cs : List Chunk)
    (hp : pc t = true) (h : emitToken cfg pos cur src (.str t) = .ok cs) : OutC (.ctoken t) cs := by
  simp only [emitToken] at h
  obtain ⟨fs, h1, h2⟩ := except_map_ok h
  rcases tokenHandler_out _ _ _ _ _ _ _ h1 with ⟨rfl, hth⟩ | ⟨f, rfl, hf⟩
  · subst h2; exact .ctokNone t (by simp [hth])
  · subst h2; exact .ctokOne t f hf hp

def OutFor (defn : Option (List Rule)) (cs : List Chunk) : Prop :=
  match defn with
  | none => OutC .node cs
  | some d => OutC (.rules d) cs

def DefnOK (defn : Option (List Rule)) : Prop :=
  match defn with
  | none => True
  | some d => rulesOK p pc d = true

/-- what the recursive callback must satisfy -/
def WalkFnOut (wn : WalkFn σ) : Prop :=
  ∀ path src node defn s cs s', valAll p k node = true → DefnOK p pc defn →
    wn path src node defn s = .ok (cs, s') → OutFor cfg p pc k defn cs

variable {cfg p pc k}

theorem valueHandler_all (hd : HData) (h : DeferHandlerId)
    (hcont : h = .literalContinuation → ∀ t : String, p t = true → p (String.ofList (dropLineCont hd t.toList)) = true)
    (node v : Val) (hn : valAll p k node = true) (hv : valueHandler hd h node = .ok v) : valAll p k v = true := by
  unfold valueHandler at hv
  split at hv
  · cases hv
  · rename_i w hw
    have hwv : valAll p k w = true := nodeAttr_all hn (by decide) hw
    cases h with
    | comment => simp only [Except.ok.injEq] at hv; subst hv; exact hwv
    | literalContinuation =>
      simp only at hv
      split at hv
      · rename_i t
        simp only [Except.ok.injEq] at hv; subst hv
        simp only [valAll] at hwv ⊢
        exact hcont rfl t hwv
      · cases hv
    | obfResolve => simp at hv

theorem getSrc_all (hc : CfgOK cfg p pc k) (path : Path) (node : Val) (a : AttrSrc) (s : σ) (v : Val) (s' : σ)
    (hn : valAll p k node = true) (h : getSrc cfg path node a s = .ok (v, s')) :
    valAll p k v = true := by
  cases a with
  | name a =>
    simp only [getSrc] at h
    obtain ⟨w, h1, h2⟩ := except_map_ok h
    cases h2
    exact getattrVal_all hn h1
  | iter => simp [getSrc] at h
  | declare a =>
    simp only [getSrc] at h
    split at h
    · cases h
    · rename_i target ht
      have htv := getattrVal_all hn ht
      split at h
      · cases h; exact htv
      · obtain ⟨w, _, h2⟩ := except_map_ok h
        cases h2; exact htv
  | resolve =>
    simp only [getSrc] at h
    split at h
    · cases h
    · split at h
      · rename_i f hf
        exact hc.resolve f hf _ _ _ _ _ h
      · obtain ⟨w, h1, h2⟩ := except_map_ok h
        cases h2
        exact getattrVal_all hn h1
  | literal =>
    simp only [getSrc] at h
    split at h
    · rename_i hh hl
      obtain ⟨w, h1, h2⟩ := except_map_ok h
      cases h2
      exact valueHandler_all _ hh (fun e => hc.cont (Or.inl (by rw [hl, e]))) _ _ hn h1
    · obtain ⟨w, h1, h2⟩ := except_map_ok h
      cases h2
      exact getattrVal_all hn h1
  | lineComment =>
    simp only [getSrc] at h
    split at h
    · rename_i hh hl
      obtain ⟨w, h1, h2⟩ := except_map_ok h
      cases h2
      exact valueHandler_all _ hh (fun e => hc.cont (Or.inr (Or.inl (by rw [hl, e])))) _ _ hn h1
    · cases h; simp [valAll]
  | blockComment =>
    simp only [getSrc] at h
    split at h
    · rename_i hh hl
      obtain ⟨w, h1, h2⟩ := except_map_ok h
      cases h2
      exact valueHandler_all _ hh (fun e => hc.cont (Or.inr (Or.inr (by rw [hl, e])))) _ _ hn h1
    · cases h; simp [valAll]

theorem enumFrom_mem {α : Type} : ∀ (xs : List α) (i : Nat) (q : Nat × α), q ∈ enumFrom i xs → q.2 ∈ xs := by
  intro xs
  induction xs with
  | nil => intro i q h; simp [enumFrom] at h
  | cons x xs ih =>
    intro i q h
    simp only [enumFrom, List.mem_cons] at h
    rcases h with rfl | h
    · simp
    · exact List.mem_cons_of_mem _ (ih _ _ h)

theorem iterNode_all (node : Val) (items : List (Step × Val)) (hn : valAll p k node = true)
    (h : iterNode cfg node = .ok items) : ∀ q ∈ items, valAll p k q.2 = true := by
  unfold iterNode at h
  split at h
  · split at h
    · split at h
      · cases h; simp
      · rename_i xs hx
        cases h
        have hxs : valAll p k (.list xs) = true := nodeAttr_all hn (by decide) hx
        intro q hq
        simp only [List.mem_map, List.mem_filter] at hq
        obtain ⟨r, ⟨hr, _⟩, rfl⟩ := hq
        exact listAll_mem (by simpa [valAll] using hxs) _ (enumFrom_mem _ _ _ hr)
      · cases h
    · cases h
  · cases h

theorem getIter_all (hc : CfgOK cfg p pc k) (path : Path) (node : Val) (a : AttrSrc) (s : σ)
    (items : List (Step × Val)) (s' : σ)
    (hn : valAll p k node = true) (h : getIter cfg path node a s = .ok (items, s')) :
    ∀ q ∈ items, valAll p k q.2 = true := by
  unfold getIter at h
  split at h
  · obtain ⟨w, h1, h2⟩ := except_map_ok h
    cases h2
    exact iterNode_all node _ hn h1
  · split at h
    · cases h
    · rename_i v s1 hg
      have hv := getSrc_all hc path node a s v s1 hn hg
      cases v with
      | list xs =>
        simp only [Except.ok.injEq, Prod.mk.injEq] at h
        obtain ⟨rfl, _⟩ := h
        intro q hq
        simp only [List.mem_map] at hq
        obtain ⟨r, hr, rfl⟩ := hq
        exact listAll_mem (by simpa [valAll] using hv) _ (enumFrom_mem _ _ _ hr)
      | node kind as =>
        simp only at h
        obtain ⟨w, h1, h2⟩ := except_map_ok h
        cases h2
        exact iterNode_all _ _ hv h1
      | none => simp at h
      | int n => simp at h
      | bool b => simp at h
      | str t => simp at h

theorem joinActs_all (items : List (Step × Val)) (h : ∀ q ∈ items, valAll p k q.2 = true) :
    ∀ st v, JAct.item st v ∈ joinActs items → valAll p k v = true := by
  intro st v ha
  cases items with
  | nil => simp [joinActs] at ha
  | cons x rest =>
    simp only [joinActs, List.mem_cons, List.mem_flatMap, JAct.item.injEq] at ha
    rcases ha with ⟨_, hv⟩ | ⟨q, hq, hm⟩
    · have := h x (by simp); rw [← hv] at this; exact this
    · simp only [List.mem_cons, List.mem_nil_iff, or_false, JAct.item.injEq, reduceCtorEq, false_or] at hm
      have := h q (by simp [hq]); rw [← hm.2] at this; exact this

theorem elisionActsAux_all (ek : List String) : ∀ (items : List (Step × Val)) (prev : Val),
    (∀ q ∈ items, valAll p k q.2 = true) →
    ∀ st v, JAct.item st v ∈ elisionActsAux ek prev items → valAll p k v = true := by
  intro items
  induction items with
  | nil => intro prev _ st v ha; simp [elisionActsAux] at ha
  | cons x rest ih =>
    intro prev h st v ha
    simp only [elisionActsAux, List.mem_append, List.mem_cons, JAct.item.injEq] at ha
    rcases ha with (ha | ha) | ⟨_, hv⟩ | ha
    · split at ha <;> simp at ha
    · split at ha <;> simp at ha
    · have := h x (by simp); rw [← hv] at this; exact this
    · exact ih x.2 (fun q hq => h q (by simp [hq])) st v ha

theorem elisionActs_all (ek : List String) (items : List (Step × Val))
    (h : ∀ q ∈ items, valAll p k q.2 = true) :
    ∀ st v, JAct.item st v ∈ elisionActs ek items → valAll p k v = true := by
  intro st v ha
  cases items with
  | nil => simp [elisionActs] at ha
  | cons x rest =>
    simp only [elisionActs, List.mem_cons, JAct.item.injEq] at ha
    rcases ha with ⟨_, hv⟩ | ha
    · have := h x (by simp); rw [← hv] at this; exact this
    · exact elisionActsAux_all ek rest x.2 (fun q hq => h q (by simp [hq])) st v ha

theorem walkValue_out (hc : CfgOK cfg p pc k) (wn : WalkFn σ) (hwn : WalkFnOut cfg p pc k wn) (path : Path) (src : Src)
    (cur : Val) (pos : Option Int) (st : Step) (v : Val) (s : σ) (cs : List Chunk) (s' : σ)
    (hv : valAll p k v = true)
    (h : walkValue cfg wn path src cur pos st v s = .ok (cs, s')) : OutC .value cs := by
  unfold walkValue at h
  split at h
  · exact .valueNode _ (hwn _ _ _ none _ _ _ hv trivial h)
  · obtain ⟨cs', h1, h2⟩ := except_map_ok h
    simp only [Prod.mk.injEq] at h2
    obtain ⟨rfl, rfl⟩ := h2
    obtain ⟨t, ht⟩ := emitToken_out cfg p pc k _ _ _ _ _ hv h1
    exact .valueTok t _ ht

theorem runActs_out (hc : CfgOK cfg p pc k) (wn : WalkFn σ) (hwn : WalkFnOut cfg p pc k wn) (path : Path) (src : Src)
    (cur : Val) (hcur : valAll p k cur = true) (pos : Option Int) (sep : List Rule) (hsep : rulesOK p pc sep = true) :
    ∀ (as : List JAct) (s : σ) (cs : List Chunk) (s' : σ),
      (∀ st v, JAct.item st v ∈ as → valAll p k v = true) →
      seqM (runAct cfg wn path src cur pos sep) as s = .ok (cs, s') → OutC (.acts sep as) cs := by
  intro as
  induction as with
  | nil =>
    intro s cs s' _ h
    rw [seqM_nil_ok] at h
    rw [h.1]; exact .actsNil sep
  | cons a as ih =>
    intro s cs s' hall h
    rw [seqM_cons_ok] at h
    obtain ⟨c1, s1, c2, h1, h2, rfl⟩ := h
    have ih' := ih s1 c2 s' (fun st v hb => hall st v (by simp [hb])) h2
    cases a with
    | item st v =>
      exact .actsItem sep st v as c1 c2
        (walkValue_out hc wn hwn _ _ _ _ _ _ _ _ _ (hall st v (by simp)) h1) ih'
    | sep => exact .actsSep sep as c1 c2 (hwn _ _ _ (some sep) _ _ _ hcur hsep h1) ih'
    | esep => exact .actsEsep sep as c1 c2 (hwn _ _ _ none _ _ _ hc.sep trivial h1) ih'

theorem ruleStep_out (hc : CfgOK cfg p pc k) (wn : WalkFn σ) (hwn : WalkFnOut cfg p pc k wn) (path : Path) (src : Src)
    (node : Val) (hn : valAll p k node = true) (rule : Rule) (hr : ruleOK p pc rule = true)
    (s : σ) (cs : List Chunk) (s' : σ)
    (h : ruleStep cfg wn path src node rule s = .ok (cs, s')) : OutC (.rule rule) cs := by
  cases rule with
  | layout m =>
    simp only [ruleStep] at h
    split at h
    · rename_i hh hl
      simp only [Except.ok.injEq, Prod.mk.injEq] at h
      rw [← h.1]; exact .layoutSome m hh node hl
    · rename_i hl
      simp only [Except.ok.injEq, Prod.mk.injEq] at h
      rw [← h.1]; exact .layoutNone m hl
  | struct m =>
    simp only [ruleStep] at h
    split at h
    · obtain ⟨x, _, h2⟩ := except_map_ok h
      simp only [Prod.mk.injEq] at h2
      rw [← h2.1]; exact .struct m
    · simp only [Except.ok.injEq, Prod.mk.injEq] at h
      rw [← h.1]; exact .struct m
  | text v pos =>
    simp only [ruleStep] at h
    obtain ⟨cs', h1, h2⟩ := except_map_ok h
    simp only [Prod.mk.injEq] at h2
    rw [← h2.1]
    exact .text v pos _ (emitToken_const_out cfg p pc k _ _ _ _ _ (by simpa [ruleOK] using hr) h1)
  | attr a pos =>
    simp only [ruleStep] at h
    split at h
    · cases h
    · rename_i v s1 hg
      have hv := getSrc_all hc path node a s v s1 hn hg
      split at h
      · simp only [Except.ok.injEq, Prod.mk.injEq] at h
        rw [← h.1]; exact .attrEmpty a pos
      · exact .attrValue a pos _ (walkValue_out hc wn hwn _ _ _ _ _ _ _ _ _ hv h)
  | commentsAttr a pos =>
    simp only [ruleStep] at h
    split at h
    · cases h
    · rename_i v s1 hg
      have hv := getSrc_all hc path node a s v s1 hn hg
      split at h
      · simp only [Except.ok.injEq, Prod.mk.injEq] at h
        rw [← h.1]; exact .commentsAttrEmpty a pos
      · exact .commentsAttrValue a pos _ (walkValue_out hc wn hwn _ _ _ _ _ _ _ _ _ hv h)
  | operator a v pos =>
    simp only [ruleStep] at h
    simp only [ruleOK] at hr
    split at h
    · cases h
    · rename_i w hw
      have hwv : valAll p k w = true := by
        cases a with
        | some n =>
          simp only at hw
          exact getattrVal_all hn hw
        | none =>
          simp only [Except.ok.injEq] at hw
          subst hw
          cases v with
          | some x => simpa [valAll] using hr
          | none => simp [valAll]
      split at h
      · simp only [Except.ok.injEq, Prod.mk.injEq] at h
        rw [← h.1]; exact .operatorEmpty a v pos
      · exact .operatorValue a v pos _ (walkValue_out hc wn hwn _ _ _ _ _ _ _ _ _ hwv h)
  | optional a body =>
    simp only [ruleStep] at h
    simp only [ruleOK] at hr
    split at h
    · cases h
    · split at h
      · simp only [Except.ok.injEq, Prod.mk.injEq] at h
        rw [← h.1]; exact .optionalSkip a body
      · exact .optionalTake a body _ (hwn _ _ _ (some body) _ _ _ hn hr h)
  | joinAttr a sep pos =>
    simp only [ruleStep] at h
    simp only [ruleOK] at hr
    split at h
    · cases h
    · rename_i items s1 hg
      have hit := getIter_all hc path node a s items s1 hn hg
      exact .joinAttr a sep pos items _
        (runActs_out hc wn hwn _ _ _ hn _ _ hr _ _ _ _ (joinActs_all items hit) h)
  | elisionToken a v pos =>
    simp only [ruleStep] at h
    simp only [ruleOK] at hr
    split at h
    · cases h
    · split at h
      · obtain ⟨cs', h1, h2⟩ := except_map_ok h
        simp only [Prod.mk.injEq] at h2
        rw [← h2.1]
        exact .elisionToken a v pos _ _ (emitToken_str_out cfg p pc k _ _ _ _ _ (hc.mul _ _ hr) h1)
      · obtain ⟨cs', h1, h2⟩ := except_map_ok h
        simp only [Prod.mk.injEq] at h2
        rw [← h2.1]
        exact .elisionToken a v pos _ _ (emitToken_str_out cfg p pc k _ _ _ _ _ (hc.mul _ _ hr) h1)
      · cases h
  | elisionJoinAttr a sep pos =>
    simp only [ruleStep] at h
    simp only [ruleOK] at hr
    split at h
    · cases h
    · rename_i items s1 hg
      have hit := getIter_all hc path node a s items s1 hn hg
      exact .elisionJoinAttr a sep pos items _
        (runActs_out hc wn hwn _ _ _ hn _ _ hr _ _ _ _ (elisionActs_all _ items hit) h)

theorem seqM_rules_out (wr : Rule → σ → Except Err (List Chunk × σ))
    (hwr : ∀ r s cs s', ruleOK p pc r = true → wr r s = .ok (cs, s') → OutC (.rule r) cs) :
    ∀ (rs : List Rule) (s : σ) (cs : List Chunk) (s' : σ), rulesOK p pc rs = true → seqM wr rs s = .ok (cs, s') →
      OutC (.rules rs) cs := by
  intro rs
  induction rs with
  | nil =>
    intro s cs s' _ h
    rw [seqM_nil_ok] at h
    rw [h.1]; exact .rulesNil
  | cons r rs ih =>
    intro s cs s' hok h
    simp only [rulesOK, Bool.and_eq_true] at hok
    rw [seqM_cons_ok] at h
    obtain ⟨c1, s1, c2, h1, h2, rfl⟩ := h
    exact .rulesCons r rs c1 c2 (hwr _ _ _ _ hok.1 h1) (ih _ _ _ hok.2 h2)

theorem nodeStep_out (hc : CfgOK cfg p pc k) (wr : Path → Src → Val → Rule → σ → Except Err (List Chunk × σ))
    (hwr : ∀ q sr n r s cs s', valAll p k n = true → ruleOK p pc r = true → wr q sr n r s = .ok (cs, s') →
      OutC (.rule r) cs)
    (path : Path) (src : Src) (node : Val) (defn : Option (List Rule)) (s : σ) (cs : List Chunk) (s' : σ)
    (hn : valAll p k node = true) (hd : DefnOK p pc defn)
    (h : nodeStep cfg wr path src node defn s = .ok (cs, s')) : OutFor cfg p pc k defn cs := by
  unfold nodeStep at h
  split at h
  · rename_i kind as
    cases defn with
    | some d =>
      simp only at h
      exact seqM_rules_out _ (fun r s cs s' hr hh => hwr _ _ _ _ _ _ _ hn hr hh) _ _ _ _ hd h
    | none =>
      simp only at h
      split at h
      · cases h
      · rename_i rules hl
        have hk : k kind = true := by
          simp only [valAll, Bool.and_eq_true] at hn; exact hn.1
        exact .node kind rules cs hk hl
          (seqM_rules_out _ (fun r s cs s' hr hh => hwr _ _ _ _ _ _ _ hn hr hh) _ _ _ _
            (lookupDef_ok hc.defs hl) h)
  · cases h

/-- soundness of `Out` -/
theorem walk_out (hc : CfgOK cfg p pc k) : ∀ (fuel : Nat),
    WalkFnOut cfg p pc k (walkNode cfg fuel) ∧
    (∀ q sr n r s cs s', valAll p k n = true → ruleOK p pc r = true →
      walkRule cfg fuel q sr n r s = .ok (cs, s') → OutC (.rule r) cs) := by
  intro fuel
  induction fuel with
  | zero =>
    constructor
    · intro path src node defn s cs s' _ _ h
      simp [walkNode] at h
    · intro q sr n r s cs s' _ _ h
      simp [walkRule] at h
  | succ fuel ih =>
    constructor
    · intro path src node defn s cs s' hn hd h
      simp only [walkNode] at h
      exact nodeStep_out hc _ ih.2 _ _ _ _ _ _ _ hn hd h
    · intro q sr n r s cs s' hn hr h
      simp only [walkRule] at h
      exact ruleStep_out hc _ ih.1 _ _ _ hn _ hr _ _ _ h

theorem walkChunks_out (hc : CfgOK cfg p pc k) (tree : Val) (ht : valAll p k tree = true) (s : σ)
    (cs : List Chunk) (s' : σ) (h : walkChunks cfg tree s = .ok (cs, s')) : OutC .node cs :=
  (walk_out hc _).1 _ _ _ none _ _ _ ht trivial h

end

/-! ### no condition: `p = k = fun _ => true` -/

mutual
  theorem valAll_any : ∀ v : Val, valAll anyStr anyStr v = true
    | .str _ => rfl
    | .list xs => by simp only [valAll]; exact listAll_any xs
    | .node _ as => by simp only [valAll, anyStr, Bool.true_and]; exact attrsAll_any as
    | .none => rfl
    | .bool _ => rfl
    | .int _ => rfl
  theorem listAll_any : ∀ xs : List Val, listAll anyStr anyStr xs = true
    | [] => rfl
    | v :: vs => by simp only [listAll, valAll_any v, listAll_any vs, Bool.and_self]
  theorem attrsAll_any : ∀ as : List (String × Val), attrsAll anyStr anyStr as = true
    | [] => rfl
    | (_, v) :: rest => by simp only [attrsAll, valAll_any v, attrsAll_any rest, Bool.or_true, Bool.and_self]
end

mutual
  theorem ruleOK_any : ∀ r : Rule, ruleOK anyStr anyStr r = true
    | .text _ _ => rfl
    | .attr _ _ => rfl
    | .commentsAttr _ _ => rfl
    | .joinAttr _ sep _ => by simp only [ruleOK]; exact rulesOK_any sep
    | .elisionToken _ _ _ => rfl
    | .elisionJoinAttr _ sep _ => by simp only [ruleOK]; exact rulesOK_any sep
    | .optional _ body => by simp only [ruleOK]; exact rulesOK_any body
    | .operator _ v _ => by cases v <;> rfl
    | .layout _ => rfl
    | .struct _ => rfl
  theorem rulesOK_any : ∀ rs : List Rule, rulesOK anyStr anyStr rs = true
    | [] => rfl
    | r :: rs => by simp only [rulesOK, ruleOK_any r, rulesOK_any rs, Bool.and_self]
end

theorem defsOK_any : ∀ defs : Defs, defsOK anyStr anyStr defs = true
  | [] => rfl
  | (_, d) :: rest => by simp only [defsOK, rulesOK_any d, defsOK_any rest, Bool.and_self]

/-- every configuration satisfies the trivial instance -/
theorem cfgOK_any (cfg : Cfg σ) : CfgOK cfg anyStr anyStr anyStr where
  defs := defsOK_any _
  sep := valAll_any _
  mul := fun _ _ _ => rfl
  cont := fun _ _ _ => rfl
  resolve := fun _ _ _ _ _ _ _ _ => valAll_any _

/-- unconditional soundness: any tree, any configuration -/
theorem walkChunks_outAny (cfg : Cfg σ) (tree : Val) (s : σ) (cs : List Chunk) (s' : σ)
    (h : walkChunks cfg tree s = .ok (cs, s')) :
    Out cfg.layout cfg.defs cfg.hd.elisionKinds anyStr anyStr anyStr cfg.tokenHandler.isNone .node cs :=
  walkChunks_out (cfgOK_any cfg) tree (valAll_any tree) s cs s' h

end CalmVerif.Unparse
