/-
Soundness of the line-structure certificate (Proofs/UnparseLineCert.lean): for every tree that respects
the slot typing (`wfVal`, builder rt's Model/TokenAdj.lean) the scan `lsRun` of the chunk stream of a node of
kind `k`, started in a state the certificate speaks about, ends in one of the certified end states.
Induction on the walk; the typed look-up lemmas of Proofs/RoundTripTyped*.lean are reused.
-/
import CalmVerif.Proofs.UnparseLineCert
import CalmVerif.Proofs.RoundTripTyped3
import CalmVerif.Proofs.UnparseEnd
namespace CalmVerif.Unparse
open CalmVerif CalmVerif.TokenAdj

variable {σ : Type}

/-! ### sets of states -/

theorem mapStep_mem (f : LS → Option LS) : ∀ (S S' : LSet), mapStep f S = some S' →
    ∀ st ∈ S, ∃ st' ∈ S', f st = some st' := by
  intro S
  induction S with
  | nil => intro S' _ st hs; simp at hs
  | cons x rest ih =>
    intro S' h st hs
    simp only [mapStep] at h
    split at h
    · rename_i x' rest' h1 h2
      cases h
      rcases List.mem_cons.mp hs with rfl | hs
      · exact ⟨x', by simp, h1⟩
      · obtain ⟨r, hr, hf⟩ := ih rest' h2 st hs
        exact ⟨r, by simp [hr], hf⟩
    · cases h

theorem subsetL_mem {a b : LSet} (h : subsetL a b = true) : ∀ st ∈ a, st ∈ b := by
  intro st hs
  simp only [subsetL, List.all_eq_true] at h
  simpa using h st hs

theorem kindStep_mem (cert : LCert) (k : String) : ∀ (S S' : LSet), kindStep cert k S = some S' →
    ∀ st ∈ S, ∃ E, lcertOf cert k st = some E ∧ ∀ x ∈ E, x ∈ S' := by
  intro S
  induction S with
  | nil => intro S' _ st hs; simp at hs
  | cons x rest ih =>
    intro S' h st hs
    simp only [kindStep] at h
    split at h
    · rename_i E R h1 h2
      cases h
      rcases List.mem_cons.mp hs with rfl | hs
      · exact ⟨E, h1, fun y hy => by simp [hy]⟩
      · obtain ⟨E', he, hsub⟩ := ih R h2 st hs
        exact ⟨E', he, fun y hy => by simp [hsub y hy]⟩
    · cases h

theorem kindsStep_mem (cert : LCert) : ∀ (ks : List String) (S S' : LSet), kindsStep cert ks S = some S' →
    ∀ k ∈ ks, ∀ st ∈ S, ∃ E, lcertOf cert k st = some E ∧ ∀ x ∈ E, x ∈ S' := by
  intro ks
  induction ks with
  | nil => intro S S' _ k hk; simp at hk
  | cons k0 ks ih =>
    intro S S' h k hk st hs
    simp only [kindsStep] at h
    split at h
    · rename_i a b h1 h2
      cases h
      rcases List.mem_cons.mp hk with rfl | hk
      · obtain ⟨E, he, hsub⟩ := kindStep_mem cert k S a h1 st hs
        exact ⟨E, he, fun y hy => by simp [hsub y hy]⟩
      · obtain ⟨E, he, hsub⟩ := ih S b h2 k hk st hs
        exact ⟨E, he, fun y hy => by simp [hsub y hy]⟩
    · cases h

/-! ### forcing is the identity -/

@[simp] theorem forceLS_eq {α : Type} (st : LS) (k : LS → α) : forceLS st k = k st := by
  obtain ⟨m, b⟩ := st
  cases m <;> cases b <;> rfl

@[simp] theorem forceLSet_eq {α : Type} (S : LSet) (k : LSet → α) : forceLSet S k = k S := by
  induction S generalizing k with
  | nil => rfl
  | cons st rest ih => simp [forceLSet, ih]

@[simp] theorem forceRow_eq {α : Type} (row : List (LS × LSet)) (k : List (LS × LSet) → α) : forceRow row k = k row := by
  induction row generalizing k with
  | nil => rfl
  | cons q rest ih => obtain ⟨st, E⟩ := q; simp [forceRow, ih]

@[simp] theorem forceLCert_eq {α : Type} (c : LCert) (k : LCert → α) : forceLCert c k = k c := by
  induction c generalizing k with
  | nil => rfl
  | cons q rest ih => obtain ⟨s, row⟩ := q; simp [forceLCert, ih]

theorem withLCert_eq {α : Type} (mk : LCert → LCtx) (defs : Defs) (n : Nat) (k : LCert → α) :
    withLCert mk defs n k = k (lcertIter mk defs n) := by
  induction n generalizing k with
  | zero => simp [withLCert]
  | succ n ih => simp [withLCert, ih, lcertIter]

theorem mem_allLS (st : LS) : st ∈ allLS := by
  obtain ⟨m, b⟩ := st
  cases m <;> cases b <;> simp [allLS]

theorem mem_dedupL (l : LSet) (st : LS) : st ∈ dedupL l ↔ st ∈ l := by
  simp [dedupL, mem_allLS]

theorem closeUnder_spec (f : LSet → Option LSet) : ∀ (n : Nat) (A C : LSet), closeUnder f n A = some C →
    (∀ st ∈ A, st ∈ C) ∧ ∃ B, f C = some B ∧ ∀ st ∈ B, st ∈ C := by
  intro n
  induction n with
  | zero => intro A C h; simp [closeUnder] at h
  | succ n ih =>
    intro A C h
    simp only [closeUnder] at h
    split at h
    · cases h
    · rename_i B hB
      simp only [forceLSet_eq] at h
      split at h
      · rename_i hsub
        cases h
        exact ⟨fun _ h => h, B, hB, fun st hs => subsetL_mem hsub st ((mem_dedupL B st).2 hs)⟩
      · obtain ⟨h1, h2⟩ := ih _ C h
        exact ⟨fun st hs => h1 st ((mem_dedupL _ st).2 (by simp [hs])), h2⟩

/-! ### the scan -/

theorem lsRun_append (a b : List Chunk) (st : LS) : lsRun (a ++ b) st = (lsRun a st).bind (lsRun b) := by
  induction a generalizing st with
  | nil => simp [lsRun]
  | cons c cs ih =>
    simp only [List.cons_append, lsRun]
    cases lsStep c st with
    | none => simp
    | some st' => simp [ih]

/-- the symbolic step `f` describes the chunks `cs` -/
def Sound (f : LSet → Option LSet) (cs : List Chunk) : Prop :=
  ∀ S S', f S = some S' → ∀ st ∈ S, ∃ st' ∈ S', lsRun cs st = some st'

theorem sound_nil : Sound (fun S => some S) ([] : List Chunk) := by
  intro S S' h st hs
  simp only [Option.some.injEq] at h; subst h
  exact ⟨st, hs, rfl⟩

theorem sound_dedup {f : LSet → Option LSet} {cs : List Chunk} (h : Sound f cs) :
    Sound (fun S => (f S).map dedupL) cs := by
  intro S S' hS st hs
  cases hf : f S with
  | none => simp [hf] at hS
  | some S1 =>
    simp only [hf, Option.map_some, Option.some.injEq] at hS
    subst hS
    obtain ⟨st', h1, h2⟩ := h S S1 hf st hs
    exact ⟨st', (mem_dedupL S1 st').2 h1, h2⟩

theorem sound_seq {f g : LSet → Option LSet} {a b : List Chunk} (ha : Sound f a) (hb : Sound g b) :
    Sound (fun S => (f S).bind g) (a ++ b) := by
  intro S S' h st hs
  have h : (f S).bind g = some S' := h
  cases hf : f S with
  | none => rw [hf] at h; cases h
  | some S1 =>
    rw [hf] at h
    simp only [Option.bind_some] at h
    obtain ⟨st1, h1, r1⟩ := ha S S1 hf st hs
    obtain ⟨st2, h2, r2⟩ := hb S1 S' h st1 h1
    exact ⟨st2, h2, by rw [lsRun_append, r1]; exact r2⟩

/-- a step that may or may not happen -/
theorem sound_opt {f : LSet → Option LSet} {cs : List Chunk} (h : Sound f cs ∨ cs = []) :
    Sound (optStep f) cs := by
  intro S S' he st hs
  simp only [optStep] at he
  split at he
  · rename_i S1 hf
    cases he
    rcases h with h | rfl
    · obtain ⟨st', h1, r1⟩ := h S S1 hf st hs
      exact ⟨st', by simp [h1], r1⟩
    · exact ⟨st, by simp [hs], rfl⟩
  · cases he

theorem sound_print (f : Frag) : Sound (mapStep lsPrint) [.frag f] := by
  intro S S' h st hs
  obtain ⟨st', h1, h2⟩ := mapStep_mem _ S S' h st hs
  exact ⟨st', h1, by simp [lsRun, lsStep, h2]⟩

theorem sound_layout (m : Marker) (hh : HandlerId) (n : Val) : Sound (mapStep (lsStepH hh)) [.layout m hh n] := by
  intro S S' h st hs
  obtain ⟨st', h1, h2⟩ := mapStep_mem _ S S' h st hs
  exact ⟨st', h1, by simp [lsRun, lsStep, h2]⟩

/-- closure: from a state of a closed set, any number of rounds stays in the set -/
theorem sound_closed {f : LSet → Option LSet} {C B : LSet} (hf : f C = some B) (hsub : ∀ st ∈ B, st ∈ C)
    {cs : List Chunk} (h : Sound f cs) : ∀ st ∈ C, ∃ st' ∈ C, lsRun cs st = some st' := by
  intro st hs
  obtain ⟨st', h1, h2⟩ := h C B hf st hs
  exact ⟨st', hsub st' h1, h2⟩

/-! ### typed values -/

/-- how the symbolic context matches the configuration and the slot typing -/
structure LinkOK (cfg : Cfg σ) (cx : Ctx) (lx : LCtx) : Prop where
  tbl : lx.tbl = cfg.layout
  slot : lx.slot = cx.slot
  esep : lx.esep = cx.esep
  ek : lx.elisionKinds = cfg.hd.elisionKinds
  comments : (lx.comments = true ∧ cfg.lineComment = some .comment ∧ cfg.blockComment = some .comment) ∨
    (lx.comments = false ∧ cfg.lineComment = Option.none ∧ cfg.blockComment = Option.none)
  commentsSlot : ∀ K, ∃ ks, cx.slot K "comments" = .node ks true
  closed : lcertClosed lx cfg.defs = true

/-- the attributes of `present` are known to be non-empty on `node` -/
def PresentOK (present : List String) (node : Val) : Prop :=
  ∀ a ∈ present, ∀ v, getattrVal node a = .ok v → isEmptyVal v = false

/-- what the induction establishes for the recursive callback -/
def NodeOKL (cx : Ctx) (lx : LCtx) (wn : WalkFn σ) : Prop :=
  ∀ path src k as defn s cs s', wfVal cx (.node k as) = true → wn path src (.node k as) defn s = .ok (cs, s') →
    match defn with
    | Option.none => ∀ st E, lcertOf lx.cert k st = some E → ∃ st' ∈ E, lsRun cs st = some st'
    | some d => ∀ present, PresentOK present (.node k as) → Sound (lexecRules lx k present d) cs

theorem getattr_sharp {cx : Ctx} (k : String) (as : List (String × Val)) (hw : wfVal cx (.node k as) = true) (a : String)
    (v : Val) (h : getattrVal (.node k as) a = .ok v) :
    (a = "comments" ∧ v = .none) ∨ (slotOK (cx.slot k a) v = true ∧ wfVal cx v = true) := by
  simp only [wfVal] at hw
  unfold getattrVal at h
  by_cases h1 : (a == "comments") = true
  · rw [if_pos h1] at h
    have ha : a = "comments" := by simpa using h1
    subst ha
    simp only [nodeAttr] at h
    cases hl : lookupAttr as "@comments" with
    | none => rw [hl] at h; simp at h; exact Or.inl ⟨rfl, h.symm⟩
    | some w =>
      rw [hl] at h
      simp only [Except.ok.injEq] at h
      subst h
      have := wfAttrs_lookup hw (by decide) hl
      have hk : slotKey "@comments" = "comments" := by decide
      rw [hk] at this
      exact Or.inr this
  · rw [if_neg h1] at h
    by_cases h2 : Val.isMeta a = true
    · rw [if_pos h2] at h; cases h
    · rw [if_neg h2] at h
      simp only [nodeAttr] at h
      cases hl : lookupAttr as a with
      | none => rw [hl] at h; cases h
      | some w =>
        rw [hl] at h
        simp only [Except.ok.injEq] at h
        subst h
        have := wfAttrs_lookup hw (printed_of_not_meta h2) hl
        have hk : slotKey a = a := by
          simp only [slotKey]
          split
          · rename_i hh
            have : a = "@comments" := by simpa using hh
            subst this
            exact absurd (by decide) h2
          · rfl
        rw [hk] at this
        exact Or.inr this

section
variable {cfg : Cfg σ} {cx : Ctx} (hc : TypedCfg cfg cx) {lx : LCtx} (hl : LinkOK cfg cx lx)
include hc

/-- the default token handler yields exactly one fragment -/
theorem emitToken_one (pos : Option Int) (cur : Val) (src : Src) (t : String) (cs : List Chunk)
    (h : emitToken cfg pos cur src (.str t) = .ok cs) : ∃ f, cs = [.frag f] := by
  simp only [emitToken] at h
  obtain ⟨fs, h1, h2⟩ := except_map_ok h
  subst h2
  rcases tokenHandler_out _ _ _ _ _ _ _ h1 with ⟨_, hn⟩ | ⟨f, hf, _⟩
  · rw [hc.tok] at hn; cases hn
  · subst hf; exact ⟨f, rfl⟩

theorem token_sound (pos : Option Int) (cur : Val) (src : Src) (t : String) (cs : List Chunk)
    (h : emitToken cfg pos cur src (.str t) = .ok cs) : Sound (mapStep lsPrint) cs := by
  obtain ⟨f, rfl⟩ := emitToken_one hc pos cur src t cs h
  exact sound_print f

include hl

/-- a child node of one of the kinds `ks` -/
theorem child_sound {wn : WalkFn σ} (hwn : NodeOKL cx lx wn) (ks : List String) (k' : String) (as' : List (String × Val))
    (hk : k' ∈ ks) (hw : wfVal cx (.node k' as') = true) (path : Path) (src : Src) (s : σ) (cs : List Chunk) (s' : σ)
    (h : wn path src (.node k' as') Option.none s = .ok (cs, s')) : Sound (kindsStep lx.cert ks) cs := by
  intro S S' hS st hs
  obtain ⟨E, he, hsub⟩ := kindsStep_mem lx.cert ks S S' hS k' hk st hs
  obtain ⟨st', h1, h2⟩ := hwn _ _ k' as' Option.none _ _ _ hw h st E he
  exact ⟨st', hsub st' h1, h2⟩

/-- the value of an attribute of slot type `ty`, walked (or skipped when empty) by an Attr-like rule -/
theorem attrValue_sound {wn : WalkFn σ} (hwn : NodeOKL cx lx wn) (path : Path) (src : Src) (cur : Val)
    (pos : Option Int) (stp : Step) (ty : SlotTy) (pres : Bool) (v : Val) (s : σ) (cs : List Chunk) (s' : σ)
    (hv : (v = .none ∧ ∃ ks, ty = .node ks true) ∨ (slotOK ty v = true ∧ wfVal cx v = true))
    (hp : pres = true → isEmptyVal v = false)
    (h : (if isEmptyVal v then (.ok ([], s) : Except Err (List Chunk × σ))
          else walkValue cfg wn path src cur pos stp v s) = .ok (cs, s')) :
    Sound (slotStep lx ty pres) cs := by
  -- the empty value of an optional node slot
  have hnone : ∀ ks, ty = .node ks true → v = .none → Sound (slotStep lx ty pres) cs := by
    intro ks hty hvn
    subst hvn
    have hpf : pres = false := by
      cases pres with
      | false => rfl
      | true => have := hp rfl; simp [isEmptyVal] at this
    simp only [isEmptyVal, ↓reduceIte, Except.ok.injEq, Prod.mk.injEq] at h
    rw [← h.1, hty, hpf]
    intro S S' hS st hs
    simp only [slotStep] at hS
    split at hS
    · simp only [Bool.not_false, Bool.and_self, ↓reduceIte, Option.some.injEq] at hS
      subst hS
      exact ⟨st, by simp [hs], rfl⟩
    · cases hS
  rcases hv with ⟨hvn, ks, hty⟩ | ⟨hso, hwv⟩
  · exact hnone ks hty hvn
  · cases ty with
    | tok tcs =>
      cases v with
      | str t =>
        simp only [isEmptyVal, Bool.false_eq_true, ↓reduceIte, walkValue] at h
        obtain ⟨c, g1, g2⟩ := except_map_ok h
        simp only [Prod.mk.injEq] at g2
        rw [← g2.1]
        have := token_sound hc pos cur src t c g1
        intro S S' hS
        exact this S S' (by simpa [slotStep] using hS)
      | none => simp [slotOK] at hso
      | bool b => simp [slotOK] at hso
      | int i => simp [slotOK] at hso
      | list xs => simp [slotOK] at hso
      | node k2 as2 => simp [slotOK] at hso
    | node ks opt =>
      simp only [slotOK, Bool.or_eq_true, Bool.and_eq_true] at hso
      rcases hso with hk | ⟨hopt, hvn⟩
      · obtain ⟨k', as', rfl, hk'⟩ := kindIn_node hk
        simp only [isEmptyVal, Bool.false_eq_true, ↓reduceIte, walkValue] at h
        have hch := child_sound hc hl hwn ks k' as' hk' hwv _ _ _ _ _ h
        intro S S' hS st hs
        simp only [slotStep] at hS
        split at hS
        · rename_i S1 h1
          obtain ⟨st', g1, g2⟩ := hch S S1 h1 st hs
          simp only [Option.some.injEq] at hS
          subst hS
          refine ⟨st', ?_, g2⟩
          split
          · simp [g1]
          · exact g1
        · cases hS
      · have hvn' : v = .none := by
          cases v <;> simp at hvn
          rfl
        have : opt = true := hopt
        subst this
        exact hnone ks rfl hvn'
    | nodes ks => intro S S' hS; simp [slotStep] at hS
    | int1 => intro S S' hS; simp [slotStep] at hS
    | any => intro S S' hS; simp [slotStep] at hS

/-- a string value is always printed as one token -/
theorem strValue_sound {wn : WalkFn σ} (path : Path) (src : Src) (cur : Val) (pos : Option Int) (stp : Step)
    (t : String) (s : σ) (cs : List Chunk) (s' : σ)
    (h : (if isEmptyVal (.str t) then (.ok ([], s) : Except Err (List Chunk × σ))
          else walkValue cfg wn path src cur pos stp (.str t) s) = .ok (cs, s')) :
    Sound (mapStep lsPrint) cs := by
  simp only [isEmptyVal, Bool.false_eq_true, ↓reduceIte, walkValue] at h
  obtain ⟨c, g1, g2⟩ := except_map_ok h
  simp only [Prod.mk.injEq] at g2
  rw [← g2.1]
  exact token_sound hc pos cur src t c g1

/-- the `value` attribute under `valueSlotStep` -/
theorem valueSlot_sound {wn : WalkFn σ} (K : String) (path : Path) (src : Src) (cur : Val) (pos : Option Int) (stp : Step)
    (v : Val) (s : σ) (cs : List Chunk) (s' : σ)
    (hv : (∃ t, v = .str t) ∨ slotOK (cx.slot K "value") v = true)
    (h : (if isEmptyVal v then (.ok ([], s) : Except Err (List Chunk × σ))
          else walkValue cfg wn path src cur pos stp v s) = .ok (cs, s')) :
    Sound (valueSlotStep lx K) cs := by
  intro S S' hS
  simp only [valueSlotStep, hl.slot] at hS
  split at hS
  · rename_i tcs hty
    have hstr : ∃ t, v = .str t := by
      rcases hv with hv | hv
      · exact hv
      · rw [hty] at hv
        cases v <;> simp [slotOK] at hv
        exact ⟨_, rfl⟩
    obtain ⟨t, rfl⟩ := hstr
    exact strValue_sound hc hl path src cur pos stp t s cs s' h S S' hS
  · cases hS

/-- `Attr._getattr` followed by the walk of its value -/
theorem src_sound {wn : WalkFn σ} (hwn : NodeOKL cx lx wn) (K : String) (as : List (String × Val))
    (hw : wfVal cx (.node K as) = true) (present : List String) (hpres : PresentOK present (.node K as))
    (path : Path) (src : Src) (pos : Option Int) (stp : Step) (a : AttrSrc) (s : σ) (v : Val) (s1 : σ)
    (hg : getSrc cfg path (.node K as) a s = .ok (v, s1)) (cs : List Chunk) (s' : σ)
    (h : (if isEmptyVal v then (.ok ([], s1) : Except Err (List Chunk × σ))
          else walkValue cfg wn path src (.node K as) pos stp v s1) = .ok (cs, s')) :
    Sound (srcStep lx K present a) cs := by
  -- an attribute read by name
  have hname : ∀ (b : String), getattrVal (.node K as) b = .ok v →
      Sound (slotStep lx (lx.slot K b) (present.contains b)) cs := by
    intro b hb
    have hsh := getattr_sharp K as hw b v hb
    rw [hl.slot]
    apply attrValue_sound hc hl hwn path src (.node K as) pos stp (cx.slot K b) (present.contains b) v s1 cs s' _ _ h
    · rcases hsh with ⟨rfl, rfl⟩ | hsh
      · exact Or.inl ⟨rfl, hl.commentsSlot K⟩
      · exact Or.inr hsh
    · intro hp
      exact hpres b (by simpa using hp) v hb
  cases a with
  | name b =>
    simp only [getSrc] at hg
    obtain ⟨w, h1, h2⟩ := except_map_ok hg
    cases h2
    exact hname b h1
  | iter => simp [getSrc] at hg
  | declare b =>
    simp only [getSrc] at hg
    cases hb : getattrVal (.node K as) b with
    | error e => rw [hb] at hg; cases hg
    | ok target =>
      rw [hb] at hg
      simp only at hg
      have : v = target := by
        split at hg
        · cases hg; rfl
        · obtain ⟨w, _, h2⟩ := except_map_ok hg
          cases h2; rfl
      subst this
      exact hname b hb
  | resolve =>
    simp only [getSrc, hc.hooks.resolve] at hg
    split at hg
    · cases hg
    · obtain ⟨w, h1, h2⟩ := except_map_ok hg
      cases h2
      have hsh := getattr_sharp K as hw "value" v h1
      rcases hsh with ⟨hne, _⟩ | hsh
      · exact absurd hne (by decide)
      · intro S S' hS
        exact valueSlot_sound hc hl K path src _ pos stp v _ cs s' (Or.inr hsh.1) h S S' (by simpa [srcStep] using hS)
  | literal =>
    simp only [getSrc] at hg
    rcases hc.lit with hlit | ⟨hlit, _⟩
    · rw [hlit] at hg
      obtain ⟨w, h1, h2⟩ := except_map_ok hg
      cases h2
      have hsh := getattr_sharp K as hw "value" v h1
      rcases hsh with ⟨hne, _⟩ | hsh
      · exact absurd hne (by decide)
      · intro S S' hS
        exact valueSlot_sound hc hl K path src _ pos stp v _ cs s' (Or.inr hsh.1) h S S' (by simpa [srcStep] using hS)
    · rw [hlit] at hg
      obtain ⟨w, h1, h2⟩ := except_map_ok hg
      cases h2
      simp only [valueHandler] at h1
      split at h1
      · cases h1
      · split at h1
        · simp only [Except.ok.injEq] at h1
          intro S S' hS
          exact valueSlot_sound hc hl K path src _ pos stp v _ cs s' (Or.inl ⟨_, h1.symm⟩) h S S'
            (by simpa [srcStep] using hS)
        · cases h1
  | lineComment =>
    simp only [getSrc] at hg
    intro S S' hS
    rcases hl.comments with ⟨hlc, hh, _⟩ | ⟨hlc, hh, _⟩
    · rw [hh] at hg
      simp only [srcStep, hlc, ↓reduceIte] at hS
      obtain ⟨w, h1, h2⟩ := except_map_ok hg
      cases h2
      simp only [valueHandler] at h1
      split at h1
      · cases h1
      · rename_i w' hw'
        simp only [Except.ok.injEq] at h1
        subst h1
        simp only [wfVal] at hw
        simp only [nodeAttr] at hw'
        have := (wfAttrs_lookup hw (by decide) hw').1
        have hk : slotKey "value" = "value" := by decide
        rw [hk] at this
        exact valueSlot_sound hc hl K path src _ pos stp w' _ cs s' (Or.inr this) h S S' hS
    · rw [hh] at hg
      simp only [Except.ok.injEq, Prod.mk.injEq] at hg
      simp only [srcStep, hlc, Bool.false_eq_true, ↓reduceIte] at hS
      rw [← hg.1] at h
      simp only [isEmptyVal, ↓reduceIte, Except.ok.injEq, Prod.mk.injEq] at h
      rw [← h.1]
      exact sound_nil S S' hS
  | blockComment =>
    simp only [getSrc] at hg
    intro S S' hS
    rcases hl.comments with ⟨hlc, _, hh⟩ | ⟨hlc, _, hh⟩
    · rw [hh] at hg
      simp only [srcStep, hlc, ↓reduceIte] at hS
      obtain ⟨w, h1, h2⟩ := except_map_ok hg
      cases h2
      simp only [valueHandler] at h1
      split at h1
      · cases h1
      · rename_i w' hw'
        simp only [Except.ok.injEq] at h1
        subst h1
        simp only [wfVal] at hw
        simp only [nodeAttr] at hw'
        have := (wfAttrs_lookup hw (by decide) hw').1
        have hk : slotKey "value" = "value" := by decide
        rw [hk] at this
        exact valueSlot_sound hc hl K path src _ pos stp w' _ cs s' (Or.inr this) h S S' hS
    · rw [hh] at hg
      simp only [Except.ok.injEq, Prod.mk.injEq] at hg
      simp only [srcStep, hlc, Bool.false_eq_true, ↓reduceIte] at hS
      rw [← hg.1] at h
      simp only [isEmptyVal, ↓reduceIte, Except.ok.injEq, Prod.mk.injEq] at h
      rw [← h.1]
      exact sound_nil S S' hS

/-! ### JoinAttr and ElisionJoinAttr -/

omit hc in
theorem itemKinds_eq (K : String) (src : AttrSrc) : itemKinds cx K src = itemKindsL lx K src := by
  cases src with
  | name a => cases hs : cx.slot K a <;> simp [itemKinds, itemKindsL, hl.slot, hs]
  | declare a => cases hs : cx.slot K a <;> simp [itemKinds, itemKindsL, hl.slot, hs]
  | iter => cases hs : cx.slot K "children" <;> simp [itemKinds, itemKindsL, hl.slot, hs]
  | _ => simp [itemKinds, itemKindsL]

/-- one item of an iteration -/
theorem item_sound {wn : WalkFn σ} (hwn : NodeOKL cx lx wn) (path : Path) (src : Src) (cur : Val) (pos : Option Int)
    (sep : List Rule) (ks : List String) (q : Step × Val)
    (hq : ∃ k' as', q.2 = .node k' as' ∧ k' ∈ ks ∧ wfVal cx (.node k' as') = true) (s : σ) (cs : List Chunk) (s' : σ)
    (h : runAct cfg wn path src cur pos sep (.item q.1 q.2) s = .ok (cs, s')) : Sound (kindsStep lx.cert ks) cs := by
  obtain ⟨k', as', hq1, hk', hw'⟩ := hq
  simp only [runAct, hq1, walkValue] at h
  exact child_sound hc hl hwn ks k' as' hk' hw' _ _ _ _ _ h

/-- the surrogate separator node of ElisionJoinAttr -/
theorem esep_sound {wn : WalkFn σ} (hwn : NodeOKL cx lx wn) (path : Path) (src : Src) (cur : Val) (pos : Option Int)
    (sep : List Rule) (s : σ) (cs : List Chunk) (s' : σ)
    (h : runAct cfg wn path src cur pos sep .esep s = .ok (cs, s')) : Sound (kindStep lx.cert lx.esep) cs := by
  obtain ⟨as0, he, hw0⟩ := hc.esep
  simp only [runAct, he] at h
  intro S S' hS st hs
  rw [hl.esep] at hS
  obtain ⟨E, hE, hsub⟩ := kindStep_mem lx.cert cx.esep S S' hS st hs
  obtain ⟨st', h1, h2⟩ := hwn _ _ cx.esep as0 Option.none _ _ _ hw0 h st E hE
  exact ⟨st', hsub st' h1, h2⟩

theorem join_sound {wn : WalkFn σ} (hwn : NodeOKL cx lx wn) (K : String) (as : List (String × Val))
    (hw : wfVal cx (.node K as) = true) (present : List String) (hpres : PresentOK present (.node K as))
    (path : Path) (src : Src) (pos : Option Int) (sep : List Rule) (ks : List String) (pres : Bool)
    (items : List (Step × Val)) (hit : ItemsOK cx ks items) (hne : pres = true → items ≠ [])
    (s : σ) (cs : List Chunk) (s' : σ)
    (h : seqM (runAct cfg wn path src (.node K as) pos sep) (joinActs items) s = .ok (cs, s')) :
    Sound (fun S => match kindsStep lx.cert ks S with
      | Option.none => Option.none
      | some S1 =>
        match closeUnder (fun A => (lexecRules lx K present sep A).bind (kindsStep lx.cert ks)) 8 S1 with
        | Option.none => Option.none
        | some C => some (if pres then C else S ++ C)) cs := by
  intro S S' hS st hs
  simp only at hS
  cases hS1 : kindsStep lx.cert ks S with
  | none => rw [hS1] at hS; cases hS
  | some S1 =>
    rw [hS1] at hS
    simp only at hS
    cases hC : closeUnder (fun A => (lexecRules lx K present sep A).bind (kindsStep lx.cert ks)) 8 S1 with
    | none => rw [hC] at hS; cases hS
    | some C =>
      rw [hC] at hS
      simp only [Option.some.injEq] at hS
      obtain ⟨hsub1, B, hfC, hsubB⟩ := closeUnder_spec _ 8 S1 C hC
      have hCS' : ∀ x ∈ C, x ∈ S' := by
        intro x hx
        rw [← hS]
        split
        · exact hx
        · simp [hx]
      have hsep : ∀ s cs s', runAct cfg wn path src (.node K as) pos sep .sep s = .ok (cs, s') →
          Sound (lexecRules lx K present sep) cs := by
        intro s cs s' hr
        simp only [runAct] at hr
        exact hwn _ _ K as (some sep) _ _ _ hw hr present hpres
      have htail : ∀ (rest : List (Step × Val)), ItemsOK cx ks rest → ∀ s cs s',
          seqM (runAct cfg wn path src (.node K as) pos sep) (rest.flatMap (fun p => [JAct.sep, JAct.item p.1 p.2])) s
            = .ok (cs, s') → ∀ x ∈ C, ∃ x' ∈ C, lsRun cs x = some x' := by
        intro rest
        induction rest with
        | nil =>
          intro _ s cs s' hr x hx
          simp only [List.flatMap_nil] at hr
          rw [seqM_nil_ok] at hr
          rw [hr.1]; exact ⟨x, hx, rfl⟩
        | cons y ys ih =>
          intro hys s cs s' hr x hx
          simp only [List.flatMap_cons, List.cons_append, List.nil_append] at hr
          rw [seqM_cons_ok] at hr
          obtain ⟨c1, s1, c2, h1, h2, rfl⟩ := hr
          rw [seqM_cons_ok] at h2
          obtain ⟨c3, s3, c4, h3, h4, rfl⟩ := h2
          have e13 := sound_seq (hsep s c1 s1 h1)
            (item_sound hc hl hwn path src _ pos sep ks y (hys y (by simp)) s1 c3 s3 h3)
          obtain ⟨x1, hx1, r1⟩ := sound_closed hfC hsubB e13 x hx
          obtain ⟨x2, hx2, r2⟩ := ih (fun q hq => hys q (by simp [hq])) s3 c4 s' h4 x1 hx1
          refine ⟨x2, hx2, ?_⟩
          rw [← List.append_assoc, lsRun_append, r1]
          exact r2
      cases items with
      | nil =>
        simp only [joinActs] at h
        rw [seqM_nil_ok] at h
        rw [h.1]
        refine ⟨st, ?_, rfl⟩
        rw [← hS]
        cases pres with
        | true => exact absurd rfl (hne rfl)
        | false => simp [hs]
      | cons x rest =>
        obtain ⟨stp, v⟩ := x
        simp only [joinActs] at h
        rw [seqM_cons_ok] at h
        obtain ⟨c1, s1, c2, h1, h2, rfl⟩ := h
        obtain ⟨x1, hx1, r1⟩ := item_sound hc hl hwn path src _ pos sep ks (stp, v) (hit (stp, v) (by simp)) s c1 s1 h1
          S S1 hS1 st hs
        obtain ⟨x2, hx2, r2⟩ := htail rest (fun q hq => hit q (by simp [hq])) s1 c2 s' h2 x1 (hsub1 x1 hx1)
        exact ⟨x2, hCS' x2 hx2, by rw [lsRun_append, r1]; exact r2⟩

theorem ejoin_sound {wn : WalkFn σ} (hwn : NodeOKL cx lx wn) (K : String) (as : List (String × Val))
    (hw : wfVal cx (.node K as) = true) (present : List String) (hpres : PresentOK present (.node K as))
    (path : Path) (src : Src) (pos : Option Int) (sep : List Rule) (ks : List String) (pres : Bool) (ek : List String)
    (items : List (Step × Val)) (hit : ItemsOK cx ks items) (hne : pres = true → items ≠ [])
    (s : σ) (cs : List Chunk) (s' : σ)
    (h : seqM (runAct cfg wn path src (.node K as) pos sep) (elisionActs ek items) s = .ok (cs, s')) :
    Sound (fun S => match kindsStep lx.cert ks S with
      | Option.none => Option.none
      | some S1 =>
        match closeUnder (fun A => ((optStep (kindStep lx.cert lx.esep) A).bind
            (optStep (lexecRules lx K present sep))).bind (kindsStep lx.cert ks)) 8 S1 with
        | Option.none => Option.none
        | some C => some (if pres then C else S ++ C)) cs := by
  intro S S' hS st hs
  simp only at hS
  cases hS1 : kindsStep lx.cert ks S with
  | none => rw [hS1] at hS; cases hS
  | some S1 =>
    rw [hS1] at hS
    simp only at hS
    cases hC : closeUnder (fun A => ((optStep (kindStep lx.cert lx.esep) A).bind
        (optStep (lexecRules lx K present sep))).bind (kindsStep lx.cert ks)) 8 S1 with
    | none => rw [hC] at hS; cases hS
    | some C =>
      rw [hC] at hS
      simp only [Option.some.injEq] at hS
      obtain ⟨hsub1, B, hfC, hsubB⟩ := closeUnder_spec _ 8 S1 C hC
      have hCS' : ∀ x ∈ C, x ∈ S' := by
        intro x hx
        rw [← hS]
        split
        · exact hx
        · simp [hx]
      have hsep : ∀ s cs s', runAct cfg wn path src (.node K as) pos sep .sep s = .ok (cs, s') →
          Sound (lexecRules lx K present sep) cs := by
        intro s cs s' hr
        simp only [runAct] at hr
        exact hwn _ _ K as (some sep) _ _ _ hw hr present hpres
      -- an optional single action
      have hoptact : ∀ (b : Bool) (a : JAct) (g : LSet → Option LSet),
          (∀ s cs s', runAct cfg wn path src (.node K as) pos sep a s = .ok (cs, s') → Sound g cs) →
          ∀ s cs s', seqM (runAct cfg wn path src (.node K as) pos sep) (if b then [] else [a]) s = .ok (cs, s') →
          Sound (optStep g) cs := by
        intro b a g hg s cs s' hr
        cases b with
        | true =>
          simp only [↓reduceIte] at hr
          rw [seqM_nil_ok] at hr
          exact sound_opt (Or.inr hr.1)
        | false =>
          simp only [Bool.false_eq_true, ↓reduceIte] at hr
          rw [seqM_cons_ok] at hr
          obtain ⟨c1, s1, c2, h1, h2, rfl⟩ := hr
          rw [seqM_nil_ok] at h2
          rw [h2.1, List.append_nil]
          exact sound_opt (Or.inl (hg s c1 s1 h1))
      have htail : ∀ (rest : List (Step × Val)) (prev : Val), ItemsOK cx ks rest → ∀ s cs s',
          seqM (runAct cfg wn path src (.node K as) pos sep) (elisionActsAux ek prev rest) s = .ok (cs, s') →
          ∀ x ∈ C, ∃ x' ∈ C, lsRun cs x = some x' := by
        intro rest
        induction rest with
        | nil =>
          intro prev _ s cs s' hr x hx
          simp only [elisionActsAux] at hr
          rw [seqM_nil_ok] at hr
          rw [hr.1]; exact ⟨x, hx, rfl⟩
        | cons y ys ih =>
          intro prev hys s cs s' hr x hx
          obtain ⟨stp, nx⟩ := y
          simp only [elisionActsAux] at hr
          obtain ⟨ce, se, c', he, hr', rfl⟩ := seqM_append_ok _ _ _ _ _ _ hr
          obtain ⟨cp, sp, c'', hp1, hp2, rfl⟩ := seqM_append_ok _ _ _ _ _ _ he
          rw [seqM_cons_ok] at hr'
          obtain ⟨ci, si, ct, hi, ht, rfl⟩ := hr'
          have e1 := hoptact (isKind ek prev) .esep _
            (fun s cs s' hh => esep_sound hc hl hwn path src _ pos sep s cs s' hh) s cp sp hp1
          have e2 := hoptact (isKind ek nx) .sep _ hsep sp c'' se hp2
          have e3 := item_sound hc hl hwn path src _ pos sep ks (stp, nx) (hys (stp, nx) (by simp)) se ci si hi
          have e123 := sound_seq (sound_seq e1 e2) e3
          obtain ⟨x1, hx1, r1⟩ := sound_closed (f := fun A => ((optStep (kindStep lx.cert lx.esep) A).bind
            (optStep (lexecRules lx K present sep))).bind (kindsStep lx.cert ks)) hfC hsubB e123 x hx
          obtain ⟨x2, hx2, r2⟩ := ih nx (fun q hq => hys q (by simp [hq])) si ct s' ht x1 hx1
          refine ⟨x2, hx2, ?_⟩
          rw [← List.append_assoc, lsRun_append, r1]
          exact r2
      cases items with
      | nil =>
        simp only [elisionActs] at h
        rw [seqM_nil_ok] at h
        rw [h.1]
        refine ⟨st, ?_, rfl⟩
        rw [← hS]
        cases pres with
        | true => exact absurd rfl (hne rfl)
        | false => simp [hs]
      | cons x rest =>
        obtain ⟨stp, v⟩ := x
        simp only [elisionActs] at h
        rw [seqM_cons_ok] at h
        obtain ⟨c1, s1, c2, h1, h2, rfl⟩ := h
        obtain ⟨x1, hx1, r1⟩ := item_sound hc hl hwn path src _ pos sep ks (stp, v) (hit (stp, v) (by simp)) s c1 s1 h1
          S S1 hS1 st hs
        obtain ⟨x2, hx2, r2⟩ := htail rest v (fun q hq => hit q (by simp [hq])) s1 c2 s' h2 x1 (hsub1 x1 hx1)
        exact ⟨x2, hCS' x2 hx2, by rw [lsRun_append, r1]; exact r2⟩

/-! ### one rule -/

omit hc hl in
theorem getSrc_attr (path : Path) (node : Val) (a : AttrSrc) (s : σ) (v : Val) (s1 : σ) (b : String)
    (hcd : cfg.declare = Option.none)
    (ha : a = .name b ∨ a = .declare b) (hg : getSrc cfg path node a s = .ok (v, s1)) : getattrVal node b = .ok v := by
  rcases ha with rfl | rfl
  · simp only [getSrc] at hg
    obtain ⟨w, h1, h2⟩ := except_map_ok hg
    cases h2; exact h1
  · simp only [getSrc] at hg
    cases hb : getattrVal node b with
    | error e => rw [hb] at hg; cases hg
    | ok target =>
      rw [hb] at hg
      simp only at hg
      split at hg
      · cases hg; rfl
      · obtain ⟨w, _, h2⟩ := except_map_ok hg
        cases h2; rfl

/-- inside `Optional a …` an iteration over `a` has at least one item -/
theorem getIter_nonempty (K : String) (as : List (String × Val)) (hw : wfVal cx (.node K as) = true)
    (present : List String) (hpres : PresentOK present (.node K as)) (path : Path) (a : AttrSrc) (ks : List String)
    (hik : itemKindsL lx K a = some ks) (hp : srcPresent present a = true) (s : σ) (items : List (Step × Val)) (s1 : σ)
    (h : getIter cfg path (.node K as) a s = .ok (items, s1)) : items ≠ [] := by
  have hmain : ∀ b, (a = .name b ∨ a = .declare b) → lx.slot K b = .nodes ks → b ∈ present → items ≠ [] := by
    intro b hab hslot hb
    have hne : a ≠ .iter := by rcases hab with rfl | rfl <;> simp
    unfold getIter at h
    split at h
    · exact absurd rfl hne
    · split at h
      · cases h
      · rename_i v s2 hg
        have hv := getSrc_attr path _ a s v s2 b hc.hooks.declare hab hg
        have hnemp := hpres b hb v hv
        rcases getattr_sharp K as hw b v hv with ⟨_, rfl⟩ | ⟨hso, _⟩
        · simp [isEmptyVal] at hnemp
        · rw [← hl.slot, hslot] at hso
          cases v with
          | list xs =>
            simp only [Except.ok.injEq, Prod.mk.injEq] at h
            rw [← h.1]
            cases xs with
            | nil => simp [isEmptyVal] at hnemp
            | cons x xs => simp [enumFrom]
          | none => simp [slotOK] at hso
          | bool b => simp [slotOK] at hso
          | int i => simp [slotOK] at hso
          | str t => simp [slotOK] at hso
          | node k2 as2 => simp [slotOK] at hso
  cases a with
  | name b =>
    simp only [itemKindsL] at hik
    split at hik
    · rename_i ks' hs
      cases hik
      exact hmain b (Or.inl rfl) hs (by simpa [srcPresent] using hp)
    · cases hik
  | declare b =>
    simp only [itemKindsL] at hik
    split at hik
    · rename_i ks' hs
      cases hik
      exact hmain b (Or.inr rfl) hs (by simpa [srcPresent] using hp)
    · cases hik
  | _ => simp [srcPresent] at hp

theorem ruleStep_sound {wn : WalkFn σ} (hwn : NodeOKL cx lx wn) (K : String) (as : List (String × Val))
    (hw : wfVal cx (.node K as) = true) (present : List String) (hpres : PresentOK present (.node K as))
    (path : Path) (src : Src) (rule : Rule) (s : σ) (cs : List Chunk) (s' : σ)
    (h : ruleStep cfg wn path src (.node K as) rule s = .ok (cs, s')) :
    Sound (lexecRule lx K present rule) cs := by
  cases rule with
  | layout m =>
    intro S S' hS
    simp only [lexecRule, hl.tbl] at hS
    simp only [ruleStep] at h
    cases hm : lookupLayout cfg.layout (LKey.single m) with
    | none =>
      rw [hm] at h hS
      simp only [Except.ok.injEq, Prod.mk.injEq] at h
      rw [← h.1]; exact sound_nil S S' hS
    | some hh =>
      rw [hm] at h hS
      simp only [Except.ok.injEq, Prod.mk.injEq] at h
      rw [← h.1]; exact sound_layout m hh _ S S' hS
  | struct m =>
    intro S S' hS
    simp only [lexecRule] at hS
    simp only [ruleStep, hc.hooks.struct m, Except.ok.injEq, Prod.mk.injEq] at h
    rw [← h.1]; exact sound_nil S S' hS
  | text v pos =>
    intro S S' hS
    simp only [lexecRule] at hS
    simp only [ruleStep] at h
    obtain ⟨c, g1, g2⟩ := except_map_ok h
    simp only [Prod.mk.injEq] at g2
    rw [← g2.1]
    exact token_sound hc pos _ src v c g1 S S' hS
  | attr a pos =>
    simp only [ruleStep] at h
    cases hg : getSrc cfg path (.node K as) a s with
    | error e => rw [hg] at h; cases h
    | ok r =>
      obtain ⟨v, s1⟩ := r
      rw [hg] at h
      intro S S' hS
      simp only [lexecRule] at hS
      exact src_sound hc hl hwn K as hw present hpres path src pos _ a s v s1 hg cs s' h S S' hS
  | commentsAttr a pos =>
    simp only [ruleStep] at h
    cases hg : getSrc cfg path (.node K as) a s with
    | error e => rw [hg] at h; cases h
    | ok r =>
      obtain ⟨v, s1⟩ := r
      rw [hg] at h
      intro S S' hS
      simp only [lexecRule] at hS
      exact src_sound hc hl hwn K as hw present hpres path src pos _ a s v s1 hg cs s' h S S' hS
  | operator a v pos =>
    cases a with
    | some n =>
      simp only [ruleStep] at h
      cases hb : getattrVal (.node K as) n with
      | error e => rw [hb] at h; cases h
      | ok w =>
        rw [hb] at h
        have hg : getSrc cfg path (.node K as) (.name n) s = .ok (w, s) := by simp [getSrc, hb, Except.map]
        intro S S' hS
        simp only [lexecRule] at hS
        exact src_sound hc hl hwn K as hw present hpres path src pos _ (.name n) s w s hg cs s' h S S' hS
    | none =>
      cases v with
      | some t =>
        intro S S' hS
        simp only [lexecRule] at hS
        simp only [ruleStep] at h
        exact strValue_sound hc hl path src _ pos _ t s cs s' h S S' hS
      | none =>
        intro S S' hS
        simp only [lexecRule] at hS
        simp only [ruleStep, isEmptyVal, ↓reduceIte, Except.ok.injEq, Prod.mk.injEq] at h
        rw [← h.1]; exact sound_nil S S' hS
  | optional a body =>
    simp only [ruleStep] at h
    cases hb : getattrVal (.node K as) a with
    | error e => rw [hb] at h; cases h
    | ok w =>
      rw [hb] at h
      intro S S' hS
      simp only [lexecRule] at hS
      by_cases hem : isEmptyVal w = true
      · simp only [hem, ↓reduceIte, Except.ok.injEq, Prod.mk.injEq] at h
        rw [← h.1]
        exact sound_opt (Or.inr rfl) S S' hS
      · simp only [hem, Bool.false_eq_true, ↓reduceIte] at h
        have hp' : PresentOK (a :: present) (.node K as) := by
          intro b hbm v' hv'
          rcases List.mem_cons.mp hbm with rfl | hbm
          · rw [hb] at hv'; cases hv'; simpa using hem
          · exact hpres b hbm v' hv'
        exact sound_opt (Or.inl (hwn _ _ K as (some body) _ _ _ hw h (a :: present) hp')) S S' hS
  | joinAttr a sep pos =>
    simp only [ruleStep] at h
    cases hg : getIter cfg path (.node K as) a s with
    | error e => rw [hg] at h; cases h
    | ok r =>
      obtain ⟨items, s1⟩ := r
      rw [hg] at h
      intro S S' hS
      simp only [lexecRule] at hS
      cases hik : itemKindsL lx K a with
      | none => rw [hik] at hS; cases hS
      | some ks =>
        rw [hik] at hS
        have hit := getIter_typed hc path K as hw a ks (by rw [itemKinds_eq hl]; exact hik) s items s1 hg
        exact join_sound hc hl hwn K as hw present hpres path src pos sep ks (srcPresent present a) items hit
          (fun hp => getIter_nonempty hc hl K as hw present hpres path a ks hik hp s items s1 hg) s1 cs s' h S S' hS
  | elisionToken a v pos =>
    intro S S' hS
    cases a with
    | name b =>
      simp only [lexecRule] at hS
      simp only [ruleStep] at h
      cases hg : getSrc cfg path (.node K as) (.name b) s with
      | error e => rw [hg] at h; cases h
      | ok r =>
        obtain ⟨w, s1⟩ := r
        rw [hg] at h
        have hb := getSrc_attr path _ (.name b) s w s1 b hc.hooks.declare (Or.inl rfl) hg
        cases hs : lx.slot K b with
        | int1 =>
          rw [hs] at hS
          rcases getattr_sharp K as hw b w hb with ⟨rfl, _⟩ | ⟨hso, _⟩
          · obtain ⟨ks, hk⟩ := hl.commentsSlot K
            rw [hl.slot, hk] at hs; cases hs
          · rw [← hl.slot, hs] at hso
            cases w with
            | int n =>
              simp only at h
              obtain ⟨c, g1, g2⟩ := except_map_ok h
              simp only [Prod.mk.injEq] at g2
              rw [← g2.1]
              exact token_sound hc pos _ src _ c g1 S S' hS
            | none => simp [slotOK] at hso
            | bool b => simp [slotOK] at hso
            | str t => simp [slotOK] at hso
            | list xs => simp [slotOK] at hso
            | node k2 as2 => simp [slotOK] at hso
        | tok _ => rw [hs] at hS; cases hS
        | node _ _ => rw [hs] at hS; cases hS
        | nodes _ => rw [hs] at hS; cases hS
        | any => rw [hs] at hS; cases hS
    | _ => simp [lexecRule] at hS
  | elisionJoinAttr a sep pos =>
    simp only [ruleStep] at h
    cases hg : getIter cfg path (.node K as) a s with
    | error e => rw [hg] at h; cases h
    | ok r =>
      obtain ⟨items, s1⟩ := r
      rw [hg] at h
      intro S S' hS
      simp only [lexecRule] at hS
      cases hik : itemKindsL lx K a with
      | none => rw [hik] at hS; cases hS
      | some ks =>
        rw [hik] at hS
        have hit := getIter_typed hc path K as hw a ks (by rw [itemKinds_eq hl]; exact hik) s items s1 hg
        exact ejoin_sound hc hl hwn K as hw present hpres path src pos sep ks (srcPresent present a) _ items hit
          (fun hp => getIter_nonempty hc hl K as hw present hpres path a ks hik hp s items s1 hg) s1 cs s' h S S' hS

/-! ### definitions, nodes, the walk -/

omit hc hl in
theorem lexecRules_cons (lx : LCtx) (K : String) (present : List String) (r : Rule) (rs : List Rule) (S : LSet) :
    lexecRules lx K present (r :: rs) S =
      ((lexecRule lx K present r S).map dedupL).bind (lexecRules lx K present rs) := by
  simp only [lexecRules]
  cases lexecRule lx K present r S <;> simp

omit hc hl in
theorem rules_sound (lx : LCtx) (K : String) (present : List String) (f : Rule → σ → Except Err (List Chunk × σ))
    (hf : ∀ r s cs s', f r s = .ok (cs, s') → Sound (lexecRule lx K present r) cs) :
    ∀ (rs : List Rule) (s : σ) (cs : List Chunk) (s' : σ), seqM f rs s = .ok (cs, s') →
      Sound (lexecRules lx K present rs) cs := by
  intro rs
  induction rs with
  | nil =>
    intro s cs s' h
    rw [seqM_nil_ok] at h
    rw [h.1]
    intro S S' hS
    exact sound_nil S S' (by simpa [lexecRules] using hS)
  | cons r rs ih =>
    intro s cs s' h
    rw [seqM_cons_ok] at h
    obtain ⟨c1, s1, c2, h1, h2, rfl⟩ := h
    intro S S' hS
    rw [lexecRules_cons] at hS
    exact sound_seq (sound_dedup (hf r s c1 s1 h1)) (ih s1 c2 s' h2) S S' hS

omit hc hl in
theorem lookupDef_mem' : ∀ {defs : Defs} {k : String} {d : List Rule}, lookupDef defs k = some d → (k, d) ∈ defs := by
  intro defs
  induction defs with
  | nil => intro k d h; simp [lookupDef] at h
  | cons x rest ih =>
    intro k d h
    obtain ⟨k', d'⟩ := x
    simp only [lookupDef] at h
    split at h
    · rename_i hk
      have : k' = k := by simpa using hk
      subst this; cases h; simp
    · exact List.mem_cons_of_mem _ (ih h)

theorem nodeStep_sound (wr : Path → Src → Val → Rule → σ → Except Err (List Chunk × σ))
    (hwr : ∀ q sr K as r s cs s' present, wfVal cx (.node K as) = true → PresentOK present (.node K as) →
      wr q sr (.node K as) r s = .ok (cs, s') → Sound (lexecRule lx K present r) cs) :
    NodeOKL cx lx (nodeStep cfg wr) := by
  intro path src K as defn s cs s' hw h
  simp only [nodeStep] at h
  cases defn with
  | some d =>
    simp only at h ⊢
    intro present hpres
    exact rules_sound lx K present _ (fun r s cs s' hh => hwr _ _ K as r s cs s' present hw hpres hh) d s cs s' h
  | none =>
    simp only at h ⊢
    cases hd : lookupDef cfg.defs K with
    | none => rw [hd] at h; cases h
    | some rules =>
      rw [hd] at h
      simp only at h
      intro st E hE
      have hcl := hl.closed
      simp only [lcertClosed, Bool.and_eq_true, List.all_eq_true] at hcl
      have hdef := hcl.1 _ (lookupDef_mem' hd)
      simp only [lcertClosedDef] at hdef
      simp only [lcertOf] at hE
      cases hrow : lx.cert.find? (fun p => p.1 == K) with
      | none => rw [hrow] at hE; cases hE
      | some row =>
        rw [hrow] at hE hdef
        simp only [Option.map_eq_some_iff] at hE
        obtain ⟨q, hq, hqE⟩ := hE
        have hqm := List.mem_of_find?_eq_some hq
        have hqst : q.1 = st := by simpa using List.find?_some hq
        simp only [List.all_eq_true] at hdef
        have := hdef q hqm
        cases hex : lexecRules lx K [] rules [q.1] with
        | none => rw [hex] at this; cases this
        | some S' =>
          rw [hex] at this
          have hsound := rules_sound lx K [] _
            (fun r s cs s' hh => hwr _ _ K as r s cs s' [] hw (by intro a ha; cases ha) hh) rules s cs s' h
          obtain ⟨st', h1, h2⟩ := hsound [q.1] S' hex st (by simp [hqst])
          exact ⟨st', by rw [← hqE]; exact subsetL_mem this st' h1, h2⟩

/-- soundness of the line-structure certificate -/
theorem walk_sound : ∀ (fuel : Nat), NodeOKL cx lx (walkNode cfg fuel) ∧
    (∀ q sr K as r s cs s' present, wfVal cx (.node K as) = true → PresentOK present (.node K as) →
      walkRule cfg fuel q sr (.node K as) r s = .ok (cs, s') → Sound (lexecRule lx K present r) cs) := by
  intro fuel
  induction fuel with
  | zero =>
    constructor
    · intro path src K as defn s cs s' _ h; simp [walkNode] at h
    · intro q sr K as r s cs s' present _ _ h; simp [walkRule] at h
  | succ fuel ih =>
    constructor
    · intro path src K as defn s cs s' hw h
      have := nodeStep_sound hc hl (fun p sr n r s => walkRule cfg fuel p sr n r s) ih.2
      exact this path src K as defn s cs s' hw (by simpa [walkNode] using h)
    · intro q sr K as r s cs s' present hw hpres h
      simp only [walkRule] at h
      exact ruleStep_sound hc hl ih.1 K as hw present hpres q sr r s cs s' h

/-- the scan of the chunk stream of a well-typed tree ends in a certified state -/
theorem walkChunks_sound (K : String) (as : List (String × Val)) (hw : wfVal cx (.node K as) = true) (s : σ)
    (cs : List Chunk) (s' : σ) (h : walkChunks cfg (.node K as) s = .ok (cs, s')) (st : LS) (E : LSet)
    (hE : lcertOf lx.cert K st = some E) : ∃ st' ∈ E, lsRun cs st = some st' :=
  (walk_sound hc hl _).1 _ _ K as Option.none _ _ _ hw h st E hE

end

end CalmVerif.Unparse
