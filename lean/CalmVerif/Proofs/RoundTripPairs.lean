/-
From the annotated symbol string of a chunk stream to statements about the chunks themselves: two token fragments that
are adjacent in the stream, or separated by exactly one layout chunk, are related in the follow relation; what the
bit-set checks `directOK` / `sepOK` mean for such pairs; the code of every signature is one of `tokCodes`.
-/
import CalmVerif.Proofs.RoundTripSep
namespace CalmVerif.TokenAdj
open CalmVerif CalmVerif.Unparse

/-! ### factors of a string with `PairsIn` -/

theorem pairsIn_mid (F : Follow) (x y : Sym) (lq : List Sym) : ∀ (lp : List Sym), PairsIn F (lp ++ x :: y :: lq) → InF F x y := by
  intro lp
  induction lp with
  | nil => intro h; exact h.1
  | cons z zs ih =>
    intro h
    cases zs with
    | nil => exact (h : InF F z x ∧ PairsIn F (x :: y :: lq)).2.1
    | cons w ws => exact ih (h : InF F z w ∧ PairsIn F (w :: (ws ++ x :: y :: lq))).2

theorem map_split2 {α β : Type} (e : α → β) (l : List α) (a b : List β) (u v : β) (h : l.map e = a ++ u :: v :: b) :
    ∃ lp x y lq, l = lp ++ x :: y :: lq ∧ e x = u ∧ e y = v := by
  obtain ⟨l1, l2, rfl, _, h2⟩ := List.map_eq_append_iff.mp h
  obtain ⟨x, l3, rfl, hx, h3⟩ := List.map_eq_cons_iff.mp h2
  obtain ⟨y, l4, rfl, hy, _⟩ := List.map_eq_cons_iff.mp h3
  exact ⟨l1, x, y, l4, rfl, hx, hy⟩

theorem map_split3 {α β : Type} (e : α → β) (l : List α) (a b : List β) (u v w : β) (h : l.map e = a ++ u :: v :: w :: b) :
    ∃ lp x y z lq, l = lp ++ x :: y :: z :: lq ∧ e x = u ∧ e y = v ∧ e z = w := by
  obtain ⟨l1, l2, rfl, _, h2⟩ := List.map_eq_append_iff.mp h
  obtain ⟨x, l3, rfl, hx, h3⟩ := List.map_eq_cons_iff.mp h2
  obtain ⟨y, l4, rfl, hy, h4⟩ := List.map_eq_cons_iff.mp h3
  obtain ⟨z, l5, rfl, hz, _⟩ := List.map_eq_cons_iff.mp h4
  exact ⟨l1, x, y, z, l5, rfl, hx, hy, hz⟩

/-- two token fragments adjacent in the chunk stream: their signatures are adjacent in the follow relation -/
theorem ann_adjacent_frags {hd : HData} {F : Follow} {a : Abs} (pre post : List Chunk) (f1 f2 : Frag)
    (h : Ann hd F a (pre ++ .frag f1 :: .frag f2 :: post)) : InF F (Sym.t (sig f1.text)) (Sym.t (sig f2.text)) := by
  obtain ⟨l, he, hl⟩ := h
  have hs : syms hd (pre ++ .frag f1 :: .frag f2 :: post) =
      syms hd pre ++ Sym.t (sig f1.text) :: Sym.t (sig f2.text) :: syms hd post := by simp [syms, symOf]
  rw [hs] at he
  obtain ⟨lp, x, y, lq, rfl, hx, hy⟩ := map_split2 _ _ _ _ _ _ he
  rw [← erase_eq_t hx, ← erase_eq_t hy]
  exact pairsIn_mid F x y lq lp hl.prs

/-- two token fragments with exactly one layout chunk between them: some occurrence `x` of that marker follows the
first signature and is followed by the second -/
theorem ann_separated_frags {hd : HData} {F : Follow} {a : Abs} (pre post : List Chunk) (f1 f2 : Frag) (mk : Marker)
    (hdl : HandlerId) (n : Val) (h : Ann hd F a (pre ++ .frag f1 :: .layout mk hdl n :: .frag f2 :: post)) :
    ∃ x, eraseSym x = Sym.m mk (isKind hd.headerKinds n) ∧ InF F (Sym.t (sig f1.text)) x ∧ InF F x (Sym.t (sig f2.text)) := by
  obtain ⟨l, he, hl⟩ := h
  have hs : syms hd (pre ++ .frag f1 :: .layout mk hdl n :: .frag f2 :: post) =
      syms hd pre ++ Sym.t (sig f1.text) :: Sym.m mk (isKind hd.headerKinds n) :: Sym.t (sig f2.text) :: syms hd post := by
    simp [syms, symOf]
  rw [hs] at he
  obtain ⟨lp, x, y, z, lq, rfl, hx, hy, hz⟩ := map_split3 _ _ _ _ _ _ _ he
  refine ⟨y, hy, ?_, ?_⟩
  · rw [← erase_eq_t hx]; exact pairsIn_mid F x y (z :: lq) lp hl.prs
  · rw [← erase_eq_t hz]
    exact pairsIn_mid F y z lq (lp ++ [x]) (by simpa using hl.prs)

/-! ### the code of a signature is one of `tokCodes` -/

theorem mem_rangeFrom (x : Nat) : ∀ (n i : Nat), x ∈ rangeFrom i n ↔ i ≤ x ∧ x < i + n
  | 0, i => by simp [rangeFrom]
  | n + 1, i => by
    simp only [rangeFrom, List.mem_cons, mem_rangeFrom x n (i + 1)]
    omega

theorem idxIn_lt (s : String) : ∀ (l : List String) (i j : Nat), idxIn s l i = some j → j < i + l.length
  | [], _, _, h => by simp [idxIn] at h
  | t :: ts, i, j, h => by
    simp only [idxIn] at h
    split at h
    · simp only [Option.some.injEq] at h; simp only [List.length_cons]; omega
    · have := idxIn_lt s ts (i + 1) j h
      simp only [List.length_cons]; omega

theorem litTable_short : litTable.length ≤ 200 := by decide +kernel

theorem tcCode_mem_of_not_lit (c : TC) (h : ∀ i, c ≠ .lit i) : tcCode c ∈ tokCodes := by
  have hr : ∀ x, (1 ≤ x ∧ x < 11) ∨ (13 ≤ x ∧ x < 31) → x ∈ tokCodes := by
    intro x hx
    simp only [tokCodes, List.mem_append, mem_rangeFrom]
    omega
  cases c with
  | lit i => exact absurd rfl (h i)
  | word f l => apply hr; simp only [tcCode]; omega
  | decInt => apply hr; simp [tcCode]
  | numDot => apply hr; simp [tcCode]
  | num d l => apply hr; simp only [tcCode]; split <;> omega
  | str => apply hr; simp [tcCode]
  | regex l => apply hr; simp only [tcCode]; omega
  | lineComment => apply hr; simp [tcCode]
  | blockComment => apply hr; simp [tcCode]
  | commas => apply hr; simp [tcCode]
  | empty => apply hr; simp [tcCode]
  | other => apply hr; simp [tcCode]

theorem sigChars_not_lit (cs : List Char) (i : Nat) : sigChars cs ≠ .lit i := by
  unfold sigChars
  split
  · simp
  · simp only
    repeat' split
    all_goals simp

theorem tcCode_sig_mem (s : String) : tcCode (sig s) ∈ tokCodes := by
  unfold sig
  cases h : litIdx s with
  | some i =>
    have hlt := idxIn_lt s litTable 0 i h
    have hs := litTable_short
    simp only [tokCodes, List.mem_append, mem_rangeFrom, tcCode]
    right
    omega
  | none => exact tcCode_mem_of_not_lit _ (fun i => sigChars_not_lit _ i)

/-- the representative signature the checks are evaluated on (it differs from `c` only in out-of-range payloads) -/
def canon (c : TC) : TC := tcOfCode (tcCode c)

/-! ### what `sepOK` means -/

theorem sepGroupsOK_spec (F : List Rect) (markers toks : Nat) : ∀ (g : List (Nat × Nat)), sepGroupsOK F markers toks g = true →
    ∀ m row, (m, row) ∈ g → stepMask (stepMask m markers F) toks F &&& row = 0 := by
  intro g
  induction g with
  | nil => intro _ m row h; simp at h
  | cons e rest ih =>
    intro h m row hm
    obtain ⟨m0, r0⟩ := e
    simp only [sepGroupsOK, Bool.and_eq_true, beq_iff_eq] at h
    rcases List.mem_cons.mp hm with heq | hm
    · simp only [Prod.mk.injEq] at heq
      obtain ⟨rfl, rfl⟩ := heq
      exact h.1
    · exact ih h.2 m row hm

/-- `sepOK F markers ok`: for all token codes `a`, `b` and every symbol `x` of `markers`: if `a` may be directly followed
by `x` and `x` by `b`, then `ok a b` -/
theorem sepOK_spec (F : List Rect) (markers : Nat) (ok : TC → TC → Bool) (h : sepOK F markers ok = true)
    (a b : Nat) (ha : a ∈ tokCodes) (hb : b ∈ tokCodes) (x : Sym) (hx : markers.testBit x = true)
    (h1 : InF F (2 * a) x) (h2 : InF F x (2 * b)) : ok (tcOfCode a) (tcOfCode b) = true := by
  cases hok : ok (tcOfCode a) (tcOfCode b) with
  | true => rfl
  | false =>
    exfalso
    unfold sepOK at h
    split at h
    · rename_i h0
      rw [beq_iff_eq] at h0
      rw [h0] at hx
      simp at hx
    · obtain ⟨m, hm, hma⟩ := groupRows_spec ok a tokCodes ha
      have hz := sepGroupsOK_spec F markers _ _ h m _ hm
      have s1 := stepMask_spec m markers (2 * a) x hma hx F h1
      have s2 := stepMask_spec _ (tokMask tokCodes) x (2 * b) s1 (tokMask_spec b tokCodes hb) F h2
      have s3 := badRow_spec ok (tcOfCode a) b tokCodes hb hok
      have : (stepMask (stepMask m markers F) (tokMask tokCodes) F &&& badRow ok (tcOfCode a) tokCodes).testBit (2 * b) = true := by
        rw [Nat.testBit_and, s2, s3]; rfl
      rw [hz] at this
      simp at this

end CalmVerif.TokenAdj
