/-
The condition under which a renaming `ρ` of identifier occurrences commutes with ES5 binding resolution
(`Spec.Scope`), relative to a per-environment-record renaming `τ` (definitions only, no Mathlib).

  τ kind scope n     the new spelling of the name `n` of the environment record (kind, scope) — one function per
                     record, so all declarations and all resolved references of one binding are renamed alike
  condVal τ ρ …      a traversal with the skeleton of `Spec.Scope.resolveVal` that checks, site by site:
                       * every declaration site of a record is renamed by that record's `τ` (so hoisting the renamed
                         code yields the image of the hoisted names);
                       * at every reference, looking the NEW name up in the image of the environment finds the image of
                         the binder the OLD name had (no capture, no loss);
                       * likewise for labels.
  tauFin / rhoFin    the two renamings the obfuscator model induces
Proofs/ObfBindSim.lean proves: `condVal` ⇒ resolution of the renamed tree = image of the resolution of the original.
-/
import CalmVerif.Proofs.ObfRename
namespace CalmVerif.Obf
open CalmVerif CalmVerif.Unparse
open CalmVerif.Spec.Scope (BKind Binder Layer Ctx Occ Role identName isFunctionKind isVarDeclKind
  lookupEnv lookupLabel roleOf enter isPresent hoistVal)

abbrev SPath := Spec.Scope.Path
abbrev Tau := BKind → SPath → String → String

/-- free names, the implicit `arguments` and undefined labels are never renamed -/
def tauN (τ : Tau) (k : BKind) (s : SPath) (n : String) : String :=
  match k with
  | .free => n
  | .args => n
  | .nolabel => n
  | _ => τ k s n

def mapLayer (τ : Tau) (L : Layer) : Layer := { L with names := L.names.map (tauN τ L.kind L.scope) }
def mapEnv (τ : Tau) (env : List Layer) : List Layer := env.map (mapLayer τ)
def mapLabels (τ : Tau) (ls : List (String × SPath)) : List (String × SPath) :=
  ls.map (fun q => (tauN τ .label q.2 q.1, q.2))
def mapCtx (τ : Tau) (ctx : Ctx) : Ctx := { ctx with env := mapEnv τ ctx.env, labels := mapLabels τ ctx.labels }
def mapBinder (τ : Tau) (b : Binder) : Binder := { b with name := tauN τ b.kind b.scope b.name }
def mapOcc (τ : Tau) (ρ : Rho) (o : Occ) : Occ :=
  { path := o.path, name := ρ o.path.reverse o.name, binders := o.binders.map (mapBinder τ) }

/-- the Identifier sites directly in an attribute value (an Identifier or a list of them): model path and name -/
def identsOf (p : SPath) (attr : String) (v : Val) : List (Path × String) :=
  match v with
  | .list xs => (xs.zipIdx).filterMap (fun (x, i) => (identName x).map (fun n => ((attr, i) :: p.reverse, n)))
  | x => ((identName x).map (fun n => ((attr, 0) :: p.reverse, n))).toList

/-- every declaration site in `v` is renamed by the record (k, s) -/
def declCond (τ : Tau) (ρ : Rho) (k : BKind) (s : SPath) (p : SPath) (attr : String) (v : Val) : Bool :=
  (identsOf p attr v).all (fun q => ρ q.1 q.2 == tauN τ k s q.2)

def identSiteCond (τ : Tau) (ρ : Rho) (k : BKind) (s : SPath) (path : Path) (as : List (String × Val)) : Bool :=
  match Spec.Scope.lookupAttr as "identifier" with
  | some v => match identName v with
    | some n => ρ (("identifier", 0) :: path) n == tauN τ k s n
    | none => true
  | none => true

mutual
  /-- every `var` / function declaration that `hoistVal` collects from `v` (at model path `path`) is renamed by the
  variable environment (vk, vs) -/
  def hoistCond (τ : Tau) (ρ : Rho) (vk : BKind) (vs : SPath) (path : Path) : Val → Bool
    | .node k as =>
      if k == "FuncDecl" then identSiteCond τ ρ vk vs path as
      else if isFunctionKind k then true
      else (if isVarDeclKind k then identSiteCond τ ρ vk vs path as else true) && hoistCondAttrs τ ρ vk vs path as
    | .list xs => hoistCondList τ ρ vk vs path "" 0 xs
    | _ => true
  def hoistCondList (τ : Tau) (ρ : Rho) (vk : BKind) (vs : SPath) (path : Path) (a : String) : Nat → List Val → Bool
    | _, [] => true
    | i, v :: rest => hoistCond τ ρ vk vs ((a, i) :: path) v && hoistCondList τ ρ vk vs path a (i + 1) rest
  def hoistCondAttrs (τ : Tau) (ρ : Rho) (vk : BKind) (vs : SPath) (path : Path) : List (String × Val) → Bool
    | [] => true
    | (a, v) :: rest =>
      (if Val.isMeta a then true
       else match v with
         | .list xs => hoistCondList τ ρ vk vs path a 0 xs
         | x => hoistCond τ ρ vk vs ((a, 0) :: path) x) && hoistCondAttrs τ ρ vk vs path rest
end

/-- hoisting condition for the value of attribute `a` of the node at model path `path` -/
def hoistCondAttr (τ : Tau) (ρ : Rho) (vk : BKind) (vs : SPath) (path : Path) (a : String) : Option Val → Bool
  | some (.list xs) => hoistCondList τ ρ vk vs path a 0 xs
  | some x => hoistCond τ ρ vk vs ((a, 0) :: path) x
  | none => true

/-- what `enter` needs: the names the node contributes to the environment are renamed by the record they go to -/
def enterCond (τ : Tau) (ρ : Rho) (p : SPath) (kind : String) (as : List (String × Val)) : Bool :=
  if isFunctionKind kind then
    hoistCondAttr τ ρ .var p p.reverse "elements" (Spec.Scope.lookupAttr as "elements")
    && (match (if kind == "SetPropAssign" then Spec.Scope.lookupAttr as "parameter" else Spec.Scope.lookupAttr as "parameters") with
        | some v => declCond τ ρ .var p p (if kind == "SetPropAssign" then "parameter" else "parameters") v
        | none => true)
    && (if kind == "FuncExpr" then identSiteCond τ ρ .self p p.reverse as else true)
  else if kind == "Catch" then identSiteCond τ ρ .catch p p.reverse as
  else if kind == "Label" then identSiteCond τ ρ .label p p.reverse as
  else true

def refCond (τ : Tau) (env : List Layer) (n n' : String) : Bool :=
  decide (lookupEnv (mapEnv τ env) n' = mapBinder τ (lookupEnv env n))

mutual
  def condVal (τ : Tau) (ρ : Rho) (ctx : Ctx) (p : SPath) : Val → Bool
    | .node k as =>
      if k == "Identifier" then
        match identName (.node k as) with
        | some n => refCond τ ctx.env n (ρ p.reverse n)
        | none => true
      else
        let ctx0 := { ctx with forInItem := false }
        enterCond τ ρ p k as &&
          condAttrs τ ρ ctx0 (enter ctx0 p k as) p k (isPresent (Spec.Scope.lookupAttr as "initializer")) ctx.forInItem as
    | .list xs => condList τ ρ ctx p "" 0 xs
    | _ => true
  def condList (τ : Tau) (ρ : Rho) (ctx : Ctx) (p : SPath) (attr : String) : Nat → List Val → Bool
    | _, [] => true
    | i, v :: vs => condVal τ ρ ctx (p ++ [(attr, i)]) v && condList τ ρ ctx p attr (i + 1) vs
  def condAttrs (τ : Tau) (ρ : Rho) (outer inner : Ctx) (p : SPath) (kind : String) (hasInit forIn : Bool) :
      List (String × Val) → Bool
    | [] => true
    | (a, v) :: rest =>
      (match roleOf kind a hasInit forIn with
        | .skip => true
        | .funcDeclName => declCond τ ρ outer.varKind outer.varScope p a v
        | .selfName => declCond τ ρ .self p p a v
        | .params => declCond τ ρ .var p p a v
        | .catchParam => declCond τ ρ .catch p p a v
        | .varName assigned =>
          (identsOf p a v).all (fun q =>
            ρ q.1 q.2 == tauN τ outer.varKind outer.varScope q.2 &&
              (!assigned || refCond τ outer.env q.2 (ρ q.1 q.2)))
        | .labelDecl => declCond τ ρ .label p p a v
        | .labelRef =>
          (identsOf p a v).all (fun q =>
            decide (lookupLabel (mapLabels τ outer.labels) (ρ q.1 q.2) = mapBinder τ (lookupLabel outer.labels q.2)))
        | .forInItem =>
          (match v with
          | .list xs => condList τ ρ outer p a 0 xs
          | x => condVal τ ρ { outer with forInItem := true } (p ++ [(a, 0)]) x)
        | .inner =>
          (match v with
          | .list xs => condList τ ρ inner p a 0 xs
          | x => condVal τ ρ inner (p ++ [(a, 0)]) x)
        | .outer =>
          (match v with
          | .list xs => condList τ ρ outer p a 0 xs
          | x => condVal τ ρ outer (p ++ [(a, 0)]) x))
      && condAttrs τ ρ outer inner p kind hasInit forIn rest
end

/-- the whole program -/
def condProgram (τ : Tau) (ρ : Rho) (program : Val) : Bool :=
  hoistCond τ ρ .global [] [] program && condVal τ ρ (Spec.Scope.globalCtx program) [] program

/-! ### the renamings of the obfuscator model -/

mutual
  def scopeIdOfNode (node : Path) : RTree → Option Nat
    | .mk id nd _ _ _ _ children => if nd == some node then some id else scopeIdOfNodeList node children
  def scopeIdOfNodeList (node : Path) : List RTree → Option Nat
    | [] => none
    | c :: cs => match scopeIdOfNode node c with
      | some i => some i
      | none => scopeIdOfNodeList node cs
end

def applyTable (rm : List (String × String)) (n : String) : String :=
  match rm.lookup n with
  | some r => if r == "" then n else r
  | none => n

/-- tables of the scope bound to the node at (spec) path `s`: own table first, then the ancestors' -/
def tablesOfNode (fin : Final) (s : SPath) : List TableEntry :=
  match scopeIdOfNode s.reverse fin.tree with
  | some i => (lookupChain fin.chains i).getD []
  | none => []

def rootTable (fin : Final) : List (String × String) :=
  match fin.tree with
  | .mk _ _ _ _ _ rm _ => rm

def tauFin (fin : Final) : Tau := fun k s n =>
  match k with
  | .var => applyTable ((tablesOfNode fin s).headD (true, [])).2 n
  | .catch => applyTable ((tablesOfNode fin s).headD (true, [])).2 n
  | .global => applyTable (rootTable fin) n
  -- the own name of a function expression is declared in the scope enclosing the function's scope
  | .self => resolveTables ((tablesOfNode fin s).tail) n
  -- a label is renamed like a variable reference at its definition
  | .label => rhoFin fin (("identifier", 0) :: s.reverse) n
  | _ => n

/-- the condition for the obfuscator's renaming of a program -/
def condOf (fl : Flags) (program : Val) : Option Bool :=
  match prewalkHook tablesGen fl program with
  | .ok fin => some (condProgram (tauFin fin) (rhoFin fin) program)
  | .error _ => none

end CalmVerif.Obf

namespace CalmVerif.Obf
open CalmVerif CalmVerif.Unparse

def allBinders (a : List Spec.Scope.Occ) : List Spec.Scope.Binder := a.flatMap (·.binders)

/-- decidable: `τ` keeps the names that must be kept (free names, `arguments`, undefined labels, and — unless
obfuscate_globals — top-level names) and is one-to-one per environment record on the binders of the program -/
def isoCond (τ : Tau) (og : Bool) (a : List Spec.Scope.Occ) : Bool :=
  (allBinders a).all (fun b => !keepsName og b.kind || tauN τ b.kind b.scope b.name == b.name)
  && functional ((allBinders a).map (fun b => (mapBinder τ b, b)))

/-- the decidable agreement of the obfuscator's renaming with ES5 scoping on a program: every declaration and
reference site is renamed by its environment record's table without capture (`condProgram`), and the tables are
one-to-one / the identity where they must be (`isoCond`) -/
def alignedOf (fl : Flags) (program : Val) : Option Bool :=
  match prewalkHook tablesGen fl program with
  | .ok fin =>
    some (condProgram (tauFin fin) (rhoFin fin) program
      && isoCond (tauFin fin) fl.obfuscateGlobals (Spec.Scope.resolveProgram program))
  | .error _ => none

end CalmVerif.Obf
