/-
Positions do not influence the printed text, part 3: `process_layouts` and the top-level loop.
Two chunk streams with the same projection (`proj`: fragment texts; marker, handler and node kind of layout
chunks) are flushed to fragment lists with the same texts and the same final Indentator level.
-/
import CalmVerif.Proofs.RoundTripWalk
namespace CalmVerif.Unparse
open CalmVerif

variable {σ : Type}

def projL (c : LChunk) : Marker × HandlerId × Option String := (c.m, c.handler, kindOpt c.node)
def projE (x : LEntry) : LKey × HandlerId × Option String := (x.key, x.handler, kindOpt x.node)

def texts (fs : List Frag) : List String := fs.map (·.text)

theorem isKind_kindOpt (ks : List String) {n n' : Val} (h : kindOpt n = kindOpt n') : isKind ks n = isKind ks n' := by
  cases n <;> cases n' <;> simp [kindOpt] at h <;> simp [isKind, h]

theorem keys_of_projE {st st' : List LEntry} (h : st.map projE = st'.map projE) :
    st.map (·.key) = st'.map (·.key) := by
  have := congrArg (List.map (fun x : LKey × HandlerId × Option String => x.1)) h
  simp only [List.map_map] at this
  exact this

theorem findNorm_keys (tbl : List (LKey × Option HandlerId)) : ∀ (st st' : List LEntry) (idx : Nat),
    st.map (·.key) = st'.map (·.key) → findNorm tbl idx st = findNorm tbl idx st' := by
  intro st
  induction st with
  | nil =>
    intro st' idx h
    cases st' with
    | nil => rfl
    | cons y ys => simp at h
  | cons x xs ih =>
    intro st' idx h
    cases st' with
    | nil => simp at h
    | cons y ys =>
      simp only [List.map_cons, List.cons.injEq] at h
      simp only [findNorm, List.map_cons, h.1, h.2, ih ys (idx + 1) h.2]

theorem getElem_kind {all all' : List LChunk} (h : all.map projL = all'.map projL) (idx : Nat) (c c' : LChunk)
    (hc : kindOpt c.node = kindOpt c'.node) :
    kindOpt (match all[idx]? with | some x => x.node | Option.none => c.node) =
    kindOpt (match all'[idx]? with | some x => x.node | Option.none => c'.node) := by
  have h2 := congrArg (fun l => l[idx]?) h
  simp only [List.getElem?_map] at h2
  cases h1 : all[idx]? with
  | none =>
    rw [h1] at h2
    cases h3 : all'[idx]? with
    | none => simpa using hc
    | some y => rw [h3] at h2; simp at h2
  | some x =>
    rw [h1] at h2
    cases h3 : all'[idx]? with
    | none => rw [h3] at h2; simp at h2
    | some y =>
      rw [h3] at h2
      simp only [Option.map, Option.some.injEq, projL, Prod.mk.injEq] at h2
      simpa using h2.2.2

theorem normalizeAux_proj (tbl : List (LKey × Option HandlerId)) {all all' : List LChunk}
    (hall : all.map projL = all'.map projL) :
    ∀ (cs cs' : List LChunk) (st st' : List LEntry), cs.map projL = cs'.map projL → st.map projE = st'.map projE →
      (normalizeAux tbl all cs st).map projE = (normalizeAux tbl all' cs' st').map projE := by
  intro cs
  induction cs with
  | nil =>
    intro cs' st st' h hs
    cases cs' with
    | nil => simpa [normalizeAux] using hs
    | cons y ys => simp at h
  | cons c cs ih =>
    intro cs' st st' h hs
    cases cs' with
    | nil => simp at h
    | cons c' cs' =>
      simp only [List.map_cons, List.cons.injEq, projL, Prod.mk.injEq] at h
      obtain ⟨⟨hm, hh, hk⟩, hrest⟩ := h
      have hs1 : (st ++ [({ key := LKey.single c.m, handler := c.handler, node := c.node } : LEntry)]).map projE =
          (st' ++ [({ key := LKey.single c'.m, handler := c'.handler, node := c'.node } : LEntry)]).map projE := by
        simp only [List.map_append, hs, List.map_cons, List.map_nil, projE, hm, hh, hk]
      simp only [normalizeAux]
      rw [findNorm_keys tbl _ _ 0 (keys_of_projE hs1)]
      cases hf : findNorm tbl 0 (st' ++ [({ key := LKey.single c'.m, handler := c'.handler, node := c'.node } : LEntry)]) with
      | none => exact ih cs' _ _ hrest hs1
      | some r =>
        obtain ⟨idx, key, hd⟩ := r
        simp only
        apply ih cs' _ _ hrest
        simp only [List.map_append, List.map_take, hs1, List.map_cons, List.map_nil, projE, List.append_cancel_left_eq,
          List.cons.injEq, Prod.mk.injEq, true_and, and_true]
        exact getElem_kind hall idx c c' hk

theorem normalize_proj (tbl : List (LKey × Option HandlerId)) {buf buf' : List LChunk}
    (h : buf.map projL = buf'.map projL) : (normalize tbl buf).map projE = (normalize tbl buf').map projE :=
  normalizeAux_proj tbl h buf buf' [] [] h rfl

theorem runHandler_proj (hd : HData) (is : Option String) (h : HandlerId) {n n' : Val} (hk : kindOpt n = kindOpt n')
    (b a p : Option String) (lvl : Int) :
    texts (runHandler hd is h n b a p lvl).1 = texts (runHandler hd is h n' b a p lvl).1 ∧
    (runHandler hd is h n b a p lvl).2 = (runHandler hd is h n' b a p lvl).2 := by
  cases h <;> simp only [runHandler, texts, fragAt, isKind_kindOpt hd.headerKinds hk] <;> first
    | exact ⟨rfl, rfl⟩
    | (split <;> simp)
    | simp

theorem lastText_texts {fs fs' : List Frag} (h : texts fs = texts fs') (prev : Option String) :
    lastText fs prev = lastText fs' prev := by
  have h2 := congrArg List.getLast? h
  simp only [texts, List.getLast?_map] at h2
  unfold lastText
  cases h1 : fs.getLast? with
  | none =>
    rw [h1] at h2
    cases h3 : fs'.getLast? with
    | none => rfl
    | some y => rw [h3] at h2; simp at h2
  | some x =>
    rw [h1] at h2
    cases h3 : fs'.getLast? with
    | none => rw [h3] at h2; simp at h2
    | some y => rw [h3] at h2; simpa using h2

theorem runEntries_proj (hd : HData) (is : Option String) (b a : Option String) :
    ∀ (es es' : List LEntry), es.map projE = es'.map projE → ∀ (prev : Option String) (lvl : Int),
      texts (runEntries hd is b a es prev lvl).1 = texts (runEntries hd is b a es' prev lvl).1 ∧
      (runEntries hd is b a es prev lvl).2 = (runEntries hd is b a es' prev lvl).2 := by
  intro es
  induction es with
  | nil =>
    intro es' h prev lvl
    cases es' with
    | nil => exact ⟨rfl, rfl⟩
    | cons y ys => simp at h
  | cons x xs ih =>
    intro es' h prev lvl
    cases es' with
    | nil => simp at h
    | cons y ys =>
      simp only [List.map_cons, List.cons.injEq, projE, Prod.mk.injEq] at h
      obtain ⟨⟨_, hh, hk⟩, hrest⟩ := h
      simp only [runEntries]
      have r := runHandler_proj hd is x.handler hk b a prev lvl
      rw [← hh]
      have l := lastText_texts r.1 prev
      rw [← r.2, ← l]
      have r2 := ih ys hrest (lastText (runHandler hd is x.handler x.node b a prev lvl).1 prev)
        (runHandler hd is x.handler x.node b a prev lvl).2
      constructor
      · simp only [texts, List.map_append] at r r2 ⊢
        rw [r.1, r2.1]
      · exact r2.2

theorem processLayouts_proj (cfg : Cfg σ) {buf buf' : List LChunk} (h : buf.map projL = buf'.map projL)
    (b a : Option String) (lvl : Int) :
    texts (processLayouts cfg buf b a lvl).1 = texts (processLayouts cfg buf' b a lvl).1 ∧
    (processLayouts cfg buf b a lvl).2 = (processLayouts cfg buf' b a lvl).2 :=
  runEntries_proj cfg.hd cfg.indentStr b a _ _ (normalize_proj cfg.layout h) Option.none lvl

theorem flushAll_proj (cfg : Cfg σ) : ∀ (cs cs' : List Chunk), cs.map proj = cs'.map proj →
    ∀ (last : Option String) (buf buf' : List LChunk), buf.map projL = buf'.map projL → ∀ (lvl : Int),
      texts (flushAll cfg cs last buf lvl).1 = texts (flushAll cfg cs' last buf' lvl).1 ∧
      (flushAll cfg cs last buf lvl).2 = (flushAll cfg cs' last buf' lvl).2 := by
  intro cs
  induction cs with
  | nil =>
    intro cs' h last buf buf' hb lvl
    cases cs' with
    | nil => exact processLayouts_proj cfg hb last Option.none lvl
    | cons y ys => simp at h
  | cons c cs ih =>
    intro cs' h last buf buf' hb lvl
    cases cs' with
    | nil => simp at h
    | cons c' cs' =>
      simp only [List.map_cons, List.cons.injEq] at h
      obtain ⟨hc, hrest⟩ := h
      cases c with
      | layout m hd n =>
        cases c' with
        | frag f' => simp [proj] at hc
        | layout m' hd' n' =>
          simp only [proj, Sum.inr.injEq, Prod.mk.injEq] at hc
          simp only [flushAll]
          apply ih cs' hrest
          simp only [List.map_append, hb, List.map_cons, List.map_nil, projL, hc.1, hc.2.1, hc.2.2]
      | frag f =>
        cases c' with
        | layout m' hd' n' => simp [proj] at hc
        | frag f' =>
          simp only [proj, Sum.inl.injEq] at hc
          simp only [flushAll]
          have r := processLayouts_proj cfg hb last (some f.text) lvl
          rw [← hc, ← r.2]
          have r2 := ih cs' hrest (some f.text) [] [] rfl (processLayouts cfg buf last (some f.text) lvl).2
          constructor
          · simp only [texts, List.map_append, List.map_cons] at r r2 ⊢
            rw [r.1, r2.1, hc]
          · exact r2.2

end CalmVerif.Unparse
