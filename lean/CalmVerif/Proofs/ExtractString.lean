/-
C19, strings: Python's literal evaluation of a JSON string spelling equals the JSON value, unless the
spelling contains the escape `\/` (KF-19a) or an escaped surrogate pair (KF-19b).
-/
import CalmVerif.Model.Extract
namespace CalmVerif.Proofs.Extract
open CalmVerif CalmVerif.Spec.Json CalmVerif.Model.Extract

theorem pyHexVal_eq : pyHexVal = hexVal := by
  funext c; rfl

theorem hexVal_ne_backslash {c : Char} {n : Nat} (h : hexVal c = some n) : (c == '\\') = false := by
  cases hc : (c == '\\')
  · rfl
  · have : c = '\\' := by simpa using hc
    subst this
    simp [hexVal] at h

theorem hex4_some {x y z w : Char} {n : Nat} (h : hex4 x y z w = some n) :
    ∃ a b c d, hexVal x = some a ∧ hexVal y = some b ∧ hexVal z = some c ∧ hexVal w = some d ∧
      n = ((a * 16 + b) * 16 + c) * 16 + d := by
  unfold hex4 at h
  split at h
  · rename_i a b c d h1 h2 h3 h4
    exact ⟨a, b, c, d, h1, h2, h3, h4, by simpa using h.symm⟩
  · simp at h

theorem solidus_skip {c : Char} (h : (c == '\\') = false) (rest : List Char) :
    hasSolidusEscape (c :: rest) = hasSolidusEscape rest := by
  rw [hasSolidusEscape.eq_def]; simp [h]

theorem cons_some {c : CodePoint} {o : Option (List CodePoint)} {us : List CodePoint}
    (h : cons c o = some us) : ∃ us', o = some us' ∧ us = c :: us' := by
  cases o with
  | none => simp [cons] at h
  | some l => exact ⟨l, rfl, by simpa [cons] using h.symm⟩

/-- the scan of Python and the code units of JSON agree on bodies without `\/` -/
theorem pyScan_codeUnits : ∀ (s : List Char) (us : List CodePoint),
    codeUnits s = some us → hasSolidusEscape s = false → pyScan '"' (s ++ ['"']) = .ok us := by
  intro s
  induction s using codeUnits.induct with
  | case1 =>
    intro us h _
    simp [codeUnits] at h
    subst h
    simp [pyScan]
  | case2 c hc =>
    intro us h _
    simp [codeUnits, hc] at h
  | case3 c hc e he x y z w rest2 n hn ih =>
    intro us h hs
    have hc' : c = '\\' := by simpa using hc
    have he' : e = 'u' := by simpa using he
    subst hc' he'
    simp [codeUnits, hn] at h
    obtain ⟨us', h1, h2⟩ := cons_some h
    obtain ⟨a, b, c2, d, ha, hb, hcc, hd, hnn⟩ := hex4_some hn
    have hs' : hasSolidusEscape rest2 = false := by
      have : hasSolidusEscape ('\\' :: 'u' :: x :: y :: z :: w :: rest2) = hasSolidusEscape (x :: y :: z :: w :: rest2) := by
        simp [hasSolidusEscape]
      rw [this, solidus_skip (hexVal_ne_backslash ha), solidus_skip (hexVal_ne_backslash hb),
        solidus_skip (hexVal_ne_backslash hcc), solidus_skip (hexVal_ne_backslash hd)] at hs
      exact hs
    have := ih us' h1 hs'
    subst h2
    simp [pyScan, pyHexVal_eq, ha, hb, hcc, hd, this, consR, hnn]
  | case4 c hc e he x y z w rest2 hn =>
    intro us h _
    have he' : e = 'u' := by simpa using he
    subst he'
    simp [codeUnits, hc, hn] at h
  | case5 c hc e rest1 he hshort =>
    intro us h _
    have he' : e = 'u' := by simpa using he
    subst he'
    have : codeUnits (c :: 'u' :: rest1) = none := by
      unfold codeUnits
      simp [hc]
    rw [this] at h; cases h
  | case6 c hc e rest1 he v hv ih =>
    intro us h hs
    have hc' : c = '\\' := by simpa using hc
    subst hc'
    unfold codeUnits at h
    simp [he, hv] at h
    obtain ⟨us', h1, h2⟩ := cons_some h
    rw [hasSolidusEscape.eq_def] at hs
    simp at hs
    have ih' := ih us' h1 hs.2
    have hsl := hs.1
    subst h2
    unfold simpleEscape at hv
    repeat' split at hv
    all_goals first
      | (rename_i hh; have hh' := eq_of_beq hh; subst hh'; cases hv
         first
           | (exfalso; exact hsl rfl)
           | (rw [pyScan.eq_def]; simp [pySimple, isOct, consR, ih']))
      | cases hv
  | case7 c hc e rest1 he hv =>
    intro us h _
    unfold codeUnits at h
    simp [hc, he, hv] at h
  | case8 c rest hc hq =>
    intro us h _
    unfold codeUnits at h
    simp [hc, hq] at h
  | case9 c rest hc hq ih =>
    intro us h hs
    unfold codeUnits at h
    simp [hc, hq] at h
    obtain ⟨us', h1, h2⟩ := cons_some h
    have hc2 : (c == '\\') = false := by simpa using hc
    rw [solidus_skip hc2] at hs
    have ih' := ih us' h1 hs
    subst h2
    simp at hq
    have hq1 : (c == '"') = false := by simpa using hq.1
    have hn : (c == '\n') = false := by
      cases hh : (c == '\n')
      · rfl
      · have := eq_of_beq hh; subst this; simp at hq
    have hr : (c == '\r') = false := by
      cases hh : (c == '\r')
      · rfl
      · have := eq_of_beq hh; subst this; simp at hq
    have h0 : (c.toNat == 0) = false := by
      have := hq.2
      cases hh : (c.toNat == 0)
      · rfl
      · have := eq_of_beq hh; omega
    rw [pyScan.eq_def]; simp [hq1, hc2, hn, hr, h0, consR, ih']

theorem join_noPair : ∀ us : List CodePoint, hasAdjPair us = false → joinSurrogates us = us := by
  intro us
  induction us using joinSurrogates.induct with
  | case1 => intro _; rfl
  | case2 a => intro _; rfl
  | case3 hi lo rest hp ih =>
    intro h
    rw [hasAdjPair.eq_def] at h
    simp [hp] at h
  | case4 hi lo rest hp ih =>
    intro h
    rw [hasAdjPair.eq_def] at h
    simp at h
    rw [joinSurrogates.eq_def]
    simp [hp, ih h.2]

theorem codeUnits_head {c : Char} {rest : List Char} {us : List CodePoint}
    (h : codeUnits (c :: rest) = some us) : (c == '"') = false := by
  cases hq : (c == '"')
  · rfl
  · have := eq_of_beq hq
    subst this
    unfold codeUnits at h
    simp at h

/-- string literals: `"` + body + `"` evaluated by Python = JSON value of the body -/
theorem string_agree (s : List Char) (v : List CodePoint)
    (hj : stringValue s = some v) (hx : excludedBody s = false) :
    pyLiteralEval ('"' :: (s ++ ['"'])) = .ok (.str v) := by
  unfold stringValue at hj
  cases hu : codeUnits s with
  | none => simp [hu] at hj
  | some us =>
    simp [hu] at hj
    unfold excludedBody at hx
    simp at hx
    have hp : hasAdjPair us = false := by
      have := hx.2
      unfold hasSurrogatePair at this
      simpa [hu] using this
    rw [join_noPair us hp] at hj
    subst hj
    have hscan := pyScan_codeUnits s us hu hx.1
    unfold pyLiteralEval
    simp
    cases s with
    | nil =>
      simp only [List.nil_append] at hscan
      simp [hscan]
    | cons c rest =>
      have hc : c ≠ '"' := by simpa using codeUnits_head hu
      cases rest with
      | nil =>
        simp only [List.cons_append, List.nil_append] at hscan
        simp [hscan, hc]
      | cons d rest2 =>
        simp only [List.cons_append] at hscan
        simp [hscan, hc]

end CalmVerif.Proofs.Extract
