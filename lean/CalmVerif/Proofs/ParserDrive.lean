/-
The token source of the parser model (`Model.Parser.source`: `token()` and `p_error` with `auto_semi` and the
guarded `backtracked_token`) keeps the lexer in `Reachable` states and hands out only `Good` tokens.
-/
import CalmVerif.Model.Parser
import CalmVerif.Proofs.LexerReach

namespace CalmVerif.Proofs.ParserDrive
open CalmVerif.Model.TokenRegex CalmVerif.Model.PlyLex CalmVerif.Model.Lexer CalmVerif.Model
open CalmVerif.Proofs.LexerLoop CalmVerif.Proofs.LexerLines CalmVerif.Proofs.LexerTables
open CalmVerif.Proofs.LexerDrive
open CalmVerif.Spec.LinesRef CalmVerif.Gen

/-- D: `p_error` back-tracks only when the current token is a DIV, whose text is `/` -/
theorem backtrack_cur_is_div : LexData.backtrackCur = ["DIV"] ∧ ("DIV", "/") ∈ LexData.punctSpelling := by decide

/-- rewinding by one character over the `/` of the current DIV token (or past the end of the input) keeps the line
    table consistent -/
theorem pinv_rewind {text : List Char} {st : LexState} (hr : Reachable text st) (tok : Option Token)
    (cur : Token) (hcur : (st.curToken <|> tok) = some cur) (hty : LexData.backtrackCur.contains cur.type = true)
    (hpos : ¬ st.lexpos < 1) :
    PInv text { st with lexpos := st.lexpos - 1, nextTokens := [] } := by
  have hp := hr.pinv
  have hc := hr.cur
  unfold CurOK at hc
  cases hct : st.curToken with
  | some c =>
    rw [hct] at hc hcur
    simp at hcur
    subst hcur
    obtain ⟨hlex, hauto, hri⟩ := hc
    have hdiv : c.type = "DIV" := by
      rw [backtrack_cur_is_div.1] at hty
      simpa using hty
    have hv := (punct_munch hri "DIV" "/" backtrack_cur_is_div.2 hdiv).1
    have hlen : c.value.length = 1 := by rw [hv]; rfl
    have hp1 : st.lexpos - 1 = c.lexpos := by omega
    have htk := hri.1
    rw [hlen, hv] at htk
    -- the character at the token's offset is '/'
    have hch : text[c.lexpos]? = some '/' := by
      have := congrArg (fun l => l[0]?) htk
      simpa [List.getElem?_take, List.getElem?_drop] using this
    have hle : c.lexpos ≤ text.length := by
      by_cases h : c.lexpos ≤ text.length
      · exact h
      · rw [List.getElem?_eq_none (by omega)] at hch; simp at hch
    have hns : NoSplitAt text c.lexpos := by
      intro ⟨_, _, h3⟩
      rw [hch] at h3
      simp at h3
    have hE : terminatorEnds (text.take st.lexpos) 0 = terminatorEnds (text.take c.lexpos) 0 := by
      rw [hlex, hlen, te_take_add text c.lexpos 1 hle hns]
      have : (text.drop c.lexpos).take 1 = ['/'] := htk
      rw [this]
      simp [terminatorEnds, isLineTerminator]
    refine ⟨hp.textEq, ?_, ?_, ?_⟩
    · simp only [hp1]; rw [← hE]; exact hp.idx
    · simp only [hp1]; rw [← hE]; exact hp.lineno
    · simp only [hp1]; exact hns
  | none =>
    rw [hct] at hc
    rcases hc with h0 | hgt
    · omega
    · have h1 : text.take (st.lexpos - 1) = text := List.take_of_length_le (by omega)
      have h2 : text.take st.lexpos = text := List.take_of_length_le (by omega)
      refine ⟨hp.textEq, ?_, ?_, ?_⟩
      · simp only [h1]; rw [← h2]; exact hp.idx
      · simp only [h1]; rw [← h2]; exact hp.lineno
      · intro ⟨_, _, h3⟩
        simp only at h3
        rw [List.getElem?_eq_none (by omega)] at h3
        simp at h3

/-- `backtracked_token(1)` under the guard of `p_error` -/
theorem backtracked_drive {text : List Char} {st : LexState} (hr : Reachable text st) (tok : Option Token)
    (cur : Token) (hcur : (st.curToken <|> tok) = some cur) (hty : LexData.backtrackCur.contains cur.type = true)
    {r : Option Token} {st' : LexState} (h : backtrackedToken st 1 = .ok (r, st')) :
    Reachable text st' ∧ st.newlineIdx <+: st'.newlineIdx ∧ ∀ t, r = some t → Good text st'.newlineIdx t := by
  unfold backtrackedToken at h
  split at h
  · simp at h
  · rename_i hpos
    have hp := pinv_rewind hr tok cur hcur hty hpos
    simp only at h
    split at h
    · simp at h
    · rename_i r2 st2 ht
      simp only [Except.ok.injEq, Prod.mk.injEq] at h
      obtain ⟨rfl, rfl⟩ := h
      obtain ⟨h1, h2, h3⟩ := token_drive0 hp (by simp) (by simp) ht
      exact ⟨⟨⟨h1.pinv.textEq, h1.pinv.idx, h1.pinv.lineno, h1.pinv.nosplit⟩, h1.cur, h1.next⟩, h2, h3⟩

/-- `Parser.p_error(tok)` when it returns a replacement look-ahead -/
theorem pError_drive {text : List Char} {st : LexState} (hr : Reachable text st) (tok : Option Token)
    (htok : ∀ t, tok = some t → Good text st.newlineIdx t) {r : Option Token} {st' : LexState}
    (h : Parser.pError st tok = .ok (r, st')) :
    Reachable text st' ∧ st.newlineIdx <+: st'.newlineIdx ∧ ∀ t, r = some t → Good text st'.newlineIdx t := by
  obtain ⟨ha1, ha2, ha3, ha4⟩ := autoSemi_drive tok hr htok
  unfold Parser.pError at h
  split at h
  · rename_i semi st1 hauto
    simp only [Except.ok.injEq, Prod.mk.injEq] at h
    obtain ⟨rfl, rfl⟩ := h
    have e1 : (autoSemi st tok).1 = some semi := by rw [hauto]
    have e2 : (autoSemi st tok).2 = st1 := by rw [hauto]
    rw [e2] at ha1 ha2
    refine ⟨ha1, by rw [ha2]; exact List.prefix_refl _, ?_⟩
    intro t ht
    simp at ht
    subst ht
    rw [ha2]
    exact ha3 _ e1
  · rename_i st1 hauto
    have e1 : (autoSemi st tok).1 = none := by rw [hauto]
    have e2 : (autoSemi st tok).2 = st1 := by rw [hauto]
    have hst : st1 = st := by rw [← e2]; exact ha4 e1
    subst hst
    split at h
    · simp at h
    · rename_i cur hcur
      have tail : LexData.backtrackCur.contains cur.type = true →
          (match backtrackedToken st1 1 with
            | Except.error e => Except.error (Parser.PErr.lex e)
            | Except.ok (none, _) => Except.error (Parser.PErr.lex (Err.internal "AttributeError"))
            | Except.ok (some rt, st2) =>
              if rt.type = "REGEX" then Except.ok (some rt, st2)
              else Except.error (Parser.raiseSyntaxError st2 tok)) = Except.ok (r, st') →
          Reachable text st' ∧ st1.newlineIdx <+: st'.newlineIdx ∧
            ∀ t, r = some t → Good text st'.newlineIdx t := by
        intro hty h
        split at h
        · simp at h
        · simp at h
        · rename_i rt st2 hb
          split at h
          · simp only [Except.ok.injEq, Prod.mk.injEq] at h
            obtain ⟨rfl, rfl⟩ := h
            exact backtracked_drive hr tok cur hcur hty hb
          · simp at h
      simp only at h
      split at h
      · split at h
        · rename_i hbt
          simp only [Bool.and_eq_true] at hbt
          exact tail hbt.1 h
        · simp at h
      · split at h
        · rename_i hbt
          simp at hbt
        · simp at h

/-- `Parser.source.next` = `token()` -/
theorem next_drive {text : List Char} {st : LexState} (hr : Reachable text st) {r : Option Token} {st' : LexState}
    (h : Parser.source.next st = .ok (r, st')) :
    Reachable text st' ∧ st.newlineIdx <+: st'.newlineIdx ∧ ∀ t, r = some t → Good text st'.newlineIdx t := by
  simp only [Parser.source] at h
  split at h
  · rename_i res ht
    simp only [Except.ok.injEq] at h
    subst h
    exact token_drive hr ht
  · simp at h

end CalmVerif.Proofs.ParserDrive
