/-
`ScopeAgree`: the decidable predicate "the scope tree the obfuscator model builds for a program induces the
same binding structure as ES5 §10 (`Spec.Scope`)".  Definitions only (no Mathlib: the driver evaluates it).

Model binder of a registered identifier occurrence: the first scope, from the scope the occurrence was
registered in upwards, that declares the name (a function scope: the name is in `local_declared_symbols`;
a catch scope: the name is its catch symbol) — or `none` (a global / free name).

`scopeAgree` holds iff
  (1) every variable occurrence the specification knows is registered by the model and vice versa, and has
      exactly ONE specification binder (two binders = `var e` with initialiser inside `catch (e)`);
  (2) the relation {(spec binder, model binder)} over the variable occurrences is one-to-one in both
      directions (same partition of the occurrences into variables);
  (3) specification-free ⇔ model-free; specification-global ⇒ declared in the model's global scope, and what the
      model declares in its global scope is specification-global or the own name of a top-level function
      expression (which the model declares in the enclosing scope);
  (4) all occurrences of one label (label namespace, §12.12) have the same model binder.
-/
import CalmVerif.Model.Obfuscate
import CalmVerif.Spec.Scope
namespace CalmVerif.Obf
open CalmVerif

/-- per scope id: (id, kind, names it declares) for the scope and its ancestors, innermost first -/
abbrev DeclChains := List (Nat × List (Nat × SKind × List String))

mutual
  def declChainsOf (up : List (Nat × SKind × List String)) : RTree → DeclChains
    | .mk id _ kind _ ldecl _ children =>
      let me : Nat × SKind × List String := (id, kind, match kind with
        | .func => ldecl
        | .catch sym _ => [sym])
      (id, me :: up) :: declChainsOfList (me :: up) children
  def declChainsOfList (up : List (Nat × SKind × List String)) : List RTree → DeclChains
    | [] => []
    | c :: cs => declChainsOf up c ++ declChainsOfList up cs
end

def lookupDeclChain : DeclChains → Nat → List (Nat × SKind × List String)
  | [], _ => []
  | (i, c) :: rest, j => if i == j then c else lookupDeclChain rest j

/-- id of the scope that binds `name`, seen from a scope with this chain -/
def modelBinderIn : List (Nat × SKind × List String) → String → Option Nat
  | [], _ => none
  | (i, _, names) :: rest, n => if names.contains n then some i else modelBinderIn rest n

/-- a model occurrence: path (root first), name, binder -/
structure MOcc where
  path : Spec.Scope.Path
  name : String
  binder : Option Nat × String
  deriving Repr, Inhabited

/-- names recorded with the identifiers: the model keeps only (path, scope id); the name is read off the
specification's occurrence list, which holds every Identifier of the tree -/
def modelOccs (fin : Final) (specOccs : List Spec.Scope.Occ) : List MOcc :=
  let dc := declChainsOf [] fin.tree
  fin.identifiers.reverse.filterMap (fun (p, sid) =>
    let rp := p.reverse
    match specOccs.find? (fun o => o.path == rp) with
    | some o => some { path := rp, name := o.name, binder := (modelBinderIn (lookupDeclChain dc sid) o.name, o.name) }
    | none => none)

/-- the implicit `arguments` object is, like a free name, bound by no declaration -/
def normBinder (b : Spec.Scope.Binder) : Spec.Scope.Binder :=
  if b.kind == .args then { kind := .free, scope := [], name := b.name } else b

def isLabelKind (k : Spec.Scope.BKind) : Bool := k == .label || k == .nolabel

/-- `f` is a function on the pairs: equal first components force equal second components -/
def functional {α β : Type} [BEq α] [BEq β] : List (α × β) → Bool
  | [] => true
  | (a, b) :: rest => rest.all (fun p => !(p.1 == a) || p.2 == b) && functional rest

instance : BEq Spec.Scope.Binder := ⟨fun a b => decide (a = b)⟩

def scopeAgree (fin : Final) (program : Val) : Bool :=
  let socc := Spec.Scope.resolveProgram program
  let mocc := modelOccs fin socc
  -- (1) the same occurrences, one binder each
  let svar := socc.filter (fun o => !(o.binders.any (fun b => isLabelKind b.kind)))
  let paired : List (Spec.Scope.Occ × MOcc) := socc.filterMap (fun o =>
    (mocc.find? (fun m => m.path == o.path)).map (fun m => (o, m)))
  let c1 := paired.length == socc.length && mocc.length == socc.length
    && svar.all (fun o => o.binders.length == 1)
  let vpairs : List (Spec.Scope.Binder × (Option Nat × String)) := paired.filterMap (fun (o, m) =>
    match o.binders with
    | [b] => if isLabelKind b.kind then none else some (normBinder b, m.binder)
    | _ => none)
  let lpairs : List (Spec.Scope.Binder × (Option Nat × String)) := paired.filterMap (fun (o, m) =>
    match o.binders with
    | [b] => if isLabelKind b.kind then some (b, m.binder) else none
    | _ => none)
  -- (2) one-to-one
  let c2 := functional vpairs && functional (vpairs.map (fun p => (p.2, p.1)))
  -- (3) free ⇔ free (the implicit `arguments` is not declared either), global ⇒ scope 0 ⇒ global or self
  let c3 := vpairs.all (fun (b, m) =>
    ((b.kind == .free) == (m.1 == none)) && (!(b.kind == .global) || m.1 == some 0)
      && (!(m.1 == some 0) || b.kind == .global || b.kind == .self))
  -- (4) labels
  let c4 := functional lpairs
  c1 && c2 && c3 && c4

end CalmVerif.Obf
