/-
C19, numbers: Python's literal evaluation of a JSON number spelling (sign applied by the unary-minus rule)
is the Python value `json.loads` gives: same int for integer spellings, the float of the same exact
decimal otherwise.
-/
import CalmVerif.Model.Extract
namespace CalmVerif.Proofs.Extract
open CalmVerif CalmVerif.Spec.Json CalmVerif.Model.Extract

theorem pyIsDigit_eq : pyIsDigit = isDigit := by funext c; rfl
theorem pyDigitsVal_eq : pyDigitsVal = digitsVal := by funext ds; rfl
theorem pyAllDigits_eq : pyAllDigits = allDigits := by funext ds; rfl
theorem pyIsE_eq : pyIsE = isE := by funext c; rfl
theorem pyExp_eq : pyExp = expPart := by
  funext t
  cases t with
  | nil => rfl
  | cons c ds => simp [pyExp, expPart, pyAllDigits_eq, pyDigitsVal_eq]

theorem pyDecInt_valid {ip : List Char} (hv : validInt ip = true) :
    pyDecInt ip = .ok (.int (digitsVal ip : Int)) := by
  match ip, hv with
  | [c], _ =>
    unfold pyDecInt
    by_cases h : c = '0'
    · subst h; simp [pyDigitsVal_eq]
    · simp [h, pyDigitsVal_eq]
  | c :: d :: rest, hv =>
    unfold pyDecInt
    have : c ≠ '0' := by simpa [validInt] using hv
    simp [this, pyDigitsVal_eq]

theorem pyDecimal_agree (neg : Bool) (t : List Char) (n : Num) (h : unsignedValue neg t = some n) :
    pyDecimal t = .ok (pyOfNum { n with neg := false }) := by
  unfold unsignedValue at h
  unfold pyDecimal
  rw [pyIsDigit_eq]
  generalize t.span isDigit = p at h ⊢
  obtain ⟨ip, r1⟩ := p
  simp only at h ⊢
  split at h
  · cases h
  · rename_i hv
    have hv' : validInt ip = true := by simpa using hv
    cases r1 with
    | nil =>
      simp only at h ⊢
      cases h
      simp [pyOfNum, pyDecInt_valid hv']
    | cons c r2 =>
      simp only at h ⊢
      split at h
      · rename_i hdot
        simp only [hdot, if_true]
        generalize r2.span isDigit = p2 at h ⊢
        obtain ⟨fp, r3⟩ := p2
        simp only at h ⊢
        split at h
        · cases h
        · rename_i hfp
          have hfp' : fp.isEmpty = false := by simpa using hfp
          simp only [hfp', Bool.and_false]
          cases r3 with
          | nil =>
            simp only at h ⊢
            cases h
            simp [pyOfNum, pyDigitsVal_eq]
          | cons e r4 =>
            simp only at h ⊢
            split at h
            · rename_i he
              simp only [pyIsE_eq, he, if_true, pyExp_eq]
              cases hx : expPart r4 with
              | none => simp [hx] at h
              | some x =>
                simp only [hx] at h ⊢
                cases h
                simp [pyOfNum, pyDigitsVal_eq]
            · cases h
      · rename_i hdot
        simp only [hdot]
        split at h
        · rename_i he
          have hne : ip.isEmpty = false := by
            cases ip with
            | nil => simp [validInt] at hv'
            | cons _ _ => rfl
          simp only [pyIsE_eq, he, hne, pyExp_eq]
          cases hx : expPart r2 with
          | none => simp [hx] at h
          | some x =>
            simp only [hx] at h ⊢
            cases h
            simp [pyOfNum, pyDigitsVal_eq]
        · cases h

theorem unsigned_hex_none (neg : Bool) (rest : List Char) :
    unsignedValue neg ('0' :: 'x' :: rest) = none ∧ unsignedValue neg ('0' :: 'X' :: rest) = none := by
  constructor <;> rfl

theorem unsigned_head (neg : Bool) (c : Char) (rest : List Char) (n : Num)
    (h : unsignedValue neg (c :: rest) = some n) : isDigit c = true := by
  cases hd : isDigit c
  · exfalso
    have : (c :: rest).span isDigit = ([], c :: rest) := by
      simp [List.span, List.span.loop, hd]
    unfold unsignedValue at h
    rw [this] at h
    simp [validInt] at h
  · rfl

theorem unsigned_nil (neg : Bool) : unsignedValue neg [] = none := by rfl

/-- `ast.literal_eval` of the text of a Number node holding an unsigned JSON number -/
theorem pyLiteralEval_number (neg : Bool) (t : List Char) (n : Num) (h : unsignedValue neg t = some n) :
    pyLiteralEval t = .ok (pyOfNum { n with neg := false }) := by
  cases t with
  | nil => rw [unsigned_nil] at h; cases h
  | cons c rest =>
    have hd := unsigned_head neg c rest n h
    have hq1 : (c == '"') = false := by
      cases hh : (c == '"')
      · rfl
      · have := eq_of_beq hh; subst this; simp [isDigit] at hd
    have hq2 : (c == '\'') = false := by
      cases hh : (c == '\'')
      · rfl
      · have := eq_of_beq hh; subst this; simp [isDigit] at hd
    have hdec := pyDecimal_agree neg (c :: rest) n h
    unfold pyLiteralEval
    simp only [hq1, hq2, Bool.or_false, pyIsDigit_eq, hd, Bool.true_or, if_true]
    unfold pyNumber
    cases rest with
    | nil => simpa using hdec
    | cons x rest2 =>
      simp only
      by_cases hhex : (c == '0' && (x == 'x' || x == 'X')) = true
      · exfalso
        simp at hhex
        obtain ⟨hz, hx⟩ := hhex
        subst hz
        rcases hx with hx | hx
        · subst hx; rw [(unsigned_hex_none neg rest2).1] at h; cases h
        · subst hx; rw [(unsigned_hex_none neg rest2).2] at h; cases h
      · rw [if_neg hhex]; exact hdec

theorem toDouble_negate (m : Nat) (e : Int) : (toDouble false m e).negate = toDouble true m e := by
  unfold toDouble
  split
  · rfl
  · split
    · rfl
    · split
      · rfl
      · simp only
        split <;> rfl

theorem pyNeg_pyOfNum (n : Num) :
    pyNeg (pyOfNum { n with neg := false }) = .ok (pyOfNum { n with neg := true }) := by
  unfold pyOfNum
  cases hi : n.isInt
  · simp [pyNeg, toDouble_negate]
  · simp [pyNeg]

theorem unsigned_neg (neg : Bool) (t : List Char) (n : Num) (h : unsignedValue neg t = some n) :
    n.neg = neg := by
  unfold unsignedValue at h
  revert h
  generalize t.span isDigit = p
  obtain ⟨ip, r1⟩ := p
  simp only
  intro h
  repeat' split at h
  all_goals first
    | (cases h; rfl)
    | cases h

theorem with_neg_self (n : Num) (b : Bool) (h : n.neg = b) : ({ n with neg := b } : Num) = n := by
  cases n; simp_all

end CalmVerif.Proofs.Extract
