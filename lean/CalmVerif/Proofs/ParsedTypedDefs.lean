/-
A typing of the semantic values of the parser model that is fine enough for builder rt's slot typing of ES5 trees
(`TokenAdj.es5Slot` / `wfVal`, Model/TokenAdj.lean).

`Ty` — what the value of a grammar symbol is:
  none | int1 (an int ≥ 1) | str cs (a string whose boundary signature `sig` is in `cs`) |
  wf k (a node of kind `k` that is well typed: `wfVal`) | idname (an `Identifier` node whose `value`, if any, is
  a string spelled like an identifier OR a reserved word — the transient nodes of `reserved_word` /
  `identifier_name`, which only ever feed `PropIdentifier`) | list ks (a list of well-typed nodes of kinds in `ks`).
`concT` is the concretisation.  `TCert` is an UNTRUSTED certificate: the types per nonterminal; terminals have type
`str (termSigs t)`.  `closedT` is the kernel-decidable closure check: for every production and every row of its
action, under the row's conditions, the descriptor is typable (`tyD`) — every attribute of every node it builds gets a
value whose type fits the slot `es5Slot kind attribute` (`slotFits`) — and the result type is in the certificate of
the left-hand side.  Soundness: Proofs/ParsedTyped.lean.
-/
import CalmVerif.Model.TokenAdj
import CalmVerif.Model.Actions
import CalmVerif.Model.LR
namespace CalmVerif.Proofs.ParsedTyped
open CalmVerif CalmVerif.Model.Actions CalmVerif.Model.ActionDesc CalmVerif.TokenAdj

inductive Ty where
  | none | int1 | idname
  | str (cs : List TC)
  | wf (k : String)
  | list (ks : List String)
  deriving DecidableEq, Repr, Inhabited

def Ty.kind : Ty → Kind
  | .none => .none
  | .int1 => .none
  | .idname => .node "Identifier"
  | .str _ => .str
  | .wf k => .node k
  | .list _ => .list

/-- signatures of an `IdentifierName`: an identifier or a reserved word -/
def nameSigs : List TC := wordSigs ++ lits reservedWords

structure TCert where
  /-- per terminal: the boundary signatures its token texts may have -/
  termSigs : List (List TC)
  /-- per nonterminal: the types its values may have -/
  tys : List (List Ty)

/-! ### concretisation -/

/-- well typed (`wfVal`) and no printed string value ends with a line terminator (`valAll endsOK`) -/
def Good (cx : TokenAdj.Ctx) (v : Val) : Prop := wfVal cx v = true ∧ Unparse.valAll Unparse.endsOK Unparse.anyStr v = true

def concT (cx : TokenAdj.Ctx) : Ty → Val → Prop
  | .none, v => v = .none
  | .int1, v => ∃ n : Int, v = .int n ∧ 1 ≤ n
  | .idname, v => ∃ as, v = .node "Identifier" as ∧
      ∀ x, getAttr v "value" = some x → ∃ s, x = .str s ∧ nameSigs.contains (sig s) = true ∧ Unparse.endsOK s = true
  | .str cs, v => ∃ s, v = .str s ∧ cs.contains (sig s) = true ∧ Unparse.endsOK s = true
  | .wf k, v => ∃ as, v = .node k as ∧ Good cx v
  | .list ks, v => ∃ xs, v = .list xs ∧ ∀ x ∈ xs, kindIn ks x = true ∧ Good cx x

/-! ### the abstract check -/

def slotTy (S : List (List Ty)) (j : Nat) : Option (List Ty) := if j = 0 then none else S[j - 1]?

/-- a value of type `ty` may be held by a slot of type `st` (and is well typed itself) -/
def slotFits : SlotTy → Ty → Bool
  | .tok cs, .str cs' => cs'.all cs.contains
  | .node ks _, .wf k => ks.contains k
  | .node _ opt, .none => opt
  | .nodes ks, .list ks' => ks'.all ks.contains
  | .int1, .int1 => true
  | .any, .idname => false
  | .any, _ => true
  | _, _ => false

def wfKind? : Ty → Option String
  | .wf k => some k
  | _ => none

def listKinds? : Ty → Option (List String)
  | .list ks => some ks
  | _ => none

mutual
  /-- the types of the value of a descriptor (`none`: not typable) -/
  def tyD (S : List (List Ty)) : D → Option (List Ty)
    | .slot j => slotTy S j
    | .none => some [Ty.none]
    | .str s => if Unparse.endsOK s then some [Ty.str [sig s]] else Option.none
    | .int n => if 1 ≤ n then some [Ty.int1] else Option.none
    | .attrOf j name =>
      if name == "value" then
        match slotTy S j with
        | some tys => if tys.all (fun t => t == Ty.wf "Identifier" || t == Ty.idname) then some [Ty.str nameSigs]
                      else Option.none
        | Option.none => Option.none
      else Option.none
    | .raiseAt _ _ => some []
    | .list items => (itemKinds S items).map fun ks => [Ty.list ks]
    | .node kind attrs _ _ _ _ =>
      if okAttrs S (es5Slot kind) attrs then some [Ty.wf kind]
      else if kind == "Identifier" && attrs.map (·.1) == ["value"] && okAttrs S (fun _ => SlotTy.tok nameSigs) attrs then
        -- the transient `Identifier` of a reserved word: only its `value` is ever read
        some [Ty.idname]
      else Option.none
  /-- every attribute is a printed one and gets a value that fits its slot (`slotf`: attribute ↦ slot type) -/
  def okAttrs (S : List (List Ty)) (slotf : String → SlotTy) : List (String × D) → Bool
    | [] => true
    | (a, d) :: rest =>
      !Val.isMeta a &&
      (match tyD S d with
        | some tys => tys.all (slotFits (slotf a))
        | Option.none => false) && okAttrs S slotf rest
  /-- the kinds of the (well-typed) nodes a list descriptor collects -/
  def itemKinds (S : List (List Ty)) : List Item → Option (List String)
    | [] => some []
    | .item d :: rest =>
      match tyD S d, itemKinds S rest with
      | some tys, some ks => if tys.all (fun t => (wfKind? t).isSome) then some (tys.filterMap wfKind? ++ ks)
                             else Option.none
      | _, _ => Option.none
    | .spread j :: rest =>
      match slotTy S j, itemKinds S rest with
      | some tys, some ks => if tys.all (fun t => (listKinds? t).isSome) then some ((tys.filterMap listKinds?).flatten ++ ks)
                             else Option.none
      | _, _ => Option.none
    | .spreadMod j _ _ :: rest =>
      match slotTy S j, itemKinds S rest with
      | some tys, some ks =>
        if tys.all (fun t => match listKinds? t with | some ks' => ks'.all (· == "Elision") | Option.none => false)
        then some ((tys.filterMap listKinds?).flatten ++ ks) else Option.none
      | _, _ => Option.none
end

/-- subsumption: equal types; a list (string) type with fewer kinds (signatures) -/
def tyLe : Ty → Ty → Bool
  | .list ks, .list ks' => ks.all ks'.contains
  | .str cs, .str cs' => cs.all cs'.contains
  | a, b => a == b

def symTys (cert : TCert) (nT : Nat) (x : Nat) : List Ty :=
  if x < nT then [Ty.str ((cert.termSigs[x]?).getD [])] else (cert.tys[x - nT]?).getD []

def filterSlotT (conds : List (Nat × List Kind)) (i : Nat) (tys : List Ty) : List Ty :=
  tys.filter fun ty => conds.all fun c => c.1 != i || c.2.contains ty.kind

def slotSetsT (cert : TCert) (nT : Nat) (conds : List (Nat × List Kind)) : Nat → List Nat → List (List Ty)
  | _, [] => []
  | i, x :: rest => filterSlotT conds i (symTys cert nT x) :: slotSetsT cert nT conds (i + 1) rest

def rowOKT (cert : TCert) (nT : Nat) (lhsTys : List Ty) (rhs : List Nat) (conds : List (Nat × List Kind))
    (d : D) : Bool :=
  let S := slotSetsT cert nT conds 1 rhs
  S.any (·.isEmpty) ||
  (match tyD S d with
    | some tys => tys.all fun ty => lhsTys.any (tyLe ty)
    | Option.none => false)

def entryOKT (cert : TCert) (nT : Nat) (lhsTys : List Ty) (rhs : List Nat) (e : Entry) : Bool :=
  rowOKT cert nT lhsTys rhs [] e.result &&
  e.exceptions.all fun row => rowOKT cert nT lhsTys rhs row.1 row.2

def closedFromT (cert : TCert) (nT : Nat) : List (Nat × List Nat) → List Entry → Bool
  | [], [] => true
  | (lhs, rhs) :: ps, e :: es =>
    entryOKT cert nT ((cert.tys[lhs]?).getD []) rhs e && closedFromT cert nT ps es
  | _, _ => false

/-- **the closure check** -/
def closedT (cert : TCert) (T : Model.LR.Tables) (actions : List Entry) : Bool :=
  closedFromT cert T.numTerminals T.prods actions

end CalmVerif.Proofs.ParsedTyped
