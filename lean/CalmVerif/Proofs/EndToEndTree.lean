/-
Whole-tree lifting of per-node facts through the descriptor interpreter (bridge between the per-call theorems of
Props/C11comp / C11tok and statements about the tree `parse` returns).

`AllN P v`: `P kind attrs` holds of EVERY node value occurring in `v` — through all attributes (the `@…` ones
included: `@comments` holds nodes) and list items.
`allN_evalD`: if `P` holds of every node in the slots of the context, of every node freshly built from a node
descriptor of `d` (`FreshNode`), of the comment nodes `set_comments` attaches (`hextra`), is kept by the `value += 1`
mutation of elisions (`hval`) and established by their token-map reset (`SpreadOK`), then it holds of every node in
the value of `d`.  Nothing else creates or changes a node: slots, `.attrOf`, `.spread` pass values on.
-/
import CalmVerif.Proofs.ActionsTotalEval
namespace CalmVerif.Proofs.EndToEnd
open CalmVerif CalmVerif.Model.Actions CalmVerif.Model.ActionDesc CalmVerif.Proofs.NodePos
open CalmVerif.Proofs.ActionsTotal

mutual
  def AllN (P : String → List (String × Val) → Prop) : Val → Prop
    | .node k as => P k as ∧ AllNAttrs P as
    | .list xs => AllNList P xs
    | _ => True
  def AllNAttrs (P : String → List (String × Val) → Prop) : List (String × Val) → Prop
    | [] => True
    | (_, v) :: rest => AllN P v ∧ AllNAttrs P rest
  def AllNList (P : String → List (String × Val) → Prop) : List Val → Prop
    | [] => True
    | v :: rest => AllN P v ∧ AllNList P rest
end

variable {P : String → List (String × Val) → Prop}

theorem allNList_iff {xs : List Val} : AllNList P xs ↔ ∀ x ∈ xs, AllN P x := by
  induction xs with
  | nil => simp [AllNList]
  | cons x xs ih => simp [AllNList, ih]

theorem allNAttrs_iff {as : List (String × Val)} : AllNAttrs P as ↔ ∀ a ∈ as, AllN P a.2 := by
  induction as with
  | nil => simp [AllNAttrs]
  | cons a as ih => obtain ⟨n, v⟩ := a; simp [AllNAttrs, ih]

theorem allNAttrs_append {a b : List (String × Val)} :
    AllNAttrs P (a ++ b) ↔ AllNAttrs P a ∧ AllNAttrs P b := by
  simp only [allNAttrs_iff, List.mem_append]
  constructor
  · intro h; exact ⟨fun x hx => h x (Or.inl hx), fun x hx => h x (Or.inr hx)⟩
  · rintro ⟨h1, h2⟩ x (hx | hx)
    · exact h1 x hx
    · exact h2 x hx

theorem allNList_append {a b : List Val} : AllNList P (a ++ b) ↔ AllNList P a ∧ AllNList P b := by
  simp only [allNList_iff, List.mem_append]
  constructor
  · intro h; exact ⟨fun x hx => h x (Or.inl hx), fun x hx => h x (Or.inr hx)⟩
  · rintro ⟨h1, h2⟩ x (hx | hx)
    · exact h1 x hx
    · exact h2 x hx

theorem allN_posVal (l n : Nat) (col : Int) : AllN P (posVal l n col) := by
  simp [posVal, AllN, AllNList]

theorem allN_posUnset : AllN P posUnset := by simp [posUnset, AllN, AllNList]

theorem allN_tokmapVal {tm : TM} (h : TmAll (fun _ q => AllN P q) tm) : AllN P (tokmapVal tm) := by
  simp only [tokmapVal, AllN, allNList_iff, List.mem_map]
  rintro x ⟨e, he, rfl⟩
  simp only [AllN, AllNList, and_true, true_and, allNList_iff]
  exact fun q hq => h e he q hq

/-- an attribute value of a node whose nodes satisfy `P` -/
theorem allN_getAttr {v x : Val} {name : String} (hv : AllN P v) (h : getAttr v name = some x) : AllN P x := by
  unfold getAttr Val.attr? at h
  cases v with
  | node k as =>
    simp only [Option.map_eq_some_iff] at h
    obtain ⟨a, ha, rfl⟩ := h
    exact (allNAttrs_iff.mp hv.2) a (List.mem_of_find?_eq_some ha)
  | _ => simp at h

theorem allNAttrs_setAttr {as : List (String × Val)} {name : String} {x : Val} (h : AllNAttrs P as)
    (hx : AllN P x) : AllNAttrs P (setAttr as name x) := by
  rw [allNAttrs_iff] at h ⊢
  unfold setAttr
  split
  · intro a ha
    simp only [List.mem_map] at ha
    obtain ⟨b, hb, rfl⟩ := ha
    split
    · exact hx
    · exact h b hb
  · intro a ha
    simp only [List.mem_append, List.mem_singleton] at ha
    rcases ha with ha | rfl
    · exact h a ha
    · exact hx

/-! ### inversion of the remaining interpreter cases -/

theorem evalItems_spread_ok {c : Ctx} {j : Nat} {rest : List Item} {v : List Val}
    (h : evalItems c (.spread j :: rest) = .ok v) :
    ∃ pv xs vs, c.slot? j = some pv ∧ pv.v = .list xs ∧ evalItems c rest = .ok vs ∧ v = xs ++ vs := by
  rw [evalItems] at h
  cases hs : c.slot? j with
  | none => rw [hs] at h; simp [bind, Except.bind, throw, throwThe, MonadExceptOf.throw] at h
  | some pv =>
    rw [hs] at h
    simp only [] at h
    cases hv : pv.v with
    | list xs =>
      rw [hv] at h
      cases hr : evalItems c rest with
      | error e => rw [hr] at h; simp [bind, Except.bind, pure, Except.pure] at h
      | ok vs =>
        rw [hr] at h
        simp only [bind, Except.bind, pure, Except.pure, Except.ok.injEq] at h
        exact ⟨pv, xs, vs, rfl, hv, rfl, h.symm⟩
    | _ => rw [hv] at h; simp [bind, Except.bind, throw, throwThe, MonadExceptOf.throw] at h

theorem evalItems_spreadMod_ok {c : Ctx} {j : Nat} {li : Bool} {ft : Option PosD} {rest : List Item}
    {v : List Val} (h : evalItems c (.spreadMod j li ft :: rest) = .ok v) :
    ∃ pv xs xs1 xs2 vs, c.slot? j = some pv ∧ pv.v = .list xs ∧
      (if li then incLast xs else .ok xs) = .ok xs1 ∧
      (match ft with
        | some pd => ∃ q, evalPos c pd = .ok q ∧ setFirstTm q xs1 = .ok xs2
        | none => xs2 = xs1) ∧
      evalItems c rest = .ok vs ∧ v = xs2 ++ vs := by
  rw [evalItems_spreadMod] at h
  split at h
  · next pv hpv =>
    split at h
    · next xs hxs =>
      split at h
      · simp at h
      · next xs1 h1 =>
        split at h
        · simp at h
        · next xs2 h2 =>
          split at h
          · simp at h
          · next vs hvs =>
            simp only [Except.ok.injEq] at h
            refine ⟨pv, xs, xs1, xs2, vs, hpv, hxs, h1, ?_, hvs, h.symm⟩
            cases ft with
            | none => simp only [Except.ok.injEq] at h2; exact h2.symm
            | some pd =>
              simp only [] at h2 ⊢
              split at h2
              · simp at h2
              · next q hq => exact ⟨q, hq, h2⟩
    · simp at h
  · simp at h

/-! ### the lifting -/

section lift
variable {c : Ctx}
variable (hslots : ∀ j pv, c.slot? j = some pv → AllN P pv.v)
variable (hextra : ∀ pos, AllNAttrs P (nodeExtra c pos))
variable (hval : ∀ k as x, P k as → P k (setAttr as "value" x))

/-- a node freshly built from descriptor `x` satisfies `P` -/
def FreshNode (P : String → List (String × Val) → Prop) (c : Ctx) (x : NodeD) : Prop :=
  ∀ n k as, evalD c x.d = .ok n → n = .node k as → P k as

/-- the token-map reset of a growing elision establishes `P` -/
def SpreadOK (P : String → List (String × Val) → Prop) (c : Ctx) (pd : PosD) : Prop :=
  ∀ q, evalPos c pd = .ok q →
    AllN P q ∧ ∀ k as n, P k (setAttr as "@tokmap" (tokmapVal [(commas n, [q])]))

include hslots in
theorem allN_evalPos {pd : PosD} {q : Val} (h : evalPos c pd = .ok q) : AllN P q := by
  have key : ∀ a b cl cp d, findPos c a b cl cp d = .ok q → AllN P q := by
    intro a b cl cp d hf
    unfold findPos at hf
    split at hf
    · split at hf
      · split at hf
        · simp only [Except.ok.injEq] at hf; rw [← hf]; exact allN_posVal _ _ _
        · simp at hf
      · simp only [Except.ok.injEq] at hf; rw [← hf]; exact allN_posVal _ _ _
    · simp at hf
  cases pd with
  | unset => simp only [evalPos, Except.ok.injEq] at h; rw [← h]; exact allN_posUnset
  | «at» j d => exact key _ _ _ _ _ (by simpa [evalPos] using h)
  | slots a b cl cp d => exact key _ _ _ _ _ (by simpa [evalPos] using h)
  | ofNode j =>
    simp only [evalPos] at h
    split at h
    · next pv hpv =>
      simp only [Except.ok.injEq] at h
      rw [← h]
      cases hg : getAttr pv.v "@pos" with
      | none => exact allN_posUnset
      | some x => exact allN_getAttr (hslots j pv hpv) hg
    · simp at h
  | ofNodeTok j =>
    simp only [evalPos] at h
    split at h
    · next pv hpv =>
      split at h
      · next entries hget =>
        simp only [Except.ok.injEq] at h
        rw [← h]
        have hent : AllN P (.list entries) := allN_getAttr (hslots j pv hpv) hget
        cases hhit : entries.findSome? (fun e => match e with
            | .list [.str "(", .list (p :: _)] => some p
            | _ => none) with
        | none => exact allN_posVal 0 0 0
        | some p =>
          simp only [Option.getD_some]
          obtain ⟨e, he, hfe⟩ := List.exists_of_findSome?_eq_some hhit
          have hae := (allNList_iff.mp hent) e he
          split at hfe
          · next p' ps =>
            simp only [Option.some.injEq] at hfe
            subst hfe
            simp only [AllN, AllNList] at hae
            exact hae.2.1.1
          · simp at hfe
      · simp only [Except.ok.injEq] at h; rw [← h]; exact allN_posVal 0 0 0
    · simp at h

include hslots in
theorem allN_nodeTokmap {as : List (String × Val)} {ts : List Nat} {tm : List (TextSrc × PosD)}
    {tmo : Option Nat} {tmv : Val} (h : nodeTokmap c as ts tm tmo = .ok tmv) : AllN P tmv := by
  cases tmo with
  | some j =>
    simp only [nodeTokmap] at h
    split at h
    · next pv hpv =>
      simp only [Except.ok.injEq] at h
      rw [← h]
      cases hg : getAttr pv.v "@tokmap" with
      | none => simp [AllN, AllNList]
      | some x => exact allN_getAttr (hslots j pv hpv) hg
    · simp at h
  | none =>
    simp only [nodeTokmap] at h
    split at h
    · simp at h
    · next tm1 h1 =>
      split at h
      · simp at h
      · next tm2 h2 =>
        simp only [Except.ok.injEq] at h
        rw [← h]
        have hempty : TmAll (fun _ q => AllN P q) ([] : TM) := by intro e he; simp at he
        have hP1 : TmAll (fun _ q => AllN P q) tm1 := by
          refine foldE_inv (TmAll (fun _ q => AllN P q)) (fun _ => True) ?_ ts [] tm1 (fun _ _ => trivial) hempty h1
          intro j b b' _ hb hs
          unfold stepSlot at hs
          split at hs
          · split at hs
            · split at hs
              · next q hq =>
                simp only [Except.ok.injEq] at hs
                rw [← hs]
                exact tokmapAdd_all hb (allN_evalPos hslots (pd := .at j 0) (by simpa [evalPos] using hq))
              · simp at hs
            · simp only [Except.ok.injEq] at hs; rw [← hs]; exact hb
          · simp at hs
        refine allN_tokmapVal (foldE_inv (TmAll (fun _ q => AllN P q)) (fun _ => True) ?_ tm tm1 tm2
          (fun _ _ => trivial) hP1 h2)
        intro e b b' _ hb hs
        unfold stepExtra at hs
        split at hs
        · simp at hs
        · next q hq =>
          split at hs
          · simp at hs
          · simp only [Except.ok.injEq] at hs
            rw [← hs]
            exact tokmapAdd_all hb (allN_evalPos hslots hq)

include hval in
theorem allN_incLast {xs xs1 : List Val} (hx : AllNList P xs) (h : incLast xs = .ok xs1) : AllNList P xs1 := by
  unfold incLast at h
  split at h
  · next k as before hr =>
    split at h
    · next nm n hf =>
      simp only [Except.ok.injEq] at h
      rw [← h]
      rw [allNList_iff] at hx ⊢
      have hmem : ∀ y, y ∈ xs.reverse → AllN P y := fun y hy => hx y (by simpa using hy)
      rw [hr] at hmem
      intro y hy
      simp only [List.reverse_cons, List.mem_append, List.mem_reverse, List.mem_singleton] at hy
      rcases hy with hy | rfl
      · exact hmem y (List.mem_cons_of_mem _ hy)
      · have h0 := hmem _ List.mem_cons_self
        exact ⟨hval k as _ h0.1, allNAttrs_setAttr h0.2 (by simp [AllN])⟩
    · simp at h
  · simp at h

theorem allN_setFirstTm {q : Val} {xs1 xs2 : List Val} (hx : AllNList P xs1) (hq : AllN P q)
    (hP : ∀ k as n, P k (setAttr as "@tokmap" (tokmapVal [(commas n, [q])])))
    (h : setFirstTm q xs1 = .ok xs2) : AllNList P xs2 := by
  unfold setFirstTm at h
  split at h
  · next k as after =>
    split at h
    · next nm n hf =>
      simp only [Except.ok.injEq] at h
      rw [← h]
      simp only [AllNList, AllN] at hx ⊢
      refine ⟨⟨hP k as _, allNAttrs_setAttr hx.1.2 ?_⟩, hx.2⟩
      apply allN_tokmapVal
      intro e he q' hq'
      simp only [List.mem_singleton] at he
      subst he
      simp only [List.mem_singleton] at hq'
      subst hq'
      exact hq
    · simp at h
  · simp at h

include hslots hextra hval

mutual
  /-- **every node in the value of a descriptor satisfies `P`** -/
  theorem allN_evalD (top : Bool) : ∀ (d : D) (v : Val), evalD c d = .ok v →
      (∀ x ∈ nodesOfD top d, FreshNode P c x) → (∀ pd ∈ spreadsOfD d, SpreadOK P c pd) → AllN P v
    | .slot j, v, h, _, _ => by
      obtain ⟨pv, hpv, rfl⟩ := evalD_slot_ok h
      exact hslots j pv hpv
    | .none, v, h, _, _ => by rw [evalD] at h; simp only [Except.ok.injEq] at h; rw [← h]; simp [AllN]
    | .str _, v, h, _, _ => by rw [evalD] at h; simp only [Except.ok.injEq] at h; rw [← h]; simp [AllN]
    | .int _, v, h, _, _ => by rw [evalD] at h; simp only [Except.ok.injEq] at h; rw [← h]; simp [AllN]
    | .attrOf j name, v, h, _, _ => by
      rw [evalD] at h
      split at h
      · next pv hpv =>
        split at h
        · next x hx =>
          simp only [Except.ok.injEq] at h
          rw [← h]
          exact allN_getAttr (hslots j pv hpv) hx
        · simp at h
      · simp at h
    | .raiseAt _ _, v, h, _, _ => absurd h evalD_raiseAt_ne
    | .list items, v, h, hn, hs => by
      obtain ⟨xs, hxs, rfl⟩ := evalD_list_ok h
      exact allN_evalItems items xs hxs (by simpa [nodesOfD] using hn) (by simpa [spreadsOfD] using hs)
    | .node kind attrs pos ts tm tmo, v, h, hn, hs => by
      obtain ⟨as, p, tmv, has, hp, htm, rfl⟩ := evalD_node_ok h
      have hfresh := hn ⟨top, kind, attrs, pos, ts, tm, tmo⟩ (by simp [nodesOfD])
      refine ⟨hfresh _ kind _ h rfl, ?_⟩
      have has' := allN_evalAttrs attrs as has
        (fun x hx => hn x (by simp only [nodesOfD, List.mem_cons]; exact Or.inr hx))
        (fun pd hpd => hs pd (by simpa [spreadsOfD] using hpd))
      rw [allNAttrs_append, allNAttrs_append]
      refine ⟨⟨has', hextra pos⟩, ?_⟩
      simp only [AllNAttrs, and_true]
      exact ⟨allN_evalPos hslots hp, allN_nodeTokmap hslots htm⟩
  theorem allN_evalAttrs : ∀ (l : List (String × D)) (as : List (String × Val)), evalAttrs c l = .ok as →
      (∀ x ∈ nodesOfAttrs l, FreshNode P c x) → (∀ pd ∈ spreadsOfAttrs l, SpreadOK P c pd) → AllNAttrs P as
    | [], as, h, _, _ => by rw [evalAttrs] at h; simp only [Except.ok.injEq] at h; rw [← h]; simp [AllNAttrs]
    | (n, d) :: rest, as, h, hn, hs => by
      obtain ⟨x, xs, hd, hr, rfl⟩ := evalAttrs_cons_ok h
      simp only [AllNAttrs]
      exact ⟨allN_evalD false d x hd
          (fun y hy => hn y (by simp only [nodesOfAttrs, List.mem_append]; exact Or.inl hy))
          (fun pd hpd => hs pd (by simp only [spreadsOfAttrs, List.mem_append]; exact Or.inl hpd)),
        allN_evalAttrs rest xs hr
          (fun y hy => hn y (by simp only [nodesOfAttrs, List.mem_append]; exact Or.inr hy))
          (fun pd hpd => hs pd (by simp only [spreadsOfAttrs, List.mem_append]; exact Or.inr hpd))⟩
  theorem allN_evalItems : ∀ (l : List Item) (vs : List Val), evalItems c l = .ok vs →
      (∀ x ∈ nodesOfItems l, FreshNode P c x) → (∀ pd ∈ spreadsOfItems l, SpreadOK P c pd) → AllNList P vs
    | [], vs, h, _, _ => by rw [evalItems] at h; simp only [Except.ok.injEq] at h; rw [← h]; simp [AllNList]
    | .item d :: rest, vs, h, hn, hs => by
      obtain ⟨x, xs, hd, hr, rfl⟩ := evalItems_item_ok h
      simp only [AllNList]
      exact ⟨allN_evalD false d x hd
          (fun y hy => hn y (by simp only [nodesOfItems, List.mem_append]; exact Or.inl hy))
          (fun pd hpd => hs pd (by simp only [spreadsOfItems, List.mem_append]; exact Or.inl hpd)),
        allN_evalItems rest xs hr
          (fun y hy => hn y (by simp only [nodesOfItems, List.mem_append]; exact Or.inr hy))
          (fun pd hpd => hs pd (by simp only [spreadsOfItems, List.mem_append]; exact Or.inr hpd))⟩
    | .spread j :: rest, vs, h, hn, hs => by
      obtain ⟨pv, xs, ws, hpv, hv, hr, rfl⟩ := evalItems_spread_ok h
      rw [allNList_append]
      have hsl := hslots j pv hpv
      rw [hv] at hsl
      exact ⟨hsl, allN_evalItems rest ws hr (by simpa [nodesOfItems] using hn)
        (by simpa [spreadsOfItems] using hs)⟩
    | .spreadMod j li none :: rest, vs, h, hn, hs => by
      obtain ⟨pv, xs, xs1, xs2, ws, hpv, hv, h1, h2, hr, rfl⟩ := evalItems_spreadMod_ok h
      simp only [] at h2
      rw [h2, allNList_append]
      have hsl := hslots j pv hpv
      rw [hv] at hsl
      have hx1 : AllNList P xs1 := by
        cases li with
        | false => simp only [Bool.false_eq_true, if_false, Except.ok.injEq] at h1; rw [← h1]; exact hsl
        | true => simp only [if_true] at h1; exact allN_incLast hval hsl h1
      exact ⟨hx1, allN_evalItems rest ws hr (by simpa [nodesOfItems] using hn)
        (by simpa [spreadsOfItems] using hs)⟩
    | .spreadMod j li (some pd) :: rest, vs, h, hn, hs => by
      obtain ⟨pv, xs, xs1, xs2, ws, hpv, hv, h1, h2, hr, rfl⟩ := evalItems_spreadMod_ok h
      simp only [] at h2
      obtain ⟨q, hq, hset⟩ := h2
      rw [allNList_append]
      have hsl := hslots j pv hpv
      rw [hv] at hsl
      have hx1 : AllNList P xs1 := by
        cases li with
        | false => simp only [Bool.false_eq_true, if_false, Except.ok.injEq] at h1; rw [← h1]; exact hsl
        | true => simp only [if_true] at h1; exact allN_incLast hval hsl h1
      obtain ⟨hqa, hqP⟩ := hs pd (by simp [spreadsOfItems]) q hq
      exact ⟨allN_setFirstTm hx1 hqa hqP hset,
        allN_evalItems rest ws hr (by simpa [nodesOfItems] using hn)
          (fun pd' hpd' => hs pd' (by simp only [spreadsOfItems, List.mem_cons]; exact Or.inr hpd'))⟩
end

end lift

end CalmVerif.Proofs.EndToEnd
