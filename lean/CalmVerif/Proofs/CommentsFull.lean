/-
C13: the semantic actions commute with the erasure of comments (`ActionsTransparent`), for every action table
whose descriptors never read a `comments` attribute.
-/
import CalmVerif.Proofs.CommentsParser
import CalmVerif.Proofs.CommentsEval

namespace CalmVerif.Proofs.Comments
open CalmVerif CalmVerif.Model.Actions CalmVerif.Model.ActionDesc

theorem selectRow_mem (e : Entry) (kinds : List Kind) : selectRow e kinds ∈ rowsOf e := by
  unfold selectRow rowsOf
  cases hf : e.exceptions.find? (fun row => row.1.all (condHolds kinds)) with
  | none => exact List.mem_cons_self ..
  | some row =>
    apply List.mem_cons_of_mem
    exact List.mem_map_of_mem (List.mem_of_find?_eq_some hf)

theorem kinds_erase (args : List PVal) :
    (args.map erasePV).map (fun a => kindOf a.v) = args.map (fun a => kindOf a.v) := by
  rw [List.map_map]
  apply List.map_congr_left
  intro a _
  exact kindOf_erase a.v

theorem reduce_core (c : Ctx) (d : D) (hd : noCommentsReadD d = true) (l n : Nat) :
    (match evalD (eraseCtx c) d with
      | .ok v => (Except.ok { v := v, lexpos := l, lineno := n, tok := none } : Except Err PVal)
      | .error err => .error err) =
    match (match evalD c d with
      | .ok v => (Except.ok { v := v, lexpos := l, lineno := n, tok := none } : Except Err PVal)
      | .error err => .error err) with
    | .ok v => .ok (erasePV v)
    | .error e => .error e := by
  rw [evalD_erase c d hd]
  cases evalD c d <;> rfl

/-- T: if no descriptor of the table reads a `comments` attribute, every semantic action run without capture on erased
    arguments returns the erasure of what it returns (with or without capture) on the original arguments, and raises
    the same error -/
theorem actionsTransparent (tbl : List Entry) (h : noCommentsRead tbl = true) : ActionsTransparent tbl := by
  intro wc lc p args pos
  unfold reduce
  cases hp : tbl[p]? with
  | none => rfl
  | some e =>
    simp only []
    have hmem : e ∈ tbl := List.mem_of_getElem? hp
    have hrows : (rowsOf e).all noCommentsReadD = true := List.all_eq_true.mp h e hmem
    have hd : noCommentsReadD (selectRow e (args.map (fun a => kindOf a.v))) = true :=
      List.all_eq_true.mp hrows _ (selectRow_mem e _)
    rw [kinds_erase]
    cases args with
    | nil =>
      exact reduce_core { slots := [], pos0 := pos, lookupCol := lc, withComments := wc } _ hd _ _
    | cons a rest =>
      exact reduce_core { slots := a :: rest, pos0 := (a.lexpos, a.lineno), lookupCol := lc, withComments := wc } _ hd _ _

end CalmVerif.Proofs.Comments
