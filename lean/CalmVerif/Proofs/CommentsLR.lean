/-
C13, driver level: a generic simulation lemma for the LR driver model.  If tokens, semantic values and
token-source states are mapped by `fτ`, `fν`, `fσ` such that the terminal index, `leaf`, `reduce`, `next`
and `onError` commute with the maps, then a run from the mapped configuration yields the mapped outcome.
-/
import CalmVerif.Model.LR

namespace CalmVerif.Proofs.Comments
open CalmVerif.Model.LR

variable {τ ν σ ε : Type}

/-- the maps of a simulation and what they must commute with -/
structure Sim (S : Sem τ ν σ ε) (R : Source τ σ ε) where
  fτ : τ → τ
  fν : ν → ν
  fσ : σ → σ
  ty : ∀ t, S.ty (fτ t) = S.ty t
  leaf : ∀ t, S.leaf (fτ t) = fν (S.leaf t)
  reduce : ∀ p args s, S.reduce p (args.map fν) (fσ s) =
    match S.reduce p args s with
    | .ok v => .ok (fν v)
    | .error e => .error e
  next : ∀ s, R.next (fσ s) =
    match R.next s with
    | .ok (t, s') => .ok (t.map fτ, fσ s')
    | .error e => .error e
  onError : ∀ s t, R.onError (fσ s) (t.map fτ) =
    match R.onError s t with
    | .ok (t', s') => .ok (t'.map fτ, fσ s')
    | .error e => .error e

variable {S : Sem τ ν σ ε} {R : Source τ σ ε}

def Sim.cfg (m : Sim S R) (c : Config τ ν σ) : Config τ ν σ :=
  { states := c.states, vals := c.vals.map m.fν, look := c.look.map (·.map m.fτ), src := m.fσ c.src,
    shifted := c.shifted.map m.fτ }

def Sim.out (m : Sim S R) : Outcome ν ε → Outcome ν ε
  | .accepted v => .accepted (m.fν v)
  | o => o

def Sim.sum (m : Sim S R) : Sum (Config τ ν σ) (Outcome ν ε) → Sum (Config τ ν σ) (Outcome ν ε)
  | .inl c => .inl (m.cfg c)
  | .inr o => .inr (m.out o)

theorem popN_map {α β : Type} (f : α → β) (n : Nat) (l : List α) :
    popN n (l.map f) = (popN n l).map (fun p => (p.1.map f, p.2.map f)) := by
  induction n generalizing l with
  | zero => rfl
  | succ k ih =>
    cases l with
    | nil => rfl
    | cons x xs =>
      simp only [List.map_cons, popN, ih]
      cases popN k xs <;> rfl

theorem Sim.lookTermOf_sim (m : Sim S R) (T : Tables) (c : Config τ ν σ) :
    lookTermOf T S (m.cfg c) = lookTermOf T S c := by
  unfold lookTermOf Sim.cfg
  cases c.look with
  | none => rfl
  | some o =>
    cases o with
    | none => rfl
    | some t => exact m.ty t

theorem Sim.fetch_sim (m : Sim S R) (T : Tables) (c : Config τ ν σ) (state : Nat) :
    fetch T S R (m.cfg c) state =
      match fetch T S R c state with
      | .ok (a, c') => .ok (a, m.cfg c')
      | .error e => .error e := by
  unfold fetch
  cases defaultedOf T state with
  | some p => rfl
  | none =>
    simp only []
    cases hl : c.look with
    | some o =>
      have h1 : (m.cfg c).look = some (o.map m.fτ) := by simp [Sim.cfg, hl]
      simp only [h1, m.lookTermOf_sim]
    | none =>
      have h1 : (m.cfg c).look = none := by simp [Sim.cfg, hl]
      have h2 : (m.cfg c).src = m.fσ c.src := rfl
      simp only [h1, h2, m.next]
      cases R.next c.src with
      | error e => rfl
      | ok r =>
        obtain ⟨t, s'⟩ := r
        simp only []
        have h3 : ({ m.cfg c with look := some (t.map m.fτ), src := m.fσ s' } : Config τ ν σ) =
            m.cfg { c with look := some t, src := s' } := rfl
        rw [h3, m.lookTermOf_sim]

theorem Sim.doShift_sim (m : Sim S R) (c : Config τ ν σ) (s : Nat) :
    doShift S (m.cfg c) s = m.sum (doShift S c s) := by
  unfold doShift
  cases hl : c.look with
  | none =>
    simp only [Sim.sum, Sim.cfg, hl, Option.map_none]; rfl
  | some o =>
    cases o with
    | none =>
      simp only [Sim.sum, Sim.cfg, hl, Option.map_some, Option.map_none]; rfl
    | some t =>
      simp only [Sim.sum, Sim.cfg, hl, Option.map_some, m.leaf, List.map_cons, Option.map_none]

theorem Sim.doReduce_sim (m : Sim S R) (T : Tables) (c : Config τ ν σ) (p : Nat) :
    doReduce T S R (m.cfg c) p = m.sum (doReduce T S R c p) := by
  unfold doReduce
  cases T.prods[p]? with
  | none => rfl
  | some pr =>
    obtain ⟨lhs, rhs⟩ := pr
    have hv : (m.cfg c).vals = c.vals.map m.fν := rfl
    have hs : (m.cfg c).states = c.states := rfl
    have hsrc : (m.cfg c).src = m.fσ c.src := rfl
    simp only [hv, hs, hsrc, popN_map]
    cases popN rhs.length c.vals with
    | none => rfl
    | some av =>
      obtain ⟨args, restVals⟩ := av
      cases popN rhs.length c.states with
      | none => rfl
      | some ss =>
        obtain ⟨_, restStates⟩ := ss
        simp only [Option.map_some, ← List.map_reverse, m.reduce]
        cases S.reduce p args.reverse c.src with
        | error e => rfl
        | ok v =>
          simp only []
          cases restStates with
          | nil => rfl
          | cons top rest =>
            simp only []
            cases gotoOf T top lhs with
            | none => rfl
            | some g => rfl

theorem Sim.lookTok_sim (m : Sim S R) (c : Config τ ν σ) : lookTok (m.cfg c) = (lookTok c).map m.fτ := by
  unfold lookTok Sim.cfg
  cases c.look with
  | none => rfl
  | some o => cases o <;> rfl

theorem Sim.doError_sim (m : Sim S R) (c : Config τ ν σ) :
    doError R (m.cfg c) = m.sum (doError R c) := by
  unfold doError
  have hsrc : (m.cfg c).src = m.fσ c.src := rfl
  rw [m.lookTok_sim, hsrc, m.onError]
  cases R.onError c.src (lookTok c) with
  | error e => rfl
  | ok r =>
    obtain ⟨t, s'⟩ := r
    cases t with
    | none => rfl
    | some t => rfl

theorem Sim.step_sim (m : Sim S R) (T : Tables) (c : Config τ ν σ) :
    step T S R (m.cfg c) = m.sum (step T S R c) := by
  unfold step
  have hs : (m.cfg c).states = c.states := rfl
  rw [hs]
  cases c.states with
  | nil => rfl
  | cons state rest =>
    simp only [m.fetch_sim]
    cases fetch T S R c state with
    | error e => rfl
    | ok r =>
      obtain ⟨a, c1⟩ := r
      cases a with
      | none => exact m.doError_sim c1
      | some act =>
        cases act with
        | shift s => exact m.doShift_sim c1 s
        | reduce p => exact m.doReduce_sim T c1 p
        | accept =>
          simp only []
          have hv : (m.cfg c1).vals = c1.vals.map m.fν := rfl
          rw [hv]
          cases c1.vals <;> rfl

/-- T: the run from the mapped configuration is the mapped run -/
theorem Sim.run_sim (m : Sim S R) (T : Tables) (fuel : Nat) (c : Config τ ν σ) :
    run T S R fuel (m.cfg c) = (m.out (run T S R fuel c).1, m.cfg (run T S R fuel c).2) := by
  induction fuel generalizing c with
  | zero => rfl
  | succ n ih =>
    unfold run
    rw [m.step_sim]
    cases step T S R c with
    | inl c' => exact ih c'
    | inr o => rfl

end CalmVerif.Proofs.Comments
