/-
C10 helper lemmas, part 6: the independent Spec decoder inverts the Spec encoder.
-/
import CalmVerif.Proofs.VlqTables
import CalmVerif.Proofs.VlqSpec
import CalmVerif.Proofs.VlqDecode

namespace CalmVerif.Proofs.Vlq
open CalmVerif.Spec.VlqV3

theorem sextets?_map : ∀ (ds : List Nat), (∀ d ∈ ds, d < 64) → sextets? (ds.map b64Char) = some ds := by
  intro ds
  induction ds with
  | nil => intro _; rfl
  | cons d ds ih =>
    intro h
    simp only [List.map_cons, sextets?]
    rw [b64Val_b64Char d (h d (by simp)), ih (fun x hx => h x (by simp [hx]))]

theorem sextets?_append : ∀ (a b : List Char) (x y : List Nat),
    sextets? a = some x → sextets? b = some y → sextets? (a ++ b) = some (x ++ y) := by
  intro a
  induction a with
  | nil => intro b x y ha hb; simp [sextets?] at ha; subst ha; simpa using hb
  | cons c cs ih =>
    intro b x y ha hb
    simp only [sextets?] at ha
    cases hv : b64Val c with
    | none => simp [hv] at ha
    | some v =>
      cases hs : sextets? cs with
      | none => simp [hv, hs] at ha
      | some vs =>
        simp [hv, hs] at ha
        subst ha
        simp only [List.cons_append, sextets?, hv, ih b vs y hs hb]

/-- digit sequence of a list of integers -/
def sextetsList : List Int → List Nat
  | [] => []
  | v :: vs => sextets (toRaw v) ++ sextetsList vs

theorem sextets?_encodeList (l : List Int) : sextets? (encodeList l) = some (sextetsList l) := by
  induction l with
  | nil => rfl
  | cons v vs ih =>
    rw [encodeList, sextetsList]
    exact sextets?_append _ _ _ _ (sextets?_map _ (sextets_lt _)) ih

theorem foldl_horner (cur : List Nat) : ∀ a : Nat,
    cur.foldl (fun acc d => acc * 32 + d % 32) a = horner cur + a * 32 ^ cur.length := by
  induction cur with
  | nil => intro a; simp [horner]
  | cons d ds ih =>
    intro a
    unfold horner
    simp only [List.foldl_cons, List.length_cons]
    rw [ih, ih (0 * 32 + d % 32), Nat.pow_succ]
    have : (a * 32 + d % 32) * 32 ^ ds.length
        = (0 * 32 + d % 32) * 32 ^ ds.length + a * (32 ^ ds.length * 32) := by
      rw [Nat.add_mul, Nat.add_mul, Nat.mul_assoc, Nat.mul_comm 32]; omega
    omega

theorem horner_cons (d : Nat) (cur : List Nat) :
    horner (d :: cur) = horner cur + d % 32 * 32 ^ cur.length := by
  have := foldl_horner cur (0 * 32 + d % 32)
  unfold horner at *
  simp only [List.foldl_cons]
  rw [this]; simp

theorem decodeSextets_cons (cur : List Nat) (d : Nat) (ds : List Nat) :
    decodeSextets cur (d :: ds) =
      if d < 32 then
        match decodeSextets [] ds with
        | some vs => some (ofRaw (horner (d :: cur)) :: vs)
        | none => none
      else decodeSextets (d :: cur) ds := by
  cases cur <;> rw [decodeSextets] <;> split <;> rfl

theorem decodeSextets_sextets : ∀ (n : Nat) (cur rest : List Nat),
    decodeSextets cur (sextets n ++ rest) =
      match decodeSextets [] rest with
      | some vs => some (ofRaw (horner cur + n * 32 ^ cur.length) :: vs)
      | none => none := by
  intro n
  induction n using sextets_induct with
  | small n h =>
    intro cur rest
    rw [sextets_small h, List.singleton_append, decodeSextets_cons, horner_cons, Nat.mod_eq_of_lt h]
    simp only [h, if_true]
  | big n h ih =>
    intro cur rest
    have h32 : ¬ n % 32 + 32 < 32 := by omega
    have hm : (n % 32 + 32) % 32 = n % 32 := by omega
    rw [sextets_big h, List.cons_append, decodeSextets_cons]
    simp only [h32, if_false]
    rw [ih, horner_cons, hm, List.length_cons, Nat.pow_succ, acc_total]

theorem decodeSextets_sextetsList (l : List Int) : decodeSextets [] (sextetsList l) = some l := by
  induction l with
  | nil => rfl
  | cons v vs ih =>
    rw [sextetsList, decodeSextets_sextets, ih]
    simp [horner, ofRaw_toRaw]

theorem decode_encodeList (l : List Int) : decode (encodeList l) = some l := by
  unfold decode
  rw [sextets?_encodeList]
  exact decodeSextets_sextetsList l

end CalmVerif.Proofs.Vlq
