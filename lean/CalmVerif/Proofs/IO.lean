/-
Helper lemmas for C18 (`Model/IO.lean`): the invariant `Good` of everything that runs before /
inside the `try` of `io.write`, and the shape of the final trace.
-/
import CalmVerif.Model.IO

namespace CalmVerif.IO

/-! ### list observations -/

@[simp] theorem openedOf_append (a b : List Event) : openedOf (a ++ b) = openedOf a ++ openedOf b := by
  induction a with
  | nil => rfl
  | cons e t ih => cases e <;> simp [openedOf, ih]

@[simp] theorem closedOf_append (a b : List Event) : closedOf (a ++ b) = closedOf a ++ closedOf b := by
  induction a with
  | nil => rfl
  | cons e t ih => cases e <;> simp [closedOf, ih]

@[simp] theorem faultsOf_append (a b : List Event) : faultsOf (a ++ b) = faultsOf a ++ faultsOf b := by
  induction a with
  | nil => rfl
  | cons e t ih => cases e <;> simp [faultsOf, ih]

@[simp] theorem written_append (s : Sid) (a b : List Event) : written s (a ++ b) = written s a ++ written s b := by
  induction a with
  | nil => rfl
  | cons e t ih =>
    cases e <;> simp [written, ih]
    all_goals split <;> simp

@[simp] theorem openedOf_closes (l : List Sid) : openedOf (l.map Event.closed) = [] := by
  induction l with
  | nil => rfl
  | cons a t ih => simp [openedOf, ih]

@[simp] theorem closedOf_closes (l : List Sid) : closedOf (l.map Event.closed) = l := by
  induction l with
  | nil => rfl
  | cons a t ih => simp [closedOf, ih]

@[simp] theorem faultsOf_closes (l : List Sid) : faultsOf (l.map Event.closed) = [] := by
  induction l with
  | nil => rfl
  | cons a t ih => simp [faultsOf, ih]

@[simp] theorem written_closes (s : Sid) (l : List Sid) : written s (l.map Event.closed) = [] := by
  induction l with
  | nil => rfl
  | cons a t ih => simp [written, ih]

/-! ### the monad -/

@[simp] theorem run_pure (a : α) (s : St) : (pure a : M α) s = (.ok a, s) := rfl

theorem run_bind (m : M α) (f : α → M β) (s : St) :
    (m >>= f) s = match m s with
      | (.ok a, s') => f a s'
      | (.error e, s') => (.error e, s') := rfl

/-- faults a result accounts for -/
def errList : Except Exc α → List Exc
  | .ok _ => []
  | .error e => [e]

/-- what code running before / inside the `try` may do: it appends events none of which is a `closed`,
    it registers in `closer` exactly the streams it obtained from factories (all among `opens`),
    and it logs exactly the fault it raises. -/
def Good (opens : List Sid) (m : M α) : Prop :=
  ∀ s, ∃ evs, (m s).2.trace = s.trace ++ evs ∧ closedOf evs = [] ∧
    (m s).2.closer = s.closer ++ openedOf evs ∧ (openedOf evs).Sublist opens ∧
    (faultsOf evs).map (·.2) = errList (m s).1

theorem good_pure (a : α) : Good [] (pure a : M α) := by
  intro s; exact ⟨[], by simp [closedOf, openedOf, faultsOf, errList]⟩

theorem good_bind {m : M α} {f : α → M β} {o1 o2 : List Sid}
    (hm : Good o1 m) (hf : ∀ a, Good o2 (f a)) : Good (o1 ++ o2) (m >>= f) := by
  intro s
  obtain ⟨e1, h1, h2, h3, h4, h5⟩ := hm s
  rw [run_bind]
  cases hr : m s with
  | mk r s' =>
    rw [hr] at h1 h3 h5
    cases r with
    | error e =>
      refine ⟨e1, h1, h2, h3, ?_, ?_⟩
      · exact h4.trans (List.sublist_append_left o1 o2)
      · simpa [errList] using h5
    | ok a =>
      obtain ⟨e2, g1, g2, g3, g4, g5⟩ := hf a s'
      refine ⟨e1 ++ e2, ?_, ?_, ?_, ?_, ?_⟩
      · show (f a s').2.trace = _
        rw [g1, h1, List.append_assoc]
      · simp [h2, g2]
      · show (f a s').2.closer = _
        rw [g3, h3]; simp
      · simpa using List.Sublist.append h4 g4
      · show _ = errList (f a s').1
        simp [errList] at h5
        simp [h5, g5]

/-- `bind` where neither side opens anything -/
theorem good_bind0 {m : M α} {f : α → M β} (hm : Good [] m) (hf : ∀ a, Good [] (f a)) : Good [] (m >>= f) := by
  simpa using good_bind hm hf

theorem good_mono {m : M α} {o1 o2 : List Sid} (h : Good o1 m) (hs : o1.Sublist o2) : Good o2 m := by
  intro s
  obtain ⟨e, h1, h2, h3, h4, h5⟩ := h s
  exact ⟨e, h1, h2, h3, h4.trans hs, h5⟩

/-- the state after a use of `p` that does not raise -/
def St.bump (s : St) (p : Prim) : St :=
  { s with counts := fun q => if q = p then s.counts p + 1 else s.counts q }

@[simp] theorem St.bump_trace (s : St) (p : Prim) : (s.bump p).trace = s.trace := rfl
@[simp] theorem St.bump_closer (s : St) (p : Prim) : (s.bump p).closer = s.closer := rfl

theorem tick_none {plan : Plan} {p : Prim} {s : St} (h : plan p (s.counts p) = none) :
    tick plan p s = (.ok (), s.bump p) := by
  simp [IO.tick, h, St.bump]

theorem tick_some {plan : Plan} {p : Prim} {s : St} {e : Exc} (h : plan p (s.counts p) = some e) :
    tick plan p s = (.error e, { s.bump p with trace := s.trace ++ [.fault p (s.counts p) e] }) := by
  simp [IO.tick, h, St.bump]

theorem good_tick (plan : Plan) (p : Prim) : Good [] (tick plan p) := by
  intro s
  cases hp : plan p (s.counts p) with
  | none => exact ⟨[], by simp [tick_none hp, closedOf, openedOf, faultsOf, errList]⟩
  | some e => exact ⟨[.fault p (s.counts p) e], by simp [tick_some hp, closedOf, openedOf, faultsOf, errList]⟩

theorem good_emit_read (x : Sid) : Good [] (emit (.read x)) := by
  intro s; exact ⟨[.read x], by simp [emit, closedOf, openedOf, faultsOf, errList]⟩

theorem good_emit_wrote (x : Sid) (d : String) : Good [] (emit (.wrote x d)) := by
  intro s; exact ⟨[.wrote x d], by simp [emit, closedOf, openedOf, faultsOf, errList]⟩

theorem good_emit_wrotelines (x : Sid) (d : List String) : Good [] (emit (.wrotelines x d)) := by
  intro s; exact ⟨[.wrotelines x d], by simp [emit, closedOf, openedOf, faultsOf, errList]⟩

theorem good_getStream (plan : Plan) (arg : StreamArg) :
    Good (if arg.isFactory then [arg.sid] else []) (getStream plan arg) := by
  cases arg with
  | obj x => simpa [IO.getStream, StreamArg.isFactory] using good_pure x
  | factory f x =>
    intro s
    simp only [IO.getStream, StreamArg.isFactory, StreamArg.sid, if_true]
    rw [run_bind]
    cases hp : plan (.factory f) (s.counts (.factory f)) with
    | some e =>
      exact ⟨[.fault (.factory f) (s.counts (.factory f)) e],
        by simp [tick_some hp, closedOf, openedOf, faultsOf, errList]⟩
    | none =>
      refine ⟨[.opened f x], ?_⟩
      simp [tick_none hp, run_bind, emit, pushCloser, closedOf, openedOf, faultsOf, errList]

theorem good_writeLines (plan : Plan) (x : Sid) (ls : List String) : Good [] (writeLines plan x ls) := by
  induction ls with
  | nil => exact good_pure ()
  | cons l t ih =>
    unfold IO.writeLines
    exact good_bind0 (good_tick plan _) fun _ => good_bind0 (good_emit_wrote x l) fun _ => ih

theorem good_consumeGen (plan : Plan) (x : Sid) (g : List Frag) : Good [] (consumeGen plan x g) := by
  induction g with
  | nil => exact good_tick plan _
  | cons f t ih =>
    unfold IO.consumeGen
    exact good_bind0 (good_tick plan _) fun _ => good_bind0 (good_writeLines plan x f.lines) fun _ => ih

theorem good_consumeAll (plan : Plan) (x : Sid) (gs : List (List Frag)) : Good [] (consumeAll plan x gs) := by
  induction gs with
  | nil => exact good_pure ()
  | cons g t ih =>
    unfold IO.consumeAll
    exact good_bind0 (good_consumeGen plan x g) fun _ => ih

theorem good_makeGens (plan : Plan) (items : List (Option (List Frag))) : Good [] (makeGens plan items) := by
  induction items with
  | nil => exact good_pure _
  | cons it t ih =>
    cases it with
    | none => unfold IO.makeGens; exact ih
    | some g =>
      unfold IO.makeGens
      exact good_bind0 (good_tick plan _) fun _ => good_bind0 ih fun _ => good_pure _

theorem good_makeChunks (plan : Plan) (n : NodesArg) : Good [] (makeChunks plan n) := by
  cases n with
  | single g => exact good_bind0 (good_tick plan _) fun _ => good_pure _
  | many items => exact good_bind0 (good_makeGens plan items) fun _ => good_pure _
  | other => exact good_pure _

theorem good_writeSourcemap (o : Oracle) (plan : Plan) (a : WArr) (frags : List Frag) (out sm : Sid) :
    Good [] (writeSourcemap o plan a frags out sm) := by
  unfold IO.writeSourcemap
  refine good_bind0 (good_tick plan _) fun _ => good_bind0 (good_tick plan _) fun _ =>
    good_bind0 (good_tick plan _) fun _ => ?_
  split
  · exact good_bind0 (good_tick plan _) fun _ => good_bind0 (good_tick plan _) fun _ =>
      good_bind0 (good_tick plan _) fun _ => good_emit_wrotelines _ _
  · refine good_bind0 ?_ fun _ => good_bind0 (good_tick plan _) fun _ => good_emit_wrote _ _
    unfold writeUrlComment
    split
    · exact good_pure _
    · exact good_bind0 (good_tick plan _) fun _ => good_emit_wrotelines _ _
    · exact good_bind0 (good_tick plan _) fun _ => good_emit_wrotelines _ _

/-- the streams `io.write` can obtain from factories, in the order it would -/
def WArr.factorySids (a : WArr) : List Sid :=
  (if a.output.isFactory then [a.output.sid] else []) ++
    (match a.sourcemap with
     | .other arg _ => if arg.isFactory then [arg.sid] else []
     | _ => [])

theorem good_writeBody (o : Oracle) (plan : Plan) (a : WArr) (gens : List (List Frag)) :
    Good a.factorySids (writeBody o plan a gens) := by
  unfold IO.writeBody WArr.factorySids
  refine good_bind (good_getStream plan a.output) fun out => ?_
  cases hsm : a.sourcemap with
  | none => exact good_bind0 (good_consumeAll plan out gens) fun _ => good_pure _
  | same =>
    refine good_bind0 (good_consumeAll plan out gens) fun _ => ?_
    show Good [] (if a.outTruthy = true then _ else _)
    cases a.outTruthy with
    | true => exact good_writeSourcemap o plan a gens.flatten out out
    | false => exact good_pure _
  | other arg truthy =>
    have h : Good ([] ++ (if arg.isFactory then [arg.sid] else []))
        (consumeAll plan out gens >>= fun _ =>
          if truthy = true then (getStream plan arg >>= fun sm => writeSourcemap o plan a gens.flatten out sm)
          else pure ()) := by
      refine good_bind (good_consumeAll plan out gens) fun _ => ?_
      cases truthy with
      | true =>
        simpa using good_bind (good_getStream plan arg) fun sm => good_writeSourcemap o plan a gens.flatten out sm
      | false => exact good_mono (good_pure ()) (List.nil_sublist _)
    simpa using h

/-! ### cleanup -/

theorem closeAll_ok (plan : Plan) (hclose : ∀ x k, plan (.close x) k = none) (l : List Sid) (s : St) :
    (closeAll plan l s).1 = .ok () ∧ (closeAll plan l s).2.trace = s.trace ++ l.map Event.closed := by
  induction l generalizing s with
  | nil => simp [closeAll]
  | cons x t ih =>
    unfold closeAll
    rw [run_bind, tick_none (hclose x _)]
    simp only [run_bind, emit]
    constructor
    · exact (ih _).1
    · rw [(ih _).2]; simp

/-- whatever `close` does, `cleanup` only appends `closed` and `fault` events -/
theorem closeAll_written (plan : Plan) (l : List Sid) (s : St) :
    ∃ evs, (closeAll plan l s).2.trace = s.trace ++ evs ∧ ∀ x, written x evs = [] := by
  induction l generalizing s with
  | nil => exact ⟨[], by simp [closeAll], fun _ => rfl⟩
  | cons y t ih =>
    unfold closeAll
    rw [run_bind]
    cases hp : plan (.close y) (s.counts (.close y)) with
    | some e =>
      exact ⟨[.fault (.close y) (s.counts (.close y)) e], by simp [tick_some hp], fun _ => by simp [written]⟩
    | none =>
      rw [tick_none hp]
      simp only [run_bind, emit]
      obtain ⟨evs, h1, h2⟩ := ih { (s.bump (.close y)) with trace := (s.bump (.close y)).trace ++ [Event.closed y] }
      exact ⟨Event.closed y :: evs, by rw [h1]; simp, fun x => by simp [written, h2]⟩

/-! ### success paths: the value returned and the exact events -/

/-- if `m` returns normally then it returns `v` and has appended exactly `E` -/
def Emits (m : M α) (v : α) (E : List Event) : Prop :=
  ∀ s a, (m s).1 = .ok a → a = v ∧ (m s).2.trace = s.trace ++ E

theorem emits_pure (v : α) : Emits (pure v : M α) v [] := by
  intro s a h; simp at h; simp [h]

theorem emits_bind {m : M α} {f : α → M β} {v : α} {w : β} {E1 E2 : List Event}
    (hm : Emits m v E1) (hf : Emits (f v) w E2) : Emits (m >>= f) w (E1 ++ E2) := by
  intro s b h
  rw [run_bind] at h ⊢
  cases hr : m s with
  | mk r s' =>
    rw [hr] at h
    cases r with
    | error e => simp at h
    | ok a =>
      have h1 := hm s a (by rw [hr])
      rw [hr] at h1
      obtain ⟨rfl, ht⟩ := h1
      have h2 := hf s' b h
      refine ⟨h2.1, ?_⟩
      show (f a s').2.trace = _
      rw [h2.2, ht, List.append_assoc]

theorem emits_tick (plan : Plan) (p : Prim) : Emits (tick plan p) () [] := by
  intro s a _
  cases hp : plan p (s.counts p) with
  | none => simp [tick_none hp]
  | some e => rename_i h; simp [tick_some hp] at h

theorem emits_emit (ev : Event) : Emits (emit ev) () [ev] := by
  intro s a _; simp [emit]

/-- bind with a unit-valued first action -/
theorem emits_seq {m : M Unit} {f : Unit → M β} {w : β} {E1 E2 : List Event}
    (hm : Emits m () E1) (hf : Emits (f ()) w E2) : Emits (m >>= f) w (E1 ++ E2) := emits_bind hm hf

def StreamArg.openEvents : StreamArg → List Event
  | .factory f s => [.opened f s]
  | .obj _ => []

theorem emits_getStream (plan : Plan) (arg : StreamArg) : Emits (getStream plan arg) arg.sid arg.openEvents := by
  cases arg with
  | obj x => exact emits_pure x
  | factory f x =>
    unfold IO.getStream
    have h : Emits (pushCloser x) () [] := by intro s a _; simp [pushCloser]
    simpa [StreamArg.openEvents, StreamArg.sid] using
      emits_seq (emits_tick plan (.factory f)) (emits_seq (emits_emit (.opened f x)) (emits_seq h (emits_pure x)))

/-- the `write` events of a list of fragments on stream `x` -/
def fragEvents (x : Sid) (fs : List Frag) : List Event := fs.flatMap fun f => f.lines.map (Event.wrote x)

theorem emits_writeLines (plan : Plan) (x : Sid) (ls : List String) :
    Emits (writeLines plan x ls) () (ls.map (Event.wrote x)) := by
  induction ls with
  | nil => exact emits_pure ()
  | cons l t ih =>
    unfold IO.writeLines
    simpa using emits_seq (emits_tick plan (.write x)) (emits_seq (emits_emit (.wrote x l)) ih)

theorem emits_consumeGen (plan : Plan) (x : Sid) (g : List Frag) : Emits (consumeGen plan x g) () (fragEvents x g) := by
  induction g with
  | nil => exact emits_tick plan _
  | cons f t ih =>
    unfold IO.consumeGen
    simpa [fragEvents] using emits_seq (emits_tick plan .fragment) (emits_seq (emits_writeLines plan x f.lines) ih)

theorem emits_consumeAll (plan : Plan) (x : Sid) (gs : List (List Frag)) :
    Emits (consumeAll plan x gs) () (fragEvents x gs.flatten) := by
  induction gs with
  | nil => exact emits_pure ()
  | cons g t ih =>
    unfold IO.consumeAll
    simpa [fragEvents] using emits_seq (emits_consumeGen plan x g) ih

theorem emits_makeGens (plan : Plan) (items : List (Option (List Frag))) :
    Emits (makeGens plan items) (items.filterMap id) [] := by
  induction items with
  | nil => exact emits_pure _
  | cons it t ih =>
    cases it with
    | none => unfold IO.makeGens; simpa using ih
    | some g =>
      unfold IO.makeGens
      simpa using emits_seq (emits_tick plan .unparse)
        (emits_bind (f := fun gs => (pure (g :: gs) : M _)) ih (emits_pure (g :: t.filterMap id)))

theorem emits_makeChunks (plan : Plan) (n : NodesArg) :
    Emits (makeChunks plan n) (if n.valid then some n.gens else none) [] := by
  cases n with
  | single g =>
    show Emits (tick plan .unparse >>= fun _ => (pure (some [g]) : M _)) _ _
    simpa [NodesArg.valid, NodesArg.gens] using emits_seq (emits_tick plan .unparse) (emits_pure (some [g]))
  | many items =>
    have h := emits_bind (f := fun raw => (pure (if raw.isEmpty then none else some raw) : M _))
      (emits_makeGens plan items)
      (emits_pure (if (items.filterMap id).isEmpty then none else some (items.filterMap id)))
    show Emits (makeGens plan items >>= fun raw => (pure (if raw.isEmpty then none else some raw) : M _)) _ _
    cases hh : (items.filterMap id).isEmpty <;> simpa [NodesArg.valid, NodesArg.gens, hh] using h
  | other =>
    show Emits (pure none : M _) _ _
    simpa [NodesArg.valid, NodesArg.gens] using emits_pure (none : Option (List (List Frag)))

def urlEvents (o : Oracle) (a : WArr) (out sm : Sid) : List Event :=
  match a.url with
  | .disabled => []
  | .dflt => [.wrotelines out [urlPrefix, mapUrl o a out sm, "\n"]]
  | .explicit u => [.wrotelines out [urlPrefix, u, "\n"]]

/-- what `write_sourcemap` does to the streams when nothing fails -/
def smEvents (o : Oracle) (a : WArr) (frags : List Frag) (out sm : Sid) : List Event :=
  if sm = out then
    [.wrotelines out [dataUrlPrefix, encodingOf a out, ",", o.b64 (encodingOf a out) (mapText o a frags out sm)]]
  else
    urlEvents o a out sm ++ [.wrote sm (mapText o a frags out sm)]

theorem emits_writeUrlComment (o : Oracle) (plan : Plan) (a : WArr) (out sm : Sid) :
    Emits (writeUrlComment o plan a out sm) () (urlEvents o a out sm) := by
  unfold writeUrlComment urlEvents
  cases a.url with
  | disabled => exact emits_pure ()
  | dflt => simpa using emits_seq (emits_tick plan _) (emits_emit _)
  | explicit u => simpa using emits_seq (emits_tick plan _) (emits_emit _)

theorem emits_writeSourcemap (o : Oracle) (plan : Plan) (a : WArr) (frags : List Frag) (out sm : Sid) :
    Emits (writeSourcemap o plan a frags out sm) () (smEvents o a frags out sm) := by
  unfold IO.writeSourcemap smEvents
  by_cases h : sm = out
  · simp only [h, if_true]
    simpa using emits_seq (emits_tick plan _) (emits_seq (emits_tick plan _) (emits_seq (emits_tick plan _)
      (emits_seq (emits_tick plan _) (emits_seq (emits_tick plan _) (emits_seq (emits_tick plan _) (emits_emit _))))))
  · simp only [h, if_false]
    simpa using emits_seq (emits_tick plan _) (emits_seq (emits_tick plan _) (emits_seq (emits_tick plan _)
      (emits_seq (emits_writeUrlComment o plan a out sm) (emits_seq (emits_tick plan _) (emits_emit _)))))

/-- the source-map part of `io.write`'s `try` block when nothing fails -/
def smPart (o : Oracle) (a : WArr) (frags : List Frag) : List Event :=
  match a.sourcemap with
  | .none => []
  | .same => if a.outTruthy then smEvents o a frags a.output.sid a.output.sid else []
  | .other arg truthy => if truthy then arg.openEvents ++ smEvents o a frags a.output.sid arg.sid else []

/-- the events of `io.write`'s `try` block when nothing fails -/
def bodyEvents (o : Oracle) (a : WArr) (gens : List (List Frag)) : List Event :=
  a.output.openEvents ++ (fragEvents a.output.sid gens.flatten ++ smPart o a gens.flatten)

theorem emits_writeBody (o : Oracle) (plan : Plan) (a : WArr) (gens : List (List Frag)) :
    Emits (writeBody o plan a gens) () (bodyEvents o a gens) := by
  unfold IO.writeBody bodyEvents smPart
  refine emits_bind (emits_getStream plan a.output) (emits_seq (emits_consumeAll plan _ gens) ?_)
  cases a.sourcemap with
  | none => exact emits_pure ()
  | same =>
    cases a.outTruthy with
    | true => exact emits_writeSourcemap o plan a gens.flatten _ _
    | false => exact emits_pure ()
  | other arg truthy =>
    cases truthy with
    | true => exact emits_bind (emits_getStream plan arg) (emits_writeSourcemap o plan a gens.flatten _ _)
    | false => exact emits_pure ()

/-! ### the whole of `io.write` -/

/-- Shape of every run of `io.write` when `close` does not fail: the trace is a part without any `closed`
    event followed by the `closed` events of exactly the factory-obtained streams, in reverse order of
    their acquisition; the outcome is the logged fault, or the `TypeError` of an argument without Node. -/
theorem ioWrite_shape (o : Oracle) (plan : Plan) (a : WArr) (hclose : ∀ x k, plan (.close x) k = none)
    (s0 : St) (h0 : s0.closer = []) :
    ∃ body, (ioWrite o plan a s0).2.trace = s0.trace ++ (body ++ (openedOf body).reverse.map Event.closed) ∧
      closedOf body = [] ∧ (openedOf body).Sublist a.factorySids ∧
      (((ioWrite o plan a s0).1 = .ok () ∧ faultsOf body = [] ∧ a.nodes.valid = true) ∨
       (∃ e, (ioWrite o plan a s0).1 = .error e ∧ (faultsOf body).map (·.2) = [e]) ∨
       ((ioWrite o plan a s0).1 = .error typeErr ∧ faultsOf body = [] ∧ a.nodes.valid = false)) := by
  obtain ⟨e1, h1, h2, h3, h4, h5⟩ := good_makeChunks plan a.nodes s0
  have hv := emits_makeChunks plan a.nodes s0
  unfold ioWrite
  rw [run_bind]
  cases hr : makeChunks plan a.nodes s0 with
  | mk r s1 =>
    rw [hr] at h1 h3 h5 hv
    dsimp only at h1 h3 h5 hv
    have hop : openedOf e1 = [] := by simpa using h4
    cases r with
    | error e =>
      refine ⟨e1, by simp [h1, hop], h2, by simp [hop], Or.inr (Or.inl ⟨e, rfl, by simpa [errList] using h5⟩)⟩
    | ok c =>
      have hc := (hv c rfl).1
      have hf1 : faultsOf e1 = [] := by simpa [errList] using h5
      cases c with
      | none =>
        have hval : a.nodes.valid = false := by
          cases hh : a.nodes.valid with
          | false => rfl
          | true => simp [hh] at hc
        exact ⟨e1, by simp [raise, h1, hop], h2, by simp [hop], Or.inr (Or.inr ⟨rfl, hf1, hval⟩)⟩
      | some gens =>
        have hval : a.nodes.valid = true := by
          cases hh : a.nodes.valid with
          | true => rfl
          | false => simp [hh] at hc
        obtain ⟨e2, g1, g2, g3, g4, g5⟩ := good_writeBody o plan a gens s1
        have hcl : (writeBody o plan a gens s1).2.closer = openedOf e2 := by
          rw [g3, h3, h0, hop]; simp
        have hfin := closeAll_ok plan hclose (writeBody o plan a gens s1).2.closer.reverse (writeBody o plan a gens s1).2
        show ∃ body, (tryFinally (writeBody o plan a gens) (cleanup plan) s1).2.trace = _ ∧ _ ∧ _ ∧
          (((tryFinally (writeBody o plan a gens) (cleanup plan) s1).1 = _ ∧ _ ∧ _) ∨
           (∃ e, (tryFinally (writeBody o plan a gens) (cleanup plan) s1).1 = _ ∧ _) ∨
           ((tryFinally (writeBody o plan a gens) (cleanup plan) s1).1 = _ ∧ _ ∧ _))
        have htf : tryFinally (writeBody o plan a gens) (cleanup plan) s1 =
            ((writeBody o plan a gens s1).1,
             (closeAll plan (writeBody o plan a gens s1).2.closer.reverse (writeBody o plan a gens s1).2).2) := by
          unfold tryFinally cleanup
          cases hb : writeBody o plan a gens s1 with
          | mk rb s2 =>
            rw [hb] at hfin
            cases hcA : closeAll plan s2.closer.reverse s2 with
            | mk rc s3 =>
              rw [hcA] at hfin
              cases rc with
              | ok u => simp [hcA]
              | error e => simp at hfin
        rw [htf]
        refine ⟨e1 ++ e2, ?_, by simp [h2, g2], by simpa [hop] using g4, ?_⟩
        · show (closeAll plan _ _).2.trace = _
          rw [hfin.2, hcl, g1, h1]; simp [hop]
        · cases hb : (writeBody o plan a gens s1).1 with
          | ok u => exact Or.inl ⟨rfl, by simpa [hf1, hb, errList] using g5, hval⟩
          | error e => exact Or.inr (Or.inl ⟨e, rfl, by simpa [hf1, hb, errList] using g5⟩)

/-- on success the trace is the expected events followed by events that write nothing -/
theorem ioWrite_ok_trace (o : Oracle) (plan : Plan) (a : WArr) (s0 : St)
    (hok : (ioWrite o plan a s0).1 = .ok ()) :
    a.nodes.valid = true ∧
    ∃ closes, (ioWrite o plan a s0).2.trace = s0.trace ++ (bodyEvents o a a.nodes.gens ++ closes) ∧
      ∀ x, written x closes = [] := by
  have hv := emits_makeChunks plan a.nodes s0
  unfold ioWrite at hok ⊢
  rw [run_bind] at hok ⊢
  cases hr : makeChunks plan a.nodes s0 with
  | mk r s1 =>
    rw [hr] at hok hv
    cases r with
    | error e => simp at hok
    | ok c =>
      obtain ⟨hc, ht⟩ := hv c rfl
      cases c with
      | none => simp [raise] at hok
      | some gens =>
        have hval : a.nodes.valid = true := by
          cases hh : a.nodes.valid with
          | true => rfl
          | false => simp [hh] at hc
        simp [hval] at hc
        subst hc
        refine ⟨hval, ?_⟩
        have hb := emits_writeBody o plan a a.nodes.gens s1
        obtain ⟨evs, hc1, hc2⟩ := closeAll_written plan (writeBody o plan a a.nodes.gens s1).2.closer.reverse
          (writeBody o plan a a.nodes.gens s1).2
        change (tryFinally (writeBody o plan a a.nodes.gens) (cleanup plan) s1).1 = _ at hok
        show ∃ closes, (tryFinally (writeBody o plan a a.nodes.gens) (cleanup plan) s1).2.trace = _ ∧ _
        unfold tryFinally cleanup at hok ⊢
        cases hbr : writeBody o plan a a.nodes.gens s1 with
        | mk rb s2 =>
          rw [hbr] at hb hc1 hok
          simp only at hok ⊢
          cases hcA : closeAll plan s2.closer.reverse s2 with
          | mk rc s3 =>
            rw [hcA] at hc1 hok
            cases rc with
            | error e => simp at hok
            | ok u =>
              simp only at hok
              have := (hb () hok).2
              refine ⟨evs, ?_, hc2⟩
              show s3.trace = _
              simp only at hc1 this
              rw [hc1, this, ht]; simp

end CalmVerif.IO
