/-
C19: the three binding forms (`var x = T;`, `x = T;`, inside `function f() { … }`) around a value node.
-/
import CalmVerif.Proofs.ExtractJson
namespace CalmVerif.Proofs.Extract
open CalmVerif CalmVerif.Spec.Json CalmVerif.Model.Extract CalmVerif.Gen.Extractor

theorem walk_ident (fold : Bool) (n : Nat) (name : String) :
    walkNode fold (n + 1) (ident name) = .ok [tok "Identifier" (.str (cps name))] := by
  simp [ident, walkNode, def_Identifier, runRules, runRule, getSrc, getattr, isSub, lookupSubs, subclasses,
    deferrableHandlers, isEmpty, walkVal]

theorem walk_varDecl (fold : Bool) (m : Nat) (name kT : String) (aT : List (String × Val)) (f : Frag)
    (hT : walkNode fold (m + 1) (.node kT aT) = .ok [.frag f]) (hA : isSub kT "Assign" = false) :
    walkNode fold (m + 2) (.node "VarDecl" [("identifier", ident name), ("initializer", .node kT aT)])
      = .ok [tok "VarDecl" (.asgList [(.str (cps name), f.value)])] := by
  have hI := walk_ident fold m name
  simp only [ident] at hI
  rw [walkNode_node, def_VarDecl]
  simp [ident, runRules, runRule, getattr, walkVal, hI, hT, chunkValues, tok, kindOf, hA]

theorem walk_varStmt (fold : Bool) (m : Nat) (name kT : String) (aT : List (String × Val)) (f : Frag)
    (hT : walkNode fold (m + 1) (.node kT aT) = .ok [.frag f]) (hA : isSub kT "Assign" = false) :
    walkNode fold (m + 3) (varStmt name (.node kT aT))
      = .ok [tok "VarDecl" (.asgList [(.str (cps name), f.value)])] := by
  have h := walk_varDecl fold m name kT aT f hT hA
  unfold varStmt
  rw [walkNode_node, def_VarStatement]
  simp [runRules, runRule, getSrc, getattr, notNone, List.filter, walkVals, walkVal, h]

theorem walk_assignStmt (fold : Bool) (m : Nat) (name kT : String) (aT : List (String × Val)) (f : Frag)
    (hT : walkNode fold (m + 1) (.node kT aT) = .ok [.frag f]) (hA : isSub kT "Assign" = false) :
    walkNode fold (m + 3) (assignStmt name (.node kT aT))
      = .ok [tok "Assign" (.asgList [(.str (cps name), f.value)])] := by
  have hI := walk_ident fold m name
  simp only [ident] at hI
  have h : walkNode fold (m + 2) (.node "Assign" [("left", ident name), ("op", .str "="), ("right", .node kT aT)])
      = .ok [tok "Assign" (.asgList [(.str (cps name), f.value)])] := by
    rw [walkNode_node, def_Assign]
    simp [ident, runRules, runRule, getattr, walkVal, hI, hT, chunkValues, tok, kindOf, hA]
  unfold assignStmt
  rw [walkNode_node, def_ExprStatement]
  simp [runRules, runRule, getSrc, getattr, isEmpty, walkVal, h]

/-- a program of one statement that yields one AssignmentList fragment -/
theorem walk_program1 (fold : Bool) (n : Nat) (kS : String) (aS : List (String × Val)) (kind : String)
    (k v : PyVal) (hS : walkNode fold n (.node kS aS) = .ok [tok kind (.asgList [(k, v)])]) :
    walkNode fold (n + 1) (program [.node kS aS]) = .ok [.asg k v] := by
  unfold program
  rw [walkNode_node, def_ES5Program]
  simp [runRules, runRule, getSrc, getattr, notNone, List.filter, walkVals, walkVal, hS, tok, topLoop, miscPairs]

theorem walk_funcDecl (fold : Bool) (n : Nat) (fname kS : String) (aS : List (String × Val)) (kind : String)
    (k v : PyVal) (hk : hashable k = true)
    (hS : walkNode fold n (.node kS aS) = .ok [tok kind (.asgList [(k, v)])]) :
    walkNode fold (n + 1) (funcDecl fname [.node kS aS])
      = .ok [tok "FuncDecl" (.asgList [(.str (cps fname), .list [.list [], .dict [(k, v)]])])] := by
  have hI : walkNode fold n (ident fname) = .ok [tok "Identifier" (.str (cps fname))] := by
    cases n with
    | zero => simp [walkNode] at hS
    | succ n' => exact walk_ident fold n' fname
  simp only [ident] at hI
  unfold funcDecl
  rw [walkNode_node, def_FuncDecl]
  simp [ident, runRules, runRule, getSrc, getattr, isEmpty, emptyValues, walkVals, walkVal, hS, hI, tok,
    layoutHandlers, deferrableHandlers, chunkValues, mapLoop, dictUpdate, dictSet, hk, miscPairs]

theorem dict_one (k v : PyVal) (hk : hashable k = true) : dictOfChunks [.asg k v] [] = .ok [(k, v)] := by
  simp [dictOfChunks, dictSet, hk]

/-! depth of the binding programs -/

theorem depth_var (name : String) (t : Val) (h : 1 ≤ depth t) :
    depth (program [varStmt name t]) = depth t + 3 := by
  simp [program, varStmt, ident, depth, depthAttrs, depthList]; omega

theorem depth_assign (name : String) (t : Val) (h : 1 ≤ depth t) :
    depth (program [assignStmt name t]) = depth t + 3 := by
  simp [program, assignStmt, ident, depth, depthAttrs, depthList]; omega

theorem depth_funcVar (fname name : String) (t : Val) (h : 1 ≤ depth t) :
    depth (program [funcDecl fname [varStmt name t]]) = depth t + 4 := by
  simp [program, funcDecl, varStmt, ident, depth, depthAttrs, depthList]; omega

theorem depth_funcAssign (fname name : String) (t : Val) (h : 1 ≤ depth t) :
    depth (program [funcDecl fname [assignStmt name t]]) = depth t + 4 := by
  simp [program, funcDecl, assignStmt, ident, depth, depthAttrs, depthList]; omega

end CalmVerif.Proofs.Extract
