/-
Termination of the LR driver loop (C12), part 1: the rank certificate and its checker.

An UNTRUSTED certificate `RankCert` is emitted by the translator (`harness/gen/g_tables.py`, `emit_ranks`,
into `Gen/Tables/Ranks.lean`); the Bool checker `ranksOK` is evaluated by the kernel in `Props/C12term.lean`.

  * `ne`    per nonterminal `A`: 0 = not nullable; `e+1` = nullable, and every derivation tree rooted at `A` with
            EMPTY yield has at most `e` internal nodes;
  * `nulls` the nullable nonterminals (those with `ne ≠ 0`), for a cheap membership test;
  * `d`     per nonterminal: a rank for unit-like steps — for every production `A → X₁…Xₖ` and position `j` with
            `Xⱼ` a nonterminal and all other `Xᵢ` nullable:  d(A) + 1 + Σ_{i≠j} e(Xᵢ) ≤ d(Xⱼ);
  * `K`     ≥ d(A) + 1 + Σ_{i nullable} e(Xᵢ) for every production (and ≥ every d);
  * `r`     per state: r(goto(q, A)) < r(q) for every goto entry on a nullable `A`
            (bounds runs of consecutive empty-yield entries on the parse stack);
  * `Emax`, `Rmax` bounds on the `e` and `r` values.
`ranksOK` makes one pass over the production list and one over the goto table.
-/
import CalmVerif.Proofs.LRSound
namespace CalmVerif.Model.LR

structure RankCert where
  ne : List Nat
  nulls : List Nat
  d : List Nat
  K : Nat
  Emax : Nat
  chunk : Nat
  r : List (List Nat)
  Rmax : Nat

/-! ### look-ups (on symbol codes: terminal `i` ↦ `i`, nonterminal `j` ↦ `nT + j`) -/

def neOf (C : RankCert) (nT x : Nat) : Nat :=
  if x < nT then 0 else (C.ne[x - nT]?).getD 0

def nullableS (C : RankCert) (nT x : Nat) : Bool := neOf C nT x != 0

def eOf (C : RankCert) (nT x : Nat) : Nat := neOf C nT x - 1

def dOf (C : RankCert) (nT x : Nat) : Nat :=
  if x < nT then 0 else (C.d[x - nT]?).getD 0

def rOf (C : RankCert) (s : Nat) : Nat :=
  match C.r[s / C.chunk]? with
  | some c => (c[s % C.chunk]?).getD 0
  | none => 0

/-! ### the checker -/

def eSum (C : RankCert) (nT : Nat) : List Nat → Nat
  | [] => 0
  | x :: rest => eOf C nT x + eSum C nT rest

def allNull (C : RankCert) (nT : Nat) : List Nat → Bool
  | [] => true
  | x :: rest => nullableS C nT x && allNull C nT rest

/-- unit-like positions of a right-hand side: `dA1 = d(lhs) + 1`, `acc` = Σ e over the (nullable) symbols already passed -/
def unitCheck (C : RankCert) (nT dA1 : Nat) : Nat → List Nat → Bool
  | _, [] => true
  | acc, x :: post =>
    (!(Nat.ble nT x && allNull C nT post) || Nat.ble (dA1 + acc + eSum C nT post) (dOf C nT x)) &&
    (!(nullableS C nT x) || unitCheck C nT dA1 (acc + eOf C nT x) post)

def prodOK (C : RankCert) (nT lhs : Nat) (rhs : List Nat) : Bool :=
  Nat.ble (dOf C nT (nT + lhs) + 1 + eSum C nT rhs) C.K &&
  (!(allNull C nT rhs) || (nullableS C nT (nT + lhs) && Nat.ble (1 + eSum C nT rhs) (eOf C nT (nT + lhs)))) &&
  unitCheck C nT (dOf C nT (nT + lhs) + 1) 0 rhs

def allProds (f : Nat → List Nat → Bool) : List (Nat × List Nat) → Bool
  | [] => true
  | (a, rhs) :: rest => f a rhs && allProds f rest

def allLe (b : Nat) : List Nat → Bool
  | [] => true
  | x :: rest => Nat.ble x b && allLe b rest

def allLe2 (b : Nat) : List (List Nat) → Bool
  | [] => true
  | c :: rest => allLe b c && allLe2 b rest

/-- every nonterminal with `ne ≠ 0` is listed in `nulls` -/
def neListed (nulls : List Nat) : Nat → List Nat → Bool
  | _, [] => true
  | i, v :: rest => (v == 0 || nulls.contains i) && neListed nulls (i + 1) rest

def gotoRankOK (C : RankCert) (q nt s : Nat) : Bool :=
  !(C.nulls.contains nt) || Nat.blt (rOf C s) (rOf C q)

def ranksOK (T : Tables) (C : RankCert) : Bool :=
  allProds (prodOK C T.numTerminals) T.prods &&
  allLe (C.Emax + 1) C.ne && allLe C.K C.d && allLe2 C.Rmax C.r &&
  neListed C.nulls 0 C.ne &&
  allFrom (fun q row => rowAll (fun nt s => gotoRankOK C q nt s) row) 0 T.goto

/-- the bound on loop iterations per successful source call -/
def RankCert.bound (C : RankCert) : Nat := 2 * C.K + C.Emax * C.Rmax + 1

/-! ### extraction lemmas -/

theorem allProds_get {f : Nat → List Nat → Bool} : ∀ {ps : List (Nat × List Nat)} {p a : Nat} {rhs : List Nat},
    allProds f ps = true → ps[p]? = some (a, rhs) → f a rhs = true
  | [], _, _, _, _, h => by simp at h
  | (b, r) :: rest, 0, a, rhs, hall, h => by
    simp only [allProds, Bool.and_eq_true] at hall
    simp at h; obtain ⟨rfl, rfl⟩ := h; exact hall.1
  | (b, r) :: rest, p + 1, a, rhs, hall, h => by
    simp only [allProds, Bool.and_eq_true] at hall
    simp at h
    exact allProds_get hall.2 h

theorem allLe_get {b : Nat} : ∀ {l : List Nat} {i : Nat}, allLe b l = true → (l[i]?).getD 0 ≤ b
  | [], _, _ => by simp
  | x :: rest, 0, h => by
    simp only [allLe, Bool.and_eq_true, Nat.ble_eq] at h
    simpa using h.1
  | x :: rest, i + 1, h => by
    simp only [allLe, Bool.and_eq_true] at h
    simpa using allLe_get (i := i) h.2

theorem allLe2_get {b : Nat} : ∀ {l : List (List Nat)} {i : Nat} {c : List Nat}, allLe2 b l = true →
    l[i]? = some c → allLe b c = true
  | [], _, _, _, h => by simp at h
  | x :: rest, 0, c, hall, h => by
    simp only [allLe2, Bool.and_eq_true] at hall
    simp at h; subst h; exact hall.1
  | x :: rest, i + 1, c, hall, h => by
    simp only [allLe2, Bool.and_eq_true] at hall
    simp at h
    exact allLe2_get hall.2 h

theorem neListed_get {nulls : List Nat} : ∀ {l : List Nat} {i j : Nat}, neListed nulls i l = true →
    (l[j]?).getD 0 ≠ 0 → nulls.contains (i + j) = true
  | [], _, _, _, h => by simp at h
  | v :: rest, i, 0, hall, h => by
    simp only [neListed, Bool.and_eq_true, Bool.or_eq_true, beq_iff_eq] at hall
    simp at h
    rcases hall.1 with h0 | h0
    · exact absurd h0 h
    · simpa using h0
  | v :: rest, i, j + 1, hall, h => by
    simp only [neListed, Bool.and_eq_true] at hall
    simp at h
    have := neListed_get (i := i + 1) (j := j) hall.2 (by simpa using h)
    rw [show i + (j + 1) = i + 1 + j by omega]; exact this

section facts
variable {T : Tables} {C : RankCert}

theorem rk_prod (h : ranksOK T C = true) {p a : Nat} {rhs : List Nat}
    (hp : T.prods[p]? = some (a, rhs)) : prodOK C T.numTerminals a rhs = true := by
  simp only [ranksOK, Bool.and_eq_true] at h
  exact allProds_get h.1.1.1.1.1 hp

theorem rk_e_le (h : ranksOK T C = true) (x : Nat) : eOf C T.numTerminals x ≤ C.Emax := by
  simp only [ranksOK, Bool.and_eq_true] at h
  unfold eOf neOf
  split
  · omega
  · have := allLe_get (i := x - T.numTerminals) h.1.1.1.1.2
    omega

theorem rk_d_le (h : ranksOK T C = true) (x : Nat) : dOf C T.numTerminals x ≤ C.K := by
  simp only [ranksOK, Bool.and_eq_true] at h
  unfold dOf
  split
  · omega
  · exact allLe_get (i := x - T.numTerminals) h.1.1.1.2

theorem rk_r_le (h : ranksOK T C = true) (s : Nat) : rOf C s ≤ C.Rmax := by
  simp only [ranksOK, Bool.and_eq_true] at h
  unfold rOf
  split
  · next c hc => exact allLe_get (allLe2_get h.1.1.2 hc)
  · omega

theorem rk_listed (h : ranksOK T C = true) {a : Nat}
    (hn : nullableS C T.numTerminals (T.numTerminals + a) = true) : C.nulls.contains a = true := by
  simp only [ranksOK, Bool.and_eq_true] at h
  have h1 := neListed_get (i := 0) (j := a) h.1.2
  simp only [Nat.zero_add] at h1
  apply h1
  simp only [nullableS, neOf, bne_iff_ne, ne_eq] at hn
  rw [if_neg (by omega)] at hn
  simpa using hn

theorem rk_goto (h : ranksOK T C = true) {q nt s : Nat} (hg : gotoOf T q nt = some s)
    (hn : C.nulls.contains nt = true) : rOf C s < rOf C q := by
  simp only [ranksOK, Bool.and_eq_true] at h
  unfold gotoOf at hg
  split at hg
  · next row hrow =>
    have := allFrom_get (i := 0) h.2 hrow
    simp only [Nat.zero_add] at this
    have h2 := rowAll_lookup (P := fun nt s => gotoRankOK C q nt s) this hg
    simp only [gotoRankOK, hn, Bool.not_true, Bool.false_or, Nat.blt_eq] at h2
    exact h2
  · simp at hg

end facts
end CalmVerif.Model.LR
