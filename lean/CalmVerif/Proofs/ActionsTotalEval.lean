/-
Evaluation lemmas for the soundness of the shape typing (Proofs/ActionsTotal.lean): when the position lookups,
the token-map loops and the `spreadMod` mutation of `Model.Actions.evalD` cannot raise a non-library exception.
`NI r`: the result `r` is not an `internal` error.
-/
import CalmVerif.Proofs.ActionsTotalDefs
import CalmVerif.Proofs.NodePosEval
namespace CalmVerif.Proofs.ActionsTotal
open CalmVerif CalmVerif.Model.Actions CalmVerif.Model.ActionDesc CalmVerif.Proofs.NodePos

/-- not an internal (non-library) error -/
def NI {α : Type} (r : Except Err α) : Prop := ∀ w, r ≠ .error (.internal w)

theorem NI_ok {α : Type} (a : α) : NI (Except.ok a : Except Err α) := by intro w h; cases h

theorem NI_production {α : Type} (m : String) : NI (Except.error (.production m) : Except Err α) := by
  intro w h; cases h

/-- the column lookup succeeds for every positive line number the context can hand to it -/
def LcOK (c : Ctx) : Prop :=
  ∀ j ln, c.linenoOf j = some ln → 0 < ln → ∀ lx, (c.lookupCol ln lx).isSome = true

theorem lexposOf_some (c : Ctx) {j : Nat} (h : j ≤ c.slots.length) : ∃ lp, c.lexposOf j = some lp := by
  unfold Ctx.lexposOf
  split
  · exact ⟨_, rfl⟩
  · next hj =>
    have hlt : j - 1 < c.slots.length := by omega
    simp [Ctx.slot?, hj, List.getElem?_eq_getElem hlt]

theorem linenoOf_some (c : Ctx) {j : Nat} (h : j ≤ c.slots.length) : ∃ ln, c.linenoOf j = some ln := by
  unfold Ctx.linenoOf
  split
  · exact ⟨_, rfl⟩
  · next hj =>
    have hlt : j - 1 < c.slots.length := by omega
    simp [Ctx.slot?, hj, List.getElem?_eq_getElem hlt]

theorem slot?_some (c : Ctx) {j : Nat} (h1 : 1 ≤ j) (h : j ≤ c.slots.length) : ∃ pv, c.slot? j = some pv := by
  have hj : j ≠ 0 := by omega
  have hlt : j - 1 < c.slots.length := by omega
  simp [Ctx.slot?, hj, List.getElem?_eq_getElem hlt]

theorem posVal_isPosVal (l n : Nat) (col : Int) : IsPosVal (posVal l n col) := ⟨_, _, _, rfl⟩

theorem findPos_total (c : Ctx) (hlc : LcOK c) {a b cl cp d : Nat} (ha : a ≤ c.slots.length)
    (hb : b ≤ c.slots.length) (hcl : cl ≤ c.slots.length) (hcp : cp ≤ c.slots.length) :
    ∃ q, findPos c a b cl cp d = .ok q ∧ IsPosVal q := by
  obtain ⟨lp, h1⟩ := lexposOf_some c ha
  obtain ⟨ln, h2⟩ := linenoOf_some c hb
  obtain ⟨cln, h3⟩ := linenoOf_some c hcl
  obtain ⟨clp, h4⟩ := lexposOf_some c hcp
  unfold findPos
  simp only [h1, h2, h3, h4]
  split
  · next hpos =>
    have := hlc cl cln h3 hpos clp
    obtain ⟨col, hcol⟩ := Option.isSome_iff_exists.mp this
    simp only [hcol]
    exact ⟨_, rfl, posVal_isPosVal _ _ _⟩
  · exact ⟨_, rfl, posVal_isPosVal _ _ _⟩

/-- what `raiseAt` needs of the value in a slot: if it is a node with a token map, the map holds positions -/
def ValTokWF (v : Val) : Prop :=
  ∀ k as nm tmv, v = .node k as → as.find? (·.1 == "@tokmap") = some (nm, tmv) → TokmapWF tmv

theorem ofNodeTok_total (c : Ctx) {j : Nat} {pv : PVal} (hpv : c.slot? j = some pv) (hwf : ValTokWF pv.v) :
    ∃ q, evalPos c (.ofNodeTok j) = .ok q ∧ IsPosVal q := by
  simp only [evalPos, hpv]
  split
  · next entries hget =>
    refine ⟨_, rfl, ?_⟩
    cases hhit : entries.findSome? (fun e => match e with
        | .list [.str "(", .list (p :: _)] => some p
        | _ => none) with
    | none => exact posVal_isPosVal 0 0 0
    | some p =>
      simp only [Option.getD_some]
      obtain ⟨e, he, hfe⟩ := List.exists_of_findSome?_eq_some hhit
      -- the entry is `["(", p :: _]`
      unfold getAttr Val.attr? at hget
      cases hv : pv.v with
      | node k as =>
        rw [hv] at hget
        simp only [Option.map_eq_some_iff] at hget
        obtain ⟨⟨nm, tmv⟩, hfind, rfl⟩ := hget
        have hw := hwf k as nm _ hv hfind entries rfl e he
        split at hfe
        · next p' ps =>
          simp only [Option.some.injEq] at hfe
          subst hfe
          exact hw "(" p' ps rfl
        · simp at hfe
      | _ => rw [hv] at hget; simp at hget
  · exact ⟨_, rfl, posVal_isPosVal 0 0 0⟩

theorem evalPos_NI (c : Ctx) (hlc : LcOK c) (hwf : ∀ j pv, c.slot? j = some pv → ValTokWF pv.v) {pd : PosD}
    (h : posSafe c.slots.length pd = true) : NI (evalPos c pd) := by
  cases pd with
  | unset => exact NI_ok _
  | «at» j d =>
    simp only [posSafe, decide_eq_true_eq] at h
    obtain ⟨q, hq, _⟩ := findPos_total c hlc (d := d) h h h h
    simp only [evalPos, hq]; exact NI_ok _
  | slots a b cl cp d =>
    simp only [posSafe, Bool.and_eq_true, decide_eq_true_eq] at h
    obtain ⟨q, hq, _⟩ := findPos_total c hlc (d := d) h.1.1.1 h.1.1.2 h.1.2 h.2
    simp only [evalPos, hq]; exact NI_ok _
  | ofNode j =>
    simp only [posSafe, Bool.and_eq_true, decide_eq_true_eq] at h
    obtain ⟨pv, hpv⟩ := slot?_some c h.1 h.2
    simp only [evalPos, hpv]; exact NI_ok _
  | ofNodeTok j =>
    simp only [posSafe, Bool.and_eq_true, decide_eq_true_eq] at h
    obtain ⟨pv, hpv⟩ := slot?_some c h.1 h.2
    obtain ⟨q, hq, _⟩ := ofNodeTok_total c hpv (hwf j pv hpv)
    rw [hq]; exact NI_ok _

theorem evalPos_isVal (c : Ctx) {pd : PosD} {q : Val} (hv : posIsVal pd = true) (h : evalPos c pd = .ok q) :
    IsPosVal q := by
  have key : ∀ a b cl cp d, findPos c a b cl cp d = .ok q → IsPosVal q := by
    intro a b cl cp d hf
    unfold findPos at hf
    split at hf
    · split at hf
      · split at hf
        · simp only [Except.ok.injEq] at hf; rw [← hf]; exact posVal_isPosVal _ _ _
        · simp at hf
      · simp only [Except.ok.injEq] at hf; rw [← hf]; exact posVal_isPosVal _ _ _
    · simp at hf
  cases pd with
  | «at» j d => exact key _ _ _ _ _ (by simpa [evalPos] using h)
  | slots a b cl cp d => exact key _ _ _ _ _ (by simpa [evalPos] using h)
  | _ => simp [posIsVal] at hv

/-! ### folds -/

theorem foldE_NI {α β : Type} {step : α → β → Except Err β} {P : β → Prop}
    (hstep : ∀ a b, P b → NI (step a b) ∧ ∀ b', step a b = .ok b' → P b') :
    ∀ (l : List α) (b : β), P b → NI (foldE step l b) ∧ ∀ b', foldE step l b = .ok b' → P b' := by
  intro l
  induction l with
  | nil =>
    intro b hb
    simp only [foldE]
    exact ⟨NI_ok _, fun b' h => by simp only [Except.ok.injEq] at h; rw [← h]; exact hb⟩
  | cons a l ih =>
    intro b hb
    simp only [foldE]
    obtain ⟨hni, hp⟩ := hstep a b hb
    cases hs : step a b with
    | error e =>
      simp only []
      refine ⟨?_, fun b' h => by simp at h⟩
      intro w hw
      simp only [Except.error.injEq] at hw
      exact hni w (by rw [hs, hw])
    | ok b1 => exact ih b1 (hp b1 hs)

/-- all positions recorded in a token map under construction are position triples -/
def TmVals (tm : TM) : Prop := TmAll (fun _ q => IsPosVal q) tm

theorem tokmapVal_wf {tm : TM} (h : TmVals tm) : TokmapWF (tokmapVal tm) := by
  intro entries heq e he s p ps hform
  simp only [tokmapVal, Val.list.injEq] at heq
  subst heq
  simp only [List.mem_map] at he
  obtain ⟨e0, he0, rfl⟩ := he
  simp only [Val.list.injEq, List.cons.injEq, Val.str.injEq, and_true] at hform
  exact h e0 he0 p (by rw [hform.2]; simp)

theorem emptyTokmap_wf : TokmapWF (.list []) := by
  intro entries heq e he
  simp only [Val.list.injEq] at heq
  subst heq
  simp at he

/-! ### attributes -/

theorem evalAttrs_names {c : Ctx} : ∀ {attrs : List (String × D)} {as : List (String × Val)},
    evalAttrs c attrs = .ok as → as.map (·.1) = attrs.map (·.1)
  | [], as, h => by rw [evalAttrs] at h; simp only [Except.ok.injEq] at h; subst h; rfl
  | (n, d) :: rest, as, h => by
    obtain ⟨x, xs, _, hr, rfl⟩ := evalAttrs_cons_ok h
    simp [evalAttrs_names hr]

theorem evalD_int {c : Ctx} (n : Int) : evalD c (.int n) = .ok (.int n) := by rw [evalD]

theorem evalAttrs_find_int {c : Ctx} {nm : String} : ∀ {attrs : List (String × D)} {as : List (String × Val)},
    evalAttrs c attrs = .ok as → ∀ {n0 : String} {n : Int}, attrs.find? (·.1 == nm) = some (n0, .int n) →
    as.find? (·.1 == nm) = some (n0, .int n)
  | [], as, _, n0, n, hf => by simp at hf
  | (a, d) :: rest, as, h, n0, n, hf => by
    obtain ⟨x, xs, hd, hr, rfl⟩ := evalAttrs_cons_ok h
    simp only [List.find?_cons] at hf ⊢
    by_cases ha : (a == nm) = true
    · simp only [ha] at hf ⊢
      simp only [Option.some.injEq, Prod.mk.injEq] at hf
      obtain ⟨rfl, rfl⟩ := hf
      rw [evalD_int] at hd
      simp only [Except.ok.injEq] at hd
      rw [← hd]
    · simp only [ha] at hf ⊢
      exact evalAttrs_find_int hr hf

theorem firstValueIsInt_spec {attrs : List (String × D)} (h : firstValueIsInt attrs = true) :
    ∃ n0 n, attrs.find? (·.1 == "value") = some (n0, .int n) := by
  unfold firstValueIsInt at h
  split at h
  · next n0 n heq => exact ⟨n0, n, heq⟩
  · simp at h

theorem find?_name_isSome {as : List (String × Val)} {attrs : List (String × D)}
    (hn : as.map (·.1) = attrs.map (·.1)) {nm : String} (h : attrs.any (·.1 == nm) = true) :
    (as.find? (·.1 == nm)).isSome = true := by
  rw [List.find?_isSome]
  rw [List.any_eq_true] at h
  obtain ⟨x, hx, hxn⟩ := h
  have : x.1 ∈ as.map (·.1) := by rw [hn]; exact List.mem_map_of_mem hx
  rw [List.mem_map] at this
  obtain ⟨y, hy, hyx⟩ := this
  exact ⟨y, hy, by rw [hyx]; exact hxn⟩

theorem find?_reserved_none {as : List (String × Val)} {attrs : List (String × D)}
    (hn : as.map (·.1) = attrs.map (·.1)) (h : attrs.all (fun a => !reserved.contains a.1) = true)
    {nm : String} (hr : nm ∈ reserved) : as.find? (·.1 == nm) = none := by
  rw [List.find?_eq_none]
  intro y hy hyn
  have : y.1 ∈ attrs.map (·.1) := by rw [← hn]; exact List.mem_map_of_mem hy
  rw [List.mem_map] at this
  obtain ⟨x, hx, hxy⟩ := this
  have := List.all_eq_true.mp h x hx
  simp only [Bool.not_eq_true', List.contains_eq_mem, decide_eq_false_iff_not] at this
  apply this
  have : y.1 = nm := by simpa using hyn
  rw [hxy, this]; exact hr

/-! ### `setAttr` keeps the integer `value` -/

theorem setAttr_value_int {as : List (String × Val)} (h : hasIntValue as) (m : Int) :
    hasIntValue (setAttr as "value" (.int m)) := by
  obtain ⟨nm, n, hf⟩ := h
  have hany : as.any (·.1 == "value") = true := by
    rw [List.any_eq_true]
    exact ⟨(nm, .int n), List.mem_of_find?_eq_some hf, by simpa using List.find?_some hf⟩
  unfold setAttr
  simp only [hany, if_true]
  refine ⟨"value", m, ?_⟩
  clear hany
  induction as with
  | nil => simp at hf
  | cons a rest ih =>
    simp only [List.find?_cons] at hf
    simp only [List.map_cons, List.find?_cons]
    by_cases ha : (a.1 == "value") = true
    · simp [ha]
    · simp only [ha] at hf
      simp only [ha, Bool.false_eq_true, if_false]
      exact ih hf

theorem setAttr_other_int {as : List (String × Val)} (h : hasIntValue as) {name : String}
    (hne : (name == "value") = false) (y : Val) : hasIntValue (setAttr as name y) := by
  obtain ⟨nm, n, hf⟩ := h
  refine ⟨nm, n, ?_⟩
  unfold setAttr
  split
  · next hany =>
      clear hany
      induction as with
      | nil => simp at hf
      | cons a rest ih =>
        simp only [List.find?_cons] at hf
        simp only [List.map_cons, List.find?_cons]
        by_cases ha : (a.1 == "value") = true
        · have hname : (a.1 == name) = false := by
            have h1 : a.1 = "value" := by simpa using ha
            have h2 : ¬ name = "value" := by simpa using hne
            simp only [beq_eq_false_iff_ne, ne_eq]
            rw [h1]; exact fun h => h2 h.symm
          simp only [ha] at hf
          simp [hname, ha, hf]
        · simp only [ha] at hf
          by_cases hn : (a.1 == name) = true
          · simp only [hn, if_true, hne, Bool.false_eq_true, if_false]
            exact ih hf
          · simp only [hn, Bool.false_eq_true, if_false, ha]
            exact ih hf
  · rw [List.find?_append, hf]; rfl

/-! ### `spreadMod` -/

/-- `p[1][-1].value += 1` -/
def incLast (xs : List Val) : Except Err (List Val) :=
  match xs.reverse with
  | .node k as :: before =>
    match as.find? (·.1 == "value") with
    | some (_, .int n) => .ok ((Val.node k (setAttr as "value" (.int (n + 1))) :: before).reverse)
    | _ => .error (.internal "TypeError")
  | _ => .error (.internal "IndexError")

/-- `p[0][0]._token_map = {',' * p[0][0].value: [q]}` -/
def setFirstTm (q : Val) (xs1 : List Val) : Except Err (List Val) :=
  match xs1 with
  | .node k as :: after =>
    match as.find? (·.1 == "value") with
    | some (_, .int n) => .ok (Val.node k (setAttr as "@tokmap" (tokmapVal [(commas n.toNat, [q])])) :: after)
    | _ => .error (.internal "TypeError")
  | _ => .error (.internal "IndexError")

local macro "leaf" : tactic => `(tactic| first | rfl | (cases evalItems _ _ <;> rfl))

theorem evalItems_spreadMod (c : Ctx) (j : Nat) (li : Bool) (ft : Option PosD) (rest : List Item) :
    evalItems c (.spreadMod j li ft :: rest) =
      match c.slot? j with
      | some pv =>
        match pv.v with
        | .list xs =>
          (match (if li then incLast xs else .ok xs) with
           | .error e => .error e
           | .ok xs1 =>
             match (match ft with
                | some pd => (match evalPos c pd with
                  | .error e => (.error e : Except Err (List Val))
                  | .ok q => setFirstTm q xs1)
                | none => .ok xs1) with
             | .error e => .error e
             | .ok xs2 =>
               match evalItems c rest with
               | .error e => .error e
               | .ok vs => .ok (xs2 ++ vs))
        | _ => .error (.internal "TypeError")
      | none => .error (.internal "IndexError") := by
  rw [evalItems]
  cases c.slot? j with
  | none => leaf
  | some pv =>
    simp only []
    cases pv.v with
    | list xs =>
      simp only [incLast, bind, Except.bind, pure, Except.pure]
      cases li with
      | false =>
        simp only [Bool.false_eq_true, if_false]
        cases ft with
        | none => leaf
        | some pd =>
          simp only [bind, Except.bind, pure, Except.pure, setFirstTm]
          cases evalPos c pd with
          | error e => leaf
          | ok q =>
            simp only []
            cases xs with
            | nil => leaf
            | cons x after =>
              cases x with
              | node k as =>
                simp only []
                generalize List.find? (fun x => x.fst == "value") as = r
                rcases r with _ | ⟨fst, v⟩
                · leaf
                · cases v <;> leaf
              | _ => leaf
      | true =>
        simp only [if_true]
        generalize xs.reverse = rv
        rcases rv with _ | ⟨x0, before⟩
        · leaf
        · cases x0 with
          | node k0 as0 =>
            simp only []
            generalize List.find? (fun x => x.fst == "value") as0 = r0
            rcases r0 with _ | ⟨fst0, v0⟩
            · leaf
            · cases v0 with
              | int n0 =>
                simp only []
                generalize (Val.node k0 (setAttr as0 "value" (Val.int (n0 + 1))) :: before).reverse = ys
                cases ft with
                | none => leaf
                | some pd =>
                  simp only [bind, Except.bind, pure, Except.pure, setFirstTm]
                  cases evalPos c pd with
                  | error e => leaf
                  | ok q =>
                    simp only []
                    cases ys with
                    | nil => leaf
                    | cons x after =>
                      cases x with
                      | node k as =>
                        simp only []
                        generalize List.find? (fun x => x.fst == "value") as = r
                        rcases r with _ | ⟨fst, v⟩
                        · leaf
                        · cases v <;> leaf
                      | _ => leaf
              | _ => leaf
          | _ => leaf
    | _ => leaf

end CalmVerif.Proofs.ActionsTotal
