/-
The tree `Model.Parser.parse` returns, as the unparser reads it: every entry `key ↦ position` of the token map
(`@tokmap`, read with the unparser's `lookupAttr` / `tokmapGet`) of EVERY node of the tree designates (`Des`) a
shifted token whose text is `key` at its ES5-counted position (or the first comma of an elision run, or — with
comments — a hidden comment token attached to a shifted token).

`TreeInv` is the invariant of the value stack that carries this through the run: per reduce step the facts of
Props/C11tok (`node_positions_ok`, `elision_runs_counted`: every node BUILT by the call) are lifted to every node
OCCURRING in the value by `Proofs.EndToEnd.allN_evalD`; older values keep their facts because the log of shifted
tokens only grows.
-/
import CalmVerif.Proofs.EndToEndTree
import CalmVerif.Proofs.ActionsTotalRun
import CalmVerif.Proofs.UnparsePos
import CalmVerif.Props.C11tok
namespace CalmVerif.Proofs.EndToEnd
open CalmVerif CalmVerif.Model CalmVerif.Model.LR CalmVerif.Model.Actions CalmVerif.Model.ActionDesc
open CalmVerif.Proofs.NodePos CalmVerif.Proofs.ActionsTotal CalmVerif.Proofs.ParserDrive
open CalmVerif.Proofs.LexerDrive
open CalmVerif.Props.C11comp CalmVerif.Props.C11tok

abbrev PCfg := Config Lexer.Token PVal Lexer.LexState

/-- what a token-map entry `key ↦ p` designates -/
def Des (text : List Char) (shifted : List Lexer.Token) (key : String) (p : Val) : Prop :=
  (∃ t ∈ shifted, CountedPos text t 0 p ∧
    (String.ofList t.value = key ∨ (String.ofList t.value = "," ∧ ∃ k, key = commas k))) ∨
  (∃ t ∈ shifted, ∃ h ∈ t.hidden, p = posVal h.lexpos h.lineno h.colno ∧ String.ofList h.value = key)

/-- every entry of the node's token map, as the unparser reads it, designates a token -/
def NodeP (text : List Char) (shifted : List Lexer.Token) (_k : String) (as : List (String × Val)) : Prop :=
  ∀ tm key ps p, Unparse.lookupAttr as "@tokmap" = some (.list tm) → Unparse.tokmapGet tm key = .ok ps → p ∈ ps →
    Des text shifted key p

theorem Des.mono {text : List Char} {sh sh' : List Lexer.Token} (hsub : ∀ t ∈ sh, t ∈ sh') {key : String} {p : Val}
    (h : Des text sh key p) : Des text sh' key p := by
  rcases h with ⟨t, ht, h⟩ | ⟨t, ht, h⟩
  · exact Or.inl ⟨t, hsub t ht, h⟩
  · exact Or.inr ⟨t, hsub t ht, h⟩

mutual
  theorem allN_mono {P Q : String → List (String × Val) → Prop} (hPQ : ∀ k as, P k as → Q k as) :
      ∀ (v : Val), AllN P v → AllN Q v
    | .node k as, h => ⟨hPQ k as h.1, allNAttrs_mono hPQ as h.2⟩
    | .list xs, h => allNList_mono hPQ xs h
    | .none, _ => trivial
    | .bool _, _ => trivial
    | .int _, _ => trivial
    | .str _, _ => trivial
  theorem allNAttrs_mono {P Q : String → List (String × Val) → Prop} (hPQ : ∀ k as, P k as → Q k as) :
      ∀ (as : List (String × Val)), AllNAttrs P as → AllNAttrs Q as
    | [], _ => trivial
    | (_, v) :: rest, h => ⟨allN_mono hPQ v h.1, allNAttrs_mono hPQ rest h.2⟩
  theorem allNList_mono {P Q : String → List (String × Val) → Prop} (hPQ : ∀ k as, P k as → Q k as) :
      ∀ (xs : List Val), AllNList P xs → AllNList Q xs
    | [], _ => trivial
    | v :: rest, h => ⟨allN_mono hPQ v h.1, allNList_mono hPQ rest h.2⟩
end

/-! ### the unparser's attribute and token-map look-ups -/

theorem lookupAttr_find (as : List (String × Val)) (a : String) :
    Unparse.lookupAttr as a = (as.find? (·.1 == a)).map (·.2) := by
  induction as with
  | nil => rfl
  | cons b rest ih =>
    obtain ⟨n, x⟩ := b
    simp only [Unparse.lookupAttr, List.find?_cons]
    by_cases h : (n == a) = true
    · simp [h]
    · simp [h, ih]

theorem tokmapGet_tokmapVal {tm : TM} {key : String} {ps : List Val}
    (h : Unparse.tokmapGet (tm.map fun e => Val.list [.str e.1, .list e.2]) key = .ok ps) :
    ps = [] ∨ ∃ e ∈ tm, e.1 = key ∧ ps = e.2 := by
  induction tm with
  | nil => simp only [List.map_nil, Unparse.tokmapGet, Except.ok.injEq] at h; exact Or.inl h.symm
  | cons e rest ih =>
    simp only [List.map_cons, Unparse.tokmapGet] at h
    split at h
    · next heq =>
      simp only [Except.ok.injEq] at h
      exact Or.inr ⟨e, List.mem_cons_self, by simpa using heq, h.symm⟩
    · rcases ih h with h1 | ⟨e', he', h2⟩
      · exact Or.inl h1
      · exact Or.inr ⟨e', List.mem_cons_of_mem _ he', h2⟩

theorem find?_setAttr_other {as : List (String × Val)} {name nm : String} (x : Val)
    (hne : (name == nm) = false) :
    (setAttr as name x).find? (·.1 == nm) = as.find? (·.1 == nm) := by
  unfold setAttr
  split
  · next hany =>
    clear hany
    induction as with
    | nil => rfl
    | cons a rest ih =>
      simp only [List.map_cons, List.find?_cons]
      by_cases ha : (a.1 == name) = true
      · have h1 : a.1 = name := by simpa using ha
        have h2 : (a.1 == nm) = false := by rw [h1]; exact hne
        simp only [ha, if_true, hne, h2]
        exact ih
      · simp only [ha, Bool.false_eq_true, if_false]
        by_cases hb : (a.1 == nm) = true
        · simp [hb]
        · simp only [hb]; exact ih
  · rw [List.find?_append]
    simp only [List.find?_cons, hne, List.find?_nil, Option.or_none]

theorem find?_setAttr_same (as : List (String × Val)) (name : String) (x : Val) :
    (setAttr as name x).find? (·.1 == name) = some (name, x) := by
  unfold setAttr
  split
  · next hany =>
    induction as with
    | nil => simp at hany
    | cons a rest ih =>
      simp only [List.map_cons, List.find?_cons]
      by_cases ha : (a.1 == name) = true
      · simp [ha]
      · simp only [ha, Bool.false_eq_true, if_false]
        simp only [List.any_cons, ha, Bool.false_or] at hany
        exact ih hany
  · next hany =>
    rw [List.find?_append]
    have : as.find? (·.1 == name) = none := by
      rw [List.find?_eq_none]
      intro y hy hyn
      apply hany
      rw [List.any_eq_true]
      exact ⟨y, hy, hyn⟩
    simp [this]

/-- a freshly written single-entry token map designates what its entry designates -/
theorem nodeP_single {text : List Char} {sh : List Lexer.Token} {k : String} {as : List (String × Val)}
    {key : String} {q : Val} (h : Des text sh key q) (hl : Unparse.lookupAttr as "@tokmap" = some (tokmapVal [(key, [q])])) :
    NodeP text sh k as := by
  intro tm key' ps p htm hget hp
  rw [hl] at htm
  simp only [tokmapVal, Option.some.injEq, Val.list.injEq] at htm
  subst htm
  rcases tokmapGet_tokmapVal hget with rfl | ⟨e, he, hk, rfl⟩
  · simp at hp
  · simp only [List.mem_singleton] at he
    subst he
    simp only [List.mem_singleton] at hp
    subst hp
    rw [← hk]; exact h

/-! ### comment nodes -/

theorem allN_commentsOf {text : List Char} {sh : List Lexer.Token} {t : Lexer.Token} (ht : t ∈ sh) {cv : Val}
    (h : commentsOf (Parser.toTok t) = some cv) : AllN (NodeP text sh) cv := by
  unfold commentsOf at h
  simp only [] at h
  split at h
  · simp at h
  · next first p0 rest hcs =>
    simp only [Option.some.injEq] at h
    rw [← h]
    refine ⟨?_, ?_⟩
    · -- the Comments node has an empty token map
      intro tm key ps p htm hget hp
      simp only [Unparse.lookupAttr, beq_iff_eq] at htm
      have h1 : ¬ ("children" = "@tokmap") := by decide
      have h2 : ¬ ("@pos" = "@tokmap") := by decide
      simp only [h1, h2, if_false, if_true, Option.some.injEq, Val.list.injEq] at htm
      subst htm
      simp only [Unparse.tokmapGet, Except.ok.injEq] at hget
      subst hget
      simp at hp
    · simp only [AllNAttrs, and_true]
      refine ⟨?_, ?_, by simp [AllN, AllNList]⟩
      · -- the children
        rw [AllN, allNList_iff]
        intro x hx
        simp only [List.mem_map, List.mem_filterMap] at hx
        obtain ⟨⟨n, p⟩, ⟨⟨ty, value, lp, ln, col⟩, hmem, hk⟩, rfl⟩ := hx
        simp only [Option.map_eq_some_iff, Prod.mk.injEq] at hk
        obtain ⟨k, _, rfl, _⟩ := hk
        -- the hidden token it was made from
        simp only [Parser.toTok, List.mem_map, Prod.mk.injEq] at hmem
        obtain ⟨hc, hhc, _, rfl, rfl, rfl, rfl⟩ := hmem
        refine ⟨?_, ?_⟩
        · refine nodeP_single (key := String.ofList hc.value) (q := posVal hc.lexpos hc.lineno hc.colno)
            (Or.inr ⟨t, ht, hc, hhc, rfl, rfl⟩) ?_
          simp only [Unparse.lookupAttr, beq_iff_eq]
          have h1 : ¬ ("value" = "@tokmap") := by decide
          have h2 : ¬ ("@pos" = "@tokmap") := by decide
          simp [h1, h2]
        · simp only [AllNAttrs, and_true]
          refine ⟨by simp [AllN], allN_posVal _ _ _, ?_⟩
          apply allN_tokmapVal
          intro e he q hq
          simp only [List.mem_singleton] at he
          subst he
          simp only [List.mem_singleton] at hq
          subst hq
          exact allN_posVal _ _ _
      · -- `@pos` of the Comments node: the position of its first child
        have : (first, p0) ∈ (first, p0) :: rest := List.mem_cons_self
        rw [← hcs] at this
        simp only [List.mem_filterMap] at this
        obtain ⟨⟨ty, value, lp, ln, col⟩, _, hk⟩ := this
        simp only [Option.map_eq_some_iff, Prod.mk.injEq] at hk
        obtain ⟨k, _, _, rfl⟩ := hk
        exact allN_posVal _ _ _

/-! ### the structure of a driver step -/

section step
variable {T : Tables} {S : Sem Lexer.Token PVal Lexer.LexState Parser.PErr}
variable {R : Source Lexer.Token Lexer.LexState Parser.PErr}

/-- what a successful step does to the value stack and to the log of shifted tokens -/
theorem step_cases {c c' : PCfg} (hs : step T S R c = .inl c') :
    (∃ t, c'.vals = S.leaf t :: c.vals ∧ c'.shifted = t :: c.shifted) ∨
    (∃ p args st v rest, reduceCall T S R c = some (p, args, st) ∧ S.reduce p args st = .ok v ∧
      c.vals = args.reverse ++ rest ∧ c'.vals = v :: rest ∧ c'.shifted = c.shifted) ∨
    (c'.vals = c.vals ∧ c'.shifted = c.shifted) := by
  unfold step at hs
  split at hs
  · simp at hs
  · next state rest0 hst =>
    split at hs
    · simp at hs
    · next s c1 hf =>
      obtain ⟨_, h2, h3, _⟩ := fetch_spec' hf
      unfold doShift at hs
      split at hs
      · next t _ =>
        simp only [Sum.inl.injEq] at hs
        subst hs
        exact Or.inl ⟨t, by simp [h2], by simp [h3]⟩
      · simp at hs
    · next p c1 hf =>
      obtain ⟨_, h2, h3, _⟩ := fetch_spec' hf
      unfold doReduce at hs
      split at hs
      · simp at hs
      · next lhs rhs hp =>
        split at hs
        · next args restVals ps restStates hpv hps =>
          split at hs
          · simp at hs
          · next v hv =>
            split at hs
            · simp at hs
            · split at hs
              · simp only [Sum.inl.injEq] at hs
                subst hs
                refine Or.inr (Or.inl ⟨p, args.reverse, c1.src, v, restVals, ?_, hv, ?_, rfl, h3⟩)
                · simp [reduceCall, hst, hf, hp, hpv, hps]
                · rw [← h2, List.reverse_reverse]; exact popN_append hpv
              · simp at hs
        · simp at hs
    · split at hs <;> simp at hs
    · next c1 hf =>
      obtain ⟨_, h2, h3, _⟩ := fetch_spec' hf
      unfold doError at hs
      split at hs
      · simp at hs
      · simp at hs
      · simp only [Sum.inl.injEq] at hs
        subst hs
        exact Or.inr (Or.inr ⟨h2, h3⟩)

/-- the accepted value is the top of the value stack -/
theorem step_accepted_mem {c : PCfg} {v : PVal} (hs : step T S R c = .inr (.accepted v)) : v ∈ c.vals := by
  unfold step at hs
  split at hs
  · simp at hs
  · split at hs
    · simp at hs
    · next s c1 hf => unfold doShift at hs; split at hs <;> simp at hs
    · next p c1 hf =>
      unfold doReduce at hs
      split at hs
      · simp at hs
      · split at hs
        · split at hs
          · simp at hs
          · split at hs
            · simp at hs
            · split at hs <;> simp at hs
        · simp at hs
    · next c1 hf =>
      obtain ⟨_, h2, _, _⟩ := fetch_spec' hf
      split at hs
      · next v' rest hv =>
        simp only [Sum.inr.injEq, Outcome.accepted.injEq] at hs
        subst hs
        rw [← h2, hv]; exact List.mem_cons_self
      · simp at hs
    · next c1 hf =>
      unfold doError at hs
      split at hs <;> simp at hs

end step

/-! ### the invariant -/

/-- attribute names of node descriptors never collide with the attributes the node constructor appends -/
def attrNamesOK (table : List Entry) : Bool :=
  table.all fun e => (e.result :: e.exceptions.map (·.2)).all fun d =>
    (nodesOfD true d).all fun x => x.attrs.all fun a => !reserved.contains a.1

/-- every value on the stack: all its nodes have designating token maps; a terminal's token is a shifted token -/
def TreeInv (text : List Char) (c : PCfg) : Prop :=
  ∀ v ∈ c.vals, AllN (NodeP text c.shifted) v.v ∧
    ∀ tk, v.tok = some tk → ∃ t ∈ c.shifted, tk = Parser.toTok t

theorem countedPos_allN {P : String → List (String × Val) → Prop} {text : List Char} {t : Lexer.Token}
    {d : Nat} {q : Val} (h : CountedPos text t d q) : AllN P q := by
  rcases h with ⟨_, _, rfl⟩ | ⟨_, _, rfl⟩ <;> exact allN_posVal _ _ _

/-- the value of a reduce step keeps the invariant -/
theorem reduce_treeinv (hnames : attrNamesOK Gen.Actions.actions = true) {text : List Char} {wc : Bool} {c : PCfg}
    (hinv : TreeInv text c) {p : Nat} {args : List PVal} {st : Lexer.LexState} {pv : PVal}
    (h : ActionCall Parser.source (Lexer.init text wc false) c p args st pv)
    (hargs : ∀ a ∈ args, a ∈ c.vals) :
    AllN (NodeP text c.shifted) pv.v ∧ pv.tok = none := by
  obtain ⟨e, v, he, hev, hpv⟩ := reduce_ok (parser_actsem.reduce h.ok)
  obtain ⟨trees, htrees, hbuilt⟩ := node_positions_ok h
  obtain ⟨trees', htrees', ⟨e1, he1, _, _, _⟩, hcomp⟩ := composition h
  obtain ⟨trees2, e2, htrees2, he2, hruns⟩ := elision_runs_counted h
  rw [he] at he2
  simp only [Option.some.injEq] at he2
  subst he2
  refine ⟨?_, by rw [hpv]⟩
  rw [hpv]
  simp only []
  have hsel := selectRow_mem e (args.map (fun a => kindOf a.v))
  have hnm : ∀ x ∈ nodesOfD true (selectRow e (args.map (fun a => kindOf a.v))),
      x.attrs.all (fun a => !reserved.contains a.1) = true := by
    intro x hx
    have h1 := List.all_eq_true.mp hnames e (List.mem_of_getElem? he)
    have h2 := List.all_eq_true.mp h1 _ hsel
    exact List.all_eq_true.mp h2 x hx
  have hslots : ∀ j pv', (mkCtx args (posOf st) (lcOf st) (wcOf st)).slot? j = some pv' →
      AllN (NodeP text c.shifted) pv'.v ∧ ∀ tk, pv'.tok = some tk → ∃ t ∈ c.shifted, tk = Parser.toTok t := by
    intro j pv' hpv'
    obtain ⟨_, hget⟩ := slot?_succ hpv'
    exact hinv pv' (hargs pv' (List.mem_of_getElem? hget))
  refine allN_evalD (P := NodeP text c.shifted) (fun j pv' hpv' => (hslots j pv' hpv').1) ?_ ?_ true _ _ hev ?_ ?_
  · -- comments
    intro pos
    unfold nodeExtra
    split
    · next cv hcv =>
      simp only [AllNAttrs, and_true]
      split at hcv
      · next idx hwc hidx =>
        split at hcv
        · next pv' hpv' =>
          cases htk : pv'.tok with
          | none => rw [htk] at hcv; simp at hcv
          | some tk =>
            rw [htk] at hcv
            simp only [Option.bind_some] at hcv
            obtain ⟨t, ht, rfl⟩ := (hslots idx pv' hpv').2 tk htk
            exact allN_commentsOf ht hcv
        · simp at hcv
      · simp at hcv
    · trivial
  · -- `value += 1` keeps the token map
    intro k as x hP tm key ps q htm
    rw [lookupAttr_find, find?_setAttr_other x (by decide), ← lookupAttr_find] at htm
    exact hP tm key ps q htm
  · -- freshly built nodes
    intro x hx n k as hn hnk
    obtain ⟨as0, pos, tmv, has, hpos, htmv, hneq⟩ := evalD_node_ok hn
    have hb : BuiltNode Gen.Actions.actions (wcOf st) (lcOf st) p args (posOf st) x n pos tmv :=
      ⟨e, as0, he, hx, hn, hneq⟩
    rw [hneq] at hnk
    simp only [Val.node.injEq] at hnk
    obtain ⟨rfl, rfl⟩ := hnk
    -- the unparser finds the `@tokmap` the constructor appended
    have hnames0 := evalAttrs_names has
    have hnone : as0.find? (·.1 == "@tokmap") = none :=
      find?_reserved_none hnames0 (hnm x hx) (by simp [reserved])
    have hextra : (nodeExtra (mkCtx args (posOf st) (lcOf st) (wcOf st)) x.pos).find? (·.1 == "@tokmap") = none := by
      unfold nodeExtra
      split <;> simp
    have hl : Unparse.lookupAttr (as0 ++ nodeExtra (mkCtx args (posOf st) (lcOf st) (wcOf st)) x.pos ++
        [("@pos", pos), ("@tokmap", tmv)]) "@tokmap" = some tmv := by
      rw [lookupAttr_find, List.append_assoc, List.find?_append, hnone, List.find?_append, hextra]
      have h1 : (("@pos" : String) == "@tokmap") = false := by decide
      simp [List.find?_cons, h1]
    intro tm key ps q htm hget hq
    rw [hl] at htm
    simp only [Option.some.injEq] at htm
    cases hto : x.tokmapOf with
    | none =>
      obtain ⟨tm0, htm0, hent⟩ := (hbuilt x n pos tmv hb).2 hto
      rw [htm0] at htm
      simp only [tokmapVal, Val.list.injEq] at htm
      subst htm
      rcases tokmapGet_tokmapVal hget with rfl | ⟨e0, he0, hk, rfl⟩
      · simp at hq
      · obtain ⟨t, _, hts, hcp, hval⟩ := hent e0 he0 q hq
        refine Or.inl ⟨t, hts, hcp, ?_⟩
        rw [← hk]
        rcases hval with hv | ⟨_, hv, hk'⟩
        · exact Or.inl hv
        · exact Or.inr ⟨hv, hk'⟩
    | some j =>
      -- PropIdentifier shares the token map of the node in slot `j`
      have htok := (hcomp x n pos tmv hb).2
      unfold TokmapOK at htok
      rw [hto] at htok
      obtain ⟨pv', hj, hpv', htmv'⟩ := htok
      have hsl := hinv pv' (hargs pv' (List.mem_of_getElem? hpv'))
      rw [htmv'] at htm
      cases hv' : pv'.v with
      | node k' as' =>
        rw [hv'] at hsl htm
        simp only [getAttr, Val.attr?] at htm
        cases hf : as'.find? (fun p => p.1 == "@tokmap") with
        | none =>
          rw [hf] at htm
          simp only [Option.map_none, Option.getD_none, Val.list.injEq] at htm
          subst htm
          simp only [Unparse.tokmapGet, Except.ok.injEq] at hget
          subst hget
          simp at hq
        | some a =>
          rw [hf] at htm
          simp only [Option.map_some, Option.getD_some] at htm
          refine hsl.1.1 tm key ps q ?_ hget hq
          rw [lookupAttr_find, hf]
          simp [htm]
      | _ =>
        rw [hv'] at htm
        simp only [getAttr, Val.attr?, Option.getD_none, Val.list.injEq] at htm
        subst htm
        simp only [Unparse.tokmapGet, Except.ok.injEq] at hget
        subst hget
        simp at hq
  · -- elision runs
    intro pd hpd q hq
    obtain ⟨q', t, rest, hq', hy, hval, hcp⟩ := hruns pd hpd
    rw [hq] at hq'
    simp only [Except.ok.injEq] at hq'
    subst hq'
    have hts : t ∈ c.shifted := htrees2.shifted (by rw [hy]; simp)
    refine ⟨countedPos_allN hcp, ?_⟩
    intro k as n
    refine nodeP_single (key := commas n) (q := q) (Or.inl ⟨t, hts, hcp, Or.inr ⟨hval, n, rfl⟩⟩) ?_
    rw [lookupAttr_find, find?_setAttr_same]
    rfl

theorem step_treeinv (hnames : attrNamesOK Gen.Actions.actions = true) {text : List Char} {wc : Bool} {c c' : PCfg}
    (hr : Reach Grammar.cached S Parser.source (cfg0 text wc) c) (hinv : TreeInv text c)
    (hs : step Grammar.cached S Parser.source c = .inl c') : TreeInv text c' := by
  have mono : ∀ {sh' : List Lexer.Token}, (∀ t ∈ c.shifted, t ∈ sh') → ∀ v ∈ c.vals,
      AllN (NodeP text sh') v.v ∧ ∀ tk, v.tok = some tk → ∃ t ∈ sh', tk = Parser.toTok t := by
    intro sh' hsub v hv
    obtain ⟨h1, h2⟩ := hinv v hv
    refine ⟨allN_mono (fun k as hP tm key ps p a b d => (hP tm key ps p a b d).mono hsub) _ h1, ?_⟩
    intro tk htk
    obtain ⟨t, ht, rfl⟩ := h2 tk htk
    exact ⟨t, hsub t ht, rfl⟩
  rcases step_cases hs with ⟨t, hvals, hsh⟩ | ⟨p, args, st, v, rest, hcall, hred, hvals, hvals', hsh⟩ | ⟨hvals, hsh⟩
  · intro v hv
    rw [hvals] at hv
    simp only [List.mem_cons] at hv
    rcases hv with rfl | hv
    · rw [hsh]
      refine ⟨by simp [Parser.sem, Actions.leaf, AllN], ?_⟩
      intro tk htk
      simp only [Parser.sem, Actions.leaf, Option.some.injEq] at htk
      exact ⟨t, List.mem_cons_self, htk.symm⟩
    · rw [hsh]; exact mono (fun t ht => List.mem_cons_of_mem _ ht) v hv
  · intro w hw
    rw [hvals'] at hw
    rw [hsh]
    simp only [List.mem_cons] at hw
    rcases hw with rfl | hw
    · have hargs : ∀ a ∈ args, a ∈ c.vals := by
        intro a ha
        rw [hvals]
        exact List.mem_append_left _ (by simpa using ha)
      obtain ⟨h1, h2⟩ := reduce_treeinv hnames hinv ⟨hr, hcall, hred⟩ hargs
      exact ⟨h1, by rw [h2]; intro tk htk; cases htk⟩
    · exact hinv w (by rw [hvals]; exact List.mem_append_right _ hw)
  · intro v hv
    rw [hvals] at hv
    rw [hsh]
    exact hinv v hv

theorem reach_treeinv (hnames : attrNamesOK Gen.Actions.actions = true) {text : List Char} {wc : Bool} {c : PCfg}
    (hr : Reach Grammar.cached S Parser.source (cfg0 text wc) c) : TreeInv text c := by
  induction hr with
  | refl => intro v hv; simp [initConfig] at hv
  | step hr' hs ih => exact step_treeinv hnames hr' ih hs

end CalmVerif.Proofs.EndToEnd
