/-
Positions do not influence what the walk yields, part 2: the simulation of `walkNode` / `walkRule`
under a position erasure (Proofs/RoundTripErase.lean), by induction on the fuel.
-/
import CalmVerif.Proofs.RoundTripErase
namespace CalmVerif.Unparse
open CalmVerif

variable {σ : Type}

/-- same outcome state, same chunks up to `proj` -/
def SimRes (r r' : Except Err (List Chunk × σ)) : Prop :=
  ∀ cs s', r = .ok (cs, s') → ∃ cs', r' = .ok (cs', s') ∧ cs'.map proj = cs.map proj

/-- the recursive callback is simulated under `e` (for every stack top on either side) -/
def SimFn (e : Val → Val) (wn : WalkFn σ) : Prop :=
  ∀ path src src' node defn s, SimRes (wn path src node defn s) (wn path src' (e node) defn s)

def eraseAct (e : Val → Val) : JAct → JAct
  | .item st v => .item st (e v)
  | .sep => .sep
  | .esep => .esep

theorem seqM_map {α β : Type} (f : β → σ → Except Err (List Chunk × σ)) (g : α → β) :
    ∀ (xs : List α) (s : σ), seqM f (xs.map g) s = seqM (fun x => f (g x)) xs s := by
  intro xs
  induction xs with
  | nil => intro s; rfl
  | cons x xs ih =>
    intro s
    simp only [List.map_cons, seqM]
    cases f (g x) s with
    | error err => rfl
    | ok r => obtain ⟨c1, s1⟩ := r; simp only [ih s1]

theorem seqM_sim {α : Type} (f f' : α → σ → Except Err (List Chunk × σ))
    (hf : ∀ x s, SimRes (f x s) (f' x s)) :
    ∀ (xs : List α) (s : σ), SimRes (seqM f xs s) (seqM f' xs s) := by
  intro xs
  induction xs with
  | nil =>
    intro s cs s' h
    rw [seqM_nil_ok] at h
    exact ⟨[], by rw [seqM_nil_ok]; exact ⟨rfl, h.2⟩, by rw [h.1]⟩
  | cons x xs ih =>
    intro s cs s' h
    rw [seqM_cons_ok] at h
    obtain ⟨c1, s1, c2, h1, h2, rfl⟩ := h
    obtain ⟨c1', g1, e1⟩ := hf x s c1 s1 h1
    obtain ⟨c2', g2, e2⟩ := ih s1 c2 s' h2
    refine ⟨c1' ++ c2', ?_, by simp [e1, e2]⟩
    rw [seqM_cons_ok]
    exact ⟨c1', s1, c2', g1, g2, rfl⟩

theorem joinActs_map (e : Val → Val) (items : List (Step × Val)) :
    joinActs (mapItems e items) = (joinActs items).map (eraseAct e) := by
  cases items with
  | nil => rfl
  | cons x rest =>
    obtain ⟨st, v⟩ := x
    simp only [mapItems, List.map_cons, joinActs, eraseAct, List.cons.injEq, true_and]
    induction rest with
    | nil => rfl
    | cons y ys ih =>
      simp only [List.map_cons, List.flatMap_cons, List.cons_append, List.nil_append, eraseAct, List.map_append,
        List.cons.injEq, true_and]
      exact ih

theorem elisionActsAux_map {e : Val → Val} (he : PE e) (ek : List String) : ∀ (items : List (Step × Val)) (prev : Val),
    elisionActsAux ek (e prev) (mapItems e items) = (elisionActsAux ek prev items).map (eraseAct e) := by
  intro items
  induction items with
  | nil => intro prev; rfl
  | cons x rest ih =>
    intro prev
    obtain ⟨st, v⟩ := x
    simp only [mapItems, List.map_cons, elisionActsAux, pe_isKind he, List.map_append, eraseAct]
    have := ih v
    simp only [mapItems] at this
    rw [this]
    congr 1
    · congr 1
      · split <;> rfl
      · split <;> rfl

theorem elisionActs_map {e : Val → Val} (he : PE e) (ek : List String) (items : List (Step × Val)) :
    elisionActs ek (mapItems e items) = (elisionActs ek items).map (eraseAct e) := by
  cases items with
  | nil => rfl
  | cons x rest =>
    obtain ⟨st, v⟩ := x
    have := elisionActsAux_map he ek rest v
    simp only [mapItems] at this
    simp only [mapItems, List.map_cons, elisionActs, eraseAct, this]

/-- the plain printers use the default token handler (or none) -/
def PlainTok (cfg : Cfg σ) : Prop := cfg.tokenHandler = Option.none ∨ cfg.tokenHandler = some .strDefault

section
variable {cfg : Cfg σ} (hc : NoHooks cfg) (ht : PlainTok cfg) {e : Val → Val} (he : PE e)
include hc ht he

omit hc in
theorem emitToken_sim (pos : Option Int) (cur : Val) (src src' : Src) (v : Val) (cs : List Chunk)
    (h : emitToken cfg pos cur src v = .ok cs) :
    ∃ cs', emitToken cfg pos (e cur) src' (e v) = .ok cs' ∧ cs'.map proj = cs.map proj := by
  cases v with
  | str t =>
    rw [he.str]
    simp only [emitToken] at h ⊢
    obtain ⟨fs, h1, h2⟩ := except_map_ok h
    subst h2
    rcases ht with ht | ht
    · rw [ht] at h1 ⊢
      simp only [tokenHandler, Except.ok.injEq] at h1
      subst h1
      exact ⟨[], by simp [tokenHandler, Except.map], rfl⟩
    · rw [ht] at h1 ⊢
      simp only [tokenHandler, tokenStrDefault] at h1 ⊢
      cases pos with
      | none =>
        simp only [Except.ok.injEq] at h1
        subst h1
        exact ⟨[.frag { text := t, line := Option.none, col := Option.none, name := Option.none, source := src' }],
          by simp [Except.map], by simp [proj]⟩
      | some i =>
        simp only at h1 ⊢
        cases hg : getpos cur t i with
        | error x => rw [hg] at h1; cases h1
        | ok p =>
          rw [hg] at h1
          obtain ⟨p', hp'⟩ := he.getpos cur t i p hg
          rw [hp']
          simp only [Except.ok.injEq] at h1
          subst h1
          exact ⟨[.frag { text := t, line := p'.1, col := p'.2, name := Option.none, source := src' }],
            by simp [Except.map], by simp [proj]⟩
  | none => simp [emitToken] at h
  | bool b => simp [emitToken] at h
  | int i => simp [emitToken] at h
  | list xs => simp [emitToken] at h
  | node k as => simp [emitToken] at h

omit hc in
theorem walkValue_sim (wn : WalkFn σ) (hwn : SimFn e wn) (path : Path) (src src' : Src) (cur : Val)
    (pos : Option Int) (st : Step) (v : Val) (s : σ) :
    SimRes (walkValue cfg wn path src cur pos st v s) (walkValue cfg wn path src' (e cur) pos st (e v) s) := by
  intro cs s' h
  cases v with
  | node k as =>
    obtain ⟨as', has⟩ := he.node k as
    have := hwn (st :: path) src src' (.node k as) Option.none s cs s' (by simpa [walkValue] using h)
    rw [has] at this ⊢
    simpa [walkValue] using this
  | str t =>
    simp only [walkValue] at h
    obtain ⟨c, h1, h2⟩ := except_map_ok h
    simp only [Prod.mk.injEq] at h2
    obtain ⟨c', g1, g2⟩ := emitToken_sim ht he pos cur src src' (.str t) c h1
    rw [he.str] at g1 ⊢
    exact ⟨c', by simp [walkValue, g1, Except.map, h2.2], by rw [g2, h2.1]⟩
  | none =>
    simp only [walkValue] at h
    obtain ⟨c, h1, h2⟩ := except_map_ok h
    simp [emitToken] at h1
  | bool b =>
    simp only [walkValue] at h
    obtain ⟨c, h1, h2⟩ := except_map_ok h
    simp [emitToken] at h1
  | int i =>
    simp only [walkValue] at h
    obtain ⟨c, h1, h2⟩ := except_map_ok h
    simp [emitToken] at h1
  | list xs =>
    simp only [walkValue] at h
    obtain ⟨c, h1, h2⟩ := except_map_ok h
    simp [emitToken] at h1

omit hc in
theorem runAct_sim (wn : WalkFn σ) (hwn : SimFn e wn) (hwn0 : SimFn id wn) (path : Path) (src src' : Src) (cur : Val)
    (pos : Option Int) (sep : List Rule) (a : JAct) (s : σ) :
    SimRes (runAct cfg wn path src cur pos sep a s) (runAct cfg wn path src' (e cur) pos sep (eraseAct e a) s) := by
  cases a with
  | item st v => exact walkValue_sim ht he wn hwn path src src' cur pos st v s
  | sep => exact hwn path src src' cur (some sep) s
  | esep => exact hwn0 (("@sep", 0) :: path) src src' cfg.elisionSep Option.none s

omit hc in
theorem acts_sim (wn : WalkFn σ) (hwn : SimFn e wn) (hwn0 : SimFn id wn) (path : Path) (src src' : Src) (cur : Val)
    (pos : Option Int) (sep : List Rule) (as : List JAct) (s : σ) :
    SimRes (seqM (runAct cfg wn path src cur pos sep) as s)
      (seqM (runAct cfg wn path src' (e cur) pos sep) (as.map (eraseAct e)) s) := by
  rw [seqM_map]
  exact seqM_sim _ _ (fun a s => runAct_sim ht he wn hwn hwn0 path src src' cur pos sep a s) as s

theorem ruleStep_sim (wn : WalkFn σ) (hwn : SimFn e wn) (hwn0 : SimFn id wn) (path : Path) (src src' : Src)
    (node : Val) (rule : Rule) (s : σ) :
    SimRes (ruleStep cfg wn path src node rule s) (ruleStep cfg wn path src' (e node) rule s) := by
  intro cs s' h
  cases rule with
  | layout m =>
    simp only [ruleStep] at h ⊢
    split at h
    · simp only [Except.ok.injEq, Prod.mk.injEq] at h
      exact ⟨_, by rw [h.2], by rw [← h.1]; simp [proj, pe_kindOpt he]⟩
    · simp only [Except.ok.injEq, Prod.mk.injEq] at h
      exact ⟨[], by rw [h.2], by rw [← h.1]⟩
  | struct m =>
    simp only [ruleStep, hc.struct m] at h ⊢
    simp only [Except.ok.injEq, Prod.mk.injEq] at h
    exact ⟨[], by rw [h.2], by rw [← h.1]⟩
  | text v pos =>
    simp only [ruleStep] at h ⊢
    obtain ⟨c, h1, h2⟩ := except_map_ok h
    simp only [Prod.mk.injEq] at h2
    obtain ⟨c', g1, g2⟩ := emitToken_sim ht he pos node src src' (.str v) c h1
    rw [he.str] at g1
    exact ⟨c', by simp [g1, Except.map, h2.2], by rw [g2, h2.1]⟩
  | attr a pos =>
    simp only [ruleStep] at h ⊢
    cases hg : getSrc cfg path node a s with
    | error x => rw [hg] at h; cases h
    | ok r =>
      obtain ⟨v, s1⟩ := r
      rw [hg] at h
      rw [pe_getSrc hc he path node a s v s1 hg]
      simp only [pe_isEmpty he] at h ⊢
      split at h
      · rename_i hem
        simp only [Except.ok.injEq, Prod.mk.injEq] at h
        exact ⟨[], by rw [if_pos hem, h.2], by rw [← h.1]⟩
      · rename_i hem
        rw [if_neg hem]
        exact walkValue_sim ht he wn hwn path src src' node pos _ v s1 cs s' h
  | commentsAttr a pos =>
    simp only [ruleStep] at h ⊢
    cases hg : getSrc cfg path node a s with
    | error x => rw [hg] at h; cases h
    | ok r =>
      obtain ⟨v, s1⟩ := r
      rw [hg] at h
      rw [pe_getSrc hc he path node a s v s1 hg]
      simp only [pe_isEmpty he] at h ⊢
      split at h
      · rename_i hem
        simp only [Except.ok.injEq, Prod.mk.injEq] at h
        exact ⟨[], by rw [if_pos hem, h.2], by rw [← h.1]⟩
      · rename_i hem
        rw [if_neg hem]
        exact walkValue_sim ht he wn hwn path src src' node pos _ v s1 cs s' h
  | operator a value pos =>
    simp only [ruleStep] at h ⊢
    cases a with
    | some n =>
      simp only at h ⊢
      rw [pe_getattr he]
      cases hg : getattrVal node n with
      | error x => rw [hg] at h; cases h
      | ok v =>
        rw [hg] at h
        simp only [Except.map, pe_isEmpty he] at h ⊢
        split at h
        · rename_i hem
          simp only [Except.ok.injEq, Prod.mk.injEq] at h
          exact ⟨[], by rw [if_pos hem, h.2], by rw [← h.1]⟩
        · rename_i hem
          rw [if_neg hem]
          exact walkValue_sim ht he wn hwn path src src' node pos _ v s cs s' h
    | none =>
      simp only at h ⊢
      cases value with
      | some t =>
        simp only [isEmptyVal] at h ⊢
        have := walkValue_sim ht he wn hwn path src src' node pos ((Option.none : Option String).getD "value", 0) (.str t) s cs s'
          (by simpa using h)
        rw [he.str] at this
        simpa using this
      | none =>
        simp only [isEmptyVal] at h ⊢
        simp only [if_true, Except.ok.injEq, Prod.mk.injEq] at h ⊢
        exact ⟨[], ⟨rfl, h.2⟩, by rw [← h.1]⟩
  | optional a body =>
    simp only [ruleStep] at h ⊢
    rw [pe_getattr he]
    cases hg : getattrVal node a with
    | error x => rw [hg] at h; cases h
    | ok v =>
      rw [hg] at h
      simp only [Except.map, pe_isEmpty he] at h ⊢
      split at h
      · rename_i hem
        simp only [Except.ok.injEq, Prod.mk.injEq] at h
        exact ⟨[], by rw [if_pos hem, h.2], by rw [← h.1]⟩
      · rename_i hem
        rw [if_neg hem]
        exact hwn path src src' node (some body) s cs s' h
  | joinAttr a sep pos =>
    simp only [ruleStep] at h ⊢
    cases hg : getIter cfg path node a s with
    | error x => rw [hg] at h; cases h
    | ok r =>
      obtain ⟨items, s1⟩ := r
      rw [hg] at h
      rw [pe_getIter hc he path node a s items s1 hg]
      simp only at h ⊢
      rw [joinActs_map]
      exact acts_sim ht he wn hwn hwn0 path src src' node pos sep _ s1 cs s' h
  | elisionToken a value pos =>
    simp only [ruleStep] at h ⊢
    cases hg : getSrc cfg path node a s with
    | error x => rw [hg] at h; cases h
    | ok r =>
      obtain ⟨v, s1⟩ := r
      rw [hg] at h
      rw [pe_getSrc hc he path node a s v s1 hg]
      cases v with
      | int n =>
        simp only [he.int] at h ⊢
        obtain ⟨c, h1, h2⟩ := except_map_ok h
        simp only [Prod.mk.injEq] at h2
        obtain ⟨c', g1, g2⟩ := emitToken_sim ht he pos node src src' (.str (strMul value n)) c h1
        rw [he.str] at g1
        exact ⟨c', by simp [g1, Except.map, h2.2], by rw [g2, h2.1]⟩
      | bool b =>
        simp only [he.bool] at h ⊢
        obtain ⟨c, h1, h2⟩ := except_map_ok h
        simp only [Prod.mk.injEq] at h2
        obtain ⟨c', g1, g2⟩ := emitToken_sim ht he pos node src src' (.str (strMul value (if b then 1 else 0))) c h1
        rw [he.str] at g1
        exact ⟨c', by simp [g1, Except.map, h2.2], by rw [g2, h2.1]⟩
      | none => cases h
      | str t => cases h
      | list xs => cases h
      | node k as => cases h
  | elisionJoinAttr a sep pos =>
    simp only [ruleStep] at h ⊢
    cases hg : getIter cfg path node a s with
    | error x => rw [hg] at h; cases h
    | ok r =>
      obtain ⟨items, s1⟩ := r
      rw [hg] at h
      rw [pe_getIter hc he path node a s items s1 hg]
      simp only at h ⊢
      rw [elisionActs_map he]
      exact acts_sim ht he wn hwn hwn0 path src src' node pos sep _ s1 cs s' h

omit hc ht in
theorem nodeStep_sim (wr : Path → Src → Val → Rule → σ → Except Err (List Chunk × σ))
    (hwr : ∀ q sr sr' n r s, SimRes (wr q sr n r s) (wr q sr' (e n) r s))
    (path : Path) (src src' : Src) (node : Val) (defn : Option (List Rule)) (s : σ) :
    SimRes (nodeStep cfg wr path src node defn s) (nodeStep cfg wr path src' (e node) defn s) := by
  intro cs s' h
  cases node with
  | node kind as =>
    obtain ⟨as', has⟩ := he.node kind as
    rw [has]
    have key : ∀ rules, SimRes (seqM (wr path (pushSource src (.node kind as)) (.node kind as)) rules s)
        (seqM (wr path (pushSource src' (.node kind as')) (.node kind as')) rules s) := fun rules =>
      seqM_sim (wr path (pushSource src (.node kind as)) (.node kind as))
        (wr path (pushSource src' (.node kind as')) (.node kind as'))
        (fun r s => by rw [← has]; exact hwr path _ _ (.node kind as) r s) rules s
    cases defn with
    | some d =>
      simp only [nodeStep] at h ⊢
      exact key d cs s' h
    | none =>
      simp only [nodeStep] at h ⊢
      cases hl : lookupDef cfg.defs kind with
      | none => rw [hl] at h; cases h
      | some rules =>
        rw [hl] at h
        simp only at h ⊢
        exact key rules cs s' h
  | none => simp [nodeStep] at h
  | bool b => simp [nodeStep] at h
  | int i => simp [nodeStep] at h
  | str t => simp [nodeStep] at h
  | list xs => simp [nodeStep] at h

end

/-- the walk is simulated under every position erasure, for every fuel -/
theorem walk_sim {cfg : Cfg σ} (hc : NoHooks cfg) (ht : PlainTok cfg) : ∀ (fuel : Nat) (e : Val → Val), PE e →
    SimFn e (walkNode cfg fuel) ∧
    (∀ q sr sr' n r s, SimRes (walkRule cfg fuel q sr n r s) (walkRule cfg fuel q sr' (e n) r s)) := by
  intro fuel
  induction fuel with
  | zero =>
    intro e _
    constructor
    · intro path src src' node defn s cs s' h; simp [walkNode] at h
    · intro q sr sr' n r s cs s' h; simp [walkRule] at h
  | succ fuel ih =>
    intro e he
    constructor
    · intro path src src' node defn s
      simp only [walkNode]
      exact nodeStep_sim he _ (ih e he).2 path src src' node defn s
    · intro q sr sr' n r s
      simp only [walkRule]
      exact ruleStep_sim hc ht he _ (ih e he).1 (ih id pe_id).1 q sr sr' n r s

end CalmVerif.Unparse
