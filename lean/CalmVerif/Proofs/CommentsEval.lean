/-
C13, action level: the interpreter of the semantic-action descriptors commutes with the erasure of comments.
-/
import CalmVerif.Proofs.CommentsErase
import CalmVerif.Proofs.CommentsTable

namespace CalmVerif.Proofs.Comments
open CalmVerif CalmVerif.Model.Actions CalmVerif.Model.ActionDesc

/-- the context of an action run without capture on erased arguments -/
def eraseCtx (c : Ctx) : Ctx := { c with slots := c.slots.map erasePV, withComments := false }

def mapE : Except Err Val → Except Err Val
  | .ok v => .ok (eraseV v)
  | .error e => .error e

@[simp] theorem mapE_ok (v : Val) : mapE (.ok v) = .ok (eraseV v) := rfl
@[simp] theorem mapE_error (e : Err) : mapE (.error e) = .error e := rfl

theorem slot?_erase (c : Ctx) (j : Nat) : (eraseCtx c).slot? j = (c.slot? j).map erasePV := by
  unfold Ctx.slot? eraseCtx
  by_cases hj : j = 0
  · simp [hj]
  · simp [hj, List.getElem?_map]

theorem lexposOf_erase (c : Ctx) (j : Nat) : (eraseCtx c).lexposOf j = c.lexposOf j := by
  unfold Ctx.lexposOf
  rw [slot?_erase]
  by_cases hj : j = 0
  · simp [hj, eraseCtx]
  · simp only [hj, if_false, Option.map_map]
    cases c.slot? j <;> rfl

theorem linenoOf_erase (c : Ctx) (j : Nat) : (eraseCtx c).linenoOf j = c.linenoOf j := by
  unfold Ctx.linenoOf
  rw [slot?_erase]
  by_cases hj : j = 0
  · simp [hj, eraseCtx]
  · simp only [hj, if_false, Option.map_map]
    cases c.slot? j <;> rfl

theorem findPos_erase (c : Ctx) (a b cl cp d : Nat) : findPos (eraseCtx c) a b cl cp d = findPos c a b cl cp d := by
  unfold findPos
  rw [lexposOf_erase, linenoOf_erase, linenoOf_erase, lexposOf_erase]
  rfl

theorem mapE_findPos (c : Ctx) (a b cl cp d : Nat) : mapE (findPos c a b cl cp d) = findPos c a b cl cp d := by
  unfold findPos
  split
  · split
    · split <;> simp
    · simp
  · rfl

/-- the look-up `findpos`-by-token-map does in the `(` entry of a token map -/
def tokHit (e : Val) : Option Val :=
  match e with
  | .list [.str "(", .list (p :: _)] => some p
  | _ => none

theorem evalPos_ofNodeTok (c : Ctx) (j : Nat) :
    evalPos c (.ofNodeTok j) =
      match c.slot? j with
      | some pv =>
        match getAttr pv.v "@tokmap" with
        | some (.list entries) => .ok ((entries.findSome? tokHit).getD (posVal 0 0 0))
        | _ => .ok (posVal 0 0 0)
      | none => .error (.internal "IndexError") := rfl

theorem tokHit_erase (e : Val) : tokHit (eraseV e) = (tokHit e).map eraseV := by
  cases e with
  | list xs =>
    cases xs with
    | nil => simp [tokHit]
    | cons a xs1 =>
      cases xs1 with
      | nil => simp [tokHit]
      | cons b xs2 =>
        cases xs2 with
        | cons c xs3 => simp [tokHit]
        | nil =>
          cases a with
          | str s =>
            by_cases hs : s = "("
            · subst hs
              cases b with
              | list ys =>
                cases ys with
                | nil => simp [tokHit]
                | cons p t => simp [tokHit]
              | _ => simp [tokHit]
            · simp [tokHit, hs]
          | _ => simp [tokHit]
  | _ => simp [tokHit]

theorem findSome_eraseVs (f : Val → Option Val) (hf : ∀ e, f (eraseV e) = (f e).map eraseV) (es : List Val) :
    (eraseVs es).findSome? f = (es.findSome? f).map eraseV := by
  induction es with
  | nil => simp
  | cons e rest ih =>
    simp only [eraseVs_cons, List.findSome?_cons, hf]
    cases f e <;> simp [ih]

theorem evalPos_erase (c : Ctx) (pd : PosD) : evalPos (eraseCtx c) pd = mapE (evalPos c pd) := by
  cases pd with
  | unset => simp [evalPos]
  | «at» j d => simp only [evalPos, findPos_erase, mapE_findPos]
  | slots a b cl cp d => simp only [evalPos, findPos_erase, mapE_findPos]
  | ofNode j =>
    simp only [evalPos, slot?_erase]
    cases c.slot? j with
    | none => rfl
    | some pv =>
      simp only [Option.map_some, erasePV, mapE_ok]
      rw [getAttr_erase _ _ (by decide)]
      cases getAttr pv.v "@pos" <;> simp
  | ofNodeTok j =>
    rw [evalPos_ofNodeTok, evalPos_ofNodeTok, slot?_erase]
    cases c.slot? j with
    | none => rfl
    | some pv =>
      simp only [Option.map_some, erasePV]
      rw [getAttr_erase _ _ (by decide)]
      cases getAttr pv.v "@tokmap" with
      | none => simp
      | some tmv =>
        cases tmv with
        | list entries =>
          simp only [Option.map_some, eraseV_list, mapE_ok, findSome_eraseVs tokHit tokHit_erase]
          cases entries.findSome? tokHit <;> simp
        | _ => simp

/-! ### the `.node` case of `evalD`, after the attributes have been evaluated (same text as in Model.Actions) -/

def nodeTail (c : Ctx) (kind : String) (pos : PosD) (tokSlots : List Nat) (tokmap : List (TextSrc × PosD))
    (tokmapOf : Option Nat) (as : List (String × Val)) : Except Err Val := do
      let p ← evalPos c pos
      -- token map
      let tmv ← match tokmapOf with
        | some j => match c.slot? j with
          | some pv => pure ((getAttr pv.v "@tokmap").getD (.list []))
          | none => throw (.internal "IndexError")
        | none => do
          let mut tm : List (String × List Val) := []
          for j in tokSlots do
            match c.slot? j with
            | some pv => match pv.v with
              | .str s =>
                let q ← findPos c j j j j 0
                tm := tokmapAdd tm s q
              | _ => pure ()        -- not a string at run time: `setpos` skips it
            | none => throw (.internal "IndexError")
          for (src, pd) in tokmap do
            let q ← evalPos c pd
            let text ← match src with
              | .slotText j => match c.slot? j with
                | some pv => match pv.v with
                  | .str s => pure s
                  | _ => throw (.internal "token map text is not a string")
                | none => throw (.internal "IndexError")
              | .const s => pure s
              | .commas => match as.find? (·.1 == "value") with
                | some (_, .int n) => pure (commas n.toNat)
                | _ => throw (.internal "TypeError")
            tm := tokmapAdd tm text q
          pure (tokmapVal tm)
      -- comments: only when `setpos` ran on a LexToken slot
      let cm : Option Val := match c.withComments, setposIdx pos with
        | true, some idx => match c.slot? idx with
          | some pv => pv.tok.bind commentsOf
          | none => none
        | _, _ => none
      let extra := match cm with
        | some cv => [("@comments", cv)]
        | none => []
      pure (.node kind (as ++ extra ++ [("@pos", p), ("@tokmap", tmv)]))

theorem evalD_node (c : Ctx) (kind : String) (attrs : List (String × D)) (pos : PosD) (tokSlots : List Nat)
    (tokmap : List (TextSrc × PosD)) (tokmapOf : Option Nat) :
    evalD c (.node kind attrs pos tokSlots tokmap tokmapOf) =
      (evalAttrs c attrs) >>= nodeTail c kind pos tokSlots tokmap tokmapOf := by
  rw [evalD]
  rfl

abbrev TM := List (String × List Val)

/-! ### the pieces of `nodeTail` -/

/-- body of `for j in tokSlots` -/
def body1 (c : Ctx) (j : Nat) (tm : List (String × List Val)) : Except Err (ForInStep (List (String × List Val))) :=
  match c.slot? j with
  | some pv =>
    match pv.v with
    | .str s =>
      match findPos c j j j j 0 with
      | .error err => .error err
      | .ok q => .ok (.yield (tokmapAdd tm s q))
    | _ => .ok (.yield tm)
  | none => .error (.internal "IndexError")

/-- body of `for (src, pd) in tokmap` -/
def body2 (c : Ctx) (as : List (String × Val)) (x : TextSrc × PosD) (tm : List (String × List Val)) :
    Except Err (ForInStep (List (String × List Val))) :=
  match evalPos c x.2 with
  | .error err => .error err
  | .ok q =>
    match x.1 with
    | .slotText j =>
      match c.slot? j with
      | some pv =>
        match pv.v with
        | .str s => .ok (.yield (tokmapAdd tm s q))
        | _ => .error (.internal "token map text is not a string")
      | none => .error (.internal "IndexError")
    | .const s => .ok (.yield (tokmapAdd tm s q))
    | .commas =>
      match as.find? (·.1 == "value") with
      | some (_, .int n) => .ok (.yield (tokmapAdd tm (commas n.toNat) q))
      | _ => .error (.internal "TypeError")

/-- the `_token_map` of the node -/
def tmvOf (c : Ctx) (tokSlots : List Nat) (tokmap : List (TextSrc × PosD)) (tokmapOf : Option Nat)
    (as : List (String × Val)) : Except Err Val :=
  match tokmapOf with
  | some j =>
    match c.slot? j with
    | some pv => .ok ((getAttr pv.v "@tokmap").getD (.list []))
    | none => .error (.internal "IndexError")
  | none =>
    match forIn tokSlots [] (body1 c) with
    | .error err => .error err
    | .ok t1 =>
      match forIn tokmap t1 (body2 c as) with
      | .error err => .error err
      | .ok t2 => .ok (tokmapVal t2)

/-- the `comments` attribute `setpos` adds -/
def extraOf (c : Ctx) (pos : PosD) : List (String × Val) :=
  match (match c.withComments, setposIdx pos with
    | true, some idx => match c.slot? idx with
      | some pv => pv.tok.bind commentsOf
      | none => none
    | _, _ => none : Option Val) with
  | some cv => [("@comments", cv)]
  | none => []

theorem nodeTail_eq (c : Ctx) (kind : String) (pos : PosD) (tokSlots : List Nat) (tokmap : List (TextSrc × PosD))
    (tokmapOf : Option Nat) (as : List (String × Val)) :
    nodeTail c kind pos tokSlots tokmap tokmapOf as =
      match evalPos c pos with
      | .error err => .error err
      | .ok p =>
        match tmvOf c tokSlots tokmap tokmapOf as with
        | .error err => .error err
        | .ok tmv => .ok (.node kind (as ++ extraOf c pos ++ [("@pos", p), ("@tokmap", tmv)])) := by
  unfold nodeTail tmvOf
  simp only [bind, Except.bind, pure, Except.pure, throw, throwThe, MonadExceptOf.throw]
  cases evalPos c pos with
  | error e => rfl
  | ok p =>
    cases tokmapOf with
    | some j =>
      simp only []
      cases c.slot? j with
      | none => rfl
      | some pv => rfl
    | none =>
      simp only []
      generalize hF : (forIn tokSlots ([] : TM) _ : Except Err TM) = r1
      have h1 : forIn tokSlots [] (body1 c) = r1 := by
        rw [← hF]
        congr 1
        funext j s
        unfold body1
        cases c.slot? j with
        | none => rfl
        | some pv =>
          simp only []
          cases pv.v <;> first | rfl | (simp only []; cases findPos c j j j j 0 <;> rfl)
      rw [h1]
      cases r1 with
      | error e => rfl
      | ok t1 =>
        simp only []
        generalize hF2 : (forIn tokmap t1 _ : Except Err TM) = r2
        have h2 : forIn tokmap t1 (body2 c as) = r2 := by
          rw [← hF2]
          congr 1
          funext x s
          unfold body2
          cases evalPos c x.2 with
          | error e => rfl
          | ok q => rfl
        rw [h2]
        cases r2 with
        | error e => rfl
        | ok t2 => rfl

/-! ### erasure of the pieces -/

def stepMap {β ε : Type} (φ : β → β) : Except ε (ForInStep β) → Except ε (ForInStep β)
  | .ok (.yield b') => .ok (.yield (φ b'))
  | .ok (.done b') => .ok (.done (φ b'))
  | .error e => .error e

def resMap {β ε : Type} (φ : β → β) : Except ε β → Except ε β
  | .ok b' => .ok (φ b')
  | .error e => .error e

@[simp] theorem stepMap_yield {β ε : Type} (φ : β → β) (b : β) :
    stepMap (ε := ε) φ (.ok (.yield b)) = .ok (.yield (φ b)) := rfl
@[simp] theorem stepMap_done {β ε : Type} (φ : β → β) (b : β) :
    stepMap (ε := ε) φ (.ok (.done b)) = .ok (.done (φ b)) := rfl
@[simp] theorem stepMap_error {β ε : Type} (φ : β → β) (e : ε) : stepMap φ (.error e) = .error e := rfl
@[simp] theorem resMap_ok {β ε : Type} (φ : β → β) (b : β) : resMap (ε := ε) φ (.ok b) = .ok (φ b) := rfl
@[simp] theorem resMap_error {β ε : Type} (φ : β → β) (e : ε) : resMap φ (.error e) = .error e := rfl

theorem forIn_sim {α β ε : Type} (φ : β → β) (l : List α) (b : β) (f f' : α → β → Except ε (ForInStep β))
    (h : ∀ a b, f' a (φ b) = stepMap φ (f a b)) :
    forIn l (φ b) f' = resMap φ (forIn l b f) := by
  induction l generalizing b with
  | nil => rfl
  | cons a rest ih =>
    simp only [List.forIn_cons, h]
    cases hf : f a b with
    | error e => rfl
    | ok r =>
      cases r with
      | done b' => rfl
      | yield b' => exact ih b'

theorem body1_sim (c : Ctx) (j : Nat) (tm : TM) :
    body1 (eraseCtx c) j (eraseTm tm) = stepMap eraseTm (body1 c j tm) := by
  unfold body1
  rw [slot?_erase, findPos_erase]
  cases c.slot? j with
  | none => rfl
  | some pv =>
    simp only [Option.map_some, erasePV]
    cases pv.v with
    | str s =>
      simp only [eraseV_str]
      have hq := mapE_findPos c j j j j 0
      cases hfp : findPos c j j j j 0 with
      | error e => rfl
      | ok q =>
        rw [hfp] at hq
        simp only [mapE_ok, Except.ok.injEq] at hq
        simp only [stepMap_yield]
        rw [← tokmapAdd_erase, hq]
    | _ => simp

theorem body2_sim (c : Ctx) (as : List (String × Val)) (x : TextSrc × PosD) (tm : TM) :
    body2 (eraseCtx c) (eraseAs as) x (eraseTm tm) = stepMap eraseTm (body2 c as x tm) := by
  unfold body2
  rw [evalPos_erase]
  cases evalPos c x.2 with
  | error e => rfl
  | ok q =>
    simp only [mapE_ok]
    cases x.1 with
    | slotText j =>
      simp only [slot?_erase]
      cases c.slot? j with
      | none => rfl
      | some pv =>
        simp only [Option.map_some, erasePV]
        cases pv.v with
        | str s => simp only [eraseV_str, tokmapAdd_erase, stepMap_yield]
        | _ => simp
    | const s => simp only [tokmapAdd_erase, stepMap_yield]
    | commas =>
      simp only [find_eraseAs as "value" (by decide)]
      cases as.find? (fun p => p.1 == "value") with
      | none => rfl
      | some pr =>
        obtain ⟨n, v⟩ := pr
        cases v with
        | int k => simp only [Option.map_some, eraseV_int, tokmapAdd_erase, stepMap_yield]
        | _ => simp

theorem tmvOf_erase (c : Ctx) (tokSlots : List Nat) (tokmap : List (TextSrc × PosD)) (tokmapOf : Option Nat)
    (as : List (String × Val)) :
    tmvOf (eraseCtx c) tokSlots tokmap tokmapOf (eraseAs as) = mapE (tmvOf c tokSlots tokmap tokmapOf as) := by
  unfold tmvOf
  cases tokmapOf with
  | some j =>
    simp only [slot?_erase]
    cases c.slot? j with
    | none => rfl
    | some pv =>
      simp only [Option.map_some, erasePV, mapE_ok]
      rw [getAttr_erase _ _ (by decide)]
      cases getAttr pv.v "@tokmap" <;> simp
  | none =>
    simp only []
    have h1 := forIn_sim eraseTm tokSlots ([] : TM) (body1 c) (body1 (eraseCtx c)) (body1_sim c)
    have h0 : eraseTm ([] : TM) = [] := rfl
    rw [h0] at h1
    rw [h1]
    cases forIn tokSlots ([] : TM) (body1 c) with
    | error e => rfl
    | ok t1 =>
      simp only [resMap_ok, resMap_error]
      rw [forIn_sim eraseTm tokmap t1 (body2 c as) (body2 (eraseCtx c) (eraseAs as)) (body2_sim c as)]
      cases forIn tokmap t1 (body2 c as) with
      | error e => rfl
      | ok t2 => simp only [resMap_ok, mapE_ok, tokmapVal_erase]

theorem extraOf_eraseCtx (c : Ctx) (pos : PosD) : extraOf (eraseCtx c) pos = [] := by
  unfold extraOf eraseCtx
  cases setposIdx pos <;> rfl

theorem eraseAs_extraOf (c : Ctx) (pos : PosD) : eraseAs (extraOf c pos) = [] := by
  unfold extraOf
  split
  · simp [eraseAs_cons]
  · rfl

theorem nodeTail_erase (c : Ctx) (kind : String) (pos : PosD) (tokSlots : List Nat) (tokmap : List (TextSrc × PosD))
    (tokmapOf : Option Nat) (as : List (String × Val)) :
    nodeTail (eraseCtx c) kind pos tokSlots tokmap tokmapOf (eraseAs as) =
      mapE (nodeTail c kind pos tokSlots tokmap tokmapOf as) := by
  rw [nodeTail_eq, nodeTail_eq, evalPos_erase, tmvOf_erase, extraOf_eraseCtx]
  cases evalPos c pos with
  | error e => rfl
  | ok p =>
    simp only [mapE_ok]
    cases tmvOf c tokSlots tokmap tokmapOf as with
    | error e => rfl
    | ok tmv =>
      simp only [mapE_ok, eraseV_node, eraseAs_append, eraseAs_extraOf, List.append_nil, eraseAs_cons, eraseAs_nil]
      rfl

/-! ### `raiseAt`, `spread`, `spreadMod` (same text as in Model.Actions) -/

def raiseOf (msg : String) (r : Except Err Val) : Except Err Val :=
  match r with
  | .ok (.list [_, .int ln, .int col]) => .error (.production (msg ++ toString ln ++ ":" ++ toString col))
  | .ok _ => .error (.internal "TypeError")
  | .error e => .error e

theorem evalD_raiseAt (c : Ctx) (msg : String) (j : Nat) :
    evalD c (.raiseAt msg j) = raiseOf msg (evalPos c (.ofNodeTok j)) := by
  rw [evalD]
  rfl

theorem raiseOf_mapE (msg : String) (r : Except Err Val) : raiseOf msg (mapE r) = raiseOf msg r := by
  cases r with
  | error e => simp [raiseOf]
  | ok v =>
    cases v with
    | list xs =>
      cases xs with
      | nil => simp [raiseOf]
      | cons a xs1 =>
        cases xs1 with
        | nil => simp [raiseOf]
        | cons b xs2 =>
          cases xs2 with
          | nil => simp [raiseOf]
          | cons c xs3 =>
            cases xs3 with
            | cons d xs4 => simp [raiseOf]
            | nil => cases b <;> cases c <;> simp [raiseOf]
    | _ => simp [raiseOf]

theorem mapE_raiseOf (msg : String) (r : Except Err Val) : mapE (raiseOf msg r) = raiseOf msg r := by
  cases r with
  | error e => simp [raiseOf]
  | ok v =>
    cases v with
    | list xs =>
      cases xs with
      | nil => simp [raiseOf]
      | cons a xs1 =>
        cases xs1 with
        | nil => simp [raiseOf]
        | cons b xs2 =>
          cases xs2 with
          | nil => simp [raiseOf]
          | cons c xs3 =>
            cases xs3 with
            | cons d xs4 => simp [raiseOf]
            | nil => cases b <;> cases c <;> simp [raiseOf]
    | _ => simp [raiseOf]

/-- the list held by slot `j` -/
def xsOf (c : Ctx) (j : Nat) : Except Err (List Val) :=
  match c.slot? j with
        | some pv => match pv.v with
          | .list xs => pure xs
          | _ => throw (.internal "TypeError")
        | none => throw (.internal "IndexError")

/-- `p[1][-1].value += 1` -/
def incLast (lastInc : Bool) (xs : List Val) : Except Err (List Val) :=
  if lastInc then
          match xs.reverse with
          | .node k as :: before =>
            match as.find? (·.1 == "value") with
            | some (_, .int n) => pure ((Val.node k (setAttr as "value" (.int (n + 1))) :: before).reverse)
            | _ => throw (.internal "TypeError")
          | _ => throw (.internal "IndexError")
        else pure xs

/-- `p[0][0]._token_map = {',' * p[0][0].value: [findpos(p, 0)]}` -/
def setFirstTm (c : Ctx) (firstTm : Option PosD) (xs1 : List Val) : Except Err (List Val) :=
  match firstTm with
        | some pd => do
          let q ← evalPos c pd
          match xs1 with
          | .node k as :: after =>
            match as.find? (·.1 == "value") with
            | some (_, .int n) =>
              pure (Val.node k (setAttr as "@tokmap" (tokmapVal [(commas n.toNat, [q])])) :: after)
            | _ => throw (.internal "TypeError")
          | _ => throw (.internal "IndexError")
        | none => pure xs1

theorem evalItems_spread (c : Ctx) (j : Nat) (rest : List Item) :
    evalItems c (.spread j :: rest) = (do
      let xs ← xsOf c j
      let vs ← evalItems c rest
      pure (xs ++ vs)) := by
  rw [evalItems]
  unfold xsOf
  simp only [bind, Except.bind, pure, Except.pure, throw, throwThe, MonadExceptOf.throw]
  cases c.slot? j with
  | none => rfl
  | some pv =>
    simp only []
    cases pv.v with
    | list xs => (simp only [] <;> cases evalItems c rest <;> rfl)
    | _ => rfl

theorem evalItems_spreadMod (c : Ctx) (j : Nat) (lastInc : Bool) (firstTm : Option PosD) (rest : List Item) :
    evalItems c (.spreadMod j lastInc firstTm :: rest) = (do
      let xs ← xsOf c j
      let xs1 ← incLast lastInc xs
      let xs2 ← setFirstTm c firstTm xs1
      let vs ← evalItems c rest
      pure (xs2 ++ vs)) := by
  rw [evalItems]
  unfold xsOf incLast setFirstTm
  simp only [bind, Except.bind, pure, Except.pure, throw, throwThe, MonadExceptOf.throw]
  cases c.slot? j with
  | none => rfl
  | some pv =>
    simp only []
    cases pv.v with
    | list xs =>
      simp only []
      cases lastInc with
      | false =>
        simp only [Bool.false_eq_true, if_false]
        cases firstTm with
        | none => (simp only [] <;> cases evalItems c rest <;> rfl)
        | some pd =>
          simp only []
          cases evalPos c pd with
          | error e => rfl
          | ok q =>
            simp only []
            cases xs with
            | nil => rfl
            | cons h2 after =>
              cases h2 with
              | node k2 as2 =>
                simp only []
                cases List.find? (fun x => x.fst == "value") as2 with
                | none => rfl
                | some pr2 =>
                  obtain ⟨nm2, v2⟩ := pr2
                  cases v2 with
                  | int n2 => (simp only [] <;> cases evalItems c rest <;> rfl)
                  | _ => rfl
              | _ => rfl
      | true =>
        simp only [if_true]
        cases xs.reverse with
        | nil => rfl
        | cons h before =>
          cases h with
          | node k as =>
            simp only []
            cases List.find? (fun x => x.fst == "value") as with
            | none => rfl
            | some pr =>
              obtain ⟨nm, v⟩ := pr
              cases v with
              | int n =>
                simp only []
                generalize (Val.node k (setAttr as "value" (Val.int (n + 1))) :: before).reverse = xs1
                cases firstTm with
                | none => (simp only [] <;> cases evalItems c rest <;> rfl)
                | some pd =>
                  simp only []
                  cases evalPos c pd with
                  | error e => rfl
                  | ok q =>
                    simp only []
                    cases xs1 with
                    | nil => rfl
                    | cons h2 after =>
                      cases h2 with
                      | node k2 as2 =>
                        simp only []
                        cases List.find? (fun x => x.fst == "value") as2 with
                        | none => rfl
                        | some pr2 =>
                          obtain ⟨nm2, v2⟩ := pr2
                          cases v2 with
                          | int n2 => (simp only [] <;> cases evalItems c rest <;> rfl)
                          | _ => rfl
                      | _ => rfl
              | _ => rfl
          | _ => rfl
    | _ => rfl

def mapVs : Except Err (List Val) → Except Err (List Val)
  | .ok vs => .ok (eraseVs vs)
  | .error e => .error e

def mapAs : Except Err (List (String × Val)) → Except Err (List (String × Val))
  | .ok as => .ok (eraseAs as)
  | .error e => .error e

@[simp] theorem mapVs_ok (vs : List Val) : mapVs (.ok vs) = .ok (eraseVs vs) := rfl
@[simp] theorem mapVs_error (e : Err) : mapVs (.error e) = .error e := rfl
@[simp] theorem mapAs_ok (as : List (String × Val)) : mapAs (.ok as) = .ok (eraseAs as) := rfl
@[simp] theorem mapAs_error (e : Err) : mapAs (.error e) = .error e := rfl

theorem xsOf_erase (c : Ctx) (j : Nat) : xsOf (eraseCtx c) j = mapVs (xsOf c j) := by
  unfold xsOf
  rw [slot?_erase]
  cases c.slot? j with
  | none => rfl
  | some pv =>
    simp only [Option.map_some, erasePV]
    cases pv.v <;> rfl

theorem incLast_erase (lastInc : Bool) (xs : List Val) : incLast lastInc (eraseVs xs) = mapVs (incLast lastInc xs) := by
  unfold incLast
  cases lastInc with
  | false => rfl
  | true =>
    simp only [if_true, ← eraseVs_reverse]
    cases xs.reverse with
    | nil => rfl
    | cons h before =>
      cases h with
      | node k as =>
        simp only [eraseVs_cons, eraseV_node, find_eraseAs as "value" (by decide)]
        cases as.find? (fun p => p.1 == "value") with
        | none => rfl
        | some pr =>
          obtain ⟨nm, v⟩ := pr
          cases v with
          | int n =>
            simp only [Option.map_some, eraseV_int, pure, Except.pure, mapVs_ok, eraseVs_reverse, eraseVs_cons, eraseV_node]
            rw [← setAttr_erase as "value" (.int (n + 1)) (by decide)]
            simp
          | _ => rfl
      | _ => rfl

theorem setFirstTm_erase (c : Ctx) (firstTm : Option PosD) (xs1 : List Val) :
    setFirstTm (eraseCtx c) firstTm (eraseVs xs1) = mapVs (setFirstTm c firstTm xs1) := by
  unfold setFirstTm
  cases firstTm with
  | none => rfl
  | some pd =>
    simp only [bind, Except.bind, evalPos_erase]
    cases evalPos c pd with
    | error e => rfl
    | ok q =>
      simp only [mapE_ok]
      cases xs1 with
      | nil => rfl
      | cons h after =>
        cases h with
        | node k as =>
          simp only [eraseVs_cons, eraseV_node, find_eraseAs as "value" (by decide)]
          cases as.find? (fun p => p.1 == "value") with
          | none => rfl
          | some pr =>
            obtain ⟨nm, v⟩ := pr
            cases v with
            | int n =>
              simp only [Option.map_some, eraseV_int, pure, Except.pure, mapVs_ok, eraseVs_cons, eraseV_node]
              rw [← setAttr_erase as "@tokmap" _ (by decide), ← tokmapVal_erase]
              rfl
            | _ => rfl
        | _ => rfl

/-! ### the interpreter commutes with the erasure -/

mutual
  theorem evalD_erase (c : Ctx) : ∀ (d : D), noCommentsReadD d = true → evalD (eraseCtx c) d = mapE (evalD c d)
    | .slot j, _ => by
      rw [evalD, evalD, slot?_erase]
      cases c.slot? j <;> rfl
    | .none, _ => by rw [evalD, evalD]; rfl
    | .str s, _ => by rw [evalD, evalD]; rfl
    | .int n, _ => by rw [evalD, evalD]; rfl
    | .attrOf j name, h => by
      have hn : name ≠ "@comments" := by
        simp only [noCommentsReadD, Bool.and_eq_true, bne_iff_ne, ne_eq] at h
        exact h.1
      rw [evalD, evalD, slot?_erase]
      cases c.slot? j with
      | none => rfl
      | some pv =>
        simp only [Option.map_some, erasePV]
        rw [getAttr_erase _ _ hn]
        cases getAttr pv.v name <;> rfl
    | .raiseAt msg j, _ => by
      rw [evalD_raiseAt, evalD_raiseAt, evalPos_erase, raiseOf_mapE, mapE_raiseOf]
    | .list items, h => by
      have hi : noCommentsReadItems items = true := by simpa [noCommentsReadD] using h
      rw [evalD, evalD, evalItems_erase c items hi]
      cases evalItems c items <;> simp [Except.map, mapVs]
    | .node kind attrs pos tokSlots tokmap tokmapOf, h => by
      have ha : noCommentsReadAttrs attrs = true := by simpa [noCommentsReadD] using h
      rw [evalD_node, evalD_node, evalAttrs_erase c attrs ha]
      cases evalAttrs c attrs with
      | error e => rfl
      | ok as =>
        simp only [mapAs_ok]
        exact nodeTail_erase c kind pos tokSlots tokmap tokmapOf as
  theorem evalAttrs_erase (c : Ctx) : ∀ (attrs : List (String × D)), noCommentsReadAttrs attrs = true →
      evalAttrs (eraseCtx c) attrs = mapAs (evalAttrs c attrs)
    | [], _ => by rw [evalAttrs, evalAttrs]; rfl
    | (n, d) :: rest, h => by
      simp only [noCommentsReadAttrs, Bool.and_eq_true, bne_iff_ne, ne_eq] at h
      obtain ⟨⟨hn, hd⟩, hr⟩ := h
      rw [evalAttrs, evalAttrs, evalD_erase c d hd, evalAttrs_erase c rest hr]
      cases evalD c d with
      | error e => rfl
      | ok v =>
        cases evalAttrs c rest with
        | error e => rfl
        | ok vs =>
          simp only [mapE_ok, mapAs_ok, bind, Except.bind, pure, Except.pure, eraseAs_cons]
          have : (n == "@comments") = false := by simp [hn]
          simp [this]
  theorem evalItems_erase (c : Ctx) : ∀ (items : List Item), noCommentsReadItems items = true →
      evalItems (eraseCtx c) items = mapVs (evalItems c items)
    | [], _ => by rw [evalItems, evalItems]; rfl
    | .item d :: rest, h => by
      simp only [noCommentsReadItems, Bool.and_eq_true] at h
      rw [evalItems, evalItems, evalD_erase c d h.1, evalItems_erase c rest h.2]
      cases evalD c d with
      | error e => rfl
      | ok v =>
        cases evalItems c rest with
        | error e => rfl
        | ok vs => rfl
    | .spread j :: rest, h => by
      have hr : noCommentsReadItems rest = true := by simpa [noCommentsReadItems] using h
      rw [evalItems_spread, evalItems_spread, xsOf_erase, evalItems_erase c rest hr]
      cases xsOf c j with
      | error e => rfl
      | ok xs =>
        cases evalItems c rest with
        | error e => rfl
        | ok vs => simp [bind, Except.bind, pure, Except.pure, eraseVs_append]
    | .spreadMod j lastInc firstTm :: rest, h => by
      have hr : noCommentsReadItems rest = true := by simpa [noCommentsReadItems] using h
      rw [evalItems_spreadMod, evalItems_spreadMod, xsOf_erase, evalItems_erase c rest hr]
      cases xsOf c j with
      | error e => rfl
      | ok xs =>
        simp only [mapVs_ok, bind, Except.bind]
        rw [incLast_erase]
        cases incLast lastInc xs with
        | error e => rfl
        | ok xs1 =>
          simp only [mapVs_ok]
          rw [setFirstTm_erase]
          cases setFirstTm c firstTm xs1 with
          | error e => rfl
          | ok xs2 =>
            cases evalItems c rest with
            | error e => rfl
            | ok vs => simp [pure, Except.pure, eraseVs_append]
end

end CalmVerif.Proofs.Comments
