/-
The end of the printed text: with the `indent` rule set a program's output ends with exactly
one newline.  (Helper lemmas for `ends_with_one_newline` of Props/C20.)
-/
import CalmVerif.Proofs.UnparseFrags
namespace CalmVerif.Unparse
open CalmVerif

variable {σ : Type}

/-- the characters of a fragment list (the printed text) -/
def charsOf : List Frag → List Char
  | [] => []
  | f :: fs => f.text.toList ++ charsOf fs

theorem charsOf_append (a b : List Frag) : charsOf (a ++ b) = charsOf a ++ charsOf b := by
  induction a with
  | nil => simp [charsOf]
  | cons f fs ih => simp [charsOf, ih]

/-- `l` does not end with two line terminators -/
def NoDoubleLT (l : List Char) : Prop :=
  ∀ t a b, l = t ++ [a, b] → ¬ (isLT a = true ∧ isLT b = true)

/-- `l` ends with exactly one newline: a `\n` that is not preceded by a line terminator -/
def EndsWithOneNewline (l : List Char) : Prop :=
  ∃ t, l = t ++ ['\n'] ∧ ∀ c, t.getLast? = some c → isLT c = false

theorem endsWithOne_of (l : List Char) (h1 : l.getLast? = some '\n') (h2 : NoDoubleLT l) :
    EndsWithOneNewline l := by
  obtain ⟨t, rfl⟩ : ∃ t, l = t ++ ['\n'] := by
    rcases List.eq_nil_or_concat l with rfl | ⟨t, c, rfl⟩
    · simp at h1
    · simp at h1; subst h1; exact ⟨t, by simp⟩
  refine ⟨t, rfl, ?_⟩
  intro c hc
  rcases List.eq_nil_or_concat t with rfl | ⟨t', c', rfl⟩
  · simp at hc
  · simp at hc; subst hc
    have := h2 t' c' '\n' (by simp)
    cases hh : isLT c' with
    | false => rfl
    | true => exact absurd ⟨hh, by decide⟩ this

theorem noDouble_append_nonLT (o x : List Char) (c : Char) (hx : x.getLast? = some c)
    (hc : isLT c = false) : NoDoubleLT (o ++ x) := by
  intro t a b h
  have : (o ++ x).getLast? = some b := by rw [h]; simp
  have hb : b = c := by
    rw [List.getLast?_append] at this
    simp [hx] at this; exact this.symm
  intro ⟨_, h2⟩
  rw [hb, hc] at h2; cases h2

theorem noDouble_append_newline (o : List Char) (ho : ∀ c, o.getLast? = some c → isLT c = false) :
    NoDoubleLT (o ++ ['\n']) := by
  intro t a b h
  rcases List.eq_nil_or_concat o with rfl | ⟨o', c', rfl⟩
  · have := congrArg List.length h; simp at this
  · have h' : o' ++ [c', '\n'] = t ++ [a, b] := by simpa using h
    have e1 : (o' ++ [c', '\n']).reverse = (t ++ [a, b]).reverse := by rw [h']
    simp at e1
    obtain ⟨hb, ha, _⟩ := e1
    intro ⟨h1, _⟩
    have := ho a (by simp [ha])
    rw [this] at h1; cases h1

/-! ### what the handler data must look like (checked by `decide` for the generated data) -/

structure HDataPretty (hd : HData) (is : Option String) : Prop where
  newline : hd.newline = "\n"
  space : hd.spaceImply.text = " "
  spaceDrop : hd.spaceDrop.text = " "
  /-- the indentation string in force contains no line terminator -/
  indentClean : ∀ c ∈ (effIndent hd is).toList, isLT c = false

/-- the text of a layout fragment is not empty; it ends with a line terminator only if it is the newline -/
theorem layoutFrag_text {hd : HData} {is : Option String} (hp : HDataPretty hd is) {f : Frag}
    (hf : IsLayoutFrag hd is f) :
    f.text ≠ "" ∧ (f.text = "\n" ∨ ∀ c, f.text.toList.getLast? = some c → isLT c = false) := by
  cases hf with
  | semi node => exact ⟨by simp [fragAt], Or.inr (by simp [fragAt]; decide)⟩
  | lbrace node => exact ⟨by simp [fragAt], Or.inr (by simp [fragAt]; decide)⟩
  | rbrace node => exact ⟨by simp [fragAt], Or.inr (by simp [fragAt]; decide)⟩
  | spaceImply => rw [hp.space]; exact ⟨by decide, Or.inr (by simp; decide)⟩
  | spaceDrop => rw [hp.spaceDrop]; exact ⟨by decide, Or.inr (by simp; decide)⟩
  | newline => simp [newlineFrag, hp.newline]
  | indent level hne =>
    refine ⟨hne, Or.inr ?_⟩
    intro c hc
    simp only [indentFrag, strMul, String.toList_ofList] at hc
    have hm : c ∈ (List.replicate level.toNat (effIndent hd is).toList).flatten :=
      List.mem_of_getLast? hc
    simp only [List.mem_flatten, List.mem_replicate] at hm
    obtain ⟨l, ⟨_, rfl⟩, hcl⟩ := hm
    exact hp.indentClean c hcl

/-! ### `lc` / `fc` of the optional-newline handlers when the newline string is "\n" -/

theorem str_ne_empty_last {s : String} (hs : s ≠ "") : ∃ t c, s.toList = t ++ [c] := by
  rcases List.eq_nil_or_concat s.toList with h | ⟨t, c, h⟩
  · exact absurd (String.toList_eq_nil_iff.mp h) hs
  · exact ⟨t, c, by simpa using h⟩

theorem lastN_one_concat (t : List Char) (c : Char) : lastN 1 (t ++ [c]) = [c] := by
  simp [lastN]

theorem lcN_some {hd : HData} (hn : hd.newline = "\n") {s : String} {t : List Char} {c : Char}
    (h : s.toList = t ++ [c]) : lcN hd (some s) = [c] := by
  have h1 : hd.newline.length = 1 := by rw [hn]; decide
  simp [lcN, h1, h, lastN_one_concat]

theorem lcN_none (hd : HData) : lcN hd none = [] := rfl
theorem fcN_none (hd : HData) : fcN hd none = [] := rfl

/-- membership of a one-character string in `{'\r', '\n', newline_str}` -/
theorem nl_contains_single {hd : HData} (hn : hd.newline = "\n") (c : Char) :
    ([['\r'], ['\n'], hd.newline.toList] : List (List Char)).contains [c] = (c == '\r' || c == '\n') := by
  rw [hn]
  have : "\n".toList = ['\n'] := by decide
  rw [this]
  simp only [List.contains_cons, List.contains_nil]
  by_cases h1 : c = '\r' <;> by_cases h2 : c = '\n' <;> simp [h1, h2]

theorem nl_contains_nil {hd : HData} (hn : hd.newline = "\n") :
    ([['\r'], ['\n'], hd.newline.toList] : List (List Char)).contains [] = false := by
  rw [hn]
  have : "\n".toList = ['\n'] := by decide
  rw [this]
  decide

theorem inCRLF_single (c : Char) : inCRLF [c] = (c == '\r' || c == '\n') := by
  simp [inCRLF]

theorem isLT_of_crlf {c : Char} (h : (c == '\r' || c == '\n') = true) : isLT c = true := by
  simp only [Bool.or_eq_true, beq_iff_eq] at h
  rcases h with rfl | rfl <;> decide

/-! ### the second pass never produces two line terminators in a row (under `tailSafe`) -/

def BeforeClean (before : Option String) : Prop :=
  ∀ b, before = some b → b ≠ "" ∧ ∀ c, b.toList.getLast? = some c → isLT c = false

/-- what the handlers are told (`before`, `prev`) agrees with the text `o` produced so far -/
def Tracks (o : List Char) (before prev : Option String) : Prop :=
  match prev with
  | some p => p ≠ "" ∧ o.getLast? = p.toList.getLast? ∧
      (p = "\n" ∨ ∀ c, p.toList.getLast? = some c → isLT c = false)
  | none =>
    match before with
    | some b => o.getLast? = b.toList.getLast?
    | none => o = []

def nlSet (hd : HData) : List (List Char) := [['\r'], ['\n'], hd.newline.toList]

theorem anyNewline_eq (hd : HData) (b a p : Option String) :
    anyNewline hd b a p = ((nlSet hd).contains (lcN hd b) || (nlSet hd).contains (fcN hd a) ||
      (nlSet hd).contains (lcN hd p)) := rfl

theorem tracks_last_nonLT {hd : HData} (hn : hd.newline = "\n") {o : List Char} {before prev : Option String}
    (ht : Tracks o before prev) (hb : BeforeClean before)
    (h1 : (nlSet hd).contains (lcN hd prev) = false) :
    ∀ c, o.getLast? = some c → isLT c = false := by
  intro c hc
  cases prev with
  | some p =>
    obtain ⟨hp0, hp1, hp2⟩ := ht
    obtain ⟨t, c', hpc⟩ := str_ne_empty_last hp0
    have hl : p.toList.getLast? = some c' := by rw [hpc]; simp
    rw [hp1, hl] at hc
    cases hc
    rcases hp2 with rfl | hp2
    · exfalso
      have : lcN hd (some "\n") = ['\n'] := lcN_some hn (t := []) (c := '\n') (by decide)
      rw [this] at h1
      unfold nlSet at h1
      rw [nl_contains_single hn] at h1
      simp at h1
    · exact hp2 _ hl
  | none =>
    cases before with
    | some b =>
      have ht' : o.getLast? = b.toList.getLast? := ht
      exact (hb b rfl).2 c (by rw [← ht']; exact hc)
    | none =>
      have : o = [] := ht
      subst this; simp at hc

theorem lastText_layout_append (fs : List Frag) (f : Frag) (prev : Option String) :
    lastText (fs ++ [f]) prev = some f.text := by
  simp [lastText]

theorem charsOf_concat_last (o : List Char) (fs : List Frag) (f : Frag) (hf : f.text ≠ "") :
    (o ++ charsOf (fs ++ [f])).getLast? = f.text.toList.getLast? := by
  obtain ⟨t, c, htc⟩ := str_ne_empty_last hf
  rw [charsOf_append]
  simp [charsOf, htc, ← List.append_assoc]

theorem tracks_append {hd : HData} {is : Option String} (hp : HDataPretty hd is) {o : List Char}
    {before prev : Option String} (ht : Tracks o before prev) (fs : List Frag)
    (hfs : ∀ f ∈ fs, IsLayoutFrag hd is f) :
    Tracks (o ++ charsOf fs) before (lastText fs prev) := by
  rcases List.eq_nil_or_concat fs with rfl | ⟨fs', f, rfl⟩
  · simpa [charsOf, lastText] using ht
  · have hfl := layoutFrag_text hp (hfs f (by simp))
    have e : fs'.concat f = fs' ++ [f] := by simp
    rw [e, lastText_layout_append]
    exact ⟨hfl.1, charsOf_concat_last o fs' f hfl.1, hfl.2⟩

theorem noDouble_append_frag (o : List Char) (f : Frag) (hf : f.text ≠ "")
    (hc : ∀ c, f.text.toList.getLast? = some c → isLT c = false) : NoDoubleLT (o ++ charsOf [f]) := by
  obtain ⟨t, c, htc⟩ := str_ne_empty_last hf
  have : charsOf [f] = t ++ [c] := by simp [charsOf, htc]
  rw [this]
  exact noDouble_append_nonLT o (t ++ [c]) c (by simp) (hc c (by rw [htc]; simp))

theorem noDouble_append_indents {hd : HData} {is : Option String} (hp : HDataPretty hd is)
    (o : List Char) (lvl : Int) (ho : NoDoubleLT o) :
    NoDoubleLT (o ++ charsOf (generateIndents hd is lvl)) := by
  rcases generateIndents_cases hd is lvl with ⟨h, _⟩ | ⟨h, hne⟩
  · simpa [h, charsOf] using ho
  · rw [h]
    have := layoutFrag_text hp (IsLayoutFrag.indent (hd := hd) (is := is) lvl hne)
    rcases this.2 with h2 | h2
    · exfalso
      have hm : ('\n' : Char) ∈ (indentFrag hd is lvl).text.toList := by rw [h2]; decide
      simp only [indentFrag, strMul, String.toList_ofList, List.mem_flatten, List.mem_replicate] at hm
      obtain ⟨l, ⟨_, rfl⟩, hcl⟩ := hm
      have := hp.indentClean _ hcl
      simp [isLT] at this
    · exact noDouble_append_frag o _ this.1 h2

theorem noDouble_newline_indents {hd : HData} {is : Option String} (hp : HDataPretty hd is)
    (o : List Char) (lvl : Int) (ho : ∀ c, o.getLast? = some c → isLT c = false) :
    NoDoubleLT (o ++ charsOf (newlineFrag hd :: generateIndents hd is lvl)) := by
  have hnl : (newlineFrag hd).text.toList = ['\n'] := by simp [newlineFrag, hp.newline]
  have e : o ++ charsOf (newlineFrag hd :: generateIndents hd is lvl)
      = (o ++ ['\n']) ++ charsOf (generateIndents hd is lvl) := by
    simp [charsOf, hnl]
  rw [e]
  exact noDouble_append_indents hp _ lvl (noDouble_append_newline o ho)

/-- one handler call keeps the text free of double line terminators, unless it is an unconditional newline -/
theorem runHandler_noDouble {hd : HData} {is : Option String} (hp : HDataPretty hd is)
    (h : HandlerId) (node : Val) (before after prev : Option String) (lvl : Int) (o : List Char)
    (ht : Tracks o before prev) (hb : BeforeClean before) (hh : isHardNewline h = false)
    (ho : NoDoubleLT o) :
    NoDoubleLT (o ++ charsOf (runHandler hd is h node before after prev lvl).1) := by
  have hsemi : ∀ s : String, s = ";" ∨ s = "{" ∨ s = "}" →
      NoDoubleLT (o ++ charsOf [fragAt node s]) := by
    intro s hs
    apply noDouble_append_frag
    · rcases hs with rfl | rfl | rfl <;> simp [fragAt]
    · rcases hs with rfl | rfl | rfl <;> (simp [fragAt] <;> decide)
  have hspace : NoDoubleLT (o ++ charsOf [hd.spaceImply]) := by
    apply noDouble_append_frag
    · rw [hp.space]; decide
    · rw [hp.space]; simp; decide
  have hnil : NoDoubleLT (o ++ charsOf []) := by simpa [charsOf] using ho
  cases h <;> simp only [runHandler]
  case noop => exact hnil
  case semicolon => exact hsemi _ (Or.inl rfl)
  case semicolonOptional => split; exact hsemi _ (Or.inl rfl); exact hnil
  case openbrace => exact hsemi _ (Or.inr (Or.inl rfl))
  case closebrace => exact hsemi _ (Or.inr (Or.inr rfl))
  case spaceImply => exact hspace
  case spaceDrop =>
    apply noDouble_append_frag
    · rw [hp.spaceDrop]; decide
    · rw [hp.spaceDrop]; simp; decide
  case newlineSimple => simp [isHardNewline] at hh
  case newlineOptionalPretty =>
    split
    · exact hnil
    · split
      · rename_i h2
        have h2' : anyNewline hd before after prev = false := by simpa using h2
        rw [anyNewline_eq] at h2'
        simp only [Bool.or_eq_false_iff] at h2'
        have := noDouble_append_newline o (tracks_last_nonLT hp.newline ht hb h2'.2)
        have hnl : (newlineFrag hd).text.toList = ['\n'] := by simp [newlineFrag, hp.newline]
        simpa [charsOf, hnl] using this
      · exact hnil
  case spaceOptionalPretty =>
    split
    · exact hspace
    · split
      · split
        · exact hspace
        · exact hnil
      · exact hnil
  case spaceMinimum =>
    split
    · split
      · exact hspace
      · exact hnil
    · exact hnil
  case indIndent => exact hnil
  case indDedent => exact hnil
  case indNewline => simp [isHardNewline] at hh
  case indNewlineOptional =>
    split
    · exact hnil
    · split
      · rename_i h2
        have h2' : anyNewline hd before after prev = false := by simpa using h2
        rw [anyNewline_eq] at h2'
        simp only [Bool.or_eq_false_iff] at h2'
        have := noDouble_newline_indents hp o lvl (tracks_last_nonLT hp.newline ht hb h2'.2)
        simpa using this
      · simpa using noDouble_append_indents hp o lvl ho

theorem runHandler_visible {hd : HData} {is : Option String}
    (h : HandlerId) (node : Val) (before after prev : Option String) (lvl : Int) (o : List Char)
    (hv : isVisibleH h = true) :
    NoDoubleLT (o ++ charsOf (runHandler hd is h node before after prev lvl).1) := by
  have hsemi : ∀ s : String, s = ";" ∨ s = "{" ∨ s = "}" →
      NoDoubleLT (o ++ charsOf [fragAt node s]) := by
    intro s hs
    apply noDouble_append_frag
    · rcases hs with rfl | rfl | rfl <;> simp [fragAt]
    · rcases hs with rfl | rfl | rfl <;> (simp [fragAt] <;> decide)
  cases h <;> simp [isVisibleH] at hv <;> simp only [runHandler]
  · exact hsemi _ (Or.inl rfl)
  · exact hsemi _ (Or.inr (Or.inl rfl))
  · exact hsemi _ (Or.inr (Or.inr rfl))

theorem runEntries_noDouble {hd : HData} {is : Option String} (hp : HDataPretty hd is)
    (before after : Option String) (hb : BeforeClean before) :
    ∀ (es : List LEntry) (prev : Option String) (lvl : Int) (o : List Char),
      Tracks o before prev → tailSafe es = true → (NoDoubleLT o ∨ hasVisible es = true) →
      NoDoubleLT (o ++ charsOf (runEntries hd is before after es prev lvl).1) := by
  intro es
  induction es with
  | nil => intro prev lvl o _ _ h; simpa [runEntries, charsOf, hasVisible] using h
  | cons e es ih =>
    intro prev lvl o ht hs hq
    simp only [tailSafe, Bool.and_eq_true, Bool.or_eq_true, Bool.not_eq_true'] at hs
    simp only [runEntries, charsOf_append, ← List.append_assoc]
    have ht' := tracks_append hp ht (runHandler hd is e.handler e.node before after prev lvl).1
      (runHandler_layout _ _ _ _ _ _ _ _)
    apply ih _ _ _ ht' hs.2
    by_cases hv : hasVisible es = true
    · exact Or.inr hv
    · left
      by_cases hvis : isVisibleH e.handler = true
      · exact runHandler_visible _ _ _ _ _ _ _ hvis
      · have hhard : isHardNewline e.handler = false := by
          rcases hs.1 with h | h
          · exact h
          · exact absurd h hv
        have ho : NoDoubleLT o := by
          rcases hq with h | h
          · exact h
          · exfalso
            simp only [hasVisible, List.any_cons, Bool.or_eq_true] at h
            rcases h with h | h
            · exact hvis h
            · exact hv h
        exact runHandler_noDouble hp _ _ _ _ _ _ _ ht hb hhard ho

end CalmVerif.Unparse
