/-
The closure check in the form the kernel decides (`closedCert`: certificates only; the follow relation is the
concatenation of all `need` lists, `allNeeds`, and contains them by construction), and the typed configurations of
the pretty printer and the minifier.
-/
import CalmVerif.Proofs.RoundTripTyped5
namespace CalmVerif.TokenAdj
open CalmVerif CalmVerif.Unparse

theorem closed_of_cert (cx : Ctx) (defs : Defs) (h : closedCert cx defs = true) :
    closed cx (allNeeds cx defs) defs = true := by
  simp only [closed, List.all_eq_true]
  intro kd hkd
  have hk := List.all_eq_true.mp h kd hkd
  simp only [closedCertDef, Bool.and_eq_true, Bool.not_eq_true'] at hk
  simp only [closedDef, Bool.and_eq_true, Bool.not_eq_true']
  refine ⟨⟨hk.1, ?_⟩, hk.2⟩
  simp only [subList, List.all_eq_true]
  intro p hp
  have : p ∈ allNeeds cx defs := List.mem_flatMap.mpr ⟨kd, hkd, hp⟩
  simpa using this

theorem withNat_eq {α : Type} (n : Nat) (k : Nat → α) : withNat n k = k n := by cases n <;> rfl
theorem withBool_eq {α : Type} (b : Bool) (k : Bool → α) : withBool b k = k b := by cases b <;> rfl
theorem Abs.forced_eq {α : Type} (a : Abs) (k : Abs → α) : a.forced k = k a := by
  simp only [Abs.forced, withNat_eq, withBool_eq]

mutual
  theorem absRuleF_eq (cx : Ctx) (K : String) : ∀ (r : Rule) (p : Nat), absRuleF cx K p r = absRule cx K p r
    | .optional a body, p => by simp only [absRuleF, absRule, absRulesF_eq cx K body]
    | .joinAttr src sep q, p => by simp only [absRuleF, absRule, absRulesF_eq cx K sep, Abs.forced_eq]
    | .elisionJoinAttr src sep q, p => by simp only [absRuleF, absRule, absRulesF_eq cx K sep, Abs.forced_eq]
    | .layout mk, p => by simp only [absRuleF]
    | .struct mk, p => by simp only [absRuleF]
    | .text v q, p => by simp only [absRuleF]
    | .attr s q, p => by simp only [absRuleF]
    | .commentsAttr s q, p => by simp only [absRuleF]
    | .operator a v q, p => by simp only [absRuleF]
    | .elisionToken s v q, p => by simp only [absRuleF]
  theorem absRulesF_eq (cx : Ctx) (K : String) : ∀ (rs : List Rule) (p : Nat), absRulesF cx K p rs = absRules cx K p rs
    | [], p => by simp only [absRulesF, absRules]
    | r :: rs, p => by
      simp only [absRulesF, absRules, absRuleF_eq cx K r, absRulesF_eq cx K rs, Abs.forced_eq]
end

theorem forceCert_eq {α : Type} : ∀ (l : List (String × Abs)) (k : List (String × Abs) → α), forceCert l k = k l
  | [], k => rfl
  | (s, a) :: rest, k => by simp only [forceCert, Abs.forced_eq, forceCert_eq rest]

theorem withCert_eq {α : Type} (rs : RuleSet) (defs : Defs) : ∀ (n : Nat) (k : List (String × Abs) → α),
    withCert rs defs n k = k (certIter rs defs n)
  | 0, k => rfl
  | n + 1, k => by simp only [withCert, withCert_eq rs defs n, forceCert_eq, certIter]

theorem forceNats_eq {α : Type} : ∀ (l : List Nat) (k : List Nat → α), forceNats l k = k l
  | [], k => rfl
  | x :: xs, k => by simp only [forceNats, withNat_eq, forceNats_eq xs]

theorem withCertW_eq {α : Type} (rs : RuleSet) (defs : Defs) : ∀ (n : Nat) (k : List (String × Abs) → α),
    withCertW rs defs (allOcc defs 0) n k = k (certIter rs defs n)
  | 0, k => rfl
  | n + 1, k => by
    simp only [withCertW, withCertW_eq rs defs n, forceCert_eq, certIter]
    rfl

theorem withCtx_eq {α : Type} (rs : RuleSet) (defs : Defs) (n : Nat) (k : Ctx → α) :
    withCtx rs defs n k = k (mkCtx rs defs (certIter rs defs n)) := by
  simp only [withCtx, forceNats_eq, withCertW_eq]
  rfl

theorem forceRects_eq {α : Type} : ∀ (l : List Rect) (k : List Rect → α), forceRects l k = k l
  | [], k => rfl
  | (a, b) :: rs, k => by simp only [forceRects, withNat_eq, forceRects_eq rs]

theorem allNeedsF_eq (cx : Ctx) (defs : Defs) : allNeedsF cx defs = allNeeds cx defs := by
  simp only [allNeedsF, allNeeds, absRulesF_eq]

/-- no exact-signature text starts with a quote -/
theorem litTable_no_quote :
    (litTable.all fun t => t.toList.head? != some '"' && t.toList.head? != some '\'') = true := by decide +kernel

theorem sig_str_of_quote (s : String) (c : Char) (rest : List Char) (hs : s.toList = c :: rest)
    (hq : (c == '"' || c == '\'') = true) : sig s = .str := by
  unfold sig
  cases hidx : litIdx s with
  | some i =>
    exfalso
    have hmem : s ∈ litTable := idxIn_mem _ _ _ _ hidx
    have := List.all_eq_true.mp litTable_no_quote s hmem
    rw [hs] at this
    simp only [List.head?_cons, Bool.and_eq_true, bne_iff_ne, ne_eq, Option.some.injEq] at this
    simp only [Bool.or_eq_true, beq_iff_eq] at hq
    rcases hq with hq | hq
    · exact this.1 hq
    · exact this.2 hq
  | none =>
    simp only [hs, sigChars, hq, if_true]

theorem quote_of_sig_str (s : String) (h : sig s = .str) :
    ∃ c rest, s.toList = c :: rest ∧ (c == '"' || c == '\'') = true := by
  unfold sig at h
  split at h
  · cases h
  · cases hl : s.toList with
    | nil => rw [hl] at h; simp [sigChars] at h
    | cons c rest =>
      refine ⟨c, rest, rfl, ?_⟩
      rw [hl] at h
      by_cases hq : (c == '"' || c == '\'') = true
      · exact hq
      · exfalso
        simp only [sigChars, hq, Bool.false_eq_true, if_false] at h
        repeat' split at h
        all_goals cases h

/-- stripping line continuations keeps the class `str` (the opening quote is not a backslash) -/
theorem sig_dropLineCont (hd : HData) (s : String) (h : sig s = .str) :
    sig (String.ofList (dropLineCont hd s.toList)) = .str := by
  obtain ⟨c, rest, hl, hq⟩ := quote_of_sig_str s h
  have hb : (c == '\\') = false := by
    simp only [Bool.or_eq_true, beq_iff_eq] at hq
    rcases hq with rfl | rfl <;> decide
  refine sig_str_of_quote _ c (dropLineContAux hd .s0 rest) ?_ hq
  simp only [String.toList_ofList, dropLineCont, hl, dropLineContAux, hb, Bool.false_eq_true, if_false]

theorem prettyTyped (indent : Option String) (cert : List (String × Abs)) :
    TypedCfg (prettyCfg indent) (mkCtx Gen.Rules.rs_indent Gen.Defs.definitions cert) where
  hooks := prettyCfg_noHooks indent
  tok := rfl
  tbl := rfl
  hdr := rfl
  lc := Or.inr rfl
  bc := Or.inr rfl
  ek := rfl
  esep := ⟨[("@tokmap", .list []), ("value", .int 1)], rfl, rfl⟩
  lit := Or.inl rfl

theorem minifyTyped (d : Bool) (cert : List (String × Abs)) :
    TypedCfg (minifyCfg d) (mkCtx (if d then Gen.Rules.rs_minify1 else Gen.Rules.rs_minify0) Gen.Defs.definitions cert) := by
  cases d
  all_goals exact {
    hooks := minifyCfg_noHooks _
    tok := rfl
    tbl := rfl
    hdr := rfl
    lc := Or.inl rfl
    bc := Or.inl rfl
    ek := rfl
    esep := ⟨[("@tokmap", .list []), ("value", .int 1)], rfl, rfl⟩
    lit := Or.inr ⟨rfl, fun s hs => sig_dropLineCont _ s hs⟩ }

end CalmVerif.TokenAdj
