/-
C13, faithfulness on final trees, action level: the `@comments` attributes of the value a semantic action returns
are — up to order, with multiplicity — among those of its arguments plus `set_comments` of the tokens in the slots
at which the built nodes are anchored; every slot contributes at most once.
-/
import Mathlib.Data.List.Perm.Subperm
import CalmVerif.Proofs.CommentsCollect
import CalmVerif.Proofs.CommentsEval

namespace CalmVerif.Proofs.Comments
open CalmVerif CalmVerif.Model.Actions CalmVerif.Model.ActionDesc
open List

@[simp] theorem cms_list (xs : List Val) : cms (.list xs) = cmsL xs := by simp [cms]
@[simp] theorem cms_node (k : String) (as : List (String × Val)) : cms (.node k as) = cmsA as := by simp [cms]
@[simp] theorem cms_none : cms .none = [] := by simp [cms]
@[simp] theorem cms_str (s : String) : cms (.str s) = [] := by simp [cms]
@[simp] theorem cms_int (n : Int) : cms (.int n) = [] := by simp [cms]
@[simp] theorem cms_bool (b : Bool) : cms (.bool b) = [] := by simp [cms]
@[simp] theorem cmsL_nil : cmsL [] = [] := by simp [cmsL]
@[simp] theorem cmsL_cons (v : Val) (vs : List Val) : cmsL (v :: vs) = cms v ++ cmsL vs := by simp [cmsL]
@[simp] theorem cmsA_nil : cmsA [] = [] := by simp [cmsA]
theorem cmsA_cons (a : String) (v : Val) (rest : List (String × Val)) :
    cmsA ((a, v) :: rest) = (if a == "@comments" then [v] else if Val.isMeta a then [] else cms v) ++ cmsA rest := by
  simp [cmsA]

theorem cmsL_append (xs ys : List Val) : cmsL (xs ++ ys) = cmsL xs ++ cmsL ys := by
  induction xs with
  | nil => simp
  | cons v vs ih => simp [ih]

theorem cmsA_append (xs ys : List (String × Val)) : cmsA (xs ++ ys) = cmsA xs ++ cmsA ys := by
  induction xs with
  | nil => simp
  | cons p rest ih => obtain ⟨a, v⟩ := p; simp [cmsA_cons, ih]

theorem cmsL_reverse_perm (xs : List Val) : cmsL xs.reverse ~ cmsL xs := by
  induction xs with
  | nil => simp
  | cons v vs ih =>
    simp only [reverse_cons, cmsL_append, cmsL_cons, cmsL_nil, append_nil]
    exact (perm_append_comm).trans (Perm.append_left _ ih)

/-- the contribution of one attribute to `cmsA` -/
def cmsEntry (a : String) (v : Val) : List Val :=
  if a == "@comments" then [v] else if Val.isMeta a then [] else cms v

theorem cmsA_cons' (a : String) (v : Val) (rest : List (String × Val)) :
    cmsA ((a, v) :: rest) = cmsEntry a v ++ cmsA rest := cmsA_cons a v rest

/-- replacing / adding an attribute whose new value carries no comments (or that is metadata) does not add comments -/
theorem cmsA_setAttr (as : List (String × Val)) (name : String) (x : Val) (hn : name ≠ "@comments")
    (hx : Val.isMeta name = true ∨ cms x = []) : cmsA (setAttr as name x) <+ cmsA as := by
  have hnew : cmsEntry name x = [] := by
    unfold cmsEntry
    have : (name == "@comments") = false := by simp [hn]
    rw [this]
    rcases hx with hx | hx <;> simp [hx]
  unfold setAttr
  split
  · clear * - hnew
    induction as with
    | nil => simp
    | cons p rest ih =>
      obtain ⟨a, v⟩ := p
      simp only [map_cons]
      by_cases h : (a == name) = true
      · simp only [h, if_true, cmsA_cons', hnew, nil_append]
        exact ih.trans (sublist_append_right _ _)
      · simp only [h, Bool.false_eq_true, if_false, cmsA_cons']
        exact Sublist.append_left ih _
  · rw [cmsA_append, cmsA_cons', hnew]
    simp

/-- the value of a plain attribute of a node carries a sublist of the node's comments -/
theorem cms_getAttr (v x : Val) (name : String) (hm : Val.isMeta name = false) (h : getAttr v name = some x) :
    cms x <+ cms v := by
  cases v with
  | node k as =>
    simp only [getAttr, Val.attr?, Option.map_eq_some_iff] at h
    obtain ⟨p, hp, rfl⟩ := h
    simp only [cms_node]
    induction as with
    | nil => simp at hp
    | cons q rest ih =>
      obtain ⟨a, w⟩ := q
      rw [cmsA_cons']
      simp only [find?_cons] at hp
      by_cases ha : (a == name) = true
      · simp only [ha] at hp
        simp only [Option.some.injEq] at hp
        subst hp
        have hname : a = name := by simpa using ha
        subst hname
        have hc : (a == "@comments") = false := by
          cases hcc : (a == "@comments") with
          | false => rfl
          | true =>
            have : a = "@comments" := by simpa using hcc
            subst this
            simp [Val.isMeta] at hm
        simp only [cmsEntry, hc, hm, Bool.false_eq_true, if_false]
        exact sublist_append_left _ _
      · simp only [ha] at hp
        exact (ih hp).trans (sublist_append_right _ _)
  | _ => simp [getAttr, Val.attr?] at h

/-- what a reference contributes: the comments of the argument tree, resp. `set_comments` of the slot's token -/
def slotCms (c : Ctx) : Ref → List Val
  | (false, j) =>
    match c.slot? j with
    | some pv => cms pv.v
    | none => []
  | (true, j) =>
    match c.slot? j with
    | some pv => (pv.tok.bind commentsOf).toList
    | none => []

theorem refsD_node (kind : String) (attrs : List (String × D)) (pos : PosD) (ts : List Nat)
    (tm : List (TextSrc × PosD)) (tmo : Option Nat) :
    refsD (.node kind attrs pos ts tm tmo) = refsAttrs attrs ++ anchorRefs pos := by
  simp [refsD]

theorem cmsA_extraOf (c : Ctx) (pos : PosD) : cmsA (extraOf c pos) <+ (anchorRefs pos).flatMap (slotCms c) := by
  unfold extraOf anchorRefs
  cases c.withComments with
  | false => cases setposIdx pos <;> simp
  | true =>
    cases setposIdx pos with
    | none => simp
    | some idx =>
      simp only [flatMap_cons, flatMap_nil, append_nil, slotCms]
      cases c.slot? idx with
      | none => simp
      | some pv =>
        simp only []
        cases pv.tok.bind commentsOf with
        | none => simp
        | some cv => simp [cmsA_cons]

theorem nodeTail_cms (c : Ctx) (kind : String) (pos : PosD) (ts : List Nat) (tm : List (TextSrc × PosD))
    (tmo : Option Nat) (as : List (String × Val)) (v : Val) (h : nodeTail c kind pos ts tm tmo as = .ok v) :
    cms v <+ cmsA as ++ (anchorRefs pos).flatMap (slotCms c) := by
  rw [nodeTail_eq] at h
  cases hp : evalPos c pos with
  | error e => simp [hp] at h
  | ok p =>
    cases ht : tmvOf c ts tm tmo as with
    | error e => simp [hp, ht] at h
    | ok tmv =>
      simp only [hp, ht, Except.ok.injEq] at h
      subst h
      have hmeta : cmsA [("@pos", p), ("@tokmap", tmv)] = [] := by
        simp [cmsA_cons, Val.isMeta]
      simp only [cms_node, cmsA_append, hmeta, append_nil]
      exact Sublist.append_left (cmsA_extraOf c pos) _ |>.trans (by exact Sublist.refl _)

theorem xsOf_cms (c : Ctx) (j : Nat) (xs : List Val) (h : xsOf c j = .ok xs) : cmsL xs = slotCms c (false, j) := by
  unfold xsOf at h
  unfold slotCms
  cases hs : c.slot? j with
  | none => simp [hs, throw, throwThe, MonadExceptOf.throw] at h
  | some pv =>
    simp only [hs] at h ⊢
    cases hv : pv.v with
    | list ys =>
      simp only [hv, pure, Except.pure, Except.ok.injEq] at h
      subst h
      simp
    | _ => simp [hv, throw, throwThe, MonadExceptOf.throw] at h

theorem incLast_cms (lastInc : Bool) (xs xs1 : List Val) (h : incLast lastInc xs = .ok xs1) : cmsL xs1 <+~ cmsL xs := by
  unfold incLast at h
  cases lastInc with
  | false =>
    simp only [Bool.false_eq_true, if_false, pure, Except.pure, Except.ok.injEq] at h
    subst h
    exact Subperm.refl _
  | true =>
    simp only [if_true] at h
    cases hr : xs.reverse with
    | nil => simp [hr, throw, throwThe, MonadExceptOf.throw] at h
    | cons hd before =>
      rw [hr] at h
      cases hd with
      | node k as =>
        simp only [] at h
        cases hf : as.find? (fun p => p.1 == "value") with
        | none => simp [hf, throw, throwThe, MonadExceptOf.throw] at h
        | some pr =>
          obtain ⟨nm, v⟩ := pr
          cases v with
          | int n =>
            simp only [hf, pure, Except.pure, Except.ok.injEq] at h
            subst h
            have h1 : cmsL (Val.node k (setAttr as "value" (.int (n + 1))) :: before) <+ cmsL (Val.node k as :: before) := by
              simp only [cmsL_cons, cms_node]
              exact Sublist.append_right (cmsA_setAttr as "value" _ (by decide) (Or.inr (by simp))) _
            have h2 : cmsL (Val.node k as :: before) ~ cmsL xs := by
              rw [← hr]
              exact cmsL_reverse_perm xs
            exact ((cmsL_reverse_perm _).subperm.trans h1.subperm).trans h2.subperm
          | _ => simp [hf, throw, throwThe, MonadExceptOf.throw] at h
      | _ => simp [throw, throwThe, MonadExceptOf.throw] at h

theorem setFirstTm_cms (c : Ctx) (firstTm : Option PosD) (xs1 xs2 : List Val) (h : setFirstTm c firstTm xs1 = .ok xs2) :
    cmsL xs2 <+ cmsL xs1 := by
  unfold setFirstTm at h
  cases firstTm with
  | none =>
    simp only [pure, Except.pure, Except.ok.injEq] at h
    subst h
    exact Sublist.refl _
  | some pd =>
    simp only [bind, Except.bind] at h
    cases hq : evalPos c pd with
    | error e => simp [hq] at h
    | ok q =>
      simp only [hq] at h
      cases xs1 with
      | nil => simp [throw, throwThe, MonadExceptOf.throw] at h
      | cons hd after =>
        cases hd with
        | node k as =>
          simp only [] at h
          cases hf : as.find? (fun p => p.1 == "value") with
          | none => simp [hf, throw, throwThe, MonadExceptOf.throw] at h
          | some pr =>
            obtain ⟨nm, v⟩ := pr
            cases v with
            | int n =>
              simp only [hf, pure, Except.pure, Except.ok.injEq] at h
              subst h
              simp only [cmsL_cons, cms_node]
              exact Sublist.append_right (cmsA_setAttr as "@tokmap" _ (by decide) (Or.inl (by decide))) _
            | _ => simp [hf, throw, throwThe, MonadExceptOf.throw] at h
        | _ => simp [throw, throwThe, MonadExceptOf.throw] at h

theorem bind_ok {α β : Type} {x : Except Err α} {f : α → Except Err β} {b : β} (h : (x >>= f) = .ok b) :
    ∃ a, x = .ok a ∧ f a = .ok b := by
  cases x with
  | error e => simp [bind, Except.bind] at h
  | ok a => exact ⟨a, rfl, h⟩

/-! ### the comments of the value of a descriptor -/

mutual
  theorem evalD_cms (c : Ctx) : ∀ (d : D), noCommentsReadD d = true → plainReadD d = true → ∀ v, evalD c d = .ok v →
      cms v <+~ (refsD d).flatMap (slotCms c)
    | .slot j, _, _, v, h => by
      rw [evalD] at h
      simp only [refsD, flatMap_cons, flatMap_nil, append_nil, slotCms]
      cases hs : c.slot? j with
      | none => simp [hs] at h
      | some pv =>
        simp only [hs, Except.ok.injEq] at h
        subst h
        exact Subperm.refl _
    | .none, _, _, v, h => by rw [evalD] at h; cases h; simp
    | .str s, _, _, v, h => by rw [evalD] at h; cases h; simp
    | .int n, _, _, v, h => by rw [evalD] at h; cases h; simp
    | .attrOf j name, _, hp, v, h => by
      have hm : Val.isMeta name = false := by simpa [plainReadD] using hp
      rw [evalD] at h
      simp only [refsD, flatMap_cons, flatMap_nil, append_nil, slotCms]
      cases hs : c.slot? j with
      | none => simp [hs] at h
      | some pv =>
        simp only [hs] at h
        cases hg : getAttr pv.v name with
        | none => simp [hg] at h
        | some x =>
          simp only [hg, Except.ok.injEq] at h
          subst h
          exact (cms_getAttr pv.v x name hm hg).subperm
    | .raiseAt msg j, _, _, v, h => by
      rw [evalD_raiseAt] at h
      have := mapE_raiseOf msg (evalPos c (.ofNodeTok j))
      rw [h] at this
      simp only [mapE_ok] at this
      rw [← this] at h
      -- `raiseOf` never returns `.ok`
      exfalso
      revert h
      generalize evalPos c (.ofNodeTok j) = r
      intro h
      have hne : ∀ w, raiseOf msg r ≠ .ok w := by
        intro w
        unfold raiseOf
        split <;> simp
      exact hne _ h
    | .list items, hr, hp, v, h => by
      have hi : noCommentsReadItems items = true := by simpa [noCommentsReadD] using hr
      have hpi : plainReadItems items = true := by simpa [plainReadD] using hp
      rw [evalD] at h
      cases hv : evalItems c items with
      | error e => simp [hv, Except.map] at h
      | ok vs =>
        simp only [hv, Except.map, Except.ok.injEq] at h
        subst h
        simpa [refsD] using evalItems_cms c items hi hpi vs hv
    | .node kind attrs pos ts tm tmo, hr, hp, v, h => by
      have ha : noCommentsReadAttrs attrs = true := by simpa [noCommentsReadD] using hr
      have hpa : plainReadAttrs attrs = true := by simpa [plainReadD] using hp
      rw [evalD_node] at h
      obtain ⟨as, has, ht⟩ := bind_ok h
      rw [refsD_node, flatMap_append]
      exact (nodeTail_cms c kind pos ts tm tmo as v ht).subperm.trans
        (Subperm.append (evalAttrs_cms c attrs ha hpa as has) (Subperm.refl _))
  theorem evalAttrs_cms (c : Ctx) : ∀ (attrs : List (String × D)), noCommentsReadAttrs attrs = true →
      plainReadAttrs attrs = true → ∀ as, evalAttrs c attrs = .ok as → cmsA as <+~ (refsAttrs attrs).flatMap (slotCms c)
    | [], _, _, as, h => by rw [evalAttrs] at h; cases h; simp
    | (n, d) :: rest, hr, hp, as, h => by
      simp only [noCommentsReadAttrs, Bool.and_eq_true, bne_iff_ne, ne_eq] at hr
      obtain ⟨⟨hn, hd⟩, hrr⟩ := hr
      simp only [plainReadAttrs, Bool.and_eq_true] at hp
      rw [evalAttrs] at h
      obtain ⟨v, hv, h2⟩ := bind_ok h
      obtain ⟨vs, hvs, h3⟩ := bind_ok h2
      simp only [pure, Except.pure, Except.ok.injEq] at h3
      subst h3
      have hc : (n == "@comments") = false := by simp [hn]
      have h1 : cmsEntry n v <+ cms v := by
        unfold cmsEntry
        rw [hc]
        simp only [Bool.false_eq_true, if_false]
        split <;> simp
      rw [cmsA_cons', refsAttrs, flatMap_append]
      exact Subperm.append (h1.subperm.trans (evalD_cms c d hd hp.1 v hv)) (evalAttrs_cms c rest hrr hp.2 vs hvs)
  theorem evalItems_cms (c : Ctx) : ∀ (items : List Item), noCommentsReadItems items = true →
      plainReadItems items = true → ∀ vs, evalItems c items = .ok vs → cmsL vs <+~ (refsItems items).flatMap (slotCms c)
    | [], _, _, vs, h => by rw [evalItems] at h; cases h; simp
    | .item d :: rest, hr, hp, vs, h => by
      simp only [noCommentsReadItems, Bool.and_eq_true] at hr
      simp only [plainReadItems, Bool.and_eq_true] at hp
      rw [evalItems] at h
      obtain ⟨v, hv, h2⟩ := bind_ok h
      obtain ⟨ws, hws, h3⟩ := bind_ok h2
      simp only [pure, Except.pure, Except.ok.injEq] at h3
      subst h3
      rw [cmsL_cons, refsItems, flatMap_append]
      exact Subperm.append (evalD_cms c d hr.1 hp.1 v hv) (evalItems_cms c rest hr.2 hp.2 ws hws)
    | .spread j :: rest, hr, hp, vs, h => by
      have hrr : noCommentsReadItems rest = true := by simpa [noCommentsReadItems] using hr
      have hpp : plainReadItems rest = true := by simpa [plainReadItems] using hp
      rw [evalItems_spread] at h
      obtain ⟨xs, hxs, h2⟩ := bind_ok h
      obtain ⟨ws, hws, h3⟩ := bind_ok h2
      simp only [pure, Except.pure, Except.ok.injEq] at h3
      subst h3
      rw [cmsL_append, refsItems, flatMap_cons, xsOf_cms c j xs hxs]
      exact Subperm.append (Subperm.refl _) (evalItems_cms c rest hrr hpp ws hws)
    | .spreadMod j lastInc firstTm :: rest, hr, hp, vs, h => by
      have hrr : noCommentsReadItems rest = true := by simpa [noCommentsReadItems] using hr
      have hpp : plainReadItems rest = true := by simpa [plainReadItems] using hp
      rw [evalItems_spreadMod] at h
      obtain ⟨xs, hxs, h2⟩ := bind_ok h
      obtain ⟨xs1, hxs1, h3⟩ := bind_ok h2
      obtain ⟨xs2, hxs2, h4⟩ := bind_ok h3
      obtain ⟨ws, hws, h5⟩ := bind_ok h4
      simp only [pure, Except.pure, Except.ok.injEq] at h5
      subst h5
      rw [cmsL_append, refsItems, flatMap_cons, ← xsOf_cms c j xs hxs]
      exact Subperm.append ((setFirstTm_cms c firstTm xs1 xs2 hxs2).subperm.trans (incLast_cms lastInc xs xs1 hxs1))
        (evalItems_cms c rest hrr hpp ws hws)
end

end CalmVerif.Proofs.Comments
