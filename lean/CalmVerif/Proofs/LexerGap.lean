/-
Helper lemmas for C06: what the lexer skips (ignored characters, LINE_TERMINATOR tokens, comment tokens)
is gap text in the sense of Spec.LexSeg (ES5 white space, line terminators, comments).
-/
import CalmVerif.Proofs.LexerPly

namespace CalmVerif.Proofs.LexerGap
open CalmVerif.Model.TokenRegex CalmVerif.Model.PlyLex CalmVerif.Proofs.LexerRegex CalmVerif.Proofs.LexerPly
open CalmVerif.Spec.LexSeg CalmVerif.Gen

/-! ### ignored characters -/

/-- D: `t_ignore` is exactly ES5 WhiteSpace (both inclusions, decided over the generated ignore string) -/
theorem ignore_initial_eq :
    (ignoreOf .initial).all (fun c => isWhiteSpace c) = true ∧
    ([0x09, 0x0B, 0x0C, 0x20, 0xA0, 0xFEFF] ++ zs).all
      (fun n => (ignoreOf .initial).contains (Char.ofNat n)) = true := by
  constructor <;> decide

theorem ignore_regex_eq : ignoreOf .regex = [' ', '\t'] := by decide

theorem ignored_is_gap_char (s : LexerState) (c : Char) (h : isIgnored s c = true) :
    isWhiteSpace c = true ∨ isLineTerminator c = true := by
  have key : ∀ s, (ignoreOf s).all (fun c => isWhiteSpace c || isLineTerminator c) = true := by
    intro s; cases s <;> decide
  have := key s
  rw [List.all_eq_true] at this
  unfold isIgnored at h
  have hm : c ∈ ignoreOf s := by simpa using h
  simpa using this c hm

theorem GapText.append {cm : Bool} {a b : List Char} (ha : GapText cm a) (hb : GapText cm b) :
    GapText cm (a ++ b) := by
  induction ha with
  | nil => simpa using hb
  | space c rest hc _ ih => exact GapText.space c (rest ++ b) hc ih
  | comment c rest hcm hc _ ih =>
    rw [List.append_assoc]
    exact GapText.comment c (rest ++ b) hcm hc ih

theorem gap_of_chars (cm : Bool) (l : List Char)
    (h : ∀ c ∈ l, isWhiteSpace c = true ∨ isLineTerminator c = true) : GapText cm l := by
  induction l with
  | nil => exact GapText.nil
  | cons c cs ih =>
    exact GapText.space c cs (h c (by simp)) (ih (fun d hd => h d (by simp [hd])))

theorem gap_of_ignored (cm : Bool) (s : LexerState) (l : List Char) (h : AllIgnored s l) : GapText cm l :=
  gap_of_chars cm l (fun c hc => ignored_is_gap_char s c (h c hc))

/-! ### line terminator tokens -/

theorem ltSeq_chars (rest : List Char) (n : Nat) (h : ltSeqLen rest = some n) :
    ∀ c ∈ rest.take n, isLineTerminator c = true := by
  cases rest with
  | nil => simp [ltSeqLen] at h
  | cons c cs =>
    simp only [ltSeqLen] at h
    split at h
    · rename_i hc; simp at h; subst h; subst hc; simp; decide
    · split at h
      · rename_i hc
        subst hc
        cases cs with
        | nil => simp at h; subst h; simp; decide
        | cons d ds =>
          simp only at h
          split at h
          · rename_i hd; subst hd; simp at h; subst h; simp; decide
          · simp at h; subst h; simp; decide
      · split at h
        · rename_i hc; simp at h; subst h; subst hc; simp; decide
        · split at h
          · rename_i hc; simp at h; subst h; subst hc; simp; decide
          · simp at h

theorem gap_of_ltSeq (cm : Bool) (rest : List Char) (n : Nat) (h : ltSeqLen rest = some n) :
    GapText cm (rest.take n) :=
  gap_of_chars cm _ (fun c hc => Or.inr (ltSeq_chars rest n h c hc))

/-! ### comments -/

theorem noStarSlash_cons (c : Char) (l : List Char) :
    NoStarSlash (c :: l) ↔ ¬ (c = '*' ∧ l.head? = some '/') ∧ NoStarSlash l := by
  constructor
  · intro h
    constructor
    · intro ⟨hc, hl⟩
      apply h 0
      cases l with
      | nil => simp at hl
      | cons d ds => simp at hl; simp [hc, hl]
    · intro i hi
      apply h (i + 1)
      simpa using hi
  · intro ⟨h0, hl⟩ i hi
    cases i with
    | zero =>
      apply h0
      cases l with
      | nil => simp at hi
      | cons d ds => simpa using hi
    | succ j =>
      apply hl j
      simpa using hi

theorem bcScan_spec : ∀ (l : List Char) (n : Nat), bcScan l = some n →
    ∃ body, l.take n = body ++ ['*', '/'] ∧ NoStarSlash (body ++ ['*']) := by
  intro l
  induction l with
  | nil => intro n h; simp [bcScan] at h
  | cons c cs ih =>
    intro n h
    unfold bcScan at h
    cases cs with
    | nil => simp at h
    | cons d ds =>
      simp only at h
      split at h
      · rename_i hcd
        simp at h; subst h
        refine ⟨[], by simp [hcd.1, hcd.2], ?_⟩
        intro i hi
        cases i <;> simp at hi
      · rename_i hcd
        simp only [Option.map_eq_some_iff] at h
        obtain ⟨m, hm, rfl⟩ := h
        obtain ⟨body, hb, hns⟩ := ih m hm
        have hm2 := (bcScan_bounds _ _ hm).1
        refine ⟨c :: body, by simp [hb], ?_⟩
        rw [List.cons_append, noStarSlash_cons]
        refine ⟨?_, hns⟩
        intro ⟨hc, hh⟩
        apply hcd
        refine ⟨hc, ?_⟩
        -- the head of `body ++ ['*']` is the head of `(d :: ds).take m`, i.e. `d`
        obtain ⟨m', rfl⟩ : ∃ m', m = m' + 1 := ⟨m - 1, by omega⟩
        simp only [List.take_succ_cons] at hb
        cases body with
        | nil => simp at hh
        | cons b bs =>
          simp at hb hh
          rw [hb.1, hh]

theorem blockComment_spec (rest : List Char) (n : Nat) (h : blockCommentLen rest = some n) :
    IsBlockComment (rest.take n) := by
  unfold blockCommentLen at h
  split at h
  · rename_i c d r
    split at h
    · rename_i hcd
      simp only [Option.map_eq_some_iff] at h
      obtain ⟨m, hm, rfl⟩ := h
      obtain ⟨body, hb, hns⟩ := bcScan_spec r m hm
      refine ⟨body, ?_, hns⟩
      simp [hcd.1, hcd.2, hb]
    · simp at h
  · simp at h

theorem lineCommentChar_not_lt (c : Char) (h : isLineCommentChar c = true) : isLineTerminator c = false := by
  have h1 : isLineCommentChar '\n' = false := by decide
  have h2 : isLineCommentChar '\r' = false := by decide
  have h3 : isLineCommentChar '\u2028' = false := by decide
  have h4 : isLineCommentChar '\u2029' = false := by decide
  cases hlt : isLineTerminator c with
  | false => rfl
  | true =>
    exfalso
    unfold isLineTerminator at hlt
    simp only [List.contains_cons, List.contains_nil, Bool.or_false, Bool.or_eq_true, beq_iff_eq] at hlt
    have hc : c = '\n' ∨ c = '\r' ∨ c = '\u2028' ∨ c = '\u2029' := by
      have key : ∀ n, c.toNat = n → c = Char.ofNat n := by
        intro n hn; rw [← hn, Char.ofNat_toNat]
      rcases hlt with h | h | h | h
      · left; exact key _ h
      · right; left; exact key _ h
      · right; right; left; exact key _ h
      · right; right; right; exact key _ h
    rcases hc with rfl | rfl | rfl | rfl <;> simp_all

theorem lineComment_spec (rest : List Char) (n : Nat) (h : lineCommentLen rest = some n) :
    IsLineComment (rest.take n) := by
  unfold lineCommentLen at h
  split at h
  · rename_i c d r
    split at h
    · rename_i hcd
      simp at h; subst h
      refine ⟨r.take (spanLen isLineCommentChar r), ?_, ?_⟩
      · have : 2 + spanLen isLineCommentChar r = spanLen isLineCommentChar r + 1 + 1 := by omega
        rw [this]
        simp [hcd.1, hcd.2]
      · intro x hx
        exact lineCommentChar_not_lt x (spanLen_take_all _ _ x hx)
    · simp at h
  · simp at h

end CalmVerif.Proofs.LexerGap
