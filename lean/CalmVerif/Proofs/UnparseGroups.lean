/-
The normal form of a buffer of layout chunks (`normalize`, the first pass of `process_layouts`) is a
REGROUPING of the buffer: every entry stands for a block of consecutive chunks — one chunk (a raw
entry, with the chunk's own handler) or the chunks of the entries a tuple key was looked up for.
For the `indent` table the only tuples are (Indent, Newline, Dedent) ↦ noop and
(Space | OptionalSpace, EndStatement) ↦ `;`, over raw entries.
-/
import CalmVerif.Proofs.UnparseLevel
import CalmVerif.Proofs.UnparseBalanced
namespace CalmVerif.Unparse
open CalmVerif

def rawEntry (c : LChunk) : LEntry := { key := LKey.single c.m, handler := c.handler, node := c.node }

/-- `Grp tbl g e`: entry `e` stands for the consecutive chunks `g` -/
inductive Grp (tbl : List (LKey × Option HandlerId)) : List LChunk → LEntry → Prop where
  | raw (c : LChunk) : Grp tbl [c] (rawEntry c)
  | tup (ps : List (List LChunk × LEntry)) (h : HandlerId) (nd : Val) :
      (∀ p ∈ ps, Grp tbl p.1 p.2) → ps ≠ [] →
      lookupLayout tbl (LKey.tuple (ps.map (·.2.key))) = some h →
      Grp tbl (ps.flatMap (·.1)) { key := LKey.tuple (ps.map (·.2.key)), handler := h, node := nd }

theorem normalizeAux_groups (tbl : List (LKey × Option HandlerId)) (all : List LChunk) :
    ∀ (cs : List LChunk) (ps : List (List LChunk × LEntry)), (∀ p ∈ ps, Grp tbl p.1 p.2) →
      ∃ ps' : List (List LChunk × LEntry), normalizeAux tbl all cs (ps.map (·.2)) = ps'.map (·.2) ∧
        ps'.flatMap (·.1) = ps.flatMap (·.1) ++ cs ∧ ∀ p ∈ ps', Grp tbl p.1 p.2 := by
  intro cs
  induction cs with
  | nil => intro ps hps; exact ⟨ps, by simp [normalizeAux], by simp, hps⟩
  | cons c cs ih =>
    intro ps hps
    have hps1 : ∀ p ∈ ps ++ [([c], rawEntry c)], Grp tbl p.1 p.2 := by
      intro p hp
      simp only [List.mem_append, List.mem_singleton] at hp
      rcases hp with hp | rfl
      · exact hps p hp
      · exact .raw c
    have hmap : (ps.map (·.2)) ++ [({ key := LKey.single c.m, handler := c.handler, node := c.node } : LEntry)]
        = (ps ++ [([c], rawEntry c)]).map (·.2) := by simp [rawEntry]
    simp only [normalizeAux]
    rw [hmap]
    split
    · obtain ⟨ps', h1, h2, h3⟩ := ih _ hps1
      exact ⟨ps', h1, by rw [h2]; simp, h3⟩
    · rename_i idx key h hf
      obtain ⟨j, hj1, hj2, hj3, hj4⟩ := findNorm_spec tbl _ _ _ _ _ hf
      simp only [Nat.zero_add] at hj1
      subst hj1
      obtain ⟨ps1, hps1e⟩ : ∃ x, x = ps ++ [([c], rawEntry c)] := ⟨_, rfl⟩
      rw [← hps1e] at hps1 hj2 hj3 ⊢
      have hlen : idx < ps1.length := by simpa using hj2
      have hkey : key = LKey.tuple ((ps1.drop idx).map (·.2.key)) := by
        rw [hj3, ← List.map_drop, List.map_map]; rfl
      have hne : ps1.drop idx ≠ [] := by
        intro he
        have := congrArg List.length he
        simp at this; omega
      have hgrp : ∀ nd : Val, Grp tbl ((ps1.drop idx).flatMap (·.1)) { key := key, handler := h, node := nd } := by
        intro nd
        rw [hkey]
        exact .tup (ps1.drop idx) h _ (fun p hp => hps1 p (List.mem_of_mem_drop hp)) hne (by rw [← hkey]; exact hj4)
      have hps2 : ∀ nd : Val, ∀ p ∈ ps1.take idx ++ [((ps1.drop idx).flatMap (·.1),
          ({ key := key, handler := h, node := nd } : LEntry))], Grp tbl p.1 p.2 := by
        intro nd p hp
        simp only [List.mem_append, List.mem_singleton] at hp
        rcases hp with hp | rfl
        · exact hps1 p (List.mem_of_mem_take hp)
        · exact hgrp nd
      have hstack : ∀ nd : Val, (ps1.map (·.2)).take idx ++ [({ key := key, handler := h, node := nd } : LEntry)]
          = (ps1.take idx ++ [((ps1.drop idx).flatMap (·.1),
              ({ key := key, handler := h, node := nd } : LEntry))]).map (·.2) := by
        intro nd; simp [List.map_take]
      rw [hstack]
      obtain ⟨ps', h1, h2, h3⟩ := ih _ (hps2 _)
      refine ⟨ps', h1, ?_, h3⟩
      rw [h2]
      have : (ps1.take idx).flatMap (·.1) ++ (ps1.drop idx).flatMap (·.1) = ps1.flatMap (·.1) := by
        rw [← List.flatMap_append, List.take_append_drop]
      simp only [List.flatMap_append, List.flatMap_cons, List.flatMap_nil, List.append_nil]
      rw [this, hps1e]; simp

/-- the normal form of a buffer, with the chunks every entry stands for -/
theorem normalize_groups (tbl : List (LKey × Option HandlerId)) (buf : List LChunk) :
    ∃ ps : List (List LChunk × LEntry), normalize tbl buf = ps.map (·.2) ∧ ps.flatMap (·.1) = buf ∧
      ∀ p ∈ ps, Grp tbl p.1 p.2 := by
  obtain ⟨ps, h1, h2, h3⟩ := normalizeAux_groups tbl buf buf [] (by simp)
  exact ⟨ps, by simpa [normalize] using h1, by simpa using h2, h3⟩

/-! ### the tuples of the `indent` table -/

def keyT1 : LKey := LKey.tuple [LKey.single .Indent, LKey.single .Newline, LKey.single .Dedent]
def keyT2 : LKey := LKey.tuple [LKey.single .OptionalSpace, LKey.single .EndStatement]
def keyT3 : LKey := LKey.tuple [LKey.single .Space, LKey.single .EndStatement]

/-- the only tuple keys with a handler: (Indent, Newline, Dedent) ↦ noop, (OptionalSpace | Space, EndStatement) ↦ `;` -/
def indentTuplesOK (tbl : List (LKey × Option HandlerId)) : Bool :=
  tbl.all (fun p => !isTupleKey p.1 || p.2 == none || (p.1 == keyT1 && p.2 == some .noop) ||
    ((p.1 == keyT2 || p.1 == keyT3) && p.2 == some .semicolon))

theorem tuple_isTupleKey (ks : List LKey) : isTupleKey (LKey.tuple ks) = true := rfl

theorem tuple_inj {ks ks' : List LKey} (h : LKey.tuple ks = LKey.tuple ks') : ks.flatten = ks'.flatten := by
  simp only [LKey.tuple, List.cons.injEq, true_and] at h
  exact List.append_cancel_right h

theorem grp_key {tbl : List (LKey × Option HandlerId)} {g : List LChunk} {e : LEntry} (h : Grp tbl g e) :
    (∃ c, g = [c] ∧ e = rawEntry c) ∨ (∃ r, e.key = KTok.lp :: r) := by
  cases h with
  | raw c => exact Or.inl ⟨c, rfl, rfl⟩
  | tup ps h nd _ _ _ => exact Or.inr ⟨_, rfl⟩

/-- entries whose keys spell a plain marker sequence are raw entries of chunks with those markers -/
theorem raw_of_flatten {tbl : List (LKey × Option HandlerId)} :
    ∀ (ps : List (List LChunk × LEntry)) (ms : List Marker), (∀ p ∈ ps, Grp tbl p.1 p.2) →
      (ps.map (·.2.key)).flatten = ms.map KTok.m →
      ∃ cs : List LChunk, ps = cs.map (fun c => ([c], rawEntry c)) ∧ cs.map (·.m) = ms := by
  intro ps
  induction ps with
  | nil =>
    intro ms _ h
    cases ms with
    | nil => exact ⟨[], rfl, rfl⟩
    | cons m ms => simp at h
  | cons p ps ih =>
    intro ms hps h
    obtain ⟨g, e⟩ := p
    rcases grp_key (hps (g, e) (by simp)) with ⟨c, rfl, rfl⟩ | ⟨r, hr⟩
    · cases ms with
      | nil => simp [rawEntry, LKey.single] at h
      | cons m ms =>
        simp only [List.map_cons, rawEntry, LKey.single, List.flatten_cons, List.cons_append, List.nil_append,
          List.cons.injEq, KTok.m.injEq] at h
        obtain ⟨cs, h1, h2⟩ := ih ms (fun q hq => hps q (by simp [hq])) h.2
        exact ⟨c :: cs, by simp [h1, rawEntry], by simp [h2, h.1]⟩
    · exfalso
      have hr' : e.key = KTok.lp :: r := hr
      simp only [List.map_cons, List.flatten_cons, hr', List.cons_append] at h
      cases ms with
      | nil => simp at h
      | cons m ms => simp at h

theorem lookup_tuple_cases {tbl : List (LKey × Option HandlerId)} (ht : indentTuplesOK tbl = true)
    {ks : List LKey} {h : HandlerId} (hl : lookupLayout tbl (LKey.tuple ks) = some h) :
    (LKey.tuple ks = keyT1 ∧ h = .noop) ∨ ((LKey.tuple ks = keyT2 ∨ LKey.tuple ks = keyT3) ∧ h = .semicolon) := by
  have hm := lookupLayout_mem hl
  simp only [indentTuplesOK, List.all_eq_true] at ht
  have := ht _ hm
  simp only [tuple_isTupleKey, Bool.not_true, Bool.false_or, Bool.or_eq_true, beq_iff_eq, Bool.and_eq_true,
    reduceCtorEq, false_or, Option.some.injEq] at this
  rcases this with ⟨h1, h2⟩ | ⟨h1, h2⟩
  · exact Or.inl ⟨h1, h2⟩
  · exact Or.inr ⟨h1, h2⟩

theorem markers_two {cs : List LChunk} {a b : Marker} (h : cs.map (·.m) = [a, b]) :
    ∃ c1 c2, cs = [c1, c2] ∧ c1.m = a ∧ c2.m = b := by
  match cs, h with
  | [c1, c2], h => simp at h; exact ⟨c1, c2, rfl, h.1, h.2⟩
  | [], h => simp at h
  | [_], h => simp at h
  | _ :: _ :: _ :: _, h => simp at h

theorem markers_three {cs : List LChunk} {a b c : Marker} (h : cs.map (·.m) = [a, b, c]) :
    ∃ c1 c2 c3, cs = [c1, c2, c3] ∧ c1.m = a ∧ c2.m = b ∧ c3.m = c := by
  match cs, h with
  | [c1, c2, c3], h => simp at h; exact ⟨c1, c2, c3, rfl, h.1, h.2.1, h.2.2⟩
  | [], h => simp at h
  | [_], h => simp at h
  | [_, _], h => simp at h
  | _ :: _ :: _ :: _ :: _, h => simp at h

/-- the three shapes of an entry under the `indent` table -/
theorem grp_classify {tbl : List (LKey × Option HandlerId)} (ht : indentTuplesOK tbl = true)
    {g : List LChunk} {e : LEntry} (hg : Grp tbl g e) :
    (∃ c, g = [c] ∧ e = rawEntry c) ∨
    (∃ c1 c2 c3, g = [c1, c2, c3] ∧ c1.m = .Indent ∧ c2.m = .Newline ∧ c3.m = .Dedent ∧ e.handler = .noop) ∨
    (∃ c1 c2, g = [c1, c2] ∧ (c1.m = .OptionalSpace ∨ c1.m = .Space) ∧ c2.m = .EndStatement ∧
      e.handler = .semicolon) := by
  cases hg with
  | raw c => exact Or.inl ⟨c, rfl, rfl⟩
  | tup ps h nd hps hne hl =>
    right
    rcases lookup_tuple_cases ht hl with ⟨hk, rfl⟩ | ⟨hk, rfl⟩
    · left
      have hf := tuple_inj hk
      obtain ⟨cs, h1, h2⟩ := raw_of_flatten ps [.Indent, .Newline, .Dedent] hps (by simpa [LKey.single] using hf)
      obtain ⟨c1, c2, c3, rfl, m1, m2, m3⟩ := markers_three h2
      exact ⟨c1, c2, c3, by simp [h1], m1, m2, m3, rfl⟩
    · right
      rcases hk with hk | hk
      · have hf := tuple_inj hk
        obtain ⟨cs, h1, h2⟩ := raw_of_flatten ps [.OptionalSpace, .EndStatement] hps (by simpa [LKey.single] using hf)
        obtain ⟨c1, c2, rfl, m1, m2⟩ := markers_two h2
        exact ⟨c1, c2, by simp [h1], Or.inl m1, m2, rfl⟩
      · have hf := tuple_inj hk
        obtain ⟨cs, h1, h2⟩ := raw_of_flatten ps [.Space, .EndStatement] hps (by simpa [LKey.single] using hf)
        obtain ⟨c1, c2, rfl, m1, m2⟩ := markers_two h2
        exact ⟨c1, c2, by simp [h1], Or.inr m1, m2, rfl⟩

end CalmVerif.Unparse
