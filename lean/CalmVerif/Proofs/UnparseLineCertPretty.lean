/-
The line-structure certificate of the `rs_indent` rule set (pretty printer), computed by fixpoint iteration over the
regenerated Gen.Defs / Gen.Rules under builder rt's slot typing `es5Slot`, and the kernel decision that it is closed
(D obligation: breaks when a definition, the layout table or the slot typing changes the line structure).
-/
import CalmVerif.Proofs.UnparseTyped
import CalmVerif.Proofs.UnparseTypedEnd
import CalmVerif.Proofs.RoundTripCertPretty
import CalmVerif.Model.UnparseInst
namespace CalmVerif.Unparse
open CalmVerif CalmVerif.TokenAdj

def mkLxPretty (cert : LCert) : LCtx :=
  { tbl := Gen.Rules.rs_indent.layout, slot := es5Slot, cert := cert, esep := "Elision",
    elisionKinds := Gen.Defs.elisionKinds, comments := true }

/-- kind ↦ state before the node ↦ possible states after it; a missing entry = "may print a token on a dirty line" -/
def lcertPretty : LCert := lcertIter mkLxPretty Gen.Defs.definitions 4
def lxPretty : LCtx := mkLxPretty lcertPretty

/-- what the certificate has to say about a program: from the start of a line with no newline owed, a program ends
at the start of a line with no newline owed -/
def programEntry (c : LCert) : Bool :=
  lcertOf c "ES5Program" (.fresh, false) == some [(.fresh, false)]

/-- every definition has an entry for the start of a line -/
def allEntries (c : LCert) : Bool :=
  Gen.Defs.definitions.all (fun kd => (lcertOf c kd.1 (.fresh, false)).isSome)

set_option maxRecDepth 1000000 in
theorem lcertPretty_closed_forced :
    withLCert mkLxPretty Gen.Defs.definitions 4
      (fun c => lcertClosed (mkLxPretty c) Gen.Defs.definitions && programEntry c && allEntries c) = true := by
  decide +kernel

theorem lcertPretty_facts :
    lcertClosed lxPretty Gen.Defs.definitions = true ∧ programEntry lcertPretty = true ∧ allEntries lcertPretty = true := by
  have h := lcertPretty_closed_forced
  rw [withLCert_eq] at h
  simp only [Bool.and_eq_true] at h
  exact ⟨h.1.1, h.1.2, h.2⟩

theorem lcertPretty_closed : lcertClosed lxPretty Gen.Defs.definitions = true := lcertPretty_facts.1

theorem lcertPretty_program :
    lcertOf lcertPretty "ES5Program" (.fresh, false) = some [(.fresh, false)] := by
  have h := lcertPretty_facts.2.1
  simpa [programEntry] using h

theorem prettyLink (indent : Option String) : LinkOK (prettyCfg indent) cxPretty lxPretty where
  tbl := rfl
  slot := rfl
  esep := rfl
  ek := rfl
  comments := Or.inl ⟨rfl, rfl, rfl⟩
  commentsSlot := fun K => ⟨["Comments"], by
    show es5Slot K "comments" = _
    unfold es5Slot
    exact if_pos (by decide)⟩
  closed := lcertPretty_closed

theorem lcertPretty_entry (K : String) (d : List Rule) (h : lookupDef Gen.Defs.definitions K = some d) :
    ∃ E, lcertOf lcertPretty K (.fresh, false) = some E := by
  have ha := lcertPretty_facts.2.2
  simp only [allEntries, List.all_eq_true] at ha
  have := ha _ (lookupDef_mem' h)
  exact Option.isSome_iff_exists.mp this

/-- a walk that succeeds on a node found a definition of its kind -/
theorem walkChunks_hasDef {σ : Type} (cfg : Cfg σ) (K : String) (as : List (String × Val)) (s : σ)
    (r : List Chunk × σ) (h : walkChunks cfg (.node K as) s = .ok r) : ∃ d, lookupDef cfg.defs K = some d := by
  simp only [walkChunks] at h
  cases hf : fuelFor cfg (.node K as) with
  | zero => rw [hf] at h; simp [walkNode] at h
  | succ n =>
    rw [hf] at h
    simp only [walkNode, nodeStep] at h
    cases hd : lookupDef cfg.defs K with
    | none => rw [hd] at h; cases h
    | some d => exact ⟨d, rfl⟩

/-- the chunks of any well-typed node, scanned from the start of a line, never print a token on a dirty line -/
theorem pretty_node_scan (indent : Option String) (K : String) (attrs : List (String × Val))
    (hw : wfVal cxPretty (.node K attrs) = true) (cs : List Chunk)
    (h : walkChunks (prettyCfg indent) (.node K attrs) () = .ok (cs, ())) :
    ∃ st', lsRun cs (.fresh, false) = some st' := by
  obtain ⟨d, hd⟩ := walkChunks_hasDef (prettyCfg indent) K attrs () _ h
  obtain ⟨E, hE⟩ := lcertPretty_entry K d hd
  obtain ⟨st', _, h2⟩ := walkChunks_sound (prettyTyped indent certPretty) (prettyLink indent) K attrs hw
    () cs () h (.fresh, false) E hE
  exact ⟨st', h2⟩

/-- the chunks of a well-typed program, scanned from the start of a line, never print a token on a dirty line and
end at the start of a line with no unconditional newline owed -/
theorem pretty_program_scan (indent : Option String) (attrs : List (String × Val))
    (hw : wfVal cxPretty (.node "ES5Program" attrs) = true) (cs : List Chunk)
    (h : walkChunks (prettyCfg indent) (.node "ES5Program" attrs) () = .ok (cs, ())) :
    lsRun cs (.fresh, false) = some (.fresh, false) := by
  obtain ⟨st', h1, h2⟩ := walkChunks_sound (prettyTyped indent certPretty) (prettyLink indent) "ES5Program" attrs hw
    () cs () h (.fresh, false) _ lcertPretty_program
  simp only [List.mem_singleton] at h1
  rw [h2, h1]

end CalmVerif.Unparse
