/-
C09 helper lemmas, part 1: text.  `splitLines` versus the LF/CR/CRLF line structure
(`Spec.SourceMapV3.endPosFrom`).
-/
import CalmVerif.Model.SourceMap
import CalmVerif.Spec.SourceMapV3

namespace CalmVerif.Proofs.SourceMap
open CalmVerif.Model.SourceMap
open CalmVerif.Spec.SourceMapV3

/-- the hypotheses on the character classes that the proofs use: `splitlines` breaks at CR and
at LF (whatever else it breaks at), and `line[-1:] in '\r\n'` tests exactly CR / LF.
Nothing is assumed about `rstrip`. -/
structure ClassesOK (cc : CharClasses) : Prop where
  brk_cr : cc.brk '\r' = true
  brk_lf : cc.brk '\n' = true
  nl_eq : cc.nl = isNl

theorem pyClasses_ok : ClassesOK pyClasses := ⟨by decide, by decide, rfl⟩

theorem splitLines_ne_nil (brk : Char → Bool) (c : Char) (cs : List Char) :
    splitLines brk (c :: cs) ≠ [] := by
  cases cs with
  | nil => simp [splitLines]
  | cons d cs =>
    simp only [splitLines]
    split
    · split <;> simp
    · split <;> simp

theorem splitLines_flatten (brk : Char → Bool) (t : List Char) :
    (splitLines brk t).flatten = t := by
  fun_induction splitLines brk t with
  | case1 => rfl
  | case2 c => rfl
  | case3 c d cs hb h ih => obtain ⟨rfl, rfl⟩ := h; simp [ih]
  | case4 c d cs hb h ih => simp [ih]
  | case5 c d cs hb h ih => simp [h] at ih
  | case6 c d cs hb l ls h ih => simp [h] at ih; simp [ih]

theorem splitLines_pieces_ne (brk : Char → Bool) (t : List Char) :
    ∀ l ∈ splitLines brk t, l ≠ [] := by
  fun_induction splitLines brk t with
  | case1 => simp
  | case2 c => simp
  | case3 c d cs hb h ih => intro l hl; simp at hl; rcases hl with rfl | hl; simp; exact ih l hl
  | case4 c d cs hb h ih => intro l hl; simp at hl; rcases hl with rfl | hl; simp; exact ih l hl
  | case5 c d cs hb h ih => simp
  | case6 c d cs hb l ls h ih =>
    intro x hx; simp at hx; rcases hx with rfl | hx
    · simp
    · exact ih x (by simp [h, hx])

/-- effect of one piece on the (line, column) reached in the generated text, as the
implementation sees it -/
def piecePos (p : Nat × Nat) (line : List Char) : Nat × Nat :=
  if endsNl isNl line then (p.1 + 1, 0) else (p.1, p.2 + line.length)

theorem endsNl_cons (c : Char) (l : List Char) (h : l ≠ []) : endsNl isNl (c :: l) = endsNl isNl l := by
  cases l with
  | nil => exact absurd rfl h
  | cons d l => simp [endsNl, List.getLast?_cons_cons]

theorem piecePos_cons (L C : Nat) (c : Char) (l : List Char) (h : l ≠ []) :
    piecePos (L, C) (c :: l) = piecePos (L, C + 1) l := by
  simp only [piecePos, endsNl_cons c l h, List.length_cons]
  split
  · rfl
  · simp only [Prod.mk.injEq, true_and]; omega

/-- folding the pieces of `splitlines(True)` with the implementation's newline test walks
through the text exactly as the LF/CR/CRLF reading does -/
theorem foldl_piecePos_splitLines (brk : Char → Bool) (hcr : brk '\r' = true) (hlf : brk '\n' = true)
    (t : List Char) (L C : Nat) :
    (splitLines brk t).foldl piecePos (L, C) = endPosFrom t L C := by
  fun_induction splitLines brk t generalizing L C with
  | case1 => rfl
  | case2 c =>
    simp only [List.foldl, piecePos, endsNl, endPosFrom, List.getLast?_singleton, isNl]
    by_cases h1 : c = '\r' <;> by_cases h2 : c = '\n' <;> simp [h1, h2]
  | case3 c d cs hb h ih =>
    obtain ⟨rfl, rfl⟩ := h
    simp only [List.foldl, endPosFrom]
    rw [← ih]; simp [piecePos, endsNl, isNl]
  | case4 c d cs hb h ih =>
    simp only [List.foldl, endPosFrom, h, if_false]
    rw [ih]
    simp only [piecePos, endsNl, List.getLast?_singleton, isNl]
    by_cases h1 : c = '\r' <;> by_cases h2 : c = '\n' <;> simp [h1, h2]
  | case5 c d cs hb h ih => exact absurd h (splitLines_ne_nil brk d cs)
  | case6 c d cs hb l ls h ih =>
    have hc1 : c ≠ '\r' := by rintro rfl; simp [hcr] at hb
    have hc2 : c ≠ '\n' := by rintro rfl; simp [hlf] at hb
    have hl : l ≠ [] := splitLines_pieces_ne brk (d :: cs) l (by simp [h])
    simp only [endPosFrom, hc1, hc2, false_and, false_or, if_false]
    rw [← ih, h]
    simp only [List.foldl]
    rw [piecePos_cons L C c l hl]

/-- `endPosFrom` is compositional unless the cut falls inside a CRLF -/
theorem endPosFrom_append (t1 t2 : List Char) (L C : Nat)
    (h : ¬ (t1.getLast? = some '\r' ∧ t2.head? = some '\n')) :
    endPosFrom (t1 ++ t2) L C = endPosFrom t2 (endPosFrom t1 L C).1 (endPosFrom t1 L C).2 := by
  fun_induction endPosFrom t1 L C with
  | case1 l c => rfl
  | case2 x l c hx =>
    cases t2 with
    | nil => simp [endPosFrom, hx]
    | cons y r =>
      have hxy : ¬ (x = '\r' ∧ y = '\n') := by
        rintro ⟨rfl, rfl⟩; simp at h
      simp only [List.singleton_append, endPosFrom, hxy, hx, if_false, if_true]
  | case3 x l c hx =>
    cases t2 with
    | nil => simp [endPosFrom, hx]
    | cons y r =>
      have hxy : ¬ (x = '\r' ∧ y = '\n') := by
        rintro ⟨rfl, rfl⟩; simp at hx
      simp only [List.singleton_append, endPosFrom, hxy, hx, if_false]
  | case4 x y rest l c hxy ih =>
    obtain ⟨rfl, rfl⟩ := hxy
    simp only [List.cons_append, endPosFrom, and_self, if_true]
    apply ih
    cases rest with
    | nil => simp at h ⊢
    | cons z r => simpa [List.getLast?_cons_cons] using h
  | case5 x y rest l c hxy hx ih =>
    simp only [List.cons_append, endPosFrom, hxy, hx, if_false, if_true]
    apply ih; simpa [List.getLast?_cons_cons] using h
  | case6 x y rest l c hxy hx ih =>
    simp only [List.cons_append, endPosFrom, hxy, hx, if_false]
    apply ih; simpa [List.getLast?_cons_cons] using h

end CalmVerif.Proofs.SourceMap
