/-
C09 helper lemmas, part 7: which source is current (`sources._current`) after a prefix of
the stream.
-/
import CalmVerif.Proofs.SourceMapCore

namespace CalmVerif.Proofs.SourceMap
open CalmVerif.Model.SourceMap
open CalmVerif.Spec.SourceMapV3

theorem update_idem {α : Type} [DecidableEq α] (n : Names α) (a : Option α) :
    ((n.update a).1.update a).1 = (n.update a).1 := by
  cases a with
  | none => rfl
  | some a =>
    have h := Names.add_mem n a
    simp only [Names.update, Names.add] at h ⊢
    simp [h]

theorem writePiece_isSome (cc : CharClasses) (st : WState) (line : List Char) (ln cn name source) :
    (writePiece cc st line ln cn name source).2.1.isSome = ln.isSome ∧
    (writePiece cc st line ln cn name source).2.2.isSome = cn.isSome := by
  unfold writePiece
  split
  · simp only
    split
    · rename_i h1 h2
      cases cn with
      | none => simp at h2
      | some c => simp
    · rename_i h
      refine ⟨rfl, ?_⟩
      cases cn with
      | none => rfl
      | some c => cases c <;> rfl
  · exact ⟨rfl, rfl⟩

theorem writePiece_sources (cc : CharClasses) (st : WState) (line : List Char) (ln cn name source) :
    (writePiece cc st line ln cn name source).1.sources = (emitSeg st ln cn name source).sources := by
  rw [writePiece_fst]; split <;> rfl

theorem writePieces_sources (cc : CharClasses) (lines : List (List Char)) (st : WState)
    (ln cn : Option Nat) (name : Option (List Char)) (source : Option Src) :
    (writePieces cc st lines ln cn name source).sources =
      if lines ≠ [] ∧ ln.isSome ∧ cn.isSome then (st.sources.update source).1 else st.sources := by
  induction lines generalizing st ln cn with
  | nil => simp [writePieces]
  | cons l rest ih =>
    simp only [writePieces]
    rw [ih]
    obtain ⟨h1, h2⟩ := writePiece_isSome cc st l ln cn name source
    rw [h1, h2, writePiece_sources, emitSeg_sources]
    cases ln with
    | none => simp
    | some a =>
      cases cn with
      | none => simp
      | some b =>
        simp only [Option.isSome_some, and_self, and_true, ne_eq, reduceCtorEq, not_false_eq_true, if_true]
        split
        · exact update_idem _ _
        · rfl

theorem writeFrag_sources (cc : CharClasses) (st : WState) (f : Frag) :
    (writeFrag cc st f).sources = if registers f then (st.sources.update f.source).1 else st.sources := by
  unfold writeFrag
  rw [writePieces_sources]
  have : (splitLines cc.brk f.text ≠ []) ↔ f.text ≠ [] := by
    cases h : f.text with
    | nil => simp [splitLines]
    | cons c cs => simp [splitLines_ne_nil]
  simp only [this, registers]
  by_cases ht : f.text = []
  · simp [ht]
  · have : f.text.isEmpty = false := by simpa [List.isEmpty_iff] using ht
    simp [ht, this]

/-- the link between `sources._current` and `effSource` -/
def SrcInv (n : Names Src) (o : Option Src) : Prop :=
  match o with
  | some s => n.keys[n.current]? = some s
  | none => n.current = 0

theorem effSource_snoc (pre : List Frag) (f : Frag) :
    effSource (pre ++ [f]) =
      if registers f then (match f.source with | some s => some s | none => effSource pre) else effSource pre := by
  unfold effSource
  rw [List.foldl_append]
  rfl

theorem srcInv_step (n : Names Src) (pre : List Frag) (f : Frag) (h : SrcInv n (effSource pre)) :
    SrcInv (if registers f then (n.update f.source).1 else n) (effSource (pre ++ [f])) := by
  rw [effSource_snoc]
  split
  · cases hs : f.source with
    | none => simpa [Names.update] using h
    | some s => simp only [Names.update, SrcInv]; exact Names.add_getElem n s
  · exact h

theorem writeLoop_srcInv_aux (cc : CharClasses) (frags pre : List Frag) (st : WState)
    (h : SrcInv st.sources (effSource pre)) :
    SrcInv (writeLoop cc st frags).sources (effSource (pre ++ frags)) := by
  induction frags generalizing pre st with
  | nil => simpa [writeLoop] using h
  | cons f rest ih =>
    rw [writeLoop_cons]
    have := ih (pre ++ [f]) (writeFrag cc st f) (by rw [writeFrag_sources]; exact srcInv_step _ pre f h)
    simpa using this

theorem writeLoop_srcInv (cc : CharClasses) (frags : List Frag) :
    SrcInv (writeLoop cc WState.init frags).sources (effSource frags) := by
  have := writeLoop_srcInv_aux cc frags [] WState.init (by simp [SrcInv, effSource, WState.init, Names.empty])
  simpa using this

/-- same for names: the name index of a renamed fragment denotes its original name -/
theorem emitSeg_names_getElem (st : WState) (l c : Nat) (nm : List Char) (source : Option Src) :
    (emitSeg st (some l) (some c) (some nm) source).names.keys[
      (emitSeg st (some l) (some c) (some nm) source).names.current]? = some nm := by
  rw [emitSeg_names]
  exact Names.add_getElem st.names nm

theorem getElem?_of_prefix {α : Type} {a b : List α} (h : a <+: b) {i : Nat} {x : α}
    (hx : a[i]? = some x) : b[i]? = some x := by
  obtain ⟨t, rfl⟩ := h
  rw [List.getElem?_append_left]
  · exact hx
  · exact (List.getElem?_eq_some_iff.mp hx).1

end CalmVerif.Proofs.SourceMap
