/-
C13, faithfulness on final trees: assembly.  For the tree accepted by the composed parser model, the `@comments`
attributes are — up to order, with multiplicity — among `set_comments` of the tokens the driver shifted, and every
comment of every shifted token is a comment token of the source.
-/
import Mathlib.Data.List.Perm.Subperm
import CalmVerif.Proofs.CommentsRun
import CalmVerif.Proofs.CommentsLexRun
import CalmVerif.Proofs.CommentsActions

namespace CalmVerif.Proofs.Comments
open CalmVerif CalmVerif.Model CalmVerif.Model.Actions CalmVerif.Model.LR CalmVerif.Model.Lexer CalmVerif.Model.Parser
open List

/-- the configuration at which the run of `parseWith T text wc` stops -/
def finalConfig (T : Tables) (text : List Char) (wc : Bool) : Config Token PVal LexState :=
  (run T (sem T) source (parseFuel text) (initConfig (Lexer.init text wc false))).2

/-- the tokens the driver shifted during `parseWith T text wc`, in order -/
def shiftedTokens (T : Tables) (text : List Char) (wc : Bool) : List Token := (finalConfig T text wc).shifted.reverse

theorem finalConfig_reach (T : Tables) (text : List Char) (wc : Bool) :
    Reach T (sem T) source (initConfig (Lexer.init text wc false)) (finalConfig T text wc) :=
  run_reach_snd _ _

theorem hiddenCms_sublist {a b : List Token} (h : a <+ b) : hiddenCms a <+ hiddenCms b :=
  h.filterMap _

/-- T: every `@comments` attribute of the accepted tree is `set_comments` of a shifted token, and the shifted tokens
    account for them with multiplicity: no token's comments are attached to two nodes, no attached Comments node occurs
    twice in the tree unless two shifted tokens produce it -/
theorem attached_once {T : Tables} {cert : List (List Nat)} {acc : List Nat} (htv : tablesValid T cert acc = true)
    (htbl : TableOK Gen.Actions.actions) (text : List Char) (wc : Bool) (v : PVal)
    (h : parseWith T text wc = .accepted v) : cms v.v <+~ hiddenCms (shiftedTokens T text wc) := by
  have hrun : run T (sem T) source (parseFuel text) (initConfig (Lexer.init text wc false)) =
      (.accepted v, finalConfig T text wc) := by
    unfold parseWith at h
    unfold finalConfig
    rw [← h]
  have hhead := run_accepted_head T (sem T) source _ _ _ _ hrun
  obtain ⟨trees, _, hyld, hrel⟩ :=
    reach_ginv htv (crel_lifts T htbl) (ginv_init _) (finalConfig_reach T text wc)
  generalize (finalConfig T text wc).vals = vals at hrel hhead
  cases hrel with
  | nil => simp at hhead
  | @cons a tr as trs hr hrest =>
    simp only [head?_cons, Option.some.injEq] at hhead
    subst hhead
    refine hr.2.trans (hiddenCms_sublist ?_).subperm
    unfold shiftedTokens
    rw [← hyld]
    simp only [reverse_cons, yieldList_append, yieldList, append_nil]
    exact sublist_append_right _ _

/-- T: every comment carried by a shifted token is a comment token of the source -/
theorem shifted_ok (T : Tables) (text : List Char) (wc : Bool) :
    ∀ t ∈ shiftedTokens T text wc, ∀ c ∈ t.hidden, CommentOK text c := by
  have := reach_cfgOK T (sem T) (init_cfgOK (ν := PVal) text wc false) (finalConfig_reach T text wc)
  intro t ht
  exact this.2.2 t (by simpa [shiftedTokens] using ht)

/-- the hidden tokens of a token as the semantic actions see them -/
theorem toTok_hidden (t : Token) :
    (toTok t).hidden = t.hidden.map (fun c => (c.type, String.ofList c.value, c.lexpos, c.lineno, c.colno)) := rfl

/-- reader's form: a Comments node that is `set_comments` of a token whose comments are comment tokens of the source has
    one child per hidden comment, in order, with the comment's text as value and its recorded position -/
theorem commentsOf_children {text : List Char} {t : Token} {C : Val} (hok : ∀ c ∈ t.hidden, CommentOK text c)
    (hC : commentsOf (toTok t) = some C) :
    ∃ kids p0, C = .node "Comments" [("children", .list kids), ("@pos", p0), ("@tokmap", .list [])] ∧
      kids.map (fun k => (k.attr? "value", k.attr? "@pos")) =
        t.hidden.map (fun c => (some (Val.str (String.ofList c.value)), some (posVal c.lexpos c.lineno c.colno))) := by
  have hall : ∀ h ∈ (toTok t).hidden, h.1 = "LINE_COMMENT" ∨ h.1 = "BLOCK_COMMENT" := by
    intro h hh
    rw [toTok_hidden, mem_map] at hh
    obtain ⟨c, hc, rfl⟩ := hh
    have := (hok c hc).1
    simp only [isComment, Gen.LexData.comments, contains_cons, contains_nil, Bool.or_false, Bool.or_eq_true,
      beq_iff_eq] at this
    rcases this with h1 | h1 <;> simp [h1]
  obtain ⟨h0, h1⟩ := commentsOf_spec (toTok t) hall
  by_cases hne : (toTok t).hidden = []
  · rw [h0 hne] at hC; cases hC
  · obtain ⟨kids, p0, hk, hmap⟩ := h1 hne
    rw [hk] at hC
    cases hC
    refine ⟨kids, p0, rfl, ?_⟩
    rw [hmap, toTok_hidden, map_map]
    rfl

/-- the comments carried by the shifted tokens, in the order of the tokens, are in source order and pairwise disjoint
    (NOT proved for the parser-driven token source: the pending list is provably ordered within one `token()` call,
    `comments_faithful_lexer`, but the bound "all pending comments end before the read position" is not carried through
    `backtracked_token`) -/
def ShiftedOrdered (T : Tables) (text : List Char) (wc : Bool) : Prop :=
  ((shiftedTokens T text wc).flatMap (·.hidden)).Pairwise (fun a b => a.lexpos + a.value.length ≤ b.lexpos)

theorem shiftedOrdered_iff (T : Tables) (text : List Char) (wc : Bool) :
    ShiftedOrdered T text wc ↔
      (∀ t ∈ shiftedTokens T text wc, t.hidden.Pairwise (fun a b => a.lexpos + a.value.length ≤ b.lexpos)) ∧
      (shiftedTokens T text wc).Pairwise (fun t₁ t₂ => ∀ a ∈ t₁.hidden, ∀ b ∈ t₂.hidden,
        a.lexpos + a.value.length ≤ b.lexpos) := by
  unfold ShiftedOrdered
  exact pairwise_flatMap

end CalmVerif.Proofs.Comments
