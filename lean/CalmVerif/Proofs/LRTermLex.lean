/-
Termination of the LR driver loop (C12), part 6: what one successful call of the real token source
(`Lexer.token`, `Parser.p_error`) does to the lexer state, as far as the counting argument needs it:
  * `token_call`  : a pushed-back token is popped (nothing else changes), or — `next_tokens` being empty — a token was
    lexed and `lexpos` moved forward inside the text, or `None` was returned and `lexpos` is past the end;
  * `pError_call` : an AUTOSEMI was inserted (at end of input; or before a token that is pushed back), or the
    DIV look-ahead was re-lexed as a REGEX token, which moves `lexpos` forward (a regular expression literal has at
    least two characters) and clears `next_tokens`.
-/
import CalmVerif.Model.Parser
import CalmVerif.Proofs.LexerReach
import CalmVerif.Proofs.LexerSegm
import CalmVerif.Proofs.LexerDiv
namespace CalmVerif.Proofs.LRTermLex
open CalmVerif.Model.TokenRegex CalmVerif.Model.PlyLex CalmVerif.Model.Lexer CalmVerif.Model.Parser
open CalmVerif.Proofs.LexerPly CalmVerif.Proofs.LexerStep CalmVerif.Proofs.LexerLoop CalmVerif.Proofs.LexerSegm
open CalmVerif.Proofs.LexerTables CalmVerif.Proofs.LexerDrive CalmVerif.Proofs.LexerDiv
open CalmVerif.Gen

/-! ### `None` is returned only past the end of the text -/

theorem lexCall_none {st st' : LexState} (h : LexCall st none st') :
    st'.text = st.text ∧ st.text.length < st'.lexpos := by
  obtain ⟨s, tok, st1, hg, hpe, _, _, hr⟩ := h
  have htok : tok = none := by
    rcases hr with h0 | ⟨_, _, _, h0, _⟩
    · exact h0.symm
    · cases h0
  subst htok
  obtain ⟨p, rfl, hp, _⟩ := getLexerToken_eof s st st1 hg
  exact ⟨hpe.1, by rw [hpe.2.1]; exact hp⟩

theorem tokenLoop_none : ∀ (fuel : Nat) (st st' : LexState),
    tokenLoop fuel st = .ok (none, st') → st.text.length < st'.lexpos := by
  intro fuel
  induction fuel with
  | zero => intro st st' h; simp [tokenLoop] at h
  | succ fuel ih =>
    intro st st' h
    have hskip : ∀ (t0 : Token) (st1 st1' : LexState), getUpdateToken st = .ok (some t0, st1) →
        st1'.text = st1.text → tokenLoop fuel st1' = .ok (none, st') → st.text.length < st'.lexpos := by
      intro t0 st1 st1' hg htx hrec
      have hf := (getUpdateToken_spec _ _ _ hg).1
      have := ih st1' st' hrec
      rw [htx, hf.1] at this
      exact this
    unfold tokenLoop at h
    split at h
    · split at h
      · simp at h
      · rename_i st1 hg
        simp only [Except.ok.injEq, Prod.mk.injEq, true_and] at h
        subst h
        exact (lexCall_none (getUpdateToken_call _ _ _ hg)).2
      · rename_i t0 st1 hg
        split at h
        · exact hskip t0 st1 st1 hg rfl h
        · simp at h
    · split at h
      · split at h
        · simp at h
        · rename_i st1 hg
          simp only [Except.ok.injEq, Prod.mk.injEq, true_and] at h
          subst h
          exact (lexCall_none (getUpdateToken_call _ _ _ hg)).2
        · rename_i t0 st1 hg
          split at h
          · split at h
            · split at h
              · simp at h
              · split at h
                · exact hskip t0 st1 _ hg (by rfl) h
                · exact hskip t0 st1 _ hg (by rfl) h
            · exact hskip t0 st1 _ hg (by rfl) h
          · simp at h
      · exact (lexCall_none (divOrRegex_call _ _ _ h)).2

/-! ### a regular expression literal has at least two characters -/

theorem regexLen_ge (rest : List Char) (n : Nat) (h : regexLen rest = some n) : 2 ≤ n := by
  unfold regexLen at h
  simp only at h
  split at h
  · next b hb =>
    simp only [Option.some.injEq] at h
    have hb2 : 2 ≤ b := by
      split at hb
      · split at hb
        · split at hb
          · simp only [Option.map_eq_some_iff] at hb
            obtain ⟨a, _, rfl⟩ := hb; omega
          · split at hb
            · split at hb
              · split at hb
                · simp only [Option.map_eq_some_iff] at hb
                  obtain ⟨a, _, rfl⟩ := hb; omega
                · simp at hb
              · simp at hb
            · split at hb
              · simp only [Option.map_eq_some_iff] at hb
                obtain ⟨a, _, rfl⟩ := hb; omega
              · simp at hb
        · simp at hb
      · simp at hb
    omega
  · simp at h

theorem regex_not_kw : "REGEX" ∉ LexData.keywords.map (·.2) := by decide

/-! ### `token()` -/

/-- a pushed-back token was popped -/
def Popped (st : LexState) (r : Option Token) (st' : LexState) : Prop :=
  ∃ t rest t', st.nextTokens = t :: rest ∧ st'.nextTokens = rest ∧ st'.lexpos = st.lexpos ∧ st'.text = st.text ∧
    r = some t' ∧ t'.type = t.type

/-- a token was lexed (`next_tokens` empty before and after): progress inside the text, or `None` past the end -/
def Lexed (st : LexState) (r : Option Token) (st' : LexState) : Prop :=
  st.nextTokens = [] ∧ st'.nextTokens = [] ∧ st'.text = st.text ∧
  (r = none → st.text.length < st'.lexpos) ∧
  (∀ t, r = some t → st.lexpos < st'.lexpos ∧ st'.lexpos ≤ st.text.length ∧
      (t.type = "REGEX" → st.lexpos + 2 ≤ st'.lexpos))

theorem token'_none {st st' : LexState} (h : token' st = .ok (none, st')) :
    st.nextTokens = [] ∧ st.text.length < st'.lexpos := by
  unfold token' at h
  split at h
  · simp at h
  · next hn => exact ⟨hn, tokenLoop_none _ _ _ h⟩

theorem token_none {st st' : LexState} (h : token st = .ok (none, st')) :
    st.nextTokens = [] ∧ st.text.length < st'.lexpos := by
  unfold token at h
  split at h
  · simp at h
  · next st1 ht =>
    simp only [Except.ok.injEq, Prod.mk.injEq, true_and] at h
    subst h
    exact token'_none ht
  · split at h <;> simp at h

theorem tokStep_regex {st st' : LexState} {t : Token} (h : TokStep st (some t) st') (hty : t.type = "REGEX") :
    st.lexpos + 2 ≤ st'.lexpos := by
  obtain ⟨_, _, _, ha, hn⟩ := h
  have hauto : t.auto = false := by
    cases hb : t.auto with
    | false => rfl
    | true =>
      have := (ha hb).2.2.1
      rw [hty] at this
      exact absurd this (by decide)
  obtain ⟨hle, _, _, hlp, _, _, s, r, ap, ⟨pre, post, m, _, hm, hn', _⟩, hrt⟩ := hn hauto
  have hr : r = "REGEX" := ruleFn_eq ap r _ "REGEX" (by decide) regex_not_kw (hrt ▸ hty)
  subst hr
  have : m = regexLen := by
    have : ruleMatcher "REGEX" = some regexLen := by simp [ruleMatcher]
    rw [this] at hm
    exact (Option.some.inj hm).symm
  subst this
  have := regexLen_ge _ _ hn'
  omega

theorem token_call {st st' : LexState} {r : Option Token} (h : token st = .ok (r, st')) :
    Popped st r st' ∨ Lexed st r st' := by
  cases hn : st.nextTokens with
  | cons t rest =>
    left
    unfold token at h
    have ht' : token' st = .ok (some t, { st with nextTokens := rest }) := by
      unfold token'; rw [hn]
    rw [ht'] at h
    simp only at h
    split at h
    · simp only [Except.ok.injEq, Prod.mk.injEq] at h
      obtain ⟨rfl, rfl⟩ := h
      exact ⟨t, rest, _, hn, rfl, rfl, rfl, rfl, rfl⟩
    · simp only [Except.ok.injEq, Prod.mk.injEq] at h
      obtain ⟨rfl, rfl⟩ := h
      exact ⟨t, rest, _, hn, rfl, rfl, rfl, rfl, rfl⟩
  | nil =>
    right
    have hs := token_spec st hn r st' h
    have hf := hs.1
    refine ⟨hn, by rw [hf.2.2.2, hn], hf.1, ?_, ?_⟩
    · intro hr; subst hr; exact (token_none h).2
    · intro t hr
      subst hr
      have h2 := hs.2
      simp only at h2
      exact ⟨h2.1, h2.2.1, fun hty => tokStep_regex hs hty⟩

/-- the guarded `backtracked_token(1)` of `p_error`, when it returns a REGEX token -/
theorem backtracked_call {st st2 : LexState} {rt : Token} (h : backtrackedToken st 1 = .ok (some rt, st2))
    (hty : rt.type = "REGEX") :
    st2.nextTokens = [] ∧ st.lexpos < st2.lexpos ∧ st2.lexpos ≤ st.text.length ∧ st2.text = st.text := by
  unfold backtrackedToken at h
  split at h
  · simp at h
  · next hpos =>
    simp only at h
    split at h
    · simp at h
    · next tok2 st3 htok =>
      simp only [Except.ok.injEq, Prod.mk.injEq] at h
      obtain ⟨rfl, rfl⟩ := h
      rcases token_call htok with ⟨_, _, _, hnt, _⟩ | ⟨_, hn2, htx, _, hsome⟩
      · simp at hnt
      · obtain ⟨_, hle, hre⟩ := hsome rt rfl
        have := hre hty
        simp only at this hle htx
        exact ⟨hn2, by simp only; omega, hle, htx⟩

/-! ### `p_error` -/

/-- what a successful `p_error(tok)` did -/
inductive PErrorKind (st : LexState) (tok : Option Token) (t' : Token) (st' : LexState) : Prop
  /-- end of input: an AUTOSEMI is inserted -/
  | insertEnd : tok = none → t'.type = "AUTOSEMI" → st'.nextTokens = st.nextTokens → st'.lexpos = st.lexpos →
      st'.text = st.text → PErrorKind st tok t' st'
  /-- an AUTOSEMI is inserted before `t`, which is pushed back -/
  | insert (t : Token) : tok = some t → t.type ≠ "AUTOSEMI" → t'.type = "AUTOSEMI" →
      st'.nextTokens = t :: st.nextTokens → st'.lexpos = st.lexpos → st'.text = st.text → PErrorKind st tok t' st'
  /-- the `/` was re-lexed as a regular expression literal -/
  | relex : t'.type = "REGEX" → st'.nextTokens = [] → st.lexpos < st'.lexpos → st'.lexpos ≤ st.text.length →
      st'.text = st.text → PErrorKind st tok t' st'

theorem pError_call {st st' : LexState} {tok : Option Token} {r : Option Token}
    (h : pError st tok = .ok (r, st')) : ∃ t', r = some t' ∧ PErrorKind st tok t' st' := by
  unfold pError at h
  split at h
  · -- auto_semi inserted
    next semi st1 has =>
    simp only [Except.ok.injEq, Prod.mk.injEq] at h
    obtain ⟨rfl, rfl⟩ := h
    refine ⟨semi, rfl, ?_⟩
    unfold autoSemi at has
    split at has
    · simp only [createSemiToken, Prod.mk.injEq, Option.some.injEq] at has
      obtain ⟨rfl, rfl⟩ := has
      exact .insertEnd rfl rfl rfl rfl rfl
    · next t =>
      split at has
      · next hc =>
        simp only [createSemiToken, Prod.mk.injEq, Option.some.injEq] at has
        obtain ⟨rfl, rfl⟩ := has
        exact .insert t rfl hc.1.2 rfl rfl rfl rfl
      · simp at has
  · next st1 has =>
    have hst1 : st1 = st := by
      unfold autoSemi at has
      split at has
      · simp [createSemiToken] at has
      · split at has
        · simp [createSemiToken] at has
        · simp only [Prod.mk.injEq, true_and] at has; exact has.symm
    subst hst1
    have hfin : ∀ (x : Except PErr (Option Token × LexState)),
        (match backtrackedToken st1 1 with
          | Except.error e => Except.error (PErr.lex e)
          | Except.ok (none, _) => Except.error (PErr.lex (Err.internal "AttributeError"))
          | Except.ok (some rt, st2) =>
            if rt.type = "REGEX" then Except.ok (some rt, st2) else Except.error (raiseSyntaxError st2 tok)) =
          Except.ok (r, st') → ∃ t', r = some t' ∧ PErrorKind st1 tok t' st' := by
      intro _ h
      split at h
      · simp at h
      · simp at h
      · next rt st2 hbt =>
        split at h
        · next hty =>
          simp only [Except.ok.injEq, Prod.mk.injEq] at h
          obtain ⟨rfl, rfl⟩ := h
          obtain ⟨h1, h2, h3, h4⟩ := backtracked_call hbt hty
          exact ⟨rt, rfl, .relex hty h1 h2 h3 h4⟩
        · simp at h
    split at h
    · simp at h
    · simp only at h
      split at h
      · split at h
        · exact hfin (.ok (r, st')) h
        · simp at h
      · simp at h

end CalmVerif.Proofs.LRTermLex
