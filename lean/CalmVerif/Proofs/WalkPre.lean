/- Helper lemmas for C16: walk = preorder on well-formed trees under coverTable. -/
import CalmVerif.Model.Walk
namespace CalmVerif.Proofs.Walk
open CalmVerif CalmVerif.Gen.Children CalmVerif.Model.Walk

/-! ### sizes -/

theorem lookup_size : ∀ (as : Attrs) (a : String) (x : Val), lookup as a = some x → vsize x ≤ asize as := by
  intro as
  induction as with
  | nil => intro a x h; simp [lookup] at h
  | cons e rest ih =>
    obtain ⟨b, y⟩ := e
    intro a x h
    simp only [lookup] at h
    simp only [asize]
    split at h
    · cases h; omega
    · have := ih a x h; omega

theorem enumFrom_size (a : String) : ∀ (xs : List Val) (i : Nat) (sc : Step × Val),
    sc ∈ enumFrom a i xs → vsize sc.2 ≤ lsize xs := by
  intro xs
  induction xs with
  | nil => intro i sc h; simp [enumFrom] at h
  | cons x xs ih =>
    intro i sc h
    simp only [enumFrom, List.mem_cons] at h
    simp only [lsize]
    rcases h with h | h
    · subst h; simp
    · have := ih (i + 1) sc h; omega

/-! ### nodupB, lookup and filter -/

theorem nodupB_cons (a : String) (l : List String) :
    nodupB (a :: l) = true ↔ a ∉ l ∧ nodupB l = true := by
  simp [nodupB]

theorem lookup_none_of_not_mem : ∀ (as : Attrs) (a : String), a ∉ as.map (·.1) → lookup as a = none := by
  intro as
  induction as with
  | nil => intro a _; rfl
  | cons e rest ih =>
    obtain ⟨b, y⟩ := e
    intro a h
    simp only [List.map_cons, List.mem_cons, not_or] at h
    simp only [lookup]
    have : (b == a) = false := by simp; exact fun hb => h.1 hb.symm
    simp [this, ih a h.2]

theorem lookup_mem : ∀ (as : Attrs) (a : String) (x : Val), lookup as a = some x → (a, x) ∈ as := by
  intro as
  induction as with
  | nil => intro a x h; simp [lookup] at h
  | cons e rest ih =>
    obtain ⟨b, y⟩ := e
    intro a x h
    simp only [lookup] at h
    split at h
    · rename_i hb
      have : b = a := by simpa using hb
      cases h; subst this; simp
    · exact List.mem_cons_of_mem _ (ih a x h)

theorem mem_lookup : ∀ (as : Attrs) (a : String) (x : Val), nodupB (as.map (·.1)) = true →
    (a, x) ∈ as → lookup as a = some x := by
  intro as
  induction as with
  | nil => intro a x _ h; simp at h
  | cons e rest ih =>
    obtain ⟨b, y⟩ := e
    intro a x hn h
    simp only [List.map_cons, nodupB_cons] at hn
    simp only [List.mem_cons] at h
    simp only [lookup]
    rcases h with h | h
    · cases h; simp
    · have hne : (b == a) = false := by
        simp
        intro hb
        subst hb
        exact hn.1 (List.mem_map.mpr ⟨(b, x), h, rfl⟩)
      simp [hne, ih a x hn.2 h]

theorem filter_eq_single : ∀ (as : Attrs) (a : String) (x : Val), nodupB (as.map (·.1)) = true →
    lookup as a = some x → as.filter (fun e => e.1 == a) = [(a, x)] := by
  intro as
  induction as with
  | nil => intro a x _ h; simp [lookup] at h
  | cons e rest ih =>
    obtain ⟨b, y⟩ := e
    intro a x hn h
    simp only [List.map_cons, nodupB_cons] at hn
    simp only [lookup] at h
    by_cases hb : b = a
    · subst hb
      simp only [beq_self_eq_true, if_true, Option.some.injEq] at h
      subst h
      have : rest.filter (fun e => e.1 == b) = [] := by
        apply List.filter_eq_nil_iff.mpr
        intro e he
        simp
        intro hh
        exact hn.1 (List.mem_map.mpr ⟨e, he, hh⟩)
      simp [List.filter_cons, this]
    · have hne : (b == a) = false := by simp [hb]
      simp only [hne] at h
      simp [List.filter_cons, hne, ih a x hn.2 h]

theorem nodupB_filter (f : String → Bool) : ∀ (as : Attrs), nodupB (as.map (·.1)) = true →
    nodupB ((as.filter (fun e => f e.1)).map (·.1)) = true := by
  intro as
  induction as with
  | nil => intro _; rfl
  | cons e rest ih =>
    obtain ⟨b, y⟩ := e
    intro hn
    simp only [List.map_cons, nodupB_cons] at hn
    simp only [List.filter_cons]
    split
    · simp only [List.map_cons, nodupB_cons]
      refine ⟨?_, ih hn.2⟩
      intro hm
      obtain ⟨e, he, hh⟩ := List.mem_map.mp hm
      exact hn.1 (List.mem_map.mpr ⟨e, (List.mem_filter.mp he).1, hh⟩)
    · exact ih hn.2

theorem lookup_filter_ne : ∀ (as : Attrs) (a b : String), b ≠ a →
    lookup (as.filter (fun e => !(e.1 == a))) b = lookup as b := by
  intro as
  induction as with
  | nil => intro a b _; rfl
  | cons e rest ih =>
    obtain ⟨c, y⟩ := e
    intro a b hne
    simp only [List.filter_cons]
    by_cases hc : c = a
    · subst hc
      have : (c == b) = false := by simp; exact fun h => hne h.symm
      simp [lookup, this, ih c b hne]
    · have : (c == a) = false := by simp [hc]
      simp [this, lookup, ih a b hne]

/-! ### preorder pieces -/

theorem preNode_node (tbl : Table) (full : Bool) (q : Path) (k : String) (as : Attrs) :
    preNode tbl full q (.node k as) = (q, .node k as) :: preDesc tbl full q (.node k as) := by
  simp [preNode, preDesc]

theorem preSlot_node (tbl : Table) (full : Bool) (q : Path) (a : String) (k : String) (as : Attrs) :
    preSlot tbl full q a (.node k as) = preNode tbl full ((a, 0) :: q) (.node k as) := by
  simp [preNode, preSlot]

theorem preAttrs_filter (tbl : Table) (full : Bool) (q : Path) (f : String → Bool) : ∀ (as : Attrs),
    (preAttrs tbl full q as).filter (fun e => f e.1) = preAttrs tbl full q (as.filter (fun e => f e.1)) := by
  intro as
  induction as with
  | nil => simp [preAttrs]
  | cons e rest ih =>
    obtain ⟨b, y⟩ := e
    simp only [preAttrs, List.filter_cons]
    split <;> simp [preAttrs, ih]

theorem enum_flatMap (tbl : Table) (full : Bool) (p : Path) (a : String) : ∀ (xs : List Val) (i : Nat),
    (enumFrom a i xs).flatMap (fun sc => preNode tbl full (sc.1 :: p) sc.2) = preItems tbl full p a i xs := by
  intro xs
  induction xs with
  | nil => intro i; simp [enumFrom, preItems]
  | cons x xs ih => intro i; simp [enumFrom, preItems, ih]

theorem flatMap_filter_nil {α β : Type} (f : α → List β) (g : α → Bool) : ∀ (l : List α),
    (∀ x ∈ l, g x = false → f x = []) → (l.filter g).flatMap f = l.flatMap f := by
  intro l
  induction l with
  | nil => intro _; rfl
  | cons x xs ih =>
    intro h
    have ih' := ih (fun y hy => h y (List.mem_cons_of_mem _ hy))
    simp only [List.filter_cons]
    cases hg : g x with
    | true => simp [ih']
    | false => simp [ih', h x (List.mem_cons_self) hg]

end CalmVerif.Proofs.Walk
