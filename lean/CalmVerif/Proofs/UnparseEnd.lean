/-
The final flush: the chunk stream of a program ends with the `OptionalNewline` of `ES5Program`;
that entry is never part of a normalisation, runs last at level 0, and leaves the text ending with
exactly one newline.
-/
import CalmVerif.Proofs.UnparseNewline
namespace CalmVerif.Unparse
open CalmVerif

variable {σ : Type}

/-! ### decomposition of `flushAll`: everything before the final flush, and the final flush -/

/-- text of the last token fragment -/
def lastTok : List Chunk → Option String → Option String
  | [], last => last
  | .layout _ _ _ :: cs, last => lastTok cs last
  | .frag f :: cs, _ => lastTok cs (some f.text)

theorem flushAll_final (cfg : Cfg σ) :
    ∀ (cs : List Chunk) (last : Option String) (buf : List LChunk) (lvl : Int),
      ∃ pre lvl',
        (flushAll cfg cs last buf lvl).1
          = pre ++ (processLayouts cfg (trailing cs buf) (lastTok cs last) none lvl').1 ∧
        (flushAll cfg cs last buf lvl).2
          = (processLayouts cfg (trailing cs buf) (lastTok cs last) none lvl').2 ∧
        ((pre = [] ∧ lastTok cs last = last) ∨
          (∃ pre' f, pre = pre' ++ [f] ∧ lastTok cs last = some f.text ∧ f ∈ tokenFrags cs)) := by
  intro cs
  induction cs with
  | nil => intro last buf lvl; exact ⟨[], lvl, by simp [flushAll, trailing, lastTok]⟩
  | cons c cs ih =>
    intro last buf lvl
    cases c with
    | layout m h n =>
      obtain ⟨pre, lvl', h1, h2, h3⟩ := ih last (buf ++ [{ m := m, handler := h, node := n }]) lvl
      refine ⟨pre, lvl', by simpa [flushAll, trailing, lastTok] using h1,
        by simpa [flushAll, trailing, lastTok] using h2, ?_⟩
      rcases h3 with h3 | ⟨pre', f, hp, hl, hm⟩
      · exact Or.inl (by simpa [lastTok] using h3)
      · exact Or.inr ⟨pre', f, hp, by simpa [lastTok] using hl, by simpa [tokenFrags] using hm⟩
    | frag g =>
      obtain ⟨pre, lvl', h1, h2, h3⟩ := ih (some g.text) [] (processLayouts cfg buf last (some g.text) lvl).2
      refine ⟨(processLayouts cfg buf last (some g.text) lvl).1 ++ g :: pre, lvl', ?_, ?_, ?_⟩
      · simp only [flushAll, trailing, lastTok]; rw [h1]; simp
      · simp only [flushAll, trailing, lastTok]; rw [h2]
      · right
        rcases h3 with ⟨rfl, hl⟩ | ⟨pre', f, rfl, hl, hm⟩
        · exact ⟨(processLayouts cfg buf last (some g.text) lvl).1, g, by simp,
            by simpa [lastTok] using hl, by simp [tokenFrags]⟩
        · exact ⟨(processLayouts cfg buf last (some g.text) lvl).1 ++ g :: pre', f, by simp,
            by simpa [lastTok] using hl, by simp [tokenFrags, hm]⟩

theorem trailing_append_layout (cs : List Chunk) (m : Marker) (h : HandlerId) (n : Val) :
    ∀ buf, trailing (cs ++ [.layout m h n]) buf = trailing cs buf ++ [{ m := m, handler := h, node := n }] := by
  induction cs with
  | nil => intro buf; simp [trailing]
  | cons c cs ih =>
    intro buf
    cases c with
    | layout m' h' n' => simpa [trailing] using ih _
    | frag g => simpa [trailing] using ih _

/-! ### the last entry is not normalised away -/

/-- the key is a tuple whose last component is the marker `k` itself -/
def endsWithMarker (k : Marker) (key : LKey) : Bool :=
  match key.reverse with
  | .rp :: .m k' :: _ => k' == k
  | _ => false

def noTupleEndsWith (tbl : List (LKey × Option HandlerId)) (k : Marker) : Bool :=
  tbl.all (fun p => p.2.isNone || !endsWithMarker k p.1)

theorem endsWithMarker_tuple (k : Marker) (ks : List LKey) :
    endsWithMarker k (LKey.tuple (ks ++ [LKey.single k])) = true := by
  simp [endsWithMarker, LKey.tuple, LKey.single]

theorem lookup_none_of_endsWith {tbl : List (LKey × Option HandlerId)} {k : Marker}
    (ht : noTupleEndsWith tbl k = true) (key : LKey) (he : endsWithMarker k key = true) :
    lookupLayout tbl key = none := by
  cases hl : lookupLayout tbl key with
  | none => rfl
  | some h =>
    have hm := lookupLayout_mem hl
    simp only [noTupleEndsWith, List.all_eq_true] at ht
    have := ht _ hm
    simp [he] at this

theorem findNorm_none {tbl : List (LKey × Option HandlerId)} {k : Marker}
    (ht : noTupleEndsWith tbl k = true) :
    ∀ (es : List LEntry) (e : LEntry) (i : Nat), e.key = LKey.single k →
      findNorm tbl i (es ++ [e]) = none := by
  intro es
  induction es with
  | nil =>
    intro e i he
    simp only [List.nil_append, findNorm, List.map_cons, List.map_nil]
    have : lookupLayout tbl (LKey.tuple [e.key]) = none := by
      rw [he]
      exact lookup_none_of_endsWith ht _ (endsWithMarker_tuple k [])
    rw [this]
  | cons e0 es ih =>
    intro e i he
    simp only [List.cons_append, findNorm]
    have : lookupLayout tbl (LKey.tuple ((e0 :: (es ++ [e])).map (·.key))) = none := by
      have e1 : (e0 :: (es ++ [e])).map (·.key) = ((e0 :: es).map (·.key)) ++ [LKey.single k] := by
        simp [he]
      rw [e1]
      exact lookup_none_of_endsWith ht _ (endsWithMarker_tuple k _)
    rw [this]
    exact ih e (i + 1) he

theorem normalizeAux_append (tbl : List (LKey × Option HandlerId)) (all : List LChunk) :
    ∀ (xs ys : List LChunk) (st : List LEntry),
      normalizeAux tbl all (xs ++ ys) st = normalizeAux tbl all ys (normalizeAux tbl all xs st) := by
  intro xs
  induction xs with
  | nil => intro ys st; simp [normalizeAux]
  | cons x xs ih =>
    intro ys st
    simp only [List.cons_append, normalizeAux]
    split <;> exact ih _ _

theorem normalize_last {tbl : List (LKey × Option HandlerId)} {k : Marker}
    (ht : noTupleEndsWith tbl k = true) (buf : List LChunk) (c : LChunk) (hc : c.m = k) :
    ∃ S, normalize tbl (buf ++ [c]) = S ++ [{ key := LKey.single k, handler := c.handler, node := c.node }] := by
  unfold normalize
  rw [normalizeAux_append]
  refine ⟨normalizeAux tbl (buf ++ [c]) buf [], ?_⟩
  simp only [normalizeAux]
  rw [hc, findNorm_none ht _ _ 0 rfl]

/-! ### `runEntries` over an appended list -/

theorem lastText_append (a b : List Frag) (prev : Option String) :
    lastText (a ++ b) prev = lastText b (lastText a prev) := by
  unfold lastText
  rcases List.eq_nil_or_concat b with rfl | ⟨b', f, rfl⟩
  · simp
  · simp [← List.append_assoc]

theorem runEntries_append (hd : HData) (is : Option String) (b a : Option String) :
    ∀ (xs ys : List LEntry) (prev : Option String) (lvl : Int),
      runEntries hd is b a (xs ++ ys) prev lvl =
        ((runEntries hd is b a xs prev lvl).1 ++
          (runEntries hd is b a ys (lastText (runEntries hd is b a xs prev lvl).1 prev)
            (runEntries hd is b a xs prev lvl).2).1,
         (runEntries hd is b a ys (lastText (runEntries hd is b a xs prev lvl).1 prev)
            (runEntries hd is b a xs prev lvl).2).2) := by
  intro xs
  induction xs with
  | nil => intro ys prev lvl; simp [runEntries, lastText]
  | cons x xs ih =>
    intro ys prev lvl
    simp only [List.cons_append, runEntries, ih, lastText_append, List.append_assoc]

/-! ### the end of the text -/

/-- every token fragment has a non-empty text that does not end with a line terminator -/
def TokensClean (cs : List Chunk) : Prop :=
  ∀ f ∈ tokenFrags cs, f.text ≠ "" ∧ ∀ c, f.text.toList.getLast? = some c → isLT c = false

theorem tokensCleanB_spec (cs : List Chunk) (h : tokensCleanB cs = true) : TokensClean cs := by
  intro f hf
  simp only [tokensCleanB, List.all_eq_true] at h
  have := h f hf
  cases hl : f.text.toList.getLast? with
  | none => rw [hl] at this; cases this
  | some c =>
    rw [hl] at this
    refine ⟨?_, ?_⟩
    · intro he; rw [he] at hl; simp at hl
    · intro c' hc'; cases hc'; simpa using this

theorem strMul_zero (s : String) : strMul s 0 = "" := by
  simp [strMul]

theorem generateIndents_zero (hd : HData) (is : Option String) : generateIndents hd is 0 = [] := by
  simp [generateIndents, strMul_zero]

theorem flushAll_ends_one_newline (cfg : Cfg σ) (hp : HDataPretty cfg.hd cfg.indentStr)
    (cs0 : List Chunk) (nd : Val)
    (htbl : noTupleEndsWith cfg.layout .OptionalNewline = true)
    (hclean : TokensClean (cs0 ++ [.layout .OptionalNewline .indNewlineOptional nd]))
    (hsafe : tailSafe (normalize cfg.layout
      (trailing (cs0 ++ [.layout .OptionalNewline .indNewlineOptional nd]) [])) = true)
    (hlevel : (flushAll cfg (cs0 ++ [.layout .OptionalNewline .indNewlineOptional nd]) none [] 0).2 = 0) :
    EndsWithOneNewline
      (charsOf (flushAll cfg (cs0 ++ [.layout .OptionalNewline .indNewlineOptional nd]) none [] 0).1) := by
  obtain ⟨cs, hcs⟩ : ∃ cs, cs = cs0 ++ [Chunk.layout .OptionalNewline .indNewlineOptional nd] := ⟨_, rfl⟩
  rw [← hcs] at hclean hsafe hlevel ⊢
  obtain ⟨pre, lvl', h1, h2, h3⟩ := flushAll_final cfg cs none [] 0
  -- the final buffer and its normal form
  have hB : trailing cs [] = trailing cs0 [] ++ [{ m := .OptionalNewline, handler := .indNewlineOptional, node := nd }] := by
    rw [hcs]; exact trailing_append_layout cs0 _ _ _ []
  obtain ⟨S, hS⟩ := normalize_last htbl (trailing cs0 [])
    { m := .OptionalNewline, handler := .indNewlineOptional, node := nd } rfl
  rw [← hB] at hS
  simp only at hS
  rw [hS] at hsafe
  -- the text before the final flush
  have hbefore : BeforeClean (lastTok cs none) := by
    intro b hb
    rcases h3 with ⟨_, hl⟩ | ⟨pre', f, _, hl, hm⟩
    · rw [hl] at hb; cases hb
    · rw [hl] at hb; cases hb; exact hclean f hm
  have hpre : Tracks (charsOf pre) (lastTok cs none) none ∧ NoDoubleLT (charsOf pre) := by
    rcases h3 with ⟨rfl, hl⟩ | ⟨pre', f, rfl, hl, hm⟩
    · rw [hl]
      exact ⟨by simp [Tracks, charsOf], by intro t a b h; simp [charsOf] at h⟩
    · rw [hl]
      have hf := hclean f hm
      refine ⟨?_, ?_⟩
      · show (charsOf (pre' ++ [f])).getLast? = f.text.toList.getLast?
        have := charsOf_concat_last [] pre' f hf.1
        simpa using this
      · rw [charsOf_append]
        exact noDouble_append_frag _ f hf.1 hf.2
  -- no double line terminator at the end
  have hnd : NoDoubleLT (charsOf pre ++ charsOf (processLayouts cfg (trailing cs []) (lastTok cs none) none lvl').1) := by
    simp only [processLayouts, hS]
    exact runEntries_noDouble hp _ _ hbefore _ _ _ _ hpre.1 hsafe (Or.inl hpre.2)
  -- the last entry runs at level 0 and leaves a newline at the end
  have hlast : (charsOf pre ++ charsOf (processLayouts cfg (trailing cs []) (lastTok cs none) none lvl').1).getLast?
      = some '\n' := by
    simp only [processLayouts, hS, runEntries_append, charsOf_append, ← List.append_assoc]
    obtain ⟨F, hF⟩ : ∃ F, F = (runEntries cfg.hd cfg.indentStr (lastTok cs none) none S none lvl').1 := ⟨_, rfl⟩
    obtain ⟨lS, hlS⟩ : ∃ l, l = (runEntries cfg.hd cfg.indentStr (lastTok cs none) none S none lvl').2 := ⟨_, rfl⟩
    rw [← hF, ← hlS]
    have hlS0 : lS = 0 := by
      have := hlevel
      rw [h2] at this
      simp only [processLayouts, hS, runEntries_append] at this
      rw [← hF, ← hlS] at this
      simp only [runEntries, runHandler_level, hDelta] at this
      omega
    have htr : Tracks (charsOf pre ++ charsOf F) (lastTok cs none) (lastText F none) := by
      rw [hF]; exact tracks_append hp hpre.1 _ (runEntries_layout _ _ _ _ _ _ _)
    subst hlS0
    simp only [runEntries, runHandler, generateIndents_zero, List.append_nil]
    have hnl : (newlineFrag cfg.hd).text.toList = ['\n'] := by simp [newlineFrag, hp.newline]
    -- `before` is clean: the early return is not taken
    have hearly : (strTruthy (lastTok cs none) && inCRLF (lcN cfg.hd (lastTok cs none))) = false := by
      cases hb : lastTok cs none with
      | none => simp [strTruthy]
      | some b =>
        obtain ⟨hb0, hb1⟩ := hbefore b hb
        obtain ⟨t, c, htc⟩ := str_ne_empty_last hb0
        rw [lcN_some hp.newline htc, inCRLF_single]
        have : isLT c = false := hb1 c (by rw [htc]; simp)
        cases hcr : (c == '\r' || c == '\n') with
        | false => simp
        | true => rw [isLT_of_crlf hcr] at this; cases this
    rw [hearly]
    simp only [Bool.false_eq_true, ↓reduceIte]
    split
    · simp [charsOf, hnl]
    · rename_i hany
      have hany' : anyNewline cfg.hd (lastTok cs none) none (lastText F none) = true := by simpa using hany
      rw [anyNewline_eq] at hany'
      have hb' : (nlSet cfg.hd).contains (lcN cfg.hd (lastTok cs none)) = false := by
        cases hb : lastTok cs none with
        | none => rw [lcN_none]; exact nl_contains_nil hp.newline
        | some b =>
          obtain ⟨hb0, hb1⟩ := hbefore b hb
          obtain ⟨t, c, htc⟩ := str_ne_empty_last hb0
          rw [lcN_some hp.newline htc]
          unfold nlSet
          rw [nl_contains_single hp.newline]
          have : isLT c = false := hb1 c (by rw [htc]; simp)
          cases hcr : (c == '\r' || c == '\n') with
          | false => rfl
          | true => rw [isLT_of_crlf hcr] at this; cases this
      have ha' : (nlSet cfg.hd).contains (fcN cfg.hd none) = false := by
        rw [fcN_none]; exact nl_contains_nil hp.newline
      rw [hb', ha'] at hany'
      simp only [Bool.false_or] at hany'
      cases hprev : lastText F none with
      | none =>
        rw [hprev, lcN_none] at hany'
        have := nl_contains_nil hp.newline
        unfold nlSet at hany'
        rw [this] at hany'; cases hany'
      | some p =>
        rw [hprev] at htr hany'
        obtain ⟨hp0, hp1, hp2⟩ := htr
        obtain ⟨t, c, htc⟩ := str_ne_empty_last hp0
        rw [lcN_some hp.newline htc] at hany'
        unfold nlSet at hany'
        rw [nl_contains_single hp.newline] at hany'
        simp only [charsOf, List.append_nil]
        rw [hp1]
        rcases hp2 with rfl | hp2
        · decide
        · have : isLT c = false := hp2 c (by rw [htc]; simp)
          rw [isLT_of_crlf hany'] at this; cases this
  rw [h1, charsOf_append]
  exact endsWithOne_of _ hlast hnd

/-! ### the chunk stream of a node ends with the last marker of its definition -/

/-- the rule list ends with the layout marker `m` -/
def rulesEndWith (m : Marker) : List Rule → Bool
  | [] => false
  | [.layout m'] => m' == m
  | [_] => false
  | _ :: r :: rs => rulesEndWith m (r :: rs)

theorem rulesEndWith_spec (m : Marker) : ∀ (d : List Rule), rulesEndWith m d = true →
    ∃ rs, d = rs ++ [.layout m] := by
  intro d
  induction d with
  | nil => intro h; simp [rulesEndWith] at h
  | cons r rs ih =>
    intro h
    cases rs with
    | nil =>
      cases r <;> simp [rulesEndWith] at h
      subst h; exact ⟨[], rfl⟩
    | cons r' rs' =>
      simp only [rulesEndWith] at h
      obtain ⟨q, hq⟩ := ih h
      exact ⟨r :: q, by rw [hq]; rfl⟩

theorem seqM_append_ok {α : Type} (f : α → σ → Except Err (List Chunk × σ)) :
    ∀ (xs ys : List α) (s : σ) (cs : List Chunk) (s' : σ),
      seqM f (xs ++ ys) s = .ok (cs, s') →
      ∃ c1 s1 c2, seqM f xs s = .ok (c1, s1) ∧ seqM f ys s1 = .ok (c2, s') ∧ cs = c1 ++ c2 := by
  intro xs
  induction xs with
  | nil => intro ys s cs s' h; exact ⟨[], s, cs, by simp [seqM], by simpa using h, by simp⟩
  | cons x xs ih =>
    intro ys s cs s' h
    rw [List.cons_append, seqM_cons_ok] at h
    obtain ⟨c1, s1, c2, h1, h2, rfl⟩ := h
    obtain ⟨d1, t1, d2, g1, g2, rfl⟩ := ih ys s1 c2 s' h2
    refine ⟨c1 ++ d1, t1, d2, ?_, g2, by simp⟩
    rw [seqM_cons_ok]
    exact ⟨c1, s1, d1, h1, g1, rfl⟩

theorem walkNode_last_marker (cfg : Cfg σ) (kind : String) (as : List (String × Val))
    (rs : List Rule) (m : Marker) (h : HandlerId)
    (hdef : lookupDef cfg.defs kind = some (rs ++ [.layout m]))
    (hl : lookupLayout cfg.layout (LKey.single m) = some h)
    (fuel : Nat) (path : Path) (src : Src) (s : σ) (cs : List Chunk) (s' : σ)
    (hw : walkNode cfg fuel path src (.node kind as) none s = .ok (cs, s')) :
    ∃ cs0, cs = cs0 ++ [.layout m h (.node kind as)] := by
  cases fuel with
  | zero => simp [walkNode] at hw
  | succ fuel =>
    simp only [walkNode, nodeStep, hdef] at hw
    obtain ⟨c1, s1, c2, _, g2, rfl⟩ := seqM_append_ok _ _ _ _ _ _ hw
    rw [seqM_cons_ok] at g2
    obtain ⟨d1, t1, d2, k1, k2, rfl⟩ := g2
    rw [seqM_nil_ok] at k2
    cases fuel with
    | zero => simp [walkRule] at k1
    | succ fuel =>
      simp only [walkRule, ruleStep, hl, Except.ok.injEq, Prod.mk.injEq] at k1
      refine ⟨c1, ?_⟩
      rw [k2.1, ← k1.1]; simp

end CalmVerif.Unparse
