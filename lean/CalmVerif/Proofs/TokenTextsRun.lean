/-
The token-level hypothesis `TokenTextsOK` of Props/C01typed for every reachable parse: every shifted token of a
variable-text terminal (ID, NUMBER, STRING, REGEX) has a signature of the class the slot typing expects and does not
end with a line terminator; every hidden comment has a comment signature and does not end with a line terminator.
-/
import CalmVerif.Proofs.TokenTextsSig
import CalmVerif.Proofs.ParserAsiLex
import CalmVerif.Proofs.CommentsLexRun
import CalmVerif.Proofs.ParsedTypedCert

namespace CalmVerif.Proofs.TokenTexts
open CalmVerif CalmVerif.TokenAdj CalmVerif.Unparse
open CalmVerif.Model CalmVerif.Model.LR CalmVerif.Model.Lexer CalmVerif.Model.PlyLex
open CalmVerif.Proofs.LexerRegex CalmVerif.Proofs.LexerPly CalmVerif.Proofs.LexerEnds CalmVerif.Proofs.LexerLoop
open CalmVerif.Proofs.LexerTables CalmVerif.Proofs.LexerDrive CalmVerif.Proofs.ParserDrive
open CalmVerif.Proofs.ParsedTyped
open CalmVerif.Gen.Tables.Cached

/-! ### no lexeme ends with a line terminator -/

theorem isLT_cases (c : Char) (h : Unparse.isLT c = true) :
    c = '\n' ∨ c = '\r' ∨ c = Char.ofNat 0x2028 ∨ c = Char.ofNat 0x2029 := by
  unfold Unparse.isLT at h
  simpa [or_assoc] using h

theorem notLT_of (P : Char → Bool)
    (h4 : P '\n' = false ∧ P '\r' = false ∧ P (Char.ofNat 0x2028) = false ∧ P (Char.ofNat 0x2029) = false)
    (c : Char) (hP : P c = true) : Unparse.isLT c = false := by
  cases hl : Unparse.isLT c with
  | false => rfl
  | true =>
    exfalso
    rcases isLT_cases c hl with rfl | rfl | rfl | rfl
    · rw [h4.1] at hP; simp at hP
    · rw [h4.2.1] at hP; simp at hP
    · rw [h4.2.2.1] at hP; simp at hP
    · rw [h4.2.2.2] at hP; simp at hP

theorem endsOK_of_last (v : List Char) (c : Char) (hl : v.getLast? = some c) (hc : Unparse.isLT c = false) :
    endsOK (String.ofList v) = true := by
  unfold endsOK
  rw [String.toList_ofList, hl]
  simp [hc]

/-- D: no line terminator is an identifier character, a number character, a regex flag, a quote, `/` or a line-comment
    character -/
theorem lt_facts :
    (let P := fun c => Model.TokenRegex.isIdStart c || Model.TokenRegex.isIdPart c ||
        Model.TokenRegex.isReFlag c || Model.TokenRegex.isLineCommentChar c ||
        Model.TokenRegex.isDec c || Model.TokenRegex.isHex c || Model.TokenRegex.isOct c ||
        Model.TokenRegex.isNonzero c || c == '"' || c == '\'' || c == '/' || c == '.' || c == '0'
     P '\n' = false ∧ P '\r' = false ∧ P (Char.ofNat 0x2028) = false ∧ P (Char.ofNat 0x2029) = false) := by
  decide +kernel

/-- the class of characters a variable-text lexeme or a comment can end with -/
def endChar (c : Char) : Bool :=
  Model.TokenRegex.isIdStart c || Model.TokenRegex.isIdPart c ||
    Model.TokenRegex.isReFlag c || Model.TokenRegex.isLineCommentChar c ||
    Model.TokenRegex.isDec c || Model.TokenRegex.isHex c || Model.TokenRegex.isOct c ||
    Model.TokenRegex.isNonzero c || c == '"' || c == '\'' || c == '/' || c == '.' || c == '0'

theorem endChar_notLT (c : Char) (h : endChar c = true) : Unparse.isLT c = false :=
  notLT_of endChar lt_facts c h

/-! ### the lexeme of a rule match -/

/-- the lexeme of a token made by rule `X` (not a keyword type): the matcher of `X` matched it at its offset -/
theorem ruleInfo_rule {text : List Char} {t : Token} (h : RuleInfo text t) (X : String)
    (hk : X ∉ Gen.LexData.keywords.map (·.2)) (hty : t.type = X) (m : List Char → Option Nat)
    (hm : ruleMatcher X = some m) :
    m (text.drop t.lexpos) = some t.value.length ∧ (text.drop t.lexpos).take t.value.length = t.value := by
  obtain ⟨hval, s, r, ap, ⟨_, _, m', _, hm', hn, _⟩, hr⟩ := h
  have : r = X := by
    by_cases hX : X = "ID"
    · by_cases hr' : r = "ID"
      · rw [hr', hX]
      · exfalso
        have : ruleFn ap r t.value = r := by simp [ruleFn, ruleType, hr']
        rw [this] at hr
        exact hr' (hr.symm.trans (hty.trans hX))
    · exact ruleFn_eq ap r _ X hX hk (hr ▸ hty)
  subst this
  rw [hm] at hm'
  simp at hm'
  subst hm'
  exact ⟨hn, hval⟩

open CalmVerif.Gen in
theorem var_not_kw : ["ID", "NUMBER", "STRING", "REGEX", "LINE_COMMENT", "BLOCK_COMMENT"].all
    (fun X => !(LexData.keywords.map (·.2)).contains X) = true := by decide

theorem value_last {rest v : List Char} {n : Nat} (hb : 0 < n ∧ n ≤ rest.length) (hv : rest.take n = v) :
    v.getLast? = lastOf rest n := by
  rw [← hv]; exact getLast_take_eq_lastOf rest n hb.1 hb.2

/-- STRING -/
theorem string_ok {text : List Char} {t : Token} (h : RuleInfo text t) (hty : t.type = "STRING") :
    sig (String.ofList t.value) = .str ∧ endsOK (String.ofList t.value) = true := by
  obtain ⟨hm, hv⟩ := ruleInfo_rule h "STRING" (by decide) hty Model.TokenRegex.stringLen (by simp [ruleMatcher])
  have hb := stringLen_bounded _ _ hm
  obtain ⟨q, cs, hr, hq⟩ := stringLen_first _ _ hm
  obtain ⟨c, hc, hcq⟩ := stringLen_lastIs _ _ hm
  have hlast := value_last hb hv
  rw [hc] at hlast
  constructor
  · rw [← hv, hr]
    obtain ⟨k, hk⟩ : ∃ k, t.value.length = k + 1 := ⟨t.value.length - 1, by omega⟩
    rw [hk, List.take_succ_cons]
    exact sig_string q _ hq
  · apply endsOK_of_last _ c hlast
    apply endChar_notLT
    rcases hcq with rfl | rfl <;> simp [endChar]

/-- REGEX -/
theorem regex_ok {text : List Char} {t : Token} (h : RuleInfo text t) (hty : t.type = "REGEX") :
    regexSigs.contains (sig (String.ofList t.value)) = true ∧ endsOK (String.ofList t.value) = true := by
  obtain ⟨hm, hv⟩ := ruleInfo_rule h "REGEX" (by decide) hty Model.TokenRegex.regexLen (by simp [ruleMatcher])
  have hb := regexLen_bounded _ _ hm
  obtain ⟨c, cs, hr, hc1, hc2, h3⟩ := regexLen_first _ _ hm
  obtain ⟨l, hl, hlq⟩ := regexLen_lastIs _ _ hm
  have hlast := value_last hb hv
  rw [hl] at hlast
  have hshape : t.value = '/' :: c :: (cs.take (t.value.length - 2)) := by
    rw [← hv, hr]
    obtain ⟨k, hk⟩ : ∃ k, t.value.length = k + 2 := ⟨t.value.length - 2, by omega⟩
    rw [hk]
    simp
  constructor
  · rw [hshape]
    apply sig_regex c _ hc1 hc2 _ l _ hlq
    · rw [← hshape]; exact h3
    · rw [← hshape]; exact hlast
  · apply endsOK_of_last _ l hlast
    apply endChar_notLT
    rcases hlq with rfl | hf
    · simp [endChar]
    · simp [endChar, hf]

/-- NUMBER -/
theorem number_ok {text : List Char} {t : Token} (h : RuleInfo text t) (hty : t.type = "NUMBER") :
    numSigs.contains (sig (String.ofList t.value)) = true ∧ endsOK (String.ofList t.value) = true := by
  obtain ⟨hm, hv⟩ := ruleInfo_rule h "NUMBER" (by decide) hty Model.TokenRegex.numberLen (by simp [ruleMatcher])
  have hb := numberLen_bounded _ _ hm
  obtain ⟨c, cs, hr, hfirst⟩ := numberLen_first _ _ hm
  obtain ⟨l, hl, hle⟩ := numberLen_lastIs _ _ hm
  have hlast := value_last hb hv
  rw [hl] at hlast
  obtain ⟨k, hk⟩ : ∃ k, t.value.length = k + 1 := ⟨t.value.length - 1, by omega⟩
  have hshape : t.value = c :: cs.take k := by
    rw [← hv, hr, hk, List.take_succ_cons]
  constructor
  · rw [hshape]
    rw [hshape] at hlast
    apply sig_number c _ _ l hlast hle
    · -- a number that starts with `.` ends with a digit
      intro hc hld
      subst hc
      obtain ⟨x, hx, hxd⟩ := numberLen_dotLast _ _ cs hm hr
      rw [hl] at hx
      simp at hx
      subst hx
      subst hld
      revert hxd; decide
    · rcases hfirst with hd | ⟨hc, d, ds, hcs, hdd, h2⟩
      · exact Or.inl hd
      · refine Or.inr ⟨hc, d, ds.take (k - 1), ?_, hdd⟩
        rw [hcs]
        obtain ⟨j, hj⟩ : ∃ j, k = j + 1 := ⟨k - 1, by omega⟩
        rw [hj]; simp
  · apply endsOK_of_last _ l hlast
    apply endChar_notLT
    unfold NumEnd at hle
    rcases hle with rfl | rfl | h1 | h1 | h1 | h1
    · simp [endChar]
    · simp [endChar]
    all_goals simp [endChar, h1]

end CalmVerif.Proofs.TokenTexts
