/-
The first / last certificates of the `rs_indent` rule set, computed by fixpoint iteration over the regenerated Gen.Defs,
and the kernel decision that they are closed (D obligation: breaks when a definition or the rule set changes).
-/
import CalmVerif.Proofs.RoundTripCert
namespace CalmVerif.TokenAdj
open CalmVerif CalmVerif.Unparse

def certPretty : List (String × Abs) := certIter Gen.Rules.rs_indent Gen.Defs.definitions 4
def cxPretty : Ctx := mkCtx Gen.Rules.rs_indent Gen.Defs.definitions certPretty
/-- the follow relation: every pair of symbols (token signatures, layout markers) that can be adjacent in a chunk stream -/
def followPretty : List Rect := allNeeds cxPretty Gen.Defs.definitions

set_option maxRecDepth 1000000 in
theorem certPretty_closed_forced :
    withCtx Gen.Rules.rs_indent Gen.Defs.definitions 4 (fun cx => closedCert cx Gen.Defs.definitions) = true := by decide +kernel

theorem certPretty_closed : closedCert cxPretty Gen.Defs.definitions = true := by
  have h := certPretty_closed_forced
  rw [withCtx_eq] at h
  exact h

theorem followPretty_closed : closed cxPretty followPretty Gen.Defs.definitions = true :=
  closed_of_cert cxPretty Gen.Defs.definitions certPretty_closed

end CalmVerif.TokenAdj
