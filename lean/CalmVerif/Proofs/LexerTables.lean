/-
Helper lemmas for C06: facts about the generated lexer tables (decided over Gen) and their lifting to
tokens: keyword exactness and punctuator maximal munch.
-/
import CalmVerif.Proofs.LexerSegm

namespace CalmVerif.Proofs.LexerTables
open CalmVerif.Model.TokenRegex CalmVerif.Model.PlyLex CalmVerif.Model.Lexer
open CalmVerif.Proofs.LexerRegex CalmVerif.Proofs.LexerPly CalmVerif.Proofs.LexerLoop
open CalmVerif.Gen

/-! ### decided over the generated tables -/

def kwTypes : List String := LexData.keywords.map (·.2)
def allRules : List String := rulesOf .initial ++ rulesOf .regex

/-- D: a rule name other than "ID" is neither "ID" nor a keyword type -/
theorem rule_names_not_kw :
    allRules.all (fun r => r == "ID" || !(("ID" :: kwTypes).contains r)) = true := by decide

/-- D: the keyword table has no duplicate spelling and no duplicate type, and "ID" is not a keyword type -/
theorem kw_keys_nodup : (LexData.keywords.map (·.1)).Nodup := by decide
theorem kw_types_nodup : kwTypes.Nodup := by decide
theorem id_not_kw : "ID" ∉ kwTypes := by decide

/-- the spelling of a fixed-text rule -/
def spell (r : String) : Option (List Char) := (lookup LexData.punctSpelling r).map String.toList

def properPrefix (a b : List Char) : Bool := decide (a.length < b.length) && startsWith a b

/-- no rule's text is a proper prefix of the text of a rule tried LATER -/
def noEarlierPrefix : List String → Bool
  | [] => true
  | r :: rs =>
    rs.all (fun r' =>
      match spell r, spell r' with
      | some a, some b => !properPrefix a b
      | _, _ => true) && noEarlierPrefix rs

/-- D `punctuators_longest_first`: in ply's rule order of the INITIAL state every punctuator that is a proper
    prefix of another one comes later -/
theorem punct_order_ok : noEarlierPrefix (rulesOf .initial) = true := by decide

/-- D: fixed-text rule names are not names of the hand-matched rules, have one spelling each -/
theorem punct_names_ok :
    LexData.punctSpelling.all (fun p => !(LexData.complexRules.contains p.1)) = true := by decide
theorem punct_keys_nodup : (LexData.punctSpelling.map (·.1)).Nodup := by decide
theorem punct_not_kw :
    LexData.punctSpelling.all (fun p => !(("ID" :: kwTypes).contains p.1)) = true := by decide
theorem regex_rules : rulesOf .regex = ["REGEX"] := by decide

/-! ### table look-up -/

theorem lookup_pair_mem (tbl : List (String × String)) (k v : String) (h : lookup tbl k = some v) :
    (k, v) ∈ tbl := by
  induction tbl with
  | nil => simp [lookup] at h
  | cons p rest ih =>
    obtain ⟨a, b⟩ := p
    simp only [lookup] at h
    split at h
    · rename_i hk; simp at h; simp [hk, h]
    · simp [ih h]

theorem lookup_of_mem (tbl : List (String × String)) (hn : (tbl.map (·.1)).Nodup) (k v : String)
    (h : (k, v) ∈ tbl) : lookup tbl k = some v := by
  induction tbl with
  | nil => simp at h
  | cons p rest ih =>
    obtain ⟨a, b⟩ := p
    simp only [List.map_cons, List.nodup_cons] at hn
    simp only [lookup]
    simp at h
    rcases h with ⟨rfl, rfl⟩ | h
    · simp
    · split
      · rename_i hk
        subst hk
        exact absurd (List.mem_map_of_mem (f := (·.1)) h) hn.1
      · exact ih hn.2 h

theorem snd_inj_of_nodup (tbl : List (String × String)) (hn : (tbl.map (·.2)).Nodup) (a b v : String)
    (ha : (a, v) ∈ tbl) (hb : (b, v) ∈ tbl) : a = b := by
  induction tbl with
  | nil => simp at ha
  | cons p rest ih =>
    simp only [List.map_cons, List.nodup_cons] at hn
    simp at ha hb
    rcases ha with rfl | ha <;> rcases hb with hb | hb
    · simpa using (congrArg Prod.fst hb).symm
    · exact absurd (List.mem_map_of_mem (f := (·.2)) hb) hn.1
    · subst hb; exact absurd (List.mem_map_of_mem (f := (·.2)) ha) hn.1
    · exact ih hn.2 ha hb

/-! ### keywords -/

/-- a token typed "ID" or with a keyword type was produced by the identifier rule `t_ID` -/
theorem rule_is_id {text : List Char} {t : Token} (h : RuleInfo text t) (hty : t.type ∈ "ID" :: kwTypes) :
    ∃ ap, t.type = ruleFn ap "ID" t.value := by
  obtain ⟨_, s, r, ap, ⟨pre, post, _, hr, _⟩, ht⟩ := h
  by_cases hid : r = "ID"
  · exact ⟨ap, by rw [ht, hid]⟩
  · exfalso
    have hmem : r ∈ allRules := by
      unfold allRules
      cases s <;> simp [hr]
    have := List.all_eq_true.mp rule_names_not_kw r hmem
    have hty' : ruleFn ap r t.value = r := by simp [ruleFn, ruleType, hid]
    rw [ht, hty'] at hty
    simp [hid] at this
    simp at hty
    rcases hty with h1 | h1
    · exact hid h1
    · exact this h1

/-- the dictionary look-up of `t_ID`: it yields the keyword type `K` iff the lexeme is exactly `K`'s spelling -/
theorem lookup_keyword_iff (v : List Char) (sp K : String) (hk : (sp, K) ∈ LexData.keywords) :
    ruleType "ID" v = K ↔ String.ofList v = sp := by
  have hKmem : K ∈ kwTypes := List.mem_map_of_mem (f := (·.2)) hk
  constructor
  · intro ht
    simp only [ruleType, if_true] at ht
    split at ht
    · rename_i kw hkw
      subst ht
      have := lookup_pair_mem _ _ _ hkw
      exact snd_inj_of_nodup _ kw_types_nodup _ _ _ this hk
    · subst ht; exact absurd hKmem id_not_kw
  · intro hv
    simp only [ruleType, if_true]
    rw [hv, lookup_of_mem _ kw_keys_nodup _ _ hk]

/-- `t_ID` with the look-behind flag `ap` (`cur_token_real` is a PERIOD): the token gets the keyword type `K` iff
    the lexeme is exactly `K`'s spelling AND the previous significant token is not `.` -/
theorem ruleFn_keyword_iff (ap : Bool) (v : List Char) (sp K : String) (hk : (sp, K) ∈ LexData.keywords) :
    ruleFn ap "ID" v = K ↔ (String.ofList v = sp ∧ ap = false) := by
  have hKmem : K ∈ kwTypes := List.mem_map_of_mem (f := (·.2)) hk
  have hKne : K ≠ "ID" := fun h => id_not_kw (h ▸ hKmem)
  unfold ruleFn
  constructor
  · intro h
    split at h
    · exact absurd h.symm hKne
    · rename_i hc
      refine ⟨(lookup_keyword_iff v sp K hk).mp h, ?_⟩
      cases ap with
      | false => rfl
      | true => exact absurd ⟨rfl, by rw [h]; exact hKne, rfl⟩ hc
  · intro ⟨hv, hap⟩
    have := (lookup_keyword_iff v sp K hk).mpr hv
    subst hap
    simp [this]

/-- keyword exactness ("only on exact match"): a token with the keyword type `K` has exactly `K`'s spelling -/
theorem keyword_type_exact {text : List Char} {t : Token} (h : RuleInfo text t) (sp K : String)
    (hk : (sp, K) ∈ LexData.keywords) (hty : t.type = K) : String.ofList t.value = sp := by
  have hmem : t.type ∈ "ID" :: kwTypes := by
    rw [hty]; exact List.mem_cons_of_mem _ (List.mem_map_of_mem (f := (·.2)) hk)
  obtain ⟨ap, hap⟩ := rule_is_id h hmem
  exact ((ruleFn_keyword_iff ap t.value sp K hk).mp (hap ▸ hty)).1

/-! ### punctuators -/

theorem startsWith_of_prefixes : ∀ (a b rest : List Char), startsWith a rest = true → startsWith b rest = true →
    a.length ≤ b.length → startsWith a b = true := by
  intro a
  induction a with
  | nil => intros; simp [startsWith]
  | cons x xs ih =>
    intro b rest ha hb hl
    cases b with
    | nil => simp at hl
    | cons y ys =>
      cases rest with
      | nil => simp [startsWith] at ha
      | cons z zs =>
        simp only [startsWith, Bool.and_eq_true, beq_iff_eq] at ha hb ⊢
        exact ⟨ha.1.trans hb.1.symm, ih ys zs ha.2 hb.2 (by simpa using hl)⟩

theorem noEarlierPrefix_split : ∀ (pre : List String) (r : String) (post : List String),
    noEarlierPrefix (pre ++ r :: post) = true →
    ∀ r' ∈ post, ∀ a b, spell r = some a → spell r' = some b → properPrefix a b = false := by
  intro pre
  induction pre with
  | nil =>
    intro r post h r' hr' a b ha hb
    simp only [List.nil_append, noEarlierPrefix, Bool.and_eq_true, List.all_eq_true] at h
    have := h.1 r' hr'
    rw [ha, hb] at this
    simpa using this
  | cons x xs ih =>
    intro r post h
    simp only [List.cons_append, noEarlierPrefix, Bool.and_eq_true] at h
    exact ih r post h.2

theorem ruleMatcher_punct (P sp : String) (h : (P, sp) ∈ LexData.punctSpelling) :
    ruleMatcher P = some (matchLit sp.toList) := by
  have hn := List.all_eq_true.mp punct_names_ok (P, sp) h
  simp [LexData.complexRules] at hn
  have hl := lookup_of_mem _ punct_keys_nodup _ _ h
  unfold ruleMatcher
  simp [hn, hl]

theorem spell_punct (P sp : String) (h : (P, sp) ∈ LexData.punctSpelling) : spell P = some sp.toList := by
  simp [spell, lookup_of_mem _ punct_keys_nodup _ _ h]

/-- a token whose type is a fixed-text rule name was produced by that rule in state INITIAL -/
theorem rule_is_punct {text : List Char} {t : Token} (h : RuleInfo text t) (P sp : String)
    (hp : (P, sp) ∈ LexData.punctSpelling) (hty : t.type = P) :
    FirstMatch (rulesOf .initial) (text.drop t.lexpos) P t.value.length := by
  obtain ⟨_, s, r, ap, hfm, ht⟩ := h
  have hnk := List.all_eq_true.mp punct_not_kw (P, sp) hp
  have hnc := List.all_eq_true.mp punct_names_ok (P, sp) hp
  have hr : r = P := by
    simp at hnk
    exact ruleFn_eq ap r _ P hnk.1 hnk.2 (ht ▸ hty)
  subst hr
  cases s with
  | initial => exact hfm
  | regex =>
    exfalso
    obtain ⟨pre, post, _, hrules, _⟩ := hfm
    have : r ∈ rulesOf .regex := by rw [hrules]; simp
    rw [regex_rules] at this
    simp at this
    subst this
    simp [LexData.complexRules] at hnc

theorem punct_munch {text : List Char} {t : Token} (h : RuleInfo text t) (P sp : String)
    (hp : (P, sp) ∈ LexData.punctSpelling) (hty : t.type = P) :
    t.value = sp.toList ∧
    ∀ P' sp', (P', sp') ∈ LexData.punctSpelling → P' ∈ rulesOf .initial →
      startsWith sp'.toList (text.drop t.lexpos) = true → sp'.toList.length ≤ sp.toList.length := by
  obtain ⟨pre, post, m, hrules, hm, hn, hpre⟩ := rule_is_punct h P sp hp hty
  rw [ruleMatcher_punct P sp hp] at hm
  simp at hm
  subst hm
  have hsw : startsWith sp.toList (text.drop t.lexpos) = true ∧ t.value.length = sp.toList.length := by
    unfold matchLit at hn
    split at hn
    · simp at hn
    · split at hn
      · rename_i hs; simp at hn; exact ⟨hs, hn.symm⟩
      · simp at hn
  have hval : (text.drop t.lexpos).take t.value.length = sp.toList := by
    rw [hsw.2]; exact startsWith_take hsw.1
  refine ⟨?_, ?_⟩
  · rw [← h.1]; exact hval
  · intro P' sp' hp' hP' hs'
    by_cases hempty : sp'.toList = []
    · rw [hempty]; simp
    rw [hrules] at hP'
    simp at hP'
    rcases hP' with hP' | rfl | hP'
    · obtain ⟨m', hm', hnone⟩ := hpre P' hP'
      rw [ruleMatcher_punct P' sp' hp'] at hm'
      simp at hm'
      subst hm'
      simp [matchLit, hs', hempty] at hnone
    · have h1 := lookup_of_mem _ punct_keys_nodup _ _ hp
      have h2 := lookup_of_mem _ punct_keys_nodup _ _ hp'
      rw [h1] at h2
      simp at h2
      rw [h2]; exact Nat.le_refl _
    · apply Nat.le_of_not_lt
      intro hlt
      have := noEarlierPrefix_split pre P post (by rw [← hrules]; exact punct_order_ok) P' hP' _ _
        (spell_punct P sp hp) (spell_punct P' sp' hp')
      have hsw' := startsWith_of_prefixes _ _ _ hsw.1 hs' (Nat.le_of_lt hlt)
      simp [properPrefix, hlt, hsw'] at this

end CalmVerif.Proofs.LexerTables
