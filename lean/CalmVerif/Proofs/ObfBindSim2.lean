/-
Part 2 of the renaming simulation: declaration sites (`declOccs`), parameter lists, and `enter` under `renameBy`.
-/
import CalmVerif.Proofs.ObfBindSim
namespace CalmVerif.Obf
open CalmVerif CalmVerif.Unparse
open CalmVerif.Spec.Scope (BKind Binder Layer Ctx Occ Role identName isFunctionKind isVarDeclKind
  lookupEnv lookupLabel roleOf enter isPresent hoistVal hoistList hoistAttrs paramNames declOccs
  resolveVal resolveList resolveAttrs)

local notation "sLookup" => Spec.Scope.lookupAttr

/-! ### lists of Identifiers -/

/-- the Identifier sites of a list, from index `i` on -/
def identsFrom (p : SPath) (attr : String) : Nat → List Val → List (Path × String)
  | _, [] => []
  | i, x :: xs => ((identName x).map (fun n => ((attr, i) :: p.reverse, n))).toList ++ identsFrom p attr (i + 1) xs

theorem zipIdx_filterMap_from {β : Type} (f : Val × Nat → Option β) : ∀ (xs : List Val) (i : Nat),
    (xs.zipIdx i).filterMap f = match xs with
      | [] => []
      | x :: rest => (f (x, i)).toList ++ (rest.zipIdx (i + 1)).filterMap f
  | [], _ => rfl
  | x :: rest, i => by
    simp only [List.zipIdx_cons, List.filterMap_cons]
    cases f (x, i) <;> simp

theorem identsOf_list (p : SPath) (attr : String) (xs : List Val) :
    identsOf p attr (.list xs) = identsFrom p attr 0 xs := by
  simp only [identsOf]
  suffices h : ∀ (xs : List Val) (i : Nat),
      (xs.zipIdx i).filterMap (fun (q : Val × Nat) => (identName q.1).map (fun n => ((attr, q.2) :: p.reverse, n)))
        = identsFrom p attr i xs from h xs 0
  intro xs
  induction xs with
  | nil => intro i; rfl
  | cons x rest ih =>
    intro i
    rw [zipIdx_filterMap_from]
    simp only [identsFrom, ih]

/-- `declOccs` on a list, from index `i` on -/
def declFrom (rp : SPath) (attr : String) (f : String → List Binder) : Nat → List Val → List Occ
  | _, [] => []
  | i, x :: xs =>
    ((identName x).map (fun n => ({ path := rp ++ [(attr, i)], name := n, binders := f n } : Occ))).toList
      ++ declFrom rp attr f (i + 1) xs

theorem declOccs_list (rp : SPath) (attr : String) (f : String → List Binder) (xs : List Val) :
    declOccs rp attr (.list xs) f = declFrom rp attr f 0 xs := by
  simp only [declOccs]
  suffices h : ∀ (xs : List Val) (i : Nat),
      (xs.zipIdx i).filterMap (fun (q : Val × Nat) =>
        (identName q.1).map (fun n => ({ path := rp ++ [(attr, q.2)], name := n, binders := f n } : Occ)))
        = declFrom rp attr f i xs from h xs 0
  intro xs
  induction xs with
  | nil => intro i; rfl
  | cons x rest ih =>
    intro i
    rw [zipIdx_filterMap_from]
    simp only [declFrom, ih]

theorem declFrom_rename (τ : Tau) (ρ : Rho) (p : SPath) (a : String) (f f' : String → List Binder) :
    ∀ (xs : List Val) (i : Nat),
      (∀ q ∈ identsFrom p a i xs, f' (ρ q.1 q.2) = (f q.2).map (mapBinder τ)) →
      declFrom p a f' i (renameListBy ρ p.reverse a i xs) = (declFrom p a f i xs).map (mapOcc τ ρ)
  | [], _, _ => rfl
  | x :: rest, i, h => by
    simp only [renameListBy, declFrom, List.map_append]
    rw [declFrom_rename τ ρ p a f f' rest (i + 1) (fun q hq => h q (by simp [identsFrom, hq]))]
    congr 1
    rw [identName_renameBy]
    cases hn : identName x with
    | none => rfl
    | some n =>
      have := h ((a, i) :: p.reverse, n) (by simp [identsFrom, hn])
      simp only at this
      simp [mapOcc, this]

/-- declaration sites of an attribute value under renaming -/
theorem declOccs_rename (τ : Tau) (ρ : Rho) (p : SPath) (a : String) (hm : Val.isMeta a = false) (v : Val)
    (f f' : String → List Binder)
    (h : ∀ q ∈ identsOf p a v, f' (ρ q.1 q.2) = (f q.2).map (mapBinder τ)) :
    declOccs p a (renAttrVal ρ p.reverse a v) f' = (declOccs p a v f).map (mapOcc τ ρ) := by
  rcases val_list_or v with ⟨xs, rfl⟩ | hnl
  · rw [renAttrVal_list _ _ _ _ hm, declOccs_list, declOccs_list]
    rw [identsOf_list] at h
    exact declFrom_rename τ ρ p a f f' xs 0 h
  · rw [renAttrVal_nonlist _ _ _ _ hm hnl]
    have e1 : ∀ (w : Val) (g : String → List Binder), NotList w →
        declOccs p a w g = ((identName w).map (fun n => ({ path := p ++ [(a, 0)], name := n, binders := g n } : Occ))).toList := by
      intro w g hw
      cases w with
      | list xs => exact absurd rfl (fun h => hw xs h)
      | none => rfl
      | bool b => rfl
      | int n => rfl
      | str t => rfl
      | node k as => rfl
    have hnl' : NotList (renameBy ρ ((a, 0) :: p.reverse) v) := by
      intro xs hx
      cases v with
      | list ys => exact hnl ys rfl
      | none => simp [renameBy] at hx
      | bool b => simp [renameBy] at hx
      | int n => simp [renameBy] at hx
      | str t => simp [renameBy] at hx
      | node k as =>
        obtain ⟨as', he, _⟩ := renameBy_node ρ ((a, 0) :: p.reverse) k as
        rw [he] at hx; cases hx
    rw [e1 _ _ hnl', e1 _ _ hnl, identName_renameBy]
    cases hn : identName v with
    | none => rfl
    | some n =>
      have hi : identsOf p a v = [((a, 0) :: p.reverse, n)] := by
        cases v with
        | list ys => exact absurd rfl (fun h => hnl ys h)
        | none => simp [identName] at hn
        | bool b => simp [identName] at hn
        | int m => simp [identName] at hn
        | str t => simp [identName] at hn
        | node k as => simp [identsOf, hn]
      have := h ((a, 0) :: p.reverse, n) (by simp [hi])
      simp only at this
      simp [mapOcc, this]

/-! ### parameter lists -/

theorem filterMap_rename (τ : Tau) (ρ : Rho) (k : BKind) (s p : SPath) (a : String) :
    ∀ (xs : List Val) (i : Nat), (∀ q ∈ identsFrom p a i xs, ρ q.1 q.2 = tauN τ k s q.2) →
      (renameListBy ρ p.reverse a i xs).filterMap identName = (xs.filterMap identName).map (tauN τ k s)
  | [], _, _ => rfl
  | x :: rest, i, h => by
    simp only [renameListBy, List.filterMap_cons, identName_renameBy]
    have ih := filterMap_rename τ ρ k s p a rest (i + 1) (fun q hq => h q (by simp [identsFrom, hq]))
    cases hn : identName x with
    | none => simpa using ih
    | some n =>
      have := h ((a, i) :: p.reverse, n) (by simp [identsFrom, hn])
      simp only at this
      simp [ih, this]

theorem declCond_spec {τ : Tau} {ρ : Rho} {k : BKind} {s p : SPath} {a : String} {v : Val}
    (h : declCond τ ρ k s p a v = true) : ∀ q ∈ identsOf p a v, ρ q.1 q.2 = tauN τ k s q.2 := by
  intro q hq
  simp only [declCond, List.all_eq_true] at h
  simpa using h q hq

theorem paramNames_rename (τ : Tau) (ρ : Rho) (p : SPath) (a : String) (hm : Val.isMeta a = false) (ov : Option Val)
    (h : ∀ v, ov = some v → declCond τ ρ .var p p a v = true) :
    paramNames (ov.map (renAttrVal ρ p.reverse a)) = (paramNames ov).map (tauN τ .var p) := by
  cases ov with
  | none => rfl
  | some v =>
    have hc := declCond_spec (h v rfl)
    simp only [Option.map_some]
    rcases val_list_or v with ⟨xs, rfl⟩ | hnl
    · rw [renAttrVal_list _ _ _ _ hm]
      simp only [paramNames]
      rw [identsOf_list] at hc
      exact filterMap_rename τ ρ .var p p a xs 0 hc
    · rw [renAttrVal_nonlist _ _ _ _ hm hnl]
      have e1 : ∀ (w : Val), NotList w → paramNames (some w) = (identName w).toList := by
        intro w hw
        cases w with
        | list xs => exact absurd rfl (fun h => hw xs h)
        | none => rfl
        | bool b => rfl
        | int n => rfl
        | str t => rfl
        | node k as => rfl
      have hnl' : NotList (renameBy ρ ((a, 0) :: p.reverse) v) := by
        intro xs hx
        cases v with
        | list ys => exact hnl ys rfl
        | none => simp [renameBy] at hx
        | bool b => simp [renameBy] at hx
        | int n => simp [renameBy] at hx
        | str t => simp [renameBy] at hx
        | node k as =>
          obtain ⟨as', he, _⟩ := renameBy_node ρ ((a, 0) :: p.reverse) k as
          rw [he] at hx; cases hx
      rw [e1 _ hnl', e1 _ hnl, identName_renameBy]
      cases hn : identName v with
      | none => rfl
      | some n =>
        have hi : identsOf p a v = [((a, 0) :: p.reverse, n)] := by
          cases v with
          | list ys => exact absurd rfl (fun h => hnl ys h)
          | none => simp [identName] at hn
          | bool b => simp [identName] at hn
          | int m => simp [identName] at hn
          | str t => simp [identName] at hn
          | node k as => simp [identsOf, hn]
        have := hc ((a, 0) :: p.reverse, n) (by simp [hi])
        simp only at this
        simp [this]

end CalmVerif.Obf
