/-
ply's position tracking as an invariant of the value stack (part 1 of the C11 composition).

`Track pv tr` relates a semantic value with tracking attributes (`Model.Actions.PVal`) to the derivation tree
of the symbol it belongs to:
  * a terminal's value is the token itself (`leaf`);
  * a nonterminal in the set `tracked` has the (lexpos, lineno) of the FIRST token of its yield whenever the yield
    is not empty (`first`).  This is NOT true of every nonterminal: ply copies the position of the first
    right-hand-side symbol even when that symbol derived the empty string (then it is the lexer's position at
    the time of the empty reduction).  `trackedOK` is the closure condition under which it is true:
    every production of a tracked nonterminal starts with a terminal or a tracked nonterminal that is
    non-nullable or is the whole right-hand side.  (In the ES5 grammar of calmjs exactly `element_list` fails:
    `element_list : elision_opt assignment_expr`.)
  * string-shaped nonterminals are pass-throughs of one token (`strsh`);
  * a node value other than the root `ES5Program` has a non-empty yield (`node`).
`track_leaf` / `track_reduce`: the relation is established by `leaf` and preserved by `Model.Actions.reduce` for every
action table that passes `actionsOK` (Proofs/ActionFacts) and the supplementary checks `extraOK` defined here.
-/
import CalmVerif.Proofs.NodePosGhost
import CalmVerif.Proofs.NodePosGrammar
import CalmVerif.Proofs.NodePosEval
namespace CalmVerif.Proofs.NodePos
open CalmVerif CalmVerif.Model.Actions CalmVerif.Model.ActionDesc CalmVerif.Model.ActionFacts CalmVerif.Model.LR

variable {τ : Type}

/-! ### supplementary checks on grammar and action table -/

def symTracked (g : G) (tracked : List Nat) (x : Nat) : Bool := g.isTerm x || tracked.contains (x - g.nT)

/-- closure condition for "the tracked position is the first token of the yield" -/
def trackedOK (g : G) (tracked : List Nat) : Bool :=
  g.prods.all fun (lhs, rhs) => !tracked.contains lhs ||
    match rhs with
    | [] => true
    | x :: rest => symTracked g tracked x && (g.solid x || rest.isEmpty)

/-- one refinement step towards the greatest set satisfying `trackedOK` -/
def refineTracked (g : G) (tracked : List Nat) : List Nat :=
  tracked.filter fun n => (g.prods.filter (·.1 == n)).all fun (_, rhs) =>
    match rhs with
    | [] => true
    | x :: rest => symTracked g tracked x && (g.solid x || rest.isEmpty)

/-- candidate set: all nonterminals, refined a few times (whether it is closed is checked by `trackedOK`) -/
def trackedSet (g : G) (numNonterminals : Nat) : List Nat :=
  refineTracked g (refineTracked g (refineTracked g (refineTracked g (List.range numNonterminals))))

/-- the slot a position descriptor `.at k _` reads: slot `k`, or for `k = 0` the result symbol, whose position
    is that of slot 1 -/
def slotTracked (g : G) (tracked : List Nat) (rhs : List Nat) (k : Nat) : Bool :=
  match rhsAt rhs (if k = 0 then 1 else k) with
  | some x => symTracked g tracked x
  | none => false

def posTracked (g : G) (tracked : List Nat) (rhs : List Nat) : PosD → Bool
  | .at k _ => slotTracked g tracked rhs k
  | _ => true

def topShapeOK : D → Bool
  | .attrOf _ _ => false
  | _ => true

/-- every slot whose tracked position a node or token-map entry of `d` reads holds a terminal or a tracked symbol -/
def posSlotsOK (g : G) (tracked : List Nat) (rhs : List Nat) (d : D) : Bool :=
  (nodesOfD true d).all (fun x => posTracked g tracked rhs x.pos && x.tokSlots.all (slotTracked g tracked rhs) &&
    x.tokmap.all (fun e => posTracked g tracked rhs e.2)) &&
  (spreadsOfD d).all (posTracked g tracked rhs)

def extraEntry (g : G) (tracked : List Nat) (rhs : List Nat) (e : Entry) : Bool :=
  (e.result :: e.exceptions.map (·.2)).all (fun d => topShapeOK d && posSlotsOK g tracked rhs d) &&
  e.exceptions.all (fun row => row.1.all (fun c => !c.2.contains (.node "ES5Program")))

def extraAllFrom (g : G) (tracked : List Nat) : List (Nat × List Nat) → List Entry → Bool
  | (_, rhs) :: ps, e :: es => extraEntry g tracked rhs e && extraAllFrom g tracked ps es
  | _, _ => true

/-- the supplementary checks: start production isolated, `tracked` closed, per production: the result of a row is
    not a bare attribute access, no row is conditioned on an `ES5Program` value, positions are read from tracked slots -/
def extraOK (g : G) (tracked : List Nat) (actions : List Entry) : Bool :=
  prod0OK g && trackedOK g tracked && extraAllFrom g tracked g.prods actions

theorem checkAllFrom_get {g : G} : ∀ {ps : List (Nat × List Nat)} {es : List Entry}, checkAllFrom g ps es = true →
    ∀ {i : Nat} {q : Nat × List Nat} {e : Entry}, ps[i]? = some q → es[i]? = some e →
      checkEntry g q.2 e = true ∧ nodeProdSolid g q.2 e = true
  | [], [], _, i, q, e, hq, _ => by simp at hq
  | [], _ :: _, h, _, _, _, _, _ => by simp [checkAllFrom] at h
  | _ :: _, [], h, _, _, _, _, _ => by simp [checkAllFrom] at h
  | (l, rhs) :: ps, e0 :: es, h, i, q, e, hq, he => by
    simp only [checkAllFrom, Bool.and_eq_true] at h
    cases i with
    | zero =>
      simp at hq he
      subst hq; subst he
      exact ⟨h.1.1, h.1.2⟩
    | succ i =>
      simp at hq he
      exact checkAllFrom_get h.2 hq he

theorem extraAllFrom_get {g : G} {tracked : List Nat} : ∀ {ps : List (Nat × List Nat)} {es : List Entry},
    extraAllFrom g tracked ps es = true →
    ∀ {i : Nat} {q : Nat × List Nat} {e : Entry}, ps[i]? = some q → es[i]? = some e →
      extraEntry g tracked q.2 e = true
  | [], _, _, i, q, e, hq, _ => by simp at hq
  | _ :: _, [], _, i, q, e, _, he => by simp at he
  | (l, rhs) :: ps, e0 :: es, h, i, q, e, hq, he => by
    simp only [extraAllFrom, Bool.and_eq_true] at h
    cases i with
    | zero =>
      simp at hq he
      subst hq; subst he
      exact h.1
    | succ i =>
      simp at hq he
      exact extraAllFrom_get h.2 hq he

theorem selectRow_mem (e : Entry) (kinds : List Kind) :
    selectRow e kinds ∈ e.result :: e.exceptions.map (·.2) := by
  unfold selectRow
  split
  · next row hrow =>
    exact List.mem_cons_of_mem _ (List.mem_map_of_mem (List.mem_of_find?_eq_some hrow))
  · exact List.mem_cons_self

/-! ### the relation -/

structure Track (g : G) (T : Tables) (tokOf : τ → Tok) (tracked : List Nat) (pv : PVal) (tr : Tree τ) : Prop where
  leaf : ∀ t, tr = .leaf t → pv = Model.Actions.leaf (tokOf t)
  first : ∀ p cs lhs rhs, tr = .node p cs → T.prods[p]? = some (lhs, rhs) → tracked.contains lhs = true →
    ∀ t rest, tr.yield = t :: rest → pv.lexpos = (tokOf t).lexpos ∧ pv.lineno = (tokOf t).lineno
  strsh : ∀ p cs lhs rhs, tr = .node p cs → T.prods[p]? = some (lhs, rhs) → g.strShaped.contains lhs = true →
    ∃ t, tr.yield = [t] ∧ pv.v = .str (tokOf t).value ∧
      pv.lexpos = (tokOf t).lexpos ∧ pv.lineno = (tokOf t).lineno
  node : ∀ k as, pv.v = .node k as → k ≠ "ES5Program" → tr.yield ≠ []

/-- tracking position of the result symbol -/
def pos0Of (args : List PVal) (lexerPos : Nat × Nat) : Nat × Nat :=
  match args with
  | a :: _ => (a.lexpos, a.lineno)
  | [] => lexerPos

def mkCtx (args : List PVal) (lexerPos : Nat × Nat) (lc : Nat → Nat → Option Int) (wc : Bool) : Ctx :=
  { slots := args, pos0 := pos0Of args lexerPos, lookupCol := lc, withComments := wc }

theorem reduce_ok {table : List Entry} {wc : Bool} {lc : Nat → Nat → Option Int} {p : Nat} {args : List PVal}
    {lp : Nat × Nat} {pv : PVal} (h : Model.Actions.reduce table wc lc p args lp = .ok pv) :
    ∃ e v, table[p]? = some e ∧
      evalD (mkCtx args lp lc wc) (selectRow e (args.map (fun a => kindOf a.v))) = .ok v ∧
      pv = { v := v, lexpos := (pos0Of args lp).1, lineno := (pos0Of args lp).2, tok := none } := by
  unfold Model.Actions.reduce at h
  split at h
  · simp at h
  · next e he =>
    simp only [] at h
    split at h
    · next v hv =>
      simp only [Except.ok.injEq] at h
      refine ⟨e, v, he, ?_, ?_⟩
      · rw [← hv]; rfl
      · rw [← h]; rfl
    · simp at h

section slots
variable {g : G} {T : Tables} {ty : τ → Nat} {tokOf : τ → Tok} {tracked : List Nat}

theorem slot?_succ {c : Ctx} {j : Nat} {pv : PVal} (h : c.slot? j = some pv) :
    j ≠ 0 ∧ c.slots[j - 1]? = some pv := by
  unfold Ctx.slot? at h
  split at h
  · simp at h
  · next hj => exact ⟨hj, h⟩

/-- facts about slot `k ≥ 1` of a valid instance of a production whose arguments are tracked -/
theorem slot_get {args : List PVal} {trees : List (Tree τ)}
    (hall : All2 (Track g T tokOf tracked) args trees) (hv : validList T ty trees)
    {i : Nat} {pv : PVal} (hpv : args[i]? = some pv) :
    ∃ tr, trees[i]? = some tr ∧ Track g T tokOf tracked pv tr ∧ tr.valid T ty ∧
      (symList T ty trees)[i]? = some (tr.sym T ty) := by
  obtain ⟨tr, htr, hrel⟩ := hall.get hpv
  refine ⟨tr, htr, hrel, validList_mem hv (List.mem_of_getElem? htr), ?_⟩
  rw [symList_eq_map]; simp [htr]

theorem slot_get_tree {args : List PVal} {trees : List (Tree τ)}
    (hall : All2 (Track g T tokOf tracked) args trees) (hv : validList T ty trees)
    {i : Nat} {x : Nat} (hx : (symList T ty trees)[i]? = some x) :
    ∃ pv tr, args[i]? = some pv ∧ trees[i]? = some tr ∧ Track g T tokOf tracked pv tr ∧ tr.valid T ty ∧
      tr.sym T ty = x := by
  rw [symList_eq_map, List.getElem?_map, Option.map_eq_some_iff] at hx
  obtain ⟨tr, htr, hsym⟩ := hx
  have hlt : i < args.length := by
    rw [hall.length_eq]; exact (List.getElem?_eq_some_iff.mp htr).1
  obtain ⟨pv, hpv⟩ : ∃ pv, args[i]? = some pv := ⟨args[i], List.getElem?_eq_getElem hlt⟩
  obtain ⟨tr', htr', hrel, hval, _⟩ := slot_get (ty := ty) hall hv hpv
  rw [htr] at htr'
  simp only [Option.some.injEq] at htr'
  subst htr'
  exact ⟨pv, tr, hpv, htr, hrel, hval, hsym⟩

variable (hgt : GT g T) (h0 : prod0OK g = true) (hty : ∀ t, ty t ≤ T.numTerminals)
include hgt h0 hty

/-- a slot holding a terminal or a string-shaped nonterminal holds the text of exactly one token, at its position -/
theorem slot_str {q : Nat × List Nat} (hq : q ∈ g.prods) {pv : PVal} {tr : Tree τ}
    (hrel : Track g T tokOf tracked pv tr) (hv : tr.valid T ty) (hmem : tr.sym T ty ∈ q.2)
    (hs : (g.isTerm (tr.sym T ty) || g.strShaped.contains (tr.sym T ty - g.nT)) = true) :
    ∃ t, tr.yield = [t] ∧ pv.v = .str (tokOf t).value ∧
      pv.lexpos = (tokOf t).lexpos ∧ pv.lineno = (tokOf t).lineno := by
  rcases child_cases hgt h0 hty hq hmem hv with ⟨t, rfl, _⟩ | ⟨p, cs, lhs, rfl, hp, _⟩
  · have := hrel.leaf t rfl
    subst this
    exact ⟨t, by simp [Tree.yield], rfl, rfl, rfl⟩
  · have hsym : (Tree.node (p + 1) cs).sym T ty = T.numTerminals + lhs := sym_node hp
    rw [hsym] at hs
    have hnt : g.isTerm (T.numTerminals + lhs) = false := by simp [G.isTerm, hgt.nT]
    simp only [hnt, hgt.nT, Nat.add_sub_cancel_left, Bool.false_or] at hs
    exact hrel.strsh _ _ _ _ rfl hp hs

/-- a slot holding a terminal or a tracked nonterminal has the position of the first token of its yield -/
theorem slot_first {q : Nat × List Nat} (hq : q ∈ g.prods) {pv : PVal} {tr : Tree τ}
    (hrel : Track g T tokOf tracked pv tr) (hv : tr.valid T ty) (hmem : tr.sym T ty ∈ q.2)
    (hs : symTracked g tracked (tr.sym T ty) = true) {t : τ} {rest : List τ} (hy : tr.yield = t :: rest) :
    pv.lexpos = (tokOf t).lexpos ∧ pv.lineno = (tokOf t).lineno := by
  rcases child_cases hgt h0 hty hq hmem hv with ⟨t', rfl, _⟩ | ⟨p, cs, lhs, rfl, hp, _⟩
  · have := hrel.leaf t' rfl
    subst this
    simp only [Tree.yield, List.cons.injEq] at hy
    rw [← hy.1]; exact ⟨rfl, rfl⟩
  · have hsym : (Tree.node (p + 1) cs).sym T ty = T.numTerminals + lhs := sym_node hp
    rw [hsym] at hs
    have hnt : g.isTerm (T.numTerminals + lhs) = false := by simp [G.isTerm, hgt.nT]
    simp only [symTracked, hnt, hgt.nT, Nat.add_sub_cancel_left, Bool.false_or] at hs
    exact hrel.first _ _ _ _ rfl hp hs t rest hy

end slots

/-! ### preservation by the semantic actions -/

section lifts
variable {g : G} {T : Tables} {ty : τ → Nat} {tokOf : τ → Tok} {tracked : List Nat} {table : List Entry}

theorem yieldList_head {c : Tree τ} {cs : List (Tree τ)} {t : τ} {rest : List τ}
    (h : yieldList (c :: cs) = t :: rest) (hc : c.yield ≠ [] ∨ cs = []) : ∃ r, c.yield = t :: r := by
  simp only [yieldList] at h
  rcases hc with hc | rfl
  · cases hcy : c.yield with
    | nil => exact absurd hcy hc
    | cons t' r =>
      rw [hcy] at h
      simp only [List.cons_append, List.cons.injEq] at h
      exact ⟨r, by rw [h.1]⟩
  · simp only [yieldList, List.append_nil] at h
    exact ⟨rest, h⟩

theorem strShaped_entry (hok : strShapedOK g table = true) (h0 : prod0OK g = true) {p lhs : Nat} {rhs : List Nat}
    (hp : g.prods[p]? = some (lhs, rhs)) (hs : g.strShaped.contains lhs = true) :
    ∃ x e, rhs = [x] ∧ g.isTerm x = true ∧ table[p]? = some e ∧ e.exceptions = [] ∧ e.result = .slot 1 := by
  unfold strShapedOK at hok
  have hmem : lhs ∈ g.strShaped := by simpa using hs
  have hn := List.all_eq_true.mp hok lhs hmem
  simp only [Bool.and_eq_true] at hn
  obtain ⟨hne, hall⟩ := hn
  have hp0 : p ≠ 0 := by
    intro hp0
    subst hp0
    have hl : lhs = 0 := by simpa using prod0_lhs h0 hp
    subst hl
    -- some other production would have left-hand side 0
    simp only [Bool.not_eq_true', List.isEmpty_eq_false_iff] at hne
    obtain ⟨i, hi⟩ := List.exists_mem_of_ne_nil _ hne
    simp only [List.mem_filter, Bool.and_eq_true, bne_iff_ne, ne_eq] at hi
    obtain ⟨_, hi0, hil⟩ := hi
    cases i with
    | zero => exact hi0 rfl
    | succ i =>
      split at hil
      · next l r heq =>
        have := prod_succ_lhs h0 heq
        simp at hil
        exact this hil
      · simp at hil
  have hpi : p ∈ (List.range g.prods.length).filter fun i =>
      i != 0 && (match g.prods[i]? with | some (l, _) => l == lhs | none => false) := by
    simp only [List.mem_filter, List.mem_range, Bool.and_eq_true, bne_iff_ne, ne_eq]
    refine ⟨(List.getElem?_eq_some_iff.mp hp).1, hp0, ?_⟩
    rw [hp]; simp
  have hx := List.all_eq_true.mp hall p hpi
  rw [hp] at hx
  split at hx
  · next l x e hq he =>
    simp only [Option.some.injEq, Prod.mk.injEq] at hq
    simp only [Bool.and_eq_true, List.isEmpty_iff] at hx
    refine ⟨x, e, hq.2, hx.1.1, he, hx.1.2, ?_⟩
    have h3 := hx.2
    split at h3
    · next hres => exact hres
    · simp at h3
  · simp at hx

/-- **tracking is preserved by every semantic action** of a table that passes the checks -/
theorem track_reduce (hgt : GT g T) (hty : ∀ t, ty t ≤ T.numTerminals)
    (hok : actionsOK g table = true) (hx : extraOK g tracked table = true)
    {wc : Bool} {lc : Nat → Nat → Option Int} {p : Nat} {args : List PVal} {lp : Nat × Nat} {pv : PVal}
    {trees : List (Tree τ)} {lhs : Nat}
    (hr : Model.Actions.reduce table wc lc p args lp = .ok pv)
    (hall : All2 (Track g T tokOf tracked) args trees)
    (hp : T.prods[p]? = some (lhs, symList T ty trees)) (hv : validList T ty trees) :
    Track g T tokOf tracked pv (.node p trees) := by
  simp only [actionsOK, Bool.and_eq_true] at hok
  obtain ⟨⟨hnn, hstr⟩, hchk⟩ := hok
  simp only [extraOK, Bool.and_eq_true] at hx
  obtain ⟨⟨h0, htr⟩, hxall⟩ := hx
  obtain ⟨e, v, he, hev, rfl⟩ := reduce_ok hr
  have hgp : g.prods[p]? = some (lhs, symList T ty trees) := by rw [hgt.prods]; exact hp
  have hq : (lhs, symList T ty trees) ∈ g.prods := List.mem_of_getElem? hgp
  obtain ⟨hce, hnps⟩ := checkAllFrom_get hchk hgp he
  have hxe := extraAllFrom_get hxall hgp he
  simp only [] at hce hnps hxe
  constructor
  · intro t ht; simp at ht
  · -- first
    intro p' cs l r heq hp' htl t rest hy
    simp only [Tree.node.injEq] at heq
    obtain ⟨rfl, rfl⟩ := heq
    rw [hp] at hp'
    simp only [Option.some.injEq, Prod.mk.injEq] at hp'
    obtain ⟨rfl, rfl⟩ := hp'
    simp only [Tree.yield] at hy
    have hclos := List.all_eq_true.mp htr _ hq
    simp only [htl, Bool.not_true, Bool.false_or] at hclos
    cases hall with
    | nil => simp [yieldList] at hy
    | @cons a c as' cs' hac hrest =>
      simp only [symList, Bool.and_eq_true, Bool.or_eq_true] at hclos
      simp only [validList] at hv
      have hmem : c.sym T ty ∈ (lhs, symList T ty (c :: cs')).2 := by simp [symList]
      have hcy : c.yield ≠ [] ∨ cs' = [] := by
        rcases hclos.2 with hs | hs
        · exact Or.inl (solid_yield_ne hgt h0 hnn hty c hv.1 ⟨_, hq, hmem⟩ hs)
        · right
          have : symList T ty cs' = [] := by simpa using hs
          rw [symList_eq_map] at this
          simpa using this
      obtain ⟨r, hr'⟩ := yieldList_head hy hcy
      have := slot_first hgt h0 hty hq hac hv.1 hmem hclos.1 hr'
      simpa [pos0Of] using this
  · -- strsh
    intro p' cs l r heq hp' hs
    simp only [Tree.node.injEq] at heq
    obtain ⟨rfl, rfl⟩ := heq
    rw [hp] at hp'
    simp only [Option.some.injEq, Prod.mk.injEq] at hp'
    obtain ⟨rfl, rfl⟩ := hp'
    obtain ⟨x, e', hrhs, hterm, he', hexc, hres⟩ := strShaped_entry hstr h0 hgp hs
    rw [he] at he'
    simp only [Option.some.injEq] at he'
    subst he'
    have hsel : selectRow e (args.map (fun a => kindOf a.v)) = .slot 1 := by
      simp [selectRow, hexc, hres]
    rw [hsel] at hev
    obtain ⟨pv1, hpv1, rfl⟩ := evalD_slot_ok hev
    obtain ⟨_, hpv1'⟩ := slot?_succ hpv1
    simp only [mkCtx, Nat.sub_self] at hpv1'
    cases hall with
    | nil => simp at hpv1'
    | @cons a c as' cs' hac hrest =>
      simp only [List.getElem?_cons_zero, Option.some.injEq] at hpv1'
      subst hpv1'
      simp only [symList, List.cons.injEq] at hrhs
      have hcs' : cs' = [] := by
        have := hrhs.2
        rw [symList_eq_map] at this
        simpa using this
      subst hcs'
      simp only [validList] at hv
      have hmem : c.sym T ty ∈ (lhs, symList T ty [c]).2 := by simp [symList]
      obtain ⟨t, hyt, hvt, hlp, hln⟩ := slot_str hgt h0 hty hq hac hv.1 hmem (by rw [hrhs.1, hterm]; rfl)
      exact ⟨t, by simp [Tree.yield, yieldList, hyt], hvt, by simpa [pos0Of] using hlp,
        by simpa [pos0Of] using hln⟩
  · -- node
    intro k as hk hkne
    simp only [] at hk
    simp only [Tree.yield]
    have hsel := selectRow_mem e (args.map (fun a => kindOf a.v))
    generalize hd : selectRow e (args.map (fun a => kindOf a.v)) = d at hev hsel
    simp only [extraEntry, Bool.and_eq_true] at hxe
    have hshape := (List.all_eq_true.mp hxe.1 d hsel)
    simp only [Bool.and_eq_true] at hshape
    cases d with
    | slot j =>
      obtain ⟨pv1, hpv1, rfl⟩ := evalD_slot_ok hev
      obtain ⟨_, hpv1'⟩ := slot?_succ hpv1
      simp only [mkCtx] at hpv1'
      obtain ⟨tr, htr, hrel, _, _⟩ := slot_get (ty := ty) hall hv hpv1'
      exact yieldList_ne_of_mem (List.mem_of_getElem? htr) (hrel.node k as hk hkne)
    | none => rw [evalD] at hev; simp only [Except.ok.injEq] at hev; rw [← hev] at hk; simp at hk
    | str s => rw [evalD] at hev; simp only [Except.ok.injEq] at hev; rw [← hev] at hk; simp at hk
    | int n => rw [evalD] at hev; simp only [Except.ok.injEq] at hev; rw [← hev] at hk; simp at hk
    | attrOf j name => simp [topShapeOK] at hshape
    | raiseAt msg j => exact absurd hev evalD_raiseAt_ne
    | list items =>
      obtain ⟨xs, _, rfl⟩ := evalD_list_ok hev
      simp at hk
    | node kind attrs pos ts tm tmo =>
      obtain ⟨as', p', tmv, _, _, _, rfl⟩ := evalD_node_ok hev
      simp only [Val.node.injEq] at hk
      have hkk : kind = k := hk.1
      subst hkk
      have hsolid := List.all_eq_true.mp hnps _ hsel
      simp only [topNodeKind, Bool.or_eq_true, beq_iff_eq, List.any_eq_true] at hsolid
      rcases hsolid with hk' | ⟨x, hx, hxs⟩
      · exact absurd hk' hkne
      · rw [symList_eq_map, List.mem_map] at hx
        obtain ⟨c, hc, rfl⟩ := hx
        exact yieldList_ne_of_mem hc
          (solid_yield_ne hgt h0 hnn hty c (validList_mem hv hc) ⟨_, hq, symList_mem hc⟩ hxs)

theorem track_leaf (t : τ) : Track g T tokOf tracked (Model.Actions.leaf (tokOf t)) (.leaf t) := by
  constructor
  · intro t' ht; simp only [Tree.leaf.injEq] at ht; rw [ht]
  · intro p cs l r h; simp at h
  · intro p cs l r h; simp at h
  · intro k as h; simp [Model.Actions.leaf] at h

end lifts

end CalmVerif.Proofs.NodePos
