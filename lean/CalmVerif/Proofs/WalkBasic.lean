/- Helper lemmas for C16: filter/extract versus walk (hold for every table and every tree). -/
import CalmVerif.Model.Walk
namespace CalmVerif.Proofs.Walk
open CalmVerif CalmVerif.Gen.Children CalmVerif.Model.Walk

def mapOk (f : Out → Out) : Except Err Out → Except Err Out
  | .error e => .error e
  | .ok l => .ok (f l)

theorem filterKids_eq (cond : Val → Bool) (rf rw : Path → Val → Except Err Out)
    (h : ∀ p c, rf p c = mapOk (fun l => l.filter (fun e => cond e.2)) (rw p c)) (p : Path) :
    ∀ cs, filterKids cond rf p cs = mapOk (fun l => l.filter (fun e => cond e.2)) (walkKids rw p cs) := by
  intro cs
  induction cs with
  | nil => simp [filterKids, walkKids, mapOk]
  | cons sc rest ih =>
    obtain ⟨s, c⟩ := sc
    simp only [filterKids, walkKids, h, ih]
    cases h1 : rw (s :: p) c with
    | error e => simp [mapOk]
    | ok sub =>
      cases h2 : walkKids rw p rest with
      | error e => simp [mapOk]
      | ok r =>
        simp only [mapOk]
        by_cases hc : cond c = true <;> simp [hc]

theorem filterF_eq (tbl : Table) (cond : Val → Bool) :
    ∀ n p v, filterF tbl cond n p v = mapOk (fun l => l.filter (fun e => cond e.2)) (walkF tbl n p v) := by
  intro n
  induction n with
  | zero => intro p v; simp [filterF, walkF, mapOk]
  | succ n ih =>
    intro p v
    simp only [filterF, walkF]
    cases iterNode tbl v with
    | error e => simp [mapOk]
    | ok cs => exact filterKids_eq cond _ _ ih p cs

theorem extractLoop_nat : ∀ (ms : Out) (n : Nat), extractLoop ms (n : Int) = ms[n]? := by
  intro ms
  induction ms with
  | nil => intro n; simp [extractLoop]
  | cons x xs ih =>
    intro n
    cases n with
    | zero => simp [extractLoop]
    | succ n =>
      have h1 : ((n + 1 : Nat) : Int) - 1 = (n : Int) := by omega
      have h0 : (((n + 1 : Nat) : Int) == 0) = false := by
        simp; omega
      rw [extractLoop, h0, h1, ih]
      simp

theorem extractLoop_neg : ∀ (ms : Out) (k : Int), k < 0 → extractLoop ms k = none := by
  intro ms
  induction ms with
  | nil => intro k _; simp [extractLoop]
  | cons x xs ih =>
    intro k hk
    have h0 : (k == 0) = false := by simp; omega
    simp only [extractLoop, h0]
    exact ih (k - 1) (by omega)

end CalmVerif.Proofs.Walk
