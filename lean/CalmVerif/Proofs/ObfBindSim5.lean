/-
Part 5 of the renaming simulation: the induction over the tree and the program-level statement.
-/
import CalmVerif.Proofs.ObfBindSim4
namespace CalmVerif.Obf
open CalmVerif CalmVerif.Unparse
open CalmVerif.Spec.Scope (BKind Binder Layer Ctx Occ Role identName isFunctionKind isVarDeclKind
  lookupEnv lookupLabel roleOf enter isPresent hoistVal hoistList hoistAttrs paramNames declOccs
  resolveVal resolveList resolveAttrs)

local notation "sLookup" => Spec.Scope.lookupAttr

theorem isPresent_rename (ρ : Rho) (path : Path) (a : String) (hm : Val.isMeta a = false) (o : Option Val) :
    isPresent (o.map (renAttrVal ρ path a)) = isPresent o := by
  cases o with
  | none => rfl
  | some v =>
    cases v with
    | none => simp [renAttrVal, hm, renameBy, isPresent]
    | bool b => simp [renAttrVal, hm, renameBy, isPresent]
    | int n => simp [renAttrVal, hm, renameBy, isPresent]
    | str t => simp [renAttrVal, hm, renameBy, isPresent]
    | list xs => simp [renAttrVal, hm, isPresent]
    | node k as =>
      obtain ⟨as', he, _⟩ := renameBy_node ρ ((a, 0) :: path) k as
      simp [renAttrVal, hm, he, isPresent]

theorem notList_renameBy (ρ : Rho) (path : Path) (v : Val) (hv : NotList v) : NotList (renameBy ρ path v) := by
  intro xs hx
  cases v with
  | list ys => exact hv ys rfl
  | none => simp [renameBy] at hx
  | bool b => simp [renameBy] at hx
  | int n => simp [renameBy] at hx
  | str t => simp [renameBy] at hx
  | node k as =>
    obtain ⟨as', he, _⟩ := renameBy_node ρ path k as
    rw [he] at hx; cases hx

/-- the step for an attribute holding a list, given the induction hypotheses -/
theorem attrs_step_list (τ : Tau) (ρ : Rho) (outer inner : Ctx) (p : SPath) (kind : String) (hasInit forIn : Bool)
    (a : String) (xs : List Val) (rest : List (String × Val))
    (h : condAttrs τ ρ outer inner p kind hasInit forIn ((a, .list xs) :: rest) = true)
    (ihList : ∀ ctx, condList τ ρ ctx p a 0 xs = true →
      resolveList (mapCtx τ ctx) p a 0 (renameListBy ρ p.reverse a 0 xs) = (resolveList ctx p a 0 xs).map (mapOcc τ ρ))
    (ihRest : condAttrs τ ρ outer inner p kind hasInit forIn rest = true →
      resolveAttrs (mapCtx τ outer) (mapCtx τ inner) p kind hasInit forIn (renameAttrsBy ρ p.reverse rest)
        = (resolveAttrs outer inner p kind hasInit forIn rest).map (mapOcc τ ρ)) :
    resolveAttrs (mapCtx τ outer) (mapCtx τ inner) p kind hasInit forIn (renameAttrsBy ρ p.reverse ((a, .list xs) :: rest))
      = (resolveAttrs outer inner p kind hasInit forIn ((a, .list xs) :: rest)).map (mapOcc τ ρ) := by
  rw [renameAttrsBy_cons]
  rw [condAttrs_cons_list, Bool.and_eq_true] at h
  by_cases hm : Val.isMeta a = true
  · rw [renAttrVal_meta _ _ _ _ hm]
    rw [resolveAttrs_cons_list, resolveAttrs_cons_list, roleOf_meta _ _ _ _ hm, List.map_append, ihRest h.2]
    rfl
  · have hm' : Val.isMeta a = false := by simpa using hm
    have hv : renAttrVal ρ p.reverse a (.list xs) = .list (renameListBy ρ p.reverse a 0 xs) :=
      renAttrVal_list _ _ _ _ hm'
    rw [hv, resolveAttrs_cons_list, resolveAttrs_cons_list, List.map_append, ihRest h.2, ← hv]
    congr 1
    exact roleOut_rename τ ρ outer p a hm' (.list xs) _ _ _ _ _ _ _ _ _ _ h.1
      (fun hc => ihList outer hc) (fun hc => ihList inner hc) (fun hc => ihList outer hc)

/-- the step for an attribute holding anything but a list -/
theorem attrs_step_nonlist (τ : Tau) (ρ : Rho) (outer inner : Ctx) (p : SPath) (kind : String) (hasInit forIn : Bool)
    (a : String) (v : Val) (hnl : NotList v) (rest : List (String × Val))
    (h : condAttrs τ ρ outer inner p kind hasInit forIn ((a, v) :: rest) = true)
    (ihVal : ∀ ctx, condVal τ ρ ctx (p ++ [(a, 0)]) v = true →
      resolveVal (mapCtx τ ctx) (p ++ [(a, 0)]) (renameBy ρ (p ++ [(a, 0)]).reverse v)
        = (resolveVal ctx (p ++ [(a, 0)]) v).map (mapOcc τ ρ))
    (ihRest : condAttrs τ ρ outer inner p kind hasInit forIn rest = true →
      resolveAttrs (mapCtx τ outer) (mapCtx τ inner) p kind hasInit forIn (renameAttrsBy ρ p.reverse rest)
        = (resolveAttrs outer inner p kind hasInit forIn rest).map (mapOcc τ ρ)) :
    resolveAttrs (mapCtx τ outer) (mapCtx τ inner) p kind hasInit forIn (renameAttrsBy ρ p.reverse ((a, v) :: rest))
      = (resolveAttrs outer inner p kind hasInit forIn ((a, v) :: rest)).map (mapOcc τ ρ) := by
  rw [renameAttrsBy_cons]
  rw [condAttrs_cons_nonlist _ _ _ _ _ _ _ _ _ _ hnl, Bool.and_eq_true] at h
  by_cases hm : Val.isMeta a = true
  · rw [renAttrVal_meta _ _ _ _ hm]
    rw [resolveAttrs_cons_nonlist _ _ _ _ _ _ _ _ hnl, resolveAttrs_cons_nonlist _ _ _ _ _ _ _ _ hnl,
      roleOf_meta _ _ _ _ hm, List.map_append, ihRest h.2]
    rfl
  · have hm' : Val.isMeta a = false := by simpa using hm
    have hv : renAttrVal ρ p.reverse a v = renameBy ρ ((a, 0) :: p.reverse) v :=
      renAttrVal_nonlist _ _ _ _ hm' hnl
    have hnl' : NotList (renameBy ρ ((a, 0) :: p.reverse) v) := notList_renameBy _ _ _ hnl
    have hp : (a, 0) :: p.reverse = (p ++ [(a, 0)]).reverse := by simp
    rw [hv, resolveAttrs_cons_nonlist _ _ _ _ _ _ _ _ hnl', resolveAttrs_cons_nonlist _ _ _ _ _ _ _ _ hnl,
      List.map_append, ihRest h.2, ← hv]
    congr 1
    have hfor : ({ mapCtx τ outer with forInItem := true } : Ctx) = mapCtx τ { outer with forInItem := true } := rfl
    rw [hv, hfor, ← hv]
    refine roleOut_rename τ ρ outer p a hm' v _ _ _ _ _ _ _ _ _ _ h.1 ?_ ?_ ?_
    · intro hc; rw [hv, hp]; exact ihVal _ hc
    · intro hc; rw [hv, hp]; exact ihVal inner hc
    · intro hc; rw [hv, hp]; exact ihVal outer hc

mutual
  theorem resolveVal_rename (τ : Tau) (ρ : Rho) : ∀ (ctx : Ctx) (p : SPath) (v : Val),
      condVal τ ρ ctx p v = true →
      resolveVal (mapCtx τ ctx) p (renameBy ρ p.reverse v) = (resolveVal ctx p v).map (mapOcc τ ρ)
    | _, _, .none, _ => rfl
    | _, _, .bool _, _ => rfl
    | _, _, .int _, _ => rfl
    | _, _, .str _, _ => rfl
    | ctx, p, .list xs, h => by
      simp only [condVal] at h
      simp only [renameBy, resolveVal]
      exact resolveList_rename τ ρ ctx p "" 0 xs h
    | ctx, p, .node k as, h => by
      simp only [condVal] at h
      by_cases hid : (k == "Identifier") = true
      · simp only [hid, if_true] at h
        obtain ⟨as', he, _⟩ := renameBy_node ρ p.reverse k as
        have hin := identName_renameBy ρ p.reverse (.node k as)
        rw [he] at hin ⊢
        simp only [resolveVal, hid, if_true, hin]
        cases hn : identName (.node k as) with
        | none => rfl
        | some n =>
          simp only [hn] at h
          have h3 : lookupEnv (mapEnv τ ctx.env) (ρ p.reverse n) = mapBinder τ (lookupEnv ctx.env n) := by
            simpa [refCond] using h
          simp [mapOcc, mapCtx, h3]
      · simp only [hid, Bool.false_eq_true, if_false, Bool.and_eq_true] at h
        obtain ⟨h1, h2⟩ := h
        have e : renameBy ρ p.reverse (.node k as) = .node k (renameAttrsBy ρ p.reverse as) := by
          simp [renameBy, hid]
        rw [e]
        simp only [resolveVal, hid, Bool.false_eq_true, if_false]
        have hctx0 : ({ mapCtx τ ctx with forInItem := false } : Ctx) = mapCtx τ { ctx with forInItem := false } := rfl
        rw [hctx0, enter_rename τ ρ _ p k as h1, lookup_renameAttrsBy,
          isPresent_rename ρ p.reverse "initializer" (by decide)]
        have hfi : (mapCtx τ ctx).forInItem = ctx.forInItem := rfl
        rw [hfi]
        exact resolveAttrs_rename τ ρ _ _ p k _ _ as h2
  theorem resolveList_rename (τ : Tau) (ρ : Rho) : ∀ (ctx : Ctx) (p : SPath) (a : String) (i : Nat) (xs : List Val),
      condList τ ρ ctx p a i xs = true →
      resolveList (mapCtx τ ctx) p a i (renameListBy ρ p.reverse a i xs)
        = (resolveList ctx p a i xs).map (mapOcc τ ρ)
    | _, _, _, _, [], _ => rfl
    | ctx, p, a, i, v :: rest, h => by
      simp only [condList, Bool.and_eq_true] at h
      simp only [renameListBy, resolveList, List.map_append]
      have hp : (a, i) :: p.reverse = (p ++ [(a, i)]).reverse := by simp
      rw [hp, resolveVal_rename τ ρ ctx (p ++ [(a, i)]) v h.1, resolveList_rename τ ρ ctx p a (i + 1) rest h.2]
  theorem resolveAttrs_rename (τ : Tau) (ρ : Rho) : ∀ (outer inner : Ctx) (p : SPath) (kind : String)
      (hasInit forIn : Bool) (as : List (String × Val)),
      condAttrs τ ρ outer inner p kind hasInit forIn as = true →
      resolveAttrs (mapCtx τ outer) (mapCtx τ inner) p kind hasInit forIn (renameAttrsBy ρ p.reverse as)
        = (resolveAttrs outer inner p kind hasInit forIn as).map (mapOcc τ ρ)
    | _, _, _, _, _, _, [], _ => rfl
    | outer, inner, p, kind, hasInit, forIn, (a, .list xs) :: rest, h =>
      attrs_step_list τ ρ outer inner p kind hasInit forIn a xs rest h
        (fun ctx hc => resolveList_rename τ ρ ctx p a 0 xs hc)
        (fun hc => resolveAttrs_rename τ ρ outer inner p kind hasInit forIn rest hc)
    | outer, inner, p, kind, hasInit, forIn, (a, .none) :: rest, h =>
      attrs_step_nonlist τ ρ outer inner p kind hasInit forIn a .none (fun _ hx => by cases hx) rest h
        (fun ctx hc => resolveVal_rename τ ρ ctx _ .none hc)
        (fun hc => resolveAttrs_rename τ ρ outer inner p kind hasInit forIn rest hc)
    | outer, inner, p, kind, hasInit, forIn, (a, .bool b) :: rest, h =>
      attrs_step_nonlist τ ρ outer inner p kind hasInit forIn a (.bool b) (fun _ hx => by cases hx) rest h
        (fun ctx hc => resolveVal_rename τ ρ ctx _ (.bool b) hc)
        (fun hc => resolveAttrs_rename τ ρ outer inner p kind hasInit forIn rest hc)
    | outer, inner, p, kind, hasInit, forIn, (a, .int n) :: rest, h =>
      attrs_step_nonlist τ ρ outer inner p kind hasInit forIn a (.int n) (fun _ hx => by cases hx) rest h
        (fun ctx hc => resolveVal_rename τ ρ ctx _ (.int n) hc)
        (fun hc => resolveAttrs_rename τ ρ outer inner p kind hasInit forIn rest hc)
    | outer, inner, p, kind, hasInit, forIn, (a, .str t) :: rest, h =>
      attrs_step_nonlist τ ρ outer inner p kind hasInit forIn a (.str t) (fun _ hx => by cases hx) rest h
        (fun ctx hc => resolveVal_rename τ ρ ctx _ (.str t) hc)
        (fun hc => resolveAttrs_rename τ ρ outer inner p kind hasInit forIn rest hc)
    | outer, inner, p, kind, hasInit, forIn, (a, .node k2 as2) :: rest, h =>
      attrs_step_nonlist τ ρ outer inner p kind hasInit forIn a (.node k2 as2) (fun _ hx => by cases hx) rest h
        (fun ctx hc => resolveVal_rename τ ρ ctx _ (.node k2 as2) hc)
        (fun hc => resolveAttrs_rename τ ρ outer inner p kind hasInit forIn rest hc)
end

/-- **the renaming simulation**: under `condProgram`, ES5 binding resolution of the renamed program is the image of
the resolution of the original: same occurrences, every binder keeps kind and scope, its name is renamed by the
environment record's `τ`. -/
theorem resolveProgram_rename (τ : Tau) (ρ : Rho) (program : Val) (h : condProgram τ ρ program = true) :
    Spec.Scope.resolveProgram (renameBy ρ [] program) = (Spec.Scope.resolveProgram program).map (mapOcc τ ρ) := by
  simp only [condProgram, Bool.and_eq_true] at h
  unfold Spec.Scope.resolveProgram
  have hg : Spec.Scope.globalCtx (renameBy ρ [] program) = mapCtx τ (Spec.Scope.globalCtx program) := by
    simp only [Spec.Scope.globalCtx, mapCtx, mapEnv, mapLayer, mapLabels, List.map_cons, List.map_nil]
    rw [hoist_rename τ ρ .global [] [] program h.1]
  rw [hg]
  exact resolveVal_rename τ ρ _ [] program h.2

end CalmVerif.Obf
