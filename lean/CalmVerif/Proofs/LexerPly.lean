/-
Helper lemmas for C06 about Model.PlyLex: what one call of ply's `token()` returns.
-/
import CalmVerif.Model.PlyLex
import CalmVerif.Spec.LexSeg
import CalmVerif.Proofs.LexerRegex

namespace CalmVerif.Proofs.LexerPly
open CalmVerif.Model.TokenRegex CalmVerif.Model.PlyLex CalmVerif.Proofs.LexerRegex CalmVerif.Spec.LexSeg

theorem ruleMatcher_bounded (name : String) (m : List Char → Option Nat) (h : ruleMatcher name = some m) :
    Bounded m := by
  unfold ruleMatcher at h
  repeat' split at h
  all_goals first
    | (simp at h; subst h)
    | skip
  · exact stringLen_bounded
  · exact propLen_bounded _ (by decide)
  · exact propLen_bounded _ (by decide)
  · exact idLen_bounded
  · exact numberLen_bounded
  · exact ltSeqLen_bounded
  · exact blockCommentLen_bounded
  · exact lineCommentLen_bounded
  · exact regexLen_bounded
  · exact matchLit_bounded _
  · simp at h

/-- the rule `r` matched `n` characters and every rule before it in the list failed -/
def FirstMatch (rules : List String) (rest : List Char) (r : String) (n : Nat) : Prop :=
  ∃ pre post m, rules = pre ++ r :: post ∧ ruleMatcher r = some m ∧ m rest = some n ∧
    ∀ r' ∈ pre, ∃ m', ruleMatcher r' = some m' ∧ m' rest = none

theorem firstMatch_matched (rules : List String) (rest : List Char) (r : String) (n : Nat)
    (h : firstMatch rules rest = .matched r n) : FirstMatch rules rest r n := by
  induction rules with
  | nil => simp [firstMatch] at h
  | cons x xs ih =>
    simp only [firstMatch] at h
    split at h
    · simp at h
    · rename_i m hm
      split at h
      · rename_i k hk
        simp at h
        obtain ⟨rfl, rfl⟩ := h
        exact ⟨[], xs, m, by simp, hm, hk, by simp⟩
      · rename_i hk
        obtain ⟨pre, post, m', hr, hm', hn, hpre⟩ := ih h
        refine ⟨x :: pre, post, m', by simp [hr], hm', hn, ?_⟩
        intro r' hr'
        simp at hr'
        rcases hr' with rfl | hr'
        · exact ⟨m, hm, hk⟩
        · exact hpre r' hr'

theorem firstMatch_bounds (rules : List String) (rest : List Char) (r : String) (n : Nat)
    (h : firstMatch rules rest = .matched r n) : 0 < n ∧ n ≤ rest.length := by
  obtain ⟨_, _, m, _, hm, hn, _⟩ := firstMatch_matched rules rest r n h
  exact ruleMatcher_bounded r m hm rest n hn

/-! ### spanLen -/

theorem spanLen_take_all (p : Char → Bool) (l : List Char) : ∀ c ∈ l.take (spanLen p l), p c = true := by
  induction l with
  | nil => simp [spanLen]
  | cons x xs ih =>
    simp only [spanLen]
    split
    · rename_i hx
      intro c hc
      simp at hc
      rcases hc with rfl | hc
      · exact hx
      · exact ih c hc
    · simp

theorem spanLen_drop_head (p : Char → Bool) (l : List Char) (c : Char) (cs : List Char)
    (h : l.drop (spanLen p l) = c :: cs) : p c = false := by
  induction l with
  | nil => simp [spanLen] at h
  | cons x xs ih =>
    simp only [spanLen] at h
    split at h
    · simp at h; exact ih h
    · rename_i hx
      simp at h
      obtain ⟨rfl, _⟩ := h
      simpa using hx

/-! ### slices -/

theorem slice_self (text : List Char) (a : Nat) : slice text a a = [] := by simp [slice]

theorem slice_eq_take_drop (text : List Char) (a k : Nat) : slice text a (a + k) = (text.drop a).take k := by
  simp [slice]

theorem slice_append (text : List Char) (a b c : Nat) (hab : a ≤ b) (hbc : b ≤ c) :
    slice text a c = slice text a b ++ slice text b c := by
  unfold slice
  obtain ⟨k, rfl⟩ := Nat.exists_eq_add_of_le hab
  obtain ⟨j, rfl⟩ := Nat.exists_eq_add_of_le hbc
  have h1 : a + k + j - a = k + j := by omega
  have h2 : a + k - a = k := by omega
  have h3 : a + k + j - (a + k) = j := by omega
  rw [h1, h2, h3, List.take_add, List.drop_drop]

theorem slice_to_end (text : List Char) (a : Nat) : slice text a text.length = text.drop a := by
  unfold slice
  rw [List.take_of_length_le]
  simp

/-! ### one ply token -/

/-- all characters of the stretch are ignored characters of the state -/
def AllIgnored (s : LexerState) (l : List Char) : Prop := ∀ c ∈ l, isIgnored s c = true

theorem plyToken_tok (s : LexerState) (text : List Char) (pos : Nat) (ty : String) (start n : Nat) {ap : Bool}
    (h : plyToken s text pos ap = .tok ty start n) :
    pos ≤ start ∧ AllIgnored s (slice text pos start) ∧ 0 < n ∧ start + n ≤ text.length ∧
    ∃ r, FirstMatch (rulesOf s) (text.drop start) r n ∧ ty = ruleFn ap r ((text.drop start).take n) := by
  unfold plyToken at h
  simp only at h
  split at h
  · simp at h
  · rename_i c cs hd
    split at h
    · rename_i r k hf
      simp at h
      obtain ⟨rfl, rfl, rfl⟩ := h
      have hdd : text.drop (pos + spanLen (isIgnored s) (text.drop pos)) = c :: cs := by
        rw [← List.drop_drop]; exact hd
      have hb := firstMatch_bounds _ _ _ _ hf
      have hlen : (text.drop (pos + spanLen (isIgnored s) (text.drop pos))).length = (c :: cs).length := by rw [hdd]
      simp at hlen
      refine ⟨by omega, ?_, hb.1, ?_, r, ?_, ?_⟩
      · rw [slice_eq_take_drop]
        exact spanLen_take_all _ _
      · simp at hb; omega
      · rw [hdd]; exact firstMatch_matched _ _ _ _ hf
      · rw [hdd]
    · simp at h
    · simp at h

theorem plyToken_eof (s : LexerState) (text : List Char) (pos p : Nat) {ap : Bool}
    (h : plyToken s text pos ap = .eof p) : AllIgnored s (text.drop pos) ∧ pos < p := by
  unfold plyToken at h
  simp only at h
  split at h
  · rename_i hd
    simp at h
    refine ⟨?_, by omega⟩
    have hall := spanLen_take_all (isIgnored s) (text.drop pos)
    have : (text.drop pos).take (spanLen (isIgnored s) (text.drop pos)) = text.drop pos := by
      have := List.take_append_drop (spanLen (isIgnored s) (text.drop pos)) (text.drop pos)
      rw [hd] at this
      simpa using this
    rw [this] at hall
    exact hall
  · split at h <;> simp at h

end CalmVerif.Proofs.LexerPly
