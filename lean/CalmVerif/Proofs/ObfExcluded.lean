/-
The three recorded deviation classes of the obfuscator's scoping (known findings KF-07a/b/c) as decidable
predicates on the program tree (and `kfE`, the class of the repaired `arguments` defect, kept for regression tests) (definitions only, no Mathlib; the driver evaluates them).

  kfA   a `var` / `for (var …)` / function declaration of the catch parameter's name inside the block of that catch
        clause (not inside a nested function): the obfuscator takes it for the catch parameter, ES5 hoists it to the function
  kfB   the own name `g` of a function expression whose enclosing function (or — with obfuscate_globals — the program) does not
        declare `g`, while an Identifier spelled `g` occurs in the enclosing function's code outside the function expressions
        named `g`: the obfuscator declares `g` in the ENCLOSING scope and renames those occurrences with it
  kfC   a `break L` / `continue L` whose label `L` is defined under a different number of enclosing catch clauses with parameter
        `L` than the jump: labels are renamed like variable references, so only one of the two is renamed
  kfE   (repaired in /repo f665fbf, NOT part of `excluded`)  some function uses its implicit `arguments` object (ES5 §10.6: an Identifier `arguments` in a function that does not
        declare that name) while the program declares a variable / parameter / function / catch parameter / function-expression
        name spelled `arguments` that the obfuscator renames (inside a function or catch clause, or — with obfuscate_globals — at
        top level): `Scope.resolve` goes by name through the parent chain and knows nothing of the implicit binding, so an inner
        `arguments` is renamed with an outer declaration
-/
import CalmVerif.Proofs.ObfRename
namespace CalmVerif.Obf
open CalmVerif CalmVerif.Unparse
open CalmVerif.Spec.Scope (identName isFunctionKind isVarDeclKind hoistVal paramNames)

def identAttrOf (as : List (String × Val)) : Option String :=
  (Spec.Scope.lookupAttr as "identifier").bind identName

/-! ### KF-07a -/

mutual
  /-- a declaration of `c` in this code, nested functions not entered -/
  def declaresIn (c : String) : Val → Bool
    | .node k as =>
      if (isVarDeclKind k || k == "FuncDecl") && identAttrOf as == some c then true
      else if isFunctionKind k then false
      else declaresInAttrs c as
    | .list xs => declaresInList c xs
    | _ => false
  def declaresInList (c : String) : List Val → Bool
    | [] => false
    | v :: vs => declaresIn c v || declaresInList c vs
  def declaresInAttrs (c : String) : List (String × Val) → Bool
    | [] => false
    | (a, v) :: rest => (!Val.isMeta a && declaresIn c v) || declaresInAttrs c rest
end

mutual
  def kfA : Val → Bool
    | .node k as =>
      (k == "Catch" && (match identAttrOf as, Spec.Scope.lookupAttr as "elements" with
        | some c, some body => declaresIn c body
        | _, _ => false)) || kfAAttrs as
    | .list xs => kfAList xs
    | _ => false
  def kfAList : List Val → Bool
    | [] => false
    | v :: vs => kfA v || kfAList vs
  def kfAAttrs : List (String × Val) → Bool
    | [] => false
    | (a, v) :: rest => (!Val.isMeta a && kfA v) || kfAAttrs rest
end

/-! ### KF-07b -/

mutual
  /-- number of Identifier nodes spelled `g` in the subtree -/
  def countIdent (g : String) : Val → Nat
    | .node k as => (if identName (.node k as) == some g then 1 else 0) + countIdentAttrs g as
    | .list xs => countIdentList g xs
    | _ => 0
  def countIdentList (g : String) : List Val → Nat
    | [] => 0
    | v :: vs => countIdent g v + countIdentList g vs
  def countIdentAttrs (g : String) : List (String × Val) → Nat
    | [] => 0
    | (a, v) :: rest => (if Val.isMeta a then 0 else countIdent g v) + countIdentAttrs g rest
end

mutual
  /-- the named function expressions whose nearest enclosing function is the code given: (name, identifiers spelled like
  the name inside the function expression) -/
  def namedFuncExprs : Val → List (String × Nat)
    | .node k as =>
      if k == "FuncExpr" then
        match identAttrOf as with
        | some g => [(g, countIdent g (.node k as))]
        | none => []
      else if isFunctionKind k then []
      else namedFuncExprsAttrs as
    | .list xs => namedFuncExprsList xs
    | _ => []
  def namedFuncExprsList : List Val → List (String × Nat)
    | [] => []
    | v :: vs => namedFuncExprs v ++ namedFuncExprsList vs
  def namedFuncExprsAttrs : List (String × Val) → List (String × Nat)
    | [] => []
    | (a, v) :: rest => (if Val.isMeta a then [] else namedFuncExprs v) ++ namedFuncExprsAttrs rest
end

/-- the check for one piece of function (or program) code with the names it declares -/
def kfBCode (declared : List String) (code : Val) : Bool :=
  let fes := namedFuncExprs code
  fes.any (fun q =>
    !declared.contains q.1 &&
      decide (((fes.filter (fun r => r.1 == q.1)).map (·.2)).foldl (· + ·) 0 < countIdent q.1 code))

mutual
  def kfBIn : Val → Bool
    | .node k as =>
      (isFunctionKind k &&
        (match Spec.Scope.lookupAttr as "elements" with
         | some body =>
           kfBCode (paramNames (if k == "SetPropAssign" then Spec.Scope.lookupAttr as "parameter"
             else Spec.Scope.lookupAttr as "parameters") ++ hoistVal body) body
         | none => false)) || kfBInAttrs as
    | .list xs => kfBInList xs
    | _ => false
  def kfBInList : List Val → Bool
    | [] => false
    | v :: vs => kfBIn v || kfBInList vs
  def kfBInAttrs : List (String × Val) → Bool
    | [] => false
    | (a, v) :: rest => (!Val.isMeta a && kfBIn v) || kfBInAttrs rest
end

def kfB (og : Bool) (program : Val) : Bool :=
  (og && kfBCode (hoistVal program) program) || kfBIn program

/-! ### KF-07c -/

def countEq (n : String) (l : List String) : Nat := (l.filter (· == n)).length

mutual
  /-- `catches`: parameters of the enclosing catch clauses, `labels`: enclosing labels with the number of enclosing catch
  clauses of the same name at their definition (both per function body) -/
  def kfCIn (catches : List String) (labels : List (String × Nat)) : Val → Bool
    | .node k as =>
      if isFunctionKind k then kfCAttrs [] [] as
      else if k == "Break" || k == "Continue" then
        match identAttrOf as with
        | some n => (match labels.lookup n with
          | some d => d != countEq n catches
          | none => false)
        | none => false
      else if k == "Catch" then
        match identAttrOf as with
        | some c => kfCAttrs (c :: catches) labels as
        | none => kfCAttrs catches labels as
      else if k == "Label" then
        match identAttrOf as with
        | some n => kfCAttrs catches ((n, countEq n catches) :: labels) as
        | none => kfCAttrs catches labels as
      else kfCAttrs catches labels as
    | .list xs => kfCList catches labels xs
    | _ => false
  def kfCList (catches : List String) (labels : List (String × Nat)) : List Val → Bool
    | [] => false
    | v :: vs => kfCIn catches labels v || kfCList catches labels vs
  def kfCAttrs (catches : List String) (labels : List (String × Nat)) : List (String × Val) → Bool
    | [] => false
    | (a, v) :: rest => (!Val.isMeta a && kfCIn catches labels v) || kfCAttrs catches labels rest
end

def kfC (program : Val) : Bool := kfCIn [] [] program

/-! ### KF-07e -/

def kfE (og : Bool) (program : Val) : Bool :=
  let bs := (Spec.Scope.resolveProgram program).flatMap (·.binders)
  bs.any (fun b => b.kind == .args) &&
    bs.any (fun b => b.name == "arguments" &&
      (b.kind == .var || b.kind == .catch || b.kind == .self || (og && b.kind == .global)))

/-- the program falls into one of the recorded deviation classes -/
def excluded (og : Bool) (program : Val) : Bool := kfA program || kfB og program || kfC program

end CalmVerif.Obf
