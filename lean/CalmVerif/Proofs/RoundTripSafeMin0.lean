import CalmVerif.Proofs.RoundTripSafe
import CalmVerif.Proofs.RoundTripCertMin0
namespace CalmVerif.TokenAdj

set_option maxRecDepth 1000000 in
theorem direct_safe_min0_forced :
    withCtx Gen.Rules.rs_minify0 Gen.Defs.definitions 4 (fun cx => forceRects (allNeedsF cx Gen.Defs.definitions) fun F => directOK F) = true := by
  decide +kernel

/-- D: every two token signatures that can be printed with nothing between them under this rule set are
boundary-safe, except KF-01 (and the two artefacts of the abstraction) -/
theorem direct_safe_min0 : directOK followMin0 = true := by
  have h := direct_safe_min0_forced
  rw [withCtx_eq, forceRects_eq, allNeedsF_eq] at h
  exact h

end CalmVerif.TokenAdj
