import CalmVerif.Proofs.RoundTripSafe
import CalmVerif.Proofs.RoundTripCertMin0
namespace CalmVerif.TokenAdj
set_option maxRecDepth 1000000 in
/-- D: every two token signatures that can be printed with nothing between them by this minify rule set are
boundary-safe, except KF-01 (and the two artefacts of the abstraction) -/
theorem direct_safe_min0 : directOK followMin0 = true := by decide +kernel
end CalmVerif.TokenAdj
