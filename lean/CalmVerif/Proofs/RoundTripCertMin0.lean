/-
The first / last certificates of the `rs_minify0` rule set, computed by fixpoint iteration over the regenerated Gen.Defs,
and the kernel decision that they are closed (D obligation: breaks when a definition or the rule set changes).
-/
import CalmVerif.Proofs.RoundTripCert
namespace CalmVerif.TokenAdj
open CalmVerif CalmVerif.Unparse

def certMin0 : List (String × Abs) := certIter Gen.Rules.rs_minify0 Gen.Defs.definitions 4
def cxMin0 : Ctx := mkCtx Gen.Rules.rs_minify0 Gen.Defs.definitions certMin0
/-- the follow relation: every pair of symbols (token signatures, layout markers) that can be adjacent in a chunk stream -/
def followMin0 : List Rect := allNeeds cxMin0 Gen.Defs.definitions

set_option maxRecDepth 1000000 in
theorem certMin0_closed_forced :
    withCtx Gen.Rules.rs_minify0 Gen.Defs.definitions 4 (fun cx => closedCert cx Gen.Defs.definitions) = true := by decide +kernel

theorem certMin0_closed : closedCert cxMin0 Gen.Defs.definitions = true := by
  have h := certMin0_closed_forced
  rw [withCtx_eq] at h
  exact h

theorem followMin0_closed : closed cxMin0 followMin0 Gen.Defs.definitions = true :=
  closed_of_cert cxMin0 Gen.Defs.definitions certMin0_closed

end CalmVerif.TokenAdj
