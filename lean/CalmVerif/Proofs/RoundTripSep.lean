/-
Token pairs separated by exactly ONE layout marker (`a · m · b` in the chunk stream, `a`, `b` token fragments, `m` one
occurrence of a layout rule): what the handler of `m` prints between them, by rule set, and whether the pair is then
safe under longest-match lexing.  Table-level check over the occurrence-tagged follow relation (`sepOK`).

  separator of a single-marker run = the output of that marker's own handler (no tuple normalisation can apply to a
  run of one marker: `noUnitTuples`):
    spaceImply                 always " "
    indNewline / newlineSimple always a line break (bad between a restricted keyword and its operand)
    spaceMinimum               " " iff required_space(last char of a, first char of b)
    spaceOptionalPretty        " " iff header node ∧ b ∉ {")", ";"}  ∨  required_space  ∨  b is an assignment operator
    noop / indent / dedent / optional newline   possibly nothing
-/
import CalmVerif.Proofs.RoundTripSafe
namespace CalmVerif.TokenAdj
open CalmVerif CalmVerif.Unparse

/-! ### what `required_space` sees of a signature -/

/-- a character of the same `required_space` class as the last character of every text with this signature -/
def lastRep : TC → Option Char
  | .lit i => (litText i).toList.getLast?
  | .word _ l => if l == 0 then some 'a' else if l == 1 then some '$' else none
  | .decInt => some '0'
  | .numDot => some '.'
  | .num _ l => if l == 0 then some 'a' else none
  | .regex l => if l == 3 then some '/' else if l == 0 then some 'a' else if l == 1 then some '$' else none
  | .commas => some ','
  | _ => none

def firstRep : TC → Option Char
  | .lit i => (litText i).toList.head?
  | .word f _ => if f == 0 then some 'a' else if f == 1 then some '$' else none
  | .decInt => some '0'
  | .numDot => some '0'
  | .num false _ => some '0'
  | .num true _ => some '.'
  | .regex _ => some '/'
  | .lineComment => some '/'
  | .blockComment => some '/'
  | .commas => some ','
  | _ => none

/-- `required_space` certainly matches on (last character of `a`, first character of `b`) -/
def mustSpace (a b : TC) : Bool :=
  match lastRep a, firstRep b with
  | some c, some d => requiredSpaceGen c d
  | _, _ => false

def isLitIn (b : TC) (l : List String) : Bool :=
  match b with
  | .lit i => l.contains (litText i)
  | _ => false

/-- the known findings among the pairs separated by a conditional space -/
def kf02b (a b : TC) : Bool := (match a with | .regex _ => true | _ => false) && startsId b
def kf02c (a b : TC) : Bool := (match a with | .word _ l => l == 2 | _ => false) && startsId b
def kf02f (a b : TC) : Bool := a == .numDot && startsId b

/-- a pair around `layout_handler_space_minimum` (minify: Space, OptionalSpace) -/
def okMin (a b : TC) : Bool := okPair a b || kf02b a b || kf02c a b || kf02f a b || mustSpace a b
/-- a pair around `layout_handler_space_optional_pretty` (pretty: OptionalSpace) of a non-header / header node -/
def okOptPretty (hdr : Bool) (a b : TC) : Bool :=
  okPair a b || (hdr && !isLitIn b [")", ";"]) || kf02b a b || kf02c a b || kf02f a b
    || isLitIn b Gen.Rules.assignmentTokens || mustSpace a b
/-- a pair around a marker that may print nothing -/
def okSilent (a b : TC) : Bool := okPair a b
/-- a pair around an unconditional line break -/
def okNewline (a _b : TC) : Bool := !isLitIn a ["return", "throw", "break", "continue"]

/-! ### the markers of a rule set by what their handler prints -/

inductive MCat where
  | space | newline | min | optPretty | silent | emitter | absent
  deriving DecidableEq, Repr

def catOfHandler : Option HandlerId → MCat
  | none => .absent
  | some .spaceImply => .space
  | some .spaceDrop => .space
  | some .newlineSimple => .newline
  | some .indNewline => .newline
  | some .spaceMinimum => .min
  | some .spaceOptionalPretty => .optPretty
  | some .noop => .silent
  | some .indIndent => .silent
  | some .indDedent => .silent
  | some .newlineOptionalPretty => .silent
  | some .indNewlineOptional => .silent
  | some .semicolon => .emitter
  | some .semicolonOptional => .emitter
  | some .openbrace => .emitter
  | some .closebrace => .emitter

def catOf (tbl : List (LKey × Option HandlerId)) (mk : Marker) : MCat := catOfHandler (lookupLayout tbl (LKey.single mk))

/-- no layout key is a tuple of one marker (so a run of one marker is handled by that marker's own handler) -/
def noUnitTuples : List (LKey × Option HandlerId) → Bool
  | [] => true
  | (k, _) :: rest => (match k with | [.lp, .m _, .rp] => false | _ => true) && noUnitTuples rest

mutual
  /-- the markers of the layout rules of a definition, in the order of `occRule` -/
  def occMkRule : Rule → List Marker
    | .layout mk => [mk]
    | .optional _ body => occMkRules body
    | .joinAttr _ sep _ => occMkRules sep
    | .elisionJoinAttr _ sep _ => occMkRules sep
    | _ => []
  def occMkRules : List Rule → List Marker
    | [] => []
    | r :: rs => occMkRule r ++ occMkRules rs
end

/-- bit set of the occurrence symbols whose marker has category `c` (and header flag `h`) -/
def catMaskDef (tbl : List (LKey × Option HandlerId)) (c : MCat) (h : Bool) (hdr : Bool) : List Marker → Nat → Nat × Nat
  | [], d => (0, d)
  | mk :: ms, d =>
    let r := catMaskDef tbl c h hdr ms (d + 1)
    ((if catOf tbl mk == c && hdr == h then 1 <<< (Sym.mo (d + 1) mk hdr) else 0) ||| r.1, r.2)

def catMask (tbl : List (LKey × Option HandlerId)) (hdrKinds skip : List String) (c : MCat) (h : Bool) : Defs → Nat → Nat
  | [], _ => 0
  | kd :: rest, d =>
    let r := catMaskDef tbl c h (hdrKinds.contains kd.1) (occMkRules kd.2) d
    (if skip.contains kd.1 then 0 else r.1) ||| catMask tbl hdrKinds skip c h rest r.2

/-- all occurrences of category `c` (both header flags), except in the definitions of the kinds `skip` -/
def catMaskAll (rs : RuleSet) (skip : List String) (c : MCat) : Nat :=
  catMask rs.layout Gen.Rules.headerKinds skip c false Gen.Defs.definitions 0 |||
  catMask rs.layout Gen.Rules.headerKinds skip c true Gen.Defs.definitions 0

/-! ### the check -/

/-- for every group of left tokens: no token of the group's bad row follows, through one marker of `markers` -/
def sepGroupsOK (F : List Rect) (markers toks : Nat) : List (Nat × Nat) → Bool
  | [] => true
  | (m, row) :: rest =>
    (stepMask (stepMask m markers F) toks F &&& row == 0) && sepGroupsOK F markers toks rest

def sepOK (F : List Rect) (markers : Nat) (ok : TC → TC → Bool) : Bool :=
  if markers == 0 then true else sepGroupsOK F markers (tokMask tokCodes) (groupRows ok tokCodes)

/-- the single-marker check of the pretty rule set: OptionalSpace of non-header and header nodes, the markers that may
print nothing, and line breaks after a restricted keyword (the line break that the definitions of the comment kinds
put after a comment is left out: it directly follows a non-comment token only when the comment's own token is
absent, which the abstraction cannot exclude, and then only after a property NAME `return` / … ) -/
def sepOKPrettyA (F : List Rect) : Bool :=
  let rs := Gen.Rules.rs_indent
  sepOK F (catMask rs.layout Gen.Rules.headerKinds [] .optPretty false Gen.Defs.definitions 0) (okOptPretty false) &&
  sepOK F (catMask rs.layout Gen.Rules.headerKinds [] .optPretty true Gen.Defs.definitions 0) (okOptPretty true)

def sepOKPrettyB (F : List Rect) : Bool :=
  let rs := Gen.Rules.rs_indent
  sepOK F (catMaskAll rs [] .silent) okSilent &&
  sepOK F (catMaskAll rs ["LineComment", "BlockComment"] .newline) okNewline

def sepOKPretty (F : List Rect) : Bool := sepOKPrettyA F && sepOKPrettyB F

/-- the single-marker check of a minify rule set: Space / OptionalSpace (`space_minimum`); nothing else can be silent
(RequiredSpace always prints; Newline, Indent, … have no handler and are no chunks) -/
def sepOKMin (rs : RuleSet) (F : List Rect) : Bool :=
  sepOK F (catMaskAll rs [] .min) okMin && sepOK F (catMaskAll rs [] .silent) okSilent &&
  sepOK F (catMaskAll rs [] .optPretty) okSilent && sepOK F (catMaskAll rs [] .newline) okNewline

end CalmVerif.TokenAdj
