/-
Helper lemmas for C12 (composed model), lexer side: `token()` never ends in a model gap (every generated rule name
has a matcher), hence from a well-formed state every exception of `token()` is an ECMASyntaxError /
ECMARegexSyntaxError.
-/
import CalmVerif.Proofs.LexerNoInternal
import CalmVerif.Proofs.LexerTerm

namespace CalmVerif.Proofs.ParserNoInternal
open CalmVerif.Model.TokenRegex CalmVerif.Model.PlyLex CalmVerif.Model.Lexer
open CalmVerif.Proofs.LexerNoInternal

/-- the exception is an ECMASyntaxError or an ECMARegexSyntaxError -/
def IsSyntax (e : Err) : Prop := (∃ m, e = .syntax m) ∨ (∃ m, e = .regexSyntax m)

/-- D: every rule name of both lexer states has a matcher -/
theorem rules_have_matchers (s : LexerState) : (rulesOf s).all (fun r => (ruleMatcher r).isSome) = true := by
  cases s <;> decide

theorem firstMatch_unknown (rules : List String) (rest : List Char) (r : String)
    (h : firstMatch rules rest = .unknownRule r) : r ∈ rules ∧ ruleMatcher r = none := by
  induction rules with
  | nil => simp [firstMatch] at h
  | cons x xs ih =>
    simp only [firstMatch] at h
    split at h
    · rename_i hx
      simp at h; subst h
      exact ⟨by simp, hx⟩
    · split at h
      · simp at h
      · obtain ⟨h1, h2⟩ := ih h
        exact ⟨by simp [h1], h2⟩

theorem plyToken_no_gap (s : LexerState) (text : List Char) (pos : Nat) (r : String) {ap : Bool} :
    plyToken s text pos ap ≠ .modelGap r := by
  intro h
  unfold plyToken at h
  simp only at h
  split at h
  · simp at h
  · split at h
    · simp at h
    · simp at h
    · rename_i r' hf
      obtain ⟨hm, hn⟩ := firstMatch_unknown _ _ _ hf
      have := List.all_eq_true.mp (rules_have_matchers s) r' hm
      rw [hn] at this
      simp at this

/-- no model gap -/
def NoGap (e : Err) : Prop := ∀ w, e ≠ .modelGap w

theorem colnoAt_internal (st : LexState) (p : Nat) (e : Err) (h : colnoAt st p = .error e) :
    e = .internal "IndexError" := by
  unfold colnoAt lastNewline at h
  split at h
  · simp at h
  · rename_i e' he
    split at he
    · simp at he
    · simp at he h; subst he; subst h; rfl

theorem tError_ng (st : LexState) (p : Nat) : NoGap (tError st p) := by
  intro w
  unfold tError
  simp only
  split
  · rename_i e he; rw [colnoAt_internal _ _ _ he]; simp
  · split
    · split
      · split
        · split
          · rename_i e he; rw [colnoAt_internal _ _ _ he]; simp
          · simp
        · simp [unterminatedMsg]
      · simp [unterminatedMsg]
    · split
      · simp
      · split <;> simp

theorem tRegexError_ng (st : LexState) (p : Nat) : NoGap (tRegexError st p) := by
  intro w
  unfold tRegexError
  split
  · rename_i e he; rw [colnoAt_internal _ _ _ he]; simp
  · simp

theorem getLexerToken_ng (s : LexerState) (st : LexState) (w : String) :
    getLexerToken s st ≠ .error (.modelGap w) := by
  unfold getLexerToken
  split
  · simp
  · rename_i r hp; exact absurd hp (plyToken_no_gap _ _ _ _)
  · split
    · simp; exact tError_ng _ _ w
    · simp; exact tRegexError_ng _ _ w
  · split
    · rename_i e he
      rw [colnoAt_internal _ _ _ he]; simp
    · simp

theorem setTokens_ng (st : LexState) (t : Option Token) (w : String) : setTokens st t ≠ .error (.modelGap w) := by
  unfold setTokens; split <;> simp

theorem updateStack_ng (st : LexState) (c : Token) (w : String) : updateStack st c ≠ .error (.modelGap w) := by
  have hp : ∀ st c, pushParen st c ≠ .error (.modelGap w) := by
    intro st c; unfold pushParen; repeat' split
    all_goals simp
  have hq : ∀ st, popParen st ≠ .error (.modelGap w) := by
    intro st; unfold popParen; repeat' split
    all_goals simp
  unfold updateStack
  split
  · rename_i e he
    split at he
    · intro h; simp at h; subst h; exact hp _ _ he
    · simp at he
  · split
    · rename_i e he
      split at he
      · intro h; simp at h; subst h; exact hq _ he
      · simp at he
    · split <;> simp

theorem getUpdateToken_ng (st : LexState) (w : String) : getUpdateToken st ≠ .error (.modelGap w) := by
  unfold getUpdateToken
  split
  · rename_i e he
    intro h; simp at h; subst h; exact getLexerToken_ng _ _ w he
  · split
    · rename_i e he
      intro h; simp at h; subst h; exact setTokens_ng _ _ w he
    · split
      · simp
      · split
        · rename_i e he
          intro h; simp at h; subst h; exact updateStack_ng _ _ w he
        · split <;> simp

theorem divOrRegex_ng (st : LexState) (w : String) : divOrRegex st ≠ .error (.modelGap w) := by
  unfold divOrRegex
  split
  · rename_i e he
    intro h; simp at h; subst h
    unfold isDivisionAllowed at he
    simp only at he
    repeat' split at he
    all_goals simp at he
  · exact getUpdateToken_ng _ w
  · split
    · rename_i e he
      intro h; simp at h; subst h; exact getLexerToken_ng _ _ w he
    · split
      · rename_i e he
        intro h; simp at h; subst h; exact setTokens_ng _ _ w he
      · simp

theorem tokenLoop_ng (w : String) : ∀ (fuel : Nat) (st : LexState), tokenLoop fuel st ≠ .error (.modelGap w) := by
  intro fuel
  induction fuel with
  | zero => intro st; simp [tokenLoop]
  | succ fuel ih =>
    intro st
    unfold tokenLoop
    split
    · split
      · rename_i e he
        intro h; simp at h; subst h; exact getUpdateToken_ng _ w he
      · simp
      · split
        · exact ih _
        · simp
    · split
      · split
        · rename_i e he
          intro h; simp at h; subst h; exact getUpdateToken_ng _ w he
        · simp
        · split
          · split
            · split
              · simp
              · split
                · exact ih _
                · exact ih _
            · exact ih _
          · simp
      · exact divOrRegex_ng _ w

theorem token_ng (st : LexState) (w : String) : token st ≠ .error (.modelGap w) := by
  have h' : token' st ≠ .error (.modelGap w) := by
    unfold token'
    split
    · simp
    · exact tokenLoop_ng w _ _
  unfold token
  split
  · rename_i e he
    intro h; simp at h; subst h; exact h' he
  · simp
  · split <;> simp

/-- from a well-formed state, every exception `token()` raises is an ECMASyntaxError / ECMARegexSyntaxError -/
theorem token_error_syntax (st : LexState) (hwf : WF st) (e : Err) (h : token st = .error e) : IsSyntax e := by
  match e, h with
  | .syntax m, _ => exact Or.inl ⟨m, rfl⟩
  | .regexSyntax m, _ => exact Or.inr ⟨m, rfl⟩
  | .internal k, h => exact absurd h ((token_ni st hwf).1 k)
  | .modelGap w, h => exact absurd h (token_ng st w)
  | .outOfFuel, h => exact absurd h (LexerTerm.token_ne st)

end CalmVerif.Proofs.ParserNoInternal
