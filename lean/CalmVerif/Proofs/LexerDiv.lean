/-
Helper lemmas for C05 (division / regular expression decision of the lexer).
-/
import CalmVerif.Proofs.LexerTables

namespace CalmVerif.Proofs.LexerDiv
open CalmVerif.Model.TokenRegex CalmVerif.Model.PlyLex CalmVerif.Model.Lexer
open CalmVerif.Proofs.LexerPly CalmVerif.Proofs.LexerStep CalmVerif.Proofs.LexerLoop CalmVerif.Proofs.LexerTables
open CalmVerif.Gen

/-- D: "REGEX" is not a rule of state INITIAL, not "ID" and not a keyword type -/
theorem regex_not_initial : "REGEX" ∉ rulesOf .initial ∧ "REGEX" ∉ "ID" :: kwTypes := by decide

theorem rawTok_initial_not_regex {st : LexState} {t : Token} {st1 : LexState} (h : RawTok .initial st t st1) :
    t.type ≠ "REGEX" := by
  obtain ⟨r, ⟨pre, post, _, hr, _⟩, ht⟩ := h.rule
  intro hty
  have hmem : r ∈ rulesOf .initial := by rw [hr]; simp
  have hreq : r = "REGEX" :=
    ruleFn_eq _ r _ "REGEX" (by decide) (fun hk => regex_not_initial.2 (List.mem_cons_of_mem _ hk)) (ht ▸ hty)
  rw [hreq] at hmem
  exact regex_not_initial.1 hmem

theorem rawTok_regex_is_regex {st : LexState} {t : Token} {st1 : LexState} (h : RawTok .regex st t st1) :
    t.type = "REGEX" := by
  obtain ⟨r, ⟨pre, post, _, hr, _⟩, ht⟩ := h.rule
  have hmem : r ∈ rulesOf .regex := by rw [hr]; simp
  rw [regex_rules] at hmem
  simp at hmem
  subst hmem
  rw [ht]
  simp [ruleFn, ruleType]

/-- `_get_update_token` lexes in state INITIAL: it never returns a REGEX token -/
theorem getUpdateToken_not_regex (st : LexState) (t : Token) (st' : LexState)
    (h : getUpdateToken st = .ok (some t, st')) : t.type ≠ "REGEX" := by
  unfold getUpdateToken at h
  split at h
  · simp at h
  · rename_i tok st1 hg
    split at h
    · simp at h
    · rename_i st2 hs
      obtain ⟨_, _, hc2⟩ := setTokens_spec _ _ _ hs
      split at h
      · simp at h
      · rename_i cur hcur
        rw [hc2] at hcur
        subst hcur
        have hraw := getLexerToken_some _ _ _ _ hg
        split at h
        · simp at h
        · split at h
          · simp only [createSemiToken, Except.ok.injEq, Prod.mk.injEq, Option.some.injEq] at h
            rw [← h.1]
            simp
          · simp only [Except.ok.injEq, Prod.mk.injEq, Option.some.injEq] at h
            rw [← h.1]
            exact rawTok_initial_not_regex hraw

end CalmVerif.Proofs.LexerDiv
