/-
C13, parser level: `p_error` / `_raise_syntax_error` commute with the erasure of the capture bookkeeping,
and the composed parser model with capture simulates the one without, GIVEN that the semantic actions do
(`ActionsTransparent`, the action-level statement; see Props/C13).
-/
import CalmVerif.Model.Parser
import CalmVerif.Proofs.CommentsLexer
import CalmVerif.Proofs.CommentsLR
import CalmVerif.Proofs.CommentsErase

namespace CalmVerif.Proofs.Comments
open CalmVerif CalmVerif.Model CalmVerif.Model.LR CalmVerif.Model.Lexer CalmVerif.Model.Parser

/-- the outcome of a parse with the comments erased from the accepted tree -/
def eraseOutcome : Outcome Actions.PVal PErr → Outcome Actions.PVal PErr
  | .accepted v => .accepted (erasePV v)
  | o => o

/-- the action-level statement: on erased arguments and without capture, a semantic action returns the erasure of what
    it returns (with or without capture) on the original arguments, and raises the same error -/
def ActionsTransparent (tbl : List ActionDesc.Entry) : Prop :=
  ∀ (wc : Bool) (lc : Nat → Nat → Option Int) (p : Nat) (args : List Actions.PVal) (pos : Nat × Nat),
    Actions.reduce tbl false lc p (args.map erasePV) pos =
      match Actions.reduce tbl wc lc p args pos with
      | .ok v => .ok (erasePV v)
      | .error e => .error e

/-! ### `_raise_syntax_error`, `p_error` -/

theorem fmt_erase (a b c : Option Token) :
    ([eraseOT a, eraseOT b, eraseOT c].filterMap id).map formatLexToken =
      ([a, b, c].filterMap id).map formatLexToken := by
  cases a <;> cases b <;> cases c <;> rfl

theorem raiseSyntaxError_erase (st : LexState) (tok : Option Token) :
    raiseSyntaxError (eraseSt st) (eraseOT tok) = raiseSyntaxError st tok := by
  unfold raiseSyntaxError
  rw [token_erase]
  cases Lexer.token st with
  | error e => rfl
  | ok r =>
    obtain ⟨nxt, st'⟩ := r
    simp only [eraseRes]
    simp only [eraseSt_vprev]
    cases tok with
    | none => cases st.validPrevToken <;> cases nxt <;> rfl
    | some t =>
      simp only [eraseOT_some]
      by_cases ha : t.auto = true
      · have ha' : (eraseTok t).auto = true := ha
        rw [if_pos ha', if_pos ha]
        cases st.validPrevToken <;> cases nxt <;> rfl
      · have ha' : ¬ (eraseTok t).auto = true := ha
        rw [if_neg ha', if_neg ha]
        cases st.validPrevToken <;> cases nxt <;> rfl

def erasePRes : Except PErr (Option Token × LexState) → Except PErr (Option Token × LexState)
  | .error e => .error e
  | .ok (t, st) => .ok (eraseOT t, eraseSt st)

/-- the back-track test of `p_error` -/
def btTest (cur : Token) (vp : Option Token) : Bool :=
  Gen.LexData.backtrackCur.contains cur.type &&
    (match vp with
      | some vp => Gen.LexData.backtrackPrev.contains vp.type
      | none => false)

/-- the tail of `p_error` after `auto_semi` declined -/
def pErrorTail (st1 : LexState) (tok : Option Token) (bt : Bool) : Except PErr (Option Token × LexState) :=
  if bt then
    match backtrackedToken st1 1 with
    | .error e => .error (.lex e)
    | .ok (none, _) => .error (.lex (.internal "AttributeError"))
    | .ok (some rt, st2) =>
      if rt.type = "REGEX" then .ok (some rt, st2)
      else .error (raiseSyntaxError st2 tok)
  else .error (raiseSyntaxError st1 tok)

/-- `pError`, restated with named pieces -/
def pError' (st : LexState) (tok : Option Token) : Except PErr (Option Token × LexState) :=
  match autoSemi st tok with
  | (some semi, st1) => .ok (some semi, st1)
  | (none, st1) =>
    match (st1.curToken <|> tok) with
    | none => .error (.lex (.internal "AttributeError"))
    | some cur => pErrorTail st1 tok (btTest cur st1.validPrevToken)

theorem pError_eq (st : LexState) (tok : Option Token) : pError st tok = pError' st tok := rfl

theorem btTest_erase (cur : Token) (vp : Option Token) : btTest (eraseTok cur) (eraseOT vp) = btTest cur vp := by
  cases vp <;> rfl

theorem pErrorTail_erase (st1 : LexState) (tok : Option Token) (bt : Bool) :
    pErrorTail (eraseSt st1) (eraseOT tok) bt = erasePRes (pErrorTail st1 tok bt) := by
  unfold pErrorTail
  cases bt with
  | false =>
    simp only [Bool.false_eq_true, if_false, erasePRes]
    rw [raiseSyntaxError_erase]
  | true =>
    simp only [if_true]
    rw [backtrackedToken_erase]
    cases backtrackedToken st1 1 with
    | error e => rfl
    | ok r =>
      obtain ⟨rt, st2⟩ := r
      cases rt with
      | none => rfl
      | some rt =>
        simp only [eraseRes, eraseOT_some]
        by_cases hr : rt.type = "REGEX"
        · rw [if_pos hr, if_pos hr]; rfl
        · rw [if_neg hr, if_neg hr]
          simp only [erasePRes]
          rw [raiseSyntaxError_erase]

theorem pError_erase (st : LexState) (tok : Option Token) :
    pError (eraseSt st) (eraseOT tok) = erasePRes (pError st tok) := by
  rw [pError_eq, pError_eq]
  unfold pError'
  rw [autoSemi_erase]
  cases hs : autoSemi st tok with
  | mk semi st1 =>
    cases semi with
    | some s => rfl
    | none =>
      simp only [eraseOT_none, eraseSt_cur, eraseSt_vprev]
      have hor : (eraseOT st1.curToken <|> eraseOT tok) = eraseOT (st1.curToken <|> tok) := by
        cases st1.curToken <;> rfl
      rw [hor]
      cases st1.curToken <|> tok with
      | none => rfl
      | some cur =>
        simp only [eraseOT_some]
        rw [btTest_erase]
        exact pErrorTail_erase st1 tok _

/-! ### the simulation of the composed parser -/

theorem toTok_erase (t : Token) : toTok (eraseTok t) = eraseATok (toTok t) := rfl

/-- `lexer.lookup_colno` as the semantic actions see it -/
def lcOf (s : LexState) : Nat → Nat → Option Int := fun lineno lexpos =>
  match lookupColno s lineno lexpos with
  | .ok c => some c
  | .error _ => none

theorem lcOf_erase (s : LexState) : lcOf (eraseSt s) = lcOf s := rfl

theorem sem_reduce_eq (T : Tables) (p : Nat) (args : List Actions.PVal) (st : LexState) :
    (sem T).reduce p args st =
      match Actions.reduce Gen.Actions.actions st.withComments (lcOf st) p args (st.lexpos, st.lineno) with
      | .ok v => .ok v
      | .error e => .error (.act e) := rfl

theorem source_next_eq (s : LexState) :
    source.next s = match Lexer.token s with
      | .ok r => .ok r
      | .error e => .error (.lex e) := rfl

theorem source_onError_eq (s : LexState) (t : Option Token) : source.onError s t = pError s t := rfl

/-- the maps of the simulation: erase `hidden` from tokens, comments from semantic values, the capture bookkeeping
    from the lexer state -/
def parserSim (T : Tables) (h : ActionsTransparent Gen.Actions.actions) : Sim (sem T) source where
  fτ := eraseTok
  fν := erasePV
  fσ := eraseSt
  ty := fun _ => rfl
  leaf := fun _ => rfl
  reduce := by
    intro p args s
    rw [sem_reduce_eq, sem_reduce_eq, lcOf_erase]
    simp only [eraseSt_wc, eraseSt_lexpos, eraseSt_lineno]
    rw [h s.withComments]
    cases Actions.reduce Gen.Actions.actions s.withComments (lcOf s) p args (s.lexpos, s.lineno) <;> rfl
  next := by
    intro s
    rw [source_next_eq, source_next_eq, token_erase]
    cases Lexer.token s with
    | error e => rfl
    | ok r => obtain ⟨t, s'⟩ := r; rfl
  onError := by
    intro s t
    rw [source_onError_eq, source_onError_eq]
    have : pError (eraseSt s) (Option.map eraseTok t) = erasePRes (pError s t) := pError_erase s t
    rw [this]
    cases pError s t with
    | error e => rfl
    | ok r => obtain ⟨t', s'⟩ := r; rfl

/-- the composed statement, for any tables: GIVEN that the semantic actions commute with the erasure, parsing without
    capture is the erasure of parsing with capture -/
theorem parseWith_erase (T : Tables) (h : ActionsTransparent Gen.Actions.actions) (text : List Char) :
    parseWith T text false = eraseOutcome (parseWith T text true) := by
  unfold parseWith
  have hc : initConfig (Lexer.init text false false) =
      (parserSim T h).cfg (initConfig (τ := Token) (ν := Actions.PVal) (Lexer.init text true false)) := rfl
  rw [hc, (parserSim T h).run_sim]
  show (parserSim T h).out _ = eraseOutcome _
  cases (run T (sem T) source (parseFuel text) (initConfig (Lexer.init text true false))).1 <;> rfl

end CalmVerif.Proofs.Comments
