/-
Simple programs, part 2: one attribute, entering a function, and the induction over the tree:
walk facts + `ChainGood` for every record ⇒ `condVal` (the site conditions of the renaming simulation).
-/
import CalmVerif.Proofs.ObfSimple
import CalmVerif.Proofs.ObfBindSim3
namespace CalmVerif.Obf
open CalmVerif CalmVerif.Unparse
open CalmVerif.Spec.Scope (BKind Binder Layer Ctx Occ Role identName isFunctionKind isVarDeclKind
  lookupEnv lookupLabel roleOf enter isPresent hoistVal paramNames)

local notation "sLookup" => Spec.Scope.lookupAttr

theorem identAttr_eq (as : List (String × Val)) : identAttr as = identAttrOf' as := rfl

theorem hoistElems_eq (as : List (String × Val)) : hoistElems as = hoistElemsOf as := by
  unfold hoistElems hoistElemsOf
  cases sLookup as "elements" <;> rfl

theorem subsetOf_iff {a b : List String} (h : subsetOf a b = true) : ∀ x, x ∈ a → x ∈ b := by
  simp only [subsetOf, List.all_eq_true] at h
  intro x hx
  simpa using h x hx

/-- what the facts about the own name of a function expression give -/
theorem selfFacts_spec {fin : Final} {mc : MCtx} {p : SPath} {q : Path} {g : String} (h : selfFacts fin mc p q g = true) :
    (∀ n, tauN (tauFin fin) .self p n = resolveChain mc.chain n) ∧ g ∈ ckeys (effRefs mc.chain) ∧
      lookupPath fin.identifiers q = some mc.sid := by
  simp only [selfFacts, Bool.and_eq_true] at h
  obtain ⟨⟨h1, h2⟩, h3⟩ := h
  have h1' : (tablesOfNode fin p).tail = entriesOf mc.chain := of_decide_eq_true h1
  refine ⟨?_, by simpa using h2, of_decide_eq_true h3⟩
  intro n
  have e : tauN (tauFin fin) .self p n = resolveTables ((tablesOfNode fin p).tail) n := rfl
  rw [e, h1', resolveTables_entries]

theorem roleOf_params_func {kind a : String} {hi fi : Bool} (h : roleOf kind a hi fi = .params) :
    isFunctionKind kind = true := by
  unfold roleOf at h
  simp only [isFunctionKind]
  split at h
  · cases h
  · split at h
    · rename_i hk; simp [hk]
    · split at h
      · rename_i hk; simp [hk]
      · split at h
        · split at h <;> cases h
        · split at h
          · rename_i hk; simp [hk]
          · split at h
            · split at h <;> cases h
            · split at h
              · split at h <;> cases h
              · split at h
                · split at h <;> cases h
                · split at h
                  · split at h <;> cases h
                  · split at h
                    · split at h <;> cases h
                    · cases h

theorem roleOf_catchParam {kind a : String} {hi fi : Bool} (h : roleOf kind a hi fi = .catchParam) :
    (kind == "Catch") = true := by
  unfold roleOf at h
  split at h
  · cases h
  · split at h
    · split at h
      · cases h
      · split at h <;> cases h
    · split at h
      · split at h
        · cases h
        · split at h <;> cases h
      · split at h
        · split at h <;> cases h
        · split at h
          · split at h
            · cases h
            · split at h <;> cases h
          · split at h
            · assumption
            · split at h
              · split at h <;> cases h
              · split at h
                · split at h <;> cases h
                · split at h
                  · split at h <;> cases h
                  · split at h
                    · split at h <;> cases h
                    · cases h

theorem roleOf_selfName {kind a : String} {hi fi : Bool} (h : roleOf kind a hi fi = .selfName) :
    isFunctionKind kind = true := by
  unfold roleOf at h
  simp only [isFunctionKind]
  split at h
  · cases h
  · split at h
    · split at h
      · cases h
      · split at h <;> cases h
    · split at h
      · rename_i hk; simp [hk]
      · split at h
        · split at h <;> cases h
        · split at h
          · split at h
            · cases h
            · split at h <;> cases h
          · split at h
            · split at h <;> cases h
            · split at h
              · split at h <;> cases h
              · split at h
                · split at h <;> cases h
                · split at h
                  · split at h <;> cases h
                  · split at h
                    · split at h <;> cases h
                    · cases h

/-- what the context of the `inner` attributes of a node of kind `kind` at `p` looks like -/
def InnerOK (kind : String) (p : SPath) (inner : Ctx) : Prop :=
  (isFunctionKind kind = true → inner.varKind = .var ∧ inner.varScope = p) ∧
  ((kind == "Catch") = true → ∃ c E', inner.env = { kind := .catch, scope := p, names := [c] } :: E')

section
variable {fin : Final}

/-- one attribute: the facts give the site conditions -/
theorem roleCond_of_facts {recs : List Rec} {octx ictx : Ctx} {omc imc : MCtx} (hio : Inv fin octx omc) (hii : Inv fin ictx imc)
    (p : SPath) (a : String) (v : Val) (role : Role) (fF fI fO cF cI cO : Bool)
    (hparams : role = .params → ictx.varKind = .var ∧ ictx.varScope = p)
    (hcatch : role = .catchParam → ∃ c E', ictx.env = { kind := .catch, scope := p, names := [c] } :: E')
    (h : roleFacts fin recs omc imc p a v role fF fI fO = true)
    (hF : fF = true → cF = true) (hI : fI = true → cI = true) (hO : fO = true → cO = true) :
    roleCond (tauFin fin) (rhoFin fin) octx p a v role cF cI cO = true := by
  cases role with
  | skip => rfl
  | funcDeclName => exact declSites_declCond hio p a v (by simpa [roleFacts] using h)
  | selfName =>
    simp only [roleFacts, List.all_eq_true] at h
    simp only [roleCond, declCond, List.all_eq_true, beq_iff_eq]
    intro q hq
    obtain ⟨htau, _, hreg⟩ := selfFacts_spec (h q hq)
    rw [rho_at hio hreg, htau]
  | params =>
    obtain ⟨h1, h2⟩ := hparams rfl
    have := declSites_declCond hii p a v (by simpa [roleFacts] using h)
    rw [h1, h2] at this
    simpa [roleCond] using this
  | catchParam =>
    obtain ⟨c, E', he⟩ := hcatch rfl
    simp only [roleFacts, List.all_eq_true] at h
    simp only [roleCond, declCond, List.all_eq_true, beq_iff_eq]
    intro q hq
    exact catchSite_eq hii he (h q hq)
  | labelDecl =>
    simp only [roleFacts, List.all_eq_true, Bool.and_eq_true, beq_iff_eq] at h
    simp only [roleCond, declCond, List.all_eq_true, beq_iff_eq]
    intro q hq
    have e : tauN (tauFin fin) .label p q.2 = rhoFin fin (("identifier", 0) :: p.reverse) q.2 := rfl
    rw [e, (h q hq).1]
  | labelRef =>
    simp only [roleFacts, List.all_eq_true, Bool.and_eq_true, beq_iff_eq] at h
    simp only [roleCond, List.all_eq_true, decide_eq_true_eq]
    intro q hq
    obtain ⟨⟨hreg, hkey⟩, hok⟩ := h q hq
    rw [rho_at hio hreg, ← hio.labels]
    exact labelRef_link hio.al q.2 (by simpa using hkey) omc.labels hio.lblOK hok
  | varName assigned =>
    simp only [roleFacts, declSites, List.all_eq_true, Bool.and_eq_true, Bool.or_eq_true, Bool.not_eq_true'] at h
    simp only [roleCond, List.all_eq_true, Bool.and_eq_true, beq_iff_eq, Bool.or_eq_true, Bool.not_eq_true']
    intro q hq
    have hd := h.1 q hq
    refine ⟨declSite_eq hio hd, ?_⟩
    by_cases ha : assigned = true
    · right
      apply refSite_refCond hio
      have hkey := declSite_refKey hio hd
      have hx : noExtra omc.env omc.chain q.2 = true := by
        rcases h.2 with h2 | h2
        · rw [ha] at h2; cases h2
        · exact h2 q hq
      simp only [declSite, Bool.and_eq_true] at hd
      simp only [refSite, Bool.and_eq_true]
      exact ⟨⟨hd.1, by simpa using hkey⟩, hx⟩
    · left; simpa using ha
  | forInItem => simpa [roleCond] using hF (by simpa [roleFacts] using h)
  | inner => simpa [roleCond] using hI (by simpa [roleFacts] using h)
  | outer => simpa [roleCond] using hO (by simpa [roleFacts] using h)

/-- entering a node: the environment the node sets up belongs to the record the facts name -/
theorem enter_of_facts (recs : List Rec) (hgood : ∀ R ∈ recs, ChainGood R.chain)
    {ctx : Ctx} {mc : MCtx} (hi : Inv fin ctx mc) (p : SPath) (k : String) (as : List (String × Val))
    (inner : MCtx)
    (h : enterFacts fin recs mc p k as = some inner) :
    enterCond (tauFin fin) (rhoFin fin) p k as = true ∧ Inv fin (enter ctx p k as) inner ∧
      InnerOK k p (enter ctx p k as) := by
  unfold enterFacts at h
  by_cases hf : isFunctionKind k = true
  · rw [if_pos hf] at h
    cases hR : recs.find? (fun r => r.node == some p.reverse) with
    | none => rw [hR] at h; cases h
    | some R =>
      rw [hR] at h
      simp only at h
      cases hRC : R.chain with
      | nil => rw [hRC] at h; cases h
      | cons A C =>
        rw [hRC] at h
        simp only at h
        by_cases hall : funcFacts fin recs mc p k as R.id A C = true
        · rw [if_pos hall] at h
          simp only [Option.some.injEq] at h
          subst h
          simp only [funcFacts, Bool.and_eq_true] at hall
          obtain ⟨⟨⟨⟨⟨⟨⟨hC0, hAk0⟩, hset⟩, htab0⟩, hch0⟩, hhoist⟩, hpar⟩, hself0⟩ := hall
          have hC : C = mc.chain := of_decide_eq_true hC0
          have hAk : A.kind = .func := by simpa using hAk0
          have htab : ((tablesOfNode fin p).headD (true, [])).2 = A.remapped := of_decide_eq_true htab0
          have hch : lookupChain fin.chains R.id = some (entriesOf (A :: C)) := of_decide_eq_true hch0
          have hRmem : R ∈ recs := List.mem_of_find?_eq_some hR
          have hg : ChainGood (A :: C) := hRC ▸ hgood R hRmem
          -- the context `enter` builds
          have henter : enter ctx p k as =
              { env := funcEnv ctx.env p k as, varKind := .var, varScope := p, labels := [], forInItem := false } := by
            rw [enter_unfold]
            simp only [hf, if_true, hoistElems_eq, paramsOf, funcEnv, selfNameOf, identAttr_eq]
            by_cases hfe : (k == "FuncExpr") = true
            · simp [hfe]
            · simp [hfe]
          -- the records of the own name and of the enclosing scopes
          have halE : Al (tauFin fin)
              ((selfNameOf k as).toList.map (fun g => ({ kind := .self, scope := p, names := [g] } : Layer)) ++ ctx.env) C := by
            cases hs : selfNameOf k as with
            | none => simpa using hC ▸ hi.al
            | some g =>
              rw [hs] at hself0
              obtain ⟨htau, hkey, _⟩ := selfFacts_spec hself0
              simp only [Option.toList_some, List.map_cons, List.map_nil, List.cons_append, List.nil_append]
              exact hC ▸ .self p g ctx.env mc.chain htau hkey hi.al
          -- the inner invariant
          have hinv : Inv fin (enter ctx p k as)
              { sid := R.id, chain := A :: C, env := funcEnv mc.env p k as, labels := [] } := by
            rw [henter]
            refine ⟨?_, rfl, hch, by rw [hi.env], rfl, fun x hx => absurd hx List.not_mem_nil⟩
            refine .func p _ _ A C hAk (subsetOf_iff hset) ?_ hg (hC ▸ al_ne_nil hi.al) halE
            intro n
            have e : tauN (tauFin fin) .var p n = applyTable ((tablesOfNode fin p).headD (true, [])).2 n := rfl
            rw [e, htab]
          have hnc : (k == "Catch") = false := by
            cases hkc : k == "Catch" with
            | false => rfl
            | true =>
              have : k = "Catch" := by simpa using hkc
              rw [this] at hf; exact absurd hf (by decide)
          refine ⟨?_, hinv, fun _ => by rw [henter]; exact ⟨rfl, rfl⟩, fun hh => by rw [hnc] at hh; cases hh⟩
          -- enterCond
          unfold enterCond
          simp only [hf, if_true, Bool.and_eq_true]
          have hvk : (enter ctx p k as).varKind = .var := by rw [henter]
          have hvs : (enter ctx p k as).varScope = p := by rw [henter]
          refine ⟨⟨?_, ?_⟩, ?_⟩
          · have := hoistFactsAttr_cond recs hgood hinv p.reverse "elements" (sLookup as "elements") hhoist
            rwa [hvk, hvs] at this
          · cases hv : (if k == "SetPropAssign" then sLookup as "parameter" else sLookup as "parameters") with
            | none => rfl
            | some v =>
              rw [hv] at hpar
              have := declSites_declCond hinv p _ v hpar
              rwa [hvk, hvs] at this
          · by_cases hfe : (k == "FuncExpr") = true
            · simp only [hfe, if_true]
              unfold identSiteCond
              cases hv : sLookup as "identifier" with
              | none => rfl
              | some v =>
                simp only
                cases hn : identName v with
                | none => rfl
                | some g =>
                  have hs : selfNameOf k as = some g := by
                    simp [selfNameOf, hfe, identAttrOf', hv, hn]
                  rw [hs] at hself0
                  obtain ⟨htau, _, hreg⟩ := selfFacts_spec hself0
                  simp only [beq_iff_eq]
                  rw [rho_at hi hreg, htau]
            · simp [hfe]
        · rw [if_neg hall] at h; cases h
  · rw [if_neg hf] at h
    by_cases hc : (k == "Catch") = true
    · rw [if_pos hc] at h
      obtain ⟨c, hca, hinv, _, _, _, _, _, _, hsc⟩ := catchRec_inv recs hgood hi p.reverse as inner h
      rw [List.reverse_reverse] at hinv hsc
      have henter : enter ctx p k as = { ctx with env := { kind := .catch, scope := p, names := [c] } :: ctx.env } := by
        rw [enter_unfold]
        simp only [hf, Bool.false_eq_true, if_false, hc, if_true, identAttr_eq, hca]
      refine ⟨?_, by rw [henter]; exact hinv, fun hh => absurd hh hf, fun _ => ⟨c, ctx.env, by rw [henter]⟩⟩
      unfold enterCond
      simp only [hf, Bool.false_eq_true, if_false, hc, if_true]
      exact hsc
    · rw [if_neg hc] at h
      by_cases hl : (k == "Label") = true
      · rw [if_pos hl] at h
        have hcond : enterCond (tauFin fin) (rhoFin fin) p k as = true := by
          unfold enterCond
          simp only [hf, Bool.false_eq_true, if_false, hc, hl, if_true]
          unfold identSiteCond
          cases hv : sLookup as "identifier" with
          | none => rfl
          | some v =>
            simp only
            cases hn : identName v with
            | none => rfl
            | some n =>
              simp only [beq_iff_eq]
              rfl
        cases hia : identAttrOf' as with
        | none =>
          rw [hia] at h
          simp only [Option.some.injEq] at h
          subst h
          have henter : enter ctx p k as = ctx := by
            rw [enter_unfold]
            simp only [hf, Bool.false_eq_true, if_false, hc, hl, if_true, identAttr_eq, hia]
          exact ⟨hcond, by rw [henter]; exact hi, fun hh => absurd hh hf, fun hh => absurd hh hc⟩
        | some n =>
          rw [hia] at h
          simp only at h
          by_cases hlf : labelFacts fin recs mc p n = true
          · rw [if_pos hlf] at h
            simp only [Option.some.injEq] at h
            subst h
            have henter : enter ctx p k as = { ctx with labels := (n, p) :: ctx.labels } := by
              rw [enter_unfold]
              simp only [hf, Bool.false_eq_true, if_false, hc, hl, if_true, identAttr_eq, hia]
            simp only [labelFacts, Bool.and_eq_true] at hlf
            have hreg : lookupPath fin.identifiers (("identifier", 0) :: p.reverse) = some mc.sid := of_decide_eq_true hlf.1.1
            have hkey : n ∈ ckeys (effRefs mc.chain) := by simpa using hlf.1.2
            refine ⟨hcond, ?_, fun hh => absurd hh hf, fun hh => absurd hh hc⟩
            rw [henter]
            refine ⟨hi.al, hi.var, hi.chains, hi.env, by simp [hi.labels], ?_⟩
            intro x hx
            rcases List.mem_cons.1 hx with rfl | hx
            · refine ⟨?_, hkey, al_good hi.al⟩
              intro m
              have e : tauN (tauFin fin) .label p m = rhoFin fin (("identifier", 0) :: p.reverse) m := rfl
              rw [e, rho_at hi hreg]
            · exact hi.lblOK x hx
          · rw [if_neg hlf] at h; cases h
      · rw [if_neg hl] at h
        simp only [Option.some.injEq] at h
        subst h
        have henter : enter ctx p k as = ctx := by
          rw [enter_unfold]
          simp [hf, hc, hl]
        refine ⟨?_, by rw [henter]; exact hi, fun hh => absurd hh hf, fun hh => absurd hh hc⟩
        unfold enterCond
        simp [hf, hc, hl]

end
end CalmVerif.Obf
