/-
Simple programs, part 2: one attribute, entering a function, and the induction over the tree:
walk facts + `ChainGood` for every record ⇒ `condVal` (the site conditions of the renaming simulation).
-/
import CalmVerif.Proofs.ObfSimple
import CalmVerif.Proofs.ObfBindSim3
namespace CalmVerif.Obf
open CalmVerif CalmVerif.Unparse
open CalmVerif.Spec.Scope (BKind Binder Layer Ctx Occ Role identName isFunctionKind isVarDeclKind
  lookupEnv lookupLabel roleOf enter isPresent hoistVal paramNames)

local notation "sLookup" => Spec.Scope.lookupAttr

theorem identAttr_eq (as : List (String × Val)) : identAttr as = identAttrOf' as := rfl

theorem hoistElems_eq (as : List (String × Val)) : hoistElems as = hoistElemsOf as := by
  unfold hoistElems hoistElemsOf
  cases sLookup as "elements" <;> rfl

theorem setEq_iff {a b : List String} (h : setEq a b = true) : ∀ x, x ∈ a ↔ x ∈ b := by
  simp only [setEq, Bool.and_eq_true, List.all_eq_true] at h
  intro x
  exact ⟨fun hx => by simpa using h.1 x hx, fun hx => by simpa using h.2 x hx⟩

theorem roleOf_params_func {kind a : String} {hi fi : Bool} (h : roleOf kind a hi fi = .params) :
    isFunctionKind kind = true := by
  unfold roleOf at h
  simp only [isFunctionKind]
  split at h
  · cases h
  · split at h
    · rename_i hk; simp [hk]
    · split at h
      · rename_i hk; simp [hk]
      · split at h
        · split at h <;> cases h
        · split at h
          · rename_i hk; simp [hk]
          · split at h
            · split at h <;> cases h
            · split at h
              · split at h <;> cases h
              · split at h
                · split at h <;> cases h
                · split at h
                  · split at h <;> cases h
                  · split at h
                    · split at h <;> cases h
                    · cases h

theorem roleOf_catchParam {kind a : String} {hi fi : Bool} (h : roleOf kind a hi fi = .catchParam) :
    (kind == "Catch") = true := by
  unfold roleOf at h
  split at h
  · cases h
  · split at h
    · split at h
      · cases h
      · split at h <;> cases h
    · split at h
      · split at h
        · cases h
        · split at h <;> cases h
      · split at h
        · split at h <;> cases h
        · split at h
          · split at h
            · cases h
            · split at h <;> cases h
          · split at h
            · assumption
            · split at h
              · split at h <;> cases h
              · split at h
                · split at h <;> cases h
                · split at h
                  · split at h <;> cases h
                  · split at h
                    · split at h <;> cases h
                    · cases h

/-- what the context of the `inner` attributes of a node of kind `kind` at `p` looks like -/
def InnerOK (kind : String) (p : SPath) (inner : Ctx) : Prop :=
  (isFunctionKind kind = true → inner.varKind = .var ∧ inner.varScope = p) ∧
  ((kind == "Catch") = true → ∃ c E', inner.env = { kind := .catch, scope := p, names := [c] } :: E')

section
variable {fin : Final}

/-- one attribute: the facts give the site conditions -/
theorem roleCond_of_facts {octx ictx : Ctx} {omc imc : MCtx} (hio : Inv fin octx omc) (hii : Inv fin ictx imc)
    (p : SPath) (a : String) (v : Val) (role : Role) (fF fI fO cF cI cO : Bool)
    (hparams : role = .params → ictx.varKind = .var ∧ ictx.varScope = p)
    (hcatch : role = .catchParam → ∃ c E', ictx.env = { kind := .catch, scope := p, names := [c] } :: E')
    (h : roleFacts fin omc imc p a v role fF fI fO = true)
    (hF : fF = true → cF = true) (hI : fI = true → cI = true) (hO : fO = true → cO = true) :
    roleCond (tauFin fin) (rhoFin fin) octx p a v role cF cI cO = true := by
  cases role with
  | skip => rfl
  | funcDeclName => exact declSites_declCond hio p a v (by simpa [roleFacts] using h)
  | selfName =>
    simp only [roleFacts, List.isEmpty_iff] at h
    simp [roleCond, declCond, h]
  | params =>
    obtain ⟨h1, h2⟩ := hparams rfl
    have := declSites_declCond hii p a v (by simpa [roleFacts] using h)
    rw [h1, h2] at this
    simpa [roleCond] using this
  | catchParam =>
    obtain ⟨c, E', he⟩ := hcatch rfl
    simp only [roleFacts, List.all_eq_true] at h
    simp only [roleCond, declCond, List.all_eq_true, beq_iff_eq]
    intro q hq
    exact catchSite_eq hii he (h q hq)
  | labelDecl => simp [roleFacts] at h
  | labelRef =>
    simp only [roleFacts, List.isEmpty_iff] at h
    simp [roleCond, h]
  | varName assigned =>
    simp only [roleFacts, declSites, List.all_eq_true] at h
    simp only [roleCond, List.all_eq_true, Bool.and_eq_true, beq_iff_eq, Bool.or_eq_true, Bool.not_eq_true']
    intro q hq
    have hd := h q hq
    refine ⟨declSite_eq hio hd, ?_⟩
    by_cases ha : assigned = true
    · right
      apply refSite_refCond hio
      have hkey := declSite_refKey hio hd
      simp only [declSite, Bool.and_eq_true] at hd
      simp only [refSite, Bool.and_eq_true]
      exact ⟨hd.1, by simpa using hkey⟩
    · left; simpa using ha
  | forInItem => simpa [roleCond] using hF (by simpa [roleFacts] using h)
  | inner => simpa [roleCond] using hI (by simpa [roleFacts] using h)
  | outer => simpa [roleCond] using hO (by simpa [roleFacts] using h)

/-- entering a node: the environment the node sets up belongs to the record the facts name -/
theorem enter_of_facts (recs : List Rec) (hgood : ∀ R ∈ recs, ChainGood R.chain)
    {ctx : Ctx} {mc : MCtx} (hi : Inv fin ctx mc) (p : SPath) (k : String) (as : List (String × Val))
    (hk2 : (k != "Label") = true) (inner : MCtx)
    (h : enterFacts fin recs mc p k as = some inner) :
    enterCond (tauFin fin) (rhoFin fin) p k as = true ∧ Inv fin (enter ctx p k as) inner ∧
      InnerOK k p (enter ctx p k as) := by
  have hl : (k == "Label") = false := by simpa using hk2
  unfold enterFacts at h
  by_cases hf : isFunctionKind k = true
  · rw [if_pos hf] at h
    cases hR : recs.find? (fun r => r.node == some p.reverse) with
    | none => rw [hR] at h; cases h
    | some R =>
      rw [hR] at h
      simp only at h
      cases hRC : R.chain with
      | nil => rw [hRC] at h; cases h
      | cons A C =>
        rw [hRC] at h
        simp only at h
        by_cases hall : funcFacts fin recs mc p k as R.id A C = true
        · rw [if_pos hall] at h
          simp only [Option.some.injEq] at h
          subst h
          simp only [funcFacts, Bool.and_eq_true] at hall
          obtain ⟨⟨⟨⟨⟨⟨⟨hC0, hAk0⟩, hset⟩, htab0⟩, hch0⟩, hhoist⟩, hpar⟩, hself0⟩ := hall
          have hC : C = mc.chain := of_decide_eq_true hC0
          have hAk : A.kind = .func := by simpa using hAk0
          have htab : ((tablesOfNode fin p).headD (true, [])).2 = A.remapped := of_decide_eq_true htab0
          have hch : lookupChain fin.chains R.id = some (entriesOf (A :: C)) := of_decide_eq_true hch0
          have hself : ¬ k = "FuncExpr" ∨ (identAttrOf' as).isNone = true := by simpa using hself0
          have hRmem : R ∈ recs := List.mem_of_find?_eq_some hR
          have hg : ChainGood (A :: C) := hRC ▸ hgood R hRmem
          have hself' : (k == "FuncExpr") = true → identAttr as = none := by
            intro hfe
            rcases hself with h1 | h1
            · exact absurd (by simpa using hfe) h1
            · simpa [identAttr_eq] using h1
          -- the context `enter` builds
          have henter : enter ctx p k as =
              { env := { kind := .var, scope := p, names := paramsOf k as ++ hoistElemsOf as } :: ctx.env,
                varKind := .var, varScope := p, labels := [], forInItem := false } := by
            rw [enter_unfold]
            simp only [hf, if_true, hoistElems_eq, paramsOf]
            by_cases hfe : (k == "FuncExpr") = true
            · simp [hfe, hself' hfe]
            · simp [hfe]
          -- the inner invariant
          have hinv : Inv fin (enter ctx p k as) { sid := R.id, chain := A :: C } := by
            rw [henter]
            refine ⟨?_, rfl, hch⟩
            refine .func p _ ctx.env A C hAk (setEq_iff hset) ?_ hg (hC ▸ al_ne_nil hi.al) (hC ▸ hi.al)
            intro n
            have e : tauN (tauFin fin) .var p n = applyTable ((tablesOfNode fin p).headD (true, [])).2 n := rfl
            rw [e, htab]
          have hnc : (k == "Catch") = false := by
            cases hkc : k == "Catch" with
            | false => rfl
            | true =>
              have : k = "Catch" := by simpa using hkc
              rw [this] at hf; exact absurd hf (by decide)
          refine ⟨?_, hinv, fun _ => by rw [henter]; exact ⟨rfl, rfl⟩, fun hh => by rw [hnc] at hh; cases hh⟩
          -- enterCond
          unfold enterCond
          simp only [hf, if_true, Bool.and_eq_true]
          have hvk : (enter ctx p k as).varKind = .var := by rw [henter]
          have hvs : (enter ctx p k as).varScope = p := by rw [henter]
          refine ⟨⟨?_, ?_⟩, ?_⟩
          · have := hoistFactsAttr_cond recs hgood hinv p.reverse "elements" (sLookup as "elements") hhoist
            rwa [hvk, hvs] at this
          · cases hv : (if k == "SetPropAssign" then sLookup as "parameter" else sLookup as "parameters") with
            | none => rfl
            | some v =>
              rw [hv] at hpar
              have := declSites_declCond hinv p _ v hpar
              rwa [hvk, hvs] at this
          · by_cases hfe : (k == "FuncExpr") = true
            · simp only [hfe, if_true]
              have := hself' hfe
              unfold identAttr at this
              unfold identSiteCond
              cases hv : sLookup as "identifier" with
              | none => rfl
              | some v =>
                rw [hv] at this
                simp only [Option.bind_some] at this
                simp [this]
            · simp [hfe]
        · rw [if_neg hall] at h; cases h
  · rw [if_neg hf] at h
    by_cases hc : (k == "Catch") = true
    · rw [if_pos hc] at h
      obtain ⟨c, hca, hinv, _, _, _, _, _, _, hsc⟩ := catchRec_inv recs hgood hi p.reverse as inner h
      rw [List.reverse_reverse] at hinv hsc
      have henter : enter ctx p k as = { ctx with env := { kind := .catch, scope := p, names := [c] } :: ctx.env } := by
        rw [enter_unfold]
        simp only [hf, Bool.false_eq_true, if_false, hc, if_true, identAttr_eq, hca]
      refine ⟨?_, by rw [henter]; exact hinv, fun hh => absurd hh hf, fun _ => ⟨c, ctx.env, by rw [henter]⟩⟩
      unfold enterCond
      simp only [hf, Bool.false_eq_true, if_false, hc, if_true]
      exact hsc
    · rw [if_neg hc] at h
      simp only [Option.some.injEq] at h
      subst h
      have henter : enter ctx p k as = ctx := by
        rw [enter_unfold]
        simp [hf, hc, hl]
      refine ⟨?_, by rw [henter]; exact hi, fun hh => absurd hh hf, fun hh => absurd hh hc⟩
      unfold enterCond
      simp [hf, hc, hl]

end
end CalmVerif.Obf
