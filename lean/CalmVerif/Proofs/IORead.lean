/-
Helper lemmas for C18: `io.read` (case analysis over the four primitives it uses).
-/
import CalmVerif.Proofs.IO

namespace CalmVerif.IO

def St.push (s : St) (ev : Event) : St := { s with trace := s.trace ++ [ev] }

@[simp] theorem St.push_trace (s : St) (ev : Event) : (s.push ev).trace = s.trace ++ [ev] := rfl
@[simp] theorem St.push_closer (s : St) (ev : Event) : (s.push ev).closer = s.closer := rfl

theorem emit_run (ev : Event) (s : St) : emit ev s = (.ok (), s.push ev) := rfl

/-- a use of a primitive either returns (trace unchanged) or raises the planned exception and logs it -/
theorem tick_cases (plan : Plan) (p : Prim) (s : St) :
    (∃ s', tick plan p s = (.ok (), s') ∧ s'.trace = s.trace) ∨
    (∃ e k s', tick plan p s = (.error e, s') ∧ s'.trace = s.trace ++ [.fault p k e] ∧ plan p k = some e) := by
  cases hp : plan p (s.counts p) with
  | none => exact Or.inl ⟨_, tick_none hp, rfl⟩
  | some e => exact Or.inr ⟨e, _, _, tick_some hp, rfl, hp⟩

/-- how `io.read` transforms the exception of primitive `p` -/
def readExc (o : Oracle) (a : RArr) (x : Sid) (p : Prim) (e : Exc) : Exc :=
  if p = .parse ∧ e.isSyntax = true then relabel o a x e else e

/-- the `try` body of `io.read` -/
theorem readBody_spec (o : Oracle) (plan : Plan) (a : RArr) (x : Sid) (s : St) :
    ∃ evs, (readBody o plan a x s).2.trace = s.trace ++ evs ∧ closedOf evs = [] ∧ openedOf evs = [] ∧
      ((∃ res, (readBody o plan a x s).1 = .ok res ∧ faultsOf evs = [] ∧
          res = { tree := a.tree, sourcepath := (a.info x).name }) ∨
       (∃ p e, (readBody o plan a x s).1 = .error (readExc o a x p e) ∧ faultsOf evs = [(p, e)])) := by
  unfold readBody
  rw [run_bind]
  rcases tick_cases plan (.read x) s with ⟨s1, h1, t1⟩ | ⟨e, k, s1, h1, t1, _⟩
  · rw [h1]
    simp only [run_bind, emit_run]
    rcases tick_cases plan (.getName x) (s1.push (.read x)) with ⟨s2, h2, t2⟩ | ⟨e, k, s2, h2, t2, _⟩
    · rw [h2]
      simp only [callParser]
      rcases tick_cases plan .parse s2 with ⟨s3, h3, t3⟩ | ⟨e, k, s3, h3, t3, _⟩
      · rw [h3]
        refine ⟨[.read x], by simp [t3, t2, t1], rfl, rfl, Or.inl ⟨_, rfl, rfl, rfl⟩⟩
      · rw [h3]
        refine ⟨[.read x, .fault .parse k e], ?_, rfl, rfl, Or.inr ⟨.parse, e, ?_, rfl⟩⟩
        · cases hsyn : e.isSyntax <;> simp [hsyn, t3, t2, t1]
        · cases hsyn : e.isSyntax <;> simp [readExc, hsyn]
    · rw [h2]
      refine ⟨[.read x, .fault (.getName x) k e], by simp [t2, t1], rfl, rfl, Or.inr ⟨.getName x, e, ?_, rfl⟩⟩
      simp [readExc]
  · rw [h1]
    refine ⟨[.fault (.read x) k e], by simp [t1], rfl, rfl, Or.inr ⟨.read x, e, ?_, rfl⟩⟩
    simp [readExc]

/-- Shape of every run of `io.read` when `close` does not fail. -/
theorem ioRead_shape (o : Oracle) (plan : Plan) (a : RArr) (hclose : ∀ x k, plan (.close x) k = none) (s0 : St) :
    ∃ body, (ioRead o plan a s0).2.trace = s0.trace ++ (body ++ (openedOf body).reverse.map Event.closed) ∧
      closedOf body = [] ∧ (openedOf body).Sublist (if a.stream.isFactory then [a.stream.sid] else []) ∧
      ((∃ res, (ioRead o plan a s0).1 = .ok res ∧ faultsOf body = [] ∧
          res = { tree := a.tree, sourcepath := (a.info a.stream.sid).name }) ∨
       (∃ p e, (ioRead o plan a s0).1 = .error (readExc o a a.stream.sid p e) ∧ faultsOf body = [(p, e)])) := by
  unfold ioRead
  cases hs : a.stream with
  | obj x =>
    simp only [run_bind, run_pure, StreamArg.isFactory, StreamArg.sid, closeIfFactory, tryFinally]
    obtain ⟨evs, h1, h2, h3, h4⟩ := readBody_spec o plan a x s0
    cases hb : readBody o plan a x s0 with
    | mk r s1 =>
      rw [hb] at h1 h4
      dsimp only at h1 h4
      refine ⟨evs, by simp [h1, h3], h2, by simp [h3], ?_⟩
      simpa using h4
  | factory f x =>
    simp only [run_bind, StreamArg.isFactory, StreamArg.sid, closeIfFactory, tryFinally, if_true]
    rcases tick_cases plan (.factory f) s0 with ⟨s1, h1, t1⟩ | ⟨e, k, s1, h1, t1, _⟩
    · rw [h1]
      simp only [emit_run, run_pure]
      obtain ⟨evs, g1, g2, g3, g4⟩ := readBody_spec o plan a x (s1.push (.opened f x))
      cases hb : readBody o plan a x (s1.push (.opened f x)) with
      | mk r s2 =>
        rw [hb] at g1 g4
        dsimp only at g1 g4
        rcases tick_cases plan (.close x) s2 with ⟨s3, h3, t3⟩ | ⟨e, k, s3, h3, t3, hp⟩
        · rw [h3]
          refine ⟨.opened f x :: evs, ?_, by simp [closedOf, g2], by simp [openedOf, g3], ?_⟩
          · simp [t3, g1, t1, openedOf, g3]
          · simpa [faultsOf] using g4
        · rw [hclose] at hp; cases hp
    · rw [h1]
      refine ⟨[.fault (.factory f) k e], by simp [t1, openedOf], rfl, by simp [openedOf], Or.inr ⟨.factory f, e, ?_, rfl⟩⟩
      simp [readExc]

end CalmVerif.IO
