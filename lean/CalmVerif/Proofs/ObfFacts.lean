/-
Definitions only (no Mathlib; the driver evaluates them): the scope records of a finished tree, the class of SIMPLE programs
(labels, catch clauses and named function expressions are allowed: every program), and the WALK FACTS: the decidable, purely book-keeping statement of
what the prewalk did on a program —
  * every function node has its own scope record, child of the record of the enclosing scope, whose `local_declared_symbols`
    contain the function's parameters and hoisted declarations (they also contain the names of the function expressions nested in
    the scope), and which the look-up tables of `Final` (`chains`, and the tables `tauFin` reads) identify by id and node path;
    every catch clause has its own catch record;
  * every Identifier occurrence is registered (`Obfuscator.identifiers`) in the record of its innermost function or catch clause,
    a reference is a key of that scope's `referenced_symbols` and is not resolved past a scope that declares it only as the name of a
    function expression (`noExtra`, the complement of KF-07b), a declaration is in its `local_declared_symbols`.
Nothing here speaks of replacements or capture: that is derived (Proofs/ObfLink.lean, ObfSimple*.lean).
-/
import CalmVerif.Proofs.ObfBindCond
namespace CalmVerif.Obf
open CalmVerif CalmVerif.Unparse
open CalmVerif.Spec.Scope (BKind Binder Layer Ctx Occ Role identName isFunctionKind isVarDeclKind roleOf isPresent hoistVal paramNames)

deriving instance DecidableEq for Anc

structure Rec where
  id : Nat
  node : Option Path
  chain : List Anc

mutual
  def recsOf (chain : List Anc) : STree → RTree → List Rec
    | .mk id node kind refs decl children, .mk _ _ _ _ _ rm rcs =>
      { id := id, node := node, chain := { kind := kind, refs := refs, decl := decl, remapped := rm } :: chain }
        :: recsOfList ({ kind := kind, refs := refs, decl := decl, remapped := rm } :: chain) children rcs
  def recsOfList (chain : List Anc) : List STree → List RTree → List Rec
    | c :: cs, r :: rs => recsOf chain c r ++ recsOfList chain cs rs
    | [], _ => []
    | _ :: _, [] => []
end

/-- what `Final.chains` stores for a chain of scopes -/
def entriesOf (C : List Anc) : List TableEntry := C.map (fun a => (a.kind.isFunc, a.remapped))

/-- the scope a site is registered in: id and chain of records -/
structure MCtx where
  sid : Nat
  chain : List Anc
  /-- the ES5 environment of the site (what `Spec.Scope.enter` builds on the way down) -/
  env : List Layer
  /-- the labels in scope (innermost first), each with the node of its definition and the chain of the scope its Identifier is
  registered in -/
  labels : List (String × SPath × List Anc)

def subsetOf (a b : List String) : Bool := a.all b.contains

/-- on the way of the ES5 look-up of `n` through the environment `E` (aligned with the chain `C`: one scope record per `var` / global /
catch environment record, none for the record of a function expression's own name), no function scope has a replacement for `n`
without the environment record having `n` — the scope records also declare the names of function expressions nested in them -/
def noExtra : List Layer → List Anc → String → Bool
  | [], _, _ => true
  | L :: E, C, n =>
    if L.names.contains n then true
    else match L.kind with
      | .self => noExtra E C n
      | .catch => noExtra E C.tail n
      | _ =>
        (match C with
         | A :: _ => (A.remapped.lookup n).isNone
         | [] => true)
        && ((L.kind == .var && n == "arguments") || noExtra E C.tail n)

/-- a reference site: registered in the current scope, a key of its `referenced_symbols`, and resolved by ES5 without passing a
scope record that declares it only as the name of a function expression -/
def refSite (fin : Final) (mc : MCtx) (q : Path) (n : String) : Bool :=
  lookupPath fin.identifiers q == some mc.sid && (ckeys (effRefs mc.chain)).contains n && noExtra mc.env mc.chain n

/-- the symbol is declared in the variable environment of the chain: the first function scope, no catch scope on the way
binding the same symbol (`CatchScope.declare` forwards every other symbol to its parent) -/
def varDeclOK : List Anc → String → Bool
  | [], _ => false
  | A :: C, n =>
    match A.kind with
    | .func => A.decl.contains n
    | .catch sym _ => n != sym && varDeclOK C n

/-- a declaration site: registered in the current scope and declared in its variable environment -/
def declSite (fin : Final) (mc : MCtx) (q : Path) (n : String) : Bool :=
  lookupPath fin.identifiers q == some mc.sid && varDeclOK mc.chain n

def declSites (fin : Final) (mc : MCtx) (p : SPath) (a : String) (v : Val) : Bool :=
  (identsOf p a v).all (fun q => declSite fin mc q.1 q.2)

def isCatchOf (A : Anc) (c : String) : Bool :=
  match A.kind with
  | .catch sym _ => sym == c
  | .func => false

/-- the parameter site of a catch clause: registered in the catch scope, and its catch symbol -/
def catchSite (fin : Final) (mc : MCtx) (q : Path) (n : String) : Bool :=
  lookupPath fin.identifiers q == some mc.sid &&
    (match mc.chain with
     | K :: _ => isCatchOf K n
     | [] => false)

def identSiteFacts (fin : Final) (mc : MCtx) (path : Path) (as : List (String × Val)) : Bool :=
  match Spec.Scope.lookupAttr as "identifier" with
  | some v => match identName v with
    | some n => declSite fin mc (("identifier", 0) :: path) n
    | none => true
  | none => true

def identAttrOf' (as : List (String × Val)) : Option String :=
  (Spec.Scope.lookupAttr as "identifier").bind identName

/-- the facts about the record (chain `K :: C`) of the catch clause at model path `path`, seen from the enclosing scope -/
def catchFacts (fin : Final) (mc : MCtx) (path : Path) (c : String) (rid : Nat) (K : Anc) (C : List Anc) : Bool :=
  decide (C = mc.chain) && isCatchOf K c
    && decide (((tablesOfNode fin path.reverse).headD (true, [])).2 = K.remapped)
    && decide (lookupChain fin.chains rid = some (entriesOf (K :: C)))
    && decide (lookupPath fin.identifiers (("identifier", 0) :: path) = some rid)

/-- the record of the catch clause at model path `path` -/
def catchRec (fin : Final) (recs : List Rec) (mc : MCtx) (path : Path) (as : List (String × Val)) : Option MCtx :=
  match identAttrOf' as with
  | none => none
  | some c =>
    match recs.find? (fun r => r.node == some path) with
    | none => none
    | some R =>
      match R.chain with
      | [] => none
      | K :: C =>
        if catchFacts fin mc path c R.id K C then
          some { sid := R.id, chain := K :: C, env := { kind := .catch, scope := path.reverse, names := [c] } :: mc.env,
                 labels := mc.labels }
        else none

mutual
  /-- the sites `hoistVal` collects; inside a catch block they are registered in the catch scope -/
  def hoistFacts (fin : Final) (recs : List Rec) (mc : MCtx) (path : Path) : Val → Bool
    | .node k as =>
      if k == "FuncDecl" then identSiteFacts fin mc path as
      else if isFunctionKind k then true
      else if k == "Catch" then
        (match catchRec fin recs mc path as with
         | some mc' => hoistFactsAttrs fin recs mc' path as
         | none => false)
      else (if isVarDeclKind k then identSiteFacts fin mc path as else true) && hoistFactsAttrs fin recs mc path as
    | .list xs => hoistFactsList fin recs mc path "" 0 xs
    | _ => true
  def hoistFactsList (fin : Final) (recs : List Rec) (mc : MCtx) (path : Path) (a : String) : Nat → List Val → Bool
    | _, [] => true
    | i, v :: rest => hoistFacts fin recs mc ((a, i) :: path) v && hoistFactsList fin recs mc path a (i + 1) rest
  def hoistFactsAttrs (fin : Final) (recs : List Rec) (mc : MCtx) (path : Path) : List (String × Val) → Bool
    | [] => true
    | (a, .list xs) :: rest =>
      (if Val.isMeta a then true else hoistFactsList fin recs mc path a 0 xs) && hoistFactsAttrs fin recs mc path rest
    | (a, v) :: rest =>
      (if Val.isMeta a then true else hoistFacts fin recs mc ((a, 0) :: path) v) && hoistFactsAttrs fin recs mc path rest
end

def hoistFactsAttr (fin : Final) (recs : List Rec) (mc : MCtx) (path : Path) (a : String) : Option Val → Bool
  | some (.list xs) => hoistFactsList fin recs mc path a 0 xs
  | some x => hoistFacts fin recs mc ((a, 0) :: path) x
  | none => true

def hoistElemsOf (as : List (String × Val)) : List String :=
  match Spec.Scope.lookupAttr as "elements" with
  | some v => hoistVal v
  | none => []

def paramsOf (kind : String) (as : List (String × Val)) : List String :=
  paramNames (if kind == "SetPropAssign" then Spec.Scope.lookupAttr as "parameter" else Spec.Scope.lookupAttr as "parameters")

/-- the own name of a function expression, `none` for every other node -/
def selfNameOf (kind : String) (as : List (String × Val)) : Option String :=
  if kind == "FuncExpr" then identAttrOf' as else none

/-- the environment of the body of the function node at `p` -/
def funcEnv (env : List Layer) (p : SPath) (kind : String) (as : List (String × Val)) : List Layer :=
  { kind := .var, scope := p, names := paramsOf kind as ++ hoistElemsOf as }
    :: ((selfNameOf kind as).toList.map (fun g => ({ kind := .self, scope := p, names := [g] } : Layer)) ++ env)

/-- the own name `g` of the function expression at `p`: its Identifier (at `q`) is registered in the enclosing scope `mc` (where the name is
declared, too), `g` is a key of that scope's `referenced_symbols`, and the tables `tauFin` reads for it are those of `mc` -/
def selfFacts (fin : Final) (mc : MCtx) (p : SPath) (q : Path) (g : String) : Bool :=
  decide ((tablesOfNode fin p).tail = entriesOf mc.chain) && (ckeys (effRefs mc.chain)).contains g
    && decide (lookupPath fin.identifiers q = some mc.sid)

/-- the facts about the record `R` (chain `A :: C`) of the function node at `p`, seen from the enclosing scope `mc` -/
def funcFacts (fin : Final) (recs : List Rec) (mc : MCtx) (p : SPath) (kind : String) (as : List (String × Val)) (rid : Nat) (A : Anc)
    (C : List Anc) : Bool :=
  let inner : MCtx := { sid := rid, chain := A :: C, env := funcEnv mc.env p kind as, labels := [] }
  decide (C = mc.chain) && A.kind == .func
    && subsetOf (paramsOf kind as ++ hoistElemsOf as) A.decl
    && decide (((tablesOfNode fin p).headD (true, [])).2 = A.remapped)
    && decide (lookupChain fin.chains rid = some (entriesOf (A :: C)))
    && hoistFactsAttr fin recs inner p.reverse "elements" (Spec.Scope.lookupAttr as "elements")
    && (match (if kind == "SetPropAssign" then Spec.Scope.lookupAttr as "parameter"
          else Spec.Scope.lookupAttr as "parameters") with
        | some v => declSites fin inner p (if kind == "SetPropAssign" then "parameter" else "parameters") v
        | none => true)
    && (match selfNameOf kind as with
        | some g => selfFacts fin mc p (("identifier", 0) :: p.reverse) g
        | none => true)

/-- `Cd` is `C` without some catch scopes at its head, none of which binds `n`: `resolve(n)` answers the same in both -/
def catchSuffix : List Anc → List Anc → String → Bool
  | K :: C, Cd, n =>
    if K :: C = Cd then true
    else match K.kind with
      | .catch c _ => c != n && catchSuffix C Cd n
      | .func => false
  | [], Cd, _ => Cd.isEmpty

/-- a labelled jump to `n` from a site registered in the scope with chain `C`: between the jump and the definition of every label up to
the one it targets no catch scope binds `n` (the complement of KF-07c); a jump to an undefined label (the parser accepts it) keeps
its spelling -/
def labelRefOK (C : List Anc) : List (String × SPath × List Anc) → String → Bool
  | [], n => resolveChain C n == n
  | (y, _, Cy) :: rest, n => catchSuffix C Cy n && (y == n || labelRefOK C rest n)

/-- the definition of the label at `p`: its Identifier is registered in the current scope `mc` (a label is renamed as if it were a
reference to a variable of that name), and that scope is the record `recs` has under its id -/
def labelFacts (fin : Final) (recs : List Rec) (mc : MCtx) (p : SPath) (n : String) : Bool :=
  decide (lookupPath fin.identifiers (("identifier", 0) :: p.reverse) = some mc.sid)
    && (ckeys (effRefs mc.chain)).contains n
    && decide ((recs.find? (fun r => r.id == mc.sid)).map (·.chain) = some mc.chain)

/-- the record of the function node at `p`; `none` when a fact fails -/
def enterFacts (fin : Final) (recs : List Rec) (mc : MCtx) (p : SPath) (kind : String) (as : List (String × Val)) :
    Option MCtx :=
  if isFunctionKind kind then
    match recs.find? (fun r => r.node == some p.reverse) with
    | none => none
    | some R =>
      match R.chain with
      | [] => none
      | A :: C =>
        if funcFacts fin recs mc p kind as R.id A C then
          some { sid := R.id, chain := A :: C, env := funcEnv mc.env p kind as, labels := [] }
        else none
  else if kind == "Catch" then catchRec fin recs mc p.reverse as
  else if kind == "Label" then
    match identAttrOf' as with
    | some n => if labelFacts fin recs mc p n then some { mc with labels := (n, p, mc.chain) :: mc.labels } else none
    | none => some mc
  else some mc

/-- the facts of one attribute, given those of the three possible recursive calls (`macro_inline`: compiled code evaluates only the
call the role needs) -/
@[macro_inline] def roleFacts (fin : Final) (recs : List Rec) (outer inner : MCtx) (p : SPath) (a : String) (v : Val) (role : Role)
    (fFor fInner fOuter : Bool) : Bool :=
  match role with
  | .skip => true
  | .funcDeclName => declSites fin outer p a v
  | .selfName => (identsOf p a v).all (fun q => selfFacts fin outer p q.1 q.2)
  | .params => declSites fin inner p a v
  | .catchParam => (identsOf p a v).all (fun q => catchSite fin inner q.1 q.2)
  | .varName assigned =>
    declSites fin outer p a v && (!assigned || (identsOf p a v).all (fun q => noExtra outer.env outer.chain q.2))
  | .labelDecl => (identsOf p a v).all (fun q => q.1 == ("identifier", 0) :: p.reverse && labelFacts fin recs outer p q.2)
  | .labelRef =>
    (identsOf p a v).all (fun q => lookupPath fin.identifiers q.1 == some outer.sid
      && (ckeys (effRefs outer.chain)).contains q.2 && labelRefOK outer.chain outer.labels q.2)
  | .forInItem => fFor
  | .inner => fInner
  | .outer => fOuter

mutual
  def factsVal (fin : Final) (recs : List Rec) (mc : MCtx) (forIn : Bool) (p : SPath) : Val → Bool
    | .node k as =>
      if k == "Identifier" then
        match identName (.node k as) with
        | some n => refSite fin mc p.reverse n
        | none => true
      else
        (match enterFacts fin recs mc p k as with
         | some inner => factsAttrs fin recs mc inner p k (isPresent (Spec.Scope.lookupAttr as "initializer")) forIn as
         | none => false)
    | .list xs => factsList fin recs mc forIn p "" 0 xs
    | _ => true
  def factsList (fin : Final) (recs : List Rec) (mc : MCtx) (forIn : Bool) (p : SPath) (attr : String) : Nat → List Val → Bool
    | _, [] => true
    | i, v :: vs => factsVal fin recs mc forIn (p ++ [(attr, i)]) v && factsList fin recs mc forIn p attr (i + 1) vs
  def factsAttrs (fin : Final) (recs : List Rec) (outer inner : MCtx) (p : SPath) (kind : String) (hasInit forIn : Bool) :
      List (String × Val) → Bool
    | [] => true
    | (a, .list xs) :: rest =>
      roleFacts fin recs outer inner p a (.list xs) (roleOf kind a hasInit forIn) (factsList fin recs outer false p a 0 xs)
        (factsList fin recs inner false p a 0 xs) (factsList fin recs outer false p a 0 xs)
      && factsAttrs fin recs outer inner p kind hasInit forIn rest
    | (a, v) :: rest =>
      roleFacts fin recs outer inner p a v (roleOf kind a hasInit forIn) (factsVal fin recs outer true (p ++ [(a, 0)]) v)
        (factsVal fin recs inner false (p ++ [(a, 0)]) v) (factsVal fin recs outer false (p ++ [(a, 0)]) v)
      && factsAttrs fin recs outer inner p kind hasInit forIn rest
end

/-- the walk facts of a whole program: the root record and everything below -/
def factsProgram (fin : Final) (recs : List Rec) (program : Val) : Bool :=
  match recs with
  | [] => false
  | R :: _ =>
    match R.chain with
    | [A] =>
      let mc : MCtx :=
        { sid := R.id, chain := [A], env := [{ kind := .global, scope := [], names := hoistVal program }], labels := [] }
      A.kind == .func && subsetOf (hoistVal program) A.decl && decide (rootTable fin = A.remapped)
        && decide (lookupChain fin.chains R.id = some (entriesOf [A]))
        && hoistFacts fin recs mc [] program && factsVal fin recs mc false [] program
    | _ => false

/-- run the model and evaluate the walk facts -/
def factsOf (fl : Flags) (program : Val) : Option Bool :=
  match prewalk tablesGen fl.shadowFuncname program with
  | .error _ => none
  | .ok st =>
    match st.stack, finalize Gen.ObfData.charset fl st with
    | [g], .ok fin => some (factsProgram fin (recsOf [] (closeFrame g) fin.tree) program)
    | _, _ => none

end CalmVerif.Obf
