/-
Helper lemmas for C06: every token matcher of Model.TokenRegex consumes at least one and at most
`rest.length` characters.
-/
import CalmVerif.Model.TokenRegex

namespace CalmVerif.Proofs.LexerRegex
open CalmVerif.Model.TokenRegex

theorem spanLen_le (p : Char → Bool) (l : List Char) : spanLen p l ≤ l.length := by
  induction l with
  | nil => simp [spanLen]
  | cons c cs ih => simp only [spanLen]; split <;> simp <;> omega

theorem startsWith_length {a b : List Char} (h : startsWith a b = true) : a.length ≤ b.length := by
  induction a generalizing b with
  | nil => simp
  | cons x xs ih =>
    cases b with
    | nil => simp [startsWith] at h
    | cons y ys =>
      simp only [startsWith, Bool.and_eq_true] at h
      have := ih h.2
      simp; omega

theorem startsWith_take {a b : List Char} (h : startsWith a b = true) : b.take a.length = a := by
  induction a generalizing b with
  | nil => simp
  | cons x xs ih =>
    cases b with
    | nil => simp [startsWith] at h
    | cons y ys =>
      simp only [startsWith, Bool.and_eq_true, beq_iff_eq] at h
      simp [ih h.2, h.1]

/-- the bound every matcher satisfies -/
def Bounded (m : List Char → Option Nat) : Prop :=
  ∀ rest n, m rest = some n → 0 < n ∧ n ≤ rest.length

theorem matchLit_bounded (lit : List Char) : Bounded (matchLit lit) := by
  intro rest n h
  unfold matchLit at h
  split at h
  · simp at h
  · split at h
    · rename_i hne hs
      simp at h; subst h
      have := startsWith_length hs
      cases lit with
      | nil => simp at hne
      | cons a as => simp at this ⊢; omega
    · simp at h

theorem ltSeqLen_bounded : Bounded ltSeqLen := by
  intro rest n h
  cases rest with
  | nil => simp [ltSeqLen] at h
  | cons c cs =>
    simp only [ltSeqLen] at h
    split at h
    · simp at h; subst h; simp
    · split at h
      · cases cs with
        | nil => simp at h; subst h; simp
        | cons d ds =>
          simp only at h
          split at h <;> (simp at h; subst h; simp)
      · split at h
        · simp at h; subst h; simp
        · split at h
          · simp at h; subst h; simp
          · simp at h

theorem lineCommentLen_bounded : Bounded lineCommentLen := by
  intro rest n h
  unfold lineCommentLen at h
  split at h
  · rename_i c d r
    split at h
    · simp at h; subst h
      have := spanLen_le isLineCommentChar r
      simp; omega
    · simp at h
  · simp at h

theorem bcScan_bounds : ∀ (l : List Char) (n : Nat), bcScan l = some n → 2 ≤ n ∧ n ≤ l.length := by
  intro l
  induction l with
  | nil => intro n h; simp [bcScan] at h
  | cons c cs ih =>
    intro n h
    unfold bcScan at h
    cases cs with
    | nil => simp at h
    | cons d ds =>
      simp only at h
      split at h
      · simp at h; subst h; simp
      · simp only [Option.map_eq_some_iff] at h
        obtain ⟨m, hm, rfl⟩ := h
        have := ih m hm
        simp at this ⊢; omega

theorem blockCommentLen_bounded : Bounded blockCommentLen := by
  intro rest n h
  unfold blockCommentLen at h
  split at h
  · rename_i c d r
    split at h
    · simp only [Option.map_eq_some_iff] at h
      obtain ⟨m, hm, rfl⟩ := h
      have := bcScan_bounds r m hm
      simp; omega
    · simp at h
  · simp at h

theorem idLen_bounded : Bounded idLen := by
  intro rest n h
  unfold idLen at h
  simp only at h
  split at h
  · simp at h
  · simp at h; subst h
    have h1 := spanLen_le isIdStart rest
    have h2 := spanLen_le isIdPart (rest.drop (spanLen isIdStart rest))
    simp at h2
    omega

theorem propLen_bounded (kw : List Char) (hk : 0 < kw.length) : Bounded (propLen kw) := by
  intro rest n h
  unfold propLen at h
  split at h
  · rename_i hs
    split at h
    · split at h
      · simp at h; subst h
        exact ⟨hk, startsWith_length hs⟩
      · simp at h
    · simp at h
  · simp at h

theorem expLen_le (r : List Char) : expLen r ≤ r.length := by
  unfold expLen
  split
  · simp
  · rename_i e r1
    split
    · split
      · simp
      · rename_i s r2
        split
        · have h2 := spanLen_le isDec r2
          have h1 := spanLen_le isDec (s :: r2)
          simp only []
          split
          · simp; omega
          · split
            · simp at h1 ⊢; omega
            · simp
        · have h1 := spanLen_le isDec (s :: r2)
          simp only []
          split
          · simp at h1 ⊢; omega
          · simp
    · simp

theorem decIntLen_bounds (rest : List Char) (n : Nat) (h : decIntLen rest = some n) : 0 < n ∧ n ≤ rest.length := by
  unfold decIntLen at h
  split at h
  · simp at h
  · rename_i c cs
    split at h
    · simp at h; subst h; simp
    · split at h
      · simp at h; subst h
        have := spanLen_le isDec cs
        simp; omega
      · simp at h

theorem fracLen_le (r : List Char) : fracLen r ≤ r.length := by
  unfold fracLen
  have h1 := spanLen_le isDec r
  have h2 := expLen_le (r.drop (spanLen isDec r))
  simp at h2
  omega

theorem hexLen_bounded : Bounded hexLen := by
  intro rest n h
  unfold hexLen at h
  split at h
  · rename_i z x r
    split at h
    · split at h
      · simp at h; subst h
        have := spanLen_le isHex r
        simp; omega
      · simp at h
    · simp at h
  · simp at h

theorem octLen_bounded : Bounded octLen := by
  intro rest n h
  unfold octLen at h
  split at h
  · rename_i z r
    split at h
    · split at h
      · simp at h; subst h
        have := spanLen_le isOct r
        simp; omega
      · simp at h
    · simp at h
  · simp at h

theorem decDotLen_bounded : Bounded decDotLen := by
  intro rest n h
  unfold decDotLen at h
  split at h
  · rename_i k hk
    have hb := decIntLen_bounds rest k hk
    split at h
    · rename_i dot r hd
      split at h
      · simp at h; subst h
        have hf := fracLen_le r
        have hl : (rest.drop k).length = (dot :: r).length := by rw [hd]
        simp at hl
        omega
      · simp at h
    · simp at h
  · simp at h

theorem dotDecLen_bounded : Bounded dotDecLen := by
  intro rest n h
  unfold dotDecLen at h
  split at h
  · rename_i dot r
    split at h
    · split at h
      · simp at h; subst h
        have := fracLen_le r
        simp; omega
      · simp at h
    · simp at h
  · simp at h

theorem decExpLen_bounded : Bounded decExpLen := by
  intro rest n h
  unfold decExpLen at h
  split at h
  · rename_i k hk
    have hb := decIntLen_bounds rest k hk
    simp at h; subst h
    have := expLen_le (rest.drop k)
    simp at this
    omega
  · simp at h

theorem orElse_bounded {a b : List Char → Option Nat} (ha : Bounded a) (hb : Bounded b) :
    Bounded (fun r => orElse (a r) (b r)) := by
  intro rest n h
  simp only [orElse] at h
  split at h
  · rename_i k hk
    simp at h; subst h
    exact ha rest _ hk
  · exact hb rest n h

theorem numberLen_bounded : Bounded numberLen := by
  have := orElse_bounded hexLen_bounded (orElse_bounded octLen_bounded (orElse_bounded decDotLen_bounded
    (orElse_bounded dotDecLen_bounded decExpLen_bounded)))
  exact this

theorem strBody_bounds (k : StrClasses) (q : Char) :
    ∀ (l : List Char) (skip n : Nat), strBody k q skip l = some n → 0 < n ∧ n ≤ l.length := by
  intro l
  induction l with
  | nil => intro skip n h; cases skip <;> simp [strBody] at h
  | cons c cs ih =>
    intro skip n h
    cases skip with
    | succ s =>
      simp only [strBody, Option.map_eq_some_iff] at h
      obtain ⟨m, hm, rfl⟩ := h
      have := ih s m hm
      simp; omega
    | zero =>
      simp only [strBody] at h
      split at h
      · simp at h; subst h; simp
      · split at h
        · simp only [Option.map_eq_some_iff] at h
          obtain ⟨m, hm, rfl⟩ := h
          have := ih _ m hm
          simp; omega
        · simp at h

theorem stringLen_bounded : Bounded stringLen := by
  intro rest n h
  unfold stringLen at h
  split at h
  · simp at h
  · rename_i c cs
    split at h
    · simp only [Option.map_eq_some_iff] at h
      obtain ⟨m, hm, rfl⟩ := h
      have := strBody_bounds _ _ cs 0 m hm
      simp; omega
    · split at h
      · simp only [Option.map_eq_some_iff] at h
        obtain ⟨m, hm, rfl⟩ := h
        have := strBody_bounds _ _ cs 0 m hm
        simp; omega
      · simp at h

theorem reScan_bounds : ∀ (k : Nat) (l : List Char) (b : Bool) (n : Nat), l.length ≤ k →
    reScan b l = some n → 0 < n ∧ n ≤ l.length := by
  intro k
  induction k with
  | zero =>
    intro l b n hl h
    cases l with
    | nil => cases b <;> simp [reScan] at h
    | cons c cs => simp at hl
  | succ k ih =>
    intro l b n hl h
    cases l with
    | nil => cases b <;> simp [reScan] at h
    | cons c cs =>
      simp at hl
      cases b with
      | false =>
        unfold reScan at h
        split at h
        · simp only [Option.map_eq_some_iff] at h
          obtain ⟨m, hm, rfl⟩ := h
          have := ih cs false m hl hm
          simp; omega
        · split at h
          · cases cs with
            | nil => simp at h
            | cons d ds =>
              simp only at h
              split at h
              · simp only [Option.map_eq_some_iff] at h
                obtain ⟨m, hm, rfl⟩ := h
                have := ih ds false m (by simp at hl; omega) hm
                simp; omega
              · simp at h
          · split at h
            · simp only [Option.map_eq_some_iff] at h
              obtain ⟨m, hm, rfl⟩ := h
              have := ih cs true m hl hm
              simp; omega
            · split at h
              · simp at h; subst h; simp
              · simp at h
      | true =>
        unfold reScan at h
        split at h
        · simp only [Option.map_eq_some_iff] at h
          obtain ⟨m, hm, rfl⟩ := h
          have := ih cs true m hl hm
          simp; omega
        · split at h
          · cases cs with
            | nil => simp at h
            | cons d ds =>
              simp only at h
              split at h
              · simp only [Option.map_eq_some_iff] at h
                obtain ⟨m, hm, rfl⟩ := h
                have := ih ds true m (by simp at hl; omega) hm
                simp; omega
              · simp at h
          · split at h
            · simp only [Option.map_eq_some_iff] at h
              obtain ⟨m, hm, rfl⟩ := h
              have := ih cs false m hl hm
              simp; omega
            · simp at h

theorem regexLen_bounded : Bounded regexLen := by
  intro rest n h
  unfold regexLen at h
  simp only at h
  split at h
  · rename_i m hm
    simp at h; subst h
    have hf := spanLen_le isReFlag (rest.drop m)
    simp at hf
    suffices 0 < m ∧ m ≤ rest.length by omega
    split at hm
    · rename_i s c cs
      split at hm
      · split at hm
        · simp only [Option.map_eq_some_iff] at hm
          obtain ⟨j, hj, rfl⟩ := hm
          have := reScan_bounds _ cs false j (Nat.le_refl _) hj
          simp; omega
        · split at hm
          · cases cs with
            | nil => simp at hm
            | cons d ds =>
              simp only at hm
              split at hm
              · simp only [Option.map_eq_some_iff] at hm
                obtain ⟨j, hj, rfl⟩ := hm
                have := reScan_bounds _ ds false j (Nat.le_refl _) hj
                simp; omega
              · simp at hm
          · split at hm
            · simp only [Option.map_eq_some_iff] at hm
              obtain ⟨j, hj, rfl⟩ := hm
              have := reScan_bounds _ cs true j (Nat.le_refl _) hj
              simp; omega
            · simp at hm
      · simp at hm
    · simp at hm
  · simp at h

end CalmVerif.Proofs.LexerRegex
