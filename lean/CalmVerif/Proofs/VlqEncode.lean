/-
C10 helper lemmas, part 3: the model encoder computes the Spec encoding
(`while` loop fuel suffices, `result[-1] &= mask`, table look-ups never fail).
-/
import CalmVerif.Proofs.VlqTables
import CalmVerif.Proofs.VlqSpec

namespace CalmVerif.Proofs.Vlq
open CalmVerif.Gen.Vlq CalmVerif.Model.Vlq CalmVerif.Spec.VlqV3

theorem ok_bind {α β : Type} (x : α) (f : α → Except Err β) : (Except.ok x >>= f) = f x := rfl

theorem mapE_ok {α β : Type} {f : α → Except Err β} {g : α → β} :
    ∀ {l : List α}, (∀ a ∈ l, f a = .ok (g a)) → mapE f l = .ok (l.map g) := by
  intro l
  induction l with
  | nil => intro _; rfl
  | cons a as ih =>
    intro h
    have ha := h a (by simp)
    have has := ih (fun x hx => h x (by simp [hx]))
    simp [mapE, ha, has]

theorem encLoop_zero (fuel : Nat) : encLoop fuel 0 = .ok [] := by
  unfold encLoop; simp

/-- the loop with fuel `≥ raw` terminates normally, and after clearing the
continuation bit of the last element the result is the Spec digit sequence -/
theorem encLoop_spec : ∀ n, ∀ fuel, 1 ≤ n → n ≤ fuel →
    ∃ ds, encLoop fuel n = .ok ds ∧ clearLast ds = .ok (sextets n) := by
  intro n
  induction n using sextets_induct with
  | small n h =>
    intro fuel h1 hf
    cases fuel with
    | zero => omega
    | succ f =>
      have hz : n / 32 = 0 := by omega
      have hn : n ≠ 0 := by omega
      refine ⟨[((n &&& VLQ_BASE_MASK) ||| VLQ_CONT)], ?_, ?_⟩
      · rw [encLoop]
        simp only [hn, if_false, shift_eq, hz]
        rw [encLoop_zero]
      · simp [clearLast, clear_digit' n h, sextets_small h]
  | big n h ih =>
    intro fuel h1 hf
    cases fuel with
    | zero => omega
    | succ f =>
      obtain ⟨ds, hds, hcl⟩ := ih f (by omega) (by omega)
      have hn : n ≠ 0 := by omega
      refine ⟨(n % 32 + 32) :: ds, ?_, ?_⟩
      · rw [encLoop]
        simp only [hn, if_false, shift_eq, hds, loop_digit]
      · cases ds with
        | nil => simp [clearLast] at hcl
        | cons y ys => simp [clearLast, hcl, sextets_big h]

/-- fuel suffices: `while raw:` started with fuel `raw` never reports non-termination -/
theorem encLoop_fuel (raw : Nat) : encLoop raw raw ≠ .error .nonTermination := by
  by_cases h : raw = 0
  · subst h; simp [encLoop]
  · obtain ⟨ds, hds, _⟩ := encLoop_spec raw raw (by omega) (Nat.le_refl _)
    simp [hds]

theorem mapE_intB64_sextets (n : Nat) : mapE intB64 (sextets n) = .ok (encodeRaw n) :=
  mapE_ok (fun d hd => intB64_eq (sextets_lt n d hd))

/-- the short-circuit threshold only has to lie in 1..32 (below it the loop would
produce the same single digit; 0 would make `encode_vlq(0)` index an empty list) -/
theorem multi_char_range : 1 ≤ VLQ_MULTI_CHAR ∧ VLQ_MULTI_CHAR ≤ 32 := by decide

theorem encodeVlq_eq (i : Int) : encodeVlq i = .ok (encode i) := by
  unfold encodeVlq encode
  simp only [rawOf_eq]
  generalize toRaw i = raw
  have hr := multi_char_range
  split
  · next h =>
    have h32 : raw < 32 := by omega
    rw [intB64_eq (by omega), encodeRaw_small h32]
  · next h =>
    obtain ⟨ds, hds, hcl⟩ := encLoop_spec raw raw (by omega) (Nat.le_refl _)
    simp only [hds, hcl, mapE_intB64_sextets]

theorem flatten_map_encode (l : List Int) : (l.map encode).flatten = encodeList l := by
  induction l with
  | nil => rfl
  | cons v vs ih => simp [encodeList, ih]

theorem encodeVlqs_eq (l : List Int) : encodeVlqs l = .ok (encodeList l) := by
  unfold encodeVlqs
  rw [mapE_ok (g := encode) (fun a _ => encodeVlq_eq a)]
  simp [flatten_map_encode]

end CalmVerif.Proofs.Vlq
