/-
C09 helper lemmas, part 4: lifting the invariant to `writePieces`, `writeFrag`, `writeLoop`;
what has been decoded stays decoded (`Ext`); where the text is written (`posOf`).
-/
import CalmVerif.Proofs.SourceMapInv

namespace CalmVerif.Proofs.SourceMap
open CalmVerif.Model.SourceMap
open CalmVerif.Spec.SourceMapV3

theorem decodeLines_length {t t' : Totals} {ls : List (List (List Int))} {D : List (List Entry)}
    (h : decodeLines t ls = some (t', D)) : D.length = ls.length := by
  induction ls generalizing t D with
  | nil => simp [decodeLines] at h; simp [h.2.symm]
  | cons x xs ih =>
    simp only [decodeLines] at h
    cases hx : decodeLine t 0 x with
    | none => simp [hx] at h
    | some r =>
      obtain ⟨ta, ga, ea⟩ := r
      simp only [hx] at h
      cases hxs : decodeLines ta xs with
      | none => simp [hxs] at h
      | some r2 =>
        obtain ⟨tb, Db⟩ := r2
        simp only [hxs, Option.some.injEq, Prod.mk.injEq] at h
        obtain ⟨rfl, rfl⟩ := h
        simp [ih hxs]

theorem WInv.D_length {st D es} (h : WInv st D es) : D.length = st.done.length := by
  obtain ⟨t1, h1, _⟩ := h.dec
  exact decodeLines_length h1

/-- every entry of every line of `A` is still in the same line of `B` -/
def Mono (A B : List (List Entry)) : Prop := ∀ L e, e ∈ A.getD L [] → e ∈ B.getD L []

theorem Mono.refl (A : List (List Entry)) : Mono A A := fun _ _ h => h
theorem Mono.trans {A B C : List (List Entry)} (h1 : Mono A B) (h2 : Mono B C) : Mono A C :=
  fun L e h => h2 L e (h1 L e h)

theorem getD_snoc (D : List (List Entry)) (es : List Entry) (L : Nat) :
    (D ++ [es]).getD L [] = if L < D.length then D.getD L [] else if L = D.length then es else [] := by
  simp only [List.getD_eq_getElem?_getD, List.getElem?_append]
  split
  · rfl
  · split
    · rename_i h1 h2; subst h2; simp
    · rename_i h1 h2
      have : L - D.length ≠ 0 := by omega
      cases hk : L - D.length with
      | zero => omega
      | succ k => simp

theorem mono_snoc_entry (D : List (List Entry)) (es : List Entry) (e : Entry) :
    Mono (D ++ [es]) (D ++ [es ++ [e]]) := by
  intro L x hx
  rw [getD_snoc] at hx ⊢
  split
  · rename_i h; simpa [h] using hx
  · rename_i h
    simp only [h, if_false] at hx
    split
    · rename_i h2; simp only [h2, if_true] at hx; simp [hx]
    · rename_i h2; simp [h2] at hx

theorem mono_snoc_line (A : List (List Entry)) (l : List Entry) : Mono A (A ++ [l]) := by
  intro L x hx
  rw [getD_snoc]
  split
  · exact hx
  · rename_i h
    rw [List.getD_eq_getElem?_getD, List.getElem?_eq_none (by omega)] at hx
    simp at hx

structure Ext (st : WState) (A : List (List Entry)) (st' : WState) (B : List (List Entry)) : Prop where
  mono : Mono A B
  src : st.sources.keys <+: st'.sources.keys
  nam : st.names.keys <+: st'.names.keys

theorem Ext.refl (st : WState) (A : List (List Entry)) : Ext st A st A :=
  ⟨Mono.refl A, List.prefix_refl _, List.prefix_refl _⟩

theorem Ext.trans {s1 s2 s3 : WState} {A B C : List (List Entry)} (h1 : Ext s1 A s2 B) (h2 : Ext s2 B s3 C) :
    Ext s1 A s3 C :=
  ⟨h1.mono.trans h2.mono, h1.src.trans h2.src, h1.nam.trans h2.nam⟩

/-- one piece: invariant, extension, and the new entry sits in line `st.done.length` -/
theorem writePiece_ext (cc : CharClasses) (st : WState) (D : List (List Entry)) (es : List Entry)
    (h : WInv st D es) (line : List Char) (hne : line ≠ []) (ln cn name source) :
    ∃ D' es', WInv (writePiece cc st line ln cn name source).1 D' es' ∧
      Ext st (D ++ [es]) (writePiece cc st line ln cn name source).1 (D' ++ [es']) ∧
      Ext (emitSeg st ln cn name source) (D ++ [es]) (writePiece cc st line ln cn name source).1 (D' ++ [es']) ∧
      entryOf st (emitSeg st ln cn name source) ln cn name ∈ (D' ++ [es']).getD st.done.length [] := by
  obtain ⟨hs, hn, h1, h2⟩ := writePiece_inv cc st D es h line hne ln cn name source
  have hS := emitSeg_sources_prefix st ln cn name source
  have hN := emitSeg_names_prefix st ln cn name source
  have hlen := h.D_length
  by_cases hnl : endsNl cc.nl line = true
  · obtain ⟨hw, _, _⟩ := h1 hnl
    have hm : Mono (D ++ [es]) ((D ++ [es ++ [entryOf st (emitSeg st ln cn name source) ln cn name]]) ++ [[]]) :=
      (mono_snoc_entry D es _).trans (mono_snoc_line _ _)
    refine ⟨_, _, hw, ⟨hm, by rw [hs]; exact hS, by rw [hn]; exact hN⟩,
      ⟨hm, by rw [hs]; exact List.prefix_refl _, by rw [hn]; exact List.prefix_refl _⟩, ?_⟩
    rw [getD_snoc, getD_snoc]
    simp [← hlen]
  · have hnl' : endsNl cc.nl line = false := by simpa using hnl
    obtain ⟨hw, _, _⟩ := h2 hnl'
    have hm := mono_snoc_entry D es (entryOf st (emitSeg st ln cn name source) ln cn name)
    refine ⟨_, _, hw, ⟨hm, by rw [hs]; exact hS, by rw [hn]; exact hN⟩,
      ⟨hm, by rw [hs]; exact List.prefix_refl _, by rw [hn]; exact List.prefix_refl _⟩, ?_⟩
    rw [getD_snoc]
    simp [← hlen]

theorem writePieces_ext (cc : CharClasses) (lines : List (List Char)) (hne : ∀ l ∈ lines, l ≠ [])
    (st : WState) (D : List (List Entry)) (es : List Entry) (h : WInv st D es) (ln cn name source) :
    ∃ D' es', WInv (writePieces cc st lines ln cn name source) D' es' ∧
      Ext st (D ++ [es]) (writePieces cc st lines ln cn name source) (D' ++ [es']) := by
  induction lines generalizing st D es ln cn with
  | nil => exact ⟨D, es, h, Ext.refl _ _⟩
  | cons l rest ih =>
    obtain ⟨D1, es1, hw1, hx1, _, _⟩ := writePiece_ext cc st D es h l (hne l (by simp)) ln cn name source
    obtain ⟨D2, es2, hw2, hx2⟩ := ih (fun x hx => hne x (by simp [hx])) _ D1 es1 hw1
      (writePiece cc st l ln cn name source).2.1 (writePiece cc st l ln cn name source).2.2
    exact ⟨D2, es2, hw2, hx1.trans hx2⟩

theorem writeFrag_ext (cc : CharClasses) (st : WState) (D : List (List Entry)) (es : List Entry)
    (h : WInv st D es) (f : Frag) :
    ∃ D' es', WInv (writeFrag cc st f) D' es' ∧ Ext st (D ++ [es]) (writeFrag cc st f) (D' ++ [es']) :=
  writePieces_ext cc _ (splitLines_pieces_ne cc.brk f.text) st D es h _ _ _ _

theorem writeLoop_ext (cc : CharClasses) (frags : List Frag) (st : WState) (D : List (List Entry))
    (es : List Entry) (h : WInv st D es) :
    ∃ D' es', WInv (writeLoop cc st frags) D' es' ∧ Ext st (D ++ [es]) (writeLoop cc st frags) (D' ++ [es']) := by
  induction frags generalizing st D es with
  | nil => exact ⟨D, es, h, Ext.refl _ _⟩
  | cons f rest ih =>
    obtain ⟨D1, es1, hw1, hx1⟩ := writeFrag_ext cc st D es h f
    obtain ⟨D2, es2, hw2, hx2⟩ := ih _ D1 es1 hw1
    exact ⟨D2, es2, hw2, hx1.trans hx2⟩

/-- a non-empty fragment: its first piece's entry is in line `st.done.length` of the result -/
theorem writeFrag_first (cc : CharClasses) (st : WState) (D : List (List Entry)) (es : List Entry)
    (h : WInv st D es) (f : Frag) (hne : f.text ≠ []) :
    ∃ D' es', WInv (writeFrag cc st f) D' es' ∧
      Ext (emitSeg st f.lineno f.colno f.name f.source) (D ++ [es]) (writeFrag cc st f) (D' ++ [es']) ∧
      entryOf st (emitSeg st f.lineno f.colno f.name f.source) f.lineno f.colno f.name ∈
        (D' ++ [es']).getD st.done.length [] := by
  unfold writeFrag
  have hp := splitLines_pieces_ne cc.brk f.text
  cases hs : splitLines cc.brk f.text with
  | nil =>
    cases ht : f.text with
    | nil => exact absurd ht hne
    | cons c cs => rw [ht] at hs; exact absurd hs (splitLines_ne_nil _ _ _)
  | cons l rest =>
    rw [hs] at hp
    obtain ⟨D1, es1, hw1, _, hx1, hmem⟩ :=
      writePiece_ext cc st D es h l (hp l (by simp)) f.lineno f.colno f.name f.source
    obtain ⟨D2, es2, hw2, hx2⟩ := writePieces_ext cc rest (fun x hx => hp x (by simp [hx])) _ D1 es1 hw1
      (writePiece cc st l f.lineno f.colno f.name f.source).2.1
      (writePiece cc st l f.lineno f.colno f.name f.source).2.2 f.name f.source
    exact ⟨D2, es2, hw2, hx1.trans hx2, hx2.mono _ _ hmem⟩

end CalmVerif.Proofs.SourceMap
