/-
The renamed program and the decidable statement "the renaming preserves the binding structure".
Definitions only (no Mathlib: the driver evaluates them; Props/C07.lean evaluates them in the kernel on the
witnesses of the known findings).

  renameVal fin      the tree with the `value` of every Identifier the prewalk registered replaced by what
                     `Obfuscator.resolve` answers for it (what the obfuscating printer prints there)
  bindingIso og a b  Spec.Scope occurrence lists `a` (original) and `b` (renamed) describe the same binding
                     structure: same occurrences; every binder keeps kind and scope; original binder ↦ new binder is
                     one-to-one (same partition into variables); free names, `arguments`, undefined labels and — unless
                     obfuscate_globals — top-level names keep their spelling
  bindingPreserved   both, for a program and flags
-/
import CalmVerif.Proofs.ObfAgree
namespace CalmVerif.Obf
open CalmVerif CalmVerif.Unparse

def setAttr : List (String × Val) → String → Val → List (String × Val)
  | [], _, _ => []
  | (b, x) :: rest, a, v => if b == a then (b, v) :: rest else (b, x) :: setAttr rest a v

/-- a renaming of identifier occurrences: path of the Identifier node (innermost step first) ↦ old name ↦ new name -/
abbrev Rho := Path → String → String

mutual
  /-- the tree with the `value` of every `Identifier` node replaced by `ρ path value` -/
  def renameBy (ρ : Rho) (path : Path) : Val → Val
    | .node k as =>
      let as' := renameAttrsBy ρ path as
      if k == "Identifier" then
        match Spec.Scope.lookupAttr as "value" with
        | some (.str s) => .node k (setAttr as' "value" (.str (ρ path s)))
        | _ => .node k as'
      else .node k as'
    | .list xs => .list (renameListBy ρ path "" 0 xs)
    | v => v
  def renameListBy (ρ : Rho) (path : Path) (a : String) : Nat → List Val → List Val
    | _, [] => []
    | i, v :: vs => renameBy ρ ((a, i) :: path) v :: renameListBy ρ path a (i + 1) vs
  def renameAttrsBy (ρ : Rho) (path : Path) : List (String × Val) → List (String × Val)
    | [] => []
    | (a, v) :: rest =>
      (if Val.isMeta a then (a, v)
       else match v with
         | .list xs => (a, .list (renameListBy ρ path a 0 xs))
         | x => (a, renameBy ρ ((a, 0) :: path) x)) :: renameAttrsBy ρ path rest
end

/-- what `Obfuscator.resolve` answers for the Identifier at `path` spelled `s` -/
def rhoFin (fin : Final) : Rho := fun path s =>
  match lookupPath fin.identifiers path with
  | none => s
  | some sid =>
    match lookupChain fin.chains sid with
    | some tables => resolveTables tables s
    | none => s

/-- the renamed program: what the obfuscating printer prints at every Identifier -/
def renameVal (fin : Final) (path : Path) (v : Val) : Val := renameBy (rhoFin fin) path v

def keepsName (og : Bool) (k : Spec.Scope.BKind) : Bool :=
  k == .free || k == .args || k == .nolabel || (k == .global && !og)

def binderPairs : List Spec.Scope.Occ → List Spec.Scope.Occ → Option (List (Spec.Scope.Binder × Spec.Scope.Binder))
  | [], [] => some []
  | o1 :: r1, o2 :: r2 =>
    if o1.path == o2.path && o1.binders.length == o2.binders.length then
      (binderPairs r1 r2).map (fun ps => o1.binders.zip o2.binders ++ ps)
    else none
  | _, _ => none

def bindingIso (og : Bool) (a b : List Spec.Scope.Occ) : Bool :=
  match binderPairs a b with
  | none => false
  | some ps =>
    ps.all (fun (p : Spec.Scope.Binder × Spec.Scope.Binder) =>
      p.1.kind == p.2.kind && p.1.scope == p.2.scope && (!keepsName og p.1.kind || p.1.name == p.2.name))
    && functional ps && functional (ps.map (fun p => (p.2, p.1)))

/-- `scopeAgree` of the model's scope tree with Spec.Scope on the program -/
def scopeAgreeOf (fl : Flags) (program : Val) : Option Bool :=
  match prewalkHook tablesGen fl program with
  | .ok fin => some (scopeAgree fin program)
  | .error _ => none

/-- does obfuscating `program` preserve its binding structure? -/
def bindingPreserved (fl : Flags) (program : Val) : Option Bool :=
  match prewalkHook tablesGen fl program with
  | .ok fin =>
    some (bindingIso fl.obfuscateGlobals (Spec.Scope.resolveProgram program)
      (Spec.Scope.resolveProgram (renameVal fin [] program)))
  | .error _ => none

end CalmVerif.Obf
