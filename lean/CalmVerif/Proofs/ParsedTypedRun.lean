/-
The typing of semantic values along runs of the LR driver, and the accepted tree.

  * `reduce_ty`      one call of a semantic action of a table that passes `closedT`: arguments of certified types give
                     a value of a certified type of the left-hand side;
  * `TokTextOK`      the token-level facts the typing rests on (per token: the boundary signature of its text is
                     one of its terminal's, the text does not end with a line terminator; the same for the comment
                     tokens hidden under it);
  * `TyRel`, `ty_lifts`  the relation between stack values and derivation trees — "if every token of the tree's yield
                     is `TokTextOK`, the value has a certified type of the tree's symbol" — is established by `leaf`
                     and preserved by `reduce` (`Lifts`), hence holds in every reachable configuration (`reach_ginv`);
  * `accepted_good`  the accepted value is `Good` (well typed under `es5Slot`, no printed string ends with a line
                     terminator) and an `ES5Program` node if all shifted tokens are `TokTextOK`; uses the table fact
                     `acceptEntryOK`: an accepting state is entered from state 0 by a goto on a nonterminal whose
                     only type is `wf "ES5Program"`.
-/
import CalmVerif.Proofs.ParsedTyped
import CalmVerif.Proofs.NodePosRun
import CalmVerif.Proofs.ActionsTotalRun
namespace CalmVerif.Proofs.ParsedTyped
open CalmVerif CalmVerif.Model CalmVerif.Model.LR CalmVerif.Model.Actions CalmVerif.Model.ActionDesc
open CalmVerif.Model.ActionFacts CalmVerif.TokenAdj CalmVerif.Unparse
open CalmVerif.Proofs.NodePos CalmVerif.Proofs.ActionsTotal CalmVerif.Proofs.EndToEnd

/-! ### one call -/

theorem closedFromT_get {cert : TCert} {nT : Nat} : ∀ {ps : List (Nat × List Nat)} {es : List Entry},
    closedFromT cert nT ps es = true → ∀ {i : Nat} {q : Nat × List Nat}, ps[i]? = some q →
      ∃ e, es[i]? = some e ∧ entryOKT cert nT ((cert.tys[q.1]?).getD []) q.2 e = true
  | [], [], _, i, q, hq => by simp at hq
  | [], _ :: _, h, _, _, _ => by simp [closedFromT] at h
  | _ :: _, [], h, _, _, _ => by simp [closedFromT] at h
  | (l, rhs) :: ps, e0 :: es, h, i, q, hq => by
    simp only [closedFromT, Bool.and_eq_true] at h
    cases i with
    | zero => simp at hq; subst hq; exact ⟨e0, by simp, h.1⟩
    | succ i =>
      simp at hq
      obtain ⟨e, he, hok⟩ := closedFromT_get h.2 hq
      exact ⟨e, by simpa using he, hok⟩

theorem slotSetsT_length (cert : TCert) (nT : Nat) (conds : List (Nat × List Kind)) :
    ∀ (i : Nat) (rhs : List Nat), (slotSetsT cert nT conds i rhs).length = rhs.length
  | _, [] => rfl
  | i, x :: rest => by simp [slotSetsT, slotSetsT_length cert nT conds (i + 1) rest]

theorem slotSetsT_get (cert : TCert) (nT : Nat) (conds : List (Nat × List Kind)) :
    ∀ (i : Nat) (rhs : List Nat) (n : Nat) (x : Nat), rhs[n]? = some x →
      (slotSetsT cert nT conds i rhs)[n]? = some (filterSlotT conds (i + n) (symTys cert nT x))
  | _, [], n, x, h => by simp at h
  | i, y :: rest, 0, x, h => by simp at h; subst h; simp [slotSetsT]
  | i, y :: rest, n + 1, x, h => by
    simp at h
    have := slotSetsT_get cert nT conds (i + 1) rest n x h
    simp only [slotSetsT, List.getElem?_cons_succ, this]
    congr 2; omega

/-- the arguments of a call have types of the certificate of the right-hand-side symbols -/
def ArgsTy (cx : TokenAdj.Ctx) (cert : TCert) (nT : Nat) (rhs : List Nat) (args : List PVal) : Prop :=
  args.length = rhs.length ∧
  ∀ (i : Nat) (pv : PVal) (x : Nat), args[i]? = some pv → rhs[i]? = some x →
    ∃ ty ∈ symTys cert nT x, concT cx ty pv.v

theorem slotsTy_of_args {cx : TokenAdj.Ctx} {cert : TCert} {nT : Nat} {rhs : List Nat} {args : List PVal}
    (hargs : ArgsTy cx cert nT rhs args) (lp : Nat × Nat) (lc : Nat → Nat → Option Int) (wc : Bool)
    {conds : List (Nat × List Kind)}
    (hconds : conds.all (condHolds (args.map (fun a => kindOf a.v))) = true) :
    SlotsTy cx (NodePos.mkCtx args lp lc wc) (slotSetsT cert nT conds 1 rhs) := by
  constructor
  · simp [NodePos.mkCtx, slotSetsT_length, hargs.1]
  · intro i pv tys hpv htys
    simp only [NodePos.mkCtx] at hpv
    have hlt : i < rhs.length := by rw [← hargs.1]; exact (List.getElem?_eq_some_iff.mp hpv).1
    have hx : rhs[i]? = some rhs[i] := List.getElem?_eq_getElem hlt
    rw [slotSetsT_get cert nT conds 1 rhs i _ hx] at htys
    simp only [Option.some.injEq] at htys
    subst htys
    obtain ⟨ty, hty, hc⟩ := hargs.2 i pv _ hpv hx
    refine ⟨ty, ?_, hc⟩
    simp only [filterSlotT, List.mem_filter, List.all_eq_true, Bool.or_eq_true, bne_iff_ne, ne_eq]
    refine ⟨hty, ?_⟩
    intro cond hcond
    by_cases hc1 : cond.1 = 1 + i
    · right
      have hh := List.all_eq_true.mp hconds cond hcond
      unfold condHolds at hh
      have hk : (args.map (fun a => kindOf a.v))[cond.1 - 1]? = some (kindOf pv.v) := by
        rw [hc1]; simp [hpv]
      rw [hk] at hh
      simp only [Bool.and_eq_true] at hh
      rw [← conc_kindT hc]
      exact hh.2
    · exact Or.inl hc1

/-- **one call**: a value of a certified type of the left-hand side -/
theorem reduce_ty {cx : TokenAdj.Ctx} (hslot : cx.slot = es5Slot) {cert : TCert} {T : LR.Tables} {table : List Entry}
    (hclosed : closedT cert T table = true) {p lhs : Nat} {rhs : List Nat}
    (hp : T.prods[p]? = some (lhs, rhs)) {args : List PVal} (hargs : ArgsTy cx cert T.numTerminals rhs args)
    {wc : Bool} {lc : Nat → Nat → Option Int} {lp : Nat × Nat}
    (hextra : ∀ pos, ∀ a ∈ nodeExtra (NodePos.mkCtx args lp lc wc) pos,
      a.1 = "@comments" ∧ slotOK (.node ["Comments"] true) a.2 = true ∧ Good cx a.2)
    {pv : PVal} (hpv : Model.Actions.reduce table wc lc p args lp = .ok pv) :
    ∃ ty ∈ (cert.tys[lhs]?).getD [], concT cx ty pv.v := by
  obtain ⟨e, he, hentry⟩ := closedFromT_get hclosed hp
  simp only [] at hentry
  simp only [entryOKT, Bool.and_eq_true] at hentry
  have hrow : ∃ conds, conds.all (condHolds (args.map (fun a => kindOf a.v))) = true ∧
      rowOKT cert T.numTerminals ((cert.tys[lhs]?).getD []) rhs conds
        (selectRow e (args.map (fun a => kindOf a.v))) = true := by
    unfold selectRow
    split
    · next row hrow =>
      exact ⟨row.1, by simpa using List.find?_some hrow,
        List.all_eq_true.mp hentry.2 row (List.mem_of_find?_eq_some hrow)⟩
    · exact ⟨[], by simp, hentry.1⟩
  obtain ⟨conds, hconds, hrowok⟩ := hrow
  have hS := slotsTy_of_args hargs lp lc wc hconds
  have hne : (slotSetsT cert T.numTerminals conds 1 rhs).any (·.isEmpty) = false := by
    rw [Bool.eq_false_iff]
    intro hany
    rw [List.any_eq_true] at hany
    obtain ⟨tys, hmem, hemp⟩ := hany
    obtain ⟨i, hi⟩ := List.getElem?_of_mem hmem
    have hlt : i < args.length := by
      have := (List.getElem?_eq_some_iff.mp hi).1
      rw [slotSetsT_length] at this
      rw [hargs.1]; exact this
    obtain ⟨ty, hty, _⟩ := hS.shape i args[i] tys (by simp [NodePos.mkCtx, List.getElem?_eq_getElem hlt]) hi
    simp only [List.isEmpty_iff] at hemp
    rw [hemp] at hty
    simp at hty
  simp only [rowOKT, hne, Bool.false_or] at hrowok
  obtain ⟨e', v, he', hev, rfl⟩ := reduce_ok hpv
  rw [he] at he'
  simp only [Option.some.injEq] at he'
  subst he'
  split at hrowok
  · next tys htys =>
    obtain ⟨ty, hty, hc⟩ := tyD_sound hslot hS hextra _ tys v htys hev
    have := List.all_eq_true.mp hrowok ty hty
    rw [List.any_eq_true] at this
    obtain ⟨ty', hty', hle⟩ := this
    exact ⟨ty', hty', tyLe_sound hc hle⟩
  · simp at hrowok

/-! ### tokens -/

/-- what the typing needs to know about a token: the boundary signature of its text is one of its terminal's
    (`cert.termSigs`), the text does not end with a line terminator, and the comment tokens hidden under it are
    spelled as comments and do not end with a line terminator either -/
def TokTextOK (cert : TCert) (ty : Lexer.Token → Nat) (t : Lexer.Token) : Prop :=
  ((cert.termSigs[ty t]?).getD []).contains (sig (String.ofList t.value)) = true ∧
  endsOK (String.ofList t.value) = true ∧
  ∀ h ∈ t.hidden,
    (h.type = "LINE_COMMENT" → sig (String.ofList h.value) = .lineComment) ∧
    (h.type = "BLOCK_COMMENT" → sig (String.ofList h.value) = .blockComment) ∧
    endsOK (String.ofList h.value) = true

/-- the shape of the `Comments` node `set_comments` builds -/
theorem commentsOf_spec {tk : Tok} {cv : Val} (h : commentsOf tk = some cv) :
    ∃ xs p0, cv = .node "Comments" [("children", .list xs), ("@pos", p0), ("@tokmap", .list [])] ∧
      ∀ x ∈ xs, ∃ k ty value lp ln col, (ty, value, lp, ln, col) ∈ tk.hidden ∧
        ((k = "LineComment" ∧ ty = "LINE_COMMENT") ∨ (k = "BlockComment" ∧ ty = "BLOCK_COMMENT")) ∧
        x = .node k [("value", .str value), ("@pos", posVal lp ln col),
                     ("@tokmap", tokmapVal [(value, [posVal lp ln col])])] := by
  unfold commentsOf at h
  simp only [] at h
  split at h
  · simp at h
  · next first p0 rest hcs =>
    simp only [Option.some.injEq] at h
    refine ⟨_, _, h.symm, ?_⟩
    intro x hx
    simp only [List.mem_map, List.mem_filterMap] at hx
    obtain ⟨⟨n, p⟩, ⟨⟨ty, value, lp, ln, col⟩, hmem, hk⟩, rfl⟩ := hx
    simp only [Option.map_eq_some_iff, Prod.mk.injEq] at hk
    obtain ⟨k, hkind, rfl, _⟩ := hk
    refine ⟨k, ty, value, lp, ln, col, hmem, ?_, rfl⟩
    split at hkind
    · next h1 => exact Or.inl ⟨by simpa using hkind.symm, by simpa using h1⟩
    · split at hkind
      · next h2 => exact Or.inr ⟨by simpa using hkind.symm, by simpa using h2⟩
      · simp at hkind

/-- the `Comments` node `set_comments` builds from the comments hidden under a token is good -/
theorem comments_good {cx : TokenAdj.Ctx} (hslot : cx.slot = es5Slot) {t : Lexer.Token}
    (hh : ∀ h ∈ t.hidden,
      (h.type = "LINE_COMMENT" → sig (String.ofList h.value) = .lineComment) ∧
      (h.type = "BLOCK_COMMENT" → sig (String.ofList h.value) = .blockComment) ∧
      endsOK (String.ofList h.value) = true)
    {cv : Val} (h : commentsOf (Parser.toTok t) = some cv) :
    slotOK (.node ["Comments"] true) cv = true ∧ Good cx cv := by
  obtain ⟨xs, p0, rfl, hxs⟩ := commentsOf_spec h
  have hchild : ∀ x ∈ xs, kindIn ["LineComment", "BlockComment"] x = true ∧ Good cx x := by
    intro x hx
    obtain ⟨k, ty, value, lp, ln, col, hmem, hkk, rfl⟩ := hxs x hx
    simp only [Parser.toTok, List.mem_map, Prod.mk.injEq] at hmem
    obtain ⟨hc, hhc, rfl, rfl, _, _, _⟩ := hmem
    obtain ⟨hl, hb, he⟩ := hh hc hhc
    refine ⟨by rcases hkk with ⟨rfl, _⟩ | ⟨rfl, _⟩ <;> simp [kindIn], ?_⟩
    rw [good_node]
    intro b hb' hpb
    simp only [List.mem_cons, List.mem_nil_iff, or_false] at hb'
    rcases hb' with rfl | rfl | rfl
    · simp only []
      rw [hslot, slotKey_value]
      refine ⟨?_, good_str he⟩
      rcases hkk with ⟨rfl, hty⟩ | ⟨rfl, hty⟩
      · rw [es5Slot_linecomment]; simp [slotOK, hl hty]
      · rw [es5Slot_blockcomment]; simp [slotOK, hb hty]
    · exact absurd hpb (show ¬ printedAttr "@pos" = true by decide)
    · exact absurd hpb (show ¬ printedAttr "@tokmap" = true by decide)
  refine ⟨by simp [slotOK, kindIn], ?_⟩
  rw [good_node]
  intro a ha hp
  simp only [List.mem_cons, List.mem_nil_iff, or_false] at ha
  rcases ha with rfl | rfl | rfl
  · simp only []
    have hkey : slotKey "children" = "children" := by decide
    rw [hslot, hkey, es5Slot_comments_children]
    refine ⟨?_, good_list.mpr (fun x hx => (hchild x hx).2)⟩
    simp only [slotOK, List.all_eq_true]
    exact fun x hx => (hchild x hx).1
  · exact absurd hp (show ¬ printedAttr "@pos" = true by decide)
  · exact absurd hp (show ¬ printedAttr "@tokmap" = true by decide)

/-! ### along the run -/

section run
variable {g : G} {T : LR.Tables} {cert : TCert} {table : List Entry} {cx : TokenAdj.Ctx}
variable {S : Sem Lexer.Token PVal Lexer.LexState Parser.PErr}
variable {wcOf : Lexer.LexState → Bool} {lcOf : Lexer.LexState → Nat → Nat → Option Int}
variable {posOf : Lexer.LexState → Nat × Nat}

/-- stack value vs derivation tree: a terminal's value is its token, a nonterminal's carries no token; and if all
    tokens of the yield are `TokTextOK`, the value has a certified type of the symbol -/
def TyRel (cx : TokenAdj.Ctx) (cert : TCert) (T : LR.Tables) (ty : Lexer.Token → Nat) (v : PVal)
    (tr : Tree Lexer.Token) : Prop :=
  (match tr with
    | .leaf t => v = Model.Actions.leaf (Parser.toTok t)
    | .node _ _ => v.tok = none) ∧
  ((∀ t ∈ tr.yield, TokTextOK cert ty t) →
    match tr with
    | .leaf t => concT cx (Ty.str ((cert.termSigs[ty t]?).getD [])) v.v
    | .node p _ => ∃ lhs rhs, T.prods[p]? = some (lhs, rhs) ∧ ∃ ty' ∈ (cert.tys[lhs]?).getD [], concT cx ty' v.v)

theorem ty_lifts (hslot : cx.slot = es5Slot) (hgt : GT g T) (h0 : prod0OK g = true)
    (hty : ∀ t, S.ty t ≤ T.numTerminals) (hclosed : closedT cert T table = true)
    (hS : ActSem S Parser.toTok table wcOf lcOf posOf) : Lifts T S (TyRel cx cert T S.ty) := by
  constructor
  · intro t
    refine ⟨hS.leaf t, ?_⟩
    intro htok
    obtain ⟨h1, h2, _⟩ := htok t (by simp [Tree.yield])
    rw [hS.leaf]
    exact ⟨_, rfl, h1, h2⟩
  · intro p args src v trees lhs hr hall hp hv
    have hred := hS.reduce hr
    refine ⟨?_, ?_⟩
    · obtain ⟨e, w, _, _, rfl⟩ := reduce_ok hred
      rfl
    · intro htok
      simp only [Tree.yield] at htok
      have hq : (lhs, symList T S.ty trees) ∈ g.prods := by
        rw [hgt.prods]; exact List.mem_of_getElem? hp
      -- the arguments have certified types
      have hargs : ArgsTy cx cert T.numTerminals (symList T S.ty trees) args := by
        constructor
        · rw [hall.length_eq, symList_eq_map]; simp
        · intro i pv x hpv hx
          obtain ⟨tr, htr, hrel⟩ := hall.get hpv
          have hsym : x = tr.sym T S.ty := by
            rw [symList_eq_map, List.getElem?_map, htr] at hx
            simpa using hx.symm
          subst hsym
          have hval := validList_mem hv (List.mem_of_getElem? htr)
          have hmem : tr.sym T S.ty ∈ (lhs, symList T S.ty trees).2 := List.mem_of_getElem? hx
          have hsub : ∀ t ∈ tr.yield, TokTextOK cert S.ty t :=
            fun t ht => htok t (mem_yieldList (List.mem_of_getElem? htr) ht)
          have hconc := hrel.2 hsub
          rcases child_cases hgt h0 hty hq hmem hval with ⟨t, rfl, hlt⟩ | ⟨p', cs, l, rfl, hp', _⟩
          · refine ⟨_, ?_, hconc⟩
            simp [symTys, Tree.sym, hlt]
          · obtain ⟨l', r', hp'', ty', hty', hc⟩ := hconc
            rw [hp'] at hp''
            simp only [Option.some.injEq, Prod.mk.injEq] at hp''
            obtain ⟨rfl, _⟩ := hp''
            refine ⟨ty', ?_, hc⟩
            rw [sym_node hp']
            have hnlt : ¬ (T.numTerminals + l < T.numTerminals) := by omega
            simp only [symTys, hnlt, if_false, Nat.add_sub_cancel_left]
            exact hty'
      -- comments attached by the action
      have hextra : ∀ pos, ∀ a ∈ nodeExtra (NodePos.mkCtx args (posOf src) (lcOf src) (wcOf src)) pos,
          a.1 = "@comments" ∧ slotOK (.node ["Comments"] true) a.2 = true ∧ Good cx a.2 := by
        intro pos a ha
        unfold nodeExtra at ha
        split at ha
        · next cv hcv =>
          simp only [List.mem_singleton] at ha
          subst ha
          refine ⟨rfl, ?_⟩
          split at hcv
          · next idx hwc hidx =>
            split at hcv
            · next pv' hpv' =>
              obtain ⟨_, hget⟩ := slot?_succ hpv'
              simp only [NodePos.mkCtx] at hget
              obtain ⟨tr, htr, hrel⟩ := hall.get hget
              cases tr with
              | leaf t =>
                have hleaf := hrel.1
                simp only [] at hleaf
                rw [hleaf] at hcv
                simp only [Model.Actions.leaf, Option.bind_some] at hcv
                have htk := htok t (mem_yieldList (List.mem_of_getElem? htr) (by simp [Tree.yield]))
                exact comments_good hslot htk.2.2 hcv
              | node p' cs =>
                have hnone := hrel.1
                simp only [] at hnone
                rw [hnone] at hcv
                simp at hcv
            · simp at hcv
          · simp at hcv
        · simp at ha
      exact ⟨lhs, _, hp, reduce_ty hslot hclosed hp hargs hextra hred⟩

/-- accepting states are entered from state 0 only, by a goto on a nonterminal whose only type is a well-typed
    `ES5Program` node (never by a shift) -/
def acceptEntryOK (cert : TCert) (T : LR.Tables) (acc : List Nat) : Bool :=
  (match T.goto[0]? with
    | some row => rowAll (fun nt s => !acc.contains s || ((cert.tys[nt]?).getD []).all (· == Ty.wf "ES5Program")) row
    | none => true) &&
  (match T.action[0]? with
    | some row => rowAll (fun _ code => match decodeAct code with
        | .shift s => !acc.contains s
        | _ => true) row
    | none => true)

variable {R : Source Lexer.Token Lexer.LexState Parser.PErr} {certS : List (List Nat)} {acc : List Nat}
variable {Rel : PVal → Tree Lexer.Token → Prop}

/-- the accepted value is the top of the stack; its tree is entered from state 0 into an accepting state and its
    yield consists of shifted tokens -/
theorem accept_top (h : tablesValid T certS acc = true)
    {c : Config Lexer.Token PVal Lexer.LexState} (hinv : GInv T S Rel c) {v : PVal}
    (hs : step T S R c = .inr (.accepted v)) :
    ∃ tr st, Rel v tr ∧ st ∈ acc ∧ edge T S.ty 0 tr st ∧ ∀ t ∈ tr.yield, t ∈ c.shifted := by
  obtain ⟨trees, hstack, hyld, hrel⟩ := hinv
  unfold step at hs
  split at hs
  · simp at hs
  · next st below hst =>
    split at hs
    · simp at hs
    · next s c1 hf => unfold doShift at hs; split at hs <;> simp at hs
    · next p c1 hf =>
      unfold doReduce at hs
      split at hs
      · simp at hs
      · split at hs
        · split at hs
          · simp at hs
          · split at hs
            · simp at hs
            · split at hs <;> simp at hs
        · simp at hs
    · next c1 hf =>
      obtain ⟨h1, h2, h3, hdisj⟩ := fetch_spec' hf
      split at hs
      · next v' rest hv =>
        simp only [Sum.inr.injEq, Outcome.accepted.injEq] at hs
        subst hs
        have hact : actionOf T st (lookTermOf T S c1) = some .accept := by
          rcases hdisj with ⟨p, _, hp⟩ | hp
          · simp at hp
          · exact hp.symm
        obtain ⟨code, hdec, hok⟩ := tv_action h hact
        simp only [actionEntryOK, hdec, Bool.and_eq_true, bne_iff_ne, ne_eq] at hok
        have hmem : st ∈ acc := by simpa using hok.1
        rw [h2] at hv
        rw [hv] at hrel
        rw [hst] at hstack
        cases hrel with
        | @cons _ tr _ trs hvr hrest =>
          cases hstack with
          | @push q qs _ _ _ hprev he hvalid =>
            have hq : q = 0 := (edge_facts h he).2.2 hmem
            subst hq
            refine ⟨tr, st, hvr, hmem, he, ?_⟩
            intro t ht
            have : t ∈ yieldList (tr :: trs).reverse := by
              simp only [List.reverse_cons, yieldList_append, List.mem_append]
              right
              simp [yieldList, ht]
            rw [hyld] at this
            simpa using this
      · simp at hs
    · next c1 hf =>
      unfold doError at hs
      split at hs <;> simp at hs

/-- **the accepted value is good** when all shifted tokens are `TokTextOK` -/
theorem accepted_good (hslot : cx.slot = es5Slot) (h : tablesValid T certS acc = true)
    (hacc : acceptEntryOK cert T acc = true)
    {c : Config Lexer.Token PVal Lexer.LexState} (hinv : GInv T S (TyRel cx cert T S.ty) c)
    (htok : ∀ t ∈ c.shifted, TokTextOK cert S.ty t) {v : PVal}
    (hs : step T S R c = .inr (.accepted v)) : ∃ as, v.v = .node "ES5Program" as ∧ Good cx v.v := by
  obtain ⟨tr, st, hrel, hst, hedge, hyield⟩ := accept_top h hinv hs
  have hconc := hrel.2 (fun t ht => htok t (hyield t ht))
  simp only [acceptEntryOK, Bool.and_eq_true] at hacc
  cases tr with
  | leaf t =>
    exfalso
    simp only [edge] at hedge
    unfold actionOf at hedge
    split at hedge
    · next row hrow =>
      have h2 := hacc.2
      rw [hrow] at h2
      simp only [] at h2
      simp only [Option.map_eq_some_iff] at hedge
      obtain ⟨code, hcode, hdec⟩ := hedge
      have := rowAll_lookup h2 hcode
      rw [hdec] at this
      have hnot : st ∉ acc := by simpa using this
      exact absurd hst hnot
    · simp at hedge
  | node p cs =>
    simp only [edge] at hedge
    obtain ⟨lhs, rhs, hp, hg⟩ := hedge
    simp only [] at hconc
    obtain ⟨lhs', rhs', hp', ty', hty', hc⟩ := hconc
    rw [hp] at hp'
    simp only [Option.some.injEq, Prod.mk.injEq] at hp'
    obtain ⟨rfl, _⟩ := hp'
    unfold gotoOf at hg
    split at hg
    · next row hrow =>
      have h1 := hacc.1
      rw [hrow] at h1
      simp only [] at h1
      have := rowAll_lookup h1 hg
      simp only [Bool.or_eq_true, Bool.not_eq_true', List.all_eq_true, beq_iff_eq] at this
      rcases this with hn | hall
      · have : st ∉ acc := by simpa using hn
        exact absurd hst this
      · have := hall ty' hty'
        subst this
        obtain ⟨as, hv, hg⟩ := hc
        exact ⟨as, hv, hg⟩
    · simp at hg

end run

end CalmVerif.Proofs.ParsedTyped
