/-
C09 helper lemmas, part 5: the writer's idea of (generated line, generated column) is the
LF/CR/CRLF position of the end of the text written so far.
-/
import CalmVerif.Proofs.SourceMapLoop

namespace CalmVerif.Proofs.SourceMap
open CalmVerif.Model.SourceMap
open CalmVerif.Spec.SourceMapV3

/-- number of completed mapping lines and `_sink_column` -/
def HasPos (st : WState) (p : Nat × Nat) : Prop :=
  st.done.length = p.1 ∧ st.book.sink.curr = (p.2 : Int)

theorem hasPos_init : HasPos WState.init (endPos []) := ⟨rfl, rfl⟩

theorem writePiece_pos (cc : CharClasses) (hcc : ClassesOK cc) (st : WState) (line : List Char)
    (ln cn name source) (p : Nat × Nat) (h : HasPos st p) :
    HasPos (writePiece cc st line ln cn name source).1 (piecePos p line) := by
  rw [writePiece_fst, hcc.nl_eq]
  unfold piecePos
  obtain ⟨h1, h2⟩ := h
  split
  · exact ⟨by simp [pushLine, emitSeg_done, h1], rfl⟩
  · refine ⟨by simp [emitSeg_done, h1], ?_⟩
    simp [Cell.set, Cell.abs, emitSeg_sink, h2]

theorem writePieces_pos (cc : CharClasses) (hcc : ClassesOK cc) (lines : List (List Char)) (st : WState)
    (ln cn name source) (p : Nat × Nat) (h : HasPos st p) :
    HasPos (writePieces cc st lines ln cn name source) (lines.foldl piecePos p) := by
  induction lines generalizing st ln cn p with
  | nil => exact h
  | cons l rest ih =>
    simp only [writePieces, List.foldl]
    exact ih _ _ _ _ (writePiece_pos cc hcc st l ln cn name source p h)

theorem writeFrag_pos (cc : CharClasses) (hcc : ClassesOK cc) (st : WState) (f : Frag) (p : Nat × Nat)
    (h : HasPos st p) : HasPos (writeFrag cc st f) (endPosFrom f.text p.1 p.2) := by
  rw [← foldl_piecePos_splitLines cc.brk hcc.brk_cr hcc.brk_lf]
  exact writePieces_pos cc hcc _ st _ _ _ _ p h

theorem getLast?_append_cons (T : List Char) (c : Char) (cs : List Char) :
    (T ++ c :: cs).getLast? = (c :: cs).getLast? := by
  rw [List.getLast?_append, List.getLast?_eq_some_getLast (List.cons_ne_nil c cs)]; rfl

theorem writeLoop_pos (cc : CharClasses) (hcc : ClassesOK cc) (frags : List Frag) (st : WState)
    (T : List Char) (h : HasPos st (endPos T))
    (hns : noSplitCRLF (T.getLast? == some '\r') (frags.map (·.text)) = true) :
    HasPos (writeLoop cc st frags) (endPos (T ++ (frags.map (·.text)).flatten)) := by
  induction frags generalizing st T with
  | nil => simpa [writeLoop] using h
  | cons f rest ih =>
    simp only [writeLoop, List.foldl_cons, List.map_cons, List.flatten_cons]
    cases ht : f.text with
    | nil =>
      simp only [ht, List.map_cons, noSplitCRLF] at hns
      have : writeFrag cc st f = st := by simp [writeFrag, ht, splitLines, writePieces]
      rw [this]
      simpa [writeLoop] using ih st T h hns
    | cons c cs =>
      simp only [ht, List.map_cons, noSplitCRLF, Bool.and_eq_true, Bool.not_eq_true'] at hns
      obtain ⟨hsplit, hrest⟩ := hns
      have hcut : ¬ (T.getLast? = some '\r' ∧ (c :: cs).head? = some '\n') := by
        rintro ⟨h1, h2⟩
        simp only [List.head?_cons, Option.some.injEq] at h2
        subst h2
        simp [h1] at hsplit
      have hp : HasPos (writeFrag cc st f) (endPos (T ++ c :: cs)) := by
        have := writeFrag_pos cc hcc st f _ h
        rw [ht] at this
        unfold endPos at this ⊢
        rw [endPosFrom_append T (c :: cs) 0 0 hcut]
        exact this
      have := ih (writeFrag cc st f) (T ++ c :: cs) hp (by rw [getLast?_append_cons]; exact hrest)
      simpa [writeLoop, List.append_assoc] using this

theorem noSplitCRLF_append (b : Bool) (xs ys : List (List Char))
    (h : noSplitCRLF b (xs ++ ys) = true) : noSplitCRLF b xs = true := by
  induction xs generalizing b with
  | nil => rfl
  | cons x xs ih =>
    cases x with
    | nil => simp only [List.cons_append, noSplitCRLF] at h ⊢; exact ih b h
    | cons c cs =>
      simp only [List.cons_append, noSplitCRLF, Bool.and_eq_true] at h ⊢
      exact ⟨h.1, ih _ h.2⟩

end CalmVerif.Proofs.SourceMap
