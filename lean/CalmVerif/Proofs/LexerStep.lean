/-
Helper lemmas for C06 about Model.Lexer: what `get_lexer_token`, `_set_tokens`, `_get_update_token`
and the `/` branch of `_token` do to the state and which token they return.
-/
import CalmVerif.Model.Lexer
import CalmVerif.Proofs.LexerGap

namespace CalmVerif.Proofs.LexerStep
open CalmVerif.Model.TokenRegex CalmVerif.Model.PlyLex CalmVerif.Model.Lexer
open CalmVerif.Proofs.LexerRegex CalmVerif.Proofs.LexerPly CalmVerif.Proofs.LexerGap
open CalmVerif.Spec.LexSeg CalmVerif.Gen

/-- the parts of the state a lexing step never changes -/
def Frame (st st' : LexState) : Prop :=
  st'.text = st.text ∧ st'.yieldComments = st.yieldComments ∧ st'.withComments = st.withComments ∧
  st'.nextTokens = st.nextTokens

theorem Frame.refl (st : LexState) : Frame st st := ⟨rfl, rfl, rfl, rfl⟩

theorem Frame.trans {a b c : LexState} (h1 : Frame a b) (h2 : Frame b c) : Frame a c :=
  ⟨h2.1.trans h1.1, h2.2.1.trans h1.2.1, h2.2.2.1.trans h1.2.2.1, h2.2.2.2.trans h1.2.2.2⟩

/-- a raw ply token as `get_lexer_token` returns it -/
structure RawTok (s : LexerState) (st : LexState) (t : Token) (st1 : LexState) : Prop where
  frame : Frame st st1
  le : st.lexpos ≤ t.lexpos
  ign : AllIgnored s (slice st.text st.lexpos t.lexpos)
  ne : t.value ≠ []
  bound : t.lexpos + t.value.length ≤ st.text.length
  val : slice st.text t.lexpos (t.lexpos + t.value.length) = t.value
  lexpos : st1.lexpos = t.lexpos + t.value.length
  auto : t.auto = false
  rule : ∃ r, FirstMatch (rulesOf s) (st.text.drop t.lexpos) r t.value.length ∧
    t.type = ruleFn (afterPeriod st) r t.value
  lineno : t.lineno = st.lineno
  colno : colnoAt st t.lexpos = .ok t.colno
  nl : st1.newlineIdx = st.newlineIdx ++ nlOffsets t.value t.lexpos ∧
       st1.lineno = st.lineno + (nlOffsets t.value t.lexpos).length

theorem updateNewlineIdx_frame (st : LexState) (p : Nat) (v : List Char) :
    Frame st (updateNewlineIdx st p v) ∧ (updateNewlineIdx st p v).lexpos = st.lexpos := by
  simp [updateNewlineIdx, Frame]

theorem getLexerToken_some (s : LexerState) (st : LexState) (t : Token) (st1 : LexState)
    (h : getLexerToken s st = .ok (some t, st1)) : RawTok s st t st1 := by
  unfold getLexerToken at h
  split at h
  · simp at h
  · simp at h
  · split at h <;> simp at h
  · rename_i ty start len hp
    obtain ⟨hle, hign, hpos, hb, r, hfm, hty⟩ := plyToken_tok _ _ _ _ _ _ hp
    split at h
    · simp at h
    · rename_i colno _
      simp only [Except.ok.injEq, Prod.mk.injEq, Option.some.injEq] at h
      obtain ⟨rfl, rfl⟩ := h
      have hlen : ((st.text.drop start).take len).length = len := by
        simp; omega
      constructor
      · simp [updateNewlineIdx, Frame]
      · exact hle
      · exact hign
      · simp only; intro h0; rw [h0] at hlen; simp at hlen; omega
      · simp only; rw [hlen]; exact hb
      · simp only; rw [hlen, slice_eq_take_drop]
      · simp only [updateNewlineIdx]; rw [hlen]
      · rfl
      · refine ⟨r, ?_, ?_⟩
        · simp only; rw [hlen]; exact hfm
        · exact hty
      · rfl
      · assumption
      · simp [updateNewlineIdx]

theorem getLexerToken_none (s : LexerState) (st st1 : LexState)
    (h : getLexerToken s st = .ok (none, st1)) :
    Frame st st1 ∧ AllIgnored s (st.text.drop st.lexpos) := by
  unfold getLexerToken at h
  split at h
  · rename_i p hp
    simp at h; subst h
    exact ⟨by simp [Frame], (plyToken_eof _ _ _ _ hp).1⟩
  · simp at h
  · split at h <;> simp at h
  · split at h <;> simp at h

/-! ### `_set_tokens`, the parenthesis stack -/

theorem setTokens_spec (st : LexState) (tok : Option Token) (st2 : LexState)
    (h : setTokens st tok = .ok st2) :
    Frame st st2 ∧ (st2.lexpos = st.lexpos ∧ st2.lineno = st.lineno ∧ st2.newlineIdx = st.newlineIdx) ∧
    st2.curToken = tok := by
  unfold setTokens at h
  split at h
  · simp at h
  · simp only [Except.ok.injEq] at h
    subst h
    simp [Frame]

theorem pushParen_spec (st : LexState) (cur : Token) (st2 : LexState) (h : pushParen st cur = .ok st2) :
    ∃ ts, st2 = { st with tokenStack := ts } := by
  unfold pushParen at h
  repeat' split at h
  all_goals try (simp at h)
  all_goals exact ⟨_, h.symm⟩

theorem popParen_spec (st : LexState) (st2 : LexState) (h : popParen st = .ok st2) :
    ∃ ts, st2 = { st with tokenStack := ts } := by
  unfold popParen at h
  repeat' split at h
  all_goals try (simp at h)
  all_goals exact ⟨_, h.symm⟩

theorem updateStack_spec (st : LexState) (cur : Token) (st2 : LexState)
    (h : updateStack st cur = .ok st2) :
    ∃ ts, st2 = { st with tokenStack := ts } := by
  unfold updateStack at h
  split at h
  · simp at h
  · rename_i st1 h1
    have e1 : ∃ ts, st1 = { st with tokenStack := ts } := by
      split at h1
      · exact pushParen_spec _ _ _ h1
      · simp at h1; exact ⟨st.tokenStack, by rw [← h1]⟩
    obtain ⟨ts1, rfl⟩ := e1
    split at h
    · simp at h
    · rename_i st2' h2
      have e2 : ∃ ts, st2' = { st with tokenStack := ts } := by
        split at h2
        · obtain ⟨ts, hts⟩ := popParen_spec _ _ h2
          exact ⟨ts, by rw [hts]⟩
        · simp at h2; exact ⟨ts1, by rw [← h2]⟩
      obtain ⟨ts2, rfl⟩ := e2
      split at h
      · simp at h
      · simp at h; exact ⟨ts2, h.symm⟩

/-- what `_get_update_token` / the `/` branch hand to the loop of `_token` -/
def RawStep (st : LexState) (r : Option Token) (st' : LexState) : Prop :=
  Frame st st' ∧
  match r with
  | none => ∃ s, AllIgnored s (st.text.drop st.lexpos)
  | some t => ∃ s raw st1, RawTok s st raw st1 ∧
      (st'.lexpos = st1.lexpos ∧ st'.lineno = st1.lineno ∧ st'.newlineIdx = st1.newlineIdx) ∧
      (t = raw ∨ (t.auto = true ∧ t.type = "AUTOSEMI" ∧ t.value = [';'] ∧ t.lexpos = raw.lexpos ∧
                  raw.type = "LINE_TERMINATOR" ∧ s = .initial))

theorem getUpdateToken_spec (st : LexState) (r : Option Token) (st' : LexState)
    (h : getUpdateToken st = .ok (r, st')) : RawStep st r st' := by
  unfold getUpdateToken at h
  split at h
  · simp at h
  · rename_i tok st1 hg
    split at h
    · simp at h
    · rename_i st2 hs
      obtain ⟨hf2, hl2, hc2⟩ := setTokens_spec _ _ _ hs
      split at h
      · -- cur_token is None
        rename_i hcur
        simp at h
        obtain ⟨rfl, rfl⟩ := h
        rw [hc2] at hcur
        subst hcur
        obtain ⟨hf1, hign⟩ := getLexerToken_none _ _ _ hg
        exact ⟨hf1.trans hf2, .initial, hign⟩
      · rename_i cur hcur
        rw [hc2] at hcur
        subst hcur
        have hraw := getLexerToken_some _ _ _ _ hg
        split at h
        · simp at h
        · rename_i st3 hu
          obtain ⟨ts, rfl⟩ := updateStack_spec _ _ _ hu
          split at h
          · rename_i hres
            simp only [createSemiToken, Except.ok.injEq, Prod.mk.injEq, Option.some.injEq] at h
            obtain ⟨rfl, rfl⟩ := h
            refine ⟨?_, .initial, cur, st1, hraw, ?_, Or.inr ⟨rfl, rfl, rfl, rfl, ?_, rfl⟩⟩
            · have := hraw.frame.trans hf2
              exact ⟨this.1, this.2.1, this.2.2.1, this.2.2.2⟩
            · exact hl2
            · simp only [isRestrictedLt, Bool.and_eq_true, decide_eq_true_eq] at hres
              exact hres.1
          · simp only [Except.ok.injEq, Prod.mk.injEq, Option.some.injEq] at h
            obtain ⟨rfl, rfl⟩ := h
            refine ⟨?_, .initial, cur, st1, hraw, hl2, Or.inl rfl⟩
            have := hraw.frame.trans hf2
            exact ⟨this.1, this.2.1, this.2.2.1, this.2.2.2⟩

theorem divOrRegex_spec (st : LexState) (r : Option Token) (st' : LexState)
    (h : divOrRegex st = .ok (r, st')) : RawStep st r st' := by
  unfold divOrRegex at h
  split at h
  · simp at h
  · exact getUpdateToken_spec _ _ _ h
  · split at h
    · simp at h
    · rename_i tok st1 hg
      unfold readRegex at hg
      split at h
      · simp at h
      · rename_i st2 hs
        obtain ⟨hf2, hl2, hc2⟩ := setTokens_spec _ _ _ hs
        simp only [Except.ok.injEq, Prod.mk.injEq] at h
        obtain ⟨rfl, rfl⟩ := h
        rw [hc2]
        cases tok with
        | none =>
          obtain ⟨hf1, hign⟩ := getLexerToken_none _ _ _ hg
          exact ⟨hf1.trans hf2, .regex, hign⟩
        | some t =>
          have hraw := getLexerToken_some _ _ _ _ hg
          exact ⟨hraw.frame.trans hf2, .regex, t, st1, hraw, hl2, Or.inl rfl⟩

end CalmVerif.Proofs.LexerStep
