/-
Helper lemmas for C06 (keyword classification after the `t_ID` look-behind): in a stand-alone lexing the flag `t_ID`
reads from the lexer object (`cur_token_real` is a PERIOD) is a function of the tokens returned so far: the last
returned token that is neither inserted nor a comment / line terminator is a PERIOD.
-/
import CalmVerif.Proofs.LexerTables
import CalmVerif.Proofs.LexerDrive

namespace CalmVerif.Proofs.LexerKeyword
open CalmVerif.Model.TokenRegex CalmVerif.Model.PlyLex CalmVerif.Model.Lexer
open CalmVerif.Proofs.LexerPly CalmVerif.Proofs.LexerStep CalmVerif.Proofs.LexerLoop CalmVerif.Proofs.LexerTables
open CalmVerif.Proofs.LexerSegm CalmVerif.Proofs.LexerDrive
open CalmVerif.Gen

/-- a token that `_set_tokens` records as `cur_token_real`: not inserted, not a comment / line terminator -/
def isSig (t : Token) : Bool := !t.auto && !isMarker t.type

/-- the look-behind flag after the tokens `prev` (in order): the last significant one is a PERIOD -/
def afterPeriodOf (prev : List Token) : Bool :=
  match prev.reverse.find? isSig with
  | some q => q.type = "PERIOD"
  | none => false

theorem afterPeriodOf_snoc (l : List Token) (t : Token) :
    afterPeriodOf (l ++ [t]) = if isSig t then decide (t.type = "PERIOD") else afterPeriodOf l := by
  unfold afterPeriodOf
  simp only [List.reverse_append, List.reverse_cons, List.reverse_nil, List.nil_append, List.singleton_append,
    List.find?_cons]
  cases isSig t <;> simp

/-- the flag of the state after `_set_tokens(tok)` -/
def apAfter (st : LexState) (tok : Option Token) : Bool :=
  match tok with
  | some c => if !isMarker c.type then decide (c.type = "PERIOD") else afterPeriod st
  | none => afterPeriod st

theorem getLexerToken_real (s : LexerState) (st : LexState) (tok : Option Token) (st1 : LexState)
    (h : getLexerToken s st = .ok (tok, st1)) : st1.curTokenReal = st.curTokenReal := by
  unfold getLexerToken at h
  split at h
  · simp at h; rw [← h.2]
  · simp at h
  · split at h <;> simp at h
  · split at h
    · simp at h
    · simp only [Except.ok.injEq, Prod.mk.injEq] at h
      rw [← h.2]; rfl

theorem setTokens_ap (st : LexState) (tok : Option Token) (st2 : LexState) (h : setTokens st tok = .ok st2) :
    afterPeriod st2 = apAfter st tok := by
  unfold setTokens at h
  split at h
  · simp at h
  · simp only [Except.ok.injEq] at h
    rw [← h]
    unfold afterPeriod apAfter
    cases tok with
    | none => rfl
    | some c =>
      simp only
      cases hm : isMarker c.type
      · simp
      · simp only [Bool.not_true, Bool.false_eq_true, if_false]
        rfl

/-- one raw lexing call, with the look-behind flag -/
def LexCall3 (st : LexState) (r : Option Token) (st' : LexState) : Prop :=
  ∃ s tok st1, getLexerToken s st = .ok (tok, st1) ∧ afterPeriod st' = apAfter st tok ∧
    (r = tok ∨ ∃ raw a, tok = some raw ∧ r = some a ∧ a.auto = true ∧ raw.type = "LINE_TERMINATOR")

theorem getUpdateToken_call3 (st : LexState) (r : Option Token) (st' : LexState)
    (h : getUpdateToken st = .ok (r, st')) : LexCall3 st r st' := by
  unfold getUpdateToken at h
  split at h
  · simp at h
  · rename_i tok st1 hg
    have hreal1 := getLexerToken_real _ _ _ _ hg
    split at h
    · simp at h
    · rename_i st2 hs
      have hap2 : afterPeriod st2 = apAfter st tok := by
        rw [setTokens_ap _ _ _ hs]
        unfold apAfter afterPeriod
        rw [hreal1]
      obtain ⟨_, _, hc2⟩ := setTokens_spec _ _ _ hs
      split at h
      · simp at h
        obtain ⟨rfl, rfl⟩ := h
        rename_i hcur
        rw [hc2] at hcur
        subst hcur
        exact ⟨.initial, none, st1, hg, hap2, Or.inl rfl⟩
      · rename_i cur hcur
        rw [hc2] at hcur
        subst hcur
        split at h
        · simp at h
        · rename_i st3 hu
          obtain ⟨ts, rfl⟩ := updateStack_spec _ _ _ hu
          split at h
          · rename_i hres
            simp only [createSemiToken, Except.ok.injEq, Prod.mk.injEq] at h
            obtain ⟨rfl, rfl⟩ := h
            simp only [isRestrictedLt, Bool.and_eq_true, decide_eq_true_eq] at hres
            exact ⟨.initial, some cur, st1, hg, hap2, Or.inr ⟨cur, _, rfl, rfl, rfl, hres.1⟩⟩
          · simp only [Except.ok.injEq, Prod.mk.injEq] at h
            obtain ⟨rfl, rfl⟩ := h
            exact ⟨.initial, some cur, st1, hg, hap2, Or.inl rfl⟩

theorem divOrRegex_call3 (st : LexState) (r : Option Token) (st' : LexState)
    (h : divOrRegex st = .ok (r, st')) : LexCall3 st r st' := by
  unfold divOrRegex at h
  split at h
  · simp at h
  · exact getUpdateToken_call3 _ _ _ h
  · split at h
    · simp at h
    · rename_i tok st1 hg
      unfold readRegex at hg
      have hreal1 := getLexerToken_real _ _ _ _ hg
      split at h
      · simp at h
      · rename_i st2 hs
        have hap2 : afterPeriod st2 = apAfter st tok := by
          rw [setTokens_ap _ _ _ hs]
          unfold apAfter afterPeriod
          rw [hreal1]
        obtain ⟨_, _, hc2⟩ := setTokens_spec _ _ _ hs
        simp only [Except.ok.injEq, Prod.mk.injEq] at h
        obtain ⟨rfl, rfl⟩ := h
        exact ⟨.regex, tok, st1, hg, hap2, Or.inl hc2⟩

/-- what is known about a token `_token` returns, relative to the flag `ap` at the start of the call -/
def TypedBy (text : List Char) (ap : Bool) (t : Token) : Prop :=
  t.auto = false →
    ∃ s r, FirstMatch (rulesOf s) (text.drop t.lexpos) r t.value.length ∧ t.type = ruleFn ap r t.value

/-- the flag after a call that returned `t` -/
def apNext (ap : Bool) (t : Token) : Bool := if isSig t then decide (t.type = "PERIOD") else ap

theorem lt_marker : isMarker "LINE_TERMINATOR" = true := by decide

theorem lexCall3_ret {st : LexState} {t : Token} {st' : LexState} (h : LexCall3 st (some t) st') :
    TypedBy st.text (afterPeriod st) t ∧ afterPeriod st' = apNext (afterPeriod st) t := by
  obtain ⟨s, tok, st1, hg, hap, hret⟩ := h
  rcases hret with h1 | ⟨raw, a, h1, h2, ha, hlt⟩
  · subst h1
    have hraw := getLexerToken_some _ _ _ _ hg
    refine ⟨fun _ => ⟨s, hraw.rule⟩, ?_⟩
    rw [hap]
    simp only [apAfter, apNext, isSig, hraw.auto]
    cases isMarker t.type <;> simp
  · simp at h2; subst h2
    subst h1
    refine ⟨fun hf => by rw [ha] at hf; simp at hf, ?_⟩
    rw [hap]
    simp [apAfter, apNext, isSig, ha, hlt, lt_marker]

theorem lexCall3_skip {st : LexState} {t0 : Token} {st1 : LexState} (h : LexCall3 st (some t0) st1)
    (hm : isMarker t0.type = true) : afterPeriod st1 = afterPeriod st := by
  obtain ⟨s, tok, st0, hg, hap, hret⟩ := h
  rcases hret with h1 | ⟨raw, a, h1, _, _, hlt⟩
  · subst h1
    rw [hap]
    simp [apAfter, hm]
  · subst h1
    rw [hap]
    simp [apAfter, hlt, lt_marker]

theorem tokenLoop_kw : ∀ (fuel : Nat) (st : LexState) (t : Token) (st' : LexState),
    tokenLoop fuel st = .ok (some t, st') →
    TypedBy st.text (afterPeriod st) t ∧ afterPeriod st' = apNext (afterPeriod st) t := by
  intro fuel
  induction fuel with
  | zero => intro st t st' h; simp [tokenLoop] at h
  | succ fuel ih =>
    intro st t st' h
    have hskip : ∀ (t0 : Token) (st1 st1' : LexState), LexCall3 st (some t0) st1 → isMarker t0.type = true →
        st1'.text = st.text → afterPeriod st1' = afterPeriod st1 →
        tokenLoop fuel st1' = .ok (some t, st') →
        TypedBy st.text (afterPeriod st) t ∧ afterPeriod st' = apNext (afterPeriod st) t := by
      intro t0 st1 st1' hc hm htx hap hrec
      have := ih st1' t st' hrec
      rw [htx, hap, lexCall3_skip hc hm] at this
      exact this
    unfold tokenLoop at h
    split at h
    · split at h
      · simp at h
      · simp at h
      · rename_i t0 st1 hg
        have hc := getUpdateToken_call3 _ _ _ hg
        have htx : st1.text = st.text := (getUpdateToken_spec _ _ _ hg).1.1
        split at h
        · rename_i hlt
          exact hskip t0 st1 st1 hc (by rw [hlt]; exact lt_marker) htx rfl h
        · simp at h
          obtain ⟨rfl, rfl⟩ := h
          exact lexCall3_ret hc
    · split at h
      · split at h
        · simp at h
        · simp at h
        · rename_i t0 st1 hg
          have hc := getUpdateToken_call3 _ _ _ hg
          have htx : st1.text = st.text := (getUpdateToken_spec _ _ _ hg).1.1
          split at h
          · rename_i hmk
            split at h
            · split at h
              · simp at h
                obtain ⟨rfl, rfl⟩ := h
                exact lexCall3_ret hc
              · split at h
                · exact hskip t0 st1 { st1 with hiddenTokens := st1.hiddenTokens ++ [t0.toComment] } hc hmk htx
                    rfl h
                · exact hskip t0 st1 st1 hc hmk htx rfl h
            · exact hskip t0 st1 st1 hc hmk htx rfl h
          · simp at h
            obtain ⟨rfl, rfl⟩ := h
            exact lexCall3_ret hc
      · exact lexCall3_ret (divOrRegex_call3 _ _ _ h)

theorem token_kw (st : LexState) (hn : st.nextTokens = []) (t : Token) (st' : LexState)
    (h : token st = .ok (some t, st')) :
    TypedBy st.text (afterPeriod st) t ∧ afterPeriod st' = apNext (afterPeriod st) t := by
  unfold token at h
  split at h
  · simp at h
  · simp at h
  · rename_i t0 st1 ht
    unfold token' at ht
    rw [hn] at ht
    have := tokenLoop_kw _ _ _ _ ht
    split at h
    · simp at h
      obtain ⟨rfl, rfl⟩ := h
      exact this
    · simp at h
      obtain ⟨rfl, rfl⟩ := h
      exact this

/-- every token of the list is typed by the flag determined by the tokens before it -/
def KwAll (text : List Char) : List Token → List Token → Prop
  | _, [] => True
  | prev, t :: rest => TypedBy text (afterPeriodOf prev) t ∧ KwAll text (prev ++ [t]) rest

theorem lexAll_kw (text : List Char) : ∀ (fuel : Nat) (st : LexState) (acc toks : List Token) (e : Option Err),
    st.nextTokens = [] → st.text = text → afterPeriod st = afterPeriodOf acc.reverse →
    lexAll fuel st acc = (toks, e) → ∃ new, toks = acc.reverse ++ new ∧ KwAll text acc.reverse new := by
  intro fuel
  induction fuel with
  | zero => intro st acc toks e _ _ _ h; simp [lexAll] at h; exact ⟨[], by simp [h.1], trivial⟩
  | succ fuel ih =>
    intro st acc toks e hn htx hap h
    unfold lexAll at h
    split at h
    · simp at h; exact ⟨[], by simp [h.1], trivial⟩
    · simp at h; exact ⟨[], by simp [h.1], trivial⟩
    · rename_i t st1 ht
      have hf := (token_spec _ hn _ _ ht).1
      have hn1 : st1.nextTokens = [] := by rw [hf.2.2.2, hn]
      obtain ⟨h1, h2⟩ := token_kw st hn t st1 ht
      have hap1 : afterPeriod st1 = afterPeriodOf (t :: acc).reverse := by
        rw [h2, List.reverse_cons, afterPeriodOf_snoc, hap]
        rfl
      obtain ⟨new, hnew, hall⟩ := ih st1 (t :: acc) toks e hn1 (hf.1.trans htx) hap1 h
      refine ⟨t :: new, by simp [hnew], ?_⟩
      rw [htx, hap] at h1
      refine ⟨h1, ?_⟩
      simpa using hall

theorem kwAll_split (text : List Char) : ∀ (a : List Token) (prev : List Token) (t : Token) (b : List Token),
    KwAll text prev (a ++ t :: b) → TypedBy text (afterPeriodOf (prev ++ a)) t := by
  intro a
  induction a with
  | nil => intro prev t b h; simpa using h.1
  | cons x xs ih =>
    intro prev t b h
    have := ih (prev ++ [x]) t b h.2
    simpa using this

/-- a token typed "ID" or with a keyword type was produced by `t_ID`, with the same look-behind flag -/
theorem typedBy_id {text : List Char} {ap : Bool} {t : Token} (h : TypedBy text ap t) (hreal : t.auto = false)
    (hty : t.type ∈ "ID" :: kwTypes) : t.type = ruleFn ap "ID" t.value := by
  obtain ⟨s, r, ⟨pre, post, _, hr, _⟩, ht⟩ := h hreal
  by_cases hid : r = "ID"
  · rw [ht, hid]
  · exfalso
    have hmem : r ∈ allRules := by
      unfold allRules
      cases s <;> simp [hr]
    have := List.all_eq_true.mp rule_names_not_kw r hmem
    have hty' : ruleFn ap r t.value = r := by simp [ruleFn, ruleType, hid]
    rw [ht, hty'] at hty
    simp [hid] at this
    simp at hty
    rcases hty with h1 | h1
    · exact hid h1
    · exact this h1

end CalmVerif.Proofs.LexerKeyword
