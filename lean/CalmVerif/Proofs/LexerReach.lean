/-
The lexer as the parser drives it, part 2: `_token` / `token`, `auto_semi`, the guarded `backtracked_token`, and
the invariant `Reachable` of every lexer state the parser can be in.
-/
import CalmVerif.Proofs.LexerDrive

namespace CalmVerif.Proofs.LexerDrive
open CalmVerif.Model.TokenRegex CalmVerif.Model.PlyLex CalmVerif.Model.Lexer
open CalmVerif.Proofs.LexerPly CalmVerif.Proofs.LexerStep CalmVerif.Proofs.LexerLoop
open CalmVerif.Proofs.LexerLines CalmVerif.Proofs.LexerPos CalmVerif.Proofs.LexerTables
open CalmVerif.Spec.LinesRef CalmVerif.Gen

/-- what a lexing operation from `st` to `st'` returning `r` guarantees -/
def Out (text : List Char) (st : LexState) (r : Option Token) (st' : LexState) : Prop :=
  PInv text st' ∧ CurOK text st' ∧ st.newlineIdx <+: st'.newlineIdx ∧ st'.nextTokens = st.nextTokens ∧
  ∀ t, r = some t → Good text st'.newlineIdx t

theorem Out.after_skip {text : List Char} {st st1 st1' : LexState} {r0 r : Option Token} {st' : LexState}
    (h1 : Out text st r0 st1) (hidx : st1'.newlineIdx = st1.newlineIdx) (hnt : st1'.nextTokens = st1.nextTokens)
    (h2 : Out text st1' r st') : Out text st r st' := by
  obtain ⟨_, _, p1, n1, _⟩ := h1
  obtain ⟨a, b, p2, n2, g⟩ := h2
  exact ⟨a, b, p1.trans (hidx ▸ p2), by rw [n2, hnt, n1], g⟩

theorem tokenLoop_drive (text : List Char) : ∀ (fuel : Nat) (st : LexState) (r : Option Token) (st' : LexState),
    tokenLoop fuel st = .ok (r, st') → PInv text st → Out text st r st' := by
  intro fuel
  induction fuel with
  | zero => intro st r st' h; simp [tokenLoop] at h
  | succ fuel ih =>
    intro st r st' h hinv
    have hskip : ∀ (r0 : Option Token) (st1 st1' : LexState), LexCall st r0 st1 → PosEq st1' st1 →
        st1'.nextTokens = st1.nextTokens → tokenLoop fuel st1' = .ok (r, st') → Out text st r st' := by
      intro r0 st1 st1' hc hpe hnt hrec
      have h1 := lexCall_drive hinv hc
      exact Out.after_skip h1 hpe.2.2.2 hnt (ih st1' r st' hrec (h1.1.congr hpe))
    unfold tokenLoop at h
    split at h
    · split at h
      · simp at h
      · rename_i st1 hg
        simp at h
        obtain ⟨rfl, rfl⟩ := h
        exact lexCall_drive hinv (getUpdateToken_call _ _ _ hg)
      · rename_i t0 st1 hg
        have hc := getUpdateToken_call _ _ _ hg
        split at h
        · exact hskip _ st1 st1 hc ⟨rfl, rfl, rfl, rfl⟩ rfl h
        · simp at h
          obtain ⟨rfl, rfl⟩ := h
          exact lexCall_drive hinv hc
    · split at h
      · split at h
        · simp at h
        · rename_i st1 hg
          simp at h
          obtain ⟨rfl, rfl⟩ := h
          exact lexCall_drive hinv (getUpdateToken_call _ _ _ hg)
        · rename_i t0 st1 hg
          have hc := getUpdateToken_call _ _ _ hg
          split at h
          · split at h
            · split at h
              · simp at h
                obtain ⟨rfl, rfl⟩ := h
                exact lexCall_drive hinv hc
              · split at h
                · exact hskip _ st1 { st1 with hiddenTokens := st1.hiddenTokens ++ [t0.toComment] } hc
                    ⟨rfl, rfl, rfl, rfl⟩ rfl h
                · exact hskip _ st1 st1 hc ⟨rfl, rfl, rfl, rfl⟩ rfl h
            · exact hskip _ st1 st1 hc ⟨rfl, rfl, rfl, rfl⟩ rfl h
          · simp at h
            obtain ⟨rfl, rfl⟩ := h
            exact lexCall_drive hinv hc
      · exact lexCall_drive hinv (divOrRegex_call _ _ _ h)

/-- the invariant of every lexer state the parser can be in -/
structure Reachable (text : List Char) (st : LexState) : Prop where
  pinv : PInv text st
  cur : CurOK text st
  next : ∀ t ∈ st.nextTokens, Good text st.newlineIdx t

theorem init_reachable (text : List Char) (wc yc : Bool) : Reachable text (init text wc yc) := by
  refine ⟨⟨rfl, by simp [init, terminatorEnds], by simp [init, terminatorEnds], ?_⟩, ?_, by simp [init]⟩
  · intro ⟨h0, _⟩; simp [init] at h0
  · simp [CurOK, init]

/-- `_token()`; `CurOK` is only needed when a pushed-back token is popped (no lexing happens then) -/
theorem token'_drive0 {text : List Char} {st : LexState} {r : Option Token} {st' : LexState}
    (hp : PInv text st) (hnext : ∀ t ∈ st.nextTokens, Good text st.newlineIdx t)
    (hcur : st.nextTokens ≠ [] → CurOK text st) (h : token' st = .ok (r, st')) :
    Reachable text st' ∧ st.newlineIdx <+: st'.newlineIdx ∧ ∀ t, r = some t → Good text st'.newlineIdx t := by
  unfold token' at h
  split at h
  · rename_i t rest hnt
    simp at h
    obtain ⟨rfl, rfl⟩ := h
    have hg := hnext
    rw [hnt] at hg
    refine ⟨⟨⟨hp.textEq, hp.idx, hp.lineno, hp.nosplit⟩, hcur (by rw [hnt]; simp), ?_⟩, List.prefix_refl _, ?_⟩
    · intro x hx; exact hg x (by simp [hx])
    · intro x hx; simp at hx; subst hx; exact hg _ (by simp)
  · rename_i hnt
    obtain ⟨a, b, p, n, g⟩ := tokenLoop_drive text _ _ _ _ h hp
    refine ⟨⟨a, b, ?_⟩, p, g⟩
    rw [n, hnt]; simp

/-- `token()` -/
theorem token_drive0 {text : List Char} {st : LexState} {r : Option Token} {st' : LexState}
    (hp : PInv text st) (hnext : ∀ t ∈ st.nextTokens, Good text st.newlineIdx t)
    (hcur : st.nextTokens ≠ [] → CurOK text st) (h : token st = .ok (r, st')) :
    Reachable text st' ∧ st.newlineIdx <+: st'.newlineIdx ∧ ∀ t, r = some t → Good text st'.newlineIdx t := by
  unfold token at h
  split at h
  · simp at h
  · rename_i st1 ht
    simp at h
    obtain ⟨rfl, rfl⟩ := h
    exact token'_drive0 hp hnext hcur ht
  · rename_i t st1 ht
    obtain ⟨h1, h2, h3⟩ := token'_drive0 hp hnext hcur ht
    split at h
    · simp at h
      obtain ⟨rfl, rfl⟩ := h
      refine ⟨⟨⟨h1.pinv.textEq, h1.pinv.idx, h1.pinv.lineno, h1.pinv.nosplit⟩, h1.cur, h1.next⟩, h2, ?_⟩
      intro x hx
      simp at hx
      subst hx
      exact (h3 t rfl).hidden _
    · simp at h
      obtain ⟨rfl, rfl⟩ := h
      exact ⟨h1, h2, h3⟩

theorem token_drive {text : List Char} {st : LexState} {r : Option Token} {st' : LexState}
    (hr : Reachable text st) (h : token st = .ok (r, st')) :
    Reachable text st' ∧ st.newlineIdx <+: st'.newlineIdx ∧ ∀ t, r = some t → Good text st'.newlineIdx t :=
  token_drive0 hr.pinv hr.next (fun _ => hr.cur) h

/-- `auto_semi(tok)` for a token the parser holds -/
theorem autoSemi_drive {text : List Char} {st : LexState} (tok : Option Token) (hr : Reachable text st)
    (htok : ∀ t, tok = some t → Good text st.newlineIdx t) :
    Reachable text (autoSemi st tok).2 ∧ (autoSemi st tok).2.newlineIdx = st.newlineIdx ∧
    (∀ t, (autoSemi st tok).1 = some t → Good text st.newlineIdx t) ∧
    ((autoSemi st tok).1 = none → (autoSemi st tok).2 = st) := by
  have hsemi0 : ∀ (s : LexState), Good text st.newlineIdx (createSemiToken s none).1 := by
    intro s
    exact ⟨fun h => by simp [createSemiToken] at h, fun _ => by simp [createSemiToken]⟩
  have hsemi : ∀ (s : LexState) (o : Token), Good text st.newlineIdx o → o.type ≠ "AUTOSEMI" →
      Good text st.newlineIdx (createSemiToken s (some o)).1 := by
    intro s o hg hne
    refine ⟨fun h => by simp [createSemiToken] at h, fun _ => ?_⟩
    have hna : o.auto = false := by
      cases ha : o.auto with
      | false => rfl
      | true => exact absurd (hg.2 ha).1 hne
    exact ⟨rfl, rfl, Or.inr (hg.1 hna).2.1⟩
  cases tok with
  | none =>
    refine ⟨⟨⟨hr.pinv.textEq, hr.pinv.idx, hr.pinv.lineno, hr.pinv.nosplit⟩, hr.cur, hr.next⟩, rfl, ?_, ?_⟩
    · intro t ht; simp [autoSemi] at ht; rw [← ht]; exact hsemi0 st
    · intro h; simp [autoSemi] at h
  | some t =>
    by_cases hc : (t.type ≠ "SEMI" ∧ t.type ≠ "AUTOSEMI") ∧ (t.type = "RBRACE" ∨ isPrevTokenLt st = true)
    · have e : autoSemi st (some t) =
          (some (createSemiToken { st with nextTokens := t :: st.nextTokens } (some t)).1,
           (createSemiToken { st with nextTokens := t :: st.nextTokens } (some t)).2) := by
        unfold autoSemi
        simp only
        rw [if_pos hc]
      rw [e]
      refine ⟨⟨?_, ?_, ?_⟩, rfl, ?_, ?_⟩
      · exact ⟨hr.pinv.textEq, hr.pinv.idx, hr.pinv.lineno, hr.pinv.nosplit⟩
      · exact hr.cur
      · intro x hx
        have hx' : x ∈ t :: st.nextTokens := hx
        simp only [List.mem_cons] at hx'
        rcases hx' with rfl | hx'
        · exact htok _ rfl
        · exact hr.next x hx'
      · intro x hx
        simp only [Option.some.injEq] at hx
        rw [← hx]
        exact hsemi _ t (htok _ rfl) hc.1.2
      · intro h; simp at h
    · have e : autoSemi st (some t) = (none, st) := by
        unfold autoSemi
        simp only
        rw [if_neg hc]
      rw [e]
      exact ⟨hr, rfl, by simp, fun _ => rfl⟩

end CalmVerif.Proofs.LexerDrive
