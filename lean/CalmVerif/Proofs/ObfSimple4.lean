/-
Part 4: the program-level statement (every program; the file names `ObfSimple*` date from the first version, which covered function and
global scopes only).  Walk facts of a program (Proofs/ObfFacts.lean `factsProgram`, a decidable
book-keeping statement about what the prewalk registered where) + the proved invariants of every scope record (`finalize_chainGood`:
`remap_injective_visible`, table facts, leak invariant, declared ⊆ referenced) ⇒ `condProgram` for the obfuscator's renaming, i.e. the
hypothesis of the renaming simulation: no capture, every declaration and reference renamed by its own environment record.
-/
import CalmVerif.Proofs.ObfSimple3
namespace CalmVerif.Obf
open CalmVerif CalmVerif.Unparse
open CalmVerif.Spec.Scope (BKind Binder Layer Ctx Occ hoistVal)

theorem condProgram_of_facts (fin : Final) (recs : List Rec) (hgood : ∀ R ∈ recs, ChainGood R.chain) (program : Val)
    (h : factsProgram fin recs program = true) :
    condProgram (tauFin fin) (rhoFin fin) program = true := by
  unfold factsProgram at h
  cases hrecs : recs with
  | nil => rw [hrecs] at h; cases h
  | cons R rest =>
    rw [hrecs] at h
    simp only at h
    cases hc : R.chain with
    | nil => rw [hc] at h; cases h
    | cons A C =>
      cases C with
      | cons B C' => rw [hc] at h; cases h
      | nil =>
        rw [hc] at h
        simp only [Bool.and_eq_true] at h
        obtain ⟨⟨⟨⟨⟨hk0, hset⟩, htab0⟩, hch0⟩, hhoist⟩, hfacts⟩ := h
        have hk : A.kind = .func := by simpa using hk0
        have htab : rootTable fin = A.remapped := of_decide_eq_true htab0
        have hch : lookupChain fin.chains R.id = some (entriesOf [A]) := of_decide_eq_true hch0
        have hg : ChainGood [A] := hc ▸ hgood R (by rw [hrecs]; exact List.mem_cons_self ..)
        have hinv : Inv fin (Spec.Scope.globalCtx program) { sid := R.id, chain := [A], env := [{ kind := .global, scope := [], names := hoistVal program }], labels := [] } := by
          refine ⟨?_, rfl, hch, rfl, rfl, fun x hx => absurd hx List.not_mem_nil⟩
          refine .root (hoistVal program) A hk (subsetOf_iff hset) ?_ hg
          intro n
          have e : tauN (tauFin fin) .global [] n = applyTable (rootTable fin) n := rfl
          rw [e, htab]
        simp only [condProgram, Bool.and_eq_true]
        refine ⟨?_, ?_⟩
        · rw [← hrecs] at hhoist
          exact hoistFacts_cond recs hgood _ _ [] program hinv hhoist
        · rw [← hrecs] at hfacts
          exact condVal_of_facts recs hgood (Spec.Scope.globalCtx program) _ [] program hinv hfacts

/-- the whole run of the model -/
theorem cond_of_walk_facts (fl : Flags) (program : Val) (st : St) (fin : Final)
    (hcs : Gen.ObfData.charset.Nodup ∧ Gen.ObfData.charset ≠ [])
    (hpre : prewalk tablesGen fl.shadowFuncname program = .ok st)
    (hfin : finalize Gen.ObfData.charset fl st = .ok fin) (hna : noArgsValue fin = true)
    (hfacts : ∀ g, st.stack = [g] → factsProgram fin (recsOf [] (closeFrame g) fin.tree) program = true) :
    condProgram (tauFin fin) (rhoFin fin) program = true := by
  obtain ⟨g, hg, hgood⟩ := finalize_chainGood fl.shadowFuncname program fl st fin hcs hpre hfin hna
  exact condProgram_of_facts fin _ hgood program (hfacts g hg)

end CalmVerif.Obf
