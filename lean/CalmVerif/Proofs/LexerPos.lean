/-
Helper lemmas for C06 (positions): the invariant of `newline_idx` / `lineno` and its preservation.
-/
import CalmVerif.Proofs.LexerLines
import CalmVerif.Proofs.LexerEnds
import CalmVerif.Proofs.LexerSegm

namespace CalmVerif.Proofs.LexerPos
open CalmVerif.Model.TokenRegex CalmVerif.Model.PlyLex CalmVerif.Model.Lexer
open CalmVerif.Proofs.LexerRegex CalmVerif.Proofs.LexerPly CalmVerif.Proofs.LexerStep CalmVerif.Proofs.LexerLoop
open CalmVerif.Proofs.LexerSegm CalmVerif.Proofs.LexerLines CalmVerif.Proofs.LexerEnds
open CalmVerif.Spec.LinesRef
open CalmVerif.Spec.LexSeg (slice)

/-- the recorded line/column of the token are the counted ones -/
def PosOK (text : List Char) (t : Token) : Prop :=
  t.lineno = (lineCol text t.lexpos).1 ∧ t.colno = ((lineCol text t.lexpos).2 : Int)

/-- invariant: `newline_idx[k]` is the offset after the k-th line terminator sequence of the text read so far
    (all of them), `lineno - 1` their number, and `lexpos` does not split a CR LF pair -/
structure Inv (text : List Char) (st : LexState) : Prop where
  textEq : st.text = text
  le : st.lexpos ≤ text.length
  idx : st.newlineIdx = 0 :: terminatorEnds (text.take st.lexpos) 0
  lineno : st.lineno = 1 + (terminatorEnds (text.take st.lexpos) 0).length
  nosplit : NoSplitAt text st.lexpos

theorem Inv.congr {text : List Char} {a b : LexState} (h : Inv text a) (ht : b.text = a.text)
    (hp : b.lexpos = a.lexpos ∧ b.lineno = a.lineno ∧ b.newlineIdx = a.newlineIdx) : Inv text b :=
  ⟨ht.trans h.textEq, hp.1 ▸ h.le, by rw [hp.2.2, hp.1]; exact h.idx, by rw [hp.2.1, hp.1]; exact h.lineno,
   hp.1 ▸ h.nosplit⟩

/-- D: no ignored character (of either lexer state) is an ES5 line terminator -/
theorem ignored_not_lt (s : LexerState) (c : Char) (h : isIgnored s c = true) : isLineTerminator c = false := by
  have key : ∀ s, (ignoreOf s).all (fun c => !(isLineTerminator c)) = true := by
    intro s; cases s <;> decide
  have := List.all_eq_true.mp (key s) c (by simpa [isIgnored] using h)
  simpa using this

theorem getLastD_cons_zero (E : List Nat) : (0 :: E).getLast? = some (E.getLastD 0) := by
  cases E with
  | nil => simp
  | cons x xs => simp [List.getLast?_cons_cons, List.getLastD, List.getLast?_eq_some_getLast]

theorem getLastD_le (E : List Nat) (B : Nat) (h : ∀ e ∈ E, e ≤ B) : E.getLastD 0 ≤ B := by
  cases E with
  | nil => simp
  | cons x xs =>
    have : (x :: xs).getLastD 0 = (x :: xs).getLast (by simp) := by
      simp [List.getLastD_eq_getLast?, List.getLast?_eq_some_getLast]
    rw [this]
    exact h _ (List.getLast_mem _)

theorem mem_slice_index (text : List Char) (a b : Nat) (c : Char) (h : c ∈ slice text a b) :
    ∃ i, a ≤ i ∧ i < b ∧ text[i]? = some c := by
  unfold slice at h
  obtain ⟨k, hk⟩ := List.getElem?_of_mem h
  rw [List.getElem?_take] at hk
  split at hk
  · rename_i hlt
    rw [List.getElem?_drop] at hk
    exact ⟨a + k, by omega, by omega, hk⟩
  · simp at hk

/-- one raw ply token: its position is the counted one and the invariant is preserved -/
theorem inv_raw {text : List Char} {s : LexerState} {st : LexState} {raw : Token} {st1 : LexState}
    (hinv : Inv text st) (h : RawTok s st raw st1) :
    Inv text st1 ∧ PosOK text raw := by
  have htext := hinv.textEq
  have hle := h.le
  have hbound := h.bound
  rw [htext] at hbound
  have hpos : 0 < raw.value.length := by
    cases hv : raw.value with
    | nil => exact absurd hv h.ne
    | cons => simp
  -- the ignored stretch has no line terminator
  have hstretch : ∀ c ∈ slice text st.lexpos raw.lexpos, isLineTerminator c = false := by
    intro c hc
    exact ignored_not_lt s c (h.ign c (by rw [htext]; exact hc))
  obtain ⟨k, hk⟩ := Nat.exists_eq_add_of_le hle
  -- terminators up to the token start
  have hE : terminatorEnds (text.take raw.lexpos) 0 = terminatorEnds (text.take st.lexpos) 0 := by
    rw [hk, te_take_add text st.lexpos k hinv.le hinv.nosplit]
    have : (text.drop st.lexpos).take k = slice text st.lexpos raw.lexpos := by
      unfold slice; rw [hk]; congr 1; omega
    rw [this, te_no_lt _ _ hstretch, List.append_nil]
  have hb_le : raw.lexpos ≤ text.length := by omega
  have hns_start : NoSplitAt text raw.lexpos := by
    by_cases hk0 : k = 0
    · subst hk0; rw [hk]; exact hinv.nosplit
    · intro ⟨_, h1, _⟩
      have hmem : '\r' ∈ slice text st.lexpos raw.lexpos := by
        unfold slice
        apply List.mem_of_getElem? (i := raw.lexpos - 1 - st.lexpos)
        rw [List.getElem?_take]
        have : raw.lexpos - 1 - st.lexpos < raw.lexpos - st.lexpos := by omega
        simp only [this, if_true, List.getElem?_drop]
        rw [← h1]; congr 1; omega
      have := hstretch _ hmem
      simp [isLineTerminator] at this
  -- the token's own position
  have hfilter := te_filter text raw.lexpos hb_le hns_start
  have hlast_le : (terminatorEnds (text.take st.lexpos) 0).getLastD 0 ≤ raw.lexpos := by
    apply getLastD_le
    intro e he
    have := te_bounds _ _ _ he
    have hl : (text.take st.lexpos).length = st.lexpos := by simp [hinv.le]
    rw [hl] at this
    omega
  have hposok : PosOK text raw := by
    unfold PosOK lineCol
    simp only
    rw [hfilter, hE]
    constructor
    · rw [h.lineno, hinv.lineno]
    · have hc := h.colno
      unfold colnoAt lastNewline at hc
      rw [hinv.idx, getLastD_cons_zero] at hc
      simp only [Except.ok.injEq] at hc
      rw [← hc]
      omega
  refine ⟨?_, hposok⟩
  -- the invariant after the token
  have hval : (text.drop raw.lexpos).take raw.value.length = raw.value := by
    have := rawTok_value h
    rw [htext] at this
    exact this
  have hE1 : terminatorEnds (text.take (raw.lexpos + raw.value.length)) 0 =
      terminatorEnds (text.take st.lexpos) 0 ++ nlOffsets raw.value raw.lexpos := by
    rw [te_take_add text raw.lexpos _ hb_le hns_start, hE, hval, nlOffsets_eq]
  constructor
  · rw [h.frame.1, htext]
  · rw [h.lexpos]; exact hbound
  · rw [h.nl.1, h.lexpos, hE1, hinv.idx]; simp
  · rw [h.nl.2, h.lexpos, hE1, hinv.lineno]; simp; omega
  · rw [h.lexpos]
    obtain ⟨r, ⟨_, _, m, _, hm, hn, _⟩, _⟩ := h.rule
    have hends := ruleMatcher_endsOK r m hm _ _ hn
    rw [htext] at hends
    intro ⟨_, h1, h2⟩
    apply hends
    constructor
    · unfold lastOf
      have : raw.value.length ≠ 0 := by omega
      simp only [this, if_false, List.getElem?_drop]
      rw [← h1]; congr 1; omega
    · rw [List.drop_drop, List.head?_drop]; exact h2

/-! ### the loop of `_token`, `token`, the stand-alone iteration -/

theorem rawStep_pos {text : List Char} {st : LexState} {t : Token} {st1 : LexState} (hinv : Inv text st)
    (h : RawStep st (some t) st1) : Inv text st1 ∧ (t.auto = false → PosOK text t) := by
  obtain ⟨hf, s, raw, st0, hraw, hp, hcase⟩ := h
  obtain ⟨hinv0, hpos⟩ := inv_raw hinv hraw
  refine ⟨hinv0.congr (hf.1.trans hraw.frame.1.symm) hp, ?_⟩
  intro hauto
  rcases hcase with rfl | ⟨ha, _⟩
  · exact hpos
  · rw [ha] at hauto; simp at hauto

theorem tokenLoop_pos : ∀ (fuel : Nat) (st : LexState) (t : Token) (st' : LexState) (text : List Char),
    tokenLoop fuel st = .ok (some t, st') → Inv text st →
    Inv text st' ∧ (t.auto = false → PosOK text t) := by
  intro fuel
  induction fuel with
  | zero => intro st t st' text h; simp [tokenLoop] at h
  | succ fuel ih =>
    intro st t st' text h hinv
    have hskip : ∀ (t0 : Token) (st1 st1' : LexState), RawStep st (some t0) st1 →
        st1'.text = st1.text → (st1'.lexpos = st1.lexpos ∧ st1'.lineno = st1.lineno ∧ st1'.newlineIdx = st1.newlineIdx) →
        tokenLoop fuel st1' = .ok (some t, st') → Inv text st' ∧ (t.auto = false → PosOK text t) := by
      intro t0 st1 st1' hraw htx hp hrec
      exact ih st1' t st' text hrec ((rawStep_pos hinv hraw).1.congr htx hp)
    unfold tokenLoop at h
    split at h
    · split at h
      · simp at h
      · simp at h
      · rename_i t0 st1 hg
        have hraw := getUpdateToken_spec _ _ _ hg
        split at h
        · exact hskip t0 st1 st1 hraw rfl ⟨rfl, rfl, rfl⟩ h
        · simp at h
          obtain ⟨rfl, rfl⟩ := h
          exact rawStep_pos hinv hraw
    · split at h
      · split at h
        · simp at h
        · simp at h
        · rename_i t0 st1 hg
          have hraw := getUpdateToken_spec _ _ _ hg
          split at h
          · split at h
            · split at h
              · simp at h
                obtain ⟨rfl, rfl⟩ := h
                exact rawStep_pos hinv hraw
              · split at h
                · exact hskip t0 st1 { st1 with hiddenTokens := st1.hiddenTokens ++ [t0.toComment] } hraw rfl
                    ⟨rfl, rfl, rfl⟩ h
                · exact hskip t0 st1 st1 hraw rfl ⟨rfl, rfl, rfl⟩ h
            · exact hskip t0 st1 st1 hraw rfl ⟨rfl, rfl, rfl⟩ h
          · simp at h
            obtain ⟨rfl, rfl⟩ := h
            exact rawStep_pos hinv hraw
      · exact rawStep_pos hinv (divOrRegex_spec _ _ _ h)

theorem token_pos (st : LexState) (hn : st.nextTokens = []) (t : Token) (st' : LexState) (text : List Char)
    (h : token st = .ok (some t, st')) (hinv : Inv text st) :
    Inv text st' ∧ (t.auto = false → PosOK text t) := by
  unfold token at h
  split at h
  · simp at h
  · simp at h
  · rename_i t0 st1 ht
    unfold token' at ht
    rw [hn] at ht
    split at h
    · simp at h
      obtain ⟨rfl, rfl⟩ := h
      have := tokenLoop_pos _ _ _ _ text ht hinv
      exact ⟨this.1.congr rfl ⟨rfl, rfl, rfl⟩, this.2⟩
    · simp at h
      obtain ⟨rfl, rfl⟩ := h
      exact tokenLoop_pos _ _ _ _ text ht hinv

theorem lexAll_pos (text : List Char) : ∀ (fuel : Nat) (st : LexState) (acc toks : List Token) (e : Option Err),
    st.nextTokens = [] → Inv text st → lexAll fuel st acc = (toks, e) →
    ∃ new, toks = acc.reverse ++ new ∧ ∀ t ∈ new, t.auto = false → PosOK text t := by
  intro fuel
  induction fuel with
  | zero => intro st acc toks e _ _ h; simp [lexAll] at h; exact ⟨[], by simp [h.1], by simp⟩
  | succ fuel ih =>
    intro st acc toks e hn hinv h
    unfold lexAll at h
    split at h
    · simp at h; exact ⟨[], by simp [h.1], by simp⟩
    · simp at h; exact ⟨[], by simp [h.1], by simp⟩
    · rename_i t st1 ht
      have hf := (token_spec _ hn _ _ ht).1
      have hn1 : st1.nextTokens = [] := by rw [hf.2.2.2, hn]
      obtain ⟨hinv1, hpos⟩ := token_pos st hn t st1 text ht hinv
      obtain ⟨new, hnew, hall⟩ := ih st1 (t :: acc) toks e hn1 hinv1 h
      refine ⟨t :: new, by simp [hnew], ?_⟩
      intro x hx hxa
      simp only [List.mem_cons] at hx
      rcases hx with rfl | hx
      · exact hpos hxa
      · exact hall x hx hxa

end CalmVerif.Proofs.LexerPos
