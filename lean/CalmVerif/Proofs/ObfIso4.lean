/-
Walk facts ⇒ `isoCond`, hence ⇒ `alignedOf` (with `cond_of_walk_facts`), hence the binding structure is preserved.
-/
import CalmVerif.Proofs.ObfIso3
namespace CalmVerif.Obf
open CalmVerif CalmVerif.Unparse

/-- without obfuscate_globals the root record has the empty table -/
theorem root_table_nil {cs : List Char} {kw : List String} (g : Frame) (r : RTree)
    (hbt : buildTree cs kw [] false (closeFrame g) = .ok r) :
    ∀ A, RecRoot (recsOf [] (closeFrame g) r) [A] → A.kind = .func → A.remapped = [] := by
  intro A hrec hk
  obtain ⟨R, rest, hR, hRc⟩ := hrec
  cases r with
  | mk rid rnode rkind rrefs rldecl rrm rcs =>
    simp only [closeFrame, recsOf, List.cons.injEq] at hR
    obtain ⟨rfl, _⟩ := hR
    simp only [List.cons.injEq, and_true] at hRc
    subst hRc
    simp only at hk
    simp only [closeFrame, buildTree, hk] at hbt
    split at hbt
    · cases hbt
    · rename_i rm hrm
      simp only [Bool.false_eq_true, if_false, Except.ok.injEq] at hrm
      subst hrm
      split at hbt
      · cases hbt
      · simp only [Except.ok.injEq, RTree.mk.injEq] at hbt
        exact hbt.2.2.2.2.2.1.symm

theorem isoCond_of_walk_facts (fl : Flags) (program : Val) (st : St) (fin : Final)
    (hcs : Gen.ObfData.charset.Nodup ∧ Gen.ObfData.charset ≠ [])
    (hpre : prewalk tablesGen fl.shadowFuncname program = .ok st)
    (hfin : finalize Gen.ObfData.charset fl st = .ok fin) (hna : noArgsValue fin = true)
    (hfacts : ∀ g, st.stack = [g] → factsProgram fin (recsOf [] (closeFrame g) fin.tree) program = true) :
    isoCond (tauFin fin) fl.obfuscateGlobals (Spec.Scope.resolveProgram program) = true := by
  obtain ⟨g, hg, hgood⟩ := finalize_chainGood fl.shadowFuncname program fl st fin hcs hpre hfin hna
  have hf := hfacts g hg
  have hbok := program_bok fin _ hgood program hf
  refine isoCond_of_bok fl.obfuscateGlobals _ ?_ hbok
  intro hog A hrec
  have hbt : buildTree Gen.ObfData.charset fl.reserved [] false (closeFrame g) = .ok fin.tree := by
    unfold finalize at hfin
    rw [hg, hog] at hfin
    simp only at hfin
    split at hfin
    · cases hfin
    · rename_i rt hrt
      simp only [Except.ok.injEq] at hfin
      subst hfin
      exact hrt
  -- the root record is a function scope (walk facts)
  have hk : A.kind = .func := by
    obtain ⟨R, rest, hR, hRc⟩ := hrec
    unfold factsProgram at hf
    rw [hR] at hf
    simp only [hRc, Bool.and_eq_true] at hf
    simpa using hf.1.1.1.1.1
  exact root_table_nil g fin.tree hbt A hrec hk

/-- walk facts and `noArgsValue` give the full decidable agreement `alignedOf` -/
theorem aligned_of_walk_facts (fl : Flags) (program : Val) (st : St) (fin : Final)
    (hcs : Gen.ObfData.charset.Nodup ∧ Gen.ObfData.charset ≠ [])
    (hpre : prewalk tablesGen fl.shadowFuncname program = .ok st)
    (hfin : finalize Gen.ObfData.charset fl st = .ok fin) (hna : noArgsValue fin = true)
    (hfacts : ∀ g, st.stack = [g] → factsProgram fin (recsOf [] (closeFrame g) fin.tree) program = true) :
    alignedOf fl program = some true := by
  have hc := cond_of_walk_facts fl program st fin hcs hpre hfin hna hfacts
  have hi := isoCond_of_walk_facts fl program st fin hcs hpre hfin hna hfacts
  unfold alignedOf prewalkHook
  simp only [hpre, hfin, hc, hi, Bool.and_self]

end CalmVerif.Obf
