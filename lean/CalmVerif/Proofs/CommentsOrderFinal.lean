/-
C13, source order of the captured comments: for every text, the comments carried by the tokens the driver shifted
during `parseWith T text true`, taken in token order, are pairwise disjoint and in source order (`ShiftedOrdered`,
the former hypothesis of `comments_in_source_order_partial`), and start at strictly increasing offsets.
-/
import CalmVerif.Proofs.CommentsOrderRun
import CalmVerif.Proofs.CommentsFinal

namespace CalmVerif.Proofs.Comments
open CalmVerif CalmVerif.Model CalmVerif.Model.LR CalmVerif.Model.Lexer CalmVerif.Model.Parser

theorem final_ordC (T : Tables) (text : List Char) : OrdC (finalConfig T text true) :=
  reach_ordC (CalmVerif.Proofs.ParserNoInternal.init_cfgOK text true) (init_ordC text) (finalConfig_reach T text true)

theorem shifted_chain (T : Tables) (text : List Char) :
    Chain ((shiftedTokens T text true).flatMap (·.hidden)) (finalConfig T text true).src := by
  have h := (final_ordC T text).chain
  unfold chainC at h
  refine h.sublist ?_
  unfold shiftedTokens
  simp only [List.append_assoc]
  exact List.sublist_append_left _ _

/-- T: `ShiftedOrdered` holds for every text -/
theorem shifted_ordered (T : Tables) (text : List Char) : ShiftedOrdered T text true :=
  (shifted_chain T text).pw

/-- T: the captured comments of the shifted tokens start at strictly increasing source offsets: no source comment
    occurrence is carried by two tokens, or twice by one -/
theorem shifted_offsets_increasing (T : Tables) (text : List Char) :
    (((shiftedTokens T text true).flatMap (·.hidden)).map (·.lexpos)).Pairwise (· < ·) :=
  (shifted_chain T text).offsets_increasing

end CalmVerif.Proofs.Comments
