/-
SpellingOK for the parser-driven lexer: a token (as the parser may hold it, `Good`) whose terminal has a fixed
spelling in `Gen.Tables.Cached.termSpelling` has exactly that spelling as its text.
-/
import CalmVerif.Proofs.LexerDrive
import CalmVerif.Model.Grammar

namespace CalmVerif.Proofs.LexerSpelling
open CalmVerif.Model.TokenRegex CalmVerif.Model.PlyLex CalmVerif.Model.Lexer CalmVerif.Model
open CalmVerif.Proofs.LexerRegex CalmVerif.Proofs.LexerPly CalmVerif.Proofs.LexerLoop CalmVerif.Proofs.LexerTables
open CalmVerif.Proofs.LexerDrive
open CalmVerif.Gen

/-- where the spelling `s` of the terminal named `N` comes from -/
def rowOK (N s : String) : Bool :=
  s == "" || LexData.punctSpelling.contains (N, s) || LexData.keywords.contains (s, N) ||
  (N == "AUTOSEMI" && s == ";") || (N == "GETPROP" && s == "get") || (N == "SETPROP" && s == "set")

/-- D: the parser's table of terminal spellings (`Gen.Tables.Cached.termSpelling`, index = terminal number) agrees with
    the lexer's tables: every non-empty entry is the text of the fixed-text lexer rule of that name, the spelling of
    that keyword type, `;` for AUTOSEMI, `get` / `set` for GETPROP / SETPROP -/
theorem term_spelling_from_lexer_tables :
    Tables.Cached.termSpelling.length = Tables.Cached.terminals.length ∧
    (List.range Tables.Cached.terminals.length).all (fun i =>
      match Tables.Cached.terminals[i]?, Tables.Cached.termSpelling[i]? with
      | some N, some s => rowOK N s
      | _, _ => true) = true := by
  constructor <;> decide +kernel

/-- D: AUTOSEMI, GETPROP, SETPROP are not fixed-text rules, keyword types or "ID"; AUTOSEMI is no rule at all -/
theorem special_names :
    (["AUTOSEMI", "GETPROP", "SETPROP"].all fun N =>
      !(LexData.punctSpelling.map (·.1)).contains N && !("ID" :: kwTypes).contains N) = true ∧
    "AUTOSEMI" ∉ allRules := by
  constructor <;> decide

theorem termIdx_row (name : String) (i : Nat) (s : String) (hi : Grammar.termIdx name = some i)
    (hs : Tables.Cached.termSpelling[i]? = some s) : rowOK name s = true := by
  unfold Grammar.termIdx at hi
  simp only at hi
  split at hi
  · rename_i hlt
    simp at hi
    subst hi
    have hall := List.all_eq_true.mp term_spelling_from_lexer_tables.2 _ (List.mem_range.mpr hlt)
    have hN : Tables.Cached.terminals[List.idxOf name Tables.Cached.terminals]? = some name := by
      rw [List.getElem?_eq_getElem hlt, List.getElem_idxOf hlt]
    rw [hN, hs] at hall
    exact hall
  · simp at hi

/-- the type of a rule match is a rule name, "ID" or a keyword type -/
theorem ruleInfo_type_mem {text : List Char} {t : Token} (h : RuleInfo text t) :
    t.type ∈ allRules ∨ t.type ∈ "ID" :: kwTypes := by
  obtain ⟨_, s, r, ap, ⟨pre, post, _, hr, _⟩, ht⟩ := h
  have hmem : r ∈ allRules := by unfold allRules; cases s <;> simp [hr]
  rw [ht]
  rcases ruleFn_cases ap r t.value with h1 | ⟨_, h2⟩
  · rw [h1]
    unfold ruleType
    split
    · split
      · rename_i kw hkw
        right
        exact List.mem_cons_of_mem _ (lookup_mem _ _ _ hkw)
      · right; simp
    · left; exact hmem
  · rw [h2]; right; simp

theorem prop_value {text : List Char} {t : Token} (h : RuleInfo text t) (N : String) (kw : List Char)
    (hN : N ≠ "ID") (hk : N ∉ kwTypes) (hty : t.type = N) (hm : ruleMatcher N = some (propLen kw)) :
    t.value = kw := by
  obtain ⟨hval, s, r, ap, ⟨_, _, m, _, hm', hn, _⟩, ht⟩ := h
  have hr : r = N := ruleFn_eq ap r _ N hN hk (ht ▸ hty)
  subst hr
  rw [hm] at hm'
  simp at hm'
  subst hm'
  unfold propLen at hn
  split at hn
  · rename_i hs
    split at hn
    · split at hn
      · simp at hn
        rw [← hval, ← hn]
        exact startsWith_take hs
      · simp at hn
    · simp at hn
  · simp at hn

/-- T `spelling_ok`: for a token the parser may hold, if its terminal has the fixed spelling `s ≠ ""` then its text
    is `s` -/
theorem spelling_ok {text : List Char} {idx : List Nat} {t : Token} (hg : Good text idx t)
    (i : Nat) (s : String) (hi : Grammar.termIdx t.type = some i)
    (hs : Tables.Cached.termSpelling[i]? = some s) (hne : s ≠ "") : String.ofList t.value = s := by
  have hrow := termIdx_row _ _ _ hi hs
  obtain ⟨hsp, hnr⟩ := special_names
  simp only [List.all_cons, List.all_nil, Bool.and_true, Bool.and_eq_true, Bool.not_eq_true',
    List.contains_eq_mem, decide_eq_false_iff_not] at hsp
  obtain ⟨⟨ha1, ha2⟩, ⟨hg1, hg2⟩, ⟨hs1, hs2⟩⟩ := hsp
  unfold rowOK at hrow
  simp only [Bool.or_eq_true, Bool.and_eq_true, beq_iff_eq, List.contains_eq_mem, decide_eq_true_eq] at hrow
  cases hauto : t.auto with
  | true =>
    obtain ⟨hty, hv, _⟩ := hg.2 hauto
    rw [hv]
    rcases hrow with ((((h | h) | h) | h) | h) | h
    · exact absurd h hne
    · exfalso; apply ha1; rw [← hty]; exact List.mem_map_of_mem (f := (·.1)) h
    · exfalso; apply ha2; rw [← hty]
      exact List.mem_cons_of_mem _ (List.mem_map_of_mem (f := (·.2)) h)
    · rw [h.2]
    · rw [hty] at h; simp at h
    · rw [hty] at h; simp at h
  | false =>
    obtain ⟨_, _, hri⟩ := hg.1 hauto
    rcases hrow with ((((h | h) | h) | h) | h) | h
    · exact absurd h hne
    · rw [(punct_munch hri _ _ h rfl).1, String.ofList_toList]
    · exact keyword_type_exact hri s t.type h rfl
    · exfalso
      rcases ruleInfo_type_mem hri with h' | h'
      · rw [h.1] at h'; exact hnr h'
      · rw [h.1] at h'; exact ha2 h'
    · rw [h.2]
      have hN : "GETPROP" ≠ "ID" := by decide
      have hk : "GETPROP" ∉ kwTypes := fun hk => hg2 (List.mem_cons_of_mem _ hk)
      rw [prop_value hri "GETPROP" ['g', 'e', 't'] hN hk h.1 (by simp [ruleMatcher])]
    · rw [h.2]
      have hN : "SETPROP" ≠ "ID" := by decide
      have hk : "SETPROP" ∉ kwTypes := fun hk => hs2 (List.mem_cons_of_mem _ hk)
      rw [prop_value hri "SETPROP" ['s', 'e', 't'] hN hk h.1 (by simp [ruleMatcher])]

end CalmVerif.Proofs.LexerSpelling
