/-
C05: in the regenerated LALR tables a division token (`/`, `/=`) and a regular-expression literal are never BOTH
acceptable in the same parser state — except in the states right after the closing brace of
`function name (…) {…}`, where the table reduces to a function DECLARATION on REGEX and to a function EXPRESSION on
`/` (`/=`): the locus of finding KF-03a (a function expression may head an expression statement in calmjs's grammar).
So whenever the parser has an action for the class of `/` token the lexer delivered, in any other state, the other
class would have been a syntax error right there: the reading of that `/` is the one the grammar dictates.
-/
import CalmVerif.Proofs.GrammarFacts
import CalmVerif.Proofs.LRSound
namespace CalmVerif.Model.GrammarFacts
open CalmVerif.Model.LR

/-- evaluate `n` to a numeral before handing it on (the kernel evaluates by name: without this every use of a
    terminal index would redo the string search in the terminal list) -/
def forceNat {α : Type} (n : Nat) (k : Nat → α) : α :=
  match n with
  | 0 => k 0
  | m + 1 => k (m + 1)

theorem forceNat_eq {α : Type} (n : Nat) (k : Nat → α) : forceNat n k = k n := by
  cases n <;> rfl

/-- the entry of `row` on `term`, if any, reduces a production `function_declaration | function_expr → … }`
    (`fd`, `fe`: indices of the two nonterminals, `rb`: index of `}`) -/
def functionEndEntryI (g : GT) (fd fe rb : Nat) (row : List Nat) (term : Nat) : Bool :=
  match lookupFlat row term with
  | none => true
  | some code =>
    match decodeAct code with
    | .reduce p =>
      match g.prods[p]? with
      | some (lhs, rhs) => (lhs == fd || lhs == fe) && rhs.getLast? == some rb
      | none => false
    | _ => false

def functionEndEntry (g : GT) (row : List Nat) (term : Nat) : Bool :=
  functionEndEntryI g (g.nonterm "function_declaration") (g.nonterm "function_expr") (g.term "RBRACE") row term

def rowHas (row : List Nat) (term : Nat) : Bool := (lookupFlat row term).isSome

def slashRowOKI (g : GT) (dv de rx fd fe rb : Nat) (row : List Nat) : Bool :=
  !((rowHas row dv || rowHas row de) && rowHas row rx) ||
    (functionEndEntryI g fd fe rb row dv && functionEndEntryI g fd fe rb row de && functionEndEntryI g fd fe rb row rx)

/-- a row is fine if it does not accept both classes, or all its `/`-entries are function-end reductions -/
def slashRowOK (g : GT) (row : List Nat) : Bool :=
  slashRowOKI g (g.term "DIV") (g.term "DIVEQUAL") (g.term "REGEX") (g.nonterm "function_declaration")
    (g.nonterm "function_expr") (g.term "RBRACE") row

def slashExclusive (g : GT) : Bool :=
  g.terminals.contains "DIV" && g.terminals.contains "DIVEQUAL" && g.terminals.contains "REGEX" &&
    g.nonterminals.contains "function_declaration" && g.nonterminals.contains "function_expr" &&
    allFrom (fun _ row => slashRowOK g row) 0 g.action

/-- the same check with the six indices evaluated once -/
def slashExclusiveF (g : GT) : Bool :=
  g.terminals.contains "DIV" && g.terminals.contains "DIVEQUAL" && g.terminals.contains "REGEX" &&
    g.nonterminals.contains "function_declaration" && g.nonterminals.contains "function_expr" &&
    forceNat (g.term "DIV") fun dv => forceNat (g.term "DIVEQUAL") fun de => forceNat (g.term "REGEX") fun rx =>
    forceNat (g.nonterm "function_declaration") fun fd => forceNat (g.nonterm "function_expr") fun fe =>
    forceNat (g.term "RBRACE") fun rb => allFrom (fun _ row => slashRowOKI g dv de rx fd fe rb row) 0 g.action

theorem slashExclusiveF_eq (g : GT) : slashExclusiveF g = slashExclusive g := by
  simp only [slashExclusiveF, slashExclusive, forceNat_eq, slashRowOK]

/-- the states that accept both classes (for the non-vacuity statement) -/
def slashBothFrom (dv de rx : Nat) : Nat → List (List Nat) → List Nat
  | _, [] => []
  | s, row :: rows =>
    (if (rowHas row dv || rowHas row de) && rowHas row rx then [s] else []) ++ slashBothFrom dv de rx (s + 1) rows

def slashBoth (g : GT) : List Nat :=
  forceNat (g.term "DIV") fun dv => forceNat (g.term "DIVEQUAL") fun de => forceNat (g.term "REGEX") fun rx =>
    slashBothFrom dv de rx 0 g.action

theorem slashExclusive_state {g : GT} (h : slashExclusive g = true) {s : Nat}
    (hd : hasAction g s (g.term "DIV") = true ∨ hasAction g s (g.term "DIVEQUAL") = true)
    (hr : hasAction g s (g.term "REGEX") = true) :
    ∃ row, g.action[s]? = some row ∧ functionEndEntry g row (g.term "DIV") = true ∧
      functionEndEntry g row (g.term "DIVEQUAL") = true ∧ functionEndEntry g row (g.term "REGEX") = true := by
  simp only [slashExclusive, Bool.and_eq_true] at h
  unfold hasAction at hd hr
  cases hrow : g.action[s]? with
  | none => simp [hrow] at hr
  | some row =>
    simp only [hrow] at hd hr
    have hok := allFrom_get (i := 0) h.2 hrow
    simp only [slashRowOK, slashRowOKI, rowHas, Bool.or_eq_true, Bool.not_eq_true', Bool.and_eq_false_iff, Bool.or_eq_false_iff,
      Bool.and_eq_true] at hok
    refine ⟨row, rfl, ?_⟩
    rcases hok with hno | hyes
    · rcases hno with ⟨h1, h2⟩ | h3
      · rcases hd with hd | hd
        · rw [h1] at hd; cases hd
        · rw [h2] at hd; cases hd
      · rw [h3] at hr; cases hr
    · exact ⟨by simpa [functionEndEntry] using hyes.1.1, by simpa [functionEndEntry] using hyes.1.2,
        by simpa [functionEndEntry] using hyes.2⟩

end CalmVerif.Model.GrammarFacts
