/-
C05: in the regenerated LALR tables a division token (`/`, `/=`) and a regular-expression literal are never BOTH
acceptable in the same parser state — except in the states right after the closing brace of
`function name (…) {…}`, where the table reduces to a function DECLARATION on REGEX and to a function EXPRESSION on
`/` (`/=`): the locus of finding KF-03a (a function expression may head an expression statement in calmjs's grammar).
So whenever the parser has an action for the class of `/` token the lexer delivered, in any other state, the other
class would have been a syntax error right there: the reading of that `/` is the one the grammar dictates.
-/
import CalmVerif.Proofs.GrammarFacts
import CalmVerif.Proofs.LRSound
namespace CalmVerif.Model.GrammarFacts
open CalmVerif.Model.LR

/-- the entry of `row` on `term`, if any, reduces a production `function_declaration | function_expr → … }` -/
def functionEndEntry (g : GT) (row : List Nat) (term : Nat) : Bool :=
  match lookupFlat row term with
  | none => true
  | some code =>
    match decodeAct code with
    | .reduce p =>
      match g.prods[p]? with
      | some (lhs, rhs) =>
        (g.nonterminals[lhs]? == some "function_declaration" || g.nonterminals[lhs]? == some "function_expr") &&
          rhs.getLast? == some (g.term "RBRACE")
      | none => false
    | _ => false

def rowHas (row : List Nat) (term : Nat) : Bool := (lookupFlat row term).isSome

/-- a row is fine if it does not accept both classes, or all its `/`-entries are function-end reductions -/
def slashRowOK (g : GT) (row : List Nat) : Bool :=
  !((rowHas row (g.term "DIV") || rowHas row (g.term "DIVEQUAL")) && rowHas row (g.term "REGEX")) ||
    (functionEndEntry g row (g.term "DIV") && functionEndEntry g row (g.term "DIVEQUAL") &&
      functionEndEntry g row (g.term "REGEX"))

def slashExclusive (g : GT) : Bool :=
  g.terminals.contains "DIV" && g.terminals.contains "DIVEQUAL" && g.terminals.contains "REGEX" &&
    allFrom (fun _ row => slashRowOK g row) 0 g.action

/-- the states that accept both classes (for the non-vacuity statement) -/
def slashBothFrom (g : GT) : Nat → List (List Nat) → List Nat
  | _, [] => []
  | s, row :: rows =>
    (if (rowHas row (g.term "DIV") || rowHas row (g.term "DIVEQUAL")) && rowHas row (g.term "REGEX") then [s] else []) ++
      slashBothFrom g (s + 1) rows

theorem slashExclusive_state {g : GT} (h : slashExclusive g = true) {s : Nat}
    (hd : hasAction g s (g.term "DIV") = true ∨ hasAction g s (g.term "DIVEQUAL") = true)
    (hr : hasAction g s (g.term "REGEX") = true) :
    ∃ row, g.action[s]? = some row ∧ functionEndEntry g row (g.term "DIV") = true ∧
      functionEndEntry g row (g.term "DIVEQUAL") = true ∧ functionEndEntry g row (g.term "REGEX") = true := by
  simp only [slashExclusive, Bool.and_eq_true] at h
  unfold hasAction at hd hr
  cases hrow : g.action[s]? with
  | none => simp [hrow] at hr
  | some row =>
    simp only [hrow] at hd hr
    have hok := allFrom_get (i := 0) h.2 hrow
    simp only [slashRowOK, rowHas, Bool.or_eq_true, Bool.not_eq_true', Bool.and_eq_false_iff, Bool.or_eq_false_iff,
      Bool.and_eq_true] at hok
    refine ⟨row, rfl, ?_⟩
    rcases hok with hno | hyes
    · rcases hno with ⟨h1, h2⟩ | h3
      · rcases hd with hd | hd
        · rw [h1] at hd; cases hd
        · rw [h2] at hd; cases hd
      · rw [h3] at hr; cases hr
    · exact ⟨hyes.1.1, hyes.1.2, hyes.2⟩

end CalmVerif.Model.GrammarFacts
