/-
Further kernel decisions about the type certificate (Proofs/ParsedTypedCert.lean): the accepted value belongs to a
nonterminal whose only type is a well-typed `ES5Program` node; fixed spellings do not end with a line terminator.
-/
import CalmVerif.Proofs.ParsedTypedCert
namespace CalmVerif.Proofs.ParsedTyped
open CalmVerif CalmVerif.Model CalmVerif.Model.ActionDesc CalmVerif.TokenAdj CalmVerif.Unparse
open CalmVerif.Gen.Tables.Cached

theorem cert_accept_entry : acceptEntryOK cert Grammar.cached Gen.Tables.Cert.acc = true := by
  decide +kernel

/-- the terminals without a fixed spelling -/
theorem variable_text_terminals_dec :
    ((List.range numTerminals).filter fun i => (termSpelling[i]?).getD "" == "").map (fun i => (terminals[i]?).getD "")
      = ["$end", "ID", "NUMBER", "REGEX", "STRING", "error"] := by
  decide +kernel

theorem spellings_endsOK : termSpelling.all endsOK = true := by
  decide +kernel

theorem termSpelling_length : termSpelling.length = numTerminals := by
  decide +kernel

/-- a fixed spelling has the signature the certificate gives its terminal -/
theorem spellings_sig : (List.range numTerminals).all (fun i =>
    let s := (termSpelling[i]?).getD ""
    s == "" || ((cert.termSigs[i]?).getD []).contains (sig s)) = true := by
  decide +kernel

/-- a fixed spelling has the signature the certificate gives its terminal, and does not end with a line terminator -/
theorem fixed_spelling_ok {i : Nat} {s : String} (hs : termSpelling[i]? = some s) (hne : s ≠ "") :
    ((cert.termSigs[i]?).getD []).contains (sig s) = true ∧ endsOK s = true := by
  have hlt : i < numTerminals := by
    have := (List.getElem?_eq_some_iff.mp hs).1
    rw [termSpelling_length] at this; exact this
  constructor
  · have := List.all_eq_true.mp spellings_sig i (List.mem_range.mpr hlt)
    simp only [hs, Option.getD_some, Bool.or_eq_true, beq_iff_eq] at this
    rcases this with h0 | h1
    · exact absurd h0 hne
    · exact h1
  · exact List.all_eq_true.mp spellings_endsOK s (List.mem_of_getElem? hs)

end CalmVerif.Proofs.ParsedTyped
