/-
Helper lemmas for C06 / C12: the fuel supplied to the `while True` loop of `_token` and to the stand-alone
iteration always suffices (the outcome `outOfFuel` is unreachable).
-/
import CalmVerif.Proofs.LexerSegm

namespace CalmVerif.Proofs.LexerTerm
open CalmVerif.Model.TokenRegex CalmVerif.Model.PlyLex CalmVerif.Model.Lexer
open CalmVerif.Proofs.LexerPly CalmVerif.Proofs.LexerStep CalmVerif.Proofs.LexerLoop CalmVerif.Proofs.LexerSegm

theorem colnoAt_err (st : LexState) (p : Nat) (e : Err) (h : colnoAt st p = .error e) : e ≠ .outOfFuel := by
  unfold colnoAt lastNewline at h
  split at h
  · simp at h
  · rename_i e' he
    split at he
    · simp at he
    · simp at he h; subst he; subst h; simp

theorem tError_ne (st : LexState) (p : Nat) : tError st p ≠ .outOfFuel := by
  unfold tError
  simp only
  split
  · rename_i e he; exact colnoAt_err _ _ _ he
  · split
    · split
      · split
        · split
          · rename_i e he; exact colnoAt_err _ _ _ he
          · simp
        · simp [unterminatedMsg]
      · simp [unterminatedMsg]
    · split
      · simp
      · split <;> simp

theorem tRegexError_ne (st : LexState) (p : Nat) : tRegexError st p ≠ .outOfFuel := by
  unfold tRegexError
  split
  · rename_i e he; exact colnoAt_err _ _ _ he
  · simp

theorem getLexerToken_ne (s : LexerState) (st : LexState) : getLexerToken s st ≠ .error .outOfFuel := by
  unfold getLexerToken
  split
  · simp
  · simp
  · split
    · simp; exact tError_ne _ _
    · simp; exact tRegexError_ne _ _
  · split
    · rename_i e he
      simp; exact colnoAt_err _ _ _ he
    · simp

theorem setTokens_ne (st : LexState) (t : Option Token) : setTokens st t ≠ .error .outOfFuel := by
  unfold setTokens; split <;> simp

theorem updateStack_ne (st : LexState) (c : Token) : updateStack st c ≠ .error .outOfFuel := by
  have hp : ∀ st c, pushParen st c ≠ .error .outOfFuel := by
    intro st c; unfold pushParen; repeat' split
    all_goals simp
  have hq : ∀ st, popParen st ≠ .error .outOfFuel := by
    intro st; unfold popParen; repeat' split
    all_goals simp
  unfold updateStack
  split
  · rename_i e he
    split at he
    · intro h; simp at h; subst h; exact hp _ _ he
    · simp at he
  · split
    · rename_i e he
      split at he
      · intro h; simp at h; subst h; exact hq _ he
      · simp at he
    · split <;> simp

theorem getUpdateToken_ne (st : LexState) : getUpdateToken st ≠ .error .outOfFuel := by
  unfold getUpdateToken
  split
  · rename_i e he
    intro h; simp at h; subst h; exact getLexerToken_ne _ _ he
  · split
    · rename_i e he
      intro h; simp at h; subst h; exact setTokens_ne _ _ he
    · split
      · simp
      · split
        · rename_i e he
          intro h; simp at h; subst h; exact updateStack_ne _ _ he
        · split <;> simp

theorem divOrRegex_ne (st : LexState) : divOrRegex st ≠ .error .outOfFuel := by
  unfold divOrRegex
  split
  · rename_i e he
    intro h; simp at h; subst h
    unfold isDivisionAllowed at he
    simp only at he
    repeat' split at he
    all_goals simp at he
  · exact getUpdateToken_ne _
  · split
    · rename_i e he
      intro h; simp at h; subst h; exact getLexerToken_ne _ _ he
    · split
      · rename_i e he
        intro h; simp at h; subst h; exact setTokens_ne _ _ he
      · simp

/-- a raw step with a token moves `lexpos` forward, inside the text -/
theorem rawStep_progress {st : LexState} {t : Token} {st1 : LexState} (h : RawStep st (some t) st1) :
    st1.text = st.text ∧ st.lexpos < st1.lexpos ∧ st1.lexpos ≤ st.text.length := by
  obtain ⟨hf, s, raw, st0, hraw, ⟨hl, _, _⟩, _⟩ := h
  have hpos : 0 < raw.value.length := by
    cases hv : raw.value with
    | nil => exact absurd hv hraw.ne
    | cons => simp
  have := hraw.le; have := hraw.lexpos; have := hraw.bound
  exact ⟨hf.1, by omega, by omega⟩

theorem tokenLoop_fuel : ∀ (fuel : Nat) (st : LexState), st.text.length + 1 - st.lexpos < fuel →
    tokenLoop fuel st ≠ .error .outOfFuel := by
  intro fuel
  induction fuel with
  | zero => intro st h; omega
  | succ fuel ih =>
    intro st hm
    unfold tokenLoop
    split
    · split
      · rename_i e he
        intro h; simp at h; subst h; exact getUpdateToken_ne _ he
      · simp
      · rename_i t st1 hg
        obtain ⟨ht, h1, h2⟩ := rawStep_progress (getUpdateToken_spec _ _ _ hg)
        split
        · exact ih st1 (by rw [ht]; omega)
        · simp
    · split
      · split
        · rename_i e he
          intro h; simp at h; subst h; exact getUpdateToken_ne _ he
        · simp
        · rename_i t st1 hg
          obtain ⟨ht, h1, h2⟩ := rawStep_progress (getUpdateToken_spec _ _ _ hg)
          split
          · split
            · split
              · simp
              · split
                · exact ih _ (by simp only; rw [ht]; omega)
                · exact ih st1 (by rw [ht]; omega)
            · exact ih st1 (by rw [ht]; omega)
          · simp
      · exact divOrRegex_ne _

theorem token_ne (st : LexState) : token st ≠ .error .outOfFuel := by
  have h' : token' st ≠ .error .outOfFuel := by
    unfold token'
    split
    · simp
    · exact tokenLoop_fuel _ _ (by unfold tokenFuel; omega)
  unfold token
  split
  · rename_i e he
    intro h; simp at h; subst h; exact h' he
  · simp
  · split <;> simp

theorem lexAll_fuel : ∀ (fuel : Nat) (st : LexState) (acc : List Token),
    st.nextTokens = [] → st.text.length - st.lexpos < fuel → (lexAll fuel st acc).2 ≠ some .outOfFuel := by
  intro fuel
  induction fuel with
  | zero => intro st acc _ h; omega
  | succ fuel ih =>
    intro st acc hn hm
    unfold lexAll
    split
    · rename_i e he
      simp
      intro h; subst h; exact token_ne _ he
    · simp
    · rename_i t st1 ht
      obtain ⟨hf, hlt, hbd, _, _⟩ := token_spec _ hn _ _ ht
      exact ih st1 _ (by rw [hf.2.2.2, hn]) (by rw [hf.1]; omega)

end CalmVerif.Proofs.LexerTerm
