/-
Bridge between the two independent ES5 line/column references: `Spec.LinesRef.lineCol` (terminator-end list, used by
the lexer theorems) and `Spec.Lines.lineCol` (direct scan, the reference of the judges) compute the same function.
-/
import CalmVerif.Spec.Lines
import CalmVerif.Proofs.LexerLines

namespace CalmVerif.Proofs.LinesBridge
open CalmVerif.Spec
open CalmVerif.Proofs.LexerLines

theorem isLT_eq (c : Char) : Lines.isLineTerminator c = LinesRef.isLineTerminator c := by
  unfold Lines.isLineTerminator LinesRef.isLineTerminator
  have key : ∀ (n : Nat) (d : Char), d.toNat = n → ((c.toNat == n) = decide (c = d)) := by
    intro n d hd
    rw [Bool.eq_iff_iff]
    simp only [beq_iff_eq, decide_eq_true_eq]
    constructor
    · intro h
      rw [← Char.ofNat_toNat c, h, ← hd, Char.ofNat_toNat]
    · intro h
      rw [h, hd]
  rw [key 0x2028 '\u2028' (by decide), key 0x2029 '\u2029' (by decide)]
  have e : ∀ d : Char, (c == d) = decide (c = d) := by intro d; simp [BEq.beq]
  rw [e, e]

theorem filter_all_gt (l : List Nat) (off : Nat) (h : ∀ e ∈ l, off < e) : l.filter (· ≤ off) = [] := by
  rw [List.filter_eq_nil_iff]
  intro e he
  have := h e he
  simp; omega

theorem aux_eq : ∀ (l : List Char) (pos off line start : Nat),
    Lines.lineColAux l pos off line start =
      (line + ((LinesRef.terminatorEnds l pos).filter (· ≤ off)).length,
       off - ((LinesRef.terminatorEnds l pos).filter (· ≤ off)).getLastD start + 1) := by
  intro l pos off line start
  fun_induction Lines.lineColAux l pos off line start with
  | case1 pos off line start => simp [LinesRef.terminatorEnds]
  | case2 rest pos off line start hle =>
    have : (LinesRef.terminatorEnds ('\r' :: '\n' :: rest) pos).filter (· ≤ off) = [] := by
      apply filter_all_gt
      intro e he
      simp only [LinesRef.terminatorEnds, List.head?_cons, and_self, if_true] at he
      have hne : ¬ ('\n' = '\r' ∧ rest.head? = some '\n') := by simp
      simp only [hne, if_false] at he
      have hlt : LinesRef.isLineTerminator '\n' = true := by decide
      simp only [hlt, if_true, List.mem_cons] at he
      rcases he with rfl | he
      · omega
      · have := te_bounds _ _ e he; omega
    rw [this]; simp
  | case3 rest pos off line start hgt ih =>
    have hte : LinesRef.terminatorEnds ('\r' :: '\n' :: rest) pos =
        (pos + 2) :: LinesRef.terminatorEnds rest (pos + 2) := by
      simp only [LinesRef.terminatorEnds, List.head?_cons, and_self, if_true]
      have hne : ¬ ('\n' = '\r' ∧ rest.head? = some '\n') := by simp
      have hlt : LinesRef.isLineTerminator '\n' = true := by decide
      simp only [hne, if_false, hlt, if_true]
    rw [ih, hte]
    have hin : decide (pos + 2 ≤ off) = true := by simp; omega
    simp only [List.filter_cons, hin, if_true, List.length_cons, List.getLastD_cons]
    rw [Prod.mk.injEq]
    exact ⟨by omega, rfl⟩
  | case4 c rest pos off line start hnot hle =>
    have : (LinesRef.terminatorEnds (c :: rest) pos).filter (· ≤ off) = [] := by
      apply filter_all_gt
      intro e he
      have := te_bounds _ _ e he; omega
    rw [this]; simp
  | case5 c rest pos off line start hnot hgt hlt ih =>
    have hcond : ¬ (c = '\r' ∧ rest.head? = some '\n') := by
      intro ⟨h1, h2⟩
      cases rest with
      | nil => simp at h2
      | cons d ds => simp at h2; exact hnot ds h1 (by rw [h2])
    have hlt' : LinesRef.isLineTerminator c = true := by rw [← isLT_eq]; exact hlt
    have hte : LinesRef.terminatorEnds (c :: rest) pos = (pos + 1) :: LinesRef.terminatorEnds rest (pos + 1) := by
      simp only [LinesRef.terminatorEnds, hcond, if_false, hlt', if_true]
    rw [ih, hte]
    have hin : decide (pos + 1 ≤ off) = true := by simp; omega
    simp only [List.filter_cons, hin, if_true, List.length_cons, List.getLastD_cons]
    rw [Prod.mk.injEq]
    exact ⟨by omega, rfl⟩
  | case6 c rest pos off line start hnot hgt hlt ih =>
    have hcond : ¬ (c = '\r' ∧ rest.head? = some '\n') := by
      intro ⟨h1, h2⟩
      cases rest with
      | nil => simp at h2
      | cons d ds => simp at h2; exact hnot ds h1 (by rw [h2])
    have hlt' : LinesRef.isLineTerminator c = false := by
      rw [← isLT_eq]; simpa using hlt
    have hte : LinesRef.terminatorEnds (c :: rest) pos = LinesRef.terminatorEnds rest (pos + 1) := by
      simp only [LinesRef.terminatorEnds, hcond, if_false, hlt']
      simp
    rw [ih, hte]

/-- T `lineCol_bridge`: the two reference definitions of the ES5 (line, column) of an offset agree on every text and
    every offset -/
theorem lineCol_bridge (text : List Char) (off : Nat) : Lines.lineCol text off = LinesRef.lineCol text off := by
  unfold Lines.lineCol LinesRef.lineCol
  rw [aux_eq]

end CalmVerif.Proofs.LinesBridge
