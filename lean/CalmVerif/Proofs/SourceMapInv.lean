/-
C09 helper lemmas, part 3: the invariant of the `write` loop.
-/
import CalmVerif.Proofs.SourceMapWrite

namespace CalmVerif.Proofs.SourceMap
open CalmVerif.Model.SourceMap
open CalmVerif.Spec.SourceMapV3

/-- range condition of a decoded entry relative to table sizes -/
def EntryOK (nsrc nname : Nat) (e : Entry) : Prop :=
  0 ≤ e.genCol ∧
  (∀ s l c, e.src = some (s, l, c) → 0 ≤ s ∧ (s < (nsrc : Int) ∨ s = 0) ∧ 0 ≤ l ∧ 0 ≤ c) ∧
  (∀ n, e.name = some n → 0 ≤ n ∧ n < (nname : Int))

theorem EntryOK.mono {a b a' b' : Nat} {e : Entry} (h : EntryOK a b e) (ha : a ≤ a') (hb : b ≤ b') :
    EntryOK a' b' e := by
  obtain ⟨h0, h1, h2⟩ := h
  refine ⟨h0, ?_, ?_⟩
  · intro s l c hs
    obtain ⟨x1, x2, x3, x4⟩ := h1 s l c hs
    refine ⟨x1, ?_, x3, x4⟩
    rcases x2 with x2 | x2
    · left; omega
    · right; exact x2
  · intro n hn
    obtain ⟨x1, x2⟩ := h2 n hn
    exact ⟨x1, by omega⟩

/-- generated columns strictly increasing -/
def Sorted (l : List Entry) : Prop := (l.map (·.genCol)).Pairwise (· < ·)

theorem sorted_nil : Sorted [] := by simp [Sorted]

theorem sorted_snoc (l : List Entry) (e : Entry) :
    Sorted (l ++ [e]) ↔ Sorted l ∧ ∀ x ∈ l, x.genCol < e.genCol := by
  simp [Sorted, List.pairwise_append]

structure WInv (st : WState) (D : List (List Entry)) (es : List Entry) : Prop where
  dec : ∃ t1, decodeLines Totals.zero st.done = some (t1, D) ∧
        decodeLine t1 0 st.cur = some (totalsOf st, st.book.sink.prev, es)
  prev_nonneg : 0 ≤ st.book.sink.prev
  prev_le : st.book.sink.prev ≤ st.book.sink.curr
  cols_lt : ∀ e ∈ es, e.genCol < st.book.sink.curr
  es_sorted : Sorted es
  D_sorted : ∀ l ∈ D, Sorted l
  sline_pos : 1 ≤ st.book.sline.curr
  scol_pos : 1 ≤ st.book.scol.curr
  src_cur : CurOK st.sources
  ok : ∀ l ∈ D ++ [es], ∀ e ∈ l, EntryOK st.sources.keys.length st.names.keys.length e

theorem WInv.init : WInv WState.init [] [] where
  dec := ⟨Totals.zero, rfl, rfl⟩
  prev_nonneg := by decide
  prev_le := by decide
  cols_lt := by simp
  es_sorted := sorted_nil
  D_sorted := by simp
  sline_pos := by decide
  scol_pos := by decide
  src_cur := Or.inr rfl
  ok := by simp

theorem writePiece_fst (cc : CharClasses) (st : WState) (line : List Char) (ln cn name source) :
    (writePiece cc st line ln cn name source).1 =
      if endsNl cc.nl line then
        pushLine { emitSeg st ln cn name source with
          book := { (emitSeg st ln cn name source).book with originalLen := 0, writtenLen := 0 } }
      else
        { emitSeg st ln cn name source with
          book := { (emitSeg st ln cn name source).book with
            writtenLen := line.length,
            originalLen := (match name with
              | some nm => if nm ≠ [] then nm.length else line.length
              | none => line.length),
            sink := (emitSeg st ln cn name source).book.sink.set
              ((emitSeg st ln cn name source).book.sink.abs + line.length) } } := by
  unfold writePiece
  split
  · simp only; split <;> rfl
  · rfl

theorem entryOf_ok (st : WState) (ln cn : Option Nat) (name : Option (List Char)) (source : Option Src)
    (hprev : 0 ≤ st.book.sink.prev) (hle : st.book.sink.prev ≤ st.book.sink.curr)
    (h1 : 1 ≤ st.book.sline.curr) (h2 : 1 ≤ st.book.scol.curr) (h3 : CurOK st.sources) :
    EntryOK (emitSeg st ln cn name source).sources.keys.length (emitSeg st ln cn name source).names.keys.length
      (entryOf st (emitSeg st ln cn name source) ln cn name) := by
  have hs := emitSeg_sources_curOK st ln cn name source h3
  have hl := emitSeg_sline st ln cn name source h1
  have hc := emitSeg_scol st ln cn name source h2
  unfold entryOf
  split
  · rename_i l c
    refine ⟨by simp only; omega, ?_, ?_⟩
    · intro s l' c' he
      simp only [Option.some.injEq, Prod.mk.injEq, totalsOf] at he
      obtain ⟨rfl, rfl, rfl⟩ := he
      refine ⟨by omega, ?_, by omega, by omega⟩
      rcases hs with hs | hs
      · left; omega
      · right; omega
    · intro n hn
      cases name with
      | none => simp at hn
      | some nm =>
        simp only [Option.map_some, Option.some.injEq, totalsOf] at hn
        subst hn
        rw [emitSeg_names]
        simp only [Names.update]
        have := Names.add_current_lt st.names nm
        omega
  · refine ⟨by simp only; omega, ?_, ?_⟩
    · intro s l c he; simp at he
    · intro n hn; simp at hn


theorem mem_snoc_lines {D : List (List Entry)} {es l : List Entry} (h : l ∈ D ++ [es]) :
    l ∈ D ∨ l = es := by simpa using h

/-- the step of the invariant over one piece (`line` is a non-empty piece of `splitlines`) -/
theorem writePiece_inv (cc : CharClasses) (st : WState) (D : List (List Entry)) (es : List Entry)
    (h : WInv st D es) (line : List Char) (hne : line ≠ []) (ln cn name source) :
    let st1 := emitSeg st ln cn name source
    let e := entryOf st st1 ln cn name
    let st2 := (writePiece cc st line ln cn name source).1
    st2.sources = st1.sources ∧ st2.names = st1.names ∧
    (endsNl cc.nl line = true → WInv st2 (D ++ [es ++ [e]]) [] ∧ st2.done.length = st.done.length + 1
        ∧ st2.book.sink.curr = 0) ∧
    (endsNl cc.nl line = false → WInv st2 D (es ++ [e]) ∧ st2.done = st.done
        ∧ st2.book.sink.curr = st.book.sink.curr + line.length) := by
  intro st1 e st2
  obtain ⟨seg, hcur, hseg⟩ := emitSeg_decode st ln cn name source
  obtain ⟨t1, hd1, hd2⟩ := h.dec
  have hline := decodeLine_snoc _ _ _ seg hd2 hseg
  have hdone : (emitSeg st ln cn name source).done = st.done := emitSeg_done ..
  have hsink : (emitSeg st ln cn name source).book.sink = st.book.sink := emitSeg_sink ..
  have hpS := (emitSeg_sources_prefix st ln cn name source).length_le
  have hpN := (emitSeg_names_prefix st ln cn name source).length_le
  have heok : EntryOK st1.sources.keys.length st1.names.keys.length e :=
    entryOf_ok st ln cn name source h.prev_nonneg h.prev_le h.sline_pos h.scol_pos h.src_cur
  have hegc : e.genCol = st.book.sink.curr := by
    show (entryOf _ _ _ _ _).genCol = _
    unfold entryOf; split <;> rfl
  have hsorted : Sorted (es ++ [e]) := by
    rw [sorted_snoc]; exact ⟨h.es_sorted, fun x hx => by rw [hegc]; exact h.cols_lt x hx⟩
  have hok : ∀ l ∈ D ++ [es ++ [e]], ∀ x ∈ l, EntryOK st1.sources.keys.length st1.names.keys.length x := by
    intro l hl x hx
    rcases mem_snoc_lines hl with hl | rfl
    · exact (h.ok l (by simp [hl]) x hx).mono hpS hpN
    · simp only [List.mem_append, List.mem_singleton] at hx
      rcases hx with hx | rfl
      · exact (h.ok es (by simp) x hx).mono hpS hpN
      · exact heok
  have hlen : 0 < line.length := List.length_pos_iff.mpr hne
  have hst2 : st2 = _ := writePiece_fst cc st line ln cn name source
  by_cases hnl : endsNl cc.nl line = true
  · simp only [hnl, if_true] at hst2
    refine ⟨by rw [hst2]; rfl, by rw [hst2]; rfl, fun _ => ?_, fun hc => by simp [hnl] at hc⟩
    refine ⟨?_, by rw [hst2]; simp [pushLine, hdone], by rw [hst2]; rfl⟩
    rw [hst2]
    refine
      { dec := ⟨totalsOf st1, ?_, rfl⟩
        prev_nonneg := by simp [pushLine, Cell.reset]
        prev_le := by simp [pushLine, Cell.reset]
        cols_lt := by simp
        es_sorted := sorted_nil
        D_sorted := ?_
        sline_pos := emitSeg_sline st ln cn name source h.sline_pos
        scol_pos := emitSeg_scol st ln cn name source h.scol_pos
        src_cur := emitSeg_sources_curOK st ln cn name source h.src_cur
        ok := ?_ }
    · simp only [pushLine]
      rw [hdone, hcur]
      exact decodeLines_snoc _ _ _ hd1 hline
    · intro l hl
      rcases mem_snoc_lines hl with hl | rfl
      · exact h.D_sorted l hl
      · exact hsorted
    · intro l hl x hx
      rcases mem_snoc_lines hl with hl | rfl
      · exact hok l hl x hx
      · simp at hx
  · have hnl' : endsNl cc.nl line = false := by simpa using hnl
    simp only [hnl', Bool.false_eq_true, if_false] at hst2
    refine ⟨by rw [hst2], by rw [hst2], fun hc => by simp [hnl'] at hc, fun _ => ?_⟩
    refine ⟨?_, by rw [hst2]; exact hdone, by rw [hst2]; simp [Cell.set, Cell.abs, hsink]⟩
    rw [hst2]
    refine
      { dec := ⟨t1, by simpa [hdone] using hd1, ?_⟩
        prev_nonneg := by
          simp only [Cell.set, hsink]; have := h.prev_nonneg; have := h.prev_le; omega
        prev_le := by simp only [Cell.set, Cell.abs, hsink]; omega
        cols_lt := ?_
        es_sorted := hsorted
        D_sorted := h.D_sorted
        sline_pos := emitSeg_sline st ln cn name source h.sline_pos
        scol_pos := emitSeg_scol st ln cn name source h.scol_pos
        src_cur := emitSeg_sources_curOK st ln cn name source h.src_cur
        ok := hok }
    · simp only [hcur]
      rw [hline]
      simp [totalsOf, Cell.set, hsink]
      rfl
    · intro x hx
      simp only [Cell.set, Cell.abs, hsink]
      simp only [List.mem_append, List.mem_singleton] at hx
      rcases hx with hx | rfl
      · have := h.cols_lt x hx; omega
      · rw [hegc]; omega

end CalmVerif.Proofs.SourceMap
