/-
C09 helper lemmas, part 11: the result of `write` for both settings of `normalize`.
-/
import CalmVerif.Proofs.SourceMapNorm2

namespace CalmVerif.Proofs.SourceMap
open CalmVerif.Model.SourceMap
open CalmVerif.Spec.SourceMapV3

theorem sorted_sublist {a b : List Entry} (h : a.Sublist b) (hb : Sorted b) : Sorted a := by
  unfold Sorted at *
  exact List.Pairwise.sublist (List.Sublist.map _ h) hb

/-- `write` with normalisation: it succeeds, its mappings decode, and the decoded lines are
related line by line (`LinesRel`) to the decoded raw lines -/
theorem write_true_eq (cc : CharClasses) (frags : List Frag) :
    ∃ D es m' D',
      WInv (writeLoop cc WState.init frags) D es ∧
      write cc true frags = some
        { mappings := m',
          sources := finalSources (writeLoop cc WState.init frags).sources.keys,
          names := (writeLoop cc WState.init frags).names.keys } ∧
      decode m' = some D' ∧ LinesRel (D ++ [es]) D' ∧
      m'.length = ((writeLoop cc WState.init frags).done ++ [(writeLoop cc WState.init frags).cur]).length := by
  obtain ⟨D, es, hw, hdec, hsorted, _⟩ := raw_facts cc frags
  unfold decode at hdec
  cases hm : decodeLines Totals.zero
      ((writeLoop cc WState.init frags).done ++ [(writeLoop cc WState.init frags).cur]) with
  | none => simp [hm] at hdec
  | some r =>
    obtain ⟨tfin, D0⟩ := r
    simp only [hm, Option.map_some, Option.some.injEq] at hdec
    subst hdec
    obtain ⟨m', tfin', D', hn, hd, hrel, hlen⟩ :=
      normalizeMappings_ok _ Totals.zero Totals.zero 0 ⟨rfl, rfl, rfl, by simp⟩ hm hsorted
    refine ⟨D, es, m', D', hw, ?_, by simp [decode, hd], hrel, hlen⟩
    simp [write, hn]


theorem findPreceding_none_of_lt (c : Int) (l : List Entry) (h : ∀ y ∈ l, c < y.genCol) :
    findPreceding c l = none := by
  induction l with
  | nil => rfl
  | cons x xs ih =>
    have hx : ¬ x.genCol ≤ c := by have := h x (by simp); omega
    simp [findPreceding, ih (fun y hy => h y (by simp [hy])), hx]

theorem findPreceding_self_of_sorted (l : List Entry) (hs : Sorted l) (e : Entry) (he : e ∈ l) :
    findPreceding e.genCol l = some e := by
  induction l with
  | nil => simp at he
  | cons x xs ih =>
    simp only [Sorted, List.map_cons, List.pairwise_cons, List.mem_map, forall_exists_index, and_imp,
      forall_apply_eq_imp_iff₂] at hs
    simp only [List.mem_cons] at he
    rcases he with rfl | he
    · simp [findPreceding, findPreceding_none_of_lt _ xs hs.1]
    · simp [findPreceding, ih hs.2 he]

theorem LineRel.refl_of_sorted (l : List Entry) (hs : Sorted l) : LineRel l l := by
  refine ⟨List.Sublist.refl _, ?_, fun e he _ => he⟩
  intro e he s hsrc
  obtain ⟨a, b, k⟩ := s
  simp [interp, findPreceding_self_of_sorted l hs e he, hsrc]

theorem LinesRel.refl_of_sorted (A : List (List Entry)) (hs : ∀ l ∈ A, Sorted l) : LinesRel A A := by
  induction A with
  | nil => exact LinesRel.nil
  | cons a as ih =>
    exact LinesRel.cons (LineRel.refl_of_sorted a (hs a (by simp))) (ih (fun l hl => hs l (by simp [hl])))

/-- `write` for either setting of `normalize` -/
theorem write_any (cc : CharClasses) (frags : List Frag) (normalize : Bool) :
    ∃ D es m' D',
      WInv (writeLoop cc WState.init frags) D es ∧
      write cc normalize frags = some
        { mappings := m',
          sources := finalSources (writeLoop cc WState.init frags).sources.keys,
          names := (writeLoop cc WState.init frags).names.keys } ∧
      decode m' = some D' ∧ LinesRel (D ++ [es]) D' ∧
      m'.length = (writeLoop cc WState.init frags).done.length + 1 := by
  cases normalize with
  | true =>
    obtain ⟨D, es, m', D', h1, h2, h3, h4, h5⟩ := write_true_eq cc frags
    exact ⟨D, es, m', D', h1, h2, h3, h4, by simpa using h5⟩
  | false =>
    obtain ⟨D, es, hw, hdec, hsorted, _⟩ := raw_facts cc frags
    exact ⟨D, es, _, D ++ [es], hw, write_false_eq cc frags, hdec,
      LinesRel.refl_of_sorted _ hsorted, by simp⟩


/-! ### the sources table has no duplicates -/

theorem Names.add_nodup {α : Type} [DecidableEq α] (n : Names α) (a : α) (h : n.keys.Nodup) :
    (n.add a).1.keys.Nodup := by
  simp only [Names.add]
  split
  · exact h
  · rename_i hm
    rw [List.nodup_append]
    exact ⟨h, by simp, by intro x hx y hy; simp at hy; subst hy; rintro rfl; exact hm hx⟩

theorem writeLoop_sources_nodup (cc : CharClasses) (frags : List Frag) (st : WState)
    (h : st.sources.keys.Nodup) : (writeLoop cc st frags).sources.keys.Nodup := by
  induction frags generalizing st with
  | nil => exact h
  | cons f rest ih =>
    rw [writeLoop_cons]
    apply ih
    rw [writeFrag_sources]
    split
    · cases hs : f.source with
      | none => exact h
      | some s => exact Names.add_nodup _ _ h
    · exact h

theorem nodup_getElem?_inj {α : Type} {l : List α} (h : l.Nodup) {i j : Nat} {x : α}
    (hi : l[i]? = some x) (hj : l[j]? = some x) : i = j := by
  obtain ⟨hi1, _⟩ := List.getElem?_eq_some_iff.mp hi
  exact (List.getElem?_inj hi1 h).mp (hi.trans hj.symm)

/-! ### per-fragment statement for either setting of `normalize` -/

theorem explicit_lookup (cc : CharClasses) (hcc : ClassesOK cc) (frags : List Frag)
    (hns : noSplitCRLF false (frags.map (·.text)) = true) (normalize : Bool)
    (i : Nat) (f : Frag) (hf : frags[i]? = some f) (hne : f.text ≠ [])
    (l c : Nat) (hl : f.lineno = some (l + 1)) (hc : f.colno = some (c + 1)) :
    ∃ r D e, ∃ si : Nat,
      write cc normalize frags = some r ∧ decode r.mappings = some D ∧
      r.sources = finalSources (writeLoop cc WState.init frags).sources.keys ∧
      e.genCol = ((genPos (frags.map (·.text)) i).2 : Int) ∧
      e.src = some ((si : Int), (l : Int), (c : Int)) ∧
      interp (lineAt D (genPos (frags.map (·.text)) i).1) ((genPos (frags.map (·.text)) i).2 : Int)
        = some ((si : Int), (l : Int), (c : Int)) ∧
      ((normalize = false ∨ f.name.isSome) →
        exactAt (lineAt D (genPos (frags.map (·.text)) i).1) ((genPos (frags.map (·.text)) i).2 : Int) = some e) ∧
      si < r.sources.length ∧
      (match effSource (frags.take (i + 1)) with
        | some s => (writeLoop cc WState.init frags).sources.keys[si]? = some s ∧
                    r.sources[si]? = some (renderSrc s)
        | none => si = 0) ∧
      (match f.name with
        | none => e.name = none
        | some nm => ∃ ni : Nat, e.name = some (ni : Int) ∧ r.names[ni]? = some nm) := by
  obtain ⟨D, es, m', D', hw, hwrite, hdec, hrel, _⟩ := write_any cc frags normalize
  obtain ⟨D2, es2, e, si, hw2, hmem, hcol, hsrc, hS, hN⟩ :=
    explicit_entry cc hcc frags hns i f hf hne l c hl hc
  -- the two invariants describe the same decoded lines
  have hsame : D2 ++ [es2] = D ++ [es] := by
    have h1 := hw.decode_raw
    have h2 := hw2.decode_raw
    rw [h1] at h2
    exact (Option.some.inj h2).symm
  rw [hsame] at hmem
  have hline := hrel.getD (genPos (frags.map (·.text)) i).1
  have hsortedA : Sorted ((D ++ [es]).getD (genPos (frags.map (·.text)) i).1 []) := hw.sorted_line _
  refine ⟨_, D', e, si, hwrite, hdec, rfl, hcol, hsrc, ?_, ?_, ?_, ?_, ?_⟩
  · rw [← hcol]; exact hline.interp_ok e hmem _ hsrc
  · intro hcase
    have hmem' : e ∈ D'.getD (genPos (frags.map (·.text)) i).1 [] := by
      rcases hcase with hnz | hnm
      · subst hnz
        -- un-normalised: D' is the raw decoding itself
        have h1 := hw.decode_raw
        rw [write_false_eq] at hwrite
        simp only [Option.some.injEq, WriteResult.mk.injEq] at hwrite
        rw [← hwrite.1, h1] at hdec
        rw [← Option.some.inj hdec]; exact hmem
      · have hnamed : e.name.isSome := by
          cases hn : f.name with
          | none => simp [hn] at hnm
          | some nm =>
            rw [hn] at hN
            obtain ⟨ni, hni, _⟩ := hN
            simp [hni]
        exact hline.named e hmem hnamed
    rw [← hcol]
    exact exactAt_of_sorted _ (sorted_sublist hline.sub hsortedA) e hmem'
  · have hok := hw.ok _ (by
      have : (D ++ [es]).getD (genPos (frags.map (·.text)) i).1 [] ∈ D ++ [es] := by
        rw [List.getD_eq_getElem?_getD]
        cases hg : (D ++ [es])[(genPos (frags.map (·.text)) i).1]? with
        | none => rw [List.getD_eq_getElem?_getD, hg] at hmem; simp at hmem
        | some x => simp only [Option.getD_some]; exact List.mem_of_getElem? hg
      exact this) e hmem
    have hr := inRange_of_entryOK _ _ _ hok
    obtain ⟨_, h1, _⟩ := hr
    have := (h1 _ _ _ hsrc).2.1
    exact_mod_cast this
  · split
    · rename_i s hs
      rw [hs] at hS
      exact ⟨hS, finalSources_getElem _ _ _ hS⟩
    · rename_i hs
      rw [hs] at hS
      exact hS
  · exact hN

end CalmVerif.Proofs.SourceMap
