/-
Every replacement in every table of a finished scope tree is a non-empty word over the generator's alphabet
(`IsWord`), the chain table of `Final` only holds tables of the tree, and what `Scope.resolve` answers is the
symbol itself or the value some table of the chain stores under it.
-/
import CalmVerif.Proofs.ObfRemap
namespace CalmVerif.Obf
open CalmVerif CalmVerif.Unparse

/-- a symbol the generator can produce: the name of a non-empty in-range digit string -/
def IsWord (cs : List Char) (v : String) : Prop :=
  ∃ ds, Good cs.length ds ∧ ds ≠ [] ∧ v = nameOf cs ds

theorem draw_words {cs : List Char} (hnd : cs.Nodup) (hne : cs ≠ []) (skip : List String) (n : Nat)
    (names : List String) (h : draw cs skip n = .ok names) : ∀ x ∈ names, IsWord cs x := by
  have hb : 0 < cs.length := List.length_pos_iff.2 hne
  obtain ⟨names', h1, _, _, h4⟩ := drawFrom_spec hnd hb skip n [] (good_nil _)
  unfold draw at h
  rw [h] at h1
  simp only [Except.ok.injEq] at h1
  subst h1
  intro x hx
  obtain ⟨_, _, ds', hg, hv, rfl⟩ := h4 x hx
  refine ⟨ds', hg, ?_, rfl⟩
  intro e
  subst e
  simp [dval] at hv

theorem table_words {cs : List Char} (hnd : cs.Nodup) (hne : cs ≠ []) (skip : List String)
    (syms : List String) (rm : List (String × String))
    (h : (draw cs skip syms.length).map (fun names => syms.zip names) = .ok rm) :
    ∀ p ∈ rm, IsWord cs p.2 := by
  obtain ⟨names, hd, rfl⟩ := except_map_ok' h
  intro p hp
  exact draw_words hnd hne skip _ names hd p.2 (zip_snd_mem hp)

mutual
  theorem buildTree_words {cs : List Char} (hnd : cs.Nodup) (hne : cs ≠ []) (kw : List String) :
      ∀ (chain : List Anc) (doSelf : Bool) (t : STree) (r : RTree),
        buildTree cs kw chain doSelf t = .ok r → r.AllNew (IsWord cs)
    | chain, doSelf, .mk id node kind refs decl children, r, h => by
      simp only [buildTree] at h
      split at h
      · cases h
      · rename_i rm hrm
        split at h
        · cases h
        · rename_i rcs hrcs
          simp only [Except.ok.injEq] at h
          subst h
          refine ⟨?_, buildChildren_words hnd hne kw _ children rcs hrcs⟩
          cases kind with
          | func =>
            simp only at hrm
            split at hrm
            · exact table_words hnd hne _ _ rm hrm
            · simp only [Except.ok.injEq] at hrm
              subst hrm
              intro p hp
              cases hp
          | «catch» sym u =>
            simp only at hrm
            exact table_words hnd hne _ [sym] rm hrm
  theorem buildChildren_words {cs : List Char} (hnd : cs.Nodup) (hne : cs ≠ []) (kw : List String) :
      ∀ (chain : List Anc) (ts : List STree) (rs : List RTree),
        buildChildren cs kw chain ts = .ok rs → AllNewList (IsWord cs) rs
    | _, [], rs, h => by
      simp only [buildChildren, Except.ok.injEq] at h
      subst h
      trivial
    | chain, c :: rest, rs, h => by
      simp only [buildChildren] at h
      split at h
      · cases h
      · rename_i r hr
        split at h
        · cases h
        · rename_i rs' hrs
          simp only [Except.ok.injEq] at h
          subst h
          exact ⟨buildTree_words hnd hne kw chain true c r hr, buildChildren_words hnd hne kw chain rest rs' hrs⟩
end

/-! ### all tables of a tree -/

mutual
  def RTree.tables : RTree → List (List (String × String))
    | .mk _ _ _ _ _ rm children => rm :: tablesList children
  def tablesList : List RTree → List (List (String × String))
    | [] => []
    | c :: cs => c.tables ++ tablesList cs
end

mutual
  theorem allNew_tables {P : String → Prop} : ∀ (r : RTree), r.AllNew P → ∀ rm ∈ r.tables, ∀ p ∈ rm, P p.2
    | .mk _ _ _ _ _ rm0 children, h => by
      simp only [RTree.AllNew] at h
      intro rm hrm
      simp only [RTree.tables, List.mem_cons] at hrm
      rcases hrm with rfl | hrm
      · exact h.1
      · exact allNewList_tables children h.2 rm hrm
  theorem allNewList_tables {P : String → Prop} : ∀ (rs : List RTree), AllNewList P rs →
      ∀ rm ∈ tablesList rs, ∀ p ∈ rm, P p.2
    | [], _ => by intro rm hrm; cases hrm
    | c :: cs, h => by
      simp only [AllNewList] at h
      intro rm hrm
      simp only [tablesList, List.mem_append] at hrm
      rcases hrm with hrm | hrm
      · exact allNew_tables c h.1 rm hrm
      · exact allNewList_tables cs h.2 rm hrm
end

mutual
  theorem tables_allNew {P : String → Prop} : ∀ (r : RTree), (∀ rm ∈ r.tables, ∀ p ∈ rm, P p.2) → r.AllNew P
    | .mk _ _ _ _ _ rm0 children, h => by
      simp only [RTree.AllNew]
      refine ⟨h rm0 (by simp [RTree.tables]), tablesList_allNew children ?_⟩
      intro rm hrm
      exact h rm (by simp [RTree.tables, hrm])
  theorem tablesList_allNew {P : String → Prop} : ∀ (rs : List RTree),
      (∀ rm ∈ tablesList rs, ∀ p ∈ rm, P p.2) → AllNewList P rs
    | [], _ => trivial
    | c :: cs, h => by
      simp only [AllNewList]
      exact ⟨tables_allNew c (fun rm hrm => h rm (by simp [tablesList, hrm])),
        tablesList_allNew cs (fun rm hrm => h rm (by simp [tablesList, hrm]))⟩
end

/-- no replacement in the finished tree is the word `arguments` (decidable; a generated name can in principle be that word —
nine letters of ID_CHARS, not a keyword — once a scope needs more than 53^8 names) -/
def noArgsValue (fin : Final) : Bool :=
  fin.tree.tables.all (fun rm => rm.all (fun p => p.2 != "arguments"))

theorem noArgsValue_allNew (fin : Final) (h : noArgsValue fin = true) : fin.tree.AllNew (fun v => v ≠ "arguments") := by
  apply tables_allNew
  intro rm hrm p hp
  simp only [noArgsValue, List.all_eq_true] at h
  simpa using h rm hrm p hp

mutual
  theorem chainsOf_tables : ∀ (up : List TableEntry) (r : RTree),
      ∀ e ∈ chainsOf up r, ∀ te ∈ e.2, te ∈ up ∨ te.2 ∈ r.tables
    | up, .mk id _ kind _ _ rm0 children => by
      intro e he te hte
      simp only [chainsOf, List.mem_cons] at he
      rcases he with rfl | he
      · simp only [List.mem_cons] at hte
        rcases hte with rfl | hte
        · exact Or.inr (by simp [RTree.tables])
        · exact Or.inl hte
      · rcases chainsOfList_tables ((kind.isFunc, rm0) :: up) children e he te hte with h | h
        · simp only [List.mem_cons] at h
          rcases h with rfl | h
          · exact Or.inr (by simp [RTree.tables])
          · exact Or.inl h
        · exact Or.inr (by simp [RTree.tables, h])
  theorem chainsOfList_tables : ∀ (up : List TableEntry) (rs : List RTree),
      ∀ e ∈ chainsOfList up rs, ∀ te ∈ e.2, te ∈ up ∨ te.2 ∈ tablesList rs
    | _, [] => by intro e he; cases he
    | up, c :: cs => by
      intro e he te hte
      simp only [chainsOfList, List.mem_append] at he
      rcases he with he | he
      · rcases chainsOf_tables up c e he te hte with h | h
        · exact Or.inl h
        · exact Or.inr (by simp [tablesList, h])
      · rcases chainsOfList_tables up cs e he te hte with h | h
        · exact Or.inl h
        · exact Or.inr (by simp [tablesList, h])
end

theorem lookupChain_mem : ∀ (ct : ChainTable) (sid : Nat) (tables : List TableEntry),
    lookupChain ct sid = some tables → (sid, tables) ∈ ct
  | [], _, _, h => by simp [lookupChain] at h
  | (i, c) :: rest, sid, tables, h => by
    simp only [lookupChain] at h
    split at h
    · rename_i he
      have : i = sid := by simpa using he
      simp only [Option.some.injEq] at h
      subst h; subst this
      exact List.mem_cons_self ..
    · exact List.mem_cons_of_mem _ (lookupChain_mem rest sid tables h)

theorem lookup_mem {l : List (String × String)} {k v : String} (h : l.lookup k = some v) : (k, v) ∈ l := by
  induction l with
  | nil => simp at h
  | cons p l ih =>
    obtain ⟨k', v'⟩ := p
    simp only [List.lookup_cons] at h
    split at h
    · rename_i he
      have : k = k' := by simpa using he
      simp only [Option.some.injEq] at h
      subst h; subst this
      exact List.mem_cons_self ..
    · exact List.mem_cons_of_mem _ (ih h)

/-- `Scope.resolve` answers the symbol itself or what a table of the chain stores under it -/
theorem resolveTables_cases : ∀ (tables : List TableEntry) (s : String),
    resolveTables tables s = s ∨ ∃ te ∈ tables, (s, resolveTables tables s) ∈ te.2
  | [], s => Or.inl rfl
  | (f, rm) :: rest, s => by
    unfold resolveTables
    split
    · rename_i r hr
      split
      · exact Or.inl rfl
      · exact Or.inr ⟨(f, rm), List.mem_cons_self .., lookup_mem hr⟩
    · split
      · exact Or.inl rfl
      · rcases resolveTables_cases rest s with h | ⟨te, hm, hp⟩
        · exact Or.inl h
        · exact Or.inr ⟨te, List.mem_cons_of_mem _ hm, hp⟩

/-- what `finalize` guarantees about the tables -/
theorem finalize_words {cs : List Char} (hnd : cs.Nodup) (hne : cs ≠ []) (fl : Flags) (st : St) (fin : Final)
    (h : finalize cs fl st = .ok fin) :
    fin.chains = chainsOf [] fin.tree ∧ ∀ rm ∈ fin.tree.tables, ∀ p ∈ rm, IsWord cs p.2 := by
  unfold finalize at h
  split at h
  · rename_i g _
    split at h
    · cases h
    · rename_i rt hrt
      simp only [Except.ok.injEq] at h
      subst h
      exact ⟨rfl, allNew_tables rt (buildTree_words hnd hne fl.reserved [] fl.obfuscateGlobals (closeFrame g) rt hrt)⟩
  · cases h

end CalmVerif.Obf
