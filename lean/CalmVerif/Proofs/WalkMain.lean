/- C16: the core lemma (children() recipe versus stable partition of all attributes) and
   walkF = preDesc on well-formed trees under coverTable. -/
import CalmVerif.Proofs.WalkPre
namespace CalmVerif.Proofs.Walk
open CalmVerif CalmVerif.Gen.Children CalmVerif.Model.Walk

/-- what `preAttrs` records for attribute `a` holding `x` -/
def slotOut (tbl : Table) (full : Bool) (p : Path) (a : String) (x : Val) : Out :=
  if !full && a == commentsAttr then [] else preSlot tbl full p a x

def ItemGood (as : Attrs) : Item → Prop
  | .one a => ∃ x, lookup as a = some x ∧ (x = .none ∨ ∃ k bs, x = .node k bs)
  | .many a => ∃ xs, lookup as a = some (.list xs)

theorem item_out (tbl : Table) (full : Bool) (p : Path) (as : Attrs) (it : Item) (h : ItemGood as it) :
    ∃ x ks, lookup as it.name = some x ∧ itemKids as it = .ok ks ∧
      ks.flatMap (fun sc => preNode tbl full (sc.1 :: p) sc.2) = preSlot tbl full p it.name x := by
  cases it with
  | one a =>
    obtain ⟨x, hx, hsh⟩ := h
    refine ⟨x, [((a, 0), x)], hx, by simp [itemKids, hx], ?_⟩
    rcases hsh with h0 | ⟨k, bs, h1⟩
    · subst h0; simp [Item.name, preNode, preSlot]
    · subst h1; simp [Item.name, preSlot_node]
  | many a =>
    obtain ⟨xs, hx⟩ := h
    refine ⟨.list xs, enumFrom a 0 xs, hx, by simp [itemKids, hx], ?_⟩
    simp [Item.name, enum_flatMap, preSlot]

theorem preAttrs_flat_nil (tbl : Table) (full : Bool) (p : Path) : ∀ (pool : Attrs),
    (∀ e ∈ pool, slotOut tbl full p e.1 e.2 = []) → (preAttrs tbl full p pool).flatMap (·.2) = [] := by
  intro pool
  induction pool with
  | nil => intro _; simp [preAttrs]
  | cons e rest ih =>
    obtain ⟨b, y⟩ := e
    intro h
    have h1 := h (b, y) List.mem_cons_self
    have h2 := ih (fun e he => h e (List.mem_cons_of_mem _ he))
    simp only [slotOut] at h1
    simp only [preAttrs, List.flatMap_cons, h2, List.append_nil]
    exact h1

theorem recipe_asm (tbl : Table) (p : Path) (as : Attrs) : ∀ (items : List Item) (pool : Attrs),
    nodupB (items.map Item.name) = true → nodupB (pool.map (·.1)) = true →
    (∀ it ∈ items, ItemGood as it ∧ lookup pool it.name = lookup as it.name ∧ it.name ≠ commentsAttr) →
    (∀ e ∈ pool, e.1 ∉ items.map Item.name → slotOut tbl false p e.1 e.2 = []) →
    ∃ ks, recipeKids as items = .ok ks ∧
      ks.flatMap (fun sc => preNode tbl false (sc.1 :: p) sc.2)
        = asm (items.map Item.name) (preAttrs tbl false p pool) := by
  intro items
  induction items with
  | nil =>
    intro pool _ _ _ hl
    refine ⟨[], rfl, ?_⟩
    simp only [List.map_nil, asm, List.flatMap_nil]
    exact (preAttrs_flat_nil tbl false p pool (fun e he => hl e he (by simp))).symm
  | cons it rest ih =>
    intro pool hni hnp hg hl
    simp only [List.map_cons, nodupB_cons] at hni
    obtain ⟨hgi, hpool, hnc⟩ := hg it List.mem_cons_self
    obtain ⟨x, k1, hx, hk1, hf1⟩ := item_out tbl false p as it hgi
    have hpx : lookup pool it.name = some x := by rw [hpool, hx]
    -- the rest, on the pool without attribute `it.name`
    have hrest := ih (pool.filter (fun e => !(e.1 == it.name))) hni.2
      (nodupB_filter (fun b => !(b == it.name)) pool hnp)
      (fun it' hit' => by
        obtain ⟨g1, g2, g3⟩ := hg it' (List.mem_cons_of_mem _ hit')
        refine ⟨g1, ?_, g3⟩
        have hne : it'.name ≠ it.name := by
          intro heq
          exact hni.1 (heq ▸ List.mem_map.mpr ⟨it', hit', rfl⟩)
        rw [lookup_filter_ne pool it.name it'.name hne, g2])
      (fun e he hnot => by
        have hmem := (List.mem_filter.mp he)
        apply hl e hmem.1
        simp only [List.map_cons, List.mem_cons, not_or]
        refine ⟨?_, hnot⟩
        have := hmem.2
        simpa using this)
    obtain ⟨k2, hk2, hf2⟩ := hrest
    refine ⟨k1 ++ k2, by simp [recipeKids, hk1, hk2], ?_⟩
    simp only [List.flatMap_append, hf1, hf2, List.map_cons, asm]
    congr 1
    · have e1 := preAttrs_filter tbl false p (fun b => b == it.name) pool
      rw [e1, filter_eq_single pool it.name x hnp hpx]
      have : (it.name == commentsAttr) = false := by simp [hnc]
      simp [preAttrs, this]
    · have e2 := preAttrs_filter tbl false p (fun b => !(b == it.name)) pool
      rw [e2]

/-! ### unpacking well-formedness and cover -/

theorem vsize_pos (v : Val) : 1 ≤ vsize v := by
  cases v <;> simp [vsize] <;> omega

theorem findRow_mem : ∀ (tbl : Table) (k : String) (r : Row), findRow tbl k = some r → r ∈ tbl := by
  intro tbl
  induction tbl with
  | nil => intro k r h; simp [findRow] at h
  | cons r0 rest ih =>
    intro k r h
    simp only [findRow] at h
    split at h
    · cases h; simp
    · exact List.mem_cons_of_mem _ (ih k r h)

theorem lookupShape_mem : ∀ (l : List (String × Shape)) (a : String) (s : Shape),
    lookupShape l a = some s → (a, s) ∈ l := by
  intro l
  induction l with
  | nil => intro a s h; simp [lookupShape] at h
  | cons e rest ih =>
    obtain ⟨b, t⟩ := e
    intro a s h
    simp only [lookupShape] at h
    split at h
    · rename_i hb
      have : b = a := by simpa using hb
      cases h; subst this; simp
    · exact List.mem_cons_of_mem _ (ih a s h)

structure CoverFacts (r : Row) : Prop where
  nodupRecipe : nodupB (r.recipe.map Item.name) = true
  nodeIn : ∀ a, (a, Shape.node) ∈ r.attrs → Item.one a ∈ r.recipe
  listIn : ∀ a, (a, Shape.nodeList) ∈ r.attrs → Item.many a ∈ r.recipe
  oneShape : ∀ a, Item.one a ∈ r.recipe → lookupShape r.attrs a = some .node
  manyShape : ∀ a, Item.many a ∈ r.recipe → lookupShape r.attrs a = some .nodeList
  noComments : commentsAttr ∉ r.attrs.map (·.1)

theorem coverFacts (r : Row) (h : coverRow r = true) : CoverFacts r := by
  simp only [coverRow, Bool.and_eq_true, List.all_eq_true] at h
  obtain ⟨⟨⟨⟨_, h2⟩, h3⟩, h4⟩, h5⟩ := h
  refine ⟨h2, ?_, ?_, ?_, ?_, ?_⟩
  · intro a ha
    have := h3 (a, .node) ha
    simpa using this
  · intro a ha
    have := h3 (a, .nodeList) ha
    simpa using this
  · intro a ha
    have := h4 (.one a) ha
    simpa using this
  · intro a ha
    have := h4 (.many a) ha
    simpa using this
  · simpa using h5

theorem wfAttrs_mem (tbl : Table) (r : Row) : ∀ (as : Attrs) (a : String) (x : Val),
    wfAttrs tbl r as = true → (a, x) ∈ as → wfAs tbl (slotOf r a) x = true := by
  intro as
  induction as with
  | nil => intro a x _ h; simp at h
  | cons e rest ih =>
    obtain ⟨b, y⟩ := e
    intro a x hw h
    simp only [wfAttrs, Bool.and_eq_true] at hw
    simp only [List.mem_cons] at h
    rcases h with h | h
    · cases h; exact hw.1
    · exact ih a x hw.2 h

theorem wfList_enum (tbl : Table) (a : String) : ∀ (xs : List Val) (i : Nat) (sc : Step × Val),
    wfList tbl xs = true → sc ∈ enumFrom a i xs → wfAs tbl .must sc.2 = true := by
  intro xs
  induction xs with
  | nil => intro i sc _ h; simp [enumFrom] at h
  | cons x xs ih =>
    intro i sc hw h
    simp only [wfList, Bool.and_eq_true] at hw
    simp only [enumFrom, List.mem_cons] at h
    rcases h with h | h
    · subst h; exact hw.1
    · exact ih (i + 1) sc hw.2 h

theorem wfAs_must_node (tbl : Table) (v : Val) (h : wfAs tbl .must v = true) :
    ∃ k as r, v = .node k as ∧ findRow tbl k = some r ∧ nodupB (as.map (·.1)) = true ∧
      (∀ e ∈ r.attrs, (lookup as e.1).isSome = true) ∧ wfAttrs tbl r as = true := by
  cases v with
  | node k as =>
    simp only [wfAs] at h
    cases hr : findRow tbl k with
    | none => simp [hr] at h
    | some r =>
      simp [hr] at h
      exact ⟨k, as, r, rfl, hr, h.1.1, fun e he => by
        have := h.1.2 e.1 e.2 he
        simpa [Option.isSome_iff_exists] using this, h.2⟩
  | list xs => simp [wfAs] at h
  | none => simp [wfAs] at h
  | bool b => simp [wfAs] at h
  | int n => simp [wfAs] at h
  | str s => simp [wfAs] at h

theorem wfAs_opt (tbl : Table) (x : Val) (h : wfAs tbl .opt x = true) :
    x = .none ∨ (∃ k bs, x = .node k bs) ∧ wfAs tbl .must x = true := by
  cases x with
  | node k as => right; refine ⟨⟨k, as, rfl⟩, ?_⟩; simpa [wfAs] using h
  | list xs => simp [wfAs] at h
  | none => left; rfl
  | bool b => simp [wfAs] at h
  | int n => simp [wfAs] at h
  | str s => simp [wfAs] at h

theorem wfAs_lst (tbl : Table) (x : Val) (h : wfAs tbl .lst x = true) :
    ∃ xs, x = .list xs ∧ wfList tbl xs = true := by
  cases x with
  | node k as => simp [wfAs] at h
  | list xs => exact ⟨xs, rfl, by simpa [wfAs] using h⟩
  | none => simp [wfAs] at h
  | bool b => simp [wfAs] at h
  | int n => simp [wfAs] at h
  | str s => simp [wfAs] at h

theorem wfAs_scal (tbl : Table) (full : Bool) (p : Path) (a : String) (x : Val)
    (h : wfAs tbl .scal x = true) : preSlot tbl full p a x = [] := by
  cases x with
  | node k as => simp [wfAs] at h
  | list xs => simp [wfAs] at h
  | none => simp [preSlot]
  | bool b => simp [preSlot]
  | int n => simp [preSlot]
  | str s => simp [preSlot]

end CalmVerif.Proofs.Walk
