/-
From acceptance by the structure automaton to numbers: along an accepted chunk stream the
Indentator level (Indent minus Dedent chunks so far) equals the number of brace tokens opened and
not closed, plus the number of open brace-less groups, minus one directly after an opening brace
(before its Indent) and between a Dedent and its closing brace.
-/
import CalmVerif.Proofs.UnparseStruct
import CalmVerif.Proofs.UnparseLevel
namespace CalmVerif.Unparse
open CalmVerif

def isInBody : G → Bool
  | .inBody _ => true
  | _ => false

def isBraceG : G → Bool
  | .inBody false => false
  | _ => true

def lvlOf : List G → Int
  | [] => 0
  | g :: st => (if isInBody g then 1 else 0) + lvlOf st

def bracesOf : List G → Int
  | [] => 0
  | g :: st => (if isBraceG g then 1 else 0) + bracesOf st

/-- open brace-less groups -/
def caseOf : List G → Int
  | [] => 0
  | g :: st => (if g == .inBody false then 1 else 0) + caseOf st

theorem step_counts (c : Bool) (s : SSym) (st st' : List G) (h : step c s st = some st') :
    lvlOf st' = lvlOf st + dLvl s ∧ bracesOf st' = bracesOf st + dBr s := by
  cases st with
  | nil => cases s <;> cases c <;> simp [step, sPos] at h <;> subst h <;> simp [lvlOf, bracesOf, dLvl, dBr, isInBody, isBraceG]
  | cons g rest =>
    cases g with
    | afterOpener =>
      cases s <;> cases c <;> simp [step, sPos] at h <;> subst h <;>
        simp [lvlOf, bracesOf, dLvl, dBr, isInBody, isBraceG] <;> omega
    | afterDedent =>
      cases s <;> cases c <;> simp [step, sPos] at h <;> subst h <;>
        simp [lvlOf, bracesOf, dLvl, dBr, isInBody, isBraceG] <;> omega
    | inBody b =>
      cases b <;> cases s <;> cases c <;> simp [step, sPos] at h <;> subst h <;>
        simp [lvlOf, bracesOf, dLvl, dBr, isInBody, isBraceG] <;> omega

theorem sumL_append (f : SSym → Int) (a b : List SSym) : sumL f (a ++ b) = sumL f a + sumL f b := by
  induction a with
  | nil => simp [sumL]
  | cons s ss ih => simp [sumL, ih]; omega

theorem run_counts (c : Bool) (ss : List SSym) : ∀ (st st' : List G), run c ss st = some st' →
    lvlOf st' = lvlOf st + sumL dLvl ss ∧ bracesOf st' = bracesOf st + sumL dBr ss := by
  induction ss with
  | nil => intro st st' h; simp only [run, Option.some.injEq] at h; subst h; simp [sumL]
  | cons s ss ih =>
    intro st st' h
    simp only [run] at h
    cases hs : step c s st with
    | none => rw [hs] at h; cases h
    | some r1 =>
      rw [hs] at h
      have h1 := step_counts c s st r1 hs
      have h2 := ih r1 st' h
      simp only [sumL]
      omega

/-- everything below the top of the stack is inside a body -/
def wfStack : List G → Prop
  | [] => True
  | _ :: rest => ∀ g ∈ rest, isInBody g = true

theorem step_wf (c : Bool) (s : SSym) (st st' : List G) (hw : wfStack st) (h : step c s st = some st') :
    wfStack st' := by
  cases st with
  | nil =>
    cases s <;> cases c <;> simp [step, sPos] at h <;> subst h <;> simp [wfStack]
  | cons g rest =>
    have hr : ∀ x ∈ rest, isInBody x = true := hw
    have hrest : wfStack rest := by
      cases rest with
      | nil => trivial
      | cons g' r' => intro x hx; exact hr x (by simp [hx])
    cases g with
    | afterOpener =>
      cases s <;> cases c <;> simp [step, sPos] at h <;> subst h <;> first | exact hrest | exact hw | (intro x hx; exact hr x hx)
    | afterDedent =>
      cases s <;> cases c <;> simp [step, sPos] at h <;> subst h <;> first | exact hrest | exact hw | (intro x hx; exact hr x hx)
    | inBody b =>
      cases b <;> cases s <;> cases c <;> simp [step, sPos] at h <;> subst h <;>
        first
          | exact hrest
          | exact hw
          | (intro x hx; exact hr x hx)
          | (intro x hx
             simp only [List.mem_cons] at hx
             rcases hx with rfl | hx
             · rfl
             · exact hr x hx)

theorem run_wf (c : Bool) (ss : List SSym) : ∀ (st st' : List G), wfStack st → run c ss st = some st' → wfStack st' := by
  induction ss with
  | nil => intro st st' hw h; simp only [run, Option.some.injEq] at h; subst h; exact hw
  | cons s ss ih =>
    intro st st' hw h
    simp only [run] at h
    cases hs : step c s st with
    | none => rw [hs] at h; cases h
    | some r1 => rw [hs] at h; exact ih r1 st' (step_wf c s st r1 hw hs) h

theorem allInBody_counts : ∀ (rest : List G), (∀ g ∈ rest, isInBody g = true) →
    lvlOf rest = bracesOf rest + caseOf rest := by
  intro rest
  induction rest with
  | nil => intro _; rfl
  | cons g r ih =>
    intro h
    have hg := h g (by simp)
    have := ih (fun x hx => h x (by simp [hx]))
    cases g with
    | inBody b => cases b <;> simp [lvlOf, bracesOf, caseOf, isInBody, isBraceG] <;> omega
    | afterOpener => simp [isInBody] at hg
    | afterDedent => simp [isInBody] at hg

/-- 1 directly after an opening brace and between a Dedent and its closing brace -/
def phi : List G → Int
  | .afterOpener :: _ => 1
  | .afterDedent :: _ => 1
  | _ => 0

theorem wf_level (st : List G) (hw : wfStack st) : lvlOf st = bracesOf st + caseOf st - phi st := by
  cases st with
  | nil => rfl
  | cons g rest =>
    have := allInBody_counts rest hw
    cases g with
    | inBody b => cases b <;> simp [lvlOf, bracesOf, caseOf, phi, isInBody, isBraceG] <;> omega
    | afterOpener => simp only [lvlOf, bracesOf, caseOf, phi, isInBody, isBraceG]; (try simp); omega
    | afterDedent => simp only [lvlOf, bracesOf, caseOf, phi, isInBody, isBraceG]; (try simp); omega

/-- no brace-less group on the stack -/
def noCaseB (st : List G) : Bool := st.all (fun g => g != .inBody false)

theorem step_noCase (s : SSym) (st st' : List G) (hnn : noCaseB st = true)
    (h : step false s st = some st') : noCaseB st' = true := by
  cases st with
  | nil => cases s <;> simp [step, sPos] at h <;> subst h <;> simp [noCaseB]
  | cons g rest =>
    cases g with
    | afterOpener =>
      cases s <;> simp [step, sPos] at h <;> subst h <;> simp_all [noCaseB]
    | afterDedent =>
      cases s <;> simp [step, sPos] at h <;> subst h <;> simp_all [noCaseB]
    | inBody b =>
      cases b with
      | false => simp [noCaseB] at hnn
      | true => cases s <;> simp [step, sPos] at h <;> subst h <;> simp_all [noCaseB]

theorem run_noCase (ss : List SSym) : ∀ (st st' : List G), noCaseB st = true → run false ss st = some st' →
    noCaseB st' = true := by
  induction ss with
  | nil => intro st st' hn h; simp only [run, Option.some.injEq] at h; subst h; exact hn
  | cons s ss ih =>
    intro st st' hn h
    simp only [run] at h
    cases hs : step false s st with
    | none => rw [hs] at h; cases h
    | some r1 => rw [hs] at h; exact ih r1 st' (step_noCase s st r1 hn hs) h

theorem noCase_caseOf : ∀ (st : List G), noCaseB st = true → caseOf st = 0 := by
  intro st
  induction st with
  | nil => intro _; rfl
  | cons g r ih =>
    intro h
    simp only [noCaseB, List.all_cons, Bool.and_eq_true, bne_iff_ne, ne_eq] at h
    have := ih (by simpa [noCaseB] using h.2)
    simp only [caseOf, this]
    simp [h.1]

/-! ### the level at a newline marker -/

def allMarkers : List Marker :=
  [.OpenBlock, .CloseBlock, .EndStatement, .Space, .OptionalSpace, .RequiredSpace, .Newline, .OptionalNewline,
   .Indent, .Dedent, .PushScope, .PopScope, .PushCatch, .PopCatch, .ResolveFuncName]

/-- the handler of every marker changes the level as the marker's symbol says
(`Indent` ↦ +1, `Dedent` ↦ −1, all others 0) -/
def markersOK (tbl : List (LKey × Option HandlerId)) : Bool :=
  allMarkers.all (fun m => match lookupLayout tbl (LKey.single m) with
    | some h => hDelta h == dLvl (symOfMarker m)
    | none => true)

theorem chunkDelta_sym {tbl : List (LKey × Option HandlerId)} (hm : markersOK tbl = true) (ch : Chunk)
    (hc : ChunkOK tbl ch) : chunkDelta ch = dLvl (symOfChunk ch) := by
  cases ch with
  | frag f =>
    simp only [chunkDelta, symOfChunk, symOfText]
    split
    · rfl
    · split <;> rfl
  | layout m h n =>
    simp only [markersOK, List.all_eq_true] at hm
    have hmem : m ∈ allMarkers := by cases m <;> simp [allMarkers]
    have := hm m hmem
    simp only [ChunkOK] at hc
    rw [hc] at this
    simpa [chunkDelta, symOfChunk] using this

theorem netChunks_syms {tbl : List (LKey × Option HandlerId)} (hm : markersOK tbl = true) :
    ∀ (cs : List Chunk), (∀ x ∈ cs, ChunkOK tbl x) → netChunks cs = sumL dLvl (syms cs) := by
  intro cs
  induction cs with
  | nil => intro _; rfl
  | cons ch cs ih =>
    intro h
    simp only [netChunks, syms, List.map_cons, sumL]
    rw [chunkDelta_sym hm ch (h ch (by simp))]
    have := ih (fun x hx => h x (by simp [hx]))
    simp only [syms] at this
    omega

theorem run_afterDedent_closer (c : Bool) : ∀ (ss : List SSym) (r : List G),
    run c ss (.afterDedent :: r) = some [] → closerNext ss = true := by
  intro ss
  induction ss with
  | nil => intro r h; simp [run] at h
  | cons s ss ih =>
    intro r h
    cases s <;> simp only [run, step, sPos] at h
    · simp at h
    · rfl
    · simp at h
    · simp at h
    · exact ih r h
    · simp at h

theorem run_sPos_notCloser (c : Bool) : ∀ (ss : List SSym) (st : List G), sPos st = true →
    run c ss st = some [] → closerNext ss = false := by
  intro ss
  induction ss with
  | nil => intro st _ _; rfl
  | cons s ss ih =>
    intro st hs h
    cases s with
    | nl =>
      simp only [closerNext]
      apply ih st hs
      cases st with
      | nil => simpa [run, step] using h
      | cons g r => cases g <;> simp [sPos] at hs; simpa [run, step] using h
    | closer =>
      exfalso
      cases st with
      | nil => simp [run, step] at h
      | cons g r => cases g <;> simp [sPos] at hs; simp [run, step] at h
    | opener => rfl
    | indent => rfl
    | dedent => rfl
    | other => rfl

theorem depth_at_newline (c : Bool) {tbl : List (LKey × Option HandlerId)} (hm : markersOK tbl = true)
    (pre post : List Chunk) (ch : Chunk) (hnl : symOfChunk ch = .nl)
    (hacc : run c (syms (pre ++ ch :: post)) [] = some [])
    (hok : ∀ x ∈ pre ++ ch :: post, ChunkOK tbl x) :
    ∃ st, run c (syms pre) [] = some st ∧
      netChunks pre = braceDepth pre + caseOf st - (if closerNext (syms post) then 1 else 0) := by
  rw [syms_append, run_append] at hacc
  cases hpre : run c (syms pre) [] with
  | none => rw [hpre] at hacc; cases hacc
  | some st =>
    rw [hpre] at hacc
    simp only [Option.bind_some, syms, List.map_cons, run, hnl] at hacc
    refine ⟨st, rfl, ?_⟩
    have hcnt := run_counts c (syms pre) [] st hpre
    have hwf := run_wf c (syms pre) [] st trivial hpre
    have hlev := wf_level st hwf
    have hnet := netChunks_syms hm pre (fun x hx => hok x (by simp [hx]))
    simp only [lvlOf, bracesOf, Int.zero_add] at hcnt
    have hphi : phi st = (if closerNext (syms post) then 1 else 0) := by
      cases st with
      | nil =>
        simp only [step] at hacc
        have := run_sPos_notCloser c _ [] rfl hacc
        simp only [syms] at this ⊢
        simp [phi, this]
      | cons g r =>
        cases g with
        | afterOpener => simp [step] at hacc
        | afterDedent =>
          simp only [step] at hacc
          have := run_afterDedent_closer c _ r hacc
          simp only [syms] at this ⊢
          simp [phi, this]
        | inBody b =>
          simp only [step] at hacc
          have := run_sPos_notCloser c _ (.inBody b :: r) rfl hacc
          simp only [syms] at this ⊢
          simp [phi, this]
    simp only [braceDepth]
    omega

/-! ### `braceFree` is preserved by `value * n` -/

theorem flatten_replicate_nil {α : Type} (m : Nat) : (List.replicate m ([] : List α)).flatten = [] := by
  induction m with
  | zero => rfl
  | succ m ih => simp [List.replicate_succ, ih]

theorem strMul_ne_single (v : String) (n : Int) (c : Char) (hv : v ≠ String.ofList [c]) :
    strMul v n ≠ String.ofList [c] := by
  intro h
  have h' : (strMul v n).toList = [c] := by rw [h]; simp
  simp only [strMul, String.toList_ofList] at h'
  cases hn : n.toNat with
  | zero => rw [hn] at h'; simp at h'
  | succ m =>
    rw [hn, List.replicate_succ, List.flatten_cons] at h'
    cases hl : v.toList with
    | nil =>
      rw [hl, flatten_replicate_nil] at h'
      simp at h'
    | cons a t =>
      rw [hl] at h'
      simp only [List.cons_append, List.cons.injEq, List.append_eq_nil_iff] at h'
      obtain ⟨rfl, rfl, _⟩ := h'
      apply hv
      apply String.toList_inj.mp
      rw [hl]; simp

theorem braceFree_strMul (v : String) (n : Int) (h : braceFree v = true) : braceFree (strMul v n) = true := by
  simp only [braceFree, Bool.and_eq_true, bne_iff_ne, ne_eq] at h ⊢
  exact ⟨strMul_ne_single v n '{' h.1, strMul_ne_single v n '}' h.2⟩

end CalmVerif.Unparse
