/-
What the lexemes of the variable-text token rules look like (first characters, overall shape); the last characters
are in Proofs/LexerEnds.lean.  Used to compare the lexer's regular expressions with rt's signature classifier
`TokenAdj.sig` (Proofs/TokenTextsSig.lean).
-/
import CalmVerif.Proofs.LexerEnds

namespace CalmVerif.Proofs.TokenTexts
open CalmVerif.Model.TokenRegex CalmVerif.Model.PlyLex
open CalmVerif.Proofs.LexerRegex CalmVerif.Proofs.LexerPly CalmVerif.Proofs.LexerEnds
open CalmVerif.Gen

theorem nonzero_isDec (c : Char) (h : isNonzero c = true) : isDec c = true := by
  have e1 : LexData.numNonzero = [(49, 57)] := by decide
  have e2 : LexData.numDec = [(48, 57)] := by decide
  unfold isNonzero at h
  unfold isDec
  rw [e1] at h
  rw [e2]
  simp [inRanges] at h ⊢
  omega

theorem zero_isDec : isDec '0' = true := by decide

/-- an identifier lexeme: a non-empty run of identifier_start characters, then a run of identifier_part characters -/
theorem idLen_shape (rest : List Char) (n : Nat) (h : idLen rest = some n) :
    ∃ S P, rest.take n = S ++ P ∧ S ≠ [] ∧ (∀ c ∈ S, isIdStart c = true) ∧ (∀ c ∈ P, isIdPart c = true) := by
  unfold idLen at h
  simp only at h
  split at h
  · simp at h
  · rename_i hs
    simp at h; subst h
    refine ⟨rest.take (spanLen isIdStart rest),
      (rest.drop (spanLen isIdStart rest)).take (spanLen isIdPart (rest.drop (spanLen isIdStart rest))),
      List.take_add, ?_, spanLen_take_all _ _, spanLen_take_all _ _⟩
    intro h0
    have := congrArg List.length h0
    have hle := spanLen_le isIdStart rest
    simp only [List.length_take, List.length_nil] at this
    omega

theorem decIntLen_first (rest : List Char) (k : Nat) (h : decIntLen rest = some k) :
    ∃ c cs, rest = c :: cs ∧ isDec c = true := by
  unfold decIntLen at h
  split at h
  · simp at h
  · rename_i c cs
    split at h
    · rename_i hc; exact ⟨c, cs, rfl, hc ▸ zero_isDec⟩
    · split at h
      · rename_i hnz; exact ⟨c, cs, rfl, nonzero_isDec c hnz⟩
      · simp at h

/-- the lexeme starts with a decimal digit, or with `.` followed by a decimal digit -/
def NumFirst (m : List Char → Option Nat) : Prop :=
  ∀ rest n, m rest = some n → ∃ c cs, rest = c :: cs ∧
    (isDec c = true ∨ (c = '.' ∧ ∃ d ds, cs = d :: ds ∧ isDec d = true ∧ 2 ≤ n))

theorem hexLen_first : NumFirst hexLen := by
  intro rest n hk
  unfold hexLen at hk
  split at hk
  · rename_i z x r
    split at hk
    · rename_i hz; exact ⟨z, x :: r, rfl, Or.inl (hz.1 ▸ zero_isDec)⟩
    · simp at hk
  · simp at hk

theorem octLen_first : NumFirst octLen := by
  intro rest n hk
  unfold octLen at hk
  split at hk
  · rename_i z r
    split at hk
    · rename_i hz; exact ⟨z, r, rfl, Or.inl (hz ▸ zero_isDec)⟩
    · simp at hk
  · simp at hk

theorem decDotLen_first : NumFirst decDotLen := by
  intro rest n hk
  unfold decDotLen at hk
  split at hk
  · rename_i j hj
    obtain ⟨c, cs, hr, hc⟩ := decIntLen_first rest j hj
    exact ⟨c, cs, hr, Or.inl hc⟩
  · simp at hk

theorem dotDecLen_first : NumFirst dotDecLen := by
  intro rest n hk
  unfold dotDecLen at hk
  split at hk
  · rename_i dot r
    split at hk
    · rename_i hdot
      split at hk
      · rename_i hd
        simp at hk; subst hk
        cases r with
        | nil => simp [spanLen] at hd
        | cons d ds =>
          have hdd : isDec d = true := by
            simp only [spanLen] at hd
            split at hd
            · assumption
            · omega
          refine ⟨dot, d :: ds, rfl, Or.inr ⟨hdot, d, ds, rfl, hdd, ?_⟩⟩
          unfold fracLen; omega
      · simp at hk
    · simp at hk
  · simp at hk

theorem decExpLen_first : NumFirst decExpLen := by
  intro rest n h
  unfold decExpLen at h
  split at h
  · rename_i j hj
    obtain ⟨c, cs, hr, hc⟩ := decIntLen_first rest j hj
    exact ⟨c, cs, hr, Or.inl hc⟩
  · simp at h

theorem orElse_first {a b : List Char → Option Nat} (ha : NumFirst a) (hb : NumFirst b) :
    NumFirst (fun r => orElse (a r) (b r)) := by
  intro rest n h
  simp only [orElse] at h
  split at h
  · rename_i k hk
    simp at h; subst h
    exact ha rest _ hk
  · exact hb rest n h

/-- a number lexeme starts with a decimal digit, or with `.` followed by a decimal digit -/
theorem numberLen_first : NumFirst numberLen :=
  orElse_first hexLen_first (orElse_first octLen_first (orElse_first decDotLen_first
    (orElse_first dotDecLen_first decExpLen_first)))

/-- a lexeme that starts with `.` ends with a decimal digit -/
def DotLast (m : List Char → Option Nat) : Prop :=
  ∀ rest n cs, m rest = some n → rest = '.' :: cs → ∃ c, lastOf rest n = some c ∧ isDec c = true

theorem dot_not_nonzero : isNonzero '.' = false := by decide

theorem decIntLen_dot (cs : List Char) : decIntLen ('.' :: cs) = none := by
  simp [decIntLen, dot_not_nonzero]

theorem hexLen_dotLast : DotLast hexLen := by
  intro rest n cs h hr
  subst hr
  cases cs <;> simp [hexLen] at h

theorem octLen_dotLast : DotLast octLen := by
  intro rest n cs h hr
  subst hr
  simp [octLen] at h

theorem decDotLen_dotLast : DotLast decDotLen := by
  intro rest n cs h hr
  subst hr
  simp [decDotLen, decIntLen_dot] at h

theorem decExpLen_dotLast : DotLast decExpLen := by
  intro rest n cs h hr
  subst hr
  simp [decExpLen, decIntLen_dot] at h

theorem dotDecLen_dotLast : DotLast dotDecLen := by
  intro rest n cs h hr
  subst hr
  unfold dotDecLen at h
  simp only [if_true] at h
  split at h
  · rename_i hd
    simp at h; subst h
    have hf : 0 < fracLen cs := by unfold fracLen; omega
    obtain ⟨x, hx, hxd⟩ := fracLen_last cs hf
    refine ⟨x, ?_, hxd⟩
    rw [lastOf_add ('.' :: cs) 1 _ hf]
    simpa using hx
  · simp at h

theorem orElse_dotLast {a b : List Char → Option Nat} (ha : DotLast a) (hb : DotLast b) :
    DotLast (fun r => orElse (a r) (b r)) := by
  intro rest n cs h hr
  simp only [orElse] at h
  split at h
  · rename_i k hk
    simp at h; subst h
    exact ha rest _ cs hk hr
  · exact hb rest n cs h hr

theorem numberLen_dotLast : DotLast numberLen :=
  orElse_dotLast hexLen_dotLast (orElse_dotLast octLen_dotLast (orElse_dotLast decDotLen_dotLast
    (orElse_dotLast dotDecLen_dotLast decExpLen_dotLast)))

theorem stringLen_first (rest : List Char) (n : Nat) (h : stringLen rest = some n) :
    ∃ q cs, rest = q :: cs ∧ (q = '"' ∨ q = '\'') := by
  unfold stringLen at h
  split at h
  · simp at h
  · rename_i c cs
    split at h
    · rename_i hc; exact ⟨c, cs, rfl, Or.inl hc⟩
    · split at h
      · rename_i hc; exact ⟨c, cs, rfl, Or.inr hc⟩
      · simp at h

theorem reFirst_facts : isReFirst '/' = false ∧ isReFirst '*' = false := by decide

/-- a regular-expression lexeme: `/`, then a character that is neither `/` nor `*`, at least three characters -/
theorem regexLen_first (rest : List Char) (n : Nat) (h : regexLen rest = some n) :
    ∃ c cs, rest = '/' :: c :: cs ∧ c ≠ '/' ∧ c ≠ '*' ∧ 3 ≤ n := by
  unfold regexLen at h
  simp only at h
  split at h
  · rename_i m hm
    simp at h; subst h
    split at hm
    · rename_i s c cs
      split at hm
      · rename_i hs
        subst hs
        split at hm
        · rename_i hf
          simp only [Option.map_eq_some_iff] at hm
          obtain ⟨j, hj, rfl⟩ := hm
          have := reScan_bounds _ cs false j (Nat.le_refl _) hj
          refine ⟨c, cs, rfl, ?_, ?_, by omega⟩
          · intro h0; rw [h0, reFirst_facts.1] at hf; simp at hf
          · intro h0; rw [h0, reFirst_facts.2] at hf; simp at hf
        · split at hm
          · rename_i hb
            cases cs with
            | nil => simp at hm
            | cons d ds =>
              simp only at hm
              split at hm
              · simp only [Option.map_eq_some_iff] at hm
                obtain ⟨j, hj, rfl⟩ := hm
                exact ⟨c, d :: ds, rfl, by rw [hb]; decide, by rw [hb]; decide, by omega⟩
              · simp at hm
          · split at hm
            · rename_i hb
              simp only [Option.map_eq_some_iff] at hm
              obtain ⟨j, hj, rfl⟩ := hm
              have := reScan_bounds _ cs true j (Nat.le_refl _) hj
              exact ⟨c, cs, rfl, by rw [hb]; decide, by rw [hb]; decide, by omega⟩
            · simp at hm
      · simp at hm
    · simp at hm
  · simp at h

theorem lineCommentLen_first (rest : List Char) (n : Nat) (h : lineCommentLen rest = some n) :
    ∃ r, rest = '/' :: '/' :: r ∧ 2 ≤ n := by
  unfold lineCommentLen at h
  split at h
  · rename_i c d r
    split at h
    · rename_i hcd
      simp at h
      exact ⟨r, by rw [hcd.1, hcd.2], by omega⟩
    · simp at h
  · simp at h

theorem blockCommentLen_first (rest : List Char) (n : Nat) (h : blockCommentLen rest = some n) :
    ∃ r, rest = '/' :: '*' :: r ∧ 2 ≤ n := by
  unfold blockCommentLen at h
  split at h
  · rename_i c d r
    split at h
    · rename_i hcd
      simp only [Option.map_eq_some_iff] at h
      obtain ⟨m, _, rfl⟩ := h
      exact ⟨r, by rw [hcd.1, hcd.2], by omega⟩
    · simp at h
  · simp at h

/-- the last character of the lexeme, as `List.getLast?` of the taken prefix -/
theorem getLast_take_eq_lastOf (l : List Char) (n : Nat) (hn : 0 < n) (hle : n ≤ l.length) :
    (l.take n).getLast? = lastOf l n := by
  unfold lastOf
  have : n ≠ 0 := by omega
  simp only [this, if_false]
  rw [List.getLast?_eq_getElem?, List.length_take, Nat.min_eq_left hle, List.getElem?_take]
  have : n - 1 < n := by omega
  simp [this]

end CalmVerif.Proofs.TokenTexts
