/-
Provenance of token fragments: every token fragment of the chunk stream carries a text that
satisfies the predicate `p` the tree's printed strings and the definitions' constants satisfy;
and a fragment of the final stream that contains a line terminator is either the newline
fragment of a newline handler or a token fragment.
-/
import CalmVerif.Proofs.UnparseNewline
namespace CalmVerif.Unparse
open CalmVerif

variable {σ : Type}

theorem out_tokens {tbl : List (LKey × Option HandlerId)} {defs : Defs} {ek : List String}
    {p pc k : String → Bool} {dt : Bool} {sh : Shape} {cs : List Chunk} (h : Out tbl defs ek p pc k dt sh cs) :
    ∀ f ∈ tokenFrags cs, (p f.text = true ∨ pc f.text = true) := by
  have happ : ∀ (a b : List Chunk), (∀ f ∈ tokenFrags a, (p f.text = true ∨ pc f.text = true)) →
      (∀ f ∈ tokenFrags b, (p f.text = true ∨ pc f.text = true)) →
      ∀ f ∈ tokenFrags (a ++ b), (p f.text = true ∨ pc f.text = true) := by
    intro a b ha hb
    have e : ∀ (a b : List Chunk), tokenFrags (a ++ b) = tokenFrags a ++ tokenFrags b := by
      intro a
      induction a with
      | nil => intro b; simp [tokenFrags]
      | cons c cs ih => intro b; cases c <;> simp [tokenFrags, ih]
    intro f hf
    rw [e] at hf
    rcases List.mem_append.mp hf with hf | hf
    · exact ha f hf
    · exact hb f hf
  induction h with
  | tokNone t _ => simp [tokenFrags]
  | tokOne t f hf hp => intro g hg; simp [tokenFrags] at hg; subst hg; rw [hf]; exact Or.inl hp
  | ctokNone t _ => simp [tokenFrags]
  | ctokOne t f hf hp => intro g hg; simp [tokenFrags] at hg; subst hg; rw [hf]; exact Or.inr hp
  | layoutSome m h nd hl => simp [tokenFrags]
  | rulesCons r rs c1 c2 _ _ ih1 ih2 => exact happ _ _ ih1 ih2
  | actsItem sep st v as c1 c2 _ _ ih1 ih2 => exact happ _ _ ih1 ih2
  | actsSep sep as c1 c2 _ _ ih1 ih2 => exact happ _ _ ih1 ih2
  | actsEsep sep as c1 c2 _ _ ih1 ih2 => exact happ _ _ ih1 ih2
  | _ => first | assumption | simp [tokenFrags]

/-- a layout fragment that contains a line terminator is the newline fragment -/
theorem layoutFrag_LT {hd : HData} {is : Option String} (hp : HDataPretty hd is) {f : Frag}
    (hf : IsLayoutFrag hd is f) (hlt : ∃ c ∈ f.text.toList, isLT c = true) : f = newlineFrag hd := by
  obtain ⟨c, hc, hl⟩ := hlt
  cases hf with
  | semi node => simp [fragAt] at hc; subst hc; simp [isLT] at hl
  | lbrace node => simp [fragAt] at hc; subst hc; simp [isLT] at hl
  | rbrace node => simp [fragAt] at hc; subst hc; simp [isLT] at hl
  | spaceImply => rw [hp.space] at hc; simp at hc; subst hc; simp [isLT] at hl
  | spaceDrop => rw [hp.spaceDrop] at hc; simp at hc; subst hc; simp [isLT] at hl
  | newline => rfl
  | indent level hne =>
    simp only [indentFrag, strMul, String.toList_ofList, List.mem_flatten, List.mem_replicate] at hc
    obtain ⟨l, ⟨_, rfl⟩, hcl⟩ := hc
    rw [hp.indentClean c hcl] at hl; cases hl

/-! ### `lineSafe` is preserved by `value * n` -/

theorem flatten_replicate_succ {α : Type} (m : Nat) (l : List α) :
    (List.replicate (m + 1) l).flatten = l ++ (List.replicate m l).flatten := by
  simp [List.replicate_succ]

theorem lineSafe_strMul (v : String) (n : Int) (h : lineSafe v = true) : lineSafe (strMul v n) = true := by
  simp only [lineSafe, Bool.or_eq_true] at h ⊢
  rcases h with h | h
  · left
    simp only [noLT, List.all_eq_true] at h ⊢
    intro c hc
    simp only [strMul, String.toList_ofList, List.mem_flatten, List.mem_replicate] at hc
    obtain ⟨l, ⟨_, rfl⟩, hcl⟩ := hc
    exact h c hcl
  · cases hn : n.toNat with
    | zero => left; simp [noLT, strMul, hn]
    | succ m =>
      right
      simp only [isLiteralOrComment, strMul, String.toList_ofList, hn, flatten_replicate_succ] at h ⊢
      cases hv : v.toList with
      | nil => rw [hv] at h; simp at h
      | cons a t =>
        rw [hv] at h
        cases t with
        | nil =>
          simp only [List.cons_append, List.nil_append] at h ⊢
          split at h <;> simp_all
        | cons b t' =>
          simp only [List.cons_append] at h ⊢
          split at h <;> simp_all

end CalmVerif.Unparse
