/-
Soundness of the abstract analysis, part 3: JoinAttr, the rules, the induction on the fuel (`walk_typed`).
-/
import CalmVerif.Proofs.RoundTripTyped2
namespace CalmVerif.TokenAdj
open CalmVerif CalmVerif.Unparse

variable {σ : Type}

theorem enumFrom_snd_mem {α : Type} : ∀ (i : Nat) (xs : List α) (p : Nat × α), p ∈ enumFrom i xs → p.2 ∈ xs
  | _, [], p, h => by simp [enumFrom] at h
  | i, x :: xs, p, h => by
    simp only [enumFrom, List.mem_cons] at h
    rcases h with rfl | h
    · simp
    · exact List.mem_cons_of_mem _ (enumFrom_snd_mem (i + 1) xs p h)

/-- the items of an iteration are well-formed nodes of the slot's kinds -/
def ItemsOK (cx : Ctx) (ks : List String) (items : List (Step × Val)) : Prop :=
  ∀ q ∈ items, ∃ k as, q.2 = .node k as ∧ k ∈ ks ∧ wfVal cx (.node k as) = true

theorem listItemsOK {cx : Ctx} {ks : List String} {xs : List Val} (h1 : xs.all (kindIn ks) = true)
    (h2 : wfList cx xs = true) (v : Val) (hv : v ∈ xs) : ∃ k as, v = .node k as ∧ k ∈ ks ∧ wfVal cx (.node k as) = true := by
  have := List.all_eq_true.mp h1 v hv
  obtain ⟨k, as, rfl, hk⟩ := kindIn_node this
  exact ⟨k, as, rfl, hk, wfList_mem h2 _ hv⟩

/-- `getattr(node, a)` on a well-formed node, at the level of slot types -/
theorem getattr_slot {cx : Ctx} (k : String) (as : List (String × Val)) (hw : wfVal cx (.node k as) = true) (a : String)
    (v : Val) (h : getattrVal (.node k as) a = .ok v) :
    v = .none ∨ (slotOK (cx.slot k a) v = true ∧ wfVal cx v = true) := by
  simp only [wfVal] at hw
  unfold getattrVal at h
  by_cases h1 : (a == "comments") = true
  · rw [if_pos h1] at h
    have ha : a = "comments" := by simpa using h1
    subst ha
    simp only [nodeAttr] at h
    cases hl : lookupAttr as "@comments" with
    | none => rw [hl] at h; simp at h; exact Or.inl h.symm
    | some w =>
      rw [hl] at h
      simp only [Except.ok.injEq] at h
      subst h
      have := wfAttrs_lookup hw (by decide) hl
      have hk : slotKey "@comments" = "comments" := by decide
      rw [hk] at this
      exact Or.inr this
  · rw [if_neg h1] at h
    by_cases h2 : Val.isMeta a = true
    · rw [if_pos h2] at h; cases h
    · rw [if_neg h2] at h
      simp only [nodeAttr] at h
      cases hl : lookupAttr as a with
      | none => rw [hl] at h; cases h
      | some w =>
        rw [hl] at h
        simp only [Except.ok.injEq] at h
        subst h
        have := wfAttrs_lookup hw (printed_of_not_meta h2) hl
        have hk : slotKey a = a := by
          simp only [slotKey]
          split
          · rename_i hh
            have : a = "@comments" := by simpa using hh
            subst this
            exact absurd (by decide) h2
          · rfl
        rw [hk] at this
        exact Or.inr this

section
variable {cfg : Cfg σ} {cx : Ctx} (hc : TypedCfg cfg cx) (F : Follow)
include hc

theorem iterNode_typed (k : String) (as : List (String × Val)) (hw : wfVal cx (.node k as) = true) (ks : List String)
    (hs : cx.slot k "children" = .nodes ks) (items : List (Step × Val)) (h : iterNode cfg (.node k as) = .ok items) :
    ItemsOK cx ks items := by
  simp only [iterNode] at h
  split at h
  · cases hn : nodeAttr (.node k as) "children" with
    | none => rw [hn] at h; simp at h; subst h; intro q hq; simp at hq
    | some v =>
      rw [hn] at h
      cases v with
      | list xs =>
        simp only [Except.ok.injEq] at h
        subst h
        simp only [wfVal] at hw
        simp only [nodeAttr] at hn
        obtain ⟨h1, h2⟩ := wfAttrs_lookup hw (by decide) hn
        have hk : slotKey "children" = "children" := by decide
        rw [hk, hs] at h1
        simp only [slotOK] at h1
        simp only [wfVal] at h2
        intro q hq
        simp only [List.mem_map, List.mem_filter] at hq
        obtain ⟨p, ⟨hp, _⟩, rfl⟩ := hq
        exact listItemsOK h1 h2 _ (enumFrom_snd_mem 0 xs p hp)
      | none => simp at h
      | bool b => simp at h
      | int i => simp at h
      | str t => simp at h
      | node k2 as2 => simp at h
  · cases h

theorem valItems_typed (k : String) (a : String) (ks : List String) (hs : cx.slot k a = .nodes ks) (v : Val)
    (hv : v = .none ∨ (slotOK (cx.slot k a) v = true ∧ wfVal cx v = true)) (s1 : σ) (items : List (Step × Val)) (s' : σ)
    (h : (match v with
      | .list xs => (.ok ((enumFrom 0 xs).map (fun (p : Nat × Val) => ((a, p.1), p.2)), s1) : Except Err (List (Step × Val) × σ))
      | .node _ _ => (iterNode cfg v).map (fun l => (l, s1))
      | .none => .error (.typeError "'NoneType' object is not iterable")
      | .int _ => .error (.typeError "'int' object is not iterable")
      | .bool _ => .error (.typeError "'bool' object is not iterable")
      | .str _ => .error (.unmodelled "JoinAttr over a str")) = .ok (items, s')) : ItemsOK cx ks items := by
  rcases hv with rfl | ⟨h1, h2⟩
  · cases h
  · rw [hs] at h1
    cases v with
    | list xs =>
      simp only [Except.ok.injEq, Prod.mk.injEq] at h
      simp only [slotOK] at h1
      simp only [wfVal] at h2
      rw [← h.1]
      intro q hq
      simp only [List.mem_map] at hq
      obtain ⟨p, hp, rfl⟩ := hq
      exact listItemsOK h1 h2 _ (enumFrom_snd_mem 0 xs p hp)
    | none => simp [slotOK] at h1
    | bool b => simp [slotOK] at h1
    | int i => simp [slotOK] at h1
    | str t => simp [slotOK] at h1
    | node k2 as2 => simp [slotOK] at h1

theorem getIter_typed (path : Path) (k : String) (as : List (String × Val)) (hw : wfVal cx (.node k as) = true)
    (src : AttrSrc) (ks : List String) (hik : itemKinds cx k src = some ks) (s : σ) (items : List (Step × Val)) (s1 : σ)
    (h : getIter cfg path (.node k as) src s = .ok (items, s1)) : ItemsOK cx ks items := by
  cases src with
  | iter =>
    simp only [itemKinds] at hik
    split at hik
    · rename_i ks' hs
      cases hik
      simp only [getIter] at h
      obtain ⟨l, h1, h2⟩ := except_map_ok h
      simp only [Prod.mk.injEq] at h2
      rw [← h2.1]
      exact iterNode_typed hc k as hw ks hs l h1
    · cases hik
  | name a =>
    simp only [itemKinds] at hik
    split at hik
    · rename_i ks' hs
      cases hik
      simp only [getIter, getSrc] at h
      cases hg : getattrVal (.node k as) a with
      | error x => rw [hg] at h; cases h
      | ok v =>
        rw [hg] at h
        simp only [Except.map] at h
        exact valItems_typed hc k a ks hs v (getattr_slot k as hw a v hg) s items s1 h
    · cases hik
  | declare a =>
    simp only [itemKinds] at hik
    split at hik
    · rename_i ks' hs
      cases hik
      simp only [getIter, getSrc] at h
      cases hg : getattrVal (.node k as) a with
      | error x => rw [hg] at h; cases h
      | ok v =>
        rw [hg] at h
        simp only at h
        have hv := getattr_slot (cx := cx) k as hw a v hg
        by_cases hem : isEmptyVal v = true
        · rw [if_pos hem] at h
          exact valItems_typed hc k a ks hs v hv s items s1 h
        · rw [if_neg hem, runDeclare_noHooks hc.hooks] at h
          simp only [Except.map] at h
          exact valItems_typed hc k a ks hs v hv s items s1 h
    · cases hik
  | resolve => simp [itemKinds] at hik
  | literal => simp [itemKinds] at hik
  | lineComment => simp [itemKinds] at hik
  | blockComment => simp [itemKinds] at hik

end
end CalmVerif.TokenAdj
